#!/bin/sh
# Offline build of the framework: Lean theorems + drivers, Go extractor + harnesses.
set -e
cd "$(dirname "$0")"
export GOFLAGS=-mod=mod GOPROXY=off GOSUMDB=off GOTOOLCHAIN=local
mkdir -p .work evidence
(cd go && go run ./extract -repo /repo -o ../lean/MassVerif/Generated/Facts.lean -engine ../lean/MassVerif/Generated/Engine.lean)
(cd lean && lake build)
(cd go && go build -tags verif ./... )
echo setup done
