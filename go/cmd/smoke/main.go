package main

import (
	"fmt"

	"massnet.org/mass/poc/wallet/db"
	_ "massnet.org/mass/poc/wallet/db/ldb"
)

func main() { fmt.Println(db.RegisteredDbTypes()) }
