// Command mkproofs precomputes real bit-length-24 proofs of capacity, all answering ONE challenge, for a list of
// derived keys (full construction per key: 2^25 MASS-SHA256 evaluations).  The output (harness/miner/proofs.json)
// is input data of the C08 harness; every entry is re-verified there with the library's own VerifiedQuality on
// every run, so a stale or wrong file cannot make a check pass.
package main

import (
	"crypto/sha256"
	"encoding/binary"
	"encoding/hex"
	"encoding/json"
	"flag"
	"fmt"
	"os"
	"strconv"
	"sync"

	"github.com/massnetorg/mass-core/poc/pocutil"
	"github.com/massnetorg/mass-core/pocec"
)

const bl = 24

type Entry struct {
	Key int    `json:"key"`
	X   uint64 `json:"x"`
	XP  uint64 `json:"xp"`
}
type File struct {
	BL        int     `json:"bl"`
	Challenge string  `json:"challenge"` // 32 bytes hex
	Z         uint64  `json:"z"`
	Proofs    []Entry `json:"proofs"`
}

func KeyFor(i int) *pocec.PrivateKey {
	s := sha256.Sum256([]byte("miner-key-" + strconv.Itoa(i)))
	priv, _ := pocec.PrivKeyFromBytes(pocec.S256(), s[:])
	return priv
}

// all pairs of the construction for one key, reported through f
func construct(key int, f func(x, xp, z uint64) bool) {
	pkh := pocutil.PubKeyHash(KeyFor(key).PubKey())
	n := uint64(1) << bl
	a := make([]uint32, n)
	for x := uint64(1); x < n; x++ {
		a[pocutil.P(pocutil.PoCValue(x), bl, pkh)] = uint32(x)
	}
	for y := uint64(0); y < n/2; y++ {
		x, xp := uint64(a[y]), uint64(a[uint64(pocutil.FlipValue(pocutil.PoCValue(y), bl))])
		if x == 0 || xp == 0 {
			continue
		}
		if f(x, xp, uint64(pocutil.F(pocutil.PoCValue(x), pocutil.PoCValue(xp), bl, pkh))) {
			return
		}
		if f(xp, x, uint64(pocutil.F(pocutil.PoCValue(xp), pocutil.PoCValue(x), bl, pkh))) {
			return
		}
	}
}

func main() {
	out := flag.String("o", "harness/miner/proofs.json", "output")
	want := flag.Int("n", 10, "proofs wanted")
	maxKeys := flag.Int("keys", 32, "keys to try")
	flag.Parse()
	// the challenge: fixed bytes; its low 24 bits are the prefix every proof must answer
	ch := sha256.Sum256([]byte("miner-challenge"))
	z := binary.LittleEndian.Uint64(ch[:8]) & (1<<bl - 1)
	var mu sync.Mutex
	var res []Entry
	var wg sync.WaitGroup
	sem := make(chan struct{}, 12)
	for k := 0; k < *maxKeys; k++ {
		wg.Add(1)
		sem <- struct{}{}
		go func(k int) {
			defer wg.Done()
			defer func() { <-sem }()
			mu.Lock()
			enough := len(res) >= *want
			mu.Unlock()
			if enough {
				return
			}
			construct(k, func(x, xp, zz uint64) bool {
				if zz == z {
					mu.Lock()
					res = append(res, Entry{k, x, xp})
					mu.Unlock()
					fmt.Fprintf(os.Stderr, "key %d: proof (%d,%d)\n", k, x, xp)
					return true
				}
				return false
			})
		}(k)
	}
	wg.Wait()
	f := File{BL: bl, Challenge: hex.EncodeToString(ch[:]), Z: z, Proofs: res}
	b, _ := json.MarshalIndent(f, "", " ")
	if err := os.WriteFile(*out, b, 0o644); err != nil {
		panic(err)
	}
	fmt.Println(len(res), "proofs written to", *out)
}
