module verifharness

go 1.21

require (
	github.com/google/uuid v1.3.0
	github.com/massnetorg/mass-core v0.0.0-20210816132538-be1c10e6c62a
	google.golang.org/grpc v1.26.0
	massnet.org/mass v0.0.0
)

require (
	github.com/btcsuite/btcd v0.20.1-beta // indirect
	github.com/go-kit/kit v0.9.0 // indirect
	github.com/go-logfmt/logfmt v0.4.0 // indirect
	github.com/gogo/protobuf v1.3.1 // indirect
	github.com/golang/groupcache v0.0.0-20191227052852-215e87163ea7 // indirect
	github.com/golang/protobuf v1.4.2 // indirect
	github.com/golang/snappy v0.0.1 // indirect
	github.com/grpc-ecosystem/grpc-gateway v1.14.5 // indirect
	github.com/lestrrat/go-file-rotatelogs v0.0.0-20180223000712-d3151e2a480f // indirect
	github.com/lestrrat/go-strftime v0.0.0-20180220042222-ba3bf9c1d042 // indirect
	github.com/massnetorg/tendermint v1.0.0 // indirect
	github.com/orcaman/concurrent-map v0.0.0-20190314100340-2693aad1ed75 // indirect
	github.com/panjf2000/ants/v2 v2.4.6 // indirect
	github.com/pkg/errors v0.8.1 // indirect
	github.com/rifflock/lfshook v0.0.0-20180920164130-b9218ef580f5 // indirect
	github.com/shirou/gopsutil v3.21.5+incompatible // indirect
	github.com/shopspring/decimal v1.2.0 // indirect
	github.com/sirupsen/logrus v1.2.0 // indirect
	github.com/syndtr/goleveldb v1.0.1-0.20210305035536-64b5b1c73954 // indirect
	golang.org/x/crypto v0.0.0-20210322153248-0c34fe9e7dc2 // indirect
	golang.org/x/net v0.0.0-20210226172049-e18ecbb05110 // indirect
	golang.org/x/sys v0.0.0-20210420205809-ac73e9fd8988 // indirect
	golang.org/x/term v0.0.0-20201126162022-7de9c90e9dd1 // indirect
	golang.org/x/text v0.3.3 // indirect
	google.golang.org/genproto v0.0.0-20200108215221-bd8f9a0ef82f // indirect
	google.golang.org/protobuf v1.23.0 // indirect
	gopkg.in/fatih/set.v0 v0.2.1 // indirect
	gopkg.in/karalabe/cookiejar.v2 v2.0.0-20150724131613-8dcd6a7f4951 // indirect
)

replace massnet.org/mass => /repo
