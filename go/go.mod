module verifharness

go 1.21

require massnet.org/mass v0.0.0

require (
	github.com/golang/snappy v0.0.1 // indirect
	github.com/lestrrat/go-file-rotatelogs v0.0.0-20180223000712-d3151e2a480f // indirect
	github.com/lestrrat/go-strftime v0.0.0-20180220042222-ba3bf9c1d042 // indirect
	github.com/massnetorg/mass-core v0.0.0-20210816132538-be1c10e6c62a // indirect
	github.com/pkg/errors v0.8.1 // indirect
	github.com/rifflock/lfshook v0.0.0-20180920164130-b9218ef580f5 // indirect
	github.com/sirupsen/logrus v1.2.0 // indirect
	github.com/syndtr/goleveldb v1.0.1-0.20210305035536-64b5b1c73954 // indirect
	golang.org/x/crypto v0.0.0-20210322153248-0c34fe9e7dc2 // indirect
	golang.org/x/sys v0.0.0-20210420205809-ac73e9fd8988 // indirect
	golang.org/x/term v0.0.0-20201126162022-7de9c90e9dd1 // indirect
)

replace massnet.org/mass => /repo
