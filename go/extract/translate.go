package main

// A small translator: the unsigned-integer enum helpers of poc/engine/engine.go (and engine.v2) become Lean
// definitions over `BitVec`, regenerated on every run (MassVerif/Generated/Engine.lean).  Unlike the hand-written
// models, these definitions ARE the source, re-read each time; the theorems of Props/C09Flags.lean are about them.
//
// Fragment handled (anything else aborts the translation, which the check reports as a broken obligation):
//   * typed constants of the translated types in `const` blocks, with `iota`, `<<`, `|` and references to each other;
//   * methods whose body is `return <expr>` over the receiver, parameters, those constants, integer literals,
//     `& | ^ << >> + -`, comparisons, `&& || !`, parentheses and calls of other translated methods;
//   * the loop shape `xs := make(...); for s := A; s <= B; s++ { if <cond> { xs = append(xs, s) } }; return xs`.

import (
	"fmt"
	"go/ast"
	"go/token"
	"os"
	"sort"
	"strings"
)

type trType struct {
	goName string
	width  int
}

type translator struct {
	p      *pkgInfo
	dir    string
	types  map[string]int // Go type name -> bit width
	consts map[string]string
	ctype  map[string]string // constant -> Go type
	funcs  map[string]bool   // "Type.Method"
	out    []string
	vars   map[string]string // in-scope variable -> Go type
}

type translateError string

// fail aborts the translation: the source left the translated fragment.  Only the theorems about the translated
// definitions (Props/C09Flags) are affected - writeEngine then leaves a file without definitions.
func (t *translator) fail(f string, a ...interface{}) {
	panic(translateError(fmt.Sprintf(t.dir+": "+f, a...)))
}

func (t *translator) emit(f string, a ...interface{}) { t.out = append(t.out, fmt.Sprintf(f, a...)) }

// typeOfConst: the declared type of a constant (explicit, or inherited in an iota block, or that of the constants it mentions)
func (t *translator) constTypes() {
	for _, f := range t.p.files {
		for _, d := range f.Decls {
			gd, ok := d.(*ast.GenDecl)
			if !ok || gd.Tok != token.CONST {
				continue
			}
			cur := ""
			for _, s := range gd.Specs {
				vs := s.(*ast.ValueSpec)
				if vs.Type != nil {
					if id, ok := vs.Type.(*ast.Ident); ok {
						cur = id.Name
					} else {
						cur = ""
					}
				} else if len(vs.Values) > 0 {
					// untyped: the type of the constants it mentions, if any
					cur2 := ""
					ast.Inspect(vs.Values[0], func(n ast.Node) bool {
						if id, ok := n.(*ast.Ident); ok {
							if ty, ok := t.ctype[id.Name]; ok {
								cur2 = ty
							}
						}
						return true
					})
					if cur2 != "" {
						for _, nm := range vs.Names {
							t.ctype[nm.Name] = cur2
						}
						continue
					}
					cur = ""
				}
				if _, ok := t.types[cur]; ok {
					for _, nm := range vs.Names {
						t.ctype[nm.Name] = cur
					}
				}
			}
		}
	}
}

func (t *translator) lit(v string, w int) string { return fmt.Sprintf("%s#%d", v, w) }

// expr translates an expression expected to have the width `w` (0 = boolean)
func (t *translator) expr(e ast.Expr, w int, iota int) string {
	switch x := e.(type) {
	case *ast.ParenExpr:
		return "(" + t.expr(x.X, w, iota) + ")"
	case *ast.BasicLit:
		if x.Kind == token.INT && w > 0 {
			return t.lit(x.Value, w)
		}
	case *ast.Ident:
		if x.Name == "iota" && w > 0 {
			return t.lit(fmt.Sprint(iota), w)
		}
		if x.Name == "true" || x.Name == "false" {
			return x.Name
		}
		if _, ok := t.vars[x.Name]; ok {
			return x.Name
		}
		if ty, ok := t.ctype[x.Name]; ok {
			if w > 0 && t.types[ty] != w {
				t.fail("constant %s has width %d where %d is expected", x.Name, t.types[ty], w)
			}
			return x.Name
		}
	case *ast.UnaryExpr:
		if x.Op == token.NOT && w == 0 {
			return "(!" + t.expr(x.X, 0, iota) + ")"
		}
	case *ast.BinaryExpr:
		switch x.Op {
		case token.AND, token.OR, token.XOR, token.ADD, token.SUB:
			if w > 0 {
				op := map[token.Token]string{token.AND: "&&&", token.OR: "|||", token.XOR: "^^^", token.ADD: "+", token.SUB: "-"}[x.Op]
				return "(" + t.expr(x.X, w, iota) + " " + op + " " + t.expr(x.Y, w, iota) + ")"
			}
		case token.SHL, token.SHR:
			if w > 0 {
				// Go: a shift count >= the width yields 0; BitVec `<<<` / `>>>` by a natural number does the same
				op := map[token.Token]string{token.SHL: "<<<", token.SHR: ">>>"}[x.Op]
				return "(" + t.expr(x.X, w, iota) + " " + op + " " + t.shiftCount(x.Y, iota) + ")"
			}
		case token.EQL, token.NEQ, token.LEQ, token.GEQ, token.LSS, token.GTR:
			if w == 0 {
				ow := t.widthOf(x.X)
				if ow == 0 {
					ow = t.widthOf(x.Y)
				}
				if ow == 0 {
					t.fail("cannot type comparison")
				}
				a, b := t.expr(x.X, ow, iota), t.expr(x.Y, ow, iota)
				switch x.Op {
				case token.EQL:
					return "(" + a + " == " + b + ")"
				case token.NEQ:
					return "(" + a + " != " + b + ")"
				case token.LEQ: // unsigned types only
					return "(BitVec.ule " + a + " " + b + ")"
				case token.GEQ:
					return "(BitVec.ule " + b + " " + a + ")"
				case token.LSS:
					return "(BitVec.ult " + a + " " + b + ")"
				case token.GTR:
					return "(BitVec.ult " + b + " " + a + ")"
				}
			}
		case token.LAND, token.LOR:
			if w == 0 {
				op := map[token.Token]string{token.LAND: "&&", token.LOR: "||"}[x.Op]
				return "(" + t.expr(x.X, 0, iota) + " " + op + " " + t.expr(x.Y, 0, iota) + ")"
			}
		}
	case *ast.CallExpr:
		// method call on a translated type: recv.Method(args)
		if sel, ok := x.Fun.(*ast.SelectorExpr); ok {
			rw := t.widthOf(sel.X)
			rty := t.typeOf(sel.X)
			if rw > 0 && t.funcs[rty+"."+sel.Sel.Name] {
				args := []string{t.expr(sel.X, rw, iota)}
				fd := findFunc(t.dir, rty, sel.Sel.Name)
				for i, a := range x.Args {
					pty := paramType(fd, i)
					args = append(args, t.expr(a, t.types[pty], iota))
				}
				return "(" + rty + "." + sel.Sel.Name + " " + strings.Join(args, " ") + ")"
			}
		}
		// conversion T(x) between translated types of the same width
		if id, ok := x.Fun.(*ast.Ident); ok && len(x.Args) == 1 {
			if tw, ok := t.types[id.Name]; ok && tw == w {
				return t.expr(x.Args[0], w, iota)
			}
		}
	}
	t.fail("expression outside the translated fragment: %T at %v", e, t.p.fset.Position(e.Pos()))
	return ""
}

// shiftCount: a shift count as a natural number
func (t *translator) shiftCount(e ast.Expr, iota int) string {
	if lit, ok := e.(*ast.BasicLit); ok && lit.Kind == token.INT {
		return lit.Value
	}
	if id, ok := e.(*ast.Ident); ok && id.Name == "iota" {
		return fmt.Sprint(iota)
	}
	w := t.widthOf(e)
	if w == 0 {
		t.fail("shift count outside the fragment at %v", t.p.fset.Position(e.Pos()))
	}
	return "(" + t.expr(e, w, iota) + ").toNat"
}

func paramType(fd *ast.FuncDecl, i int) string {
	k := 0
	for _, f := range fd.Type.Params.List {
		for range f.Names {
			if k == i {
				if id, ok := f.Type.(*ast.Ident); ok {
					return id.Name
				}
			}
			k++
		}
	}
	return ""
}

func (t *translator) typeOf(e ast.Expr) string {
	switch x := e.(type) {
	case *ast.ParenExpr:
		return t.typeOf(x.X)
	case *ast.Ident:
		if ty, ok := t.vars[x.Name]; ok {
			return ty
		}
		if ty, ok := t.ctype[x.Name]; ok {
			return ty
		}
	case *ast.CallExpr:
		if sel, ok := x.Fun.(*ast.SelectorExpr); ok {
			rty := t.typeOf(sel.X)
			if fd := findFunc(t.dir, rty, sel.Sel.Name); fd != nil && fd.Type.Results != nil && len(fd.Type.Results.List) == 1 {
				if id, ok := fd.Type.Results.List[0].Type.(*ast.Ident); ok {
					return id.Name
				}
			}
		}
		if id, ok := x.Fun.(*ast.Ident); ok {
			if _, ok := t.types[id.Name]; ok {
				return id.Name
			}
		}
	case *ast.BinaryExpr:
		if a := t.typeOf(x.X); a != "" {
			return a
		}
		return t.typeOf(x.Y)
	}
	return ""
}

func (t *translator) widthOf(e ast.Expr) int { return t.types[t.typeOf(e)] }

func (t *translator) resultLean(fd *ast.FuncDecl) (string, int, bool) {
	if fd.Type.Results == nil || len(fd.Type.Results.List) != 1 {
		return "", 0, false
	}
	switch r := fd.Type.Results.List[0].Type.(type) {
	case *ast.Ident:
		if r.Name == "bool" {
			return "Bool", 0, true
		}
		if w, ok := t.types[r.Name]; ok {
			return r.Name, w, true
		}
	case *ast.ArrayType:
		if id, ok := r.Elt.(*ast.Ident); ok && r.Len == nil {
			if _, ok := t.types[id.Name]; ok {
				return "List " + id.Name, -1, true
			}
		}
	}
	return "", 0, false
}

// translateEnums emits one Lean namespace for the enum helpers of `dir`.
func translateEnums(dir, ns string, types []trType, methods []string) []string {
	t := &translator{p: loadPkg(dir), dir: dir, types: map[string]int{}, consts: map[string]string{}, ctype: map[string]string{}, funcs: map[string]bool{}}
	for _, ty := range types {
		t.types[ty.goName] = ty.width
	}
	for _, m := range methods {
		t.funcs[m] = true
	}
	t.constTypes()
	t.constTypes() // second pass: untyped constants that mention constants typed in the first
	t.emit("namespace %s", ns)
	for _, ty := range types {
		t.emit("/-- Go: `type %s uint%d` -/\nabbrev %s := BitVec %d", ty.goName, ty.width, ty.goName, ty.width)
	}
	// constants, in dependency-friendly order: by source position
	type cdecl struct {
		name string
		pos  token.Pos
	}
	var cs []cdecl
	for n := range t.ctype {
		cs = append(cs, cdecl{n, t.p.decls[n].Pos()})
	}
	// a constant must follow the constants it mentions: emit in rounds
	sort.Slice(cs, func(i, j int) bool { return cs[i].name < cs[j].name })
	done := map[string]bool{}
	for len(done) < len(cs) {
		progress := false
		for _, c := range cs {
			if done[c.name] {
				continue
			}
			ready := true
			ast.Inspect(t.p.decls[c.name], func(n ast.Node) bool {
				if id, ok := n.(*ast.Ident); ok {
					if _, isC := t.ctype[id.Name]; isC && !done[id.Name] && id.Name != c.name {
						ready = false
					}
				}
				return true
			})
			if !ready {
				continue
			}
			ty := t.ctype[c.name]
			t.vars = map[string]string{}
			t.emit("/-- Go: `%s` -/\ndef %s : %s := %s", c.name, c.name, ty, t.expr(t.p.decls[c.name], t.types[ty], t.p.iotas[c.name]))
			done[c.name] = true
			progress = true
		}
		if !progress {
			t.fail("cyclic constants")
		}
	}
	for _, m := range methods {
		parts := strings.SplitN(m, ".", 2)
		fd := findFunc(dir, parts[0], parts[1])
		if fd == nil {
			t.fail("method %s not found", m)
		}
		rty, rw, ok := t.resultLean(fd)
		if !ok {
			t.fail("method %s: result type outside the fragment", m)
		}
		t.vars = map[string]string{}
		recv := fd.Recv.List[0].Names[0].Name
		t.vars[recv] = parts[0]
		sig := fmt.Sprintf("(%s : %s)", recv, parts[0])
		for _, f := range fd.Type.Params.List {
			id, ok := f.Type.(*ast.Ident)
			if !ok {
				t.fail("method %s: parameter type outside the fragment", m)
			}
			if _, ok := t.types[id.Name]; !ok {
				t.fail("method %s: parameter type %s outside the fragment", m, id.Name)
			}
			for _, n := range f.Names {
				t.vars[n.Name] = id.Name
				sig += fmt.Sprintf(" (%s : %s)", n.Name, id.Name)
			}
		}
		body := fd.Body.List
		src := strings.Join(strings.Fields(srcOf(dir, fd)), " ")
		if len(body) == 1 {
			ret, ok := body[0].(*ast.ReturnStmt)
			if !ok || len(ret.Results) != 1 || rw < 0 {
				t.fail("method %s: body outside the fragment", m)
			}
			t.emit("/-- Go: `%s` -/\ndef %s.%s %s : %s := %s", src, parts[0], parts[1], sig, rty, t.expr(ret.Results[0], rw, 0))
			continue
		}
		// the filter loop
		if len(body) == 3 && rw == -1 {
			asg, ok1 := body[0].(*ast.AssignStmt)
			loop, ok2 := body[1].(*ast.ForStmt)
			ret, ok3 := body[2].(*ast.ReturnStmt)
			if ok1 && ok2 && ok3 && len(asg.Lhs) == 1 && len(ret.Results) == 1 {
				acc := asg.Lhs[0].(*ast.Ident).Name
				init, okI := loop.Init.(*ast.AssignStmt)
				cond, okC := loop.Cond.(*ast.BinaryExpr)
				post, okP := loop.Post.(*ast.IncDecStmt)
				if okI && okC && okP && cond.Op == token.LEQ && post.Tok == token.INC && len(loop.Body.List) == 1 {
					iv := init.Lhs[0].(*ast.Ident).Name
					ifs, okIf := loop.Body.List[0].(*ast.IfStmt)
					if okIf && ifs.Else == nil && ifs.Init == nil && len(ifs.Body.List) == 1 && ident(cond.X) == iv && ident(post.X) == iv && ident(ret.Results[0]) == acc {
						app, okA := ifs.Body.List[0].(*ast.AssignStmt)
						if okA && len(app.Rhs) == 1 {
							call, okCall := app.Rhs[0].(*ast.CallExpr)
							if okCall && ident(call.Fun) == "append" && len(call.Args) == 2 && ident(call.Args[0]) == acc && ident(call.Args[1]) == iv && ident(app.Lhs[0]) == acc {
								elt := strings.TrimPrefix(rty, "List ")
								ew := t.types[elt]
								lo, hi := t.expr(init.Rhs[0], ew, 0), t.expr(cond.Y, ew, 0)
								t.vars[iv] = elt
								t.emit("/-- Go: `%s` -/\ndef %s.%s %s : %s :=\n  rangeFilter %s %s (fun %s => %s)", src, parts[0], parts[1], sig, rty, lo, hi, iv, t.expr(ifs.Cond, 0, 0))
								continue
							}
						}
					}
				}
			}
		}
		t.fail("method %s: body outside the fragment", m)
	}
	t.emit("end %s", ns)
	return t.out
}

func ident(e ast.Node) string {
	if id, ok := e.(*ast.Ident); ok {
		return id.Name
	}
	return ""
}

// writeEngine regenerates MassVerif/Generated/Engine.lean next to the facts file.
func writeEngine(path string) {
	var ls []string
	ls = append(ls, "-- GENERATED by /verif/go/extract (translate.go) from poc/engine/engine.go and poc/engine.v2/engine.go. DO NOT EDIT.")
	ls = append(ls, "namespace MassVerif.Gen")
	ls = append(ls, "/-- `for s := lo; s <= hi; s++ { if p(s) { xs = append(xs, s) } }` over an unsigned type (no wrap-around: `hi` below the maximum) -/")
	ls = append(ls, "def rangeFilter {w : Nat} (lo hi : BitVec w) (p : BitVec w → Bool) : List (BitVec w) :=")
	ls = append(ls, "  ((List.range (hi.toNat + 1 - lo.toNat)).map (fun i => BitVec.ofNat w (lo.toNat + i))).filter p")
	ls = append(ls, "end MassVerif.Gen")
	methods := []string{"WorkSpaceState.IsValid", "WorkSpaceState.Flag", "WorkSpaceStateFlags.IsNone", "WorkSpaceStateFlags.Contains", "WorkSpaceStateFlags.States", "ActionType.IsValid"}
	types := []trType{{"WorkSpaceState", 32}, {"WorkSpaceStateFlags", 32}, {"ActionType", 8}}
	func() {
		defer func() {
			if r := recover(); r != nil {
				te, ok := r.(translateError)
				if !ok {
					panic(r)
				}
				fmt.Fprintln(os.Stderr, "extract/translate:", string(te))
				ls = []string{"-- GENERATED by /verif/go/extract (translate.go). DO NOT EDIT.",
					"-- TRANSLATION FAILED: the enum helpers of poc/engine left the translated fragment:",
					"-- " + strings.ReplaceAll(string(te), "\n", " "),
					"-- (no definitions: Props/C09Flags no longer checks)"}
			}
		}()
		for _, x := range []struct{ dir, ns string }{{"poc/engine", "MassVerif.Gen.Engine"}, {"poc/engine.v2", "MassVerif.Gen.EngineV2"}} {
			ls = append(ls, translateEnums(x.dir, x.ns, types, methods)...)
		}
	}()
	text := strings.Join(ls, "\n") + "\n"
	old, _ := os.ReadFile(path)
	if string(old) == text {
		return
	}
	if err := os.WriteFile(path, []byte(text), 0o644); err != nil {
		fatal("%v", err)
	}
}
