package main

// factsAll: facts of the other subsystems (extended as models are added).
func factsAll() {
}
