package main

import (
	"fmt"
	"go/ast"
	"os"
	"os/exec"
	"path/filepath"
	"regexp"
	"strconv"
	"strings"
)

// factsAll: facts of the other subsystems (extended as models are added).
func factsAll() {
	factsApi()
	factsCodec()
	factsHD()
}

func factsHD() {
	const d = "poc/wallet/keystore/hdkeychain"
	intFact("hardenedKeyStart", d, "HardenedKeyStart")
	intFact("serializedKeyLen", d, "serializedKeyLen")
	intFact("minSeedBytes", d, "MinSeedBytes")
	intFact("maxSeedBytes", d, "MaxSeedBytes")
	strFact("hdMasterKey", d, "masterKey")
}

func factsCodec() {
	const d = "fractal/protocol"
	for _, n := range []string{"MsgTypeReserved", "MsgTypeRequestQualities", "MsgTypeReportQualities", "MsgTypeRequestProof",
		"MsgTypeReportProof", "MsgTypeRequestSignature", "MsgTypeReportSignature", "msgTypeByteSize"} {
		intFact(strings.ToLower(n[:1])+n[1:], d, n)
	}
	intFact("defaultMaxRecvMsgSize", "fractal/connection", "defaultMaxRecvMsgSize")
	// structural fact: in receiveRoutine the size check against maxRecvMsgSize precedes the allocation
	fd := findFunc("fractal/connection", "Conn", "receiveRoutine")
	if fd == nil {
		fatal("fractal/connection: no receiveRoutine")
	}
	checkPos, makePos := 0, 0
	ast.Inspect(fd, func(n ast.Node) bool {
		switch x := n.(type) {
		case *ast.BinaryExpr:
			// exactly `size > conn.opts.maxRecvMsgSize`: no arithmetic on the peer-controlled uint32
			if sel, ok := x.Y.(*ast.SelectorExpr); ok && sel.Sel.Name == "maxRecvMsgSize" && x.Op.String() == ">" && checkPos == 0 {
				if id, ok := x.X.(*ast.Ident); ok && id.Name == "size" {
					checkPos = int(x.Pos())
				}
			}
		case *ast.CallExpr:
			if id, ok := x.Fun.(*ast.Ident); ok && id.Name == "make" && makePos == 0 {
				makePos = int(x.Pos())
			}
		}
		return true
	})
	emit("/-- in `(*Conn).receiveRoutine` the comparison `size > maxRecvMsgSize` occurs, and before the first `make` -/\ndef recvBoundCheckedBeforeAlloc : Bool := %v", checkPos != 0 && makePos != 0 && checkPos < makePos)
}

// massCoreDir locates the vendored chain library in the module cache (version from /repo/go.mod).
func massCoreDir() string {
	b, err := os.ReadFile(filepath.Join(*repo, "go.mod"))
	if err != nil {
		fatal("%v", err)
	}
	m := regexp.MustCompile(`github.com/massnetorg/mass-core (v[^\s]+)`).FindStringSubmatch(string(b))
	if m == nil {
		fatal("mass-core not required in go.mod")
	}
	out, err := exec.Command("go", "env", "GOMODCACHE").Output()
	if err != nil {
		fatal("go env: %v", err)
	}
	return filepath.Join(strings.TrimSpace(string(out)), "github.com/massnetorg/mass-core@"+m[1])
}

// intFactAbs: like intFact but for a package at an absolute directory (module cache).
func intFactAbs(lean, absdir, name string) {
	save := *repo
	*repo = "/"
	defer func() { *repo = save }()
	intFact(lean, strings.TrimPrefix(absdir, "/"), name)
}

func factsApi() {
	// the three RFC1918 rules of api/gateway.go: key, network address, prefix length
	p := loadPkg("api")
	type rule struct {
		ip   string
		ones int64
	}
	rules := map[string]rule{}
	for name, e := range p.decls {
		if !strings.HasPrefix(name, "rfc1918_") {
			continue
		}
		cl, ok := e.(*ast.CompositeLit)
		if !ok {
			fatal("api.%s: not a composite literal", name)
		}
		var r rule
		for _, el := range cl.Elts {
			kv := el.(*ast.KeyValueExpr)
			call, ok := kv.Value.(*ast.CallExpr)
			if !ok {
				fatal("api.%s: unexpected field value", name)
			}
			switch kv.Key.(*ast.Ident).Name {
			case "IP":
				r.ip, _ = p.evalStr(call.Args[0])
			case "Mask":
				r.ones, _ = p.evalInt(call.Args[0], 0)
				if bits, _ := p.evalInt(call.Args[1], 0); bits != 32 {
					fatal("api.%s: mask is not over 32 bits", name)
				}
			}
		}
		rules[name] = r
	}
	lr, ok := p.decls["lanRules"].(*ast.CompositeLit)
	if !ok {
		fatal("api.lanRules: not a composite literal")
	}
	var items []string
	for _, el := range lr.Elts {
		kv := el.(*ast.KeyValueExpr)
		key, _ := p.evalStr(kv.Key)
		r, ok := rules[kv.Value.(*ast.Ident).Name]
		if !ok {
			fatal("api.lanRules: unknown rule")
		}
		var q [4]int
		parts := strings.Split(r.ip, ".")
		if len(parts) != 4 {
			fatal("api.lanRules: %q is not dotted quad", r.ip)
		}
		for i, s := range parts {
			q[i], _ = strconv.Atoi(s)
		}
		items = append(items, fmt.Sprintf("(%s, %d, %d, %d, %d, %d)", leanStr(key), q[0], q[1], q[2], q[3], r.ones))
	}
	// map iteration order of the source literal is preserved (AST order)
	emit("/-- `lanRules` in api/gateway.go: (config key, network a.b.c.d, prefix length) -/\ndef lanRules : List (String × Nat × Nat × Nat × Nat × Nat) := [%s]", strings.Join(items, ", "))
	mc := massCoreDir()
	intFactAbs("maxwellPerMass", filepath.Join(mc, "consensus"), "MaxwellPerMass")
	intFactAbs("maxMass", filepath.Join(mc, "consensus"), "MaxMass")
}
