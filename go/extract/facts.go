package main

import (
	"fmt"
	"go/ast"
	"os"
	"os/exec"
	"path/filepath"
	"regexp"
	"sort"
	"strconv"
	"strings"
)

// factsAll: facts of the other subsystems (extended as models are added).
func factsAll() {
	factsApi()
	factsCodec()
	factsHD()
	factsWalletTx()
	factsKeeper()
	factsConfig()
	factsMiner()
	factsFractal()
	factsConditions()
}

// factsConditions: the comparison expressions the models transcribe, as they stand in the source (white space
// removed).  A theorem per model lists the expected texts; an edit of one of these conditions re-opens it.
func factsConditions() {
	squash := func(t string) string { return strings.Join(strings.Fields(t), "") }
	has := func(dir, fn string, texts ...string) bool {
		fd := findFuncAny(dir, fn)
		if i := strings.Index(fn, "."); i >= 0 { // "Recv.Name"; ".Name" = the free function
			fd = findFunc(dir, fn[:i], fn[i+1:])
		}
		if fd == nil {
			return false
		}
		src := squash(srcOf(dir, fd))
		for _, t := range texts {
			if !strings.Contains(src, squash(t)) {
				return false
			}
		}
		return true
	}
	const cap = "poc/engine/spacekeeper/capacity"
	const mn = "poc/engine/pocminer/miner"
	type c struct {
		lean, dir, fn string
		texts         []string
	}
	for _, x := range []c{
		{"condFillBySize", cap, "fillSpaceListBySize", []string{"currentSize > targetSize", "currentSize == targetSize || targetSize-currentSize < int(poc.ProofTypeDefault.PlotSize(poc.MinValidDefaultBitLength))"}},
		{"condFillByPath", cap, "fillSpaceListByPathSize", []string{"space.rootDir != path", "currentSize > targetSize", "currentSize == targetSize || targetSize-currentSize < int(poc.ProofTypeDefault.PlotSize(poc.MinValidDefaultBitLength))"}},
		{"condGenBySize", cap, "generateFillSpaceListBySize", []string{"!sk.allowGenerateNewSpace", "sk.checkOSDiskSize(targetSize - currentSize)", "targetSize-currentSize < int(poc.ProofTypeDefault.PlotSize(bl))"}},
		{"condGenByPath", cap, "generateFillSpaceListByPathSize", []string{"!sk.allowGenerateNewSpace", "checkOSDiskSizeByPath(path, targetSize-currentSize)", "targetSize-currentSize < int(poc.ProofTypeDefault.PlotSize(bl))"}},
		{"condCheckDisk", cap, "checkOSDiskSizeByPath", []string{"requiredBytes < 0", "uint64(requiredBytes) >= info.Free"}},
		{"condConfigureBySize", cap, "ConfigureBySize", []string{"targetSize < poc.ProofTypeDefault.PlotSize(usableBitLength()[0])", "int(targetSize)"}},
		{"condPlotMem", "poc/engine/massdb/massdb.v1", ".makeAvailableMemory", []string{"requiredMem > maxMem", "requiredMem = maxMem", "requiredMem > available", "available < minMem", "requiredMem = (available / minMem) * minMem", "cache.Update(requiredMem)"}},
		{"condPlotPassA", "poc/engine/massdb/massdb.v1", "prePlotWork", []string{"uint64(hmA.volume-startPoint)*uint64(recordSize)", "rem := (cache.Len() / recordSize) & 1", "pocutil.PoCValue(cache.Len()/recordSize - rem)", "endPoint := startPoint + calcWindowSize()",
			"startPoint <= y && y < endPoint", "target := int(y-startPoint) * recordSize", "binary.LittleEndian.PutUint64(b8[:], uint64(x))", "cache.WriteAt(b8[:recordSize], int64(target))",
			"cache.WriteToWriter(mdb.stopPlotCh, hmA.data, 0, int64(hmA.offset)+int64(startPoint)*int64(recordSize), int64(cache.Len()))", "hmA.checkpoint = endPoint"}},
		{"condPlotPassB", "poc/engine/massdb/massdb.v1", "plotWork", []string{"uint64(half-startPoint)*uint64(recordSize)<<2", "pocutil.PoCValue((cache.Len() / recordSize) >> 2)", "endPoint := startPoint + calcWindowSize()",
			"doubleStartPoint, doubleEndPoint := startPoint<<1, endPoint<<1", "!bytesEqualZero(x) && !bytesEqualZero(xp)", "doubleStartPoint <= z && z < doubleEndPoint", "target := int(z-doubleStartPoint) * recordSize * 2",
			"cache.WriteAt(x, int64(target))", "cache.WriteAt(xp, int64(target+recordSize))", "target := int(zp-doubleStartPoint) * recordSize * 2", "cache.WriteAt(xp, int64(target))", "cache.WriteAt(x, int64(target+recordSize))",
			"cache.WriteToWriter(mdb.stopPlotCh, hmB.data, 0, int64(hmB.offset)+int64(startPoint)*int64(recordSize)*4, int64(cache.Len()))", "hmB.checkpoint = endPoint", "io.ReadFull(bufRdA, bs)"}},
		{"condPlotGetB", "poc/engine/massdb/massdb.v1", "HashMapB.Get", []string{"target := hm.offset + int(key)*recordSize*2", "hm.data.ReadAt(proof[:recordSize*2], int64(target))", "return proof[:recordSize], proof[recordSize : recordSize*2], nil"}},
		{"condPlotCheckpoint", "poc/engine/massdb/massdb.v1", "HashMap.UpdateCheckpoint", []string{"binary.LittleEndian.PutUint64(checkpointByte[:], uint64(hm.checkpoint))", "hm.data.WriteAt(checkpointByte[:], PosCheckpoint)"}},
		{"condPlotGetProof", "poc/engine/massdb/massdb.v1", "MassDBV1.GetProof", []string{"mdb.HashMapB.Get(pocutil.CutHash(challenge, bl))", "poc.VerifyProof(proof, mdb.pubKeyHash, challenge, filter)"}},
		{"condKeeperStop", cap, "SpaceKeeper.StopWS", []string{"sk.stateLock.Lock()", "defer sk.stateLock.Unlock()", "!ok || !ws.using", "sk.cancelRequests(ws)", "sk.workSpaceIndex[engine.Plotting].Get(sid)", "qws := sk.queue.PoppedItem()",
			"qws.wouldMining = false", "return ws.StopPlot()", "sk.workSpaceIndex[engine.Mining].Delete(sid)", "sk.workSpaceIndex[engine.Ready].Set(sid, ws)", "ws.state = engine.Ready"}},
		{"condKeeperRemove", cap, "SpaceKeeper.RemoveWS", []string{"sk.stateLock.Lock()", "!ok || !ws.using", "sk.cancelRequests(ws)", "sk.workSpaceIndex[engine.Registered].Get(sid)", "sk.workSpaceIndex[engine.Ready].Get(sid)", "return ErrWorkSpaceIsNotStill", "sk.disuseWorkSpace(ws)"}},
		{"condKeeperDelete", cap, "SpaceKeeper.DeleteWS", []string{"sk.stateLock.Lock()", "!ok || !ws.using", "sk.cancelRequests(ws)", "sk.workSpaceIndex[engine.Registered].Get(sid)", "sk.workSpaceIndex[engine.Ready].Get(sid)", "return ErrWorkSpaceIsNotStill",
			"sk.workSpaceIndex[ws.state].Delete(sid)", "sk.workSpaceIndex[allState].Delete(sid)", "sk.disuseWorkSpace(ws)", "return ws.Delete()"}},
		{"condKeeperCancel", cap, "SpaceKeeper.cancelRequests", []string{"ws.epoch++", "sk.queue.Delete(ws.id.String())"}},
		{"condWalletNewKs", "poc/wallet/keystore", "KeystoreManagerForPoC.NewKeystore", []string{"kmc.mu.Lock()", "defer kmc.mu.Unlock()", "len(kmc.managedKeystores) > 0", "addrManager.safelyCheckPassword(privPassphrase)", "return \"\", ErrDifferentPrivPass"}},
		{"condWalletImport", "poc/wallet/keystore", "KeystoreManagerForPoC.ImportKeystore", []string{"bytes.Compare(newPrivPass, kmc.pubPassphrase) == 0", "len(kmc.managedKeystores) > 0", "addrManager.safelyCheckPassword(newPrivPass)", "ErrDifferentPrivPass"}},
		{"condWalletNext", "poc/wallet/keystore", "AddrManager.nextAddresses", []string{"nextIndex, err := getChildNum(am, internal)", "numAddresses > MaxAddressesPerAccount || numAddresses+nextIndex > MaxAddressesPerAccount",
			"branchKey.Child(nextIndex)", "err == hdkeychain.ErrInvalidChild", "Index: nextIndex - 1"}},
		{"condWalletClear", "poc/wallet/keystore", "AddrManager.clearPrivKeys", []string{"a.unlocked = false", "zero.BigInt(mAddr.privKey.D)", "mAddr.privKey = nil", "a.acctInfo.acctKeyPriv.Zero()", "a.acctInfo.acctKeyPriv = nil",
			"a.branchInfo.externalBranchPriv = nil", "a.branchInfo.internalBranchPriv = nil", "a.masterKeyPriv.Zero()", "a.cryptoKeyPriv.Zero()", "zero.Bytea64(&a.hashedPrivPassphrase)"}},
		{"condSnaclMarshal", "poc/wallet/keystore/snacl", "SecretKey.Marshal", []string{"marshalled := make([]byte, KeySize+sha256.Size+24)", "copy(b[:KeySize], params.Salt[:])", "copy(b[:sha256.Size], params.Digest[:])",
			"binary.LittleEndian.PutUint64(b[:8], uint64(params.N))", "binary.LittleEndian.PutUint64(b[:8], uint64(params.R))", "binary.LittleEndian.PutUint64(b[:8], uint64(params.P))"}},
		{"condSnaclUnmarshal", "poc/wallet/keystore/snacl", "SecretKey.Unmarshal", []string{"len(marshalled) != KeySize+sha256.Size+24", "return ErrMalformed", "copy(params.Salt[:], marshalled[:KeySize])", "copy(params.Digest[:], marshalled[:sha256.Size])",
			"params.N = int(binary.LittleEndian.Uint64(marshalled[:8]))", "params.R = int(binary.LittleEndian.Uint64(marshalled[:8]))", "params.P = int(binary.LittleEndian.Uint64(marshalled[:8]))"}},
		{"condSnaclDerive", "poc/wallet/keystore/snacl", "SecretKey.DeriveKey", []string{"sk.deriveKey(password)", "digest := sha256.Sum256(sk.Key[:])", "subtle.ConstantTimeCompare(digest[:], sk.Parameters.Digest[:]) != 1", "return ErrInvalidPassword"}},
		{"condSnaclDecrypt", "poc/wallet/keystore/snacl", "CryptoKey.Decrypt", []string{"len(in) < NonceSize", "return nil, ErrMalformed", "copy(nonce[:], in[:NonceSize])", "blob := in[NonceSize:]", "secretbox.Open(nil, blob, &nonce, (*[KeySize]byte)(ck))", "return nil, ErrDecryptFailed"}},
		{"condMinerSearch", mn, "syncGetBestProof", []string{"workSlot > nowSlot+allowAhead", "i <= nowSlot+allowAhead", "quality.Cmp(bestQuality) > 0", "bestQuality.Cmp(pocTemplate.GetTarget(pocTemplate.Timestamp)) > 0", "bestQuality.SetUint64(0)", "uint64(pocTemplate.Timestamp.Unix()) / pocSlot"}},
		{"condMinerSubmit", mn, "submitBlock", []string{"time.Now().After(block.MsgBlock().Header.Timestamp)", "m.minedHeight[block.Height()] = struct{}{}"}},
		{"condMinerDouble", mn, "solveBlock", []string{"m.minedHeight[pocTemplate.Height]", "errAvoidDoubleMining", "m.SpaceKeeper.SignHash(tProof.proof.SpaceID, pocHash)"}},
	} {
		emit("/-- `%s` in %s contains %q -/\ndef %s : Bool := %v", x.fn, x.dir, x.texts, x.lean, has(x.dir, x.fn, x.texts...))
	}
}

// factsFractal: structure of the cluster task router (C17).
func factsFractal() {
	const d = "fractal"
	// capacity of a task's report channel: `make(chan *CollectorMsg, N)` in AddTask
	fd := findFunc(d, "LocalSuperior", "AddTask")
	capN := int64(-1)
	if fd != nil {
		p := loadPkg(d)
		ast.Inspect(fd, func(n ast.Node) bool {
			if c, ok := n.(*ast.CallExpr); ok {
				if id, ok := c.Fun.(*ast.Ident); ok && id.Name == "make" && len(c.Args) == 2 {
					if v, ok := p.evalInt(c.Args[1], 0); ok {
						capN = v
					}
				}
			}
			return true
		})
	}
	intFact("collectorAllowAhead", d, "allowAhead")
	emit("/-- capacity of a task's report channel (`make(chan *CollectorMsg, N)` in `LocalSuperior.AddTask`) -/\ndef fractalTaskChanCap : Nat := %d", capN)
	// submitCollectorMsg: the cache lock is released before the hand-over, and a send on a channel closed by
	// RemoveTask is recovered
	sub := findFunc(d, "LocalSuperior", "submitCollectorMsg")
	src := ""
	if sub != nil {
		src = srcOf(d, sub)
	}
	iu, is := strings.Index(src, "taskCacheLock.Unlock()"), strings.Index(src, "ch <- resp")
	emit("/-- `submitCollectorMsg` unlocks the task cache before `ch <- resp` (no `defer` of the unlock) -/\ndef fractalSubmitSendsOutsideLock : Bool := %v",
		iu >= 0 && is >= 0 && iu < is && !strings.Contains(src, "defer ls.taskCacheLock.Unlock()"))
	emit("/-- `submitCollectorMsg` recovers from the send on a channel closed by `RemoveTask` -/\ndef fractalSubmitRecovers : Bool := %v", strings.Contains(src, "recover()"))
	// RemoveTask closes the channel and drops the cache entry under the cache lock
	rm := findFunc(d, "LocalSuperior", "RemoveTask")
	rsrc := ""
	if rm != nil {
		rsrc = srcOf(d, rm)
	}
	emit("/-- `RemoveTask` closes the channel and removes the cache entry while holding the cache lock -/\ndef fractalRemoveUnderLock : Bool := %v",
		strings.Contains(rsrc, "defer ls.taskCacheLock.Unlock()") && strings.Contains(rsrc, "close(ch)") && strings.Contains(rsrc, "taskCache.Remove(id)"))
	// Subscribe and the broadcast branch of AddTask are serialised by latestLock (local and remote superior)
	okLatest := true
	for _, recv := range []string{"LocalSuperior", "RemoteSuperior"} {
		f := findFunc(d, recv, "Subscribe")
		if f == nil || !strings.Contains(srcOf(d, f), "latestLock.Lock()") {
			okLatest = false
		}
	}
	if fd == nil || !strings.Contains(srcOf(d, fd), "latestLock.Lock()") {
		okLatest = false
	}
	if rp := findFunc(d, "RemoteSuperior", "requestProcessor"); rp == nil || !strings.Contains(srcOf(d, rp), "latestLock.Lock()") {
		okLatest = false
	}
	emit("/-- registering a collector + reading the latest task, and recording a broadcast task + broadcasting it, run under `latestLock` (local and remote superior) -/\ndef fractalLatestSerialised : Bool := %v", okLatest)
	// stopping a pool closes its listener
	ws := findFunc(d, "CollectorPool", "waitStop")
	emit("/-- `CollectorPool.waitStop` closes the listener -/\ndef fractalPoolStopClosesListener : Bool := %v", ws != nil && strings.Contains(srcOf(d, ws), "listener.Close()"))
}

// factsMiner: constants of the v1 miner's proof search (C08).
func factsMiner() {
	const d = "poc/engine/pocminer/miner"
	intFact("minerAllowAhead", d, "allowAhead")
	intFact("minerPocSlot", d, "pocSlot")
	// submitBlock gives the block up on quit and when the best block is no longer the block's previous block
	fd := findFuncAny(d, "submitBlock")
	src := ""
	if fd != nil {
		src = srcOf(d, fd)
	}
	emit("/-- `submitBlock` in %s polls `quit` while it waits and compares `BestBlockHash()` with the header's previous block before `ProcessBlock` -/\ndef minerSubmitChecksQuitAndTip : Bool := %v", d,
		strings.Contains(src, "case <-quit:") && strings.Contains(src, "BestBlockHash()") && strings.Index(src, "BestBlockHash()") < strings.Index(src, "ProcessBlock("))
	// the record of mined heights only grows: the package never deletes from it nor replaces it after construction
	p := loadPkg(d)
	shrinks := 0
	for _, f := range p.files {
		ast.Inspect(f, func(n ast.Node) bool {
			switch x := n.(type) {
			case *ast.CallExpr:
				if id, ok := x.Fun.(*ast.Ident); ok && id.Name == "delete" && len(x.Args) == 2 && strings.Contains(exprText(p, x.Args[0]), "minedHeight") {
					shrinks++
				}
			case *ast.AssignStmt:
				for _, l := range x.Lhs {
					if sel, ok := l.(*ast.SelectorExpr); ok && sel.Sel.Name == "minedHeight" {
						shrinks++
					}
				}
			}
			return true
		})
	}
	emit("/-- nothing in %s deletes from `minedHeight` or assigns the field anew (it is set once, in the constructor's literal) -/\ndef minerMinedHeightOnlyGrows : Bool := %v", d, shrinks == 0)
}

func exprText(p *pkgInfo, e ast.Expr) string {
	pos, end := p.fset.Position(e.Pos()), p.fset.Position(e.End())
	b, err := os.ReadFile(pos.Filename)
	if err != nil {
		return ""
	}
	return string(b[pos.Offset:end.Offset])
}

// factsConfig: the constants of the capacity configuration arithmetic (C15).
func factsConfig() {
	const v1 = "poc/engine/spacekeeper/capacity"
	fd := findFuncAny(v1, "usableBitLength")
	if fd == nil {
		fatal("capacity.usableBitLength not found")
	}
	var bls []string
	p := loadPkg(v1)
	ast.Inspect(fd, func(n ast.Node) bool {
		if cl, ok := n.(*ast.CompositeLit); ok {
			for _, el := range cl.Elts {
				if v, ok := p.evalInt(el, 0); ok {
					bls = append(bls, strconv.FormatInt(v, 10))
				}
			}
			return false
		}
		return true
	})
	emit("/-- the literal returned by `usableBitLength()` in %s -/\ndef usableBitLength : List Nat := [%s]", v1, strings.Join(bls, ", "))
	mc := massCoreDir()
	intFactAbs("minValidDefaultBitLength", filepath.Join(mc, "poc"), "MinValidDefaultBitLength")
	intFactAbs("pocMiB", filepath.Join(mc, "poc"), "MiB")
	// the body of poc.DefaultPlotSize is `return uint64(bl * (1 << uint(bl-2)))`
	save := *repo
	*repo = "/"
	pd := findFuncAny(strings.TrimPrefix(filepath.Join(mc, "poc"), "/"), "DefaultPlotSize")
	body := "<missing>"
	if pd != nil {
		src := srcOf(strings.TrimPrefix(filepath.Join(mc, "poc"), "/"), pd)
		var keep []string
		for _, l := range strings.Split(src, "\n")[1:] {
			t := strings.TrimSpace(l)
			if t == "" || t == "}" || strings.HasPrefix(t, "//") {
				continue
			}
			keep = append(keep, t)
		}
		body = strings.Join(keep, "; ")
	}
	*repo = save
	emit("/-- body of `poc.DefaultPlotSize` in mass-core -/\ndef defaultPlotSizeBody : String := %s", leanStr(body))
	// which size the checks compare with: ConfigureBySize compares the target with PlotSize(usableBitLength()[0]),
	// the fill functions with PlotSize(poc.MinValidDefaultBitLength)
	for _, fn := range []string{"ConfigureBySize", "fillSpaceListBySize", "fillSpaceListByPathSize", "generateFillSpaceListBySize", "generateFillSpaceListByPathSize", "checkOSDiskSizeByPath", "ConfigureByPath", "fillSpaceListByBitLength", "generateFillSpaceListByBitLength"} {
		if findFuncAny(v1, fn) == nil {
			fatal("capacity.%s not found", fn)
		}
	}
}

func factsKeeper() {
	const v1, v2 = "poc/engine/spacekeeper/capacity", "poc/engine.v2/spacekeeper/skchia"
	intFact("plotterMaxChanSize", v1, "plotterMaxChanSize")
	intFact("plotterMaxChanSizeV2", v2, "plotterMaxChanSize")
	// the type byte of a plot file's header (`iota` continues from the first constant of the block)
	intFact("mapTypeA", "poc/engine/massdb/massdb.v1", "MapTypeHashMapA")
	intFact("mapTypeB", "poc/engine/massdb/massdb.v1", "MapTypeHashMapB")
	intFact("lenMetaInfo", "poc/engine/massdb/massdb.v1", "LenMetaInfo")
	// header layout of a plot file (hashmap.go) and the memory bounds of the plotting passes (plot.go)
	for _, n := range []string{"PosFileCode", "PosVersion", "PosBitLength", "PosType", "PosCheckpoint", "PosPubKeyHash", "PosPubKey", "PosAlignHolder", "PosProofData",
		"LenFileCode", "LenVersion", "LenBitLength", "LenType", "LenCheckpoint", "LenPubKeyHash", "LenPubKey"} {
		intFact("plot"+n, "poc/engine/massdb/massdb.v1", n)
	}
	intFact("snaclKeySize", "poc/wallet/keystore/snacl", "KeySize")
	intFact("snaclNonceSize", "poc/wallet/keystore/snacl", "NonceSize")
	intFact("plotDbVersion", "poc/engine/massdb/massdb.v1", "dbVersion")
	for _, n := range []string{"maxPrePlotMem", "maxPlotMem", "minPrePlotMem", "minPlotMem"} {
		intFact("plot"+strings.ToUpper(n[:1])+n[1:], "poc/engine/massdb/massdb.v1", n)
	}
	strFact("regMassDBV1", v1, "regMassDBV1")
	// every send on the plotter channel is a `select` case next to a `default` (never blocks under the state lock)
	for _, x := range []struct{ lean, dir string }{{"keeperSendsNonBlocking", v1}, {"keeperSendsNonBlockingV2", v2}} {
		p := loadPkg(x.dir)
		sends, guarded := 0, 0
		for _, f := range p.files {
			ast.Inspect(f, func(n ast.Node) bool {
				switch t := n.(type) {
				case *ast.SelectStmt:
					hasDefault := false
					for _, c := range t.Body.List {
						if cc := c.(*ast.CommClause); cc.Comm == nil {
							hasDefault = true
						}
					}
					for _, c := range t.Body.List {
						if s, ok := c.(*ast.CommClause).Comm.(*ast.SendStmt); ok && isPlotterChan(s.Chan) && hasDefault {
							guarded++
						}
					}
				case *ast.SendStmt:
					if isPlotterChan(t.Chan) {
						sends++
					}
				}
				return true
			})
		}
		emit("/-- %s: %d sends on `newQueuedWorkSpaceCh`, %d of them `select` cases with a `default` -/\ndef %s : Bool := %v", x.dir, sends, guarded, x.lean, sends > 0 && sends == guarded)
	}
	// the v2 keeper (skchia) is the same program text as the v1 keeper for everything the model covers:
	// the request methods and the plotter loop, up to the engine package name, the id used for the priority
	// tie-break, the verification gates, and the plot call (v2 spaces do not plot: `ws.Plot()` returns at once)
	norm := func(src string) string {
		var out []string
		for _, l := range strings.Split(src, "\n") {
			t := strings.TrimSpace(l)
			if t == "" || strings.HasPrefix(t, "//") || strings.Contains(t, "verifGate(") || strings.Contains(t, "plotResult") || t == "ws.Plot()" {
				continue
			}
			t = strings.ReplaceAll(t, "PubKeyHash()", "ID()")
			t = strings.ReplaceAll(t, "PlotID()", "ID()")
			out = append(out, t)
		}
		return strings.Join(out, "\n")
	}
	fnText := func(dir, name string) string {
		fd := findFuncAny(dir, name)
		if fd == nil {
			return "<missing " + name + ">"
		}
		return norm(srcOf(dir, fd))
	}
	same := true
	var diffs []string
	for _, fn := range []string{"PlotWS", "MineWS", "StopWS", "RemoveWS", "DeleteWS", "cancelRequests", "spacePlotter", "PopItem", "Delete", "Reset", "priority", "newQueuedWorkSpace", "OnStop", "getWsByFlags"} {
		if fnText(v1, fn) != fnText(v2, fn) {
			same = false
			diffs = append(diffs, fn)
		}
	}
	emit("/-- the functions the keeper model covers have the same text in the v1 and v2 keepers (differing: %v) -/\ndef keeperV2SameAsV1 : Bool := %v", diffs, same)
	// lock re-entrancy: a SpaceKeeper method that holds stateLock until it returns (`defer ...Unlock()`) and calls
	// another SpaceKeeper method that takes stateLock (sync.RWMutex is not re-entrant: with a writer waiting in
	// between, even a nested RLock deadlocks)
	for _, x := range []struct{ lean, dir string }{{"keeperLockReentrant", v1}, {"keeperLockReentrantV2", v2}} {
		p := loadPkg(x.dir)
		locking := map[string]bool{}
		src := map[string]string{}
		for _, f := range p.files {
			for _, d := range f.Decls {
				fd, ok := d.(*ast.FuncDecl)
				if !ok || fd.Recv == nil || fd.Body == nil {
					continue
				}
				t := srcOf(x.dir, fd)
				src[fd.Name.Name] = t
				if strings.Contains(t, "stateLock.Lock()") || strings.Contains(t, "stateLock.RLock()") {
					locking[fd.Name.Name] = true
				}
			}
		}
		var pairs []string
		var names []string
		for n := range src {
			names = append(names, n)
		}
		sort.Strings(names)
		for _, n := range names {
			t := src[n]
			if !locking[n] || !(strings.Contains(t, "defer sk.stateLock.Unlock()") || strings.Contains(t, "defer sk.stateLock.RUnlock()")) {
				continue
			}
			for _, m := range names {
				if locking[m] && m != n && strings.Contains(t, "sk."+m+"(") {
					pairs = append(pairs, fmt.Sprintf("(%s, %s)", leanStr(n), leanStr(m)))
				}
			}
		}
		emit("/-- %s: (method holding stateLock to its end, stateLock-taking method it calls) -/\ndef %s : List (String × String) := [%s]", x.dir, x.lean, strings.Join(pairs, ", "))
	}
}

func isPlotterChan(e ast.Expr) bool {
	s, ok := e.(*ast.SelectorExpr)
	return ok && s.Sel.Name == "newQueuedWorkSpaceCh"
}

// findFuncAny: first function or method of that name in the package (file order).
func findFuncAny(dir, name string) *ast.FuncDecl {
	p := loadPkg(dir)
	var names []string
	for n := range p.files {
		names = append(names, n)
	}
	sort.Strings(names)
	for _, n := range names {
		for _, d := range p.files[n].Decls {
			if fd, ok := d.(*ast.FuncDecl); ok && fd.Name.Name == name {
				return fd
			}
		}
	}
	return nil
}

func srcOf(dir string, fd *ast.FuncDecl) string {
	p := loadPkg(dir)
	pos, end := p.fset.Position(fd.Pos()), p.fset.Position(fd.End())
	b, err := os.ReadFile(pos.Filename)
	if err != nil {
		fatal("%v", err)
	}
	return string(b[pos.Offset:end.Offset])
}

// factsWalletTx: for every exported method of KeystoreManagerForPoC that runs db.Update — how many Update calls,
// does a closure swallow an error (compares a call result with nil directly and returns another variable),
// does the closure (or an AddrManager/KeystoreManager method it calls) assign a receiver field.
func factsWalletTx() {
	const d = "poc/wallet/keystore"
	p := loadPkg(d)
	methods := map[string]*ast.FuncDecl{} // "Recv.name"
	var names []string
	for _, f := range p.files {
		for _, decl := range f.Decls {
			fd, ok := decl.(*ast.FuncDecl)
			if !ok || fd.Recv == nil || len(fd.Recv.List) != 1 {
				continue
			}
			t := fd.Recv.List[0].Type
			if st, ok := t.(*ast.StarExpr); ok {
				t = st.X
			}
			id, ok := t.(*ast.Ident)
			if !ok {
				continue
			}
			methods[id.Name+"."+fd.Name.Name] = fd
			if id.Name == "KeystoreManagerForPoC" && fd.Name.IsExported() {
				names = append(names, fd.Name.Name)
			}
		}
	}
	sort.Strings(names)
	recvName := func(fd *ast.FuncDecl) string {
		if len(fd.Recv.List[0].Names) == 1 {
			return fd.Recv.List[0].Names[0].Name
		}
		return ""
	}
	assignsRecvField := func(fd *ast.FuncDecl) bool {
		r := recvName(fd)
		found := false
		ast.Inspect(fd.Body, func(n ast.Node) bool {
			as, ok := n.(*ast.AssignStmt)
			if !ok {
				return true
			}
			for _, l := range as.Lhs {
				if se, ok := l.(*ast.SelectorExpr); ok {
					if id, ok := se.X.(*ast.Ident); ok && id.Name == r && r != "" {
						found = true
					}
				}
			}
			return true
		})
		return found
	}
	// write transactions reachable from a method: db.Update call sites in the method and, through calls by name, in the
	// package's own functions and methods; a site inside a loop counts twice; capped at 9
	byName := map[string][]*ast.FuncDecl{}
	for _, f := range p.files {
		for _, decl := range f.Decls {
			if fd, ok := decl.(*ast.FuncDecl); ok && fd.Body != nil {
				byName[fd.Name.Name] = append(byName[fd.Name.Name], fd)
			}
		}
	}
	memo := map[*ast.FuncDecl]int{}
	visiting := map[*ast.FuncDecl]bool{}
	var reach func(fd *ast.FuncDecl) int
	var walk func(n ast.Node, mult int) int
	walk = func(n ast.Node, mult int) int {
		total := 0
		ast.Inspect(n, func(m ast.Node) bool {
			if m == n || m == nil {
				return true
			}
			switch x := m.(type) {
			case *ast.ForStmt:
				total += walk(x.Body, 2*mult)
				return false
			case *ast.RangeStmt:
				total += walk(x.X, mult) + walk(x.Body, 2*mult)
				return false
			case *ast.CallExpr:
				switch f := x.Fun.(type) {
				case *ast.SelectorExpr:
					if id, ok := f.X.(*ast.Ident); ok && id.Name == "db" && f.Sel.Name == "Update" {
						total += mult
					} else {
						best := 0
						for _, callee := range byName[f.Sel.Name] {
							if callee.Recv != nil {
								if c := reach(callee); c > best {
									best = c
								}
							}
						}
						total += mult * best
					}
				case *ast.Ident:
					for _, callee := range byName[f.Name] {
						if callee.Recv == nil {
							total += mult * reach(callee)
						}
					}
				}
			}
			return true
		})
		if total > 9 {
			total = 9
		}
		return total
	}
	reach = func(fd *ast.FuncDecl) int {
		if v, ok := memo[fd]; ok {
			return v
		}
		if visiting[fd] {
			return 0
		}
		visiting[fd] = true
		v := walk(fd.Body, 1)
		visiting[fd] = false
		memo[fd] = v
		return v
	}
	var txc []string
	for _, name := range names {
		txc = append(txc, fmt.Sprintf("(%s, %d)", leanStr(name), reach(methods["KeystoreManagerForPoC."+name])))
	}
	emit("/-- exported methods of `KeystoreManagerForPoC`: write transactions (`db.Update` call sites) reachable from the method\n    through the package's own functions and methods; a site inside a loop counts twice; capped at 9 -/\ndef walletTxReach : List (String × Nat) := [\n  %s]", strings.Join(txc, ",\n  "))
	var items []string
	for _, name := range names {
		fd := methods["KeystoreManagerForPoC."+name]
		updates, swallows, assigns := 0, false, false
		locksOnEntry := false
		if len(fd.Body.List) >= 2 {
			if es, ok := fd.Body.List[0].(*ast.ExprStmt); ok {
				if ce, ok := es.X.(*ast.CallExpr); ok {
					if se, ok := ce.Fun.(*ast.SelectorExpr); ok && se.Sel.Name == "Lock" {
						if ds, ok := fd.Body.List[1].(*ast.DeferStmt); ok {
							if se2, ok := ds.Call.Fun.(*ast.SelectorExpr); ok && se2.Sel.Name == "Unlock" {
								locksOnEntry = true
							}
						}
					}
				}
			}
		}
		touchesMaps := false
		ast.Inspect(fd.Body, func(n ast.Node) bool {
			if se, ok := n.(*ast.SelectorExpr); ok && (se.Sel.Name == "managedKeystores" || se.Sel.Name == "unlocked" || se.Sel.Name == "pubPassphrase") {
				touchesMaps = true
			}
			return true
		})
		ast.Inspect(fd.Body, func(n ast.Node) bool {
			ce, ok := n.(*ast.CallExpr)
			if !ok {
				return true
			}
			se, ok := ce.Fun.(*ast.SelectorExpr)
			if !ok || se.Sel.Name != "Update" {
				return true
			}
			if x, ok := se.X.(*ast.Ident); !ok || x.Name != "db" {
				return true
			}
			updates++
			if len(ce.Args) != 2 {
				return true
			}
			fl, ok := ce.Args[1].(*ast.FuncLit)
			if !ok {
				return true
			}
			ast.Inspect(fl.Body, func(m ast.Node) bool {
				switch x := m.(type) {
				case *ast.IfStmt:
					if x.Init == nil {
						if be, ok := x.Cond.(*ast.BinaryExpr); ok && be.Op.String() == "!=" {
							if _, isCall := be.X.(*ast.CallExpr); isCall {
								// the error value of the call is not bound: whatever is returned is something else
								for _, st := range x.Body.List {
									if rs, ok := st.(*ast.ReturnStmt); ok && len(rs.Results) == 1 {
										if id, ok := rs.Results[0].(*ast.Ident); ok && id.Name != "nil" {
											swallows = true
										}
									}
								}
							}
						}
					}
				case *ast.AssignStmt:
					for _, l := range x.Lhs {
						if se, ok := l.(*ast.SelectorExpr); ok {
							if id, ok := se.X.(*ast.Ident); ok && (id.Name == "kmc" || id.Name == "addrManager") {
								assigns = true
							}
						}
					}
				case *ast.CallExpr:
					if se, ok := x.Fun.(*ast.SelectorExpr); ok {
						if id, ok := se.X.(*ast.Ident); ok {
							for _, recv := range []string{"AddrManager", "KeystoreManagerForPoC"} {
								if callee, ok := methods[recv+"."+se.Sel.Name]; ok && (id.Name == "addrManager" || id.Name == "kmc") {
									if assignsRecvField(callee) {
										assigns = true
									}
								}
							}
						}
					}
				}
				return true
			})
			return true
		})
		items = append(items, fmt.Sprintf("(%s, %d, %v, %v, %v, %v)", leanStr(name), updates, swallows, assigns, locksOnEntry, touchesMaps))
	}
	// AddrManager methods: (name, touches the address map, locks a.mu on entry)
	var am []string
	var amNames []string
	for k := range methods {
		if strings.HasPrefix(k, "AddrManager.") {
			amNames = append(amNames, k)
		}
	}
	sort.Strings(amNames)
	for _, k := range amNames {
		fd := methods[k]
		touches := false
		ast.Inspect(fd.Body, func(n ast.Node) bool {
			if se, ok := n.(*ast.SelectorExpr); ok && se.Sel.Name == "addrs" {
				touches = true
			}
			return true
		})
		locks := false
		if len(fd.Body.List) >= 2 {
			if es, ok := fd.Body.List[0].(*ast.ExprStmt); ok {
				if ce, ok := es.X.(*ast.CallExpr); ok {
					if se, ok := ce.Fun.(*ast.SelectorExpr); ok && se.Sel.Name == "Lock" {
						if ds, ok := fd.Body.List[1].(*ast.DeferStmt); ok {
							if se2, ok := ds.Call.Fun.(*ast.SelectorExpr); ok && se2.Sel.Name == "Unlock" {
								locks = true
							}
						}
					}
				}
			}
		}
		am = append(am, fmt.Sprintf("(%s, %v, %v)", leanStr(strings.TrimPrefix(k, "AddrManager.")), touches, locks))
	}
	emit("/-- methods of `AddrManager`: (name, touches the address map `addrs`, locks the AddrManager mutex on entry) -/\ndef addrMgrMethods : List (String × Bool × Bool) := [\n  %s]", strings.Join(am, ",\n  "))
	emit("/-- exported methods of `KeystoreManagerForPoC`: (name, number of db.Update calls, a closure swallows an error,\n    a receiver field is assigned inside a closure, locks the manager mutex on entry, touches shared manager state) -/\ndef walletMethods : List (String × Nat × Bool × Bool × Bool × Bool) := [\n  %s]", strings.Join(items, ",\n  "))
}

func factsHD() {
	const d = "poc/wallet/keystore/hdkeychain"
	intFact("hardenedKeyStart", d, "HardenedKeyStart")
	intFact("serializedKeyLen", d, "serializedKeyLen")
	intFact("minSeedBytes", d, "MinSeedBytes")
	intFact("maxSeedBytes", d, "MaxSeedBytes")
	strFact("hdMasterKey", d, "masterKey")
}

func factsCodec() {
	const d = "fractal/protocol"
	for _, n := range []string{"MsgTypeReserved", "MsgTypeRequestQualities", "MsgTypeReportQualities", "MsgTypeRequestProof",
		"MsgTypeReportProof", "MsgTypeRequestSignature", "MsgTypeReportSignature", "msgTypeByteSize"} {
		intFact(strings.ToLower(n[:1])+n[1:], d, n)
	}
	intFact("defaultMaxRecvMsgSize", "fractal/connection", "defaultMaxRecvMsgSize")
	// structural fact: in receiveRoutine the size check against maxRecvMsgSize precedes the allocation
	fd := findFunc("fractal/connection", "Conn", "receiveRoutine")
	if fd == nil {
		fatal("fractal/connection: no receiveRoutine")
	}
	checkPos, makePos := 0, 0
	ast.Inspect(fd, func(n ast.Node) bool {
		switch x := n.(type) {
		case *ast.BinaryExpr:
			// exactly `size > conn.opts.maxRecvMsgSize`: no arithmetic on the peer-controlled uint32
			if sel, ok := x.Y.(*ast.SelectorExpr); ok && sel.Sel.Name == "maxRecvMsgSize" && x.Op.String() == ">" && checkPos == 0 {
				if id, ok := x.X.(*ast.Ident); ok && id.Name == "size" {
					checkPos = int(x.Pos())
				}
			}
		case *ast.CallExpr:
			if id, ok := x.Fun.(*ast.Ident); ok && id.Name == "make" && makePos == 0 {
				makePos = int(x.Pos())
			}
		}
		return true
	})
	emit("/-- in `(*Conn).receiveRoutine` the comparison `size > maxRecvMsgSize` occurs, and before the first `make` -/\ndef recvBoundCheckedBeforeAlloc : Bool := %v", checkPos != 0 && makePos != 0 && checkPos < makePos)
}

// massCoreDir locates the vendored chain library in the module cache (version from /repo/go.mod).
func massCoreDir() string {
	b, err := os.ReadFile(filepath.Join(*repo, "go.mod"))
	if err != nil {
		fatal("%v", err)
	}
	m := regexp.MustCompile(`github.com/massnetorg/mass-core (v[^\s]+)`).FindStringSubmatch(string(b))
	if m == nil {
		fatal("mass-core not required in go.mod")
	}
	out, err := exec.Command("go", "env", "GOMODCACHE").Output()
	if err != nil {
		fatal("go env: %v", err)
	}
	return filepath.Join(strings.TrimSpace(string(out)), "github.com/massnetorg/mass-core@"+m[1])
}

// intFactAbs: like intFact but for a package at an absolute directory (module cache).
func intFactAbs(lean, absdir, name string) {
	save := *repo
	*repo = "/"
	defer func() { *repo = save }()
	intFact(lean, strings.TrimPrefix(absdir, "/"), name)
}

func factsApi() {
	// the three RFC1918 rules of api/gateway.go: key, network address, prefix length
	p := loadPkg("api")
	type rule struct {
		ip   string
		ones int64
	}
	rules := map[string]rule{}
	for name, e := range p.decls {
		if !strings.HasPrefix(name, "rfc1918_") {
			continue
		}
		cl, ok := e.(*ast.CompositeLit)
		if !ok {
			fatal("api.%s: not a composite literal", name)
		}
		var r rule
		for _, el := range cl.Elts {
			kv := el.(*ast.KeyValueExpr)
			call, ok := kv.Value.(*ast.CallExpr)
			if !ok {
				fatal("api.%s: unexpected field value", name)
			}
			switch kv.Key.(*ast.Ident).Name {
			case "IP":
				r.ip, _ = p.evalStr(call.Args[0])
			case "Mask":
				r.ones, _ = p.evalInt(call.Args[0], 0)
				if bits, _ := p.evalInt(call.Args[1], 0); bits != 32 {
					fatal("api.%s: mask is not over 32 bits", name)
				}
			}
		}
		rules[name] = r
	}
	lr, ok := p.decls["lanRules"].(*ast.CompositeLit)
	if !ok {
		fatal("api.lanRules: not a composite literal")
	}
	var items []string
	for _, el := range lr.Elts {
		kv := el.(*ast.KeyValueExpr)
		key, _ := p.evalStr(kv.Key)
		r, ok := rules[kv.Value.(*ast.Ident).Name]
		if !ok {
			fatal("api.lanRules: unknown rule")
		}
		var q [4]int
		parts := strings.Split(r.ip, ".")
		if len(parts) != 4 {
			fatal("api.lanRules: %q is not dotted quad", r.ip)
		}
		for i, s := range parts {
			q[i], _ = strconv.Atoi(s)
		}
		items = append(items, fmt.Sprintf("(%s, %d, %d, %d, %d, %d)", leanStr(key), q[0], q[1], q[2], q[3], r.ones))
	}
	// map iteration order of the source literal is preserved (AST order)
	emit("/-- `lanRules` in api/gateway.go: (config key, network a.b.c.d, prefix length) -/\ndef lanRules : List (String × Nat × Nat × Nat × Nat × Nat) := [%s]", strings.Join(items, ", "))
	mc := massCoreDir()
	intFactAbs("maxwellPerMass", filepath.Join(mc, "consensus"), "MaxwellPerMass")
	intFactAbs("maxMass", filepath.Join(mc, "consensus"), "MaxMass")
}
