// Command extract reads /repo's working tree with go/ast and prints Lean
// definitions (MassVerif/Generated/Facts.lean).  The theorems import these, so
// a source edit that changes a fact re-opens the proofs that depend on it.
package main

import (
	"flag"
	"fmt"
	"go/ast"
	"go/parser"
	"go/token"
	"os"
	"path/filepath"
	"sort"
	"strconv"
	"strings"
)

var repo = flag.String("repo", "/repo", "repository root")
var out = flag.String("o", "", "output file (default stdout)")
var engineOut = flag.String("engine", "", "output file of the translated enum helpers (MassVerif/Generated/Engine.lean)")

type pkgInfo struct {
	fset  *token.FileSet
	files map[string]*ast.File
	decls map[string]ast.Expr // const/var name -> value expr
	iotas map[string]int
}

var pkgs = map[string]*pkgInfo{}

func loadPkg(dir string) *pkgInfo {
	if p, ok := pkgs[dir]; ok {
		return p
	}
	p := &pkgInfo{fset: token.NewFileSet(), files: map[string]*ast.File{}, decls: map[string]ast.Expr{}, iotas: map[string]int{}}
	ents, err := os.ReadDir(filepath.Join(*repo, dir))
	if err != nil {
		fatal("read dir %s: %v", dir, err)
	}
	for _, e := range ents {
		n := e.Name()
		if !strings.HasSuffix(n, ".go") || strings.HasSuffix(n, "_test.go") || strings.HasPrefix(n, "verif_") {
			continue
		}
		f, err := parser.ParseFile(p.fset, filepath.Join(*repo, dir, n), nil, parser.ParseComments)
		if err != nil {
			fatal("parse %s: %v", n, err)
		}
		p.files[n] = f
		for _, d := range f.Decls {
			gd, ok := d.(*ast.GenDecl)
			if !ok || (gd.Tok != token.CONST && gd.Tok != token.VAR) {
				continue
			}
			var last []ast.Expr
			for i, s := range gd.Specs {
				vs := s.(*ast.ValueSpec)
				vals := vs.Values
				if len(vals) == 0 && gd.Tok == token.CONST {
					vals = last
				} else {
					last = vals
				}
				for j, nm := range vs.Names {
					if j < len(vals) {
						p.decls[nm.Name] = vals[j]
						p.iotas[nm.Name] = i
					}
				}
			}
		}
	}
	pkgs[dir] = p
	return p
}

func fatal(f string, a ...interface{}) {
	fmt.Fprintf(os.Stderr, "extract: "+f+"\n", a...)
	os.Exit(2)
}

// evalInt evaluates a constant integer expression.
func (p *pkgInfo) evalInt(e ast.Expr, iota int) (int64, bool) {
	switch x := e.(type) {
	case *ast.BasicLit:
		if x.Kind == token.INT {
			v, err := strconv.ParseInt(x.Value, 0, 64)
			return v, err == nil
		}
		if x.Kind == token.CHAR {
			s, err := strconv.Unquote(x.Value)
			if err != nil {
				return 0, false
			}
			return int64([]rune(s)[0]), true
		}
	case *ast.ParenExpr:
		return p.evalInt(x.X, iota)
	case *ast.Ident:
		if x.Name == "iota" {
			return int64(iota), true
		}
		if d, ok := p.decls[x.Name]; ok {
			return p.evalInt(d, p.iotas[x.Name])
		}
	case *ast.CallExpr: // conversions like uint32(x), time.Duration(x)
		if len(x.Args) == 1 {
			return p.evalInt(x.Args[0], iota)
		}
	case *ast.SelectorExpr:
		// a few well-known foreign constants
		if id, ok := x.X.(*ast.Ident); ok {
			switch id.Name + "." + x.Sel.Name {
			case "opt.MiB":
				return 1 << 20, true
			case "opt.KiB":
				return 1 << 10, true
			case "time.Second":
				return 1000000000, true
			case "time.Millisecond":
				return 1000000, true
			case "poc.PoCSlot":
				return 3, true
			case "poc.MiB":
				return 1 << 20, true
			}
		}
	case *ast.UnaryExpr:
		v, ok := p.evalInt(x.X, iota)
		if ok && x.Op == token.SUB {
			return -v, true
		}
		return v, ok && x.Op == token.ADD
	case *ast.BinaryExpr:
		a, ok1 := p.evalInt(x.X, iota)
		b, ok2 := p.evalInt(x.Y, iota)
		if !ok1 || !ok2 {
			return 0, false
		}
		switch x.Op {
		case token.ADD:
			return a + b, true
		case token.SUB:
			return a - b, true
		case token.MUL:
			return a * b, true
		case token.QUO:
			if b != 0 {
				return a / b, true
			}
		case token.SHL:
			return a << uint(b), true
		case token.SHR:
			return a >> uint(b), true
		}
	}
	return 0, false
}

func (p *pkgInfo) evalStr(e ast.Expr) (string, bool) {
	switch x := e.(type) {
	case *ast.BasicLit:
		if x.Kind == token.STRING {
			s, err := strconv.Unquote(x.Value)
			return s, err == nil
		}
	case *ast.Ident:
		if d, ok := p.decls[x.Name]; ok {
			return p.evalStr(d)
		}
	case *ast.ParenExpr:
		return p.evalStr(x.X)
	case *ast.BinaryExpr:
		if x.Op == token.ADD {
			a, ok1 := p.evalStr(x.X)
			b, ok2 := p.evalStr(x.Y)
			return a + b, ok1 && ok2
		}
	case *ast.CallExpr: // regexp.MustCompile("..."), []byte("...")
		if len(x.Args) == 1 {
			return p.evalStr(x.Args[0])
		}
	}
	return "", false
}

func leanStr(s string) string {
	var b strings.Builder
	b.WriteByte('"')
	for _, r := range s {
		switch {
		case r == '"':
			b.WriteString("\\\"")
		case r == '\\':
			b.WriteString("\\\\")
		case r == '\n':
			b.WriteString("\\n")
		case r < 32 || r > 126:
			fmt.Fprintf(&b, "\\u{%x}", r)
		default:
			b.WriteRune(r)
		}
	}
	b.WriteByte('"')
	return b.String()
}

var lines []string

func emit(f string, a ...interface{}) { lines = append(lines, fmt.Sprintf(f, a...)) }

func intFact(lean, dir, name string) {
	p := loadPkg(dir)
	d, ok := p.decls[name]
	if !ok {
		fatal("%s: no const/var %s", dir, name)
	}
	v, ok := p.evalInt(d, p.iotas[name])
	if !ok {
		fatal("%s.%s: cannot evaluate", dir, name)
	}
	if v < 0 {
		emit("/-- `%s` in %s -/\ndef %s : Int := %d", name, dir, lean, v)
	} else {
		emit("/-- `%s` in %s -/\ndef %s : Nat := %d", name, dir, lean, v)
	}
}

func strFact(lean, dir, name string) {
	p := loadPkg(dir)
	d, ok := p.decls[name]
	if !ok {
		fatal("%s: no const/var %s", dir, name)
	}
	v, ok := p.evalStr(d)
	if !ok {
		fatal("%s.%s: cannot evaluate string", dir, name)
	}
	emit("/-- `%s` in %s -/\ndef %s : String := %s", name, dir, lean, leanStr(v))
}

func findFunc(dir, recv, name string) *ast.FuncDecl {
	p := loadPkg(dir)
	var names []string
	for n := range p.files {
		names = append(names, n)
	}
	sort.Strings(names)
	for _, n := range names {
		for _, d := range p.files[n].Decls {
			fd, ok := d.(*ast.FuncDecl)
			if !ok || fd.Name.Name != name {
				continue
			}
			r := ""
			if fd.Recv != nil && len(fd.Recv.List) == 1 {
				t := fd.Recv.List[0].Type
				if s, ok := t.(*ast.StarExpr); ok {
					t = s.X
				}
				if id, ok := t.(*ast.Ident); ok {
					r = id.Name
				}
			}
			if r == recv {
				return fd
			}
		}
	}
	return nil
}

func main() {
	flag.Parse()
	if *engineOut != "" {
		writeEngine(*engineOut)
	}
	emit("-- GENERATED by /verif/go/extract from the working tree of /repo. DO NOT EDIT.")
	emit("namespace MassVerif.Facts")
	factsBucket()
	factsAll()
	emit("end MassVerif.Facts")
	text := strings.Join(lines, "\n") + "\n"
	if *out == "" {
		fmt.Print(text)
		return
	}
	old, _ := os.ReadFile(*out)
	if string(old) == text {
		return
	}
	if err := os.WriteFile(*out, []byte(text), 0o644); err != nil {
		fatal("%v", err)
	}
}

func factsBucket() {
	const d = "poc/wallet/db/ldb"
	strFact("bucketPathSep", d, "bucketPathSep")
	strFact("bucketNameBucket", d, "bucketNameBucket")
	strFact("topLevelBucketDepth", d, "topLevelBucketDepth")
	intFact("maxBucketNameLen", d, "maxBucketNameLen")
}
