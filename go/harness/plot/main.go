// Harness C07 / C10: the real massdb.v1 plotter at bit lengths 8-11 with the cache size forced
// (hook H1) so that 1-8 windows occur per pass; named points (hook H2) where the two files are
// snapshotted (a crash image) or the plot is stopped gracefully; every snapshot is reopened and
// resumed with a different cache size.  Oracle: an independent computation of the construction
// from pocutil.P / pocutil.FB.  Correspondence: the Lean model runs the same windows.
package main

import (
	"crypto/sha256"
	"flag"
	"fmt"
	"io"
	"os"
	"path/filepath"
	"strconv"
	"strings"
	"sync"
	"time"

	"github.com/massnetorg/mass-core/poc/pocutil"
	"github.com/massnetorg/mass-core/pocec"
	"massnet.org/mass/poc/engine/massdb"
	massdb_v1 "massnet.org/mass/poc/engine/massdb/massdb.v1"
	"verifharness/hx"
)

type snap struct {
	dir   string
	point string
	pass  string
	start uint64
	idx   int // index of the point in the run
	nA    int // windows of pass A / pass B whose data and checkpoint were on disk when the snapshot was taken
	nB    int
}

type G struct {
	bytesA []int // cache BYTE length of every window of the last plotRun, pass A / pass B
	bytesB []int
	nbuf   int
	h      *hx.H
	focus  string
	root   string
	nrun   int
}

func key(i int) *pocec.PublicKey {
	s := sha256.Sum256([]byte("plot-key-" + strconv.Itoa(i)))
	priv, _ := pocec.PrivKeyFromBytes(pocec.S256(), s[:])
	return priv.PubKey()
}

func copyFile(src, dst string) {
	in, err := os.Open(src)
	if err != nil {
		return
	}
	defer in.Close()
	out, _ := os.Create(dst)
	io.Copy(out, in)
	out.Close()
}

func copyDir(src, dst string) {
	os.MkdirAll(dst, 0o755)
	es, _ := os.ReadDir(src)
	for _, e := range es {
		copyFile(filepath.Join(src, e.Name()), filepath.Join(dst, e.Name()))
	}
}

// state of the two files of a plot directory, read through the package's own loaders
type fileState struct {
	a, b        []uint64 // A: N records (by position), B: 2N values (x, x' per entry)
	cpA, cpB    uint64
	hasA        bool
	plotted     bool
	rawMismatch string // the opened map's progress / readiness disagrees with the checkpoint recorded in the file
	bl          int
	recordBytes int
}

func b2v(b []byte) uint64 {
	var v uint64
	for i := len(b) - 1; i >= 0; i-- {
		v = v<<8 | uint64(b[i])
	}
	return v
}

func readState(dir string, pk *pocec.PublicKey, bl int) fileState {
	st := fileState{bl: bl}
	n := uint64(1) << uint(bl)
	pathA, pathB := paths(dir, pk, bl)
	if hmA, err := massdb_v1.NewMassDBV1MapA(pathA); err == nil {
		st.hasA = true
		st.cpA = uint64(hmA.Checkpoint())
		st.a = make([]uint64, n)
		half := n / 2
		for y := uint64(0); y < n; y++ {
			v, err := hmA.Get(pocutil.PoCValue(y))
			pos := y * 2
			if y >= half {
				pos = uint64(pocutil.FlipValue(pocutil.PoCValue(y), bl))*2 + 1
			}
			if err == nil {
				st.a[pos] = b2v(v)
			}
		}
		hmA.Close()
	}
	if mdb, err := massdb_v1.NewMassDBV1ForTest(pathB); err == nil {
		st.b = make([]uint64, 2*n)
		for z := uint64(0); z < n; z++ {
			x, xp, err := mdb.HashMapB.Get(pocutil.PoCValue(z))
			if err == nil {
				st.b[2*z], st.b[2*z+1] = b2v(x), b2v(xp)
			}
		}
		_, cp := mdb.HashMapB.Progress()
		st.cpB = uint64(cp)
		st.plotted = mdb.Ready()
		mdb.HashMapB.Close()
		// the recorded progress, read off the header block itself: plotted = checkpoint (half-indices) reached half the volume
		if raw := readRawFile(pathB); raw.ok {
			rawCp := le64(raw.hdr[massdb_v1.PosCheckpoint:])
			st.rawMismatch = ""
			if rawCp != st.cpB || st.plotted != (rawCp >= n/2) {
				st.rawMismatch = fmt.Sprintf("the header of map B records checkpoint %d of %d; the opened map reports checkpoint %d, plotted=%v", rawCp, n/2, st.cpB, st.plotted)
			}
			st.cpB, st.plotted = rawCp, rawCp >= n/2
		}
	}
	return st
}

func paths(dir string, pk *pocec.PublicKey, bl int) (string, string) {
	pks := fmt.Sprintf("%x", pk.SerializeCompressed())
	return filepath.Join(dir, fmt.Sprintf("0_%s_%d_a.massdb", pks, bl)), filepath.Join(dir, fmt.Sprintf("0_%s_%d.massdb", pks, bl))
}

// reference: the construction, computed directly from pocutil
type ref struct {
	p  []uint64 // P(x)
	a  []uint64 // specA by position
	b  []uint64 // specB (x,x') per z
	fb []string // "x:x':z" for every pair the construction uses
}

func v2b(v uint64, bl int) []byte {
	rs := pocutil.RecordSize(bl)
	b := make([]byte, rs)
	for i := 0; i < rs; i++ {
		b[i] = byte(v >> (8 * uint(i)))
	}
	return b
}

func reference(pk *pocec.PublicKey, bl int) ref {
	n := uint64(1) << uint(bl)
	half := n / 2
	pkHash := pocutil.PubKeyHash(pk)
	r := ref{p: make([]uint64, n), a: make([]uint64, n), b: make([]uint64, 2*n)}
	for x := uint64(0); x < n; x++ {
		y := uint64(pocutil.P(pocutil.PoCValue(x), bl, pkHash))
		r.p[x] = y
		pos := y * 2
		if y >= half {
			pos = uint64(pocutil.FlipValue(pocutil.PoCValue(y), bl))*2 + 1
		}
		if x != 0 {
			r.a[pos] = x
		}
	}
	for y := uint64(0); y < half; y++ {
		x, xp := r.a[2*y], r.a[2*y+1]
		if x == 0 || xp == 0 {
			continue
		}
		z := uint64(pocutil.FB(v2b(x, bl), v2b(xp, bl), bl, pkHash))
		zp := uint64(pocutil.FB(v2b(xp, bl), v2b(x, bl), bl, pkHash))
		r.b[2*z], r.b[2*z+1] = x, xp
		r.b[2*zp], r.b[2*zp+1] = xp, x
		r.fb = append(r.fb, fmt.Sprintf("%d:%d:%d", x, xp, z), fmt.Sprintf("%d:%d:%d", xp, x, zp))
	}
	return r
}

func joinU(v []uint64) string {
	s := make([]string, len(v))
	for i, x := range v {
		s[i] = strconv.FormatUint(x, 10)
	}
	return strings.Join(s, ",")
}

func joinPairs(v []uint64) string {
	s := make([]string, len(v)/2)
	for i := range s {
		s[i] = fmt.Sprintf("%d:%d", v[2*i], v[2*i+1])
	}
	return strings.Join(s, ",")
}

func joinI(v []int) string {
	s := make([]string, len(v))
	for i, x := range v {
		s[i] = strconv.Itoa(x)
	}
	return strings.Join(s, ",")
}

// plotRun runs Plot() on the files in dir with forced cache sizes (records; cycled per window) and
// returns the snapshots taken at the named points; stopAt >= 0: stop gracefully at that point index.
func (g *G) plotRun(dir string, pk *pocec.PublicKey, bl int, wa, wb []int, snapshots bool, stopAt int, budget time.Duration) (snaps []snap, outcome string, usedA, usedB []int) {
	rs := uint64(pocutil.RecordSize(bl))
	var mu sync.Mutex
	pass := "A"
	if st := readState(dir, pk, bl); st.hasA && st.cpA >= uint64(1)<<uint(bl) {
		pass = "B"
	}
	ia, ib := 0, 0
	g.bytesA, g.bytesB = nil, nil
	nSyncA, nSyncB := 0, 0
	massdb_v1.VerifCacheSize = func(required uint64) (uint64, bool) {
		mu.Lock()
		defer mu.Unlock()
		var recs int
		if pass == "A" {
			recs = wa[ia%len(wa)]
			ia++
		} else {
			recs = wb[ib%len(wb)]
			ib++
		}
		forced := uint64(recs) * rs
		if rs > 1 {
			forced += uint64(g.h.Rng.Intn(int(rs))) // a cache that is not a whole number of records (same window, more spill)
		}
		if forced > required { // the real code never holds more than what remains
			forced = required
		}
		if pass == "A" {
			usedA = append(usedA, int(forced/rs))
			g.bytesA = append(g.bytesA, int(forced))
		} else {
			usedB = append(usedB, int(forced/rs))
			g.bytesB = append(g.bytesB, int(forced))
		}
		return forced, true
	}
	// the buffer through which pass B reads table A: sizes that the record pairs do not divide (the code's 64 MiB
	// buffer is never refilled at these bit lengths; at 3- and 5-byte records it is refilled mid-pair)
	g.nbuf++
	if sz := []int{0, 1031, 4099, 17, 263, 64}[g.nbuf%6]; sz > 0 {
		massdb_v1.VerifReadBufSize = func() (int, bool) { return sz, true }
	} else {
		massdb_v1.VerifReadBufSize = nil
	}
	defer func() { massdb_v1.VerifReadBufSize = nil }()
	mdbi, err := massdb_v1.OpenDB(dir, int64(0), pk, bl)
	if err != nil {
		return nil, "open-error:" + err.Error(), nil, nil
	}
	mdb := mdbi.(*massdb_v1.MassDBV1)
	npoint := 0
	windows := 0
	var stopOnce sync.Once // a second StopPlot during one plot panics (close of closed channel: C13)
	var stopDone chan error
	stop := func() { stopOnce.Do(func() { stopDone = mdb.StopPlot() }) }
	massdb_v1.VerifPoint = func(name, ps string, start, end uint64) {
		mu.Lock()
		if name == "final-checkpoint" && ps == "A" {
			pass = "B"
		}
		if name == "data-written" {
			windows++
		}
		if name == "checkpoint-synced" {
			if ps == "A" {
				nSyncA++
			} else {
				nSyncB++
			}
		}
		idx := npoint
		npoint++
		na, nb := nSyncA, nSyncB
		mu.Unlock()
		if (snapshots && name != "final-checkpoint") || (g.focus != "C10" && name == "checkpoint-synced" && (na+nb <= 2 || (na+nb)%5 == 0)) {
			d := filepath.Join(g.root, fmt.Sprintf("snap%d_%d", g.nrun, idx))
			copyDir(dir, d)
			snaps = append(snaps, snap{d, name, ps, start, idx, na, nb})
		}
		if idx == stopAt {
			stop()
			time.Sleep(3 * time.Millisecond) // the stop is in force before the plot goes on from this point
		}
		if windows > 4*(1<<uint(bl)) {
			stop() // runaway: a window that makes no progress
		}
	}
	res := mdb.Plot()
	select {
	case err := <-res:
		if err != nil {
			outcome = "plot-error:" + err.Error()
		} else {
			outcome = "returned"
		}
	case <-time.After(budget):
		outcome = "timeout"
		stop()
		<-res
	}
	mu.Lock()
	if windows > 4*(1<<uint(bl)) {
		outcome = "no-progress"
	}
	mu.Unlock()
	stopOnce.Do(func() {}) // no further stop requests
	// what the open object reports now (in memory) must not run ahead of what its files hold
	memPlotted := mdb.Ready()
	// what the keeper asks after a plot ends (space_plotter.go: `ws.Progress() < 100`; NewWorkSpace: `mdb.Progress()`)
	_, memPlotted2, memProgress := mdb.Progress()
	_, memCpB := mdb.HashMapB.Progress()
	memCpA, hasMemA := uint64(0), false
	if mdb.HashMapA != nil {
		_, cp := mdb.HashMapA.Progress()
		memCpA, hasMemA = uint64(cp), true
	}
	defer func() {
		st := readState(dir, pk, bl)
		g.h.Res.OracleEvals++
		if (memPlotted2 || memProgress >= 100) && !st.plotted {
			g.h.Fail("C07:reports-complete-but-table-incomplete", fmt.Sprintf("after Plot() returned (%s) the open space reports plotted=%v progress=%v, but its file holds checkpoint %d of %d (and map A present: %v)", outcome, memPlotted2, memProgress, st.cpB, (uint64(1)<<uint(bl))/2, st.hasA))
		}
		if memPlotted && !st.plotted {
			g.h.Fail("C10:reports-plotted-ahead-of-file", fmt.Sprintf("after Plot() returned (%s) the open space reports plotted, its file does not (checkpoint B in memory %d, on disk %d)", outcome, memCpB, st.cpB))
		}
		if uint64(memCpB) > st.cpB || (hasMemA && st.hasA && memCpA > st.cpA) {
			g.h.Fail("C10:progress-ahead-of-durable-data", fmt.Sprintf("after Plot() returned (%s) the open space's checkpoints (A %d, B %d) are ahead of the files' (A %d, B %d)", outcome, memCpA, memCpB, st.cpA, st.cpB))
		}
	}()
	if stopDone != nil {
		<-stopDone // the stopper has seen the plot goroutine exit: Close will not stop it a second time
	} else {
		time.Sleep(5 * time.Millisecond) // let executePlot clear its plotting flag before Close looks at it
	}
	mdb.Close()
	massdb_v1.VerifCacheSize, massdb_v1.VerifPoint = nil, nil
	return
}

func (g *G) newDir(pk *pocec.PublicKey, bl int) string {
	g.nrun++
	dir := filepath.Join(g.root, "run"+strconv.Itoa(g.nrun))
	os.MkdirAll(dir, 0o755)
	mdb, err := massdb_v1.CreateDB(dir, int64(0), pk, bl)
	if err != nil {
		panic(err)
	}
	mdb.Close()
	return dir
}

func (g *G) sizes(n int, passB bool) []int {
	r := g.h.Rng
	k := 1 + r.Intn(3)
	out := make([]int, k)
	for i := range out {
		switch r.Intn(6) {
		case 0:
			out[i] = 2 * n // everything fits
		case 1:
			out[i] = n/2 + r.Intn(n/2)
		case 2:
			out[i] = 4 + r.Intn(12) // tiny windows; at the larger bit lengths at most ~48 per pass (every point of every window is resumed)
			if out[i] < n/48 {
				out[i] = n/48 + r.Intn(5)
			}
		case 3:
			out[i] = n / 4
		case 4:
			out[i] = n/8 + 1 + r.Intn(5) // odd sizes
		default:
			out[i] = 8 + r.Intn(n)
		}
		if passB {
			if out[i] < 4 {
				out[i] = 4
			}
			if r.Intn(5) == 0 {
				out[i] = 4 * n
			}
		} else if out[i] < 2 {
			out[i] = 2
		}
	}
	return out
}

func (g *G) modelLine(bl int, r ref, wa, wb []int, init fileState) string {
	a0, b0 := "-", "-"
	if init.hasA {
		a0 = joinU(init.a)
	}
	if init.b != nil {
		b0 = joinPairs(init.b)
	}
	cpA0 := init.cpA
	if !init.hasA {
		cpA0 = uint64(1) << uint(bl)
	}
	return fmt.Sprintf("run bl=%d P=%s FB=%s wa=%s wb=%s A0=%s cpA0=%d B0=%s cpB0=%d", bl, joinU(r.p), strings.Join(r.fb, ";"), joinI(wa), joinI(wb), a0, cpA0, b0, init.cpB)
}

func outLine(st fileState, bl int) string {
	cpA := st.cpA
	if !st.hasA {
		cpA = uint64(1) << uint(bl)
	}
	pl := 0
	if st.plotted {
		pl = 1
	}
	return fmt.Sprintf("cpA=%d cpB=%d plotted=%d B=%s", cpA, st.cpB, pl, joinPairs(st.b))
}

func sameU(a, b []uint64) bool {
	if len(a) != len(b) {
		return false
	}
	for i := range a {
		if a[i] != b[i] {
			return false
		}
	}
	return true
}

// checkFinal: C07 oracle on a completed plot.
func (g *G) checkFinal(what string, st fileState, r ref, pk *pocec.PublicKey, bl int, replay []string) {
	g.h.Res.OracleEvals++
	if st.rawMismatch != "" {
		g.h.FailWith("C07:progress-misread", what+": "+st.rawMismatch, replay)
		g.h.FailWith("C10:progress-misread", what+": "+st.rawMismatch, replay)
	}
	if !st.plotted {
		g.h.FailWith("C07:plot-incomplete", what+": the plot returned but the space does not report plotted", replay)
		return
	}
	if !sameU(st.b, r.b) {
		n := len(r.b) / 2
		miss, extra, wrong := 0, 0, 0
		for z := 0; z < n; z++ {
			s0, s1, r0, r1 := st.b[2*z], st.b[2*z+1], r.b[2*z], r.b[2*z+1]
			switch {
			case s0 == r0 && s1 == r1:
			case s0 == 0 && s1 == 0:
				miss++
			case r0 == 0 && r1 == 0:
				extra++
			default:
				wrong++
			}
		}
		g.h.FailWith("C07:table-differs", fmt.Sprintf("%s: the stored table differs from the construction: %d entries missing, %d spurious, %d different", what, miss, extra, wrong), replay)
	}
}

func main() {
	focus := flag.String("focus", "C07", "C07 or C10")
	h := hx.New("plot")
	root, _ := os.MkdirTemp("", "verif-plot-")
	defer os.RemoveAll(root)
	g := &G{h: h, focus: *focus, root: root}
	h.Emit("reset", "ok")
	bls := []int{8, 9, 10}
	if h.Tier == "thorough" {
		bls = []int{8, 9, 10, 11, 12}
	}
	for round := 0; round < h.N; round++ {
		bl := bls[round%len(bls)]
		if *focus == "C10" && h.Tier != "thorough" {
			bl = 8 + round%2
		}
		n := 1 << uint(bl)
		pk := key(h.Rng.Intn(5))
		r := reference(pk, bl)
		wa, wb := g.sizes(n, false), g.sizes(n, true)
		dir := g.newDir(pk, bl)
		empty := readState(dir, pk, bl)
		// byte level: the pristine image, its header blocks, mutated headers through the loader
		byteLevel := bl <= 9 || (h.Tier == "thorough" && bl <= 10)
		freshDir := dir + "_fresh"
		copyDir(dir, freshDir)
		if round < 6 || round%4 == 0 {
			g.headerLines(dir, pk, bl)
			g.decodeLines(dir, pk, bl)
		}
		snaps, outcome, usedA, usedB := g.plotRun(dir, pk, bl, wa, wb, *focus == "C10", -1, 60*time.Second)
		snaps0 := append([]snap(nil), snaps...)
		bytesA, bytesB := append([]int(nil), g.bytesA...), append([]int(nil), g.bytesB...)
		if byteLevel && outcome == "returned" {
			g.bytesLine("uninterrupted plot, "+fmt.Sprintf("bl=%d cache bytes A=%v B=%v", bl, bytesA, bytesB), bl, r, bytesA, bytesB, freshDir, dir, pk, "run")
			nsync := 0
			for _, s := range snaps {
				if s.point != "checkpoint-synced" || s.nA > len(bytesA) || s.nB > len(bytesB) {
					continue
				}
				nsync++
				if *focus == "C10" && nsync > 3 && nsync%4 != 0 {
					continue
				}
				g.bytesLine(fmt.Sprintf("image after %d windows of pass A and %d of pass B, bl=%d cache bytes A=%v B=%v", s.nA, s.nB, bl, bytesA, bytesB), bl, r, bytesA[:s.nA], bytesB[:s.nB], freshDir, s.dir, pk, "image")
				if nsync <= 2 {
					g.headerLines(s.dir, pk, bl)
				}
			}
		}
		if *focus != "C10" {
			for _, s := range snaps {
				os.RemoveAll(s.dir)
			}
		}
		os.RemoveAll(freshDir)
		desc := fmt.Sprintf("bl=%d key=%x.. cacheA=%v cacheB=%v (windows A:%d B:%d)", bl, pk.SerializeCompressed()[:4], wa, wb, len(usedA), len(usedB))
		replay := []string{"# " + desc}
		final := readState(dir, pk, bl)
		h.Emit(g.modelLine(bl, r, wa, wb, empty), outLine(final, bl))
		h.Res.Sequences++
		if outcome != "returned" {
			h.FailWith("C07:plot-did-not-complete", desc+": "+outcome, replay)
		} else {
			g.checkFinal("uninterrupted plot "+desc, final, r, pk, bl, replay)
		}
		if round < 2 {
			h.Sample("plot " + desc)
		}
		h.Res.Extra["windows"] = toInt(h.Res.Extra["windows"]) + len(usedA) + len(usedB)
		// ---- C07: a plot that was stopped once and then resumed completes to the same table; a stopped plot never
		// counts as complete
		if *focus != "C10" {
			d := g.newDir(pk, bl)
			stopAt := h.Rng.Intn(1 + 2*(len(usedA)+len(usedB)))
			_, o1, _, _ := g.plotRun(d, pk, bl, wa, wb, false, stopAt, 30*time.Second)
			mid := readState(d, pk, bl)
			if mid.rawMismatch != "" {
				h.FailWith("C07:progress-misread", "after a stopped plot: "+mid.rawMismatch, []string{"# " + desc})
			}
			wa2, wb2 := g.sizes(n, false), g.sizes(n, true)
			_, o2, _, _ := g.plotRun(d, pk, bl, wa2, wb2, false, -1, 30*time.Second)
			after := readState(d, pk, bl)
			d2 := fmt.Sprintf("%s; stopped at point %d (%s), then resumed with cacheA=%v cacheB=%v (%s)", desc, stopAt, o1, wa2, wb2, o2)
			h.Emit(g.modelLine(bl, r, wa2, wb2, mid), outLine(after, bl))
			if o2 != "returned" {
				h.FailWith("C07:plot-did-not-complete", d2, []string{"# " + d2})
			} else {
				g.checkFinal("stopped and resumed plot "+d2, after, r, pk, bl, []string{"# " + d2})
			}
			os.RemoveAll(d)
		}
		// ---- C10: every snapshot (crash image at a named point) is resumed with other window sizes
		if *focus == "C10" {
			for si, s := range snaps {
				// a crash right after the window's data was written but before it was synced may keep the file's LENGTH and
				// lose the CONTENT: the same image with everything from the window's start on reading as zeros
				if s.point == "data-written" && si%2 == 0 {
					torn := s.dir + "_torn"
					copyDir(s.dir, torn)
					pa, pb := paths(torn, pk, bl)
					rs := int64(pocutil.RecordSize(bl))
					path, off := pa, int64(massdb_v1.LenMetaInfo)+int64(s.start)*rs
					if s.pass == "B" {
						path, off = pb, int64(massdb_v1.LenMetaInfo)+int64(s.start)*rs*4
					}
					if f, err := os.OpenFile(path, os.O_RDWR, 0o644); err == nil {
						if st, err := f.Stat(); err == nil && st.Size() > off {
							f.WriteAt(make([]byte, st.Size()-off), off)
						}
						f.Close()
					}
					waT, wbT := g.sizes(n, false), g.sizes(n, true)
					initT := readState(torn, pk, bl)
					_, outT, _, _ := g.plotRun(torn, pk, bl, waT, wbT, false, -1, 20*time.Second)
					afterT := readState(torn, pk, bl)
					dT := fmt.Sprintf("%s; crash image at point %d (%s, pass %s, window start %d) with the unsynced window lost (length kept, content zero); resumed with cacheA=%v cacheB=%v", desc, si, s.point, s.pass, s.start, waT, wbT)
					h.Emit(g.modelLine(bl, r, waT, wbT, initT), outLine(afterT, bl))
					h.Res.OracleEvals++
					h.Res.Extra["torn_resumes"] = toInt(h.Res.Extra["torn_resumes"]) + 1
					g.checkResume(dT, outT, initT, afterT, r, bl)
					os.RemoveAll(torn)
				}
				wa2, wb2 := g.sizes(n, false), g.sizes(n, true)
				init := readState(s.dir, pk, bl)
				withBytes := byteLevel && (bl == 8 || si%3 == 0)
				if withBytes {
					copyDir(s.dir, s.dir+"_from")
				}
				_, out2, _, _ := g.plotRun(s.dir, pk, bl, wa2, wb2, false, -1, 20*time.Second)
				after := readState(s.dir, pk, bl)
				if withBytes {
					if out2 == "returned" {
						g.bytesLine(fmt.Sprintf("resume of the crash image at point %d (%s, pass %s), bl=%d cache bytes A=%v B=%v", si, s.point, s.pass, bl, g.bytesA, g.bytesB), bl, r, g.bytesA, g.bytesB, s.dir+"_from", s.dir, pk, "run")
					}
					os.RemoveAll(s.dir + "_from")
				}
				d2 := fmt.Sprintf("%s; crash image at point %d (%s, pass %s, window start %d); resumed with cacheA=%v cacheB=%v", desc, si, s.point, s.pass, s.start, wa2, wb2)
				h.Emit(g.modelLine(bl, r, wa2, wb2, init), outLine(after, bl))
				h.Res.OracleEvals++
				h.Res.Extra["resumes"] = toInt(h.Res.Extra["resumes"]) + 1
				g.checkResume(d2, out2, init, after, r, bl)
				// a second interruption: stop the resumed run gracefully at its first point, resume again
				if si%3 == 0 {
					copyDir(filepath.Join(g.root, filepath.Base(s.dir)), s.dir+"_2")
				}
				os.RemoveAll(s.dir)
			}
			// graceful stops at a few points of a fresh run, then resume: fixed early points, the last window of
			// pass B filled but not yet flushed, and one more filled window
			stops := []int{0, 1, 3, 5}
			var filled []int
			for _, s := range snaps0 {
				if s.point == "window-filled" {
					filled = append(filled, s.idx)
				}
			}
			if len(filled) > 0 {
				stops = append(stops, filled[len(filled)-1], filled[h.Rng.Intn(len(filled))])
			}
			for _, stopAt := range stops {
				d := g.newDir(pk, bl)
				_, o1, _, _ := g.plotRun(d, pk, bl, wa, wb, false, stopAt, 30*time.Second)
				mid := readState(d, pk, bl)
				wa2, wb2 := g.sizes(n, false), g.sizes(n, true)
				_, o2, _, _ := g.plotRun(d, pk, bl, wa2, wb2, false, -1, 20*time.Second)
				after := readState(d, pk, bl)
				d2 := fmt.Sprintf("%s; graceful stop at point %d (%s); resumed with cacheA=%v cacheB=%v", desc, stopAt, o1, wa2, wb2)
				h.Emit(g.modelLine(bl, r, wa2, wb2, mid), outLine(after, bl))
				h.Res.Extra["resumes"] = toInt(h.Res.Extra["resumes"]) + 1
				g.checkResume(d2, o2, mid, after, r, bl)
				os.RemoveAll(d)
			}
		}
		os.RemoveAll(dir)
	}
	h.Finish("real massdb.v1 plots at bit lengths 8-12, several public keys, forced cache sizes (1-8 windows per pass, odd/even/exact/oversized); C10: every named point of both passes is snapshotted and resumed with other sizes, plus graceful stops; distinct = distinct (line, output) pairs")
}

// ---- byte level (Model/PlotFile.lean): the two files as they are on disk

type rawFile struct {
	ok   bool
	hdr  []byte // first 4096 bytes
	data []byte // the rest
}

func readRawFile(path string) rawFile {
	b, err := os.ReadFile(path)
	if err != nil || len(b) < massdb_v1.LenMetaInfo {
		return rawFile{}
	}
	return rawFile{true, b[:massdb_v1.LenMetaInfo], b[massdb_v1.LenMetaInfo:]}
}

func le64(b []byte) uint64 {
	var v uint64
	for i := 7; i >= 0; i-- {
		v = v<<8 | uint64(b[i])
	}
	return v
}

// bytesLine: the model's byte-level run from the raw image `from` through the given cache byte lengths, and the
// data regions the code left in `to`
func (g *G) bytesLine(what string, bl int, r ref, ca, cb []int, from, to string, pk *pocec.PublicKey, end string) {
	pa0, pb0 := paths(from, pk, bl)
	pa1, pb1 := paths(to, pk, bl)
	a0, b0, a1, b1 := readRawFile(pa0), readRawFile(pb0), readRawFile(pa1), readRawFile(pb1)
	if !b0.ok || !b1.ok {
		return
	}
	n := 1 << uint(bl)
	rs := pocutil.RecordSize(bl)
	g.h.Res.OracleEvals++
	// on Linux a fresh map file is just its header block: the data region grows as windows are flushed, and never
	// beyond the table (bytes that were never written read as zero)
	if len(b1.data) > 2*n*rs || len(a1.data) > n*rs {
		g.h.FailWith("C07:file-size", fmt.Sprintf("%s: data region of map B is %d bytes (table: %d), of map A %d (table: %d)", what, len(b1.data), 2*n*rs, len(a1.data), n*rs), []string{"# " + what})
		return
	}
	pad := func(f *rawFile, size int) {
		if f.ok && len(f.data) < size {
			f.data = append(append([]byte(nil), f.data...), make([]byte, size-len(f.data))...)
		}
	}
	pad(&a0, n*rs)
	pad(&a1, n*rs)
	pad(&b0, 2*n*rs)
	pad(&b1, 2*n*rs)
	a0s, cpA0 := "-", uint64(n)
	if a0.ok {
		a0s, cpA0 = hx.Hex(a0.data), le64(a0.hdr[massdb_v1.PosCheckpoint:])
	}
	a1s, cpA1 := "-", uint64(n)
	if a0.ok { // the model prints map A whenever it was given one; a completed plot removes the file
		if a1.ok {
			a1s, cpA1 = hx.Hex(a1.data), le64(a1.hdr[massdb_v1.PosCheckpoint:])
		} else {
			a1s = "removed"
		}
	}
	op := fmt.Sprintf("bytes bl=%d P=%s FB=%s ca=%s cb=%s A0=%s cpA0=%d B0=%s cpB0=%d end=%s", bl, joinU(r.p), strings.Join(r.fb, ";"), dash(joinI(ca)), dash(joinI(cb)),
		a0s, cpA0, hx.Hex(b0.data), le64(b0.hdr[massdb_v1.PosCheckpoint:]), end)
	out := fmt.Sprintf("cpA=%d cpB=%d A=%s B=%s", cpA1, le64(b1.hdr[massdb_v1.PosCheckpoint:]), a1s, hx.Hex(b1.data))
	g.h.Emit(op, out)
	g.h.Res.Extra["byte_level_runs"] = toInt(g.h.Res.Extra["byte_level_runs"]) + 1
}

func dash(s string) string {
	if s == "" {
		return "-"
	}
	return s
}

// headerLines: the header blocks of the two files of dir against the model's encoder
func (g *G) headerLines(dir string, pk *pocec.PublicKey, bl int) {
	pa, pb := paths(dir, pk, bl)
	pkh := pocutil.PubKeyHash(pk)
	for i, p := range []string{pa, pb} {
		f := readRawFile(p)
		if !f.ok {
			continue
		}
		typ := []int{int(massdb_v1.MapTypeHashMapA), int(massdb_v1.MapTypeHashMapB)}[i]
		op := fmt.Sprintf("header code=%s ver=1 pk=%x pkhash=%x bl=%d typ=%d cp=%d", hx.Hex(massdb.DBFileCode), pk.SerializeCompressed(), pkh[:], bl, typ, le64(f.hdr[massdb_v1.PosCheckpoint:]))
		g.h.Emit(op, hx.Hex(f.hdr[:massdb_v1.PosAlignHolder]))
		g.h.Res.OracleEvals++
		for _, b := range f.hdr[massdb_v1.PosAlignHolder:] {
			if b != 0 {
				g.h.FailWith("C11:header-padding-written", "bytes between the header fields and the data region are not zero in "+filepath.Base(p), []string{"# " + op})
				break
			}
		}
	}
}

// decodeLines: mutated header blocks through the package's loader and the model's decoder
func (g *G) decodeLines(dir string, pk *pocec.PublicKey, bl int) {
	_, pb := paths(dir, pk, bl)
	f := readRawFile(pb)
	if !f.ok {
		return
	}
	r := g.h.Rng
	for k := 0; k < 14; k++ {
		hdr := append([]byte(nil), f.hdr...)
		switch k {
		case 0: // untouched
		case 1:
			hdr[r.Intn(massdb_v1.LenFileCode)] ^= byte(1 + r.Intn(255))
		case 2:
			hdr[massdb_v1.PosVersion+r.Intn(8)] ^= byte(1 + r.Intn(255))
		case 3:
			hdr[massdb_v1.PosBitLength] = byte(r.Intn(256))
		case 4:
			hdr[massdb_v1.PosType] = byte(r.Intn(5))
		case 5:
			hdr[massdb_v1.PosType] = byte(r.Intn(256))
		case 6:
			for i := 0; i < 8; i++ {
				hdr[massdb_v1.PosCheckpoint+i] = byte(r.Intn(256))
			}
		case 7:
			hdr[massdb_v1.PosPubKeyHash+r.Intn(32)] ^= byte(1 + r.Intn(255))
		case 8:
			hdr[massdb_v1.PosPubKey+1+r.Intn(32)] ^= byte(1 + r.Intn(255)) // another x coordinate: a key or not a point
		case 9:
			hdr[massdb_v1.PosPubKey] = byte(r.Intn(8)) // the format byte
		case 10: // another valid key with its own hash
			pk2 := key(7 + r.Intn(5))
			h2 := pocutil.PubKeyHash(pk2)
			copy(hdr[massdb_v1.PosPubKey:], pk2.SerializeCompressed())
			copy(hdr[massdb_v1.PosPubKeyHash:], h2[:])
		case 11: // another valid key, old hash
			copy(hdr[massdb_v1.PosPubKey:], key(7+r.Intn(5)).SerializeCompressed())
		case 12:
			hdr[massdb_v1.PosType] = byte(massdb_v1.MapTypeHashMapA)
			hdr[massdb_v1.PosCheckpoint+r.Intn(3)] ^= byte(1 + r.Intn(255))
		default: // several fields at once: the first failing check names the error
			hdr[r.Intn(massdb_v1.LenFileCode)] ^= byte(r.Intn(2))
			hdr[massdb_v1.PosVersion] ^= byte(r.Intn(2))
			hdr[massdb_v1.PosType] = byte(r.Intn(4))
			hdr[massdb_v1.PosPubKeyHash] ^= byte(r.Intn(2))
		}
		tmp := filepath.Join(g.root, "hdr.massdb")
		os.WriteFile(tmp, hdr, 0o644)
		parsed, perr := pocec.ParsePubKey(hdr[massdb_v1.PosPubKey:massdb_v1.PosPubKey+massdb_v1.LenPubKey], pocec.S256())
		parses, hash := 0, "-"
		if perr == nil {
			h := pocutil.PubKeyHash(parsed)
			parses, hash = 1, hx.Hex(h[:])
		}
		op := fmt.Sprintf("decode code=%s ver=1 ta=%d tb=%d hdr=%s parses=%d hash=%s", hx.Hex(massdb.DBFileCode), int(massdb_v1.MapTypeHashMapA), int(massdb_v1.MapTypeHashMapB),
			hx.Hex(hdr[:massdb_v1.PosAlignHolder]), parses, hash)
		var out string
		hmi, err := massdb_v1.LoadHashMap(tmp)
		switch {
		case err == massdb_v1.ErrDBWrongFileCode:
			out = "err fileCode"
		case err == massdb_v1.ErrDBWrongVersion:
			out = "err version"
		case err == massdb_v1.ErrDBWrongPubKeyHash:
			out = "err pubKeyHash"
		case err == massdb_v1.ErrDBWrongMapType:
			out = "err mapType"
		case err != nil && perr != nil:
			out = "err pubKey"
		case err != nil:
			out = "err other:" + strings.ReplaceAll(err.Error(), " ", "_")
		default:
			switch hm := hmi.(type) {
			case *massdb_v1.HashMapA:
				out = fmt.Sprintf("ok bl=%d typ=%d cp=%d pk=%x", hm.BitLength(), int(massdb_v1.MapTypeHashMapA), uint64(hm.Checkpoint()), hm.PubKey().SerializeCompressed())
				hm.Close()
			case *massdb_v1.HashMapB:
				_, cp := hm.Progress()
				hm.Close()
				if mdb, err := massdb_v1.NewMassDBV1ForTest(tmp); err == nil {
					out = fmt.Sprintf("ok bl=%d typ=%d cp=%d pk=%x", mdb.BitLength(), int(massdb_v1.MapTypeHashMapB), uint64(cp), mdb.PubKey().SerializeCompressed())
					mdb.HashMapB.Close()
				}
			}
		}
		g.h.Emit(op, out)
	}
}

func (g *G) checkResume(desc, outcome string, init, after fileState, r ref, bl int) {
	replay := []string{"# " + desc}
	n := uint64(1) << uint(bl)
	// recorded progress must never run ahead of final data (checked on the image we resumed from)
	for pos := uint64(0); init.hasA && pos < init.cpA && pos < n; pos++ {
		if init.a[pos] != r.a[pos] {
			g.h.FailWith("C10:checkpoint-ahead-of-data-A", fmt.Sprintf("%s: map A checkpoint %d but position %d holds %d instead of %d", desc, init.cpA, pos, init.a[pos], r.a[pos]), replay)
			break
		}
	}
	for z := uint64(0); z < 2*init.cpB && z < n; z++ {
		if init.b[2*z] != r.b[2*z] || init.b[2*z+1] != r.b[2*z+1] {
			g.h.FailWith("C10:checkpoint-ahead-of-data-B", fmt.Sprintf("%s: map B checkpoint %d but entry %d is not final", desc, init.cpB, z), replay)
			break
		}
	}
	if init.plotted && !sameU(init.b, r.b) {
		g.h.FailWith("C10:falsely-plotted", desc+": the image reports plotted but its table is incomplete", replay)
	}
	switch {
	case outcome == "no-progress" || outcome == "timeout":
		g.h.FailWith("C10:resume-does-not-terminate", desc+": the resumed plot makes no progress ("+outcome+")", replay)
	case outcome != "returned":
		g.h.FailWith("C10:resume-failed", desc+": "+outcome, replay)
	case !after.plotted:
		g.h.FailWith("C10:resume-incomplete", desc+": resumed plot returned but the space is not plotted", replay)
	case !sameU(after.b, r.b):
		g.h.FailWith("C10:resumed-table-differs", desc+": the resumed plot's table differs from the uninterrupted one", replay)
	}
}

func toInt(v interface{}) int {
	if v == nil {
		return 0
	}
	return v.(int)
}
