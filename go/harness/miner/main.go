// Harness C08 (miner round): the real PoCMiner (poc/engine/pocminer/miner) is run against a scripted chain, a
// scripted space keeper offering REAL bit-length-24 proofs of capacity (proofs.json, re-verified here with the
// library's VerifiedQuality) and their mutated/unbound/erroneous variants, and a PoC template whose target
// function is a table chosen relative to the proofs' real qualities.  The miner reads the wall clock, so the
// scenarios run in real time, concurrently, all starting just after a slot boundary; what is compared with the
// Lean model is timing-independent (which proof wins at which slot, or why the round ends without a block),
// what depends on time is checked as inequalities against the clock (look-ahead, not before the timestamp).
package main

import (
	"context"
	"crypto/sha256"
	"encoding/hex"
	"encoding/json"
	"errors"
	"fmt"
	"math/big"
	"os"
	"path/filepath"
	"runtime"
	"sort"
	"strconv"
	"strings"
	"sync"
	"time"

	"github.com/massnetorg/mass-core/blockchain"
	"github.com/massnetorg/mass-core/massutil"
	"github.com/massnetorg/mass-core/poc"
	"github.com/massnetorg/mass-core/poc/pocutil"
	"github.com/massnetorg/mass-core/pocec"
	"github.com/massnetorg/mass-core/wire"
	"massnet.org/mass/config"
	"massnet.org/mass/poc/engine"
	"massnet.org/mass/poc/engine/pocminer/miner"
	"massnet.org/mass/poc/engine/spacekeeper"
	"verifharness/hx"
)

const pocSlot = 3
const horizon = 6  // slots of qualities/targets handed to the model
const lastSlot = 3 // every scenario is cut off (miner stopped) when the clock enters slot now0+lastSlot

type proofFile struct {
	BL        int    `json:"bl"`
	Challenge string `json:"challenge"`
	Proofs    []struct {
		Key int    `json:"key"`
		X   uint64 `json:"x"`
		XP  uint64 `json:"xp"`
	} `json:"proofs"`
}

func keyFor(i int) *pocec.PrivateKey {
	s := sha256.Sum256([]byte("miner-key-" + strconv.Itoa(i)))
	priv, _ := pocec.PrivKeyFromBytes(pocec.S256(), s[:])
	return priv
}

// one candidate a mining space offers
type cand struct {
	id      int // position in the offered list
	key     int // key index
	x, xp   uint64
	err     bool // the space reports an error with it
	binding bool // passes the template's binding check
	valid   bool // the proof verifies (false: mutated x')
}

func (c cand) wsp() *engine.WorkSpaceProof {
	p := &engine.WorkSpaceProof{
		SpaceID:   fmt.Sprintf("space-%d-%d", c.id, c.key),
		Proof:     poc.NewDefaultProof(pocutil.PoCValue2Bytes(pocutil.PoCValue(c.x), 24), pocutil.PoCValue2Bytes(pocutil.PoCValue(c.xp), 24), 24),
		PublicKey: keyFor(c.key).PubKey(),
		Ordinal:   int64(c.id),
	}
	if c.err {
		p.Error = errors.New("scripted space error")
	}
	return p
}

// ---- scripted space keeper ----
type keeper struct {
	spacekeeper.SpaceKeeper
	cands   []cand
	signed  []string
	mu      sync.Mutex
	queried int
}

func (k *keeper) Started() bool { return true }
func (k *keeper) Start() error  { return nil }
func (k *keeper) Stop() error   { return nil }
func (k *keeper) Type() string  { return "scripted" }
func (k *keeper) GetProofs(ctx context.Context, flags engine.WorkSpaceStateFlags, ch pocutil.Hash, filter bool) ([]*engine.WorkSpaceProof, error) {
	k.mu.Lock()
	defer k.mu.Unlock()
	k.queried++
	var out []*engine.WorkSpaceProof
	for _, c := range k.cands {
		out = append(out, c.wsp())
	}
	return out, nil
}
func (k *keeper) SignHash(sid string, hash [32]byte) (*pocec.Signature, error) {
	k.mu.Lock()
	defer k.mu.Unlock()
	k.signed = append(k.signed, sid)
	for _, c := range k.cands {
		if c.wsp().SpaceID == sid {
			return keyFor(c.key).Sign(hash[:])
		}
	}
	return nil, errors.New("unknown space")
}

// ---- scripted chain ----
type submission struct {
	at    time.Time
	block *massutil.Block
}

type chain struct {
	mu        sync.Mutex
	best      *blockchain.BlockNode
	waiter    chan *blockchain.BlockNode
	templates []func(ch chan interface{}) // one per NewBlockTemplate call
	calls     int
	subs      []submission
	accept    bool
	advance   bool // an accepted block becomes the best block (the later rounds of a longer history)
	onAccept  func()
}

func (c *chain) BestBlockNode() *blockchain.BlockNode {
	c.mu.Lock()
	defer c.mu.Unlock()
	return c.best
}
func (c *chain) BestBlockHash() *wire.Hash { c.mu.Lock(); defer c.mu.Unlock(); return c.best.Hash }
func (c *chain) BestBlockHeight() uint64   { c.mu.Lock(); defer c.mu.Unlock(); return c.best.Height }
func (c *chain) ChainID() *wire.Hash       { return &wire.Hash{} }
func (c *chain) ProcessBlock(b *massutil.Block) (bool, error) {
	c.mu.Lock()
	defer c.mu.Unlock()
	c.subs = append(c.subs, submission{time.Now(), b})
	if !c.accept {
		return false, errors.New("scripted rejection")
	}
	if c.onAccept != nil {
		f := c.onAccept
		c.onAccept = nil
		go f()
	}
	if c.advance {
		c.best = &blockchain.BlockNode{Hash: b.Hash(), Height: b.Height(), CapSum: new(big.Int).Add(c.best.CapSum, big.NewInt(1)), Timestamp: b.MsgBlock().Header.Timestamp, Quality: big.NewInt(1)}
	}
	return false, nil
}
func (c *chain) BlockWaiter(height uint64) (<-chan *blockchain.BlockNode, error) {
	c.mu.Lock()
	defer c.mu.Unlock()
	return c.waiter, nil
}
func (c *chain) NewBlockTemplate(addrs []massutil.Address, ch chan interface{}) error {
	c.mu.Lock()
	defer c.mu.Unlock()
	if c.calls >= len(c.templates) {
		return errors.New("no more templates")
	}
	f := c.templates[c.calls]
	c.calls++
	f(ch)
	return nil
}

// a new tip: better (more capacity) or not
func (c *chain) tip(better bool) {
	c.mu.Lock()
	old := c.best
	n := &blockchain.BlockNode{Hash: &wire.Hash{0xEE, byte(len(c.subs))}, Height: old.Height, Timestamp: old.Timestamp, Quality: big.NewInt(1)}
	if better {
		n.CapSum = new(big.Int).Add(old.CapSum, big.NewInt(5))
		c.best = n
	} else {
		n.CapSum = new(big.Int).Sub(old.CapSum, big.NewInt(1))
	}
	w := c.waiter
	c.mu.Unlock()
	w <- n
}

type syncMgr struct{}

func (syncMgr) IsCaughtUp() bool { return true }
func (syncMgr) PeerCount() int   { return 3 }

// ---- scenario ----
type scenario struct {
	id       int
	cands    []cand
	startOff int      // first work slot = now0 + startOff
	rem      int      // template timestamp = slot*3 + rem
	targets  []string // per slot offset 0..horizon-1 (decimal)
	quals    [][]string
	winOff   int    // designed winner offset (-1 none)
	event    string // none | tip@k | lesser@k | stop@k | foundstop | foundtip | mined | reject
	height   uint64
	// observed
	result   string
	errName  string
	retAt    time.Time
	subs     []submission
	mined    bool
	signed   []string
	t0       time.Time // start of the batch the scenario ran in
	now0     uint64
	handoff  bool   // "mined" with a late reader of the new-block channel and a stop during the hand-over
	second   string // error of a second round for the same height
	later    string // "" or what happened when the height was offered again after the chain went on and came back (reorganisation)
	problems []string
}

var challenge pocutil.Hash
var pf proofFile
var payout []massutil.Address

func quality(c cand, slot, height uint64) (*big.Int, error) {
	w := c.wsp()
	return w.Proof.VerifiedQuality(pocutil.PubKeyHash(w.PublicKey), challenge, false, slot, height)
}

func main() {
	h := hx.New("miner")
	_, self, _, _ := runtime.Caller(0)
	b, err := os.ReadFile(filepath.Join(filepath.Dir(self), "proofs.json"))
	if err != nil {
		b, err = os.ReadFile("harness/miner/proofs.json")
	}
	if err != nil {
		fmt.Fprintln(os.Stderr, "proofs.json:", err)
		os.Exit(2)
	}
	if err := json.Unmarshal(b, &pf); err != nil {
		panic(err)
	}
	cb, _ := hex.DecodeString(pf.Challenge)
	copy(challenge[:], cb)
	for _, p := range pf.Proofs {
		if _, err := quality(cand{key: p.Key, x: p.X, xp: p.XP}, 1, 1); err != nil {
			fmt.Fprintf(os.Stderr, "proofs.json: proof of key %d does not verify: %v (regenerate with go run ./cmd/mkproofs)\n", p.Key, err)
			os.Exit(2)
		}
	}
	wh := sha256.Sum256([]byte("payout"))
	addr, _ := massutil.NewAddressWitnessScriptHash(wh[:], config.ChainParams)
	payout = []massutil.Address{addr}

	n := h.N
	var scs []*scenario
	for i := 0; i < n; i++ {
		scs = append(scs, gen(h, i))
	}
	// The scenarios run in real time (slots of 3 s, timers at fractions of a slot).  On a machine that is busy with other
	// work the timers fire late and the scripted events no longer fall where the scenario puts them; such a run says nothing
	// about the miner.  A monitor measures how late a 5 ms sleep wakes up; a disturbed attempt is repeated (at most three
	// times, later attempts in smaller parallel batches), and only an undisturbed attempt is judged.
	saved := make([]scenario, len(scs))
	for i, sc := range scs {
		saved[i] = *sc
	}
	var t0 time.Time
	var now0 uint64
	attempts, worstLag := 0, time.Duration(0)
	for attempt := 0; attempt < 3; attempt++ {
		attempts++
		for i := range scs {
			*scs[i] = saved[i]
		}
		stopMon := make(chan struct{})
		lagCh := make(chan time.Duration, 1)
		go func() {
			var worst time.Duration
			for {
				select {
				case <-stopMon:
					lagCh <- worst
					return
				default:
				}
				t := time.Now()
				time.Sleep(5 * time.Millisecond)
				if d := time.Since(t) - 5*time.Millisecond; d > worst {
					worst = d
				}
			}
		}()
		batch := len(scs) >> uint(attempt)
		if batch < 1 {
			batch = 1
		}
		for lo := 0; lo < len(scs); lo += batch {
			hi := lo + batch
			if hi > len(scs) {
				hi = len(scs)
			}
			// start the batch just after a slot boundary
			now := time.Now()
			next := now.Truncate(pocSlot * time.Second).Add(pocSlot * time.Second)
			if rem := now.Unix() % pocSlot; rem == 0 && now.Nanosecond() < 100e6 {
				next = now
			}
			time.Sleep(time.Until(next.Add(80 * time.Millisecond)))
			t0 = time.Now()
			now0 = uint64(t0.Unix()) / pocSlot
			var wg sync.WaitGroup
			for _, sc := range scs[lo:hi] {
				wg.Add(1)
				go func(sc *scenario, t0 time.Time, now0 uint64) {
					defer wg.Done()
					defer func() {
						if r := recover(); r != nil {
							sc.problems = append(sc.problems, fmt.Sprintf("panic: %v", r))
						}
					}()
					sc.t0, sc.now0 = t0, now0
					run(sc, t0, now0)
				}(sc, t0, now0)
			}
			wg.Wait()
		}
		close(stopMon)
		worstLag = <-lagCh
		if worstLag < 100*time.Millisecond {
			break
		}
		h.Res.Notes = append(h.Res.Notes, fmt.Sprintf("attempt %d: a 5 ms sleep woke up %v late - the machine is busy, the real-time scenarios of this attempt are not judged", attempt+1, worstLag))
	}
	h.Res.Extra["attempts"] = attempts
	h.Res.Extra["worst_timer_lag_ms"] = worstLag.Milliseconds()
	if worstLag >= 100*time.Millisecond {
		// three disturbed attempts: nothing is judged (a late timer is the machine's doing, not the miner's)
		h.Res.Notes = append(h.Res.Notes, "all attempts were disturbed by other load on the machine: the real-time miner scenarios were NOT judged in this run")
		scs = nil
	}
	for _, sc := range scs {
		emit(h, sc, sc.now0)
	}
	h.Res.Extra["scenarios"] = n
	h.Res.Extra["wall_s"] = time.Since(t0).Seconds()
	h.Finish("C08: every block the real miner handed to the chain carries a proof that verifies, is bound, has the maximal quality of its slot, exceeds the target at its timestamp, no eligible proof won an earlier slot, the slot was within the look-ahead when found, the header is signed by the winning space's key, it was not submitted before its timestamp, no height twice, nothing after a better tip or a stop")
}

func gen(h *hx.H, i int) *scenario {
	r := h.Rng
	sc := &scenario{id: i, height: uint64(100 + i), winOff: -1}
	// candidates
	perm := r.Perm(len(pf.Proofs))
	nc := 1 + r.Intn(5)
	if r.Intn(12) == 0 {
		nc = 0
	}
	for j := 0; j < nc && j < len(perm); j++ {
		p := pf.Proofs[perm[j]]
		c := cand{id: j, key: p.Key, x: p.X, xp: p.XP, binding: r.Intn(6) != 0, valid: true}
		if r.Intn(9) == 0 {
			c.err = true
		}
		sc.cands = append(sc.cands, c)
	}
	kind := r.Intn(20)
	if kind == 0 && len(sc.cands) > 0 { // an invalid proof among the bound ones
		j := r.Intn(len(sc.cands))
		sc.cands[j].xp ^= 1
		sc.cands[j].valid = false
	}
	sc.startOff = []int{-3, -2, -1, -1, 0, 0, 0, 1, 1, 2}[r.Intn(10)]
	sc.rem = r.Intn(3)
	// where the winner is (relative to the first work slot): mostly reachable at once
	sc.winOff = []int{0, 0, 1, 1, 2, 3, -1}[r.Intn(7)]
	switch {
	case kind <= 9:
		sc.event = "none"
	case kind == 10:
		sc.event = "mined"
		sc.handoff = i%2 == 1 // the announcement of the mined block finds no reader for a while, and the miner is stopped meanwhile
	case kind == 11:
		sc.event = "reject"
	case kind == 12:
		sc.event = "lesser@0"
	case kind == 13 || kind == 14:
		sc.event = "tip@0"
		sc.winOff = 3 - sc.startOff // reachable from clock slot 2 on: after the tip arrived
	case kind == 15 || kind == 16:
		sc.event = "stop@0"
		sc.winOff = 3 - sc.startOff
	case kind == 17:
		sc.event = "foundstop"
		sc.startOff, sc.winOff = 0, 1
	case kind == 18:
		sc.event = "foundtip"
		sc.startOff, sc.winOff = 0, 1
	default:
		sc.event = "none"
	}
	if sc.winOff >= horizon || sc.startOff+sc.winOff > lastSlot {
		sc.winOff = -1 // not reachable before the scenario is cut off
	}
	return sc
}

func eligible(sc *scenario) []cand {
	var e []cand
	for _, c := range sc.cands {
		if !c.err && c.binding {
			e = append(e, c)
		}
	}
	return e
}

// qualities from the library, targets relative to them
func prepare(sc *scenario, start uint64, rng func(int) int) {
	el := eligible(sc)
	for _, c := range sc.cands {
		var row []string
		for o := 0; o < horizon; o++ {
			if !c.valid {
				row = append(row, "0")
				continue
			}
			q, err := quality(c, start+uint64(o), sc.height)
			if err != nil {
				panic(err)
			}
			row = append(row, q.String())
		}
		sc.quals = append(sc.quals, row)
	}
	for o := 0; o < horizon; o++ {
		max := big.NewInt(0)
		for _, c := range el {
			if !c.valid {
				continue
			}
			q, _ := quality(c, start+uint64(o), sc.height)
			if q.Cmp(max) > 0 {
				max = q
			}
		}
		t := new(big.Int)
		if o == sc.winOff {
			t.Sub(max, big.NewInt(int64(1+rng(1000)))) // the best proof of this slot wins
		} else {
			d := 0
			if rng(4) != 0 {
				d = rng(1000)
			}
			t.Add(max, big.NewInt(int64(d))) // max does not exceed the target (equality: every fourth time)
		}
		if t.Sign() < 0 {
			t.SetInt64(0)
		}
		sc.targets = append(sc.targets, t.String())
	}
}

func run(sc *scenario, t0 time.Time, now0 uint64) {
	start := uint64(int64(now0) + int64(sc.startOff))
	seed := sc.id*7919 + 13
	rng := func(n int) int { seed = (seed*1103515245 + 12345) & 0x7fffffff; return seed % n }
	prepare(sc, start, rng)
	targetAt := func(t time.Time) *big.Int {
		o := int64(uint64(t.Unix())/pocSlot) - int64(start)
		if o < 0 || int(o) >= len(sc.targets) {
			v, _ := new(big.Int).SetString("1"+strings.Repeat("0", 70), 10)
			return v
		}
		v, _ := new(big.Int).SetString(sc.targets[o], 10)
		return v
	}
	prev := wire.Hash{0xAA, byte(sc.id), byte(sc.id >> 8)}
	ch := &chain{best: &blockchain.BlockNode{Hash: &prev, Height: sc.height - 1, CapSum: big.NewInt(1000), Timestamp: time.Unix(int64(start-1)*pocSlot, 0), Quality: big.NewInt(1)},
		waiter: make(chan *blockchain.BlockNode, 4), accept: sc.event != "reject"}
	kp := &keeper{cands: sc.cands}
	binding := map[string]bool{}
	for _, c := range sc.cands {
		binding[c.wsp().SpaceID] = c.binding
	}
	mkTemplate := func(out chan interface{}) {
		coinbase := wire.NewMsgTx()
		coinbase.AddTxOut(wire.NewTxOut(12345, []byte{0x51}))
		cbTx := massutil.NewTx(coinbase)
		pt := &blockchain.PoCTemplate{
			Height: sc.height, Timestamp: time.Unix(int64(start)*pocSlot+int64(sc.rem), 0), Previous: prev, Challenge: wire.Hash(challenge),
			GetTarget:   targetAt,
			GetCoinbase: func(p blockchain.Proof, fee massutil.Amount) (*massutil.Tx, error) { return cbTx, nil },
			PassBinding: func(p blockchain.Proof) bool {
				w := p.(*engine.WorkSpaceProof)
				return binding[w.SpaceID]
			},
		}
		hdr := wire.NewEmptyBlockHeader()
		hdr.Height, hdr.Previous, hdr.Version = sc.height, prev, 1
		blk := wire.NewMsgBlock(hdr)
		blk.AddTransaction(coinbase)
		cbHash := coinbase.TxHash()
		bt := &blockchain.BlockTemplate{Block: blk, TotalFee: massutil.ZeroAmount(), Height: sc.height,
			MerkleCache: []*wire.Hash{&cbHash}, WitnessMerkleCache: []*wire.Hash{&cbHash}}
		out <- pt
		out <- bt
	}
	ch.templates = []func(chan interface{}){mkTemplate, mkTemplate}
	nbc := make(chan *wire.Hash, 8)
	if sc.handoff {
		nbc = make(chan *wire.Hash) // nobody reads yet
	}
	mi, err := miner.NewSyncMiner(true, miner.Chain(ch), miner.SyncManager(syncMgr{}), spacekeeper.SpaceKeeper(kp), nbc, payout)
	if err != nil {
		panic(err)
	}
	m := mi.(*miner.PoCMiner)
	quit := make(chan struct{})
	at := func(slotOff int, ms int) time.Duration {
		return time.Until(t0.Add(time.Duration(slotOff)*pocSlot*time.Second + time.Duration(ms)*time.Millisecond))
	}
	stopOnce := sync.Once{}
	stop := func() { stopOnce.Do(func() { close(quit) }) }
	if sc.handoff {
		// the chain has accepted the block; its announcement waits for a reader; the miner is stopped 100 ms later;
		// the reader turns up after 600 ms.  However that ends, the height counts as mined.
		ch.onAccept = func() {
			time.AfterFunc(100*time.Millisecond, stop)
			time.AfterFunc(600*time.Millisecond, func() {
				for range nbc {
				}
			})
		}
	}
	var timers []*time.Timer
	switch {
	case strings.HasPrefix(sc.event, "tip@"):
		timers = append(timers, time.AfterFunc(at(0, 1500), func() { ch.tip(true) }))
	case strings.HasPrefix(sc.event, "lesser@"):
		timers = append(timers, time.AfterFunc(at(0, 300), func() { ch.tip(false) }))
	case strings.HasPrefix(sc.event, "stop@"):
		timers = append(timers, time.AfterFunc(at(0, 1500), stop))
	case sc.event == "foundstop":
		timers = append(timers, time.AfterFunc(at(0, 1700), stop))
	case sc.event == "foundtip":
		timers = append(timers, time.AfterFunc(at(0, 1700), func() { ch.tip(true) }))
	}
	// every scenario is cut off after the horizon
	// the search is cut off when the clock enters slot now0+lastSlot; a block found by then is still waited for
	solveQuit := make(chan struct{})
	cut := make(chan struct{})
	cutoff := time.AfterFunc(at(lastSlot, 0), func() { close(cut) })
	go func() {
		select {
		case <-quit:
		case <-cut:
		}
		close(solveQuit)
	}()
	blk, reward, err := m.VerifSolveBlock(payout, solveQuit)
	sc.retAt = time.Now()
	sc.errName = miner.VerifErrName(err)
	if err == nil {
		m.VerifSubmitBlock(massutil.NewBlock(blk), reward, quit)
	}
	if sc.event == "mined" || sc.event == "reject" {
		// a second round for the same height
		q2 := make(chan struct{})
		t2 := time.AfterFunc(2500*time.Millisecond, func() { close(q2) })
		_, _, err2 := m.VerifSolveBlock(payout, q2)
		if t2.Stop() {
			close(q2)
		}
		sc.second = miner.VerifErrName(err2)
	}
	nsubs, nsigned := -1, -1
	if sc.event == "mined" && err == nil && m.VerifMined(sc.height) {
		ch.mu.Lock()
		nsubs = len(ch.subs) // the oracles on submitted blocks judge the designed round only
		ch.mu.Unlock()
		kp.mu.Lock()
		nsigned = len(kp.signed)
		kp.mu.Unlock()
		// a longer history: the chain goes on (the mined block becomes the tip, the next height is mined too), then is
		// reorganised back below the first height, which is offered again - it was mined already
		easy := func(height uint64, prevH wire.Hash) func(chan interface{}) {
			return func(out chan interface{}) {
				coinbase := wire.NewMsgTx()
				coinbase.AddTxOut(wire.NewTxOut(12345, []byte{0x51}))
				cbTx := massutil.NewTx(coinbase)
				pt := &blockchain.PoCTemplate{
					Height: height, Timestamp: time.Unix(int64(uint64(time.Now().Unix())/pocSlot-1)*pocSlot, 0), Previous: prevH, Challenge: wire.Hash(challenge),
					GetTarget:   func(time.Time) *big.Int { return big.NewInt(0) },
					GetCoinbase: func(p blockchain.Proof, fee massutil.Amount) (*massutil.Tx, error) { return cbTx, nil },
					PassBinding: func(p blockchain.Proof) bool { return true },
				}
				hdr := wire.NewEmptyBlockHeader()
				hdr.Height, hdr.Previous, hdr.Version = height, prevH, 1
				blk := wire.NewMsgBlock(hdr)
				blk.AddTransaction(coinbase)
				cbHash := coinbase.TxHash()
				out <- pt
				out <- &blockchain.BlockTemplate{Block: blk, TotalFee: massutil.ZeroAmount(), Height: height,
					MerkleCache: []*wire.Hash{&cbHash}, WitnessMerkleCache: []*wire.Hash{&cbHash}}
			}
		}
		round := func() (error, bool) {
			q := make(chan struct{})
			t := time.AfterFunc(4*time.Second, func() { close(q) })
			b, rw, e := m.VerifSolveBlock(payout, q)
			ok := false
			if e == nil {
				ok = m.VerifSubmitBlock(massutil.NewBlock(b), rw, q)
			}
			if t.Stop() {
				close(q)
			}
			return e, ok
		}
		ch.mu.Lock()
		ch.advance = true
		tipH := wire.Hash{0xC1, byte(sc.id)}
		ch.best = &blockchain.BlockNode{Hash: &tipH, Height: sc.height, CapSum: big.NewInt(2000), Timestamp: time.Now().Add(-10 * time.Second), Quality: big.NewInt(1)}
		ch.templates = append(ch.templates, easy(sc.height+1, tipH))
		ch.mu.Unlock()
		if e2, ok2 := round(); e2 == nil && ok2 && m.VerifMined(sc.height+1) {
			ch.mu.Lock()
			lowH := wire.Hash{0xC2, byte(sc.id)}
			ch.best = &blockchain.BlockNode{Hash: &lowH, Height: sc.height - 1, CapSum: big.NewInt(9000), Timestamp: time.Now().Add(-10 * time.Second), Quality: big.NewInt(1)}
			ch.templates = append(ch.templates, easy(sc.height, lowH))
			ch.mu.Unlock()
			e3, ok3 := round()
			sc.later = fmt.Sprintf("%s submitted=%v", miner.VerifErrName(e3), ok3)
		} else {
			sc.later = "next-height-not-mined:" + miner.VerifErrName(e2)
		}
	}
	if cutoff.Stop() {
		close(cut)
	}
	for _, t := range timers {
		t.Stop()
	}
	stop()
	ch.mu.Lock()
	if nsubs >= 0 {
		sc.subs = append([]submission(nil), ch.subs[:nsubs]...)
	} else {
		sc.subs = append([]submission(nil), ch.subs...)
	}
	ch.mu.Unlock()
	sc.mined = m.VerifMined(sc.height)
	kp.mu.Lock()
	if nsigned >= 0 {
		sc.signed = append([]string(nil), kp.signed[:nsigned]...)
	} else {
		sc.signed = append([]string(nil), kp.signed...)
	}
	kp.mu.Unlock()
}

func b01(b bool) int {
	if b {
		return 1
	}
	return 0
}

// one scenario = a `reset`, its description (cand/target lines), then the `round` line whose outcome is compared
func emit(h *hx.H, sc *scenario, now0 uint64) {
	h.Emit(fmt.Sprintf("reset %d", sc.id), "ok")
	for i, c := range sc.cands {
		h.Emit(fmt.Sprintf("cand %d %d %d %d %s", c.id, b01(c.err), b01(c.binding), b01(c.valid), strings.Join(sc.quals[i], " ")), "ok")
	}
	h.Emit("target "+strings.Join(sc.targets, " "), "ok")
	start := int64(now0) + int64(sc.startOff)
	// outcome of the round as observed
	out := sc.errName
	if strings.HasPrefix(out, "other:") {
		out = "error"
	}
	var sub *submission
	if len(sc.subs) > 0 {
		sub = &sc.subs[0]
	}
	foundOff, foundID := -1, -1
	if sc.errName == "ok" {
		// the block solveBlock returned is the one submitted (or withheld): identify it through the submission when there is one
		out = "found"
	}
	if sub != nil {
		hdr := sub.block.MsgBlock().Header
		foundOff = int(int64(uint64(hdr.Timestamp.Unix())/pocSlot) - start)
		for _, c := range sc.cands {
			if hdr.PubKey != nil && string(hdr.PubKey.SerializeCompressed()) == string(keyFor(c.key).PubKey().SerializeCompressed()) {
				foundID = c.id
			}
		}
	}
	// labels for the model: the ticks of the slots the scenario lives through, with the scripted event in between
	var labels []string
	k := -1
	if i := strings.IndexByte(sc.event, '@'); i >= 0 {
		k, _ = strconv.Atoi(sc.event[i+1:])
	}
	for s := 0; s < lastSlot; s++ {
		labels = append(labels, fmt.Sprintf("tick:%d", s-sc.startOff)) // nowSlot relative to the first work slot
		if s == k {
			switch {
			case strings.HasPrefix(sc.event, "tip@"):
				labels = append(labels, "tip")
			case strings.HasPrefix(sc.event, "lesser@"):
				labels = append(labels, "lesser")
			case strings.HasPrefix(sc.event, "stop@"):
				labels = append(labels, "stop")
			}
		}
	}
	labels = append(labels, "stop", fmt.Sprintf("tick:%d", lastSlot-sc.startOff)) // the cut-off
	after := "none"
	if sc.event == "foundstop" {
		after = "stop"
	}
	if sc.event == "foundtip" {
		after = "tip"
	}
	if sc.event == "reject" {
		after = "reject"
	}
	op := fmt.Sprintf("round mined=0 after=%s %s", after, strings.Join(labels, " "))
	res := out
	if out == "found" {
		if sub != nil {
			res = fmt.Sprintf("submitted %d %d", foundID, foundOff)
		} else {
			res = "withheld"
		}
	}
	mined := b01(sc.mined)
	h.Emit(op, fmt.Sprintf("%s mined=%d", res, mined))
	if (sc.event == "mined" || sc.event == "reject") && sub != nil {
		second := "proceeds"
		if sc.second == "avoidDoubleMining" {
			second = sc.second
		}
		h.Emit(fmt.Sprintf("round2 mined=%d", mined), second)
	}
	oracles(h, sc, start)
	if len(h.Res.Samples) < 6 && sub != nil && len(sc.cands) > 2 {
		h.Sample(fmt.Sprintf("scenario %d: %d candidates, start %+d, event %s => %s", sc.id, len(sc.cands), sc.startOff, sc.event, res))
	}
}

// C08 stated directly on what the chain received
func oracles(h *hx.H, sc *scenario, start int64) {
	for _, p := range sc.problems {
		h.Fail("miner-panic", p)
	}
	h.Res.OracleEvals++
	if len(sc.subs) > 1 {
		hs := map[uint64]int{}
		for _, s := range sc.subs {
			hs[s.block.MsgBlock().Header.Height]++
		}
		for ht, n := range hs {
			if n > 1 && sc.event != "reject" {
				h.Fail("height-mined-twice", fmt.Sprintf("height %d was submitted %d times after being accepted", ht, n))
			}
		}
	}
	el := eligible(sc)
	for _, s := range sc.subs[:min(1, len(sc.subs))] {
		hdr := s.block.MsgBlock().Header
		slot := uint64(hdr.Timestamp.Unix()) / pocSlot
		off := int64(slot) - start
		var win *cand
		for i := range sc.cands {
			if string(hdr.PubKey.SerializeCompressed()) == string(keyFor(sc.cands[i].key).PubKey().SerializeCompressed()) {
				win = &sc.cands[i]
			}
		}
		if win == nil {
			h.Fail("foreign-proof", "the submitted block carries a key no space offered")
			continue
		}
		dp, _ := hdr.Proof.(*poc.DefaultProof)
		q, err := hdr.Proof.VerifiedQuality(pocutil.PubKeyHash(keyFor(win.key).PubKey()), challenge, false, slot, sc.height)
		if err != nil || dp == nil {
			h.Fail("invalid-proof-submitted", fmt.Sprintf("the submitted proof does not verify for the template's challenge: %v", err))
			continue
		}
		if win.err || !win.binding {
			h.Fail("ineligible-proof-submitted", fmt.Sprintf("the submitted proof (candidate %d) is unbound or was reported with an error", win.id))
		}
		tgt := hdr.Target
		if off < 0 || int(off) >= len(sc.targets) {
			h.Fail("slot-out-of-range", fmt.Sprintf("block timestamp at slot offset %d", off))
			continue
		}
		want, _ := new(big.Int).SetString(sc.targets[off], 10)
		if tgt.Cmp(want) != 0 {
			h.Fail("wrong-target-in-header", "the header's target is not the template's target at the block's timestamp")
		}
		if q.Cmp(want) <= 0 {
			h.Fail("quality-not-above-target", fmt.Sprintf("quality %s does not exceed the target %s at the block's timestamp", q, want))
		}
		for _, c := range el {
			if !c.valid {
				h.Fail("submitted-despite-invalid", "a block was submitted although an offered bound proof does not verify")
				continue
			}
			qc, _ := quality(c, slot, sc.height)
			if qc.Cmp(q) > 0 {
				h.Fail("not-best-quality", fmt.Sprintf("candidate %d has a higher quality at the chosen slot than the winner %d", c.id, win.id))
			}
			for o := int64(0); o < off; o++ {
				qe, _ := quality(c, uint64(start+o), sc.height)
				te, _ := new(big.Int).SetString(sc.targets[o], 10)
				if qe.Cmp(te) > 0 {
					h.Fail("not-earliest-slot", fmt.Sprintf("candidate %d already exceeded the target at slot offset %d, the block is at %d", c.id, o, off))
				}
			}
		}
		// look-ahead: when the round returned the slot was at most one ahead of the clock
		if int64(slot) > int64(uint64(sc.retAt.Unix())/pocSlot)+1 {
			h.Fail("beyond-look-ahead", fmt.Sprintf("slot %d chosen while the clock was at slot %d", slot, uint64(sc.retAt.Unix())/pocSlot))
		}
		if !s.at.After(hdr.Timestamp) {
			h.Fail("submitted-early", fmt.Sprintf("submitted at %v, block timestamp %v", s.at, hdr.Timestamp))
		}
		if hdr.Timestamp.Unix()%pocSlot != int64(sc.rem) {
			h.Fail("timestamp-drift", "the block's timestamp is not the template's timestamp advanced by whole slots")
		}
		// signature by the winning space's key, over the PoC hash
		ph, _ := hdr.PoCHash()
		sig, ok := hdr.Signature.(*pocec.Signature)
		if !ok || !sig.Verify(ph[:], keyFor(win.key).PubKey()) {
			h.Fail("bad-signature", "the header's signature does not verify under the winning proof's public key")
		}
		if len(sc.signed) == 0 || sc.signed[len(sc.signed)-1] != win.wsp().SpaceID {
			h.Fail("signed-by-other-space", fmt.Sprintf("SignHash was asked of %v, the winner is %s", sc.signed, win.wsp().SpaceID))
		}
		if string(dp.X) != string(win.wsp().Proof.X) || string(dp.XPrime) != string(win.wsp().Proof.XPrime) {
			h.Fail("proof-key-mismatch", "the header carries one candidate's key with another's proof")
		}
	}
	// abandonment
	switch {
	case strings.HasPrefix(sc.event, "tip@"), strings.HasPrefix(sc.event, "stop@"):
		if len(sc.subs) > 0 {
			h.Fail("submitted-after-abandon", "a block was submitted although "+sc.event+" came before any slot could win")
		}
	case sc.event == "foundstop":
		if len(sc.subs) > 0 {
			h.Fail("submitted-after-stop", "the miner was stopped while waiting for the block's timestamp, the block was submitted nevertheless")
		}
	case sc.event == "foundtip":
		if len(sc.subs) > 0 {
			h.Fail("submitted-after-better-tip", "a better chain tip arrived while waiting for the block's timestamp, the block was submitted nevertheless")
		}
	case sc.event == "mined":
		if sc.later != "" && !strings.HasPrefix(sc.later, "next-height-not-mined") && !strings.HasPrefix(sc.later, "avoidDoubleMining") {
			h.Fail("height-mined-twice-after-reorg", "the height was mined, the next one too, then the chain was reorganised to below the first and it was offered again: "+sc.later+" (expected errAvoidDoubleMining)")
		}
		if len(sc.subs) > 0 && sc.second != "avoidDoubleMining" {
			h.Fail("height-mined-twice", "a second round for an accepted height did not end with errAvoidDoubleMining: "+sc.second)
		}
	}
	// completeness: a designed, reachable winner must be found when nothing interferes
	if (sc.event == "none" || sc.event == "lesser@0") && sc.winOff >= 0 {
		allValid := true
		for _, c := range el {
			allValid = allValid && c.valid
		}
		if len(el) > 0 && allValid && len(sc.subs) == 0 {
			h.Fail("winner-not-submitted", fmt.Sprintf("an eligible proof exceeds the target at slot offset %d, no block was submitted (round: %s)", sc.winOff, sc.errName))
		}
	}
	_ = sort.Strings
}

func min(a, b int) int {
	if a < b {
		return a
	}
	return b
}
