// Harness C17, collector side: the real fractal.LocalCollector with a scripted (engine.v2) space keeper and a
// scripted superior.  A qualities task is handed to the collector; what it reports (per slot: which spaces) during
// the first ticks is compared with the Lean model, the qualities and targets being the library's own values
// (poc.GetQuality / difficulty.CalcNextRequiredDifficulty) computed here for every slot.  Proof and signature
// requests are answered with reports naming the request's task.  The collector reads the wall clock: scenarios
// run concurrently in real time, starting just after a slot boundary.
package main

import (
	"context"
	"crypto/sha256"
	"errors"
	"fmt"
	"math/big"
	"sort"
	"strings"
	"sync"
	"time"

	"github.com/google/uuid"
	"github.com/massnetorg/mass-core/consensus/difficulty"
	"github.com/massnetorg/mass-core/poc"
	"github.com/massnetorg/mass-core/poc/chiapos"
	"github.com/massnetorg/mass-core/poc/pocutil"
	"github.com/massnetorg/mass-core/wire"
	"massnet.org/mass/config"
	"massnet.org/mass/fractal"
	"massnet.org/mass/fractal/protocol"
	engine_v2 "massnet.org/mass/poc/engine.v2"
	"massnet.org/mass/poc/engine.v2/spacekeeper"
	"verifharness/hx"
)

const pocSlot = 3
const allowAhead = 10 // only used to size the tables handed to the model

type qc struct {
	id  int
	err bool
	k   uint8
	q   []byte
}

type keeper struct {
	spacekeeper.SpaceKeeper
	cs []qc
}

func (k *keeper) GetQualities(ctx context.Context, flags engine_v2.WorkSpaceStateFlags, ch pocutil.Hash) ([]*engine_v2.WorkSpaceQuality, error) {
	var out []*engine_v2.WorkSpaceQuality
	for _, c := range k.cs {
		w := &engine_v2.WorkSpaceQuality{SpaceID: fmt.Sprintf("space-%d", c.id), PublicKey: chiapos.NewG1ElementGenerator(), PoolPublicKey: chiapos.NewG1ElementGenerator(),
			Index: uint32(c.id), KSize: c.k, Quality: c.q}
		if c.err {
			w.Error = errors.New("scripted error")
		}
		out = append(out, w)
	}
	return out, nil
}
func (k *keeper) GetProof(ctx context.Context, sid string, ch pocutil.Hash, index uint32) (*engine_v2.WorkSpaceProof, error) {
	return &engine_v2.WorkSpaceProof{SpaceID: sid, Proof: &chiapos.ProofOfSpace{KSize: 32, PoolPublicKey: chiapos.NewG1ElementGenerator(), PlotPublicKey: chiapos.NewG1ElementGenerator(), Proof: make([]byte, 64)},
		PublicKey: chiapos.NewG1ElementGenerator(), Ordinal: int64(index)}, nil
}
func (k *keeper) SignHash(sid string, hash [32]byte) (*chiapos.G2Element, error) {
	return chiapos.NewG2ElementGenerator(), nil
}

type rep struct {
	at     time.Time
	cid    uuid.UUID
	task   uuid.UUID
	slot   uint64
	spaces []int
	kind   string
	sid    string
}

type superior struct {
	mu   sync.Mutex
	reps []rep
	subs int
}

func (s *superior) ReportQualities(ctx context.Context, cid uuid.UUID, m *protocol.ReportQualities) error {
	s.mu.Lock()
	defer s.mu.Unlock()
	r := rep{at: time.Now(), cid: cid, task: m.TaskID, kind: "q"}
	slots := map[uint64]bool{}
	for _, q := range m.Qualities {
		var id int
		fmt.Sscanf(q.SpaceID, "space-%d", &id)
		r.spaces = append(r.spaces, id)
		r.slot = q.Slot
		slots[q.Slot] = true
	}
	if len(slots) > 1 {
		r.kind = "q-mixed-slots"
	}
	s.reps = append(s.reps, r)
	return nil
}
func (s *superior) ReportProof(ctx context.Context, cid uuid.UUID, m *protocol.ReportProof) error {
	s.mu.Lock()
	defer s.mu.Unlock()
	s.reps = append(s.reps, rep{at: time.Now(), cid: cid, task: m.TaskID, kind: "p", sid: m.Proof.SpaceID})
	return nil
}
func (s *superior) ReportSignature(ctx context.Context, cid uuid.UUID, m *protocol.ReportSignature) error {
	s.mu.Lock()
	defer s.mu.Unlock()
	s.reps = append(s.reps, rep{at: time.Now(), cid: cid, task: m.TaskID, kind: "s", sid: m.SpaceID})
	return nil
}
func (s *superior) Subscribe(ctx context.Context, c fractal.Collector) {
	s.mu.Lock()
	s.subs++
	s.mu.Unlock()
}
func (s *superior) Unsubscribe(ctx context.Context, c fractal.Collector) {
	s.mu.Lock()
	s.subs--
	s.mu.Unlock()
}

type scenario struct {
	id        int
	cs        []qc
	parentOff int // ParentSlot = now0 + parentOff
	target    *big.Int
	height    uint64
	second    bool // a second qualities task supersedes the first after the first tick
	// computed
	quals   [][]string
	targets []string
	// observed
	reps     []rep
	cid      uuid.UUID
	tasks    [2]uuid.UUID
	secondAt time.Time
	stopOK   bool
}

func massQ(c qc, slot, height uint64) *big.Int {
	return poc.GetQuality(poc.Q1FactorChia(c.k), poc.HashValChia(c.q, slot, height))
}

func targetAt(parentSlot uint64, parentTarget *big.Int, slot uint64) *big.Int {
	last := &wire.BlockHeader{Timestamp: time.Unix(int64(parentSlot*pocSlot), 0), Target: parentTarget}
	t, _ := difficulty.CalcNextRequiredDifficulty(last, time.Unix(int64(slot*pocSlot), 0), config.ChainParams)
	return t
}

func main() {
	h := hx.New("collector")
	var scs []*scenario
	for i := 0; i < h.N; i++ {
		scs = append(scs, gen(h, i))
	}
	now := time.Now()
	next := now.Truncate(pocSlot * time.Second).Add(pocSlot * time.Second)
	time.Sleep(time.Until(next.Add(80 * time.Millisecond)))
	t0 := time.Now()
	now0 := uint64(t0.Unix()) / pocSlot
	var wg sync.WaitGroup
	for _, sc := range scs {
		wg.Add(1)
		go func(sc *scenario) { defer wg.Done(); run(sc, t0, now0) }(sc)
	}
	wg.Wait()
	for _, sc := range scs {
		emit(h, sc, now0)
	}
	h.Res.Extra["scenarios"] = len(scs)
	h.Finish("C17 collector side: what the real LocalCollector reports for a qualities task (per slot: the spaces over the target) vs the model, with the library's qualities and targets; every report names the task of its request and carries the collector's id; proof/signature requests answered for their task; stop returns")
}

func gen(h *hx.H, i int) *scenario {
	r := h.Rng
	sc := &scenario{id: i, height: uint64(2000000 + i), parentOff: []int{-14, -11, -10, -6, -3, -1, 0, 1, 5, 9, 10, 12}[r.Intn(12)], second: r.Intn(5) == 0}
	n := 1 + r.Intn(5)
	if r.Intn(10) == 0 {
		n = 0
	}
	for j := 0; j < n; j++ {
		q := sha256.Sum256([]byte(fmt.Sprintf("quality-%d-%d", i, j)))
		sc.cs = append(sc.cs, qc{id: j, err: r.Intn(7) == 0, k: uint8(32 + r.Intn(3)), q: q[:]})
	}
	// a parent target in the middle of the qualities of the first slots, so that some are over and some under
	var qs []*big.Int
	for _, c := range sc.cs {
		for o := uint64(0); o < 6; o++ {
			qs = append(qs, massQ(c, 1000+o, sc.height))
		}
	}
	sort.Slice(qs, func(a, b int) bool { return qs[a].Cmp(qs[b]) < 0 })
	sc.target = big.NewInt(1 << 40)
	if len(qs) > 0 {
		sc.target = new(big.Int).Set(qs[r.Intn(len(qs))])
	}
	return sc
}

func run(sc *scenario, t0 time.Time, now0 uint64) {
	parent := uint64(int64(now0) + int64(sc.parentOff))
	// tables for the model: slot offsets 0.. relative to parent+1
	span := allowAhead + 16
	for _, c := range sc.cs {
		var row []string
		for o := 0; o < span; o++ {
			row = append(row, massQ(c, parent+1+uint64(o), sc.height).String())
		}
		sc.quals = append(sc.quals, row)
	}
	for o := 0; o < span; o++ {
		sc.targets = append(sc.targets, targetAt(parent, sc.target, parent+1+uint64(o)).String())
	}
	sup := &superior{}
	kp := &keeper{cs: sc.cs}
	ctx := context.Background()
	lc, stop := fractal.NewLocalCollector(ctx, sup, kp)
	sc.cid = lc.ID()
	sc.tasks[0], sc.tasks[1] = uuid.New(), uuid.New()
	ch := pocutil.Hash(sha256.Sum256([]byte("challenge")))
	lc.RequestQualities(ctx, &protocol.RequestQualities{TaskID: sc.tasks[0], Challenge: ch, ParentTarget: sc.target, ParentSlot: parent, Height: sc.height})
	// proof and signature requests are answered at once, for their own task
	pt, st := uuid.New(), uuid.New()
	lc.RequestProof(ctx, &protocol.RequestProof{TaskID: pt, SpaceID: "space-1", Challenge: ch, Height: sc.height, Index: 3})
	lc.RequestSignature(ctx, &protocol.RequestSignature{TaskID: st, SpaceID: "space-2", Height: sc.height})
	// the first tick comes 750 ms after the task was taken up; the clock stays in slot now0 until t0 + 2.9 s
	time.Sleep(time.Until(t0.Add(1500 * time.Millisecond)))
	if sc.second {
		sc.secondAt = time.Now()
		lc.RequestQualities(ctx, &protocol.RequestQualities{TaskID: sc.tasks[1], Challenge: ch, ParentTarget: sc.target, ParentSlot: parent, Height: sc.height})
		time.Sleep(time.Until(t0.Add(2600 * time.Millisecond)))
	}
	done := make(chan struct{})
	go func() { stop(); close(done) }()
	select {
	case <-done:
		sc.stopOK = true
	case <-time.After(5 * time.Second):
	}
	time.Sleep(30 * time.Millisecond)
	sup.mu.Lock()
	sc.reps = append([]rep(nil), sup.reps...)
	sup.mu.Unlock()
	// classify the two extra requests
	for i := range sc.reps {
		if sc.reps[i].task == pt {
			sc.reps[i].kind += "-proof-ok"
		}
		if sc.reps[i].task == st {
			sc.reps[i].kind += "-sig-ok"
		}
	}
}

func b01(b bool) int {
	if b {
		return 1
	}
	return 0
}

func emit(h *hx.H, sc *scenario, now0 uint64) {
	fail := func(key, desc string) { h.Fail("C17:"+key, fmt.Sprintf("collector scenario %d: %s", sc.id, desc)) }
	h.Emit(fmt.Sprintf("reset %d", sc.id), "ok")
	for i, c := range sc.cs {
		h.Emit(fmt.Sprintf("cand %d %d %s", c.id, b01(c.err), strings.Join(sc.quals[i], " ")), "ok")
	}
	h.Emit("target "+strings.Join(sc.targets, " "), "ok")
	parent := int64(now0) + int64(sc.parentOff)
	// the clock was in slot now0 at every tick of the scenario: one tick label (relative to parent+1)
	tick := int64(now0) - (parent + 1)
	for ti, task := range sc.tasks {
		if ti == 1 && !sc.second {
			break
		}
		var rows []string
		lastSlot := int64(-1 << 40)
		for _, r := range sc.reps {
			if r.task != task || !strings.HasPrefix(r.kind, "q") {
				continue
			}
			h.Res.OracleEvals++
			if r.kind != "q" {
				fail("report-mixed-slots", "one qualities report carries qualities of several slots")
			}
			if r.cid != sc.cid {
				fail("report-wrong-collector", "a report does not carry the reporting collector's id")
			}
			off := int64(r.slot) - (parent + 1)
			if int64(r.slot) <= lastSlot {
				fail("report-slot-order", fmt.Sprintf("slot %d reported after slot %d", r.slot, lastSlot))
			}
			lastSlot = int64(r.slot)
			if int64(r.slot) > int64(uint64(r.at.Unix())/pocSlot)+allowAhead {
				fail("report-beyond-look-ahead", fmt.Sprintf("slot %d reported while the clock was at slot %d", r.slot, uint64(r.at.Unix())/pocSlot))
			}
			// every reported quality is over the target of its slot
			for _, id := range r.spaces {
				for _, c := range sc.cs {
					if c.id == id {
						if c.err || massQ(c, r.slot, sc.height).Cmp(targetAt(uint64(parent), sc.target, r.slot)) <= 0 {
							fail("report-not-over-target", fmt.Sprintf("space %d reported for slot %d: not over the slot's target (or reported with an error)", id, r.slot))
						}
					}
				}
			}
			sp := append([]int(nil), r.spaces...)
			sort.Ints(sp)
			var ss []string
			for _, x := range sp {
				ss = append(ss, fmt.Sprint(x))
			}
			rows = append(rows, fmt.Sprintf("%d:%s", off, strings.Join(ss, ",")))
		}
		out := "-"
		if len(rows) > 0 {
			out = strings.Join(rows, " ")
		}
		labels := fmt.Sprintf("tick:%d", tick)
		if ti == 0 && sc.second {
			labels += " cancel"
		}
		h.Emit(fmt.Sprintf("collect %d %s", ti, labels), out)
	}
	// the two extra requests
	h.Res.OracleEvals++
	np, ns := 0, 0
	for _, r := range sc.reps {
		switch r.kind {
		case "p-proof-ok":
			np++
			if r.sid != "space-1" {
				fail("proof-report-wrong-space", "the proof report names another space than the request")
			}
		case "s-sig-ok":
			ns++
			if r.sid != "space-2" {
				fail("signature-report-wrong-space", "the signature report names another space than the request")
			}
		case "p", "s":
			fail("report-wrong-task", "a proof/signature report names another task than its request")
		}
	}
	if np != 1 || ns != 1 {
		fail("request-not-answered", fmt.Sprintf("proof request answered %d times, signature request %d times", np, ns))
	}
	if !sc.stopOK {
		fail("stop-hangs", "stopping the collector did not return within 5 s")
	}
	if sc.second {
		for _, r := range sc.reps {
			if r.task == sc.tasks[0] && r.at.After(sc.secondAt.Add(400*time.Millisecond)) {
				fail("report-after-superseded", "the collector reported for a qualities task more than 400 ms after a newer one replaced it")
			}
		}
	}
	if len(h.Res.Samples) < 4 && len(sc.reps) > 3 {
		h.Sample(fmt.Sprintf("collector scenario %d: %d spaces, parent slot %+d: %d reports", sc.id, len(sc.cs), sc.parentOff, len(sc.reps)))
	}
}
