// Harness C18: hdkeychain.ExtendedKey and the mnemonic codec against (a) the Lean
// model of the code (correspondence; library crypto oracle-fed per line) and
// (b) an independent BIP32 reference implementation written from the spec (oracle).
package main

import (
	"bytes"
	"crypto/hmac"
	"crypto/sha256"
	"crypto/sha512"
	"encoding/binary"
	"encoding/hex"
	"fmt"
	"math/big"
	"strconv"
	"strings"

	coreconfig "github.com/massnetorg/mass-core/config"
	"github.com/massnetorg/mass-core/massutil"
	"github.com/massnetorg/mass-core/massutil/base58"
	"github.com/massnetorg/mass-core/pocec"
	"github.com/massnetorg/mass-core/wire"
	"massnet.org/mass/config"
	"massnet.org/mass/poc/wallet/keystore"
	"massnet.org/mass/poc/wallet/keystore/hdkeychain"
	"massnet.org/mass/poc/wallet/keystore/wordlists"
	"verifharness/hx"
)

var curve = pocec.S256()

const hardened = uint32(0x80000000)

// ---- reading an ExtendedKey through its exported API ----
type xk struct {
	key, cc, fp, ver []byte
	depth            int
	num              uint32
	priv             bool
}

func fields(k *hdkeychain.ExtendedKey) xk {
	dec := base58.Decode(k.String())
	x := xk{cc: k.ChainCode(), depth: int(k.Depth()), priv: k.IsPrivate()}
	x.fp = dec[5:9]
	x.ver = dec[0:4]
	x.num = binary.BigEndian.Uint32(dec[9:13])
	if x.priv {
		x.key, _ = k.PrivKey()
	} else {
		x.key = k.PublicKey()
	}
	return x
}

func (x xk) tok() string {
	p := "0"
	if x.priv {
		p = "1"
	}
	return fmt.Sprintf("%s,%s,%d,%s,%d,%s,%s", hx.Hex(x.key), hx.Hex(x.cc), x.depth, hx.Hex(x.fp), x.num, p, hx.Hex(x.ver))
}

func (x xk) build() *hdkeychain.ExtendedKey {
	return hdkeychain.NewExtendedKey(x.ver, x.key, x.cc, x.fp, uint8(x.depth), x.num, x.priv)
}

// canonical form for comparisons with the spec: private scalars padded to 32 bytes
func (x xk) norm() xk {
	if x.priv && len(x.key) < 32 {
		p := make([]byte, 32)
		copy(p[32-len(x.key):], x.key)
		x.key = p
	}
	return x
}

func errName(err error) string {
	switch err {
	case hdkeychain.ErrDeriveBeyondMaxDepth:
		return "beyondMaxDepth"
	case hdkeychain.ErrDeriveHardFromPublic:
		return "hardFromPublic"
	case hdkeychain.ErrInvalidChild:
		return "invalidChild"
	case hdkeychain.ErrUnusableSeed:
		return "unusableSeed"
	case hdkeychain.ErrInvalidSeedLen:
		return "seedLen"
	case hdkeychain.ErrInvalidKeyLen:
		return "keyLen"
	case hdkeychain.ErrBadChecksum:
		return "badChecksum"
	case coreconfig.ErrUnknownHDKeyID:
		return "version"
	}
	return "parse"
}

func res(k *hdkeychain.ExtendedKey, err error) string {
	if err != nil {
		return "err " + errName(err)
	}
	return "ok " + fields(k).tok()
}

// ---- library oracles ----
func hm(key, data []byte) []byte {
	h := hmac.New(sha512.New, key)
	h.Write(data)
	return h.Sum(nil)
}
func pubOf(scalar []byte) []byte {
	x, y := curve.ScalarBaseMult(scalar)
	pk := pocec.PublicKey{Curve: curve, X: x, Y: y}
	return pk.SerializeCompressed()
}
func pubAdd(point []byte, il []byte) []byte {
	pk, err := pocec.ParsePubKey(point, curve)
	if err != nil {
		return nil
	}
	ix, iy := curve.ScalarBaseMult(il)
	cx, cy := curve.Add(ix, iy, pk.X, pk.Y)
	c := pocec.PublicKey{Curve: curve, X: cx, Y: cy}
	return c.SerializeCompressed()
}
func opt(b []byte) string {
	if b == nil {
		return "!"
	}
	return hx.Hex(b)
}
func pubVersion(v []byte) []byte {
	p, err := coreconfig.HDPrivateKeyToPublicKeyID(v)
	if err != nil {
		return nil
	}
	return p
}

func nTok() string { return "n=" + hx.Hex(curve.N.Bytes()) }

func pad32(b []byte) []byte {
	p := make([]byte, 32)
	copy(p[32-len(b):], b)
	return p
}

// oracles needed by one Child step: both candidate HMAC inputs, the parent's public key,
// the child's public key / point sum, hash160 of the parent public key.
func childOracles(x xk, i uint32) []string {
	var o []string
	o = append(o, nTok())
	var ppub []byte
	if x.priv {
		ppub = pubOf(x.key)
		o = append(o, "pub:"+hx.Hex(new(big.Int).SetBytes(x.key).Bytes())+"="+hx.Hex(ppub))
	} else {
		ppub = x.key
	}
	o = append(o, "h160:"+hx.Hex(ppub)+"="+hx.Hex(massutil.Hash160(ppub)))
	var ib [4]byte
	binary.BigEndian.PutUint32(ib[:], i)
	var datas [][]byte
	if i >= hardened && !x.priv {
		return o
	}
	if i >= hardened {
		// as coded: copy(data[1:], key) into 33 zero bytes; as specified: 00 || ser256(k)
		d1 := make([]byte, 33)
		copy(d1[1:], x.key)
		d2 := append([]byte{0}, pad32(new(big.Int).SetBytes(x.key).Bytes())...)
		datas = append(datas, append(d1, ib[:]...), append(d2, ib[:]...))
	} else {
		d := make([]byte, 33)
		copy(d, ppub)
		datas = append(datas, append(d, ib[:]...), append(append([]byte{}, ppub...), ib[:]...))
	}
	seen := map[string]bool{}
	for _, d := range datas {
		if seen[string(d)] {
			continue
		}
		seen[string(d)] = true
		out := hm(x.cc, d)
		o = append(o, "hm:"+hx.Hex(x.cc)+":"+hx.Hex(d)+"="+hx.Hex(out))
		il := out[:32]
		if !x.priv {
			o = append(o, "add:"+hx.Hex(x.key)+":"+hx.Hex(new(big.Int).SetBytes(il).Bytes())+"="+opt(pubAdd(x.key, il)))
		}
	}
	return o
}

// ---- BIP32 reference (from the specification text) ----
// returns (child, "" ) or (zero, errKind)
func refChild(x xk, i uint32) (xk, string) {
	if x.depth == 255 {
		return xk{}, "beyondMaxDepth"
	}
	var ib [4]byte
	binary.BigEndian.PutUint32(ib[:], i)
	var data []byte
	var ppub []byte
	if x.priv {
		ppub = pubOf(x.key)
	} else {
		ppub = x.key
	}
	if i >= hardened {
		if !x.priv {
			return xk{}, "hardFromPublic"
		}
		data = append([]byte{0}, pad32(new(big.Int).SetBytes(x.key).Bytes())...)
	} else {
		data = append([]byte{}, ppub...)
	}
	data = append(data, ib[:]...)
	I := hm(x.cc, data)
	il := new(big.Int).SetBytes(I[:32])
	if il.Cmp(curve.N) >= 0 || il.Sign() == 0 {
		return xk{}, "invalidChild"
	}
	c := xk{cc: I[32:], depth: x.depth + 1, fp: massutil.Hash160(ppub)[:4], num: i, priv: x.priv, ver: x.ver}
	if x.priv {
		k := new(big.Int).SetBytes(x.key)
		k.Add(k, il).Mod(k, curve.N)
		c.key = pad32(k.Bytes())
	} else {
		c.key = pubAdd(x.key, I[:32])
		if c.key == nil {
			return xk{}, "parse"
		}
	}
	return c, ""
}

type G struct {
	h *hx.H
}

func (g *G) bytes(n int) []byte { b := make([]byte, n); g.h.Rng.Read(b); return b }

func (g *G) index() uint32 {
	r := g.h.Rng
	var i uint32
	switch r.Intn(6) {
	case 0:
		i = 0
	case 1:
		i = 0x7fffffff
	case 2:
		i = uint32(r.Intn(1000))
	case 3:
		i = 44
	case 4:
		i = 297
	default:
		i = r.Uint32() & 0x7fffffff
	}
	if r.Intn(2) == 0 {
		i |= hardened
	}
	return i
}

func sameKey(a, b xk) bool {
	return bytes.Equal(a.key, b.key) && bytes.Equal(a.cc, b.cc) && bytes.Equal(a.fp, b.fp) && a.depth == b.depth && a.num == b.num && a.priv == b.priv
}

// childStep: one Child call, emitted as a model line and checked against the reference.
func (g *G) childStep(x xk, i uint32) (xk, bool) {
	k := x.build()
	// what a derivation yields does not depend on what was done with other children of the same key object: in one
	// call out of three a sibling is derived and wiped (Zero, as the keystore does with every address key) before,
	// in another one after the derivation under test
	sibling := func() {
		j := (i + 1) % hardened
		if x.priv && i >= hardened {
			j += hardened
		}
		if sib, e := k.Child(j); e == nil {
			sib.Zero()
		}
	}
	mode := g.h.Rng.Intn(3)
	if mode == 1 {
		sibling()
	}
	c, err := k.Child(i)
	if mode == 2 {
		sibling()
	}
	out := res(c, err)
	orc := childOracles(x, i)
	g.h.Emit("child "+x.tok()+" "+strconv.FormatUint(uint64(i), 10)+" "+strings.Join(orc, " "), out)
	// reference
	rc, rerr := refChild(x, i)
	refOut := "err " + rerr
	if rerr == "" {
		refOut = "ok " + rc.tok()
	}
	g.h.Emit("childspec "+x.tok()+" "+strconv.FormatUint(uint64(i), 10)+" "+strings.Join(orc, " "), refOut)
	g.h.Res.OracleEvals++
	var cx xk
	if err == nil {
		cx = fields(c)
	}
	agree := (err != nil) == (rerr != "") && (err != nil || sameKey(cx.norm(), rc))
	if err != nil && rerr != "" && errName(err) != rerr {
		agree = false
	}
	if !agree {
		key := "bip32-mismatch"
		if i >= hardened && x.priv && len(x.key) < 32 {
			key = "hardened-child-short-parent"
		}
		g.h.FailWith(key, fmt.Sprintf("Child(%d) of %s = %s, BIP32 defines %s", i, x.tok(), out, refOut),
			[]string{"child " + x.tok() + " " + strconv.FormatUint(uint64(i), 10)})
	}
	if err != nil {
		return xk{}, false
	}
	// public derivation commutes with private derivation
	if x.priv && i < hardened {
		nk, nerr := k.Neuter()
		g.h.Emit("neuter "+x.tok()+" "+nTok()+" pub:"+hx.Hex(new(big.Int).SetBytes(x.key).Bytes())+"="+hx.Hex(pubOf(x.key))+" pv:"+hx.Hex(x.ver)+"="+opt(pubVersion(x.ver)), res(nk, nerr))
		if nerr == nil {
			pc, perr := nk.Child(i)
			cn, cerr := c.Neuter()
			g.h.Res.OracleEvals++
			if perr != nil || cerr != nil || !sameKey(fields(pc), fields(cn)) {
				g.h.FailWith("neuter-child-commute", fmt.Sprintf("Neuter(Child(k,%d)) != Child(Neuter(k),%d) for %s", i, i, x.tok()), []string{"child " + x.tok() + " " + strconv.Itoa(int(i))})
			}
			nx := fields(nk)
			g.h.Emit("child "+nx.tok()+" "+strconv.FormatUint(uint64(i), 10)+" "+strings.Join(childOracles(nx, i), " "), res(pc, perr))
		}
	}
	return cx, true
}

// textStep: String / NewKeyFromString and "derives the same children".
func (g *G) textStep(x xk) {
	k := x.build()
	s := k.String()
	dec := base58.Decode(s)
	var orc []string
	orc = append(orc, nTok(), "ck:"+hx.Hex(dec[:len(dec)-4])+"="+hx.Hex(wire.DoubleHashB(dec[:len(dec)-4])[:4]))
	if x.priv {
		orc = append(orc, "pub:"+hx.Hex(new(big.Int).SetBytes(x.key).Bytes())+"="+hx.Hex(pubOf(x.key)))
	} else {
		_, perr := pocec.ParsePubKey(x.key, curve)
		v := "0"
		if perr == nil {
			v = "1"
		}
		orc = append(orc, "valid:"+hx.Hex(x.key)+"="+v)
	}
	g.h.Emit("ser "+x.tok()+" "+strings.Join(orc, " "), "ok "+hx.Hex(dec))
	p, err := hdkeychain.NewKeyFromString(s)
	g.h.Emit("parse "+hx.Hex(dec)+" "+strings.Join(orc, " "), res(p, err))
	g.h.Res.OracleEvals++
	if err != nil {
		g.h.FailWith("text-parse", fmt.Sprintf("NewKeyFromString(String(k)) failed for %s: %v", x.tok(), err), []string{"ser " + x.tok()})
		return
	}
	for _, i := range []uint32{0, 5, hardened, hardened + 44} {
		if i >= hardened && !x.priv {
			continue
		}
		a, ea := k.Child(i)
		b, eb := p.Child(i)
		g.h.Res.OracleEvals++
		if (ea != nil) != (eb != nil) || (ea == nil && !sameKey(fields(a).norm(), fields(b).norm())) {
			key := "text-roundtrip"
			if i >= hardened && x.priv && len(x.key) < 32 {
				key = "text-roundtrip-short-parent"
			}
			g.h.FailWith(key, fmt.Sprintf("parsed key derives a different child %d than %s", i, x.tok()), []string{"ser " + x.tok(), "# child index " + strconv.FormatUint(uint64(i), 10)})
		}
	}
}

func (g *G) masterStep(seed []byte) (xk, bool) {
	k, err := hdkeychain.NewMaster(seed, config.ChainParams)
	ver := config.ChainParams.HDPrivateKeyID[:]
	g.h.Emit("master "+hx.Hex(seed)+" "+hx.Hex(ver)+" "+nTok()+" hm:"+hx.Hex([]byte("Bitcoin seed"))+":"+hx.Hex(seed)+"="+hx.Hex(hm([]byte("Bitcoin seed"), seed)), res(k, err))
	// reference
	g.h.Res.OracleEvals++
	I := hm([]byte("Bitcoin seed"), seed)
	il := new(big.Int).SetBytes(I[:32])
	refOK := len(seed) >= 16 && len(seed) <= 64 && il.Sign() != 0 && il.Cmp(curve.N) < 0
	if refOK != (err == nil) || (err == nil && (!bytes.Equal(fields(k).key, I[:32]) || !bytes.Equal(fields(k).cc, I[32:]))) {
		g.h.FailWith("bip32-master", fmt.Sprintf("NewMaster(%x) = %s disagrees with BIP32", seed, res(k, err)), []string{"master " + hx.Hex(seed)})
	}
	if err != nil {
		return xk{}, false
	}
	return fields(k), true
}

func wordsToIdx(s string) string {
	ws := strings.Fields(s)
	if len(ws) == 0 {
		return "-"
	}
	var out []string
	for _, w := range ws {
		i, ok := keystore.GetWordIndex(w)
		if !ok {
			i = 9999
		}
		out = append(out, strconv.Itoa(i))
	}
	return strings.Join(out, ",")
}

func csTok(e []byte) string {
	s := sha256.Sum256(e)
	return "cs:" + hx.Hex(e) + "=" + strconv.Itoa(int(s[0]))
}

// candidate entropy a decoder will hash for an index list (for the cs oracle)
func candidateEntropy(idx []int) []byte {
	n := new(big.Int)
	for _, i := range idx {
		n.Mul(n, big.NewInt(2048)).Add(n, big.NewInt(int64(i)))
	}
	c := uint(len(idx) / 3)
	n.Rsh(n, c)
	b := n.Bytes()
	l := len(idx) / 3 * 4
	if len(b) < l {
		p := make([]byte, l)
		copy(p[l-len(b):], b)
		b = p
	}
	return b
}

func (g *G) mnemonicStep(e []byte) {
	m, err := keystore.NewMnemonic(e)
	if err != nil {
		g.h.Emit("mn "+hx.Hex(e)+" "+csTok(e), "err entropyLen")
		return
	}
	idx := wordsToIdx(m)
	g.h.Emit("mn "+hx.Hex(e)+" "+csTok(e), "ok "+idx)
	back, err1 := keystore.EntropyFromMnemonic(m)
	raw, err2 := keystore.MnemonicToByteArray(m, true)
	g.h.Emit("emn "+idx+" "+csTok(e), decOut(back, err1))
	g.h.Emit("raw "+idx+" "+csTok(e), decOut(raw, err2))
	g.h.Res.OracleEvals++
	if err1 != nil || err2 != nil || !bytes.Equal(back, e) || !bytes.Equal(raw, e) {
		g.h.FailWith("mnemonic-roundtrip", fmt.Sprintf("entropy %x -> %q -> %x (%v) / %x (%v)", e, m, back, err1, raw, err2), []string{"mn " + hx.Hex(e)})
	}
	// a corrupted sentence (one word replaced): both decoders on the same words
	ws := strings.Fields(m)
	wl := keystore.GetWordList()
	ws[g.h.Rng.Intn(len(ws))] = wl[g.h.Rng.Intn(len(wl))]
	m2 := strings.Join(ws, " ")
	var ii []int
	for _, w := range ws {
		i, _ := keystore.GetWordIndex(w)
		ii = append(ii, i)
	}
	ce := candidateEntropy(ii)
	b2, e2 := keystore.EntropyFromMnemonic(m2)
	r2, e3 := keystore.MnemonicToByteArray(m2, true)
	g.h.Emit("emn "+wordsToIdx(m2)+" "+csTok(ce), decOut(b2, e2))
	g.h.Emit("raw "+wordsToIdx(m2)+" "+csTok(ce), decOut(r2, e3))
}

func decOut(b []byte, err error) string {
	switch err {
	case nil:
		return "ok " + hx.Hex(b)
	case keystore.ErrInvalidMnemonic:
		return "err invalid"
	case keystore.ErrInvalidMnemonicWord:
		return "err invalidWord"
	case keystore.ErrChecksumIncorrect:
		return "err checksum"
	}
	return "err other"
}

func main() {
	h := hx.New("hd")
	g := &G{h}
	if ls := h.ReplayLines(); ls != nil {
		h.Emit("reset", "ok")
		for _, l := range ls {
			t := strings.Fields(l)
			switch t[0] {
			case "child":
				x, ok := parseTok(t[1])
				i, _ := strconv.ParseUint(t[2], 10, 32)
				if ok {
					g.childStep(x, uint32(i))
				}
			case "ser":
				if x, ok := parseTok(t[1]); ok {
					g.textStep(x)
				}
			case "master":
				b, _ := hx.UnHex(t[1])
				g.masterStep(b)
			case "mn":
				b, _ := hx.UnHex(t[1])
				g.mnemonicStep(b)
			}
		}
		h.Finish("replay")
		return
	}
	h.Emit("reset", "ok")
	// 1. seeds -> master -> random paths
	for s := 0; s < h.N; s++ {
		var seed []byte
		switch h.Rng.Intn(8) {
		case 0:
			seed = g.bytes(15)
		case 1:
			seed = g.bytes(65)
		case 2:
			seed = g.bytes(16)
		case 3:
			seed = g.bytes(64)
		default:
			seed = g.bytes(16 + h.Rng.Intn(49))
		}
		x, ok := g.masterStep(seed)
		if !ok {
			continue
		}
		g.textStep(x)
		depth := 1 + h.Rng.Intn(5)
		for d := 0; d < depth && ok; d++ {
			x, ok = g.childStep(x, g.index())
			if ok && h.Rng.Intn(3) == 0 {
				g.textStep(x)
			}
			if ok && x.priv && h.Rng.Intn(4) == 0 {
				// continue on the public branch
				nk, _ := x.build().Neuter()
				x = fields(nk)
			}
		}
		if s < 2 {
			h.Sample("master " + hx.Hex(seed) + " then " + strconv.Itoa(depth) + " child steps")
		}
	}
	// 2. the wallet's own path m/44'/297'/account'/branch/index on seeds searched for short intermediate scalars
	found := 0
	for try := 0; try < 20000 && found < 2+h.N/50; try++ {
		seed := g.bytes(32)
		k, err := hdkeychain.NewMaster(seed, config.ChainParams)
		if err != nil {
			continue
		}
		c1, err := k.Child(44 + hardened)
		if err != nil {
			continue
		}
		if kb, _ := c1.PrivKey(); len(kb) == 32 {
			continue
		}
		found++
		x, _ := g.masterStep(seed)
		for _, i := range []uint32{44 + hardened, 297 + hardened, 1 + hardened, 0, 3} {
			var ok bool
			x, ok = g.childStep(x, i)
			if !ok {
				break
			}
			g.textStep(x)
		}
	}
	h.Res.Extra["seeds_with_short_scalar_at_m/44'"] = found
	// 3. directly constructed parents: short private scalars, depth edges, public parents, invalid public keys
	for s := 0; s < h.N; s++ {
		x := xk{cc: g.bytes(32), fp: g.bytes(4), depth: h.Rng.Intn(256), num: h.Rng.Uint32(), priv: true, ver: config.ChainParams.HDPrivateKeyID[:]}
		switch h.Rng.Intn(6) {
		case 0:
			x.key = append([]byte{}, g.bytes(31)...) // 31-byte scalar held minimal
			if x.key[0] == 0 {
				x.key[0] = 1
			}
		case 1:
			x.key = []byte{byte(1 + h.Rng.Intn(255))}
		case 2:
			x.key = append(make([]byte, 1), g.bytes(31)...) // 32 bytes with a leading zero (as parsed from text)
		case 3:
			x.depth = 254 + h.Rng.Intn(2)
			x.key = g.bytes(32)
		case 4:
			x.priv = false
			x.ver = config.ChainParams.HDPublicKeyID[:]
			x.key = pubOf(g.bytes(32))
			if h.Rng.Intn(4) == 0 {
				x.key[1] ^= 0xff // most likely not on the curve
			}
		default:
			x.key = g.bytes(32)
		}
		if x.priv {
			v := new(big.Int).SetBytes(x.key)
			if v.Sign() == 0 || v.Cmp(curve.N) >= 0 {
				continue
			}
		}
		c, ok := g.childStep(x, g.index())
		if _, perr := pocec.ParsePubKey(x.key, curve); x.priv || perr == nil {
			g.textStep(x)
		}
		if ok {
			g.childStep(c, g.index())
		}
	}
	// 4. mnemonics: all five sizes, all-zero / all-one / random, plus invalid sizes
	for _, l := range []int{16, 20, 24, 28, 32} {
		g.mnemonicStep(make([]byte, l))
		g.mnemonicStep(bytes.Repeat([]byte{0xff}, l))
		for i := 0; i < 2+h.N/10; i++ {
			g.mnemonicStep(g.bytes(l))
		}
	}
	for _, l := range []int{0, 15, 17, 33, 36, 64} {
		g.mnemonicStep(g.bytes(l))
	}
	// the other word lists: switch (after look-ups under the previous list have happened), encode and decode again
	for _, wlist := range [][]string{wordlists.Spanish, wordlists.Japanese, wordlists.French, wordlists.English} {
		keystore.SetWordList(wlist)
		for _, l := range []int{16, 24, 32} {
			g.mnemonicStep(g.bytes(l))
		}
	}
	// word list: 2048 distinct, whitespace-free words (assumption of the index-level mnemonic model)
	wl := keystore.GetWordList()
	seen := map[string]bool{}
	okList := len(wl) == 2048
	for _, w := range wl {
		if seen[w] || strings.ContainsAny(w, " \t\n") || w == "" {
			okList = false
		}
		seen[w] = true
	}
	h.Res.OracleEvals++
	if !okList {
		h.FailWith("wordlist", "the word list is not 2048 distinct whitespace-free words", nil)
	}
	_ = hex.EncodeToString
	h.Finish("seeds of 15..65 bytes, random hardened/normal paths incl. the wallet path, seeds searched for short intermediate scalars, directly constructed short/edge/public/invalid parents, String/NewKeyFromString, mnemonics of all sizes. distinct = distinct (line, output) pairs")
}

func parseTok(t string) (xk, bool) {
	p := strings.Split(t, ",")
	if len(p) != 7 {
		return xk{}, false
	}
	var x xk
	x.key, _ = hx.UnHex(p[0])
	x.cc, _ = hx.UnHex(p[1])
	x.depth, _ = strconv.Atoi(p[2])
	x.fp, _ = hx.UnHex(p[3])
	n, _ := strconv.ParseUint(p[4], 10, 32)
	x.num = uint32(n)
	x.priv = p[5] == "1"
	x.ver, _ = hx.UnHex(p[6])
	return x, true
}
