package main

// C12: fault enumeration.  A fault-injecting db.DB wraps the real leveldb store; for every
// operation of a short history every bucket write and the commit are cut in turn (failed
// write, failed commit, crash before commit, crash after commit).  Each experiment runs on a
// replica rebuilt by replaying the history.

import (
	"encoding/hex"
	"errors"
	"fmt"
	"github.com/massnetorg/mass-core/pocec"
	"sort"
	"strconv"
	"strings"

	"massnet.org/mass/config"
	"massnet.org/mass/poc/wallet/db"
	"massnet.org/mass/poc/wallet/keystore"
)

type dbBucket = db.Bucket
type dbTx = db.DBTransaction
type dbDB = db.DB

var errInjected = errors.New("injected storage fault")

type crashSignal struct{ afterCommit bool }

type ctl struct {
	recording bool
	puts      []putRec
	mode      string // "", "count", "failwrite", "failcommit", "crashwrite", "crashcommit"
	target    int
	n         int      // ticks seen in the current operation
	kinds     []string // kind of each tick
	fired     bool
}

func (c *ctl) reset(mode string, target int) {
	c.mode, c.target, c.n, c.kinds, c.fired = mode, target, 0, nil, false
}

// write is called before every mutating bucket call; returns an error to inject, or panics to crash.
func (c *ctl) write(kind string, tx *ftx) error {
	i := c.n
	c.n++
	c.kinds = append(c.kinds, kind)
	if c.fired || i != c.target {
		return nil
	}
	switch c.mode {
	case "failwrite":
		c.fired = true
		return errInjected
	case "crashwrite":
		c.fired = true
		tx.dbTx.Rollback() // the process dies: an uncommitted leveldb transaction leaves no trace
		panic(crashSignal{})
	}
	return nil
}

type fdb struct {
	dbDB
	c *ctl
}

func (f *fdb) BeginTx() (db.DBTransaction, error) {
	tx, err := f.dbDB.BeginTx()
	if err != nil {
		return nil, err
	}
	return &ftx{tx, f.c}, nil
}

type ftx struct {
	dbTx
	c *ctl
}

func (t *ftx) wrap(b db.Bucket) db.Bucket {
	if b == nil {
		return nil
	}
	return &fbucket{b, t}
}
func (t *ftx) TopLevelBucket(name string) db.Bucket  { return t.wrap(t.dbTx.TopLevelBucket(name)) }
func (t *ftx) FetchBucket(m db.BucketMeta) db.Bucket { return t.wrap(t.dbTx.FetchBucket(m)) }
func (t *ftx) CreateTopLevelBucket(name string) (db.Bucket, error) {
	if err := t.c.write("createTop", t); err != nil {
		return nil, err
	}
	b, err := t.dbTx.CreateTopLevelBucket(name)
	return t.wrap(b), err
}
func (t *ftx) Commit() error {
	c := t.c
	c.kinds = append(c.kinds, "commit")
	if !c.fired {
		switch c.mode {
		case "failcommit":
			c.fired = true
			t.dbTx.Rollback()
			return errInjected
		case "crashcommit":
			c.fired = true
			if err := t.dbTx.Commit(); err != nil {
				panic(err)
			}
			panic(crashSignal{afterCommit: true})
		}
	}
	return t.dbTx.Commit()
}

type fbucket struct {
	dbBucket
	t *ftx
}

func (b *fbucket) NewBucket(name string) (db.Bucket, error) {
	if err := b.t.c.write("newBucket", b.t); err != nil {
		return nil, err
	}
	nb, err := b.dbBucket.NewBucket(name)
	return b.t.wrap(nb), err
}
func (b *fbucket) Bucket(name string) db.Bucket { return b.t.wrap(b.dbBucket.Bucket(name)) }
func (b *fbucket) DeleteBucket(name string) error {
	if err := b.t.c.write("deleteBucket", b.t); err != nil {
		return err
	}
	return b.dbBucket.DeleteBucket(name)
}
func (b *fbucket) Put(k, v []byte) error {
	if err := b.t.c.write("put", b.t); err != nil {
		return err
	}
	if b.t.c.recording {
		b.t.c.puts = append(b.t.c.puts, putRec{append([]string(nil), b.dbBucket.GetBucketMeta().Paths()...), append([]byte(nil), k...), append([]byte(nil), v...)})
	}
	return b.dbBucket.Put(k, v)
}
func (b *fbucket) Delete(k []byte) error {
	if err := b.t.c.write("delete", b.t); err != nil {
		return err
	}
	return b.dbBucket.Delete(k)
}
func (b *fbucket) Clear() error {
	if err := b.t.c.write("clear", b.t); err != nil {
		return err
	}
	return b.dbBucket.Clear()
}

// ---- replaying operation lines ----
func (e *env) pidx(tok string) int {
	if tok == "-" {
		return -1
	}
	n, _ := strconv.Atoi(strings.TrimRight(tok[1:], "wi"))
	return n
}

// applyLine executes one operation line (as written to ops.txt) and returns the canonical output.
func (e *env) applyLine(line string) string {
	t := strings.Fields(line)
	un := func(s string) string {
		if s == "-" {
			return ""
		}
		b, _ := hexDecode(s)
		return string(b)
	}
	atoi := func(s string) int { n, _ := strconv.Atoi(s); return n }
	var out string
	switch t[0] {
	case "new":
		_, out = e.opNew(e.pidx(t[1]), t[2], un(t[3]))
	case "import":
		_, out = e.opImport(atoi(t[1]), e.pidx(t[2]), e.pidx(t[3]), t[4])
	case "export":
		_, out = e.opExport(atoi(t[1]), e.pidx(t[2]))
	case "delete":
		_, out = e.opDelete(atoi(t[1]), e.pidx(t[2]))
	case "unlock":
		_, out = e.opUnlock(e.pidx(t[1]))
	case "lock":
		out = e.lock()
	case "next":
		_, out = e.opNext(atoi(t[1]), t[2] == "1", uint32(atoi(t[3])))
	case "genpub":
		_, out = e.opGenPub()
	case "remark":
		if err := e.kmc.ChangeRemark(e.nameOf[atoi(t[1])], un(t[2])); err != nil {
			out = "err " + errName(err)
		} else {
			out = "ok"
		}
	case "chpriv":
		o, n := e.pidx(t[1]), e.pidx(t[2])
		if err := e.kmc.ChangePrivPassphrase([]byte(e.passes[o]), []byte(e.passes[n]), fast); err != nil {
			out = "err " + errName(err)
		} else {
			if len(e.ksIDs()) > 0 {
				e.priv = n
			}
			out = "ok"
		}
	case "chpub":
		o, n := e.pidx(t[1]), e.pidx(t[2])
		if err := e.kmc.ChangePubPassphrase([]byte(e.passes[o]), []byte(e.passes[n]), fast); err != nil {
			out = "err " + errName(err)
		} else {
			e.pub = n
			out = "ok"
		}
	case "restart":
		_, out = e.opRestart(e.pidx(t[1]))
	default:
		out = "bad-op"
	}
	return out
}

// reopenObs closes the instance, reopens the store without faults and returns what it presents:
// the dump plus which well-formed passphrase unlocks it.
func (e *env) reopenObs() string {
	e.c.reset("", -1)
	e.closeStore()
	s, err := db.OpenDB("leveldb", e.dir)
	if err != nil {
		return "UNOPENABLE store: " + err.Error()
	}
	e.store = s
	var k *keystore.KeystoreManagerForPoC
	pubUsed := -1
	for _, p := range []int{e.pub, 0, 3, 1, 2, 4} {
		k, err = keystore.NewKeystoreManagerForPoC(s, []byte(e.passes[p]), config.ChainParams)
		if err == nil {
			pubUsed = p
			break
		}
	}
	if k == nil {
		return "UNOPENABLE wallet: " + err.Error()
	}
	e.kmc = k
	e.unlocked = false
	obs := e.dumpQuiet() + " pub=" + strconv.Itoa(pubUsed)
	e.mixed = ""
	if names := k.ListKeystoreNames(); len(names) > 0 {
		for p := 0; p < 5; p++ {
			if k.Unlock([]byte(e.passes[p])) == nil {
				obs += " priv=" + strconv.Itoa(p)
			} else if _, ks := k.VerifDump(); true {
				// C03: a passphrase that does not unlock the wallet unlocks nothing
				for _, v := range ks {
					np := 0
					for _, a := range v.Addrs {
						if a.HasPriv {
							np++
						}
					}
					if v.Unlocked || v.AcctPriv || np > 0 {
						e.mixed = fmt.Sprintf("Unlock with passphrase #%d was refused, yet keystore %d is left unlocked (private keys in memory: %d)", p, e.id(v.Name), np)
					}
				}
			}
			k.Lock()
		}
		// C03: one private passphrase governs all keystores -- the passphrases each keystore's export accepts agree
		accepts := map[string]string{}
		for _, n := range names {
			for p := 0; p < 5; p++ {
				if _, err := k.ExportKeystore(n, []byte(e.passes[p])); err == nil {
					accepts[n] += strconv.Itoa(p)
				}
			}
		}
		for _, n := range names {
			if accepts[n] != accepts[names[0]] || len(accepts[n]) != 1 {
				e.mixed = fmt.Sprintf("after the reopen keystore %d is governed by passphrase(s) #%q and keystore %d by #%q", e.id(names[0]), accepts[names[0]], e.id(n), accepts[n])
			}
		}
	}
	return obs
}

// dumpQuiet: the dump line without running the C03/C06 oracles of the random-history harness
func (e *env) dumpQuiet() string {
	_, ks := e.kmc.VerifDump()
	s := "D"
	type row struct {
		id int
		s  string
	}
	var rows []row
	for _, k := range ks {
		id := e.id(k.Name)
		ne, ni := 0, 0
		for _, a := range k.Addrs {
			if a.Branch == 0 {
				ne++
			} else {
				ni++
			}
		}
		rows = append(rows, row{id, fmt.Sprintf(" [id=%d r=%s e=%d i=%d recs=%d/%d]", id, rtok(k.Remark), k.NextExternal, k.NextInternal, ne, ni)})
	}
	for i := range rows {
		for j := i + 1; j < len(rows); j++ {
			if rows[j].id < rows[i].id {
				rows[i], rows[j] = rows[j], rows[i]
			}
		}
	}
	for _, r := range rows {
		s += r.s
	}
	return s
}

// liveDump: what the running instance shows, for "an operation that reported an error left the running instance as
// it was": the dump plus, per keystore, whether it is unlocked and how many addresses hold a private key
func (e *env) liveDump() string {
	s := e.dumpQuiet() + fmt.Sprintf(" locked=%v", e.kmc.IsLocked())
	_, ks := e.kmc.VerifDump()
	var rows []string
	for _, k := range ks {
		np := 0
		for _, a := range k.Addrs {
			if a.HasPriv {
				np++
			}
		}
		rows = append(rows, fmt.Sprintf("%d:u=%v,priv=%d", e.id(k.Name), k.Unlocked, np))
	}
	sort.Strings(rows)
	return s + " " + strings.Join(rows, " ")
}

// replica builds a fresh wallet with the fault wrapper and replays the history on it.
func (e *env) replica(pub int, history []string) *env {
	r := &env{h: e.h, focus: e.focus, root: e.root, passes: e.passes, wf: e.wf, seeds: e.seeds, c: &ctl{}, faulty: true}
	r.idOf, r.nameOf = map[string]int{}, map[int]string{}
	for k, v := range e.idOf { // identities are a function of the seed: share what is known
		r.idOf[k] = v
	}
	for k, v := range e.nameOf {
		r.nameOf[k] = v
	}
	r.keyAddr, r.keyPub = map[triple]string{}, map[triple][]byte{}
	r.issued, r.issuedAt, r.issuedGen, r.gen = map[string]bool{}, map[string]triple{}, map[string]int{}, map[int]int{}
	r.acctVariant = map[int]int{}
	r.freshID = 900
	e.nrep++
	r.nstore = 100000 + e.nrep
	r.freshWallet(pub)
	r.quiet = true
	for _, l := range history {
		r.applyLine(l)
	}
	for k, v := range r.idOf {
		e.idOf[k] = v
	}
	for k, v := range r.nameOf {
		e.nameOf[k] = v
	}
	return r
}

func (r *env) destroy() {
	r.closeStore()
	if r.dir != "" {
		removeAll(r.dir)
	}
}

// runOp runs one operation line under the armed fault; returns (output, crashed).
func (r *env) runOp(line string) (out string, crashed bool) {
	defer func() {
		if x := recover(); x != nil {
			if _, ok := x.(crashSignal); ok {
				crashed = true
				return
			}
			panic(x)
		}
	}()
	return r.applyLine(line), false
}

func (e *env) faultHistory(pub int, history []string) {
	h := e.h
	h.Emit("reset "+e.ptok(pub), "ok")
	for i, op := range history {
		prefix := history[:i]
		// reference replicas
		a := e.replica(pub, prefix)
		obsPre := a.reopenObs()
		a.destroy()
		b := e.replica(pub, prefix)
		b.c.reset("count", -1)
		outPost, _ := b.runOp(op)
		kinds := append([]string(nil), b.c.kinds...)
		obsPost := b.reopenObs()
		b.destroy()
		mop := op // the line as the model needs it (observed plot-key owner)
		if op == "genpub -" && strings.HasPrefix(outPost, "keys ") {
			mop = "genpub " + strings.Fields(outPost)[1]
		}
		nw := 0
		for _, k := range kinds {
			if k != "commit" {
				nw++
			}
		}
		hasCommit := len(kinds) > nw
		type exp struct {
			mode string
			at   int
		}
		var exps []exp
		for w := 0; w < nw; w++ {
			exps = append(exps, exp{"failwrite", w}, exp{"crashwrite", w})
		}
		if hasCommit {
			exps = append(exps, exp{"failcommit", 0}, exp{"crashcommit", 0})
		}
		h.Res.Extra["fault_points"] = toInt(h.Res.Extra["fault_points"]) + len(exps)
		for _, x := range exps {
			r := e.replica(pub, prefix)
			live := r.liveDump()
			keysBefore := r.listedKeys()
			r.c.reset(x.mode, x.at)
			out, crashed := r.runOp(op)
			fired := r.c.fired
			// C05: keys this operation handed out (it reported success and the running instance lists them)
			var handedOut [][]byte
			if opk := strings.Fields(op)[0]; !crashed && strings.HasPrefix(out, "keys ") && (opk == "next" || opk == "genpub") {
				for k, v := range r.listedKeys() {
					if _, was := keysBefore[k]; !was {
						handedOut = append(handedOut, v)
					}
				}
			}
			kind := ""
			if x.mode == "failwrite" || x.mode == "crashwrite" {
				if x.at < len(kinds) {
					kind = kinds[x.at]
				}
			}
			desc := fmt.Sprintf("history %q then %q with %s@%d(%s)", strings.Join(prefix, "; "), op, x.mode, x.at, kind)
			replay := append(append([]string{"# " + desc}, prefix...), op)
			h.Res.OracleEvals++
			var liveAfter string
			if !crashed {
				liveAfter = r.liveDump()
			}
			// C03: a passphrase change that reported an error changed nothing in the running instance either: the old
			// passphrase still opens the wallet, the new one does not
			if f := strings.Fields(op); f[0] == "chpriv" && !crashed && strings.HasPrefix(out, "err") && fired && r.kmc != nil && len(r.kmc.ListKeystoreNames()) > 0 {
				oldP, newP := r.passes[r.pidx(f[1])], r.passes[r.pidx(f[2])]
				wasUnlocked := !r.kmc.IsLocked()
				r.kmc.Lock()
				h.Res.OracleEvals++
				errNew := r.kmc.Unlock([]byte(newP))
				r.kmc.Lock()
				errOld := r.kmc.Unlock([]byte(oldP))
				if errNew == nil || errOld != nil {
					h.FailWith("C03:failed-change-switched-passphrase", fmt.Sprintf("%s: ChangePrivPassphrase reported %q, yet in the running instance Unlock with the NEW passphrase -> %v, with the still-current one -> %v", desc, out, errNew, errOld), replay)
				}
				if !wasUnlocked {
					r.kmc.Lock()
				}
			}
			obs := r.reopenObs()
			if len(handedOut) > 0 && r.kmc != nil && !strings.HasPrefix(obs, "UNOPENABLE") {
				h.Res.OracleEvals++
				if err := r.kmc.Unlock([]byte(r.passes[r.priv])); err == nil {
					for _, kb := range handedOut {
						pk, _ := pocec.ParsePubKey(kb, pocec.S256())
						digest := make([]byte, 32)
						copy(digest, kb)
						sig, err := r.kmc.SignHash(pk, digest)
						if err != nil || !sig.Verify(digest, pk) {
							h.FailWith("C05:issued-key-cannot-sign-after-restart", fmt.Sprintf("%s: the operation reported %q and handed out public key %x, but after a restart and Unlock signing for that key fails (%v)", desc, out, kb[:8], err), replay)
							break
						}
					}
					r.kmc.Lock()
				}
			}
			r.destroy()
			modelKind := x.mode
			line := fmt.Sprintf("fault %s %d : %s", modelKind, x.at, mop)
			resOut := out
			if crashed {
				resOut = "crashed"
			}
			h.Emit(line, resOut+" | "+stripPass(obs))
			key := ""
			switch {
			case strings.HasPrefix(obs, "UNOPENABLE"):
				key, desc = "store-unopenable", desc+": "+obs
			case crashed && obs != obsPre && obs != obsPost:
				key, desc = "partial-state-after-crash", fmt.Sprintf("%s: reopened wallet shows %q, neither the state before (%q) nor after (%q) the operation", desc, obs, obsPre, obsPost)
			case !crashed && strings.HasPrefix(out, "err") && fired && obs != obsPre:
				key, desc = "error-but-store-changed", fmt.Sprintf("%s: operation reported %q but the reopened wallet shows %q instead of the prior %q", desc, out, obs, obsPre)
			case !crashed && strings.HasPrefix(out, "err") && fired && liveAfter != live:
				key, desc = "error-but-memory-changed", fmt.Sprintf("%s: operation reported %q and the process continued, but the running instance shows %q instead of the prior %q", desc, out, liveAfter, live)
			case !crashed && !strings.HasPrefix(out, "err") && obs != obsPost:
				key, desc = "acknowledged-but-lost", fmt.Sprintf("%s: operation reported %q (success) but the reopened wallet shows %q instead of %q", desc, out, obs, obsPost)
			}
			if key != "" {
				opk := strings.Fields(op)[0]
				h.FailWith("C12:"+key+"-"+opk+"-"+x.mode+"-"+kind, desc, replay)
				if key == "store-unopenable" || key == "acknowledged-but-lost" || key == "error-but-store-changed" {
					// C02: what the reopened store presents is what was acknowledged - also when a storage error got in the way
					h.FailWith("C02:reopened-wallet-differs-after-storage-error-"+opk, desc, replay)
				}
			}
			// an operation that reported an error left no trace: asked again (no fault this time) it does what it would
			// have done the first time - same result, same wallet after a restart (C12); in particular the next key
			// request continues the ordinals without a gap (C06)
			if !crashed && strings.HasPrefix(out, "err") && fired && (x.mode == "failcommit" || x.at == 0 || x.at == nw-1) && !strings.HasPrefix(outPost, "err") {
				r2 := e.replica(pub, prefix)
				r2.c.reset(x.mode, x.at)
				r2.runOp(op)
				r2.c.reset("", -1)
				out2, _ := r2.runOp(op)
				obs2 := r2.reopenObs()
				r2.destroy()
				h.Res.OracleEvals++
				opk := strings.Fields(op)[0]
				cmp := func(s string) string { // which keystore a plot key comes from is Go's map order
					if opk == "genpub" {
						if f := strings.Fields(s); len(f) == 5 {
							return f[0] + " * " + f[2] + " " + f[3] + " " + f[4]
						}
					}
					return s
				}
				if cmp(out2) != cmp(outPost) || (opk != "genpub" && obs2 != obsPost) {
					d := fmt.Sprintf("%s: the operation reported %q; asked again without a fault it returned %q and the reopened wallet shows %q - the fault-free run returns %q and shows %q", desc, out, out2, obs2, outPost, obsPost)
					h.FailWith("C12:retry-after-error-differs-"+opk+"-"+x.mode, d, replay)
					if opk == "genpub" || opk == "next" {
						h.FailWith("C06:ordinal-gap-after-failed-request", d, replay)
					}
				}
			}
			if r.mixed != "" {
				h.FailWith("C03:passphrases-diverge-after-fault-"+strings.Fields(op)[0], fmt.Sprintf("history %q then %q with %s@%d(%s): %s", strings.Join(prefix, "; "), op, x.mode, x.at, kind, r.mixed), replay)
			}
		}
		h.Emit(mop, outPost) // the model advances along the fault-free history
	}
}

// listedKeys: compressed public key (hex) of every address the running instance lists
func (e *env) listedKeys() map[string][]byte {
	m := map[string][]byte{}
	if e.kmc == nil {
		return m
	}
	_, ks := e.kmc.VerifDump()
	for _, k := range ks {
		for _, a := range k.Addrs {
			m[hex.EncodeToString(a.PubKey)] = a.PubKey
		}
	}
	return m
}

func stripPass(obs string) string {
	if i := strings.Index(obs, " pub="); i >= 0 {
		return obs[:i]
	}
	return obs
}

func toInt(v interface{}) int {
	if v == nil {
		return 0
	}
	return v.(int)
}

// genHistory: a short history over the mutating operations (pool seeds only, so replays are deterministic).
func (e *env) genHistory(n int) []string {
	r := e.h.Rng
	var hist []string
	// a scratch replica to keep the generator state-aware
	s := e.replica(0, nil)
	defer s.destroy()
	priv := 1 + r.Intn(2)
	add := func(l string) { hist = append(hist, l); s.applyLine(l) }
	add(fmt.Sprintf("new %s s%d %s", s.ptok(priv), r.Intn(3), rtok("main")))
	for len(hist) < n {
		ids := s.ksIDs()
		x := r.Intn(100)
		switch {
		case x < 12:
			add(fmt.Sprintf("new %s s%d %s", s.ptok(priv), r.Intn(4), rtok([]string{"", "second"}[r.Intn(2)])))
		case x < 30 && len(ids) > 0:
			add(fmt.Sprintf("next %d %d %d", ids[r.Intn(len(ids))], r.Intn(2), 1+r.Intn(2)))
		case x < 42 && len(ids) == 1: // with several keystores the owner is the Go map order: not replayable
			add("genpub -")
		case x < 52 && len(ids) > 0:
			add(fmt.Sprintf("remark %d %s", ids[r.Intn(len(ids))], rtok([]string{"", "renamed"}[r.Intn(2)])))
		case x < 62 && len(ids) > 0:
			np := 1 + (priv % 2)
			if r.Intn(4) == 0 {
				np = 4
			}
			add(fmt.Sprintf("chpriv %s %s", s.ptok(priv), s.ptok(np)))
			priv = np
		case x < 68:
			np := []int{0, 3}[r.Intn(2)]
			if np != s.pub {
				add(fmt.Sprintf("chpub %s %s", s.ptok(s.pub), s.ptok(np)))
			}
		case x < 78 && len(ids) > 0:
			id := ids[r.Intn(len(ids))]
			add(fmt.Sprintf("export %d %s", id, s.ptok(priv)))
		case x < 88 && len(ids) > 0:
			add(fmt.Sprintf("delete %d %s", ids[r.Intn(len(ids))], s.ptok(priv)))
		case x < 93 && len(s.files) > 0:
			add(fmt.Sprintf("import %d %s - none", r.Intn(len(s.files)), s.ptok(s.files[0].priv)))
		default:
			if s.unlocked {
				add("lock")
			} else if len(ids) > 0 {
				add("unlock " + s.ptok(priv))
			}
		}
	}
	return hist
}

func runFaults(e *env) {
	h := e.h
	// identities of the pool seeds (a crash may hide the name NewKeystore would have returned)
	pre := e.replica(0, nil)
	for i := range e.seeds {
		pre.applyLine(fmt.Sprintf("new p1w s%d -", i))
	}
	for k, v := range pre.idOf {
		e.idOf[k] = v
	}
	for k, v := range pre.nameOf {
		e.nameOf[k] = v
	}
	pre.destroy()
	fixed := [][]string{
		{"new p1w s0 6d61696e", "next 0 0 2", "remark 0 72656e616d6564", "genpub -", "delete 0 p1w"},
		{"new p1w s0 -", "new p1w s1 78", "chpriv p1w p2w", "next 0 0 1", "export 0 p2w", "delete 0 p2w", "import 0 p2w - none"},
		// a keystore deleted and created again from the same seed with fewer addresses: nothing of the first
		// incarnation may be left in the store
		{"new p1w s0 -", "next 0 0 3", "next 0 1 2", "delete 0 p1w", "new p1w s0 -", "next 0 0 1"},
		// the same kinds of operation on an UNLOCKED wallet (a failed operation must also leave the keys usable as before)
		{"new p1w s0 -", "next 0 0 2", "unlock p1w", "next 0 1 1", "remark 0 72656e616d6564", "genpub -", "delete 0 p1w"},
		{"new p1w s0 -", "new p1w s1 78", "unlock p1w", "chpriv p1w p2w", "export 0 p2w", "delete 1 p2w", "import 0 p2w - none", "lock"},
	}
	if e.focus == "C05" {
		// C05 runs the key-issuing part: a key handed out by an operation that hit a storage fault must still sign after a restart
		fixed = [][]string{
			{"new p1w s0 -", "next 0 0 2", "genpub -", "next 0 1 1", "unlock p1w", "genpub -", "next 0 0 1", "next 0 1 2"},
			// (with two keystores the owner of a plot key is Go's map order, which replicas do not share: address requests only)
			{"new p1w s0 -", "new p1w s1 78", "next 0 0 1", "next 1 0 2", "next 1 1 1"},
		}
	}
	if e.focus == "C02" {
		// C02 runs the passphrase changes and what surrounds them: the reopened wallet presents what was acknowledged
		fixed = [][]string{
			{"new p1w s0 -", "new p1w s1 78", "chpub p0w p3w", "next 0 0 1", "chpub p3w p0w", "remark 1 72656e616d6564"},
		}
	}
	if e.focus == "C06" {
		// C06 runs key issuance on one keystore: after a request that failed on a fault the ordinals go on without a gap
		fixed = [][]string{
			{"new p1w s0 -", "genpub -", "next 0 0 1", "unlock p1w", "genpub -", "next 0 0 2", "genpub -"},
		}
	}
	if e.focus == "C03" {
		// C03 runs the passphrase part only: faults inside a passphrase change over two and three keystores
		fixed = [][]string{
			{"new p1w s0 -", "new p1w s1 78", "chpriv p1w p2w"},
			{"new p1w s0 -", "new p1w s1 78", "new p1w s2 -", "unlock p1w", "chpriv p1w p2w", "lock"},
		}
	}
	for _, hist := range fixed {
		e.faultHistory(0, hist)
	}
	for s := 0; s < h.N; s++ {
		hist := e.genHistory(3 + h.Rng.Intn(h.Len))
		e.faultHistory(0, hist)
		if s < 2 {
			h.Sample("fault enumeration over: " + strings.Join(hist, " ; "))
		}
	}
}
