package main

// C04: a recording db.DB logs every Put; every stored value is opened with the keys the harness derives from
// the passphrases and classified (the correspondence stream for Model/WalletTerms.lean: key name ↦ class);
// byte-scan oracle over the store directory, every export and the log output.

import (
	"context"

	"bytes"
	"encoding/hex"
	"encoding/json"
	"fmt"
	"massnet.org/mass/api"
	pb "massnet.org/mass/api/proto"
	"os"
	"path/filepath"
	"strconv"
	"strings"

	"github.com/massnetorg/mass-core/logging"
	"github.com/massnetorg/mass-core/pocec"
	"massnet.org/mass/config"
	"massnet.org/mass/poc/wallet/keystore"
	"massnet.org/mass/poc/wallet/keystore/hdkeychain"
	"massnet.org/mass/poc/wallet/keystore/snacl"
)

type putRec struct {
	bucket []string
	key    []byte
	val    []byte
}

type ksSecrets struct {
	seed                  []byte
	imported              bool
	raw                   map[string][]byte // latest mpub/mpriv/cpub/cpriv values
	xprv, xpub            map[string]string // path -> string form
	scalars               [][]byte
	masterPub, masterPriv *snacl.SecretKey
	cryptoPub, cryptoPriv *snacl.CryptoKey
}

func pathKeys(seed []byte) (xprv, xpub map[string]string, scalars [][]byte) {
	xprv, xpub = map[string]string{}, map[string]string{}
	root, err := hdkeychain.NewMaster(seed, config.ChainParams)
	if err != nil {
		return
	}
	add := func(p string, k *hdkeychain.ExtendedKey) {
		xprv[p] = k.String()
		n, _ := k.Neuter()
		xpub[p] = n.String()
		b, _ := k.PrivKey()
		scalars = append(scalars, append([]byte(nil), b...))
	}
	add("", root)
	H := uint32(hdkeychain.HardenedKeyStart)
	purpose, _ := root.Child(44 + H)
	coin, _ := purpose.Child(config.ChainParams.HDCoinType + H)
	acct, _ := coin.Child(0 + H)
	add("44,297", coin)
	add("44,297,0", acct)
	for br := uint32(0); br < 2; br++ {
		b, _ := acct.Child(br)
		add(fmt.Sprintf("44,297,0,%d", br), b)
		for i := uint32(0); i < 6; i++ {
			c, err := b.Child(i)
			if err == nil {
				add(fmt.Sprintf("44,297,0,%d,%d", br, i), c)
			}
		}
	}
	return
}

func (e *env) secretsOf(acct string) *ksSecrets {
	s, ok := e.sec[acct]
	if !ok {
		s = &ksSecrets{raw: map[string][]byte{}}
		e.sec[acct] = s
	}
	return s
}

// refreshKeys derives the four key-encryption keys of a keystore from its stored parameters and the passphrase pool.
func (e *env) refreshKeys(s *ksSecrets) {
	try := func(params []byte) *snacl.SecretKey {
		if params == nil {
			return nil
		}
		for p := 0; p < 5; p++ {
			var sk snacl.SecretKey
			if sk.Unmarshal(params) != nil {
				return nil
			}
			pw := []byte(e.passes[p])
			if sk.DeriveKey(&pw) == nil {
				return &sk
			}
		}
		return nil
	}
	s.masterPub, s.masterPriv = try(s.raw["mpub"]), try(s.raw["mpriv"])
	s.cryptoPub, s.cryptoPriv = nil, nil
	if s.masterPub != nil && s.raw["cpub"] != nil {
		if b, err := s.masterPub.Decrypt(s.raw["cpub"]); err == nil {
			var ck snacl.CryptoKey
			copy(ck[:], b)
			s.cryptoPub = &ck
		}
	}
	if s.masterPriv != nil && s.raw["cpriv"] != nil {
		if b, err := s.masterPriv.Decrypt(s.raw["cpriv"]); err == nil {
			var ck snacl.CryptoKey
			copy(ck[:], b)
			s.cryptoPriv = &ck
		}
	}
}

// classifyPlain names a plaintext found inside a box (or in the clear).
func (e *env) classifyPlain(s *ksSecrets, b []byte) string {
	if s.cryptoPub != nil && bytes.Equal(b, s.cryptoPub[:]) {
		return "key(cryptoPub)"
	}
	if s.cryptoPriv != nil && bytes.Equal(b, s.cryptoPriv[:]) {
		return "key(cryptoPriv)"
	}
	for p, x := range s.xprv {
		if string(b) == x {
			return "xprv[" + p + "]"
		}
	}
	for p, x := range s.xpub {
		if string(b) == x {
			return "xpub[" + p + "]"
		}
	}
	if k, err := hdkeychain.NewKeyFromString(string(b)); err == nil {
		if k.IsPrivate() {
			return "xprv[?]"
		}
		return "xpub[?]"
	}
	if len(b) == 33 {
		if _, err := pocec.ParsePubKey(b, pocec.S256()); err == nil {
			return "pubkey"
		}
	}
	if bytes.Equal(b, s.seed) {
		return "seed"
	}
	return "?"
}

// classify opens a stored value with every key-encryption key of the keystore.
func (e *env) classify(s *ksSecrets, v []byte) string {
	type kk struct {
		name string
		dec  func([]byte) ([]byte, error)
	}
	var ks []kk
	if s.masterPub != nil {
		ks = append(ks, kk{"masterPub", s.masterPub.Decrypt})
	}
	if s.masterPriv != nil {
		ks = append(ks, kk{"masterPriv", s.masterPriv.Decrypt})
	}
	if s.cryptoPub != nil {
		ks = append(ks, kk{"cryptoPub", s.cryptoPub.Decrypt})
	}
	if s.cryptoPriv != nil {
		ks = append(ks, kk{"cryptoPriv", s.cryptoPriv.Decrypt})
	}
	for _, k := range ks {
		if pt, err := k.dec(v); err == nil {
			return "enc(" + k.name + "," + e.classifyPlain(s, pt) + ")"
		}
	}
	// a box that opens under a key anybody knows (all zero: what a wiped key buffer holds) protects nothing
	var zeroKey snacl.CryptoKey
	e.h.Res.OracleEvals++
	if pt, err := zeroKey.Decrypt(v); err == nil {
		e.failAlways("C04", "sealed-under-zero-key", "a stored value is a box that opens under the all-zero key (%d bytes of plaintext: %s): anyone can read it without a passphrase", len(pt), e.classifyPlain(s, pt))
		return "enc(zeroKey," + e.classifyPlain(s, pt) + ")"
	}
	if c := e.classifyPlain(s, v); c != "?" {
		return c // something recognisable in the CLEAR
	}
	return "opaque"
}

func (e *env) paramsClass(s *ksSecrets, v []byte, which string) string {
	var sk snacl.SecretKey
	if sk.Unmarshal(v) != nil {
		return "opaque"
	}
	if which == "mpub" && s.masterPub != nil || which == "mpriv" && s.masterPriv != nil {
		if which == "mpub" {
			return "params(pub)"
		}
		return "params(priv)"
	}
	return "params(?)"
}

// processPuts classifies the Puts recorded during the last operation and emits one model line each.
func (e *env) processPuts() {
	recs := e.c.puts
	e.c.puts = nil
	// pass 1: keep the latest key material per keystore, then derive keys
	touched := map[string]bool{}
	for _, r := range recs {
		if len(r.bucket) >= 3 && r.bucket[1] == "km" && r.bucket[2] != "aid" {
			acct := r.bucket[2]
			s := e.secretsOf(acct)
			switch string(r.key) {
			case "mpub", "mpriv", "cpub", "cpriv":
				s.raw[string(r.key)] = append([]byte(nil), r.val...)
			}
			touched[acct] = true
		}
	}
	for acct := range touched {
		s := e.sec[acct]
		if s.seed == nil {
			if id, ok := e.idOf[acct]; ok && id < len(e.seeds) {
				s.seed = e.seeds[id]
				s.xprv, s.xpub, s.scalars = pathKeys(s.seed)
			}
		}
		e.refreshKeys(s)
	}
	for _, r := range recs {
		if len(r.bucket) < 2 || r.bucket[1] != "km" {
			continue
		}
		if len(r.bucket) == 3 && r.bucket[2] == "aid" {
			e.h.Emit("put 0 accountId", "text")
			continue
		}
		if len(r.bucket) < 3 {
			continue
		}
		s := e.secretsOf(r.bucket[2])
		imp := "0"
		if s.imported {
			imp = "1"
		}
		name, cls := "", ""
		if len(r.bucket) == 4 && r.bucket[3] == "pub" {
			name, cls = "pubRecord", e.classify(s, r.val)
		} else {
			switch k := string(r.key); k {
			case "mpub", "mpriv":
				name, cls = k, e.paramsClass(s, r.val, k)
			case "cpub", "cpriv", "mhdpriv", "mhdpub", "exbPubKey", "inbPubKey":
				name, cls = k, e.classify(s, r.val)
			case "account", "coinType", "exChildNum", "inChildNum":
				name, cls = k, "num"
				if len(r.val) != 4 {
					cls = e.classify(s, r.val)
				}
			case "remark":
				name, cls = k, "text"
				if c := e.classifyPlain(s, r.val); c != "?" {
					cls = c
				}
			default:
				if len(r.key) == 4 {
					name = "accountRow"
					// [type:1][rawLen:4][pubLen:4][pubEnc][privLen:4][privEnc]
					v := r.val
					le := func(o int) int {
						return int(uint32(v[o]) | uint32(v[o+1])<<8 | uint32(v[o+2])<<16 | uint32(v[o+3])<<24)
					}
					if len(v) > 13 {
						l1 := le(5)
						if 9+l1+4 <= len(v) {
							a := v[9 : 9+l1]
							l2 := le(9 + l1)
							if 13+l1+l2 <= len(v) {
								b := v[13+l1 : 13+l1+l2]
								cls = "pair(" + e.classify(s, a) + "," + e.classify(s, b) + ")"
							}
						}
					}
					if cls == "" {
						cls = "opaque"
					}
				} else {
					name, cls = "unknown:"+hex.EncodeToString(r.key), e.classify(s, r.val)
				}
			}
		}
		e.h.Emit("put "+imp+" "+name, cls)
		e.h.Res.OracleEvals++
		// private material must be recoverable only with the PRIVATE passphrase
		if strings.Contains(cls, "enc(cryptoPub,xprv") || strings.Contains(cls, "enc(masterPub,xprv") || strings.Contains(cls, "enc(cryptoPub,key(cryptoPriv") ||
			strings.Contains(cls, "enc(masterPub,key(cryptoPriv") || strings.Contains(cls, "enc(cryptoPub,seed") || strings.Contains(cls, "enc(masterPub,seed") {
			e.failAlways("C04", "private-material-under-public-key-"+name, "the value stored under %q is %s: private key material sealed under the public hierarchy (recoverable with the public passphrase alone)", name, cls)
		}
		if strings.HasPrefix(cls, "xprv") || strings.HasPrefix(cls, "key(") || cls == "seed" || strings.HasPrefix(cls, "pair(xprv") || strings.Contains(cls, ",xprv[") && strings.HasPrefix(cls, "pair(") && !strings.Contains(cls, "enc(") {
			e.failAlways("C04", "secret-stored-in-clear-"+name, "the value stored under %q is %s in the clear", name, cls)
		}
	}
}

// scan searches bytes for every secret of every keystore.
func (e *env) scan(where string, data []byte) {
	check := func(what string, sec []byte) {
		if len(sec) < 6 {
			return
		}
		e.h.Res.OracleEvals++
		if bytes.Contains(data, sec) || bytes.Contains(data, []byte(hex.EncodeToString(sec))) {
			e.failAlways("C04", "secret-in-"+strings.SplitN(where, ":", 2)[0]+"-"+what, "%s contains %s in clear form", where, what)
		}
	}
	for _, p := range e.passes[:5] {
		check("passphrase", []byte(p))
	}
	for _, s := range e.sec {
		check("seed", s.seed)
		for p, x := range s.xprv {
			_ = p
			check("extended-private-key", []byte(x))
		}
		for _, sc := range s.scalars {
			check("private-key-scalar", sc)
		}
		if s.masterPub != nil {
			check("master-key", s.masterPub.Key[:])
		}
		if s.masterPriv != nil {
			check("master-key", s.masterPriv.Key[:])
		}
		if s.cryptoPub != nil {
			check("crypto-key", s.cryptoPub[:])
		}
		if s.cryptoPriv != nil {
			check("crypto-key", s.cryptoPriv[:])
		}
	}
}

func (e *env) scanAll(logDir string) {
	filepath.Walk(e.dir, func(p string, info os.FileInfo, err error) error {
		if err == nil && !info.IsDir() {
			if b, err := os.ReadFile(p); err == nil {
				e.scan("store:"+filepath.Base(p), b)
			}
		}
		return nil
	})
	for i, f := range e.files {
		e.scan("export:"+strconv.Itoa(i), f.data)
	}
	filepath.Walk(logDir, func(p string, info os.FileInfo, err error) error {
		if err == nil && !info.IsDir() {
			if b, err := os.ReadFile(p); err == nil {
				e.scan("log:"+filepath.Base(p), b)
			}
		}
		return nil
	})
}

// exportFields emits one model line per field of an exported file.
func (e *env) exportFields(fno int) {
	f := e.files[fno]
	var ks keystore.Keystore
	if json.Unmarshal(f.data, &ks) != nil {
		return
	}
	s := e.secretsOf(e.nameOf[f.id])
	dec := func(h string) []byte { b, _ := hex.DecodeString(h); return b }
	e.h.Emit("file masterHDPrivKeyEnc", e.classify(s, dec(ks.Crypto.MasterHDPrivKeyEnc)))
	e.h.Emit("file cryptoKeyPubEnc", e.classify(s, dec(ks.Crypto.CryptoKeyPubEnc)))
	e.h.Emit("file cryptoKeyPrivEnc", e.classify(s, dec(ks.Crypto.CryptoKeyPrivEnc)))
	e.h.Emit("file pubParams", e.paramsClass(s, dec(ks.Crypto.PubParams), "mpub"))
	e.h.Emit("file privParams", e.paramsClass(s, dec(ks.Crypto.PrivParams), "mpriv"))
	e.h.Emit("file remark", "text")
}

func runSecrecy(e *env) {
	h := e.h
	logDir := filepath.Join(e.root, "logs")
	os.MkdirAll(logDir, 0o755)
	logging.Init(logDir, "wallet.log", "debug", 1, true)
	h.Emit("reset", "ok")
	for s := 0; s < h.N; s++ {
		e.idOf, e.nameOf = map[string]int{}, map[int]string{}
		e.keyAddr, e.keyPub = map[triple]string{}, map[triple][]byte{}
		e.issued, e.issuedAt = map[string]bool{}, map[string]triple{}
		e.issuedGen, e.gen, e.acctVariant = map[string]int{}, map[int]int{}, map[int]int{}
		e.sec = map[string]*ksSecrets{}
		e.files = nil
		e.freshID = 100
		e.c = &ctl{recording: true}
		e.faulty = true
		e.quiet = true
		e.freshWallet(0)
		e.c.puts = nil
		priv := 1 + h.Rng.Intn(2)
		n := 6 + h.Rng.Intn(h.Len)
		var hist []string
		for i := 0; i < n; i++ {
			ids := e.ksIDs()
			var line string
			r := h.Rng
			switch x := r.Intn(100); {
			case len(ids) == 0 || x < 12:
				line = fmt.Sprintf("new %s s%d %s", e.ptok(priv), r.Intn(len(e.seeds)), rtok([]string{"", "main"}[r.Intn(2)]))
			case x < 30:
				n := uint32(1 + r.Intn(2))
				if r.Intn(4) == 0 {
					// a refused request (beyond the per-account limit), on locked and unlocked wallets alike
					n = []uint32{1 << 31, 1<<31 + 1, 1<<32 - 1}[r.Intn(3)]
				}
				line = fmt.Sprintf("next %d %d %d", ids[r.Intn(len(ids))], r.Intn(2), n)
			case x < 42:
				line = "genpub -"
			case x < 50:
				line = fmt.Sprintf("remark %d %s", ids[r.Intn(len(ids))], rtok([]string{"", "renamed"}[r.Intn(2)]))
			case x < 58:
				np := 1 + (priv % 2)
				line = fmt.Sprintf("chpriv %s %s", e.ptok(priv), e.ptok(np))
			case x < 63:
				// also the refused candidates: the current private passphrase, the other private one
				np := []int{0, 3, priv, 1 + (priv % 2), 0, 3}[r.Intn(6)]
				line = fmt.Sprintf("chpub %s %s", e.ptok(e.pub), e.ptok(np))
			case x < 73:
				line = fmt.Sprintf("export %d %s", ids[r.Intn(len(ids))], e.ptok(priv))
			case x < 80:
				line = fmt.Sprintf("delete %d %s", ids[r.Intn(len(ids))], e.ptok(priv))
			case x < 90 && len(e.files) > 0:
				fno := r.Intn(len(e.files))
				line = fmt.Sprintf("import %d %s %s none", fno, e.ptok(e.files[fno].priv), e.ptok(priv))
			case x < 95:
				if e.unlocked {
					line = "lock"
				} else {
					line = "unlock " + e.ptok(priv)
				}
			default:
				line = "restart " + e.ptok(e.pub)
			}
			nfiles := len(e.files)
			out := e.applyLine(line)
			hist = append(hist, line)
			if strings.HasPrefix(line, "chpriv") && out == "ok" {
				priv = e.pidx(strings.Fields(line)[2])
			}
			if strings.HasPrefix(line, "import") && strings.HasPrefix(out, "imported") {
				id, _ := strconv.Atoi(strings.Fields(out)[1])
				e.secretsOf(e.nameOf[id]).imported = true
			}
			if strings.HasPrefix(line, "new") && strings.HasPrefix(out, "created") {
				id, _ := strconv.Atoi(strings.Fields(out)[1])
				e.secretsOf(e.nameOf[id]).imported = false
			}
			h.Emit("op "+line, "-")
			e.processPuts()
			if len(e.files) > nfiles {
				e.exportFields(len(e.files) - 1)
			}
			e.scanAll(logDir)
		}
		// the same wallet behind the API handlers (api/wallets.go): requests that succeed and requests that fail at
		// every stage carry passphrases - none of them may reach the log
		e.apiLayer(priv, logDir)
		// force the store's log into table files and scan again
		e.closeStore()
		e.scanAll(logDir)
		if s < 2 {
			h.Sample("secrecy history: " + strings.Join(hist, " ; "))
		}
	}
}

// apiLayer drives the wallet handlers of the gRPC API on the harness's keystore manager.
func (e *env) apiLayer(priv int, logDir string) {
	if e.kmc == nil {
		return
	}
	srv := api.VerifNewSpacesServer(nil, e.kmc, nil)
	ctx := context.Background()
	dir := filepath.Join(e.root, "apiexp")
	os.MkdirAll(dir, 0o755)
	pass, other := e.passes[priv], e.passes[1+(priv%2)]
	e.h.Res.Extra["api_requests"] = toInt(e.h.Res.Extra["api_requests"])
	count := func() { e.h.Res.Extra["api_requests"] = toInt(e.h.Res.Extra["api_requests"]) + 1 }
	bad := filepath.Join(dir, "bad.json")
	os.WriteFile(bad, []byte("{not json"), 0o644)
	for _, name := range e.kmc.ListKeystoreNames() {
		srv.ExportKeystore(ctx, &pb.ExportKeystoreRequest{WalletId: name, Passphrase: other, ExportPath: dir}) // refused
		count()
		if _, err := srv.ExportKeystore(ctx, &pb.ExportKeystoreRequest{WalletId: name, Passphrase: pass, ExportPath: dir}); err == nil {
			file := filepath.Join(dir, "keystore-"+name+".json")
			if _, err := os.Stat(file); err != nil {
				ms, _ := filepath.Glob(filepath.Join(dir, "*"+name+"*.json"))
				if len(ms) > 0 {
					file = ms[0]
				}
			}
			if b, err := os.ReadFile(file); err == nil {
				e.scan("api-export:"+filepath.Base(file), b)
			}
			// right passphrase, the keystore is already there / a second passphrase / the wrong one
			srv.ImportKeystore(ctx, &pb.ImportKeystoreRequest{ImportPath: file, OldPassphrase: pass})
			srv.ImportKeystore(ctx, &pb.ImportKeystoreRequest{ImportPath: file, OldPassphrase: pass, NewPassphrase: other})
			srv.ImportKeystore(ctx, &pb.ImportKeystoreRequest{ImportPath: file, OldPassphrase: other})
			count()
		}
		count()
	}
	srv.ImportKeystore(ctx, &pb.ImportKeystoreRequest{ImportPath: bad, OldPassphrase: pass})
	srv.ImportKeystore(ctx, &pb.ImportKeystoreRequest{ImportPath: filepath.Join(dir, "absent.json"), OldPassphrase: pass, NewPassphrase: other})
	srv.ImportKeystore(ctx, &pb.ImportKeystoreRequest{ImportPath: bad, OldPassphrase: "short"})
	e.kmc.Lock()
	srv.UnlockWallet(ctx, &pb.UnlockWalletRequest{Passphrase: other})
	srv.UnlockWallet(ctx, &pb.UnlockWalletRequest{Passphrase: pass})
	srv.UnlockWallet(ctx, &pb.UnlockWalletRequest{Passphrase: pass})
	e.kmc.Lock()
	count()
	e.scanAll(logDir)
}

func (e *env) failAlways(prop, key, format string, a ...interface{}) {
	e.h.Fail(prop+":"+key, fmt.Sprintf(format, a...))
}
