// Wallet harness (C01 C02 C03 C05 C06; fault and concurrency harnesses build on it):
// random histories over every keystore-manager API on a real leveldb store with
// fast scrypt; canonical dump after every operation; property oracles stated on
// the implementation.  Oracle failure keys are prefixed with the property id.
package main

import (
	"bytes"
	"crypto/sha256"
	"encoding/hex"
	"encoding/json"
	"flag"
	"fmt"
	ldb "massnet.org/mass/poc/wallet/db/ldb"
	"os"
	"path/filepath"
	"sort"
	"strconv"
	"strings"

	"github.com/massnetorg/mass-core/pocec"
	"massnet.org/mass/config"
	"massnet.org/mass/poc/wallet/db"
	_ "massnet.org/mass/poc/wallet/db/ldb"
	"massnet.org/mass/poc/wallet/keystore"
	"massnet.org/mass/poc/wallet/keystore/hdkeychain"
	"massnet.org/mass/poc/wallet/keystore/snacl"
	"verifharness/hx"
)

var fast = &keystore.ScryptOptions{N: 16, R: 8, P: 1}

type triple struct {
	id     int
	branch uint32
	idx    uint32
}

type fileRec struct {
	data   []byte
	id     int
	priv   int // passphrase index in force at export
	remark string
	ext    uint32
	int_   uint32
	addrs  map[triple]string // snapshot of the keystore's addresses at export
}

type env struct {
	h           *hx.H
	focus       string
	root        string
	nstore      int
	dir         string
	store       db.DB
	kmc         *keystore.KeystoreManagerForPoC
	pub         int
	priv        int             // believed current private passphrase index, -1 = none yet
	sameDigest  []byte          // when set, every 32-byte signing request uses this digest
	mustSign    map[triple]bool // keys the wallet handed out, or restored from an untampered file, for a keystore it still manages
	passes      []string
	wf          []bool
	seeds       [][]byte
	mixed       string // set by reopenObs: how the keystores' passphrases diverge, "" if they agree
	idOf        map[string]int
	nameOf      map[int]string
	freshID     int
	files       []fileRec
	keyAddr     map[triple]string
	keyPub      map[triple][]byte
	issued      map[string]bool // plot keys ever returned by genpub / next external (hex pubkey)
	issuedAt    map[string]triple
	issuedGen   map[string]int
	gen         map[int]int // keystore id -> how many times it was created / imported in this wallet lineage
	unlocked    bool
	acctVariant map[int]int
	sec         map[string]*ksSecrets
	c           *ctl // fault control (C12)
	faulty      bool
	quiet       bool
	nrep        int
}

func (e *env) ptok(i int) string {
	if e.wf[i] {
		return "p" + strconv.Itoa(i) + "w"
	}
	return "p" + strconv.Itoa(i) + "i"
}

func rtok(r string) string {
	if r == "" {
		return "-"
	}
	return hex.EncodeToString([]byte(r))
}

func errName(err error) string {
	switch err {
	case keystore.ErrDifferentPrivPass:
		return "differentPrivPass"
	case keystore.ErrIllegalPassphrase:
		return "illegalPassphrase"
	case keystore.ErrIllegalNewPrivPass:
		return "illegalNewPrivPass"
	case keystore.ErrIllegalSeed:
		return "illegalSeed"
	case keystore.ErrDuplicateSeed:
		return "duplicateSeed"
	case keystore.ErrInvalidKeystoreJson:
		return "invalidJson"
	case keystore.ErrInvalidPassphrase, snacl.ErrInvalidPassword:
		return "invalidPassphrase"
	case keystore.ErrAccountNotFound:
		return "accountNotFound"
	case keystore.ErrSamePrivpass:
		return "samePrivpass"
	case keystore.ErrSamePubpass:
		return "samePubpass"
	case keystore.ErrIllegalNewPubPass:
		return "illegalNewPubPass"
	case keystore.ErrNilPointer:
		return "nilPointer"
	}
	s := err.Error()
	switch {
	case strings.Contains(s, "would exceed the maximum"):
		return "tooMany"
	case strings.Contains(s, "addrManager locked"):
		return "locked"
	case strings.Contains(s, "size is not 32"):
		return "badDigest"
	case strings.Contains(s, "sk does not exists"):
		return "noKey"
	case strings.Contains(s, "invalid passphrase for master public key"):
		return "openFailed"
	}
	return "rejected"
}

func (e *env) id(name string) int {
	if v, ok := e.idOf[name]; ok {
		return v
	}
	return -1
}

func (e *env) bind(name string, id int) {
	e.idOf[name] = id
	e.nameOf[id] = name
}

func (e *env) fail(prop, key, format string, a ...interface{}) {
	if e.quiet {
		return
	}
	e.h.Fail(prop+":"+key, fmt.Sprintf(format, a...))
}

func (e *env) closeStore() {
	if e.store != nil {
		e.store.Close()
		e.store = nil
	}
	e.kmc = nil
}

func (e *env) freshWallet(pub int) {
	e.closeStore()
	if e.dir != "" {
		os.RemoveAll(e.dir)
	}
	e.nstore++
	e.dir = filepath.Join(e.root, "w"+strconv.Itoa(e.nstore))
	s, err := db.CreateDB("leveldb", e.dir)
	if err != nil {
		panic(err)
	}
	e.store = s
	k, err := keystore.NewKeystoreManagerForPoC(e.wrapped(s), []byte(e.passes[pub]), config.ChainParams)
	if err != nil {
		panic(err)
	}
	e.kmc = k
	e.pub, e.priv, e.unlocked = pub, -1, false
	if e.mustSign != nil {
		e.mustSign = map[triple]bool{} // another wallet: it manages nothing yet
	}
}

func (e *env) wrapped(s db.DB) db.DB {
	if e.faulty {
		return &fdb{s, e.c}
	}
	return s
}

func hexDecode(s string) ([]byte, error) { return hex.DecodeString(s) }
func removeAll(d string)                 { os.RemoveAll(d) }

// storeAudit: the flat keyspace under the bucket store holds nothing the tree of buckets does not account for -
// every bucket index entry has its parent's index entry, every other key lies in an indexed bucket, and the
// keystore buckets are exactly the managed keystores (C02: nothing unacknowledged appears; C12: never a partially
// created or deleted keystore).
func (e *env) storeAudit() {
	l, ok := e.store.(*ldb.LevelDB)
	if !ok || e.kmc == nil {
		return
	}
	e.h.Res.OracleEvals++
	paths := map[string]bool{} // "<depth>_<n1>_..._<nd>" of every indexed bucket
	var others []string
	it := l.LDb.NewIterator(nil, nil)
	for it.Next() {
		k := string(it.Key())
		if strings.HasPrefix(k, "b_") {
			paths[k[2:]] = true
		} else {
			others = append(others, k)
		}
	}
	it.Release()
	parent := func(p string) (string, bool) { // "3_a_b_c" -> "2_a_b"
		parts := strings.Split(p, "_")
		d, err := strconv.Atoi(parts[0])
		if err != nil || d != len(parts)-1 || d < 1 {
			return "", false
		}
		if d == 1 {
			return "", true
		}
		return strconv.Itoa(d-1) + "_" + strings.Join(parts[1:len(parts)-1], "_"), true
	}
	for p := range paths {
		pp, wf := parent(p)
		if !wf {
			e.fail(e.auditProp(), "store-malformed-bucket-path", "the store holds the bucket index entry %q, which is not a bucket path", p)
		} else if pp != "" && !paths[pp] {
			e.fail(e.auditProp(), "store-orphan-bucket", "the store holds the bucket %q although its parent bucket %q does not exist", p, pp)
		}
	}
	for _, k := range others {
		found := false
		for p := range paths {
			if strings.HasPrefix(k, p+"_") {
				found = true
				break
			}
		}
		if !found {
			e.fail(e.auditProp(), "store-orphan-row", "the store holds the key %q, which lies in no existing bucket", k)
			break
		}
	}
	// keystore buckets (second level under the manager's top-level bucket) = managed keystores
	managed := map[string]bool{}
	for _, n := range e.kmc.ListKeystoreNames() {
		managed[n] = true
	}
	for p := range paths {
		parts := strings.Split(p, "_")
		if parts[0] == "2" && len(parts) == 3 && strings.HasPrefix(parts[2], "ac") && !managed[parts[2]] {
			e.fail(e.auditProp(), "store-keystore-not-managed", "the store holds a bucket for keystore %s, which the wallet does not manage", parts[2])
		}
	}
}

func (e *env) auditProp() string {
	if e.focus == "C12" {
		return "C12"
	}
	return "C02"
}

// ---- dump + invariants on the implementation ----
func (e *env) dump() string {
	if !e.quiet {
		e.storeAudit()
	}
	unlocked, ks := e.kmc.VerifDump()
	type row struct {
		id int
		s  string
	}
	var rows []row
	e.h.Res.OracleEvals++
	if unlocked != e.unlocked {
		e.fail("C03", "lock-state", "IsLocked()=%v after a history that should leave the wallet unlocked=%v", !unlocked, e.unlocked)
	}
	for _, k := range ks {
		id := e.id(k.Name)
		mu := "x"
		if !unlocked {
			mu = b01(k.MasterPrivUsable)
		}
		rows = append(rows, row{id, fmt.Sprintf(" [id=%d r=%s e=%d i=%d ul=%s mu=%s]", id, rtok(k.Remark), k.NextExternal, k.NextInternal, b01(k.Unlocked), mu)})
		// C02/C06: the address records are exactly indices 0..next-1 on both branches
		var ne, ni uint32
		okSet := true
		for _, a := range k.Addrs {
			if a.Branch == 0 {
				if a.Index != ne {
					okSet = false
				}
				ne++
			} else {
				if a.Index != ni {
					okSet = false
				}
				ni++
			}
			t := triple{id, a.Branch, a.Index}
			if prev, ok := e.keyAddr[t]; ok && prev != a.Address {
				e.fail("C02", "address-changed", "keystore %d branch %d index %d: address was %s, now %s", id, a.Branch, a.Index, prev, a.Address)
			}
			e.keyAddr[t] = a.Address
			e.keyPub[t] = a.PubKey
			if a.HasPriv != k.Unlocked {
				if a.HasPriv {
					e.fail("C03", "locked-holds-privkey", "keystore %d is locked but address %d/%d holds a private key", id, a.Branch, a.Index)
				} else {
					e.fail("C05", "unlocked-missing-privkey", "keystore %d is unlocked but address %d/%d has no private key", id, a.Branch, a.Index)
				}
			}
		}
		if !okSet || ne != k.NextExternal || ni != k.NextInternal {
			e.fail("C06", "records-vs-counters", "keystore %d: address records %d/%d do not match counters %d/%d (or indices not consecutive)", id, ne, ni, k.NextExternal, k.NextInternal)
		}
		if !unlocked {
			what := ""
			switch {
			case k.Unlocked:
				what = "unlocked-flag"
			case k.MasterPrivUsable:
				what = "master-key"
			case k.CryptoPrivNonZero:
				what = "crypto-key"
			case k.PassHashNonZero:
				what = "passphrase-hash"
			case k.AcctPriv || k.BranchPriv:
				what = "account-key"
			}
			if what != "" {
				e.fail("C03", "locked-holds-"+what, "wallet is locked but keystore %d still holds: %s", id, what)
			}
		}
	}
	sort.Slice(rows, func(i, j int) bool { return rows[i].id < rows[j].id })
	s := "U=" + b01(unlocked)
	for _, r := range rows {
		s += r.s
	}
	return s
}

func b01(b bool) string {
	if b {
		return "1"
	}
	return "0"
}

func (e *env) ksIDs() []int {
	var ids []int
	for _, n := range e.kmc.ListKeystoreNames() {
		ids = append(ids, e.id(n))
	}
	sort.Ints(ids)
	return ids
}

func (e *env) pubkey(t triple) *pocec.PublicKey {
	b, ok := e.keyPub[t]
	if !ok {
		return nil
	}
	pk, err := pocec.ParsePubKey(b, pocec.S256())
	if err != nil {
		return nil
	}
	return pk
}

// guarded records that a passphrase-guarded operation succeeded with passphrase p.
func (e *env) guarded(op string, p int) {
	e.h.Res.OracleEvals++
	if e.priv >= 0 && p != e.priv && len(e.ksIDs()) > 0 {
		e.fail("C03", "wrong-pass-accepted", "%s succeeded with passphrase #%d while the current private passphrase is #%d", op, p, e.priv)
	}
}

// ---- operations ----
func (e *env) opNew(p int, seedTok string, remark string) (string, string) {
	var seed []byte
	id := -1
	if seedTok == "bad" {
		seed = []byte{1, 2, 3}
	} else {
		id, _ = strconv.Atoi(seedTok[1:])
		if id < len(e.seeds) {
			seed = e.seeds[id]
		} else {
			seed = sha256sum("fresh-seed-" + strconv.Itoa(id))
		}
	}
	had := len(e.ksIDs())
	name, err := e.kmc.NewKeystore([]byte(e.passes[p]), seed, remark, config.ChainParams, fast)
	line := fmt.Sprintf("new %s %s %s", e.ptok(p), seedTok, rtok(remark))
	if err != nil {
		return line, "err " + errName(err)
	}
	if prev, ok := e.nameOf[id]; ok && prev != name {
		e.fail("C01", "identity-changed", "seed #%d produced keystore id %s, earlier %s", id, name, prev)
	}
	e.bind(name, id)
	e.gen[id]++
	if had > 0 {
		e.guarded("NewKeystore", p)
	}
	e.priv = p
	return line, "created " + strconv.Itoa(id)
}

func sha256sum(s string) []byte { h := sha256.Sum256([]byte(s)); return h[:] }

func (e *env) snapshot(id int) map[triple]string {
	m := map[triple]string{}
	for t, a := range e.keyAddr {
		if t.id == id {
			m[t] = a
		}
	}
	return m
}

func (e *env) opExport(id, p int) (string, string) {
	line := fmt.Sprintf("export %d %s", id, e.ptok(p))
	data, err := e.kmc.ExportKeystore(e.nameOf[id], []byte(e.passes[p]))
	if err != nil {
		return line, "err " + errName(err)
	}
	e.guarded("ExportKeystore", p)
	var ks keystore.Keystore
	json.Unmarshal(data, &ks)
	_, all := e.kmc.VerifDump()
	rec := fileRec{data: data, id: id, priv: p, remark: ks.Remark, ext: ks.HDpath.ExternalChildNum, int_: ks.HDpath.InternalChildNum, addrs: map[triple]string{}}
	for _, k := range all {
		if e.id(k.Name) == id {
			for _, a := range k.Addrs {
				rec.addrs[triple{id, a.Branch, a.Index}] = a.Address
			}
			e.h.Res.OracleEvals++
			if k.Remark != ks.Remark || k.NextExternal != ks.HDpath.ExternalChildNum || k.NextInternal != ks.HDpath.InternalChildNum {
				e.fail("C01", "export-content", "exported file of keystore %d carries remark/counters %q/%d/%d, the keystore has %q/%d/%d", id, ks.Remark, ks.HDpath.ExternalChildNum, ks.HDpath.InternalChildNum, k.Remark, k.NextExternal, k.NextInternal)
			}
		}
	}
	e.files = append(e.files, rec)
	return line, "file " + strconv.Itoa(len(e.files)-1)
}

// tamper returns the altered file bytes for a tamper token.
func (e *env) tamper(f fileRec, tok string) []byte {
	var ks map[string]interface{}
	json.Unmarshal(f.data, &ks)
	crypto := ks["crypto"].(map[string]interface{})
	hd := ks["hdPath"].(map[string]interface{})
	flip := func(s string) string {
		b := []byte(s)
		i := e.h.Rng.Intn(len(b))
		if b[i] == 'a' {
			b[i] = 'b'
		} else {
			b[i] = 'a'
		}
		return string(b)
	}
	parts := strings.SplitN(tok, ":", 2)
	switch parts[0] {
	case "none":
		return f.data
	case "notjson":
		return f.data[:len(f.data)/2]
	case "ignored":
		switch e.h.Rng.Intn(6) {
		case 0:
			crypto["cipher"] = "other"
		case 1:
			crypto["kdf"] = "pbkdf2"
		case 2:
			crypto["pubParams"] = flip(crypto["pubParams"].(string))
		case 3:
			crypto["cryptoKeyPubEnc"] = flip(crypto["cryptoKeyPubEnc"].(string))
		case 4:
			hd["Purpose"] = 45
		default:
			hd["Coin"] = 1
		}
	case "auth":
		switch e.h.Rng.Intn(4) {
		case 0:
			// corrupting the scrypt cost parameters N,r,p can make scrypt allocate without bound before the digest
			// check rejects the file (DESIGN.md F16); this stream keeps to the salt and digest bytes
			// privParams = salt(32) | digest(32) | N(8) | r(8) | p(8): only salt and digest are touched here
			s := []byte(crypto["privParams"].(string))
			i := e.h.Rng.Intn(128)
			if s[i] == 'a' {
				s[i] = 'b'
			} else {
				s[i] = 'a'
			}
			crypto["privParams"] = string(s)
		case 1:
			crypto["cryptoKeyPrivEnc"] = flip(crypto["cryptoKeyPrivEnc"].(string))
		case 2:
			crypto["masterHDPrivKeyEnc"] = flip(crypto["masterHDPrivKeyEnc"].(string))
		default:
			crypto["masterHDPrivKeyEnc"] = crypto["masterHDPrivKeyEnc"].(string)[:20]
		}
	case "remark":
		b, _ := hex.DecodeString(parts[1])
		ks["remark"] = string(b)
	case "ext":
		n, _ := strconv.Atoi(parts[1])
		hd["ExternalChildNum"] = n
	case "int":
		n, _ := strconv.Atoi(parts[1])
		hd["InternalChildNum"] = n
	case "account":
		cur, _ := hd["Account"].(float64)
		hd["Account"] = int(cur) + 1
	}
	out, _ := json.Marshal(ks)
	return out
}

func (e *env) opImport(fno, old, new_ int, tam string) (string, string) {
	f := e.files[fno]
	data := e.tamper(f, tam)
	var newPass []byte
	newTok := "-"
	eff := old
	if new_ >= 0 {
		newPass = []byte(e.passes[new_])
		newTok = e.ptok(new_)
		eff = new_
	}
	had := len(e.ksIDs())
	if strings.HasPrefix(tam, "account:") {
		// a different account of the same seed is a different identity: one token per source keystore
		v, ok := e.acctVariant[f.id]
		if !ok {
			e.freshID++
			v = e.freshID
			e.acctVariant[f.id] = v
		}
		tam = "account:" + strconv.Itoa(v)
	}
	name, remark, err := e.kmc.ImportKeystore(data, []byte(e.passes[old]), newPass)
	if strings.HasPrefix(tam, "account:") && err == nil {
		if _, ok := e.idOf[name]; !ok {
			e.bind(name, e.acctVariant[f.id])
		}
	}
	line := fmt.Sprintf("import %d %s %s %s", fno, e.ptok(old), newTok, tam)
	if err != nil {
		en := errName(err)
		if tam == "auth" {
			// a corrupted authenticated field surfaces as a digest mismatch, a MAC failure or a hex error: all "rejected"
			switch en {
			case "illegalPassphrase", "illegalNewPrivPass", "differentPrivPass", "invalidJson":
			default:
				en = "rejected"
			}
		}
		// C01: a file this wallet software wrote, unaltered (or altered only in fields import ignores), offered with the
		// passphrase in force at export to a wallet that does not hold the keystore and whose one private passphrase it
		// keeps: it restores the keystore - nothing else about it can make the import fail
		e.h.Res.OracleEvals++
		present := false
		for _, id := range e.ksIDs() {
			present = present || id == f.id
		}
		if (tam == "none" || tam == "ignored") && old == f.priv && new_ < 0 && !present && e.wf[old] && old != e.pub && (had == 0 || e.priv == f.priv) && !e.faulty {
			e.fail("C01", "untampered-file-rejected", "file %d (written by ExportKeystore for keystore %d under passphrase #%d, not altered) is refused with %q by a wallet that does not hold that keystore and is governed by the same passphrase", fno, f.id, f.priv, en)
		}
		return line, "err " + en
	}
	if had > 0 {
		e.guarded("ImportKeystore", eff)
	}
	e.h.Res.OracleEvals++
	if old != f.priv {
		e.fail("C01", "wrong-pass-import", "import of file %d succeeded with passphrase #%d, it was exported under #%d", fno, old, f.priv)
	}
	e.priv = eff
	id := e.id(name)
	e.gen[id]++
	// C01: tampered files must be rejected; the four unauthenticated fields are known findings
	switch strings.SplitN(tam, ":", 2)[0] {
	case "auth", "notjson":
		e.fail("C01", "tamper-accepted-"+tam, "import accepted a file with a corrupted authenticated field")
	case "remark":
		if remark != f.remark {
			e.fail("C01", "tamper-remark", "import accepted a file whose remark was altered (%q -> %q)", f.remark, remark)
		}
	case "ext":
		if n, _ := strconv.Atoi(tam[4:]); uint32(n) != f.ext {
			e.fail("C01", "tamper-extnum", "import accepted a file whose hdPath.ExternalChildNum was altered (%d -> %d): extra or missing keys", f.ext, n)
		}
	case "int":
		if n, _ := strconv.Atoi(tam[4:]); uint32(n) != f.int_ {
			e.fail("C01", "tamper-intnum", "import accepted a file whose hdPath.InternalChildNum was altered (%d -> %d): extra or missing keys", f.int_, n)
		}
	case "account":
		e.fail("C01", "tamper-account", "import accepted a file whose hdPath.Account was altered: a different identity and key set (%d instead of %d)", id, f.id)
	case "none", "ignored":
		for t := range f.addrs { // the keys the keystore had when the file was written are the wallet's again
			if e.mustSign != nil && t.id == id {
				e.mustSign[t] = true
			}
		}
		if id != f.id || remark != f.remark {
			e.fail("C01", "restore-identity", "file %d exported from keystore %d (remark %q) restored as keystore %d (remark %q)", fno, f.id, f.remark, id, remark)
		}
		_, all := e.kmc.VerifDump()
		for _, k := range all {
			if e.id(k.Name) != id {
				continue
			}
			got := map[triple]string{}
			for _, a := range k.Addrs {
				got[triple{id, a.Branch, a.Index}] = a.Address
			}
			same := len(got) == len(f.addrs)
			for t, a := range f.addrs {
				if got[t] != a {
					same = false
				}
			}
			if !same || k.NextExternal != f.ext || k.NextInternal != f.int_ {
				e.fail("C01", "restore-keys", "file %d restored %d addresses / counters %d,%d; at export there were %d / %d,%d (or an address differs at some index)", fno, len(got), k.NextExternal, k.NextInternal, len(f.addrs), f.ext, f.int_)
			}
		}
	}
	return line, fmt.Sprintf("imported %d %s", id, rtok(remark))
}

func (e *env) opDelete(id, p int) (string, string) {
	line := fmt.Sprintf("delete %d %s", id, e.ptok(p))
	ok, err := e.kmc.DeleteKeystore(e.nameOf[id], []byte(e.passes[p]))
	if err != nil {
		return line, "err " + errName(err)
	}
	if !ok {
		return line, "err rejected"
	}
	e.guarded("DeleteKeystore", p)
	for t := range e.mustSign {
		if t.id == id {
			delete(e.mustSign, t)
		}
	}
	if len(e.ksIDs()) == 0 {
		e.priv = -1
	}
	return line, "ok"
}

func (e *env) opUnlock(p int) (string, string) {
	line := "unlock " + e.ptok(p)
	err := e.kmc.Unlock([]byte(e.passes[p]))
	if err != nil {
		// the passphrase every acknowledged operation left in force opens a locked wallet - in the running instance
		// just as after a restart (C02: same passphrase behaviour; C03: the current passphrase governs all keystores)
		e.h.Res.OracleEvals++
		if p == e.priv && !e.unlocked && len(e.ksIDs()) > 0 && !e.faulty {
			e.fail("C03", "current-passphrase-refused", "Unlock of the locked wallet with the current private passphrase #%d fails in the running instance: %v", p, err)
			e.fail("C02", "current-passphrase-refused", "Unlock of the locked wallet with the current private passphrase #%d fails in the running instance: %v", p, err)
		}
		return line, "err " + errName(err)
	}
	e.guarded("Unlock", p)
	e.unlocked = true
	return line, "ok"
}

func (e *env) returned(addrs []*keystore.ManagedAddress, plot bool) (id int, internal bool, first uint32, n int) {
	_, all := e.kmc.VerifDump()
	first = ^uint32(0)
	for _, ma := range addrs {
		for _, k := range all {
			if k.Name != ma.Account() {
				continue
			}
			for _, a := range k.Addrs {
				if a.Address == ma.String() {
					id = e.id(k.Name)
					internal = a.Branch == 1
					if e.mustSign != nil {
						e.mustSign[triple{id, a.Branch, a.Index}] = true
					}
					if a.Index < first {
						first = a.Index
					}
					n++
					if plot || a.Branch == 0 {
						pk := hex.EncodeToString(a.PubKey)
						e.h.Res.OracleEvals++
						e.noteIssued(pk, triple{id, a.Branch, a.Index})
					}
				}
			}
		}
	}
	return
}

// noteIssued: C06 — a key must never be returned twice.  When the owning keystore was deleted and re-created
// (import of a file, or NewKeystore from the same seed) in between, the counter travelled with the file / restarted:
// that is the recorded finding; anything else is a new violation.
func (e *env) noteIssued(pk string, t triple) {
	if e.issued[pk] {
		if e.issuedGen[pk] != e.gen[t.id] {
			e.fail("C06", "stale-import-rewinds-counter", "public key %s (keystore %d index %d) was returned before; the keystore was deleted and re-created in between (generation %d -> %d), which rewound its counter", pk[:16], t.id, t.idx, e.issuedGen[pk], e.gen[t.id])
		} else {
			e.fail("C06", "key-returned-twice", "public key %s (keystore %d index %d) was returned before (first as keystore %d index %d)", pk[:16], t.id, t.idx, e.issuedAt[pk].id, e.issuedAt[pk].idx)
		}
	}
	e.issued[pk] = true
	e.issuedAt[pk] = t
	e.issuedGen[pk] = e.gen[t.id]
}

func (e *env) opNext(id int, internal bool, n uint32) (string, string) {
	line := fmt.Sprintf("next %d %s %d", id, b01(internal), n)
	name := e.nameOf[id]
	addrs, err := e.kmc.NextAddresses(name, internal, n)
	if err != nil {
		return line, "err " + errName(err)
	}
	if len(addrs) == 0 {
		_, all := e.kmc.VerifDump()
		for _, k := range all {
			if k.Name == name {
				cur := k.NextExternal
				if internal {
					cur = k.NextInternal
				}
				return line, fmt.Sprintf("keys %d %s %d 0", id, b01(internal), cur)
			}
		}
	}
	rid, rint, first, cnt := e.returned(addrs, false)
	e.h.Res.OracleEvals++
	if cnt != int(n) || rid != id || rint != internal {
		e.fail("C06", "next-result", "NextAddresses(%d,%v,%d) returned %d addresses of keystore %d internal=%v", id, internal, n, cnt, rid, rint)
	}
	return line, fmt.Sprintf("keys %d %s %d %d", rid, b01(rint), first, cnt)
}

func (e *env) opGenPub() (string, string) {
	pk, ord, err := e.kmc.GenerateNewPublicKey()
	if err != nil {
		return "genpub -", "err " + errName(err)
	}
	// who owns it?
	_, all := e.kmc.VerifDump()
	want := pk.SerializeCompressed()
	for _, k := range all {
		for _, a := range k.Addrs {
			if bytes.Equal(a.PubKey, want) {
				id := e.id(k.Name)
				e.h.Res.OracleEvals++
				if a.Index != ord || a.Branch != 0 {
					e.fail("C06", "ordinal-not-index", "GenerateNewPublicKey returned ordinal %d for the key at external index %d (branch %d) of keystore %d", ord, a.Index, a.Branch, id)
				}
				e.noteIssued(hex.EncodeToString(want), triple{id, 0, a.Index})
				if e.mustSign != nil {
					e.mustSign[triple{id, 0, a.Index}] = true
				}
				return "genpub " + strconv.Itoa(id), fmt.Sprintf("keys %d 0 %d 1", id, ord)
			}
		}
	}
	e.fail("C06", "genpub-unowned", "GenerateNewPublicKey returned a key no keystore lists")
	return "genpub -", "err rejected"
}

func (e *env) opSign(t triple, dlen int) (string, string) {
	line := fmt.Sprintf("sign %d %d %d %d", t.id, t.branch, t.idx, dlen)
	pk := e.pubkey(t)
	if pk == nil {
		return "signforeign", e.signForeign()
	}
	digest := make([]byte, dlen)
	e.h.Rng.Read(digest)
	if e.sameDigest != nil && dlen == 32 {
		// the same digest for every key (whatever the wallet remembers about a request must name the key)
		copy(digest, e.sameDigest)
	}
	sig, err := e.kmc.SignHash(pk, digest)
	if err != nil {
		// C05: an issued key of a managed keystore must be able to sign whenever the wallet is unlocked
		e.h.Res.OracleEvals++
		if dlen == 32 && e.unlocked && !e.kmc.IsLocked() && e.mustSign[t] {
			e.fail("C05", "issued-key-cannot-sign", "wallet unlocked; key %d/%d of keystore %d was handed out (or restored from an untampered file) and the keystore is still managed, but SignHash fails: %v", t.branch, t.idx, t.id, err)
		}
		if dlen == 32 && e.unlocked && !e.kmc.IsLocked() {
			_, all := e.kmc.VerifDump()
			for _, k := range all {
				if e.id(k.Name) != t.id {
					continue
				}
				lim := k.NextExternal
				if t.branch == 1 {
					lim = k.NextInternal
				}
				if t.idx < lim {
					e.fail("C05", "issued-key-cannot-sign", "wallet unlocked, keystore %d has issued %d keys on branch %d, but SignHash for index %d fails: %v", t.id, lim, t.branch, t.idx, err)
				}
			}
		}
		return line, "err " + errName(err)
	}
	e.h.Res.OracleEvals++
	if !e.unlocked || e.kmc.IsLocked() {
		e.fail("C03", "signed-while-locked", "SignHash succeeded while the wallet is locked (IsLocked=%v)", e.kmc.IsLocked())
		e.fail("C05", "signed-while-locked", "SignHash succeeded while the wallet reports locked (IsLocked=%v)", e.kmc.IsLocked())
	}
	if !sig.Verify(digest, pk) {
		e.fail("C05", "signature-does-not-verify", "SignHash for keystore %d %d/%d returned a signature that does not verify under that public key", t.id, t.branch, t.idx)
	}
	// the message variant
	msg := []byte("message-" + strconv.Itoa(int(t.idx)))
	if e.sameDigest != nil {
		msg = []byte("one message for every key")
	}
	if sig2, err := e.kmc.SignMessage(pk, msg); err == nil {
		if !sig2.Verify(digestOf(msg), pk) {
			e.fail("C05", "message-signature-does-not-verify", "SignMessage for keystore %d %d/%d does not verify", t.id, t.branch, t.idx)
		}
	} else {
		e.fail("C05", "sign-message-failed", "SignHash succeeded but SignMessage failed: %v", err)
	}
	return line, "signed"
}

func (e *env) signForeign() string {
	priv, _ := pocec.NewPrivateKey(pocec.S256())
	_, err := e.kmc.SignHash(priv.PubKey(), make([]byte, 32))
	if err == nil {
		e.fail("C05", "signed-foreign-key", "SignHash succeeded for a key the wallet does not own")
		return "signed"
	}
	return "err " + errName(err)
}

func (e *env) opOrdinal(t triple) (string, string) {
	pk := e.pubkey(t)
	if pk == nil {
		priv, _ := pocec.NewPrivateKey(pocec.S256())
		_, ok := e.kmc.GetPublicKeyOrdinal(priv.PubKey())
		if ok {
			return "ordinalforeign", "ordinal ?"
		}
		return "ordinalforeign", "ordinal none"
	}
	line := fmt.Sprintf("ordinal %d %d %d", t.id, t.branch, t.idx)
	o, ok := e.kmc.GetPublicKeyOrdinal(pk)
	// C06: a later ordinal lookup for a plot key the wallet handed out (or restored from an untampered file) for a keystore
	// it still manages returns the key's index - in the running instance, not only after a restart
	if t.branch == 0 && e.mustSign[t] {
		e.h.Res.OracleEvals++
		if !ok || o != t.idx {
			e.fail("C06", "ordinal-lookup-wrong", "GetPublicKeyOrdinal for the external key %d of keystore %d returns (%d, found=%v)", t.idx, t.id, o, ok)
		}
	}
	if !ok {
		return line, "ordinal none"
	}
	return line, "ordinal " + strconv.Itoa(int(o))
}

func (e *env) opRestart(p int) (string, string) {
	line := "restart " + e.ptok(p)
	e.closeStore()
	s, err := db.OpenDB("leveldb", e.dir)
	if err != nil {
		panic(err)
	}
	e.store = s
	k, err := keystore.NewKeystoreManagerForPoC(e.wrapped(s), []byte(e.passes[p]), config.ChainParams)
	if err != nil {
		return line, "err " + errName(err)
	}
	e.kmc = k
	e.pub = p
	e.unlocked = false
	return line, "ok"
}

// digestOf: SignMessage signs wire.HashH(message) = SHA-256(message)
func digestOf(msg []byte) []byte {
	h1 := sha256.Sum256(msg)
	return h1[:]
}

// ---- generator ----
func (e *env) anyID() (int, bool) {
	ids := e.ksIDs()
	if len(ids) == 0 {
		return 0, false
	}
	return ids[e.h.Rng.Intn(len(ids))], true
}

func (e *env) somePass() int {
	r := e.h.Rng
	if e.priv >= 0 && r.Intn(10) < 6 {
		return e.priv
	}
	return r.Intn(len(e.passes))
}

func (e *env) someKey() triple {
	var ts []triple
	for t := range e.keyPub {
		ts = append(ts, t)
	}
	if len(ts) == 0 || e.h.Rng.Intn(12) == 0 {
		return triple{99, 0, 0} // foreign
	}
	sort.Slice(ts, func(i, j int) bool {
		if ts[i].id != ts[j].id {
			return ts[i].id < ts[j].id
		}
		if ts[i].branch != ts[j].branch {
			return ts[i].branch < ts[j].branch
		}
		return ts[i].idx < ts[j].idx
	})
	return ts[e.h.Rng.Intn(len(ts))]
}

func (e *env) do(line, out string) string {
	e.h.Emit(line, out)
	if !(strings.HasPrefix(line, "restart") && strings.HasPrefix(out, "err")) {
		e.h.Emit("dump", e.dump())
	}
	return out
}

func (e *env) step() {
	r := e.h.Rng
	// C03: a wrong passphrase opens nothing - also when the wallet is open already (a caller that authenticates itself by
	// Unlock must not be waved through).  A probe, not a model line: what Unlock with the RIGHT passphrase does on an
	// unlocked wallet is the documented quirk (DESIGN 4.A), a wrong one must be refused in any case.
	if e.unlocked && e.priv >= 0 && len(e.ksIDs()) > 0 && !e.faulty && r.Intn(6) == 0 {
		p := []int{1, 2, 3, 4, 0, 5, 8}[r.Intn(7)]
		if p != e.priv && e.passes[p] != "" {
			e.h.Res.OracleEvals++
			if err := e.kmc.Unlock([]byte(e.passes[p])); err == nil {
				e.fail("C03", "wrong-pass-accepted", "Unlock on the already unlocked wallet returned success for passphrase #%d while the current private passphrase is #%d", p, e.priv)
			}
		}
	}
	// C03 (ill-formed passphrases) / C02 (the running instance behaves as the reopened one): an EMPTY passphrase is refused
	// and refusing it changes nothing - the current passphrase still does what it did
	if e.unlocked && e.priv >= 0 && len(e.ksIDs()) > 0 && !e.faulty && r.Intn(8) == 0 {
		e.h.Res.OracleEvals++
		if err := e.kmc.Unlock([]byte{}); err == nil {
			e.fail("C03", "wrong-pass-accepted", "Unlock on the open wallet returned success for the empty passphrase")
		}
		ids := e.ksIDs()
		if _, err := e.kmc.ExportKeystore(e.nameOf[ids[0]], []byte(e.passes[e.priv])); err != nil {
			e.fail("C03", "current-passphrase-refused-after-empty-passphrase", "after Unlock with an empty passphrase was refused on the open wallet, ExportKeystore with the current private passphrase #%d fails: %v", e.priv, err)
			e.fail("C02", "current-passphrase-refused-after-empty-passphrase", "after Unlock with an empty passphrase was refused on the open wallet, ExportKeystore with the current private passphrase #%d fails in the running instance (a reopened one accepts it): %v", e.priv, err)
		}
	}
	id, has := e.anyID()
	x := r.Intn(100)
	switch {
	case !has && x < 60, x < 8:
		seed := "s" + strconv.Itoa(r.Intn(len(e.seeds)))
		if r.Intn(12) == 0 {
			seed = "bad"
		}
		if r.Intn(10) == 0 {
			e.freshID++
			seed = "s" + strconv.Itoa(e.freshID)
		}
		remark := []string{"", "main", "plot keys", "备注"}[r.Intn(4)]
		e.do(e.opNew(e.somePass(), seed, remark))
	case x < 16 && has:
		n := uint32(r.Intn(4))
		if r.Intn(10) == 0 {
			// a request beyond the per-account limit: refused, nothing issued (never 2^31-1, which is allowed on a fresh branch)
			n = []uint32{1 << 31, 1<<31 + 1, 1<<32 - 1, 1<<32 - 2}[r.Intn(4)]
		}
		e.do(e.opNext(id, r.Intn(2) == 0, n))
	case x < 30:
		e.do(e.opGenPub())
	case x < 38:
		if e.unlocked {
			if r.Intn(3) == 0 && e.priv >= 0 {
				// a second Unlock with a WRONG passphrase (with the right one the outcome depends on whether an
				// export/delete/create zeroed the shared master key since: not modelled, see DESIGN.md 4.A)
				p := r.Intn(len(e.passes))
				if p != e.priv {
					e.do(e.opUnlock(p))
					break
				}
			}
			e.do("lock", e.lock())
		} else {
			e.do(e.opUnlock(e.somePass()))
		}
	case x < 46 && has:
		e.do(e.opExport(id, e.somePass()))
	case x < 52 && has:
		e.do(e.opDelete(id, e.somePass()))
	case x < 62 && len(e.files) > 0:
		fno := r.Intn(len(e.files))
		old := e.files[fno].priv
		if r.Intn(6) == 0 {
			old = r.Intn(len(e.passes))
		}
		new_ := -1
		if r.Intn(3) == 0 {
			new_ = e.somePass()
		}
		tam := "none"
		if e.focus == "C01" || r.Intn(4) == 0 {
			f := e.files[fno]
			tam = []string{"none", "ignored", "auth", "notjson", "remark:" + hex.EncodeToString([]byte("tampered")), "ext:" + strconv.Itoa(int(f.ext)+1+r.Intn(2)),
				"int:" + strconv.Itoa(int(f.int_)+1), "ext:" + strconv.Itoa(int(f.ext)/2), "account:0", "none", "auth"}[r.Intn(11)]
			if tam == "ext:"+strconv.Itoa(int(f.ext)) {
				tam = "none"
			}
		}
		if strings.HasPrefix(tam, "account") {
			e.freshID++
		}
		e.do(e.opImport(fno, old, new_, tam))
	case x < 70:
		e.do(e.opSign(e.someKey(), []int{32, 32, 32, 31, 0, 64}[r.Intn(6)]))
	case x < 76:
		e.do(e.opOrdinal(e.someKey()))
	case x < 80 && has:
		rm := []string{"", "renamed", "x"}[r.Intn(3)]
		line := fmt.Sprintf("remark %d %s", id, rtok(rm))
		err := e.kmc.ChangeRemark(e.nameOf[id], rm)
		if err != nil {
			e.do(line, "err "+errName(err))
		} else {
			e.do(line, "ok")
		}
	case x < 86:
		old, nw := e.somePass(), r.Intn(len(e.passes))
		line := fmt.Sprintf("chpriv %s %s", e.ptok(old), e.ptok(nw))
		err := e.kmc.ChangePrivPassphrase([]byte(e.passes[old]), []byte(e.passes[nw]), fast)
		if err != nil {
			e.do(line, "err "+errName(err))
		} else {
			if has {
				e.guarded("ChangePrivPassphrase", old)
				e.priv = nw
			}
			e.do(line, "ok")
		}
	case x < 90:
		old := e.pub
		if r.Intn(5) == 0 {
			old = r.Intn(len(e.passes))
		}
		nw := r.Intn(len(e.passes))
		line := fmt.Sprintf("chpub %s %s", e.ptok(old), e.ptok(nw))
		err := e.kmc.ChangePubPassphrase([]byte(e.passes[old]), []byte(e.passes[nw]), fast)
		if err != nil {
			e.do(line, "err "+errName(err))
		} else {
			e.pub = nw
			e.do(line, "ok")
		}
	default:
		e.restart()
	}
}

func (e *env) lock() string {
	e.kmc.Lock()
	e.unlocked = false
	return "ok"
}

// restart: C02 — the reopened instance must present what the running one had (locked).
func (e *env) restart() {
	before := lockAll(e.dump())
	p := e.pub
	wrong := e.h.Rng.Intn(5) == 0
	if wrong {
		p = e.h.Rng.Intn(len(e.passes))
	}
	line, out := e.opRestart(p)
	e.h.Emit(line, out)
	if strings.HasPrefix(out, "err") {
		// wrong public passphrase (or ill-formed): must not alter the store; reopen with the right one
		e.h.Res.OracleEvals++
		if p == e.pub {
			e.fail("C02", "reopen-failed", "reopening with the current public passphrase failed: %s", out)
		}
		line, out = e.opRestart(e.pub)
		e.h.Emit(line, out)
		if strings.HasPrefix(out, "err") {
			e.fail("C02", "reopen-failed", "reopening with the current public passphrase failed after a failed open: %s", out)
			e.freshWallet(e.pub)
			return
		}
	} else if p != e.pub && len(e.ksIDs()) > 0 {
		e.fail("C02", "wrong-pub-pass-opens", "the store opened with public passphrase #%d, the current one is #%d", p, e.pub)
	}
	after := e.dump()
	e.h.Emit("dump", after)
	e.h.Res.OracleEvals++
	if after != before {
		e.fail("C02", "restart-differs", "reopened wallet presents %q, the running instance (locked) had %q", after, before)
	}
}

func lockAll(d string) string {
	d = strings.Replace(d, "U=1", "U=0", 1)
	d = strings.ReplaceAll(d, "ul=1", "ul=0")
	d = strings.ReplaceAll(d, "mu=x", "mu=0")
	d = strings.ReplaceAll(d, "mu=1", "mu=0")
	return d
}

// closing audit of a sequence: ordinals of every issued key, unlock + sign with every key ever seen.
func (e *env) audit() {
	var ts []triple
	for t := range e.keyPub {
		ts = append(ts, t)
	}
	sort.Slice(ts, func(i, j int) bool {
		if ts[i].id != ts[j].id {
			return ts[i].id < ts[j].id
		}
		if ts[i].branch != ts[j].branch {
			return ts[i].branch < ts[j].branch
		}
		return ts[i].idx < ts[j].idx
	})
	if !e.unlocked && e.priv >= 0 {
		e.do(e.opUnlock(e.priv))
	}
	e.sameDigest = make([]byte, 32)
	e.h.Rng.Read(e.sameDigest)
	for _, t := range ts {
		e.h.Emit(e.opOrdinal(t))
		e.h.Emit(e.opSign(t, 32))
	}
	e.sameDigest = nil
}

// scenarioMany: keystores with many keys on both branches, issued while the wallet is LOCKED (public derivation),
// then a restart, an unlock and the closing audit, which signs with every key and verifies each signature.
// Hundreds of keys matter for two reasons: about one derived private scalar in 256 has a leading zero byte (the
// keys keep their minimal length), and the 8-byte record keys of the public-key bucket take every byte value
// (index 95 = '_', the bucket path separator).
func (e *env) scenarioMany(nks int, per uint32) {
	p := e.priv
	if p < 0 {
		p = 1
	}
	if e.unlocked {
		e.do("lock", e.lock())
	}
	for k := 0; k < nks; k++ {
		e.freshID++
		id := e.freshID
		_, out := e.opNew(p, "s"+strconv.Itoa(id), "many")
		e.do(fmt.Sprintf("new %s s%d %s", e.ptok(p), id, rtok("many")), out)
		if !strings.HasPrefix(out, "created") {
			return
		}
		if e.unlocked {
			e.do("lock", e.lock())
		}
		e.do(e.opNext(id, false, per))
		e.do(e.opNext(id, true, per))
	}
	e.h.Emit("dump", e.dump())
	e.restart()
	e.h.Emit("dump", e.dump())
}

// scenarioBranches: keystores with keys on one branch only / unequal counts, issued locked and unlocked,
// exported, deleted, imported, unlocked — the closing audit then signs with every key.
func (e *env) scenarioBranches() {
	r := e.h.Rng
	p := e.priv
	if p < 0 {
		p = 1
	}
	if e.unlocked && r.Intn(2) == 0 {
		e.do("lock", e.lock())
	}
	e.freshID++
	id := e.freshID
	_, out := e.opNew(p, "s"+strconv.Itoa(id), "branches")
	e.do(fmt.Sprintf("new %s s%d %s", e.ptok(p), id, rtok("branches")), out)
	if !strings.HasPrefix(out, "created") {
		return
	}
	switch r.Intn(3) {
	case 0: // internal only
		e.do(e.opNext(id, true, uint32(1+r.Intn(3))))
	case 1: // external only
		e.do(e.opNext(id, false, uint32(1+r.Intn(3))))
	default: // unequal
		e.do(e.opNext(id, false, uint32(2+r.Intn(2))))
		e.do(e.opNext(id, true, 1))
	}
	e.h.Emit("dump", e.dump())
	l, o := e.opExport(id, p)
	e.do(l, o)
	if !strings.HasPrefix(o, "file") {
		return
	}
	fno := len(e.files) - 1
	e.do(e.opDelete(id, p))
	e.do(e.opImport(fno, p, -1, "none"))
	if r.Intn(2) == 0 {
		e.restart()
	}
}

// scenarioBoundaryPass (C03): the private passphrase has the maximal length; passphrases that extend it, or that it
// extends, are other passphrases - locked and unlocked, for every guarded operation.
func (e *env) scenarioBoundaryPass() {
	if e.priv >= 0 || len(e.ksIDs()) > 0 {
		return
	}
	e.freshID++
	id := e.freshID
	_, out := e.opNew(8, "s"+strconv.Itoa(id), "maxlen")
	e.do(fmt.Sprintf("new %s s%d %s", e.ptok(8), id, rtok("maxlen")), out)
	if !strings.HasPrefix(out, "created") {
		return
	}
	e.do(e.opNext(id, false, 1))
	for _, unlocked := range []bool{false, true} {
		if unlocked {
			e.do(e.opUnlock(8))
		}
		for _, p := range []int{9, 10, 7} {
			e.do(e.opExport(id, p))
			e.do(e.opDelete(id, p))
			old, nw := p, 2
			err := e.kmc.ChangePrivPassphrase([]byte(e.passes[old]), []byte(e.passes[nw]), fast)
			line := fmt.Sprintf("chpriv %s %s", e.ptok(old), e.ptok(nw))
			if err == nil {
				e.guarded("ChangePrivPassphrase", old)
				e.priv = nw
				e.do(line, "ok")
				return
			}
			e.do(line, "err "+errName(err))
		}
		if !unlocked {
			e.do(e.opUnlock(9))
			e.do(e.opUnlock(10))
		}
	}
	e.do("lock", e.lock())
}

// scenarioC01: export every keystore, delete it, and import the file back under every kind of alteration
// (into the same wallet); finally import all files into a fresh wallet ("any other wallet").
func (e *env) scenarioC01() {
	if e.priv < 0 {
		return
	}
	r := e.h.Rng
	cur := e.priv
	for _, id := range e.ksIDs() {
		// every key is looked up once before the export (whatever the wallet remembers about a key must not outlive the keystore)
		for t := range e.keyPub {
			if t.id == id {
				if pk := e.pubkey(t); pk != nil {
					e.kmc.GetAddressByPubKey(pk)
					e.kmc.GetPublicKeyOrdinal(pk)
				}
			}
		}
		_, out := e.opExport(id, cur)
		e.do(fmt.Sprintf("export %d %s", id, e.ptok(cur)), out)
		if !strings.HasPrefix(out, "file") {
			continue
		}
		fno := len(e.files) - 1
		f := e.files[fno]
		if _, o := e.opDelete(id, cur); o == "ok" {
			e.do(fmt.Sprintf("delete %d %s", id, e.ptok(cur)), o)
		} else {
			e.do(fmt.Sprintf("delete %d %s", id, e.ptok(cur)), o)
			continue
		}
		tams := []string{"auth", "notjson", "auth", "remark:" + hex.EncodeToString([]byte("tampered")), "ext:" + strconv.Itoa(int(f.ext)+1),
			"int:" + strconv.Itoa(int(f.int_)+2), "account:0", "ignored", "none"}
		if f.ext > 0 {
			tams = append(tams, "ext:"+strconv.Itoa(int(f.ext)-1))
		}
		// wrong passphrase first
		wrong := (f.priv + 1) % 5
		e.do(e.opImport(fno, wrong, -1, "none"))
		for _, t := range tams[r.Intn(3):] {
			if strings.HasPrefix(t, "account") {
				e.freshID++
			}
			line, out := e.opImport(fno, f.priv, -1, t)
			e.do(line, out)
			if strings.HasPrefix(out, "imported") {
				// remove what was restored (possibly under another identity) and go on with the next alteration
				parts := strings.Fields(out)
				rid, _ := strconv.Atoi(parts[1])
				l2, o2 := e.opDelete(rid, cur)
				e.do(l2, o2)
			}
		}
		l1, o1 := e.opImport(fno, f.priv, -1, "none")
		e.do(l1, o1)
		e.do(e.opImport(fno, f.priv, -1, "none")) // already present
		if strings.HasPrefix(o1, "imported") && r.Intn(2) == 0 {
			// "after unlocking every one of those keys can sign"
			if !e.unlocked {
				e.do(e.opUnlock(cur))
			}
			var ts []triple
			for t := range f.addrs { // the keys the keystore had when it was exported
				if _, known := e.keyPub[t]; known {
					ts = append(ts, t)
				}
			}
			sort.Slice(ts, func(i, j int) bool { return ts[i].branch*1000000+ts[i].idx < ts[j].branch*1000000+ts[j].idx })
			for _, t := range ts {
				l, o := e.opSign(t, 32)
				e.h.Emit(l, o)
				if e.unlocked && strings.HasPrefix(o, "err") {
					e.fail("C01", "restored-key-cannot-sign", "keystore %d was exported, deleted and imported again; after Unlock signing for its key %d/%d fails (%s)", id, t.branch, t.idx, o)
				}
			}
		}
	}
	if r.Intn(2) == 0 && len(e.files) > 0 {
		// any other wallet
		pub := 0
		e.freshWallet(pub)
		e.h.Emit("fresh "+e.ptok(pub), "ok")
		for fno, f := range e.files {
			if r.Intn(2) == 0 {
				e.do(e.opImport(fno, f.priv, -1, "none"))
			}
		}
		// second generation: a file exported from an IMPORTED keystore restores the same keystore again
		if e.priv >= 0 {
			for _, id := range e.ksIDs() {
				_, out := e.opExport(id, e.priv)
				e.do(fmt.Sprintf("export %d %s", id, e.ptok(e.priv)), out)
				if !strings.HasPrefix(out, "file") {
					continue
				}
				fno := len(e.files) - 1
				l2, o2 := e.opDelete(id, e.priv)
				e.do(l2, o2)
				if o2 == "ok" {
					e.do(e.opImport(fno, e.files[fno].priv, -1, "none"))
				}
			}
		}
	}
}

func main() {
	focus := flag.String("focus", "", "property id the generator is biased to")
	h := hx.New("wallet")
	keystore.DefaultScryptOptions = *fast
	root, err := os.MkdirTemp("", "verif-wallet-")
	if err != nil {
		panic(err)
	}
	defer os.RemoveAll(root)
	e := &env{h: h, focus: *focus, root: root}
	// #8 is a passphrase of the maximal length (40), #9 extends it by one character (too long: ill-formed), #10 is its 6-character prefix
	e.passes = []string{"pubpass00", "privpassA1", "privpassB2", "other#pass3", "Abc@123456", "short", "bad pass!", "waytoolongpassphrase0123456789012345678901234567890",
		"maxlen40passphrase@0123456789abcdefghijk", "maxlen40passphrase@0123456789abcdefghijkZ", "maxlen"}
	e.wf = []bool{true, true, true, true, true, false, false, false, true, false, true}
	if len(e.passes[8]) != 40 {
		panic("pool passphrase #8 must have 40 characters")
	}
	for i := 0; i < 4; i++ {
		e.seeds = append(e.seeds, sha256sum("pool-seed-"+strconv.Itoa(i)))
	}
	// a fifth seed whose BIP32 master secret has a leading zero byte (about one seed in 256): fixed-width handling of the root key
	for j := 0; j < 100000; j++ {
		sd := sha256sum("short-master-seed-" + strconv.Itoa(j))
		if k, err := hdkeychain.NewMaster(sd, config.ChainParams); err == nil {
			if pk, err := k.ECPrivKey(); err == nil && len(pk.D.Bytes()) < 32 {
				e.seeds = append(e.seeds, sd)
				break
			}
		}
	}
	if *focus == "C04" {
		runSecrecy(e)
		e.closeStore()
		h.Finish("wallet histories behind a recording db.DB: every stored value and export field is opened with keys derived from the passphrases and classified (model table); byte scan of store files, exports and log output for every secret after every operation; distinct = distinct (line, class) pairs")
		return
	}
	if *focus == "C03F" { // the fault enumeration restricted to passphrase changes, judged by the C03 oracles
		e.focus = "C03"
	}
	if *focus == "C05F" { // the fault enumeration restricted to key issuance, judged by the C05 oracle
		e.focus = "C05"
	}
	if *focus == "C02F" { // the fault enumeration over public-passphrase changes, judged by C02
		e.focus = "C02"
	}
	if *focus == "C06F" { // the fault enumeration restricted to plot-key issuance on one keystore, judged by the C06 oracle
		e.focus = "C06"
	}
	if *focus == "C12" || *focus == "C03F" || *focus == "C05F" || *focus == "C06F" || *focus == "C02F" {
		e.idOf, e.nameOf = map[string]int{}, map[int]string{}
		e.c = &ctl{}
		runFaults(e)
		e.closeStore()
		h.Finish("fault enumeration: for every operation of short histories, every bucket write and the commit are cut in turn (failed write, crash at write, failed commit, crash after commit); each experiment on a replica rebuilt by replay; distinct = distinct (fault line, outcome) pairs")
		return
	}
	for s := 0; s < h.N; s++ {
		e.idOf, e.nameOf = map[string]int{}, map[int]string{}
		e.keyAddr, e.keyPub = map[triple]string{}, map[triple][]byte{}
		e.issued, e.issuedAt = map[string]bool{}, map[string]triple{}
		e.issuedGen, e.gen = map[string]int{}, map[int]int{}
		e.acctVariant = map[int]int{}
		e.mustSign = map[triple]bool{}
		e.files = nil
		e.freshID = 100 + 50*s
		pub := []int{0, 0, 3}[h.Rng.Intn(3)]
		e.freshWallet(pub)
		h.Emit("reset "+e.ptok(pub), "ok")
		if (e.focus == "C03" && s%4 == 1) || (e.focus != "C03" && h.Rng.Intn(10) == 0) {
			e.scenarioBoundaryPass()
		}
		n := 6 + h.Rng.Intn(h.Len)
		for i := 0; i < n; i++ {
			e.step()
		}
		if e.focus == "C01" || e.focus == "C05" || h.Rng.Intn(6) == 0 {
			e.scenarioBranches()
		}
		if e.focus == "C01" || h.Rng.Intn(6) == 0 {
			e.scenarioC01()
		}
		if s == 0 && (e.focus == "C02" || e.focus == "C05") {
			e.scenarioMany(3, 200)
		}
		e.audit()
		if s < 2 {
			h.Sample(strings.Join(h.Cur(), " ; "))
		}
	}
	e.closeStore()
	h.Finish("random wallet histories (create/import/export/delete, address and plot-key issuance on both branches, lock/unlock, remark and passphrase changes, restarts with right and wrong public passphrase, tampered files), 1-4 keystores, fast scrypt; distinct = distinct (op line, output) pairs")
}
