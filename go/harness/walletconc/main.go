// Harness C14: 2-4 goroutines issue random mixes of wallet operations against one keystore manager,
// built with -race.  Supporting (not proof): data races and fatal runtime errors kill the process (the
// check turns that into a violation); invariant oracles on the recorded results; reopen comparison.
package main

import (
	"crypto/sha256"
	"fmt"
	"os"
	"sort"
	"strconv"
	"sync"
	"time"

	"github.com/massnetorg/mass-core/pocec"
	"massnet.org/mass/config"
	"massnet.org/mass/poc/wallet/db"
	_ "massnet.org/mass/poc/wallet/db/ldb"
	"massnet.org/mass/poc/wallet/keystore"
	"verifharness/hx"
)

var fast = &keystore.ScryptOptions{N: 16, R: 8, P: 1}

type issue struct {
	ks  string
	ord uint32
	pk  string
}

func main() {
	h := hx.New("walletconc")
	keystore.DefaultScryptOptions = *fast
	root, _ := os.MkdirTemp("", "verif-conc-")
	defer os.RemoveAll(root)
	h.Emit("reset", "ok")
	for round := 0; round < h.N; round++ {
		dir := root + "/w" + strconv.Itoa(round)
		store, err := db.CreateDB("leveldb", dir)
		if err != nil {
			panic(err)
		}
		kmc, err := keystore.NewKeystoreManagerForPoC(store, []byte("pubpass00"), config.ChainParams)
		if err != nil {
			panic(err)
		}
		priv := []byte("privpassA1")
		nks := 1 + h.Rng.Intn(2)
		var names []string
		for i := 0; i < nks; i++ {
			seed := sha256.Sum256([]byte(fmt.Sprintf("conc-seed-%d-%d", round, i)))
			n, err := kmc.NewKeystore(priv, seed[:], "r", config.ChainParams, fast)
			if err != nil {
				panic(err)
			}
			names = append(names, n)
		}
		if h.Rng.Intn(2) == 0 {
			kmc.Unlock(priv)
		}
		workers := 2 + h.Rng.Intn(3)
		var mu sync.Mutex
		var issued []issue
		var wg sync.WaitGroup
		perWorker := 6 + h.Rng.Intn(h.Len)
		seeds := make([]int64, workers)
		for w := range seeds {
			seeds[w] = h.Rng.Int63()
		}
		for w := 0; w < workers; w++ {
			wg.Add(1)
			go func(w int) {
				defer wg.Done()
				r := newRng(seeds[w])
				var lastKey *pocec.PublicKey
				for i := 0; i < perWorker; i++ {
					switch x := r.Intn(100); {
					case x < 30:
						pk, ord, err := kmc.GenerateNewPublicKey()
						if err == nil {
							lastKey = pk
							a, _ := kmc.GetAddressByPubKey(pk)
							_ = a
							mu.Lock()
							issued = append(issued, issue{ord: ord, pk: fmt.Sprintf("%x", pk.SerializeCompressed())})
							mu.Unlock()
						}
					case x < 42:
						kmc.NextAddresses(names[r.Intn(len(names))], r.Intn(2) == 0, uint32(1+r.Intn(2)))
					case x < 45:
						// a digest of the wrong length is refused - and refused cleanly: everything else goes on
						if lastKey != nil {
							d := sha256.Sum256([]byte{byte(i)})
							if _, err := kmc.SignHash(lastKey, d[:r.Intn(32)]); err == nil {
								mu.Lock()
								h.FailWith("C05:signed-short-digest", "SignHash accepted a digest shorter than 32 bytes", nil)
								mu.Unlock()
							}
						}
					case x < 55:
						if lastKey != nil {
							d := sha256.Sum256([]byte{byte(i)})
							sig, err := kmc.SignHash(lastKey, d[:])
							if err == nil && !sig.Verify(d[:], lastKey) {
								mu.Lock()
								h.FailWith("C14:bad-signature-under-concurrency", "a signature produced under concurrent load does not verify", nil)
								h.FailWith("C05:signature-does-not-verify-concurrent", "SignHash returned, without error, a signature that does not verify under the requested key while other goroutines locked/unlocked the wallet", nil)
								mu.Unlock()
							}
						}
					case x < 65:
						if lastKey != nil {
							kmc.GetPublicKeyOrdinal(lastKey)
						}
					case x < 72:
						kmc.ListKeystoreNames()
						for _, am := range kmc.GetManagedAddrManager() {
							am.ListAddresses()
							am.CountAddresses()
						}
					case x < 78:
						kmc.ChangeRemark(names[r.Intn(len(names))], "r"+strconv.Itoa(i))
					case x < 84:
						kmc.ExportKeystore(names[r.Intn(len(names))], priv)
					case x < 90:
						kmc.Lock()
					case x < 96:
						kmc.Unlock(priv)
					default:
						kmc.IsLocked()
					}
				}
			}(w)
		}
		{
			done := make(chan struct{})
			go func() { wg.Wait(); close(done) }()
			select {
			case <-done:
			case <-time.After(240 * time.Second):
				h.FailWith("C14:operation-never-returns", fmt.Sprintf("round %d: %d goroutines x %d wallet operations (issue, addresses, sign incl. wrong-length digests, lookup, list, remark, export, lock, unlock) did not all return within 240 s: a wallet call blocks for good", round, workers, perWorker), nil)
				h.Finish("concurrent rounds under the race detector; aborted: a wallet call never returned")
				os.Exit(0)
			}
		}
		// quiescent: in every serial order that ends with the wallet locked no private key is left in memory
		// (keys issued before the last Lock were wiped by it, keys issued after it never had one)
		lockedHoldsNothing := func(when string) {
			h.Res.OracleEvals++
			if !kmc.IsLocked() {
				return
			}
			_, ks := kmc.VerifDump()
			for _, k := range ks {
				np := 0
				for _, a := range k.Addrs {
					if a.HasPriv {
						np++
					}
				}
				if k.Unlocked || k.AcctPriv || np > 0 {
					msg := fmt.Sprintf("%s the wallet reports locked, yet keystore %s holds private material (unlocked=%v account key=%v, %d address private keys)", when, k.Name, k.Unlocked, k.AcctPriv, np)
					h.FailWith("C14:locked-wallet-holds-private-key", msg, nil)
					h.FailWith("C03:locked-holds-key-concurrent", msg, nil)
				}
			}
		}
		lockedHoldsNothing("after the concurrent storm")
		// quiescent: the queries agree with one another - what one call lists, another counts and a third finds
		listingsAgree := func(when string) {
			h.Res.OracleEvals++
			_, ks := kmc.VerifDump()
			byName := map[string]int{}
			for _, k := range ks {
				byName[k.Name] = len(k.Addrs)
			}
			for _, am := range kmc.GetManagedAddrManager() {
				ext, in := am.CountAddresses()
				nl, nm := len(am.ListAddresses()), len(am.ManagedAddresses())
				if nl != ext+in || nm != ext+in || byName[am.Name()] != ext+in {
					h.FailWith("C14:queries-disagree-after-concurrent-use", fmt.Sprintf("%s keystore %s: ListAddresses shows %d, ManagedAddresses %d, CountAddresses %d+%d, the address table %d", when, am.Name(), nl, nm, ext, in, byName[am.Name()]), nil)
				}
			}
		}
		listingsAgree("after the concurrent storm")
		// key issuance against one Lock(): whichever way they interleave, a locked wallet holds no private key afterwards
		for rep := 0; rep < 12; rep++ {
			kmc.Unlock(priv)
			var iw sync.WaitGroup
			delay := time.Duration(h.Rng.Intn(3000)) * time.Microsecond
			for g := 0; g < 3; g++ {
				iw.Add(1)
				go func(g int) {
					defer iw.Done()
					for i := 0; i < 2; i++ {
						if g == 0 {
							kmc.NextAddresses(names[0], i == 0, 1)
						} else if pk, ord, err := kmc.GenerateNewPublicKey(); err == nil {
							mu.Lock()
							issued = append(issued, issue{ord: ord, pk: fmt.Sprintf("%x", pk.SerializeCompressed())})
							mu.Unlock()
						}
					}
				}(g)
			}
			iw.Add(1)
			go func() { defer iw.Done(); time.Sleep(delay); kmc.Lock() }()
			iw.Add(1)
			go func() {
				defer iw.Done()
				for i := 0; i < 40; i++ {
					for _, am := range kmc.GetManagedAddrManager() {
						am.ListAddresses()
						am.ManagedAddresses()
					}
					time.Sleep(100 * time.Microsecond)
				}
			}()
			iw.Wait()
			lockedHoldsNothing("after key requests concurrent with one Lock()")
			listingsAgree("after key requests concurrent with listings")
		}
		// signers against a goroutine that locks and unlocks the wallet: every signature that comes back without an
		// error must verify under the requested key (C05), whatever the interleaving
		if pk, _, err := kmc.GenerateNewPublicKey(); err == nil {
			kmc.Unlock(priv)
			stop := make(chan struct{})
			var sw sync.WaitGroup
			for g := 0; g < 3; g++ {
				sw.Add(1)
				go func(g int) {
					defer sw.Done()
					for i := 0; ; i++ {
						select {
						case <-stop:
							return
						default:
						}
						d := sha256.Sum256([]byte{byte(g), byte(i), byte(i >> 8)})
						sig, err := kmc.SignHash(pk, d[:])
						if err == nil && !sig.Verify(d[:], pk) {
							mu.Lock()
							h.FailWith("C05:signature-does-not-verify-concurrent", "SignHash returned, without error, a signature that does not verify under the requested key while another goroutine locked/unlocked the wallet", nil)
							h.FailWith("C14:bad-signature-under-concurrency", "a signature produced under concurrent lock/unlock does not verify", nil)
							mu.Unlock()
							return
						}
					}
				}(g)
			}
			for i := 0; i < 60; i++ {
				kmc.Lock()
				kmc.Unlock(priv)
			}
			close(stop)
			sw.Wait()
		}
		// C03: a keystore created while the private passphrase is being changed ends up, like every other keystore,
		// under the one passphrase in force afterwards (no keystore answers to the superseded passphrase)
		{
			alt := []byte("privpassB2")
			cur, other := priv, alt
			for rep := 0; rep < 6; rep++ {
				var pw sync.WaitGroup
				var errCh error
				seed := sha256.Sum256([]byte(fmt.Sprintf("conc-late-seed-%d-%d", round, rep)))
				delay := time.Duration(h.Rng.Intn(400)) * time.Microsecond
				pw.Add(2)
				go func() { defer pw.Done(); kmc.NewKeystore(cur, seed[:], "late", config.ChainParams, fast) }()
				go func() { defer pw.Done(); time.Sleep(delay); errCh = kmc.ChangePrivPassphrase(cur, other, fast) }()
				pw.Wait()
				if errCh == nil {
					cur, other = other, cur
				}
				h.Res.OracleEvals++
				for _, n := range kmc.ListKeystoreNames() {
					_, errCur := kmc.ExportKeystore(n, cur)
					_, errOld := kmc.ExportKeystore(n, other)
					if errCur != nil || errOld == nil {
						h.FailWith("C03:two-passphrases-concurrent", fmt.Sprintf("after a keystore creation concurrent with a passphrase change, keystore %s: export with the passphrase in force -> %v, with the superseded one -> %v", n, errCur, errOld), nil)
					}
				}
			}
			if string(cur) != string(priv) {
				kmc.ChangePrivPassphrase(cur, priv, fast)
			}
		}
		// oracles: ordinals unique per key, keys unique, reopened state equals the running one
		h.Res.OracleEvals++
		seen := map[string]bool{}
		for _, is := range issued {
			if seen[is.pk] {
				h.FailWith("C14:duplicate-plot-key", "the same plot public key was returned to two concurrent callers", nil)
				h.FailWith("C06:duplicate-key-concurrent", "the same plot public key was returned to two concurrent GenerateNewPublicKey callers", nil)
			}
			seen[is.pk] = true
		}
		_, live := kmc.VerifDump()
		// C06: the ordinal handed out with a key is that key's index on the external branch of the keystore that owns it,
		// and a later lookup says the same
		where := map[string]uint32{}
		for _, k := range live {
			for _, a := range k.Addrs {
				if a.Branch == 0 {
					where[fmt.Sprintf("%x", a.PubKey)] = a.Index
				}
			}
		}
		for _, is := range issued {
			h.Res.OracleEvals++
			if idx, ok := where[is.pk]; !ok || idx != is.ord {
				h.FailWith("C06:ordinal-not-index-concurrent", fmt.Sprintf("a concurrent GenerateNewPublicKey returned ordinal %d for a key whose index in its keystore is %d (recorded=%v)", is.ord, idx, ok), nil)
			}
		}
		for _, k := range live {
			var ne, ni uint32
			for _, a := range k.Addrs {
				if a.Branch == 0 {
					ne++
				} else {
					ni++
				}
			}
			if ne != k.NextExternal || ni != k.NextInternal {
				h.FailWith("C14:corrupt-wallet", fmt.Sprintf("after concurrent use keystore %s has %d/%d address records but counters %d/%d", k.Name, ne, ni, k.NextExternal, k.NextInternal), nil)
			}
		}
		kmc.Lock()
		_, before := kmc.VerifDump()
		store.Close()
		store2, err := db.OpenDB("leveldb", dir)
		if err != nil {
			panic(err)
		}
		k2, err := keystore.NewKeystoreManagerForPoC(store2, []byte("pubpass00"), config.ChainParams)
		if err != nil {
			h.FailWith("C14:reopen-failed", "the store does not open after concurrent use: "+err.Error(), nil)
		} else {
			_, after := k2.VerifDump()
			if sig(before) != sig(after) {
				h.FailWith("C14:reopen-differs", fmt.Sprintf("after concurrent use the reopened wallet differs: %s vs %s", sig(after), sig(before)), nil)
			}
		}
		store2.Close()
		os.RemoveAll(dir)
		h.Emit(fmt.Sprintf("round %d workers=%d ops=%d issued=%d", round, workers, workers*perWorker, len(issued)), "ok")
		h.Res.Sequences++
		if round < 2 {
			h.Sample(fmt.Sprintf("round %d: %d goroutines x %d random ops (issue, addresses, sign, lookup, list, remark, export, lock, unlock) on %d keystores", round, workers, perWorker, nks))
		}
	}
	h.Finish("concurrent rounds under the race detector; distinct = rounds")
	h.Res.Distinct = h.Res.Sequences
}

func sig(ks []keystore.VerifKeystore) string {
	var out []string
	for _, k := range ks {
		out = append(out, fmt.Sprintf("%s/%s/%d/%d/%d", k.Name, k.Remark, k.NextExternal, k.NextInternal, len(k.Addrs)))
	}
	sort.Strings(out)
	return fmt.Sprint(out)
}
