package main

import "math/rand"

func newRng(seed int64) *rand.Rand { return rand.New(rand.NewSource(seed)) }
