// Harness C15 (capacity configuration): the real v1 space keeper (NewSpaceKeeperV1 with the real massdb.v1
// backend — on Linux a fresh plot file pair is two sparse header-only files — and a scripted wallet) and the
// real API handlers ConfigureCapacity / ConfigureCapacityByDirs are driven through generated scenarios:
// directories seeded with plotted and unplotted spaces of mixed bit lengths, free-disk figures set through hook
// H6, configuration by total size, by per-directory sizes, by bit-length counts, through the keeper and through
// the API, repeated reconfiguration, and a restart (a new keeper over the same directories and wallet).
// Every operation line and the canonical outcome go to the Lean model of the configuration arithmetic; the
// harness's own oracles state C15 directly on what the keeper returned and on the directory listings.
package main

import (
	"crypto/sha256"
	"encoding/binary"
	"encoding/hex"
	"errors"
	"fmt"
	"math/big"
	"os"
	"path/filepath"
	"runtime"
	"sort"
	"strconv"
	"strings"
	"sync/atomic"

	"github.com/massnetorg/mass-core/massutil"
	"github.com/massnetorg/mass-core/pocec"
	"google.golang.org/grpc/status"
	"massnet.org/mass/api"
	"massnet.org/mass/config"
	"massnet.org/mass/mining"
	"massnet.org/mass/poc/engine"
	massdb_v1 "massnet.org/mass/poc/engine/massdb/massdb.v1"
	"massnet.org/mass/poc/engine/spacekeeper/capacity"
	"verifharness/hx"
)

const nDirs = 4

var sizes = map[int]uint64{24: 24 << 22, 26: 26 << 24, 28: 28 << 26, 30: 30 << 28}

// the bit lengths size-based configuration works with (`usableBitLength()`); spaces of other bit lengths are
// configured by bit-length counts only
var usable = map[int]bool{24: true, 26: true, 28: true}

var keyCache = map[int]*pocec.PrivateKey{}

func keyFor(i int) *pocec.PrivateKey {
	if k, ok := keyCache[i]; ok {
		return k
	}
	s := sha256.Sum256([]byte("cfg-key-" + strconv.Itoa(i)))
	priv, _ := pocec.PrivKeyFromBytes(pocec.S256(), s[:])
	keyCache[i] = priv
	return priv
}

// free bytes of a directory nobody set a figure for; generated figures stay below it (a request near the
// free figure creates that many spaces)
const defaultFree = uint64(1) << 36

// scripted wallet: one key counter; optionally fails from the k-th further key on, or parks a caller
type wallet struct {
	n      int
	failIn int           // > 0: the failIn-th call from now fails (and every later one)
	park   chan struct{} // non-nil: the next call announces itself on `parked` and waits here
	parked chan struct{}
	active int32 // calls in progress
	maxAct int32
}

func (w *wallet) GenerateNewPublicKey() (*pocec.PublicKey, uint32, error) {
	a := atomic.AddInt32(&w.active, 1)
	defer atomic.AddInt32(&w.active, -1)
	for {
		m := atomic.LoadInt32(&w.maxAct)
		if a <= m || atomic.CompareAndSwapInt32(&w.maxAct, m, a) {
			break
		}
	}
	if p := w.park; p != nil {
		w.park = nil
		w.parked <- struct{}{}
		<-p
	}
	if w.failIn > 0 {
		w.failIn--
		if w.failIn == 0 {
			w.failIn = 1
			return nil, 0, errors.New("scripted wallet failure")
		}
	}
	i := w.n
	w.n++
	return keyFor(i).PubKey(), uint32(i), nil
}
func (w *wallet) GetPublicKeyOrdinal(pk *pocec.PublicKey) (uint32, bool) {
	for i := 0; i < w.n; i++ {
		if keyFor(i).PubKey().IsEqual(pk) {
			return uint32(i), true
		}
	}
	return 0, false
}
func (w *wallet) SignMessage(pk *pocec.PublicKey, hash []byte) (*pocec.Signature, error) {
	return nil, errors.New("no")
}
func (w *wallet) Unlock(p []byte) error { return nil }
func (w *wallet) Lock()                 {}
func (w *wallet) IsLocked() bool        { return false }

type miner struct{ mining.MockedPoCMiner }

func (m *miner) SetPayoutAddresses(a []massutil.Address) error { return nil }

type space struct {
	ord, bl, dir int
	plotted      bool
}

func (s space) String() string { return fmt.Sprintf("%d:%d:%d", s.ord, s.bl, s.dir) }

type G struct {
	h      *hx.H
	root   string
	nseq   int
	dirs   [nDirs]string
	w      *wallet
	sk     *capacity.SpaceKeeper
	free   map[string]uint64
	payout string
	mined  map[int]bool // ordinals switched to mining by this keeper (a new keeper derives states afresh)
	kdirs  []int        // the keeper's dbDirs
	known  []int        // every directory a keeper of this sequence has been given (a restart is configured with all of them)
	// last successful request, for the restart oracle
	lastOp  string
	lastSel string
}

func show(l []space) string {
	sort.Slice(l, func(i, j int) bool {
		if l[i].ord != l[j].ord {
			return l[i].ord < l[j].ord
		}
		return l[i].bl < l[j].bl
	})
	if len(l) == 0 {
		return "-"
	}
	var ss []string
	for _, s := range l {
		ss = append(ss, s.String())
	}
	return strings.Join(ss, ",")
}

func (g *G) dirIndex(d string) int {
	for i, x := range g.dirs {
		if x == d {
			return i
		}
	}
	return -1
}

// listing: every file name per directory (the "no file created" oracle is literal), and the B files as spaces
func (g *G) listing() (names []string, files []space) {
	for di, d := range g.dirs {
		es, _ := os.ReadDir(d)
		for _, e := range es {
			names = append(names, fmt.Sprintf("%d/%s", di, e.Name()))
			n := e.Name()
			if !strings.HasSuffix(n, ".massdb") || strings.HasSuffix(n, "_a.massdb") {
				continue
			}
			parts := strings.Split(strings.TrimSuffix(n, ".massdb"), "_")
			if len(parts) != 3 {
				continue
			}
			ord, _ := strconv.Atoi(parts[0])
			bl, _ := strconv.Atoi(parts[2])
			files = append(files, space{ord: ord, bl: bl, dir: di})
		}
	}
	sort.Strings(names)
	return
}

func (g *G) ordOfSID(sid string) int {
	parts := strings.Split(sid, "-")
	for i := 0; i < g.w.n; i++ {
		if strings.EqualFold(parts[0], hex.EncodeToString(keyFor(i).PubKey().SerializeCompressed())) {
			return i
		}
	}
	return -1
}

func (g *G) keeperState() (index, using []space, cfgd bool) {
	if g.sk == nil {
		return nil, nil, false
	}
	st := g.sk.VerifState()
	for _, sp := range st.Spaces {
		if !sp.InAll {
			continue
		}
		parts := strings.Split(sp.SID, "-")
		bl, _ := strconv.Atoi(parts[1])
		s := space{ord: g.ordOfSID(sp.SID), bl: bl, dir: g.dirIndex(sp.RootDir), plotted: sp.Field == engine.Ready || sp.Field == engine.Mining}
		index = append(index, s)
		if sp.Using {
			using = append(using, s)
		}
	}
	// the spaces flagged as in use are exactly the spaces of the selection list (what the API lists, what proofs are read
	// from and what plot / mine / stop / remove act on all go by the flag; what the configuration returned is the list)
	g.h.Res.OracleEvals++
	inList := map[string]bool{}
	for _, sid := range st.List {
		inList[sid] = true
	}
	nUsing := 0
	for _, sp := range st.Spaces {
		if sp.InAll && sp.Using {
			nUsing++
			if !inList[sp.SID] {
				g.h.Fail("C15:in-use-but-not-selected", fmt.Sprintf("space %s is flagged as in use although the current selection (%d spaces) does not contain it", sp.SID, len(st.List)))
			}
		}
	}
	if nUsing != len(st.List) {
		g.h.Fail("C15:selection-and-use-flags-disagree", fmt.Sprintf("%d spaces are flagged as in use, the selection lists %d", nUsing, len(st.List)))
	}
	return index, using, g.sk.Configured()
}

func (g *G) stateStr() string {
	idx, using, cfgd := g.keeperState()
	_, files := g.listing()
	var is []string
	sort.Slice(idx, func(i, j int) bool { return idx[i].ord < idx[j].ord })
	for _, s := range idx {
		p := 0
		if s.plotted {
			p = 1
		}
		is = append(is, fmt.Sprintf("%s:%d", s, p))
	}
	ix := "-"
	if len(is) > 0 {
		ix = strings.Join(is, ",")
	}
	c := 0
	if cfgd {
		c = 1
	}
	return fmt.Sprintf("idx=%s using=%s cfg=%d files=%s next=%d", ix, show(using), c, show(files), g.w.n)
}

func errName(err error) string {
	if err == nil {
		return "ok"
	}
	if st, ok := status.FromError(err); ok && int(st.Code()) == api.ErrAPIMinerInvalidCapacity {
		return "apiInvalidCapacity"
	}
	m := err.Error()
	switch {
	case strings.Contains(m, capacity.ErrConfigUnderSizeTarget.Error()):
		return "underSize"
	case strings.Contains(m, capacity.ErrSpaceKeeperConfiguredNothing.Error()):
		return "configuredNothing"
	case strings.Contains(m, capacity.ErrWorkSpaceCannotGenerate.Error()):
		return "cannotGenerate"
	case strings.Contains(m, capacity.ErrOSDiskSizeNotEnough.Error()):
		return "diskNotEnough"
	case strings.Contains(m, capacity.ErrInvalidRequiredBytes.Error()):
		return "invalidRequired"
	case strings.Contains(m, capacity.ErrConfigInvalidPathSize.Error()):
		return "invalidPathSize"
	}
	return "other(" + strings.ReplaceAll(m, " ", "_") + ")"
}

func hdrPatchPlotted(path string, bl int) {
	f, err := os.OpenFile(path, os.O_RDWR, 0)
	if err != nil {
		panic(err)
	}
	defer f.Close()
	var b [8]byte
	binary.LittleEndian.PutUint64(b[:], uint64(1)<<uint(bl))
	if _, err := f.WriteAt(b[:], 42); err != nil {
		panic(err)
	}
}

func (g *G) know(ds []int) {
	for _, d := range ds {
		seen := false
		for _, k := range g.known {
			seen = seen || k == d
		}
		if !seen {
			g.known = append(g.known, d)
		}
	}
}

func (g *G) reset() {
	g.known = nil
	g.sk = nil
	runtime.GC()
	g.nseq++
	os.RemoveAll(g.root)
	for i := range g.dirs {
		g.dirs[i] = filepath.Join(g.root, fmt.Sprintf("s%d", g.nseq), fmt.Sprintf("d%d", i))
		os.MkdirAll(g.dirs[i], 0o755)
	}
	g.w = &wallet{}
	g.free = map[string]uint64{}
	g.lastOp, g.lastSel = "", ""
	g.h.Emit(fmt.Sprintf("reset %d", g.nseq), "ok")
}

func (g *G) opSeed(dir, bl int, plotted bool) {
	pk, ord, _ := g.w.GenerateNewPublicKey()
	db, err := massdb_v1.CreateDB(g.dirs[dir], int64(ord), pk, bl)
	if err != nil {
		panic(err)
	}
	db.Close()
	if plotted {
		name := fmt.Sprintf("%d_%s_%d", ord, hex.EncodeToString(pk.SerializeCompressed()), bl)
		hdrPatchPlotted(filepath.Join(g.dirs[dir], name+".massdb"), bl)
		os.Remove(filepath.Join(g.dirs[dir], name+"_a.massdb"))
	}
	p := 0
	if plotted {
		p = 1
	}
	g.h.Emit(fmt.Sprintf("seed %d %d %d", dir, bl, p), fmt.Sprintf("ok %d", ord))
}

func (g *G) opFree(dir int, v uint64) {
	g.free[g.dirs[dir]] = v
	g.lastOp, g.lastSel = "", "" // the restart oracle compares requests made under the same free figures
	g.h.Emit(fmt.Sprintf("free %d %d", dir, v), "ok")
}

func (g *G) opKeeper(ds []int) {
	g.sk = nil
	g.mined = map[int]bool{}
	runtime.GC()
	cfg := config.DefaultConfig()
	cfg.Miner.PrivatePassword = "" // no configuration at start-up
	var toks []string
	for _, d := range ds {
		cfg.Miner.ProofDir = append(cfg.Miner.ProofDir, g.dirs[d])
		toks = append(toks, strconv.Itoa(d))
	}
	ski, err := capacity.NewSpaceKeeperV1(cfg, g.w)
	op := "keeper " + strings.Join(toks, " ")
	if err != nil {
		g.h.Emit(op, "error "+strings.ReplaceAll(err.Error(), " ", "_"))
		return
	}
	g.sk = ski.(*capacity.SpaceKeeper)
	g.kdirs = append([]int(nil), ds...)
	g.know(ds)
	g.h.Emit(op, "ok "+g.stateStr())
}

type outcome struct {
	raw      error
	err      string
	sel      []space
	created  []space
	newNames []string
}

// run a configuration call and observe: returned infos, created files (listing difference)
func (g *G) observe(call func() ([]engine.WorkSpaceInfo, error)) outcome {
	namesBefore, filesBefore := g.listing()
	infos, err := call()
	namesAfter, filesAfter := g.listing()
	var o outcome
	o.err, o.raw = errName(err), err
	idx, _, _ := g.keeperState()
	dirOf := map[string]space{}
	for _, s := range idx {
		dirOf[fmt.Sprintf("%d:%d", s.ord, s.bl)] = s
	}
	for _, wi := range infos {
		ord := g.ordOfSID(wi.SpaceID)
		s := dirOf[fmt.Sprintf("%d:%d", ord, wi.BitLength)]
		o.sel = append(o.sel, space{ord: ord, bl: wi.BitLength, dir: s.dir})
	}
	had := map[string]bool{}
	for _, f := range filesBefore {
		had[f.String()] = true
	}
	for _, f := range filesAfter {
		if !had[f.String()] {
			o.created = append(o.created, f)
		}
	}
	hadN := map[string]bool{}
	for _, n := range namesBefore {
		hadN[n] = true
	}
	for _, n := range namesAfter {
		if !hadN[n] {
			o.newNames = append(o.newNames, n)
		}
	}
	if len(namesAfter) < len(namesBefore) {
		g.h.Fail("C11:configure-deleted-files", "a configuration call removed files from the plot directories")
	}
	return o
}

func (o outcome) String() string {
	if o.err == "ok" {
		return fmt.Sprintf("ok sel=%s new=%s", showDup(o.sel), show(o.created))
	}
	return fmt.Sprintf("err:%s new=%s", o.err, show(o.created))
}

// showDup keeps duplicates (ConfigureByPath with one directory named twice returns a space twice)
func showDup(l []space) string { return show(append([]space(nil), l...)) }

func total(l []space) *big.Int {
	t := new(big.Int)
	seen := map[string]bool{}
	for _, s := range l {
		if seen[s.String()] {
			continue
		}
		seen[s.String()] = true
		t.Add(t, new(big.Int).SetUint64(sizes[s.bl]))
	}
	return t
}

var minSize = new(big.Int).SetUint64(sizes[24])

// the oracles shared by every size-type request: `req` bytes requested of the spaces matching `in`
func (g *G) sizeOracles(what string, req *big.Int, o outcome, indexedBefore []space, in func(space) bool, dirsAllowed map[int]bool) {
	g.h.Res.OracleEvals++
	var sel []space
	for _, s := range o.sel {
		if in(s) {
			sel = append(sel, s)
		}
	}
	if o.err == "ok" {
		t := total(sel)
		if t.Cmp(req) > 0 {
			g.h.Fail("C15:size-exceeds", fmt.Sprintf("%s: selected spaces total %s bytes, more than the %s requested", what, t, req))
		}
		short := new(big.Int).Sub(req, t)
		if short.Cmp(minSize) >= 0 {
			g.h.Fail("C15:size-shortfall", fmt.Sprintf("%s: selected spaces total %s bytes, short of the %s requested by %s >= the smallest plot size", what, t, req, short))
		}
		// reuse before create: an indexed space left out would not have fitted, and is larger than anything created
		selected := map[string]bool{}
		for _, s := range sel {
			selected[s.String()] = true
		}
		for _, s := range indexedBefore {
			if !in(s) || selected[s.String()] || !usable[s.bl] {
				continue
			}
			gap := new(big.Int).Sub(req, t)
			for _, c := range o.created {
				if in(c) {
					gap.Add(gap, new(big.Int).SetUint64(sizes[c.bl]))
				}
			}
			if new(big.Int).SetUint64(sizes[s.bl]).Cmp(gap) <= 0 {
				g.h.Fail("C15:unused-would-fit", fmt.Sprintf("%s: indexed space %s was left out although it fits into what the indexed selection left open (%s bytes); new spaces were created instead or the request was left short", what, s, gap))
			}
		}
	}
	for _, c := range o.created {
		if in(c) && !dirsAllowed[c.dir] {
			g.h.Fail("C15:new-outside-dirs", fmt.Sprintf("%s: a new space %s was created outside the requested directories", what, c))
		}
	}
}

func (g *G) rejectOracle(what string, mustReject bool, o outcome) {
	g.h.Res.OracleEvals++
	if mustReject && o.err == "ok" {
		g.h.Fail("C15:accepted-should-reject", what+": the request is below the minimum size or beyond free disk space but was accepted")
	}
	if o.err != "ok" && len(o.newNames) > 0 {
		g.h.Fail("C15:reject-created-files", fmt.Sprintf("%s: rejected (%s) but files were created: %v", what, o.err, o.newNames))
	}
}

func (g *G) freeOf(d int) uint64 {
	if v, ok := g.free[g.dirs[d]]; ok {
		return v
	}
	return defaultFree
}

func main() {
	h := hx.New("config")
	root, err := os.MkdirTemp("", "verif-config-")
	if err != nil {
		panic(err)
	}
	defer os.RemoveAll(root)
	g := &G{h: h, root: root}
	capacity.VerifDiskFree = func(p string) (uint64, bool) {
		if v, ok := g.free[p]; ok {
			return v, true
		}
		return defaultFree, true
	}
	wh := sha256.Sum256([]byte("payout"))
	addr, err := massutil.NewAddressWitnessScriptHash(wh[:], config.ChainParams)
	if err != nil {
		panic(err)
	}
	g.payout = addr.EncodeAddress()
	if lines := h.ReplayLines(); lines != nil {
		g.replay(lines)
	} else {
		g.corpus()
		for i := 0; i < h.N; i++ {
			g.generate()
		}
		for i := 0; i < 6+h.N/40; i++ {
			g.faultScenario(i)
		}
		g.guardScenario()
	}
	g.sk = nil
	h.Finish("C15: for every configuration request the real keeper/API answered: selected total <= request and short by < the smallest plot size; indexed spaces are used before new ones; new files only in requested directories; exact counts; rejected requests create no file; a restarted keeper finds the selection again")
}
