package main

import (
	"context"
	"fmt"
	"math/big"
	"strconv"
	"strings"
	"sync/atomic"
	"time"

	"google.golang.org/grpc/status"
	"massnet.org/mass/api"
	pb "massnet.org/mass/api/proto"
	"massnet.org/mass/mining"
	"massnet.org/mass/poc/engine"
)

func u64(v uint64) *big.Int { return new(big.Int).SetUint64(v) }

func allDirs(ds []int) map[int]bool {
	m := map[int]bool{}
	for _, d := range ds {
		m[d] = true
	}
	return m
}

func (g *G) indexed() []space {
	idx, _, _ := g.keeperState()
	return idx
}

func (g *G) remember(op string, o outcome) {
	if o.err == "ok" {
		g.lastOp, g.lastSel = op, showDup(o.sel)
	} else {
		g.lastOp, g.lastSel = "", ""
	}
}

// ---- by total size (keeper) ----
func (g *G) opBySize(target uint64) {
	if g.sk == nil {
		return
	}
	before := g.indexed()
	o := g.observe(func() ([]engine.WorkSpaceInfo, error) { return g.sk.ConfigureBySize(target, false, false) })
	op := fmt.Sprintf("bysize %d", target)
	g.h.Emit(op, o.String()+" "+g.stateStr())
	if len(o.created) > 0 && len(o.sel) > len(o.created) {
		g.h.Sample(op + " => " + o.String())
	}
	what := op
	g.sizeOracles(what, u64(target), o, before, func(space) bool { return true }, allDirs(g.kdirs[:1]))
	// below the minimum: must be rejected; beyond free disk: what the indexed spaces cannot cover exceeds the free bytes
	must := target < sizes[24]
	if !must {
		// bytes that would have to be created: request minus the best the index can give (greedy, as specified: reuse first)
		if need := g.needNew(u64(target), before, func(space) bool { return true }); need != nil && need.Cmp(u64(g.freeOf(g.kdirs[0]))) > 0 {
			must = true
		}
	}
	g.rejectOracle(what, must, o)
	g.createdWithinFree(what, o, g.kdirs[0])
	g.remember(op, o)
}

// needNew: bytes of new spaces a request needs when indexed spaces are used first (largest first); nil when
// the indexed spaces already bring the request within one smallest plot
func (g *G) needNew(req *big.Int, index []space, in func(space) bool) *big.Int {
	cur := new(big.Int)
	for _, bl := range []int{28, 26, 24} {
		for _, s := range index {
			if s.bl != bl || !in(s) {
				continue
			}
			n := new(big.Int).Add(cur, u64(sizes[bl]))
			if n.Cmp(req) <= 0 {
				cur = n
			}
		}
	}
	gap := new(big.Int).Sub(req, cur)
	if gap.Cmp(minSize) < 0 {
		return nil
	}
	// whole plots that fit into the gap
	need := new(big.Int)
	for _, bl := range []int{28, 26, 24} {
		n := new(big.Int).Div(new(big.Int).Sub(gap, need), u64(sizes[bl]))
		need.Add(need, n.Mul(n, u64(sizes[bl])))
	}
	return need
}

func (g *G) createdWithinFree(what string, o outcome, dir int) {
	t := new(big.Int)
	for _, c := range o.created {
		if c.dir == dir {
			t.Add(t, u64(sizes[c.bl]))
		}
	}
	if t.Cmp(u64(g.freeOf(dir))) > 0 {
		g.h.Fail("C15:created-beyond-free-disk", fmt.Sprintf("%s: %s bytes of new spaces were created in directory %d, which has %d bytes free", what, t, dir, g.freeOf(dir)))
	}
}

// ---- by per-directory sizes (keeper) ----
type alloc struct {
	dir  int
	size int64
}

func (g *G) opByPath(as []alloc) {
	if g.sk == nil {
		return
	}
	var paths []string
	var szs []int
	var toks []string
	var ds []int
	for _, a := range as {
		paths = append(paths, g.dirs[a.dir])
		szs = append(szs, int(a.size))
		toks = append(toks, fmt.Sprintf("%d:%d", a.dir, a.size))
		ds = append(ds, a.dir)
	}
	o := g.observe(func() ([]engine.WorkSpaceInfo, error) { return g.sk.ConfigureByPath(paths, szs, false, false) })
	if len(as) > 0 {
		g.kdirs = ds
		g.know(ds)
	}
	op := "bypath " + strings.Join(toks, " ")
	g.h.Emit(op, o.String()+" "+g.stateStr())
	if len(as) > 1 && len(o.created) > 0 {
		g.h.Sample(op + " => " + o.String())
	}
	g.pathOracles(op, as, o)
	g.remember(op, o)
	if dupDirs(ds) {
		g.lastOp = "" // one directory named twice: no single size was requested of it (restart oracle skipped)
	}
}

func dupDirs(ds []int) bool {
	seen := map[int]bool{}
	for _, d := range ds {
		if seen[d] {
			return true
		}
		seen[d] = true
	}
	return false
}

func (g *G) pathOracles(what string, as []alloc, o outcome) {
	distinct := map[int]bool{}
	dup := false
	for _, a := range as {
		if distinct[a.dir] {
			dup = true
		}
		distinct[a.dir] = true
	}
	// indexed before = indexed after minus created (the call re-indexes the named directories first)
	created := map[string]bool{}
	for _, c := range o.created {
		created[c.String()] = true
	}
	var before []space
	for _, s := range g.indexed() {
		if !created[s.String()] {
			before = append(before, s)
		}
	}
	anyMin := false
	for _, a := range as {
		if a.size >= int64(sizes[24]) {
			anyMin = true
		}
	}
	if !dup {
		for _, a := range as {
			a := a
			if a.size < 0 {
				continue
			}
			g.sizeOracles(fmt.Sprintf("%s [dir %d]", what, a.dir), big.NewInt(a.size), o, before, func(s space) bool { return s.dir == a.dir }, allDirs([]int{a.dir}))
		}
	}
	for _, c := range o.created {
		if !distinct[c.dir] {
			g.h.Fail("C15:new-outside-dirs", fmt.Sprintf("%s: a new space %s was created outside the requested directories", what, c))
		}
	}
	for _, s := range o.sel {
		if !distinct[s.dir] {
			g.h.Fail("C15:selected-outside-dirs", fmt.Sprintf("%s: space %s of another directory was selected", what, s))
		}
	}
	must := !anyMin
	if !dup && !must {
		for _, a := range as {
			a := a
			if a.size < int64(sizes[24]) {
				continue
			}
			if need := g.needNew(big.NewInt(a.size), before, func(s space) bool { return s.dir == a.dir }); need != nil && need.Cmp(u64(g.freeOf(a.dir))) > 0 {
				must = true
			}
		}
	}
	g.rejectOracle(what, must, o)
	for d := range distinct {
		g.createdWithinFree(what, o, d)
	}
}

// ---- by bit-length counts (keeper) ----
type blc struct{ bl, n int }

func (g *G) opByBL(req []blc) {
	if g.sk == nil {
		return
	}
	m := map[int]int{}
	var toks []string
	for _, r := range req {
		m[r.bl] = r.n
		toks = append(toks, fmt.Sprintf("%d:%d", r.bl, r.n))
	}
	o := g.observe(func() ([]engine.WorkSpaceInfo, error) { return g.sk.ConfigureByBitLength(m, false, false) })
	// the creation loop ranges over a Go map: report the order in which the new ordinals got their bit lengths
	var order []string
	cs := append([]space(nil), o.created...)
	show(cs) // sorts by ordinal
	for _, c := range cs {
		order = append(order, strconv.Itoa(c.bl))
	}
	op := "bybl " + strings.Join(toks, " ") + " | " + strings.Join(order, " ")
	g.h.Emit(op, o.String()+" "+g.stateStr())
	g.h.Res.OracleEvals++
	if o.err == "ok" {
		got := map[int]int{}
		for _, s := range o.sel {
			got[s.bl]++
		}
		for _, r := range req {
			if got[r.bl] != r.n {
				g.h.Fail("C15:count-mismatch", fmt.Sprintf("%s: %d spaces of bit length %d configured, %d requested", op, got[r.bl], r.bl, r.n))
			}
			delete(got, r.bl)
		}
		for bl, n := range got {
			g.h.Fail("C15:count-mismatch", fmt.Sprintf("%s: %d spaces of bit length %d configured, none requested", op, n, bl))
		}
	}
	for _, c := range o.created {
		if c.dir != g.kdirs[0] {
			g.h.Fail("C15:new-outside-dirs", fmt.Sprintf("%s: a new space %s was created outside the keeper's first directory", op, c))
		}
	}
	g.rejectOracle(op, false, o)
	g.createdWithinFree(op, o, g.kdirs[0])
	g.remember(op, o)
}

// ---- through the API handlers ----
func (g *G) server() *api.Server {
	return api.VerifNewSpacesServer(&miner{}, mining.NewMockedPoCWallet(), mining.NewConfigurableSpaceKeeperV1(g.sk))
}

func (g *G) opApiSize(capMiB uint64) {
	if g.sk == nil {
		return
	}
	before := g.indexed()
	o := g.observe(func() ([]engine.WorkSpaceInfo, error) {
		_, err := g.server().ConfigureCapacity(context.Background(), &pb.ConfigureSpaceKeeperRequest{
			Capacity: capMiB, PayoutAddresses: []string{g.payout}, Passphrase: "123456"})
		if err != nil {
			return nil, err
		}
		return g.usingInfos(), nil
	})
	op := fmt.Sprintf("apisize %d", capMiB)
	g.h.Emit(op, o.String()+" "+g.stateStr())
	req := new(big.Int).Mul(u64(capMiB), big.NewInt(1<<20))
	g.sizeOracles(op, req, o, before, func(space) bool { return true }, allDirs(g.kdirs[:1]))
	must := req.Cmp(minSize) < 0 || req.Cmp(u64(g.freeOf(g.kdirs[0]))) > 0
	g.rejectOracle(op, must, o)
	g.createdWithinFree(op, o, g.kdirs[0])
	g.remember(op, o)
}

func (g *G) usingInfos() []engine.WorkSpaceInfo {
	infos, _ := g.sk.WorkSpaceInfos(engine.SFAll)
	return infos
}

type capAlloc struct {
	dir int
	mib uint64
}

func (g *G) opApiDirs(as []capAlloc) {
	if g.sk == nil {
		return
	}
	var allocs []*pb.ConfigureSpaceKeeperByDirsRequest_Allocation
	var toks []string
	var ds []int
	for _, a := range as {
		allocs = append(allocs, &pb.ConfigureSpaceKeeperByDirsRequest_Allocation{Directory: g.dirs[a.dir], Capacity: a.mib})
		toks = append(toks, fmt.Sprintf("%d:%d", a.dir, a.mib))
		ds = append(ds, a.dir)
	}
	o := g.observe(func() ([]engine.WorkSpaceInfo, error) {
		_, err := g.server().ConfigureCapacityByDirs(context.Background(), &pb.ConfigureSpaceKeeperByDirsRequest{
			Allocations: allocs, PayoutAddresses: []string{g.payout}, Passphrase: "123456"})
		if err != nil {
			return nil, err
		}
		return g.usingInfos(), nil
	})
	op := "apidirs " + strings.Join(toks, " ")
	// did the call get as far as ConfigureByPath?  (it replaces the keeper's directories first thing)
	if st, isStatus := status.FromError(o.raw); o.err == "ok" || (isStatus && int(st.Code()) == api.ErrAPIMinerInternal) {
		g.know(ds)
		g.kdirs = ds
	}
	g.h.Emit(op, o.String()+" "+g.stateStr())
	var sized []alloc
	over := false
	for _, a := range as {
		b := new(big.Int).Mul(u64(a.mib), big.NewInt(1<<20))
		if !b.IsInt64() {
			over = true
			continue
		}
		sized = append(sized, alloc{a.dir, b.Int64()})
	}
	if over {
		g.rejectOracle(op, true, o)
	} else {
		g.pathOracles(op, sized, o)
	}
	g.remember(op, o)
	if dupDirs(ds) {
		g.lastOp = ""
	}
}

func (g *G) opRemove(ord int) {
	if g.sk == nil {
		return
	}
	for _, s := range g.indexed() {
		if s.ord == ord {
			sid := fmt.Sprintf("%x-%d", keyFor(ord).PubKey().SerializeCompressed(), s.bl)
			err := g.sk.ActOnWorkSpace(sid, engine.Remove)
			r := "ok"
			if err != nil {
				r = "err:remove"
			}
			g.h.Emit(fmt.Sprintf("remove %d", ord), r+" "+g.stateStr())
			return
		}
	}
}

// opMine: the keeper's mine action on a space in use (a plotted one starts mining at once; whatever state a space is in, it
// stays indexed and is re-used by the next configuration)
func (g *G) opMine(ord int) {
	if g.sk == nil {
		return
	}
	for _, s := range g.indexed() {
		if s.ord == ord {
			sid := fmt.Sprintf("%x-%d", keyFor(ord).PubKey().SerializeCompressed(), s.bl)
			err := g.sk.ActOnWorkSpace(sid, engine.Mine)
			r := "ok"
			if err != nil {
				r = "err:mine"
			} else if s.plotted {
				if g.mined == nil {
					g.mined = map[int]bool{}
				}
				g.mined[ord] = true // ready -> mining: remove and delete are refused from now on (the keeper model, C09/C11)
			}
			g.h.Emit(fmt.Sprintf("mine %d", ord), r+" "+g.stateStr())
			return
		}
	}
}

// opDelete: the keeper's delete action on an indexed space (index, selection and files go)
func (g *G) opDelete(ord int) {
	if g.sk == nil {
		return
	}
	for _, s := range g.indexed() {
		if s.ord == ord {
			sid := fmt.Sprintf("%x-%d", keyFor(ord).PubKey().SerializeCompressed(), s.bl)
			err := g.sk.ActOnWorkSpace(sid, engine.Delete)
			r := "ok"
			if err != nil {
				r = "err:delete"
			}
			g.h.Emit(fmt.Sprintf("delete %d", ord), r+" "+g.stateStr())
			if err == nil {
				g.lastOp, g.lastSel = "", "" // the world changed: the last request need not find the same selection again
			}
			return
		}
	}
}

// restart: a new keeper on the same directories; the same request must find the same selection and create nothing
func (g *G) opRestartCheck() {
	if g.sk == nil || g.lastOp == "" {
		return
	}
	lastOp, lastSel := g.lastOp, g.lastSel
	ds := append([]int(nil), g.kdirs...)
	for _, d := range g.known {
		in := false
		for _, x := range ds {
			in = in || x == d
		}
		if !in {
			ds = append(ds, d)
		}
	}
	g.opKeeper(ds)
	if g.sk == nil {
		g.h.Fail("C15:restart-fails", "a keeper could not be created again on the configured directories")
		return
	}
	names, _ := g.listing()
	g.exec(strings.Split(strings.Split(lastOp, " | ")[0], " "))
	g.h.Res.OracleEvals++
	names2, _ := g.listing()
	if g.lastSel != lastSel {
		g.h.Fail("C15:restart-differs", fmt.Sprintf("after a restart the request `%s` selects %s, before the restart %s", lastOp, g.lastSel, lastSel))
	}
	if len(names2) != len(names) {
		g.h.Fail("C15:restart-creates", fmt.Sprintf("after a restart the request `%s` created files again", lastOp))
	}
}

// ---- the line interpreter (also used for replays) ----
func (g *G) exec(t []string) {
	atoi := func(s string) int { v, _ := strconv.Atoi(s); return v }
	atou := func(s string) uint64 { v, _ := strconv.ParseUint(s, 10, 64); return v }
	switch t[0] {
	case "reset":
		g.reset()
	case "seed":
		g.opSeed(atoi(t[1]), atoi(t[2]), t[3] == "1")
	case "free":
		g.opFree(atoi(t[1]), atou(t[2]))
	case "keeper":
		var ds []int
		for _, x := range t[1:] {
			ds = append(ds, atoi(x))
		}
		g.opKeeper(ds)
	case "bysize":
		g.opBySize(atou(t[1]))
	case "apisize":
		g.opApiSize(atou(t[1]))
	case "bypath":
		var as []alloc
		for _, x := range t[1:] {
			p := strings.Split(x, ":")
			v, _ := strconv.ParseInt(p[1], 10, 64)
			as = append(as, alloc{atoi(p[0]), v})
		}
		g.opByPath(as)
	case "apidirs":
		var as []capAlloc
		for _, x := range t[1:] {
			p := strings.Split(x, ":")
			as = append(as, capAlloc{atoi(p[0]), atou(p[1])})
		}
		g.opApiDirs(as)
	case "bybl":
		var req []blc
		for _, x := range t[1:] {
			if x == "|" {
				break
			}
			p := strings.Split(x, ":")
			req = append(req, blc{atoi(p[0]), atoi(p[1])})
		}
		g.opByBL(req)
	case "delete":
		o, _ := strconv.Atoi(t[1])
		g.opDelete(o)
	case "mine":
		o, _ := strconv.Atoi(t[1])
		g.opMine(o)
	case "remove":
		g.opRemove(atoi(t[1]))
	case "restartcheck":
		g.opRestartCheck()
	}
}

func (g *G) replay(lines []string) {
	for _, l := range lines {
		g.exec(strings.Fields(l))
	}
}

// ---- corpus: scenarios that once failed (run first) ----
func (g *G) corpus() {
	for _, sc := range [][]string{
		// a later directory fails its disk check after an earlier directory got new files
		{"reset 0", "free 1 1000", "keeper 0", "bypath 0:100663296 1:100663296"},
		// a big plotted space that does not fit the allocation lets the API's pre-check pass
		{"reset 0", "seed 1 28 1", "free 1 1000", "keeper 0 1", "apidirs 0:96 1:1024"},
		// capacity * MiB wraps around uint64
		{"reset 0", "keeper 0", "apisize 17592186044512"},
		{"reset 0", "keeper 0", "apidirs 0:17592186044512"},
		// exact fits, one byte short
		{"reset 0", "seed 0 24 0", "seed 0 26 1", "keeper 0", "bysize 536870912", "restartcheck", "bysize 536870911", "bysize 100663295"},
		// the same directory named twice
		{"reset 0", "keeper 0", "bypath 0:100663296 0:100663296"},
		{"reset 0", "keeper 0", "bybl 24:2 26:1", "restartcheck", "bybl 24:1", "bybl 28:0"},
	} {
		for _, l := range sc {
			g.exec(strings.Fields(l))
		}
	}
}

// ---- generator ----
func (g *G) pickTarget() uint64 {
	r := g.h.Rng
	s24, s26, s28 := sizes[24], sizes[26], sizes[28]
	base := uint64(r.Intn(3))*s28 + uint64(r.Intn(3))*s26 + uint64(r.Intn(4))*s24
	switch r.Intn(12) {
	case 0:
		return base
	case 1:
		return base + 1
	case 2:
		if base > 0 {
			return base - 1
		}
		return 0
	case 3:
		return base + s24 - 1
	case 4:
		return base + uint64(r.Int63n(int64(s24)))
	case 5:
		return []uint64{0, 1, s24 - 1, s24, s24 + 1, 1<<63 - 1, 1 << 63, 1<<64 - 1, 1<<63 + s24}[r.Intn(9)]
	case 6:
		return uint64(r.Int63n(int64(4 * s28)))
	default:
		return base + uint64(r.Int63n(int64(s26)))
	}
}

func (g *G) generate() {
	r := g.h.Rng
	g.reset()
	// free figures: mostly plenty, sometimes tight
	for d := 0; d < nDirs; d++ {
		switch r.Intn(6) {
		case 0:
			g.opFree(d, g.pickTarget()%defaultFree)
		case 1:
			g.opFree(d, uint64(r.Int63n(int64(3*sizes[28]))))
		}
	}
	for i, n := 0, r.Intn(7); i < n; i++ {
		g.opSeed(r.Intn(nDirs), []int{24, 24, 26, 26, 28}[r.Intn(5)], r.Intn(3) == 0)
	}
	var ds []int
	for _, d := range r.Perm(nDirs)[:1+r.Intn(2)] {
		ds = append(ds, d)
	}
	g.opKeeper(ds)
	for i, n := 0, 1+r.Intn(g.h.Len/6+1); i < n; i++ {
		switch r.Intn(11) {
		case 0, 1, 2:
			g.opBySize(g.pickTarget())
		case 3, 4:
			var as []alloc
			for _, d := range r.Perm(nDirs)[:1+r.Intn(3)] {
				as = append(as, alloc{d, int64(g.pickTarget())})
			}
			if r.Intn(12) == 0 && len(as) > 0 {
				as = append(as, alloc{as[0].dir, int64(g.pickTarget())})
			}
			g.opByPath(as)
		case 5:
			var req []blc
			for _, bl := range [][]int{{24}, {26}, {28}, {24, 26}, {24, 28}, {24, 26, 28}, {30}}[r.Intn(7)] {
				req = append(req, blc{bl, r.Intn(4)})
			}
			if len(req) > 1 && r.Intn(3) == 0 {
				// far beyond any free figure for the largest bit length, while the smaller ones would fit
				req[len(req)-1].n = 1 << 20
				if req[0].n == 0 {
					req[0].n = 1 + r.Intn(3)
				}
			}
			g.opByBL(req)
		case 6:
			// through the API: capacities in MiB around plot sizes and around the free figure
			t := g.pickTarget()
			mib := t >> 20
			if r.Intn(3) == 0 {
				mib = g.freeOf(g.kdirs[0])>>20 + uint64(r.Intn(3)) - 1
			}
			if r.Intn(10) == 0 {
				mib += 1 << 44
			}
			g.opApiSize(mib)
		case 7:
			var as []capAlloc
			for _, d := range r.Perm(nDirs)[:1+r.Intn(3)] {
				mib := g.pickTarget() >> 20
				if r.Intn(4) == 0 {
					mib = g.freeOf(d)>>20 + uint64(r.Intn(3)) - 1
				}
				if r.Intn(12) == 0 {
					mib += 1 << 44
				}
				as = append(as, capAlloc{d, mib})
			}
			g.opApiDirs(as)
		case 8:
			var idx []space
			for _, s := range g.indexed() { // a mining space refuses remove / delete: the configuration model has no space states
				if !g.mined[s.ord] {
					idx = append(idx, s)
				}
			}
			if len(idx) > 0 {
				if x := r.Intn(4); x == 0 {
					g.opDelete(idx[r.Intn(len(idx))].ord)
				} else if x == 1 {
					g.opMine(idx[r.Intn(len(idx))].ord)
				} else {
					g.opRemove(idx[r.Intn(len(idx))].ord)
				}
			}
		case 9:
			g.opRestartCheck()
		case 10:
			g.opFree(r.Intn(nDirs), g.pickTarget()%defaultFree)
		}
	}
	if r.Intn(2) == 0 {
		g.opRestartCheck()
	}
}

// ---- oracle-only scenarios (not sent to the model) ----

// faultScenario: the wallet fails while a configuration request is creating spaces.  Whatever the request and
// wherever the failure: no plot file that existed before the request may be gone afterwards (C11: no operation
// other than delete erases plot data).
func (g *G) faultScenario(i int) {
	r := g.h.Rng
	g.reset()
	for j, n := 0, 2+r.Intn(4); j < n; j++ {
		g.opSeed(r.Intn(2), []int{24, 24, 26}[r.Intn(3)], r.Intn(2) == 0)
	}
	g.opKeeper([]int{0, 1})
	if g.sk == nil {
		return
	}
	before, _ := g.listing()
	g.w.failIn = 1 + r.Intn(4)
	var err error
	what := ""
	switch i % 3 {
	case 0:
		// two directories: the first keeps its spaces and is topped up with exactly one new space, then the wallet
		// fails on the first key for the second directory (after every up-front check has passed)
		what = "ConfigureByPath with a wallet failing at the second directory"
		var t [2]uint64
		for _, s := range g.indexed() {
			if s.dir < 2 {
				t[s.dir] += sizes[s.bl]
			}
		}
		g.w.failIn = 2
		_, err = g.sk.ConfigureByPath([]string{g.dirs[0], g.dirs[1]}, []int{int(t[0] + sizes[24]), int(t[1] + 2*sizes[24])}, false, false)
	case 1:
		what = "ConfigureBySize with a wallet failing during creation"
		_, err = g.sk.ConfigureBySize(12*sizes[24], false, false)
	default:
		what = "ConfigureByBitLength with a wallet failing during creation"
		_, err = g.sk.ConfigureByBitLength(map[int]int{24: 9}, false, false)
	}
	g.w.failIn = 0
	after, _ := g.listing()
	g.h.Res.OracleEvals++
	have := map[string]bool{}
	for _, n := range after {
		have[n] = true
	}
	for _, n := range before {
		if !have[n] {
			g.h.Fail("C11:configure-deleted-files", fmt.Sprintf("%s (result: %v): the plot file %s, present before the request, is gone", what, err, n))
		}
	}
	g.sk = nil
}

// guardScenario: a configuration is in progress (parked inside the wallet); a second request is refused
// (ErrSpaceKeeperIsConfiguring) — and so must a third one be: only one configuration runs at a time.
func (g *G) guardScenario() {
	g.reset()
	g.opKeeper([]int{0})
	if g.sk == nil {
		return
	}
	g.w.park, g.w.parked = make(chan struct{}), make(chan struct{}, 1)
	park := g.w.park
	done := make(chan error, 1)
	go func() { _, err := g.sk.ConfigureBySize(sizes[24], false, false); done <- err }()
	select {
	case <-g.w.parked:
	case err := <-done:
		g.h.Fail("C15:guard-setup", fmt.Sprintf("the first request did not reach the wallet: %v", err))
		return
	}
	_, err2 := g.sk.ConfigureBySize(sizes[24], false, false)
	third := make(chan error, 1)
	go func() { _, err := g.sk.ConfigureBySize(sizes[24], false, false); third <- err }()
	var err3 error
	select {
	case err3 = <-third:
	case <-time.After(2 * time.Second):
		err3 = nil // it is running alongside the first one (it will finish once the wallet answers)
	}
	close(park)
	err1 := <-done
	if err3 == nil {
		select {
		case err3 = <-third:
		case <-time.After(5 * time.Second):
		}
	}
	_, files := g.listing()
	g.h.Res.OracleEvals++
	if err1 != nil || errName(err2) == "ok" || err3 == nil || errName(err3) == "ok" || len(files) != 1 || atomic.LoadInt32(&g.w.maxAct) > 1 {
		g.h.Fail("C15:concurrent-configure", fmt.Sprintf("three overlapping requests for one 96 MiB space: results %v / %v / %v, %d plot files, %d wallet calls at once (want: ok / refused / refused, 1 file)", err1, err2, err3, len(files), g.w.maxAct))
	}
	g.sk = nil
}
