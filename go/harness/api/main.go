// Harness C20: admission decision, 403 wrapper, decimal amounts and workspace
// records of the API, run on the real code through the `verif` accessors.
package main

import (
	"encoding/hex"
	"fmt"
	"math/big"
	"net"
	"net/http"
	"net/http/httptest"
	"strconv"
	"strings"

	"github.com/massnetorg/mass-core/consensus"
	"github.com/massnetorg/mass-core/massutil"
	"github.com/massnetorg/mass-core/poc/chiapos"
	"github.com/massnetorg/mass-core/poc/pocutil"
	"github.com/massnetorg/mass-core/pocec"
	"massnet.org/mass/api"
	"massnet.org/mass/config"
	"massnet.org/mass/poc/engine"
	engine_v2 "massnet.org/mass/poc/engine.v2"
	"massnet.org/mass/poc/wallet/keystore"
	"verifharness/hx"
)

// canon maps a remote-address string to the model's token, independently of
// the code under test: host:port split, IP literal (zone dropped), 4-in-6 folded.
func canonRemote(addr string) string {
	host, port, err := net.SplitHostPort(addr)
	if err != nil {
		return "m"
	}
	if p, err := strconv.Atoi(port); err != nil || p < 0 || p > 65535 {
		return "m"
	}
	if i := strings.IndexByte(host, '%'); i >= 0 {
		host = host[:i]
	}
	return canonIP(host)
}

func canonIP(host string) string {
	ip := net.ParseIP(host)
	if ip == nil {
		return "m"
	}
	if v4 := ip.To4(); v4 != nil {
		return fmt.Sprintf("4:%d.%d.%d.%d", v4[0], v4[1], v4[2], v4[3])
	}
	return "6:" + hex.EncodeToString(ip.To16())
}

// spec: the property, stated directly on tokens (closed numeric intervals).
func specAllowed(wild bool, wl []string, lans []string, a string) bool {
	if wild {
		return true
	}
	if a == "m" {
		return false
	}
	if a == "4:127.0.0.1" || a == "6:00000000000000000000000000000001" {
		return true
	}
	for _, w := range wl {
		if w == a {
			return true
		}
	}
	if strings.HasPrefix(a, "4:") {
		var q [4]uint32
		fmt.Sscanf(a[2:], "%d.%d.%d.%d", &q[0], &q[1], &q[2], &q[3])
		v := q[0]<<24 | q[1]<<16 | q[2]<<8 | q[3]
		in := func(lo, hi uint32) bool { return lo <= v && v <= hi }
		for _, l := range lans {
			switch l {
			case "10":
				if in(10<<24, 10<<24|0xffffff) {
					return true
				}
			case "172":
				if in(172<<24|16<<16, 172<<24|31<<16|0xffff) {
					return true
				}
			case "192":
				if in(192<<24|168<<16, 192<<24|168<<16|0xffff) {
					return true
				}
			}
		}
	}
	return false
}

type gen struct{ h *hx.H }

var edgeV4 = []string{
	"9.255.255.255", "10.0.0.0", "10.255.255.255", "11.0.0.0", "10.1.2.3",
	"172.15.255.255", "172.16.0.0", "172.31.255.255", "172.32.0.0", "172.20.1.1", "172.0.0.1", "173.16.0.1", "171.16.0.1", "172.48.0.1", "172.24.0.0",
	"192.167.255.255", "192.168.0.0", "192.168.255.255", "192.169.0.0", "192.168.1.1", "193.168.0.1", "192.160.0.1", "192.40.0.1",
	"127.0.0.1", "127.0.0.2", "126.255.255.255", "0.0.0.0", "255.255.255.255", "8.8.8.8", "1.2.3.4", "100.64.0.1",
}
var edgeV6 = []string{"::1", "::", "::2", "fe80::1", "fc00::1", "2001:db8::1", "a00::1", "ac10::1", "c0a8::1",
	"::ffff:10.0.0.1", "::ffff:172.16.0.1", "::ffff:192.168.0.1", "::ffff:8.8.8.8", "::ffff:127.0.0.1", "::ffff:172.32.0.1",
	"::10.0.0.1", "64:ff9b::10.0.0.1", "0:0:0:0:0:0:0:1", "::0001"}

func (g *gen) ip() string {
	r := g.h.Rng
	switch r.Intn(10) {
	case 0, 1, 2, 3:
		return edgeV4[r.Intn(len(edgeV4))]
	case 4, 5:
		return edgeV6[r.Intn(len(edgeV6))]
	case 6:
		bases := [][2]byte{{10, 0}, {172, 16}, {172, 31}, {172, 15}, {172, 32}, {192, 168}, {192, 167}, {11, 0}}
		b := bases[r.Intn(len(bases))]
		return fmt.Sprintf("%d.%d.%d.%d", b[0], int(b[1]), r.Intn(256), r.Intn(256))
	case 7:
		return fmt.Sprintf("172.%d.%d.%d", r.Intn(256), r.Intn(256), r.Intn(256))
	case 8:
		b := make([]byte, 16)
		r.Read(b)
		return net.IP(b).String()
	}
	return fmt.Sprintf("%d.%d.%d.%d", r.Intn(256), r.Intn(256), r.Intn(256), r.Intn(256))
}

func (g *gen) remote() string {
	r := g.h.Rng
	ip := g.ip()
	port := strconv.Itoa(1 + r.Intn(65535))
	switch r.Intn(25) {
	case 0:
		return ip // no port
	case 1:
		return ip + ":99999"
	case 2:
		return ":" + port
	case 3:
		return "[" + ip + ":" + port
	case 4:
		return ""
	case 5:
		if strings.Contains(ip, ":") {
			return "[" + ip + "%lo]:" + port
		}
	case 6:
		return ip + ":" + port + ":1"
	case 7:
		return ip + ":-1"
	}
	if strings.Contains(ip, ":") {
		return "[" + ip + "]:" + port
	}
	return ip + ":" + port
}

func (g *gen) cfg() (wild bool, wl []string, lans []string) {
	r := g.h.Rng
	wild = r.Intn(12) == 0
	for i := r.Intn(4); i > 0; i-- {
		wl = append(wl, g.ip())
	}
	all := []string{"10", "172", "192", "bogus", "10"}
	for i := r.Intn(4); i > 0; i-- {
		lans = append(lans, all[r.Intn(len(all))])
	}
	return
}

func joinOr(xs []string) string {
	if len(xs) == 0 {
		return "-"
	}
	return strings.Join(xs, ",")
}

func main() {
	h := hx.New("api")
	g := &gen{h}
	if ls := h.ReplayLines(); ls != nil {
		for _, l := range ls {
			h.Emit(l, replayLine(h, l))
		}
		h.Finish("replay")
		return
	}
	h.Emit("reset", "ok")
	n := h.N
	// ---- admission + handler
	for i := 0; i < n*20; i++ {
		wild, wl, lans := g.cfg()
		whitelist := append([]string(nil), wl...)
		if wild {
			whitelist = append(whitelist, "*")
		}
		fn, err := api.VerifGetIPAccessControlFunc(whitelist, lans)
		if err != nil {
			panic(err)
		}
		var wlTok []string
		for _, w := range wl {
			wlTok = append(wlTok, canonIP(w))
		}
		for j := 0; j < 6; j++ {
			remote := g.remote()
			tok := canonRemote(remote)
			got := fn(remote)
			w := "0"
			if wild {
				w = "1"
			}
			op := fmt.Sprintf("allow %s %s %s %s", w, joinOr(wlTok), joinOr(lans), tok)
			h.Emit(op, strconv.FormatBool(got))
			h.Res.OracleEvals++
			if want := specAllowed(wild, wlTok, lans, tok); got != want {
				h.FailWith("admission-"+strconv.FormatBool(got), fmt.Sprintf("remote %q (=%s) whitelist=%v lans=%v wildcard=%v: admitted=%v, property says %v", remote, tok, wl, lans, wild, got, want),
					[]string{op, "# remote=" + remote + " whitelist=" + strings.Join(whitelist, ",") + " lans=" + strings.Join(lans, ",")})
			}
			if j < 4 {
				// the 403 wrapper with a counting inner handler
				inner := 0
				hd := api.VerifAccessControlHandler(http.HandlerFunc(func(w http.ResponseWriter, r *http.Request) { inner++; w.WriteHeader(200) }), fn)
				req := httptest.NewRequest("GET", "/v1/spaces", nil)
				req.RemoteAddr = remote
				// what a client says about itself in headers does not count: the remote address of the connection decides
				switch h.Rng.Intn(4) {
				case 0:
					req.Header.Set("X-Forwarded-For", "127.0.0.1")
				case 1:
					req.Header.Set("X-Forwarded-For", "8.8.8.8, 127.0.0.1")
					req.Header.Set("X-Real-IP", "127.0.0.1")
				case 2:
					req.Header.Set("Forwarded", "for=127.0.0.1;proto=http")
					req.Header.Set("X-Forwarded-For", "::1")
				}
				rec := httptest.NewRecorder()
				hd.ServeHTTP(rec, req)
				op := fmt.Sprintf("handler %s %s %s %s", w, joinOr(wlTok), joinOr(lans), tok)
				h.Emit(op, fmt.Sprintf("%d inner=%d", rec.Code, inner))
				h.Res.OracleEvals++
				want := specAllowed(wild, wlTok, lans, tok)
				if (rec.Code == 403) == want || (inner == 1) != want {
					h.FailWith("handler-403", fmt.Sprintf("remote %q: status %d, inner handler ran %d times, property says admitted=%v", remote, rec.Code, inner, want), []string{op, "# remote=" + remote})
				}
			}
		}
	}
	// ---- amounts
	max := massutil.MaxAmount().IntValue()
	var ams []int64
	for _, b := range []int64{0, 1, 9, 10, 99999999, 100000000, 100000001, 150000000, 123456789, 1000000000, max - 1, max, max + 1, -1, -100000000, 1 << 62, (1 << 63) - 1, -(1 << 63)} {
		ams = append(ams, b)
	}
	p := int64(1)
	for k := 0; k < 18; k++ {
		ams = append(ams, p-1, p, p+1, p*5, 7*p+3)
		p *= 10
	}
	for i := 0; i < n*10; i++ {
		switch h.Rng.Intn(4) {
		case 0:
			ams = append(ams, h.Rng.Int63n(max+1))
		case 1:
			ams = append(ams, h.Rng.Int63n(1000)*100000000+h.Rng.Int63n(100)*1000000)
		case 2:
			ams = append(ams, h.Rng.Int63n(max/100000000+1)*100000000)
		default:
			ams = append(ams, h.Rng.Int63n(100000000))
		}
	}
	for _, m := range ams {
		s, err := api.AmountToString(m)
		out := "err"
		if err == nil {
			out = "ok " + s
		}
		h.Emit("a2s "+strconv.FormatInt(m, 10), out)
		h.Res.OracleEvals++
		if (err == nil) != (m >= 0 && m <= max) {
			h.FailWith("amount-range", fmt.Sprintf("AmountToString(%d) err=%v", m, err), []string{"a2s " + strconv.FormatInt(m, 10)})
		}
		if err == nil {
			// exact value: s == m / 10^8 as a rational, canonical form, round trip
			rat, ok := new(big.Rat).SetString(s)
			want := new(big.Rat).SetFrac(big.NewInt(m), big.NewInt(100000000))
			canon := ok && rat.Cmp(want) == 0 && !strings.HasSuffix(s, ".") && !(strings.Contains(s, ".") && strings.HasSuffix(s, "0")) &&
				(s == "0" || !strings.HasPrefix(s, "0") || strings.HasPrefix(s, "0.")) && !strings.HasPrefix(s, "+") && !strings.HasPrefix(s, ".")
			if !canon {
				h.FailWith("amount-exact", fmt.Sprintf("AmountToString(%d) = %q is not the exact canonical decimal of m/10^8", m, s), []string{"a2s " + strconv.FormatInt(m, 10)})
			}
			back, err := api.StringToAmount(s)
			o2 := "err"
			if err == nil {
				o2 = "ok " + strconv.FormatInt(back.IntValue(), 10)
			}
			h.Emit("s2a "+hx.Hex([]byte(s)), o2)
			if err != nil || back.IntValue() != m {
				h.FailWith("amount-roundtrip", fmt.Sprintf("StringToAmount(AmountToString(%d)=%q) = %v, %v", m, s, back, err), []string{"a2s " + strconv.FormatInt(m, 10), "s2a " + hx.Hex([]byte(s))})
			}
		}
	}
	// malformed / unusual strings for the parser (model correspondence only)
	strs := []string{"", ".", "0", "00", "0.0", "1.", ".5", "1.5.2", "1..5", "007.5", "1.500", "1.123456789", "1.1234567800", "+5", "-0", "-1", "0.+1", "0.-1", "1e3", "1,5", " 1", "1 ",
		"206438400", "206438400.00000001", "206438401", "9223372036854775807", "9223372036854775808", "99999999999999999999", "0.00000001", "0.000000001", "0.000000010", "١", "1_000", "0x10", "1.0x", "--1", "+-1", "+", "-", "1.+", "000", "0.99999999", "1.00000000", "12345678.12345678"}
	for i := 0; i < n*5; i++ {
		al := "0123456789.+-0 0.1"
		b := make([]byte, h.Rng.Intn(12))
		for j := range b {
			b[j] = al[h.Rng.Intn(len(al))]
		}
		strs = append(strs, string(b))
	}
	for _, s := range strs {
		back, err := api.StringToAmount(s)
		o := "err"
		if err == nil {
			o = "ok " + strconv.FormatInt(back.IntValue(), 10)
		}
		h.Emit("s2a "+hx.Hex([]byte(s)), o)
	}
	// ---- workspace records: API values vs the chain library's definitions
	for i := 0; i < n; i++ {
		priv, _ := pocec.NewPrivateKey(pocec.S256())
		pub := priv.PubKey()
		for rep := 0; rep < 3; rep++ { // the same key is listed with several sizes
			bl := []int{24, 26, 28, 30, 32, 34, 36, 38, 40}[h.Rng.Intn(9)]
			rec, err := api.VerifWorkSpaceInfo2Proto(engine.WorkSpaceInfo{SpaceID: "x", PublicKey: pub, Ordinal: int64(i), BitLength: bl})
			h.Res.OracleEvals++
			libT, lerr := massutil.GetMassDBBindingTarget(pub, bl)
			_, addr, aerr := keystore.NewPoCAddress(pub, config.ChainParams)
			scriptAddr, serr := massutil.NewAddressPubKeyHash(massutil.Hash160(pub.SerializeCompressed()), config.ChainParams)
			if err != nil || lerr != nil || aerr != nil || serr != nil {
				h.FailWith("record-error", fmt.Sprintf("workspace conversion failed: %v %v %v %v", err, lerr, aerr, serr), []string{"# pub=" + hex.EncodeToString(pub.SerializeCompressed())})
				continue
			}
			if rec.BindingTarget != libT || rec.Address != addr.EncodeAddress() || rec.Address != scriptAddr.EncodeAddress() ||
				rec.PublicKey != hex.EncodeToString(pub.SerializeCompressed()) || int(rec.BitLength) != bl {
				h.FailWith("record-v1", fmt.Sprintf("listed record %+v differs from library target %s / address %s", rec, libT, scriptAddr.EncodeAddress()),
					[]string{"# pub=" + hex.EncodeToString(pub.SerializeCompressed()) + " bl=" + strconv.Itoa(bl)})
			}
		}
		// v2
		var id pocutil.Hash
		h.Rng.Read(id[:])
		for rep := 0; rep < 3; rep++ {
			k := 25 + h.Rng.Intn(20)
			rec2, err := api.VerifWorkSpaceInfo2ProtoV2(engine_v2.WorkSpaceInfo{SpaceID: "y", PublicKey: chiapos.NewG1ElementGenerator(), PlotID: id, BitLength: k})
			libT2, lerr2 := massutil.GetChiaPlotBindingTarget(id, k)
			h.Res.OracleEvals++
			if err != nil || lerr2 != nil || rec2.BindingTarget != libT2 || int(rec2.K) != k || rec2.PlotId != id.String() {
				h.FailWith("record-v2", fmt.Sprintf("listed v2 record %+v (err %v) differs from library target %s (err %v)", rec2, err, libT2, lerr2),
					[]string{"# plotid=" + id.String() + " k=" + strconv.Itoa(k)})
			}
		}
	}
	_ = consensus.MaxMass
	h.Sample("allow 0 4:8.8.8.8 172,10 4:172.31.255.255 => true")
	h.Sample("a2s 150000000 => ok 1.5")
	h.Finish("admission: random configs x remote addresses biased to the edges of the three private ranges, v6, mapped, zoned, malformed; amounts: 0, 10^k±1, max±1, random, plus malformed strings; records: random keys/plot ids/sizes against the library. distinct = distinct (op, output) lines")
}

// replayLine re-executes one op line on the implementation.
func replayLine(h *hx.H, l string) string {
	t := strings.Fields(l)
	switch t[0] {
	case "a2s":
		m, _ := strconv.ParseInt(t[1], 10, 64)
		s, err := api.AmountToString(m)
		if err != nil {
			return "err"
		}
		return "ok " + s
	case "s2a":
		b, _ := hx.UnHex(t[1])
		a, err := api.StringToAmount(string(b))
		if err != nil {
			return "err"
		}
		return "ok " + strconv.FormatInt(a.IntValue(), 10)
	case "allow", "handler":
		tokToStr := func(tok string) string {
			if strings.HasPrefix(tok, "4:") {
				return tok[2:]
			}
			if strings.HasPrefix(tok, "6:") {
				b, _ := hex.DecodeString(tok[2:])
				return net.IP(b).String()
			}
			return ""
		}
		var wl []string
		if t[2] != "-" {
			for _, w := range strings.Split(t[2], ",") {
				wl = append(wl, tokToStr(w))
			}
		}
		if t[1] == "1" {
			wl = append(wl, "*")
		}
		var lans []string
		if t[3] != "-" {
			lans = strings.Split(t[3], ",")
		}
		fn, err := api.VerifGetIPAccessControlFunc(wl, lans)
		if err != nil {
			return "err"
		}
		remote := "garbage"
		if t[4] != "m" {
			ip := tokToStr(t[4])
			if strings.Contains(ip, ":") {
				remote = "[" + ip + "]:1234"
			} else {
				remote = ip + ":1234"
			}
		}
		if t[0] == "allow" {
			return strconv.FormatBool(fn(remote))
		}
		inner := 0
		hd := api.VerifAccessControlHandler(http.HandlerFunc(func(w http.ResponseWriter, r *http.Request) { inner++; w.WriteHeader(200) }), fn)
		req := httptest.NewRequest("GET", "/v1/spaces", nil)
		req.RemoteAddr = remote
		rec := httptest.NewRecorder()
		hd.ServeHTTP(rec, req)
		return fmt.Sprintf("%d inner=%d", rec.Code, inner)
	}
	return "bad-op"
}
