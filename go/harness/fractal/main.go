// Harness C17 (cluster task router): the real fractal.LocalSuperior is driven with scripted collectors through
// generated label sequences (add/remove tasks, broadcast and targeted; subscribe/unsubscribe; reports, also to
// full and to removed tasks; reads by the tasks' waiters); after every label the requests each collector was
// handed and the reports each task's waiter read are compared with the Lean model.  A second part builds real
// topologies over loopback TCP (superior + collector pool, one and two relay levels of RemoteSuperior +
// CollectorPool, scripted collectors at the leaves) and checks delivery, tagging, payload integrity, order and
// that every stop / remove / drop returns promptly.
package main

import (
	"context"
	"crypto/sha256"
	"fmt"
	"math/big"
	"net"
	"sort"
	"strconv"
	"strings"
	"sync"
	"time"

	"github.com/google/uuid"
	"github.com/massnetorg/mass-core/poc/chiapos"
	"massnet.org/mass/fractal"
	"massnet.org/mass/fractal/connection"
	"massnet.org/mass/fractal/protocol"
	"verifharness/hx"
)

func uid(kind string, n int) uuid.UUID {
	s := sha256.Sum256([]byte(kind + strconv.Itoa(n)))
	u, _ := uuid.FromBytes(s[:16])
	return u
}

type got struct {
	task, kind, payload int
}

// scripted collector
type coll struct {
	n    int
	id   uuid.UUID
	mu   sync.Mutex
	recv []got
}

func (c *coll) ID() uuid.UUID { return c.id }
func (c *coll) add(task uuid.UUID, kind int, payload uint64) {
	c.mu.Lock()
	c.recv = append(c.recv, got{taskNum(task), kind, int(payload)})
	c.mu.Unlock()
}
func (c *coll) RequestQualities(ctx context.Context, m *protocol.RequestQualities) error {
	c.add(m.TaskID, 1, m.Height)
	return nil
}
func (c *coll) RequestProof(ctx context.Context, m *protocol.RequestProof) error {
	c.add(m.TaskID, 3, m.Height)
	return nil
}
func (c *coll) RequestSignature(ctx context.Context, m *protocol.RequestSignature) error {
	c.add(m.TaskID, 5, m.Height)
	return nil
}
func (c *coll) count() int { c.mu.Lock(); defer c.mu.Unlock(); return len(c.recv) }

var taskNums sync.Map

func taskID(n int) uuid.UUID {
	u := uid("task", n)
	taskNums.Store(u, n)
	return u
}
func taskNum(u uuid.UUID) int {
	if v, ok := taskNums.Load(u); ok {
		return v.(int)
	}
	return -1
}

func mkReq(t, kind, payload int) protocol.Message {
	switch kind {
	case 1:
		return &protocol.RequestQualities{TaskID: taskID(t), Height: uint64(payload), ParentTarget: big.NewInt(1)}
	case 3:
		return &protocol.RequestProof{TaskID: taskID(t), Height: uint64(payload), SpaceID: "s"}
	default:
		return &protocol.RequestSignature{TaskID: taskID(t), Height: uint64(payload), SpaceID: "s"}
	}
}

func mkReport(t, payload int) *protocol.ReportSignature {
	return &protocol.ReportSignature{TaskID: taskID(t), SpaceID: "p" + strconv.Itoa(payload), Hash: sha256.Sum256([]byte(strconv.Itoa(payload))), Signature: chiapos.NewG2ElementGenerator()}
}

func payloadOf(m protocol.Message) int {
	if r, ok := m.(*protocol.ReportSignature); ok {
		n, _ := strconv.Atoi(strings.TrimPrefix(r.SpaceID, "p"))
		if r.Hash != sha256.Sum256([]byte(strconv.Itoa(n))) {
			return -2 // payload altered
		}
		return n
	}
	return -1
}

func guard(d time.Duration, f func()) bool {
	done := make(chan struct{})
	go func() { f(); close(done) }()
	select {
	case <-done:
		return true
	case <-time.After(d):
		return false
	}
}

type rd struct{ task, cid, payload int }

type env struct {
	h        *hx.H
	ls       *fractal.LocalSuperior
	ctx      context.Context
	colls    map[int]*coll
	subbed   map[int]bool
	chans    map[int]chan *fractal.CollectorMsg // open tasks
	latest   int                                // task number of the latest broadcast, -1 none
	reads    []rd
	pending  map[int]int // task -> reports whose senders wait
	waiting  int
	wg       sync.WaitGroup
	reported map[string]int // "task/cid/payload" -> times reported while the task was open
}

func (e *env) cidNum(u uuid.UUID) int {
	for n, c := range e.colls {
		if c.id == u {
			return n
		}
	}
	return -1
}

func (e *env) settle(expect func() bool) bool {
	deadline := time.Now().Add(5 * time.Second)
	for !expect() {
		if time.Now().After(deadline) {
			return false
		}
		time.Sleep(200 * time.Microsecond)
	}
	return true
}

func (e *env) state() string {
	var ids []int
	for n := range e.colls {
		ids = append(ids, n)
	}
	sort.Ints(ids)
	var rows []string
	for _, n := range ids {
		c := e.colls[n]
		c.mu.Lock()
		if len(c.recv) > 0 {
			var ss []string
			for _, g := range c.recv {
				ss = append(ss, fmt.Sprintf("%d.%d.%d", g.task, g.kind, g.payload))
			}
			rows = append(rows, fmt.Sprintf("%d:%s", n, strings.Join(ss, ",")))
		}
		c.mu.Unlock()
	}
	inbox := "-"
	if len(rows) > 0 {
		inbox = strings.Join(rows, " ")
	}
	byTask := map[int][]string{}
	var ts []int
	for _, r := range e.reads {
		if _, ok := byTask[r.task]; !ok {
			ts = append(ts, r.task)
		}
		byTask[r.task] = append(byTask[r.task], fmt.Sprintf("%d.%d", r.cid, r.payload))
	}
	sort.Ints(ts)
	var rr []string
	for _, t := range ts {
		rr = append(rr, fmt.Sprintf("%d:%s", t, strings.Join(byTask[t], ",")))
	}
	read := "-"
	if len(rr) > 0 {
		read = strings.Join(rr, " ")
	}
	return fmt.Sprintf("inbox=%s read=%s waiting=%d", inbox, read, e.waiting)
}

func (e *env) fail(key, desc string) { e.h.Fail("C17:"+key, desc) }

func (e *env) reset(seq int) {
	// let every sender of the previous sequence go
	for t, ch := range e.chans {
		_ = ch
		e.ls.RemoveTask(taskID(t))
	}
	e.wg.Wait()
	e.ls = fractal.NewLocalSuperior()
	e.ctx = context.Background()
	e.colls, e.subbed, e.chans = map[int]*coll{}, map[int]bool{}, map[int]chan *fractal.CollectorMsg{}
	e.latest, e.reads, e.pending, e.waiting = -1, nil, map[int]int{}, 0
	e.reported = map[string]int{}
	for n := 1; n <= 4; n++ {
		e.colls[n] = &coll{n: n, id: uid("coll", seq*10+n)}
	}
	e.h.Emit(fmt.Sprintf("reset %d", seq), "ok")
}

func (e *env) add(t, kind, payload int, target int) {
	before := map[int]int{}
	for n, c := range e.colls {
		before[n] = c.count()
	}
	tg := uuid.Nil
	tok := "all"
	if target > 0 {
		tg = e.colls[target].id
		tok = strconv.Itoa(target)
	}
	var ch chan *fractal.CollectorMsg
	if !guard(5*time.Second, func() { ch = e.ls.AddTask(e.ctx, tg, mkReq(t, kind, payload)) }) {
		e.fail("add-task-hangs", "AddTask did not return within 5 s")
		return
	}
	e.chans[t] = ch
	// the requests are handed over by a worker pool: wait for the collectors that must get it
	want := func() bool {
		for n, c := range e.colls {
			need := before[n]
			if (target == 0 && e.subbed[n]) || target == n && e.subbed[n] {
				need++
			}
			if c.count() < need {
				return false
			}
		}
		return true
	}
	if !e.settle(want) {
		e.fail("request-not-delivered", fmt.Sprintf("task %d was not handed to every collector it is for within 5 s", t))
	}
	if target == 0 {
		e.latest = t
	}
	time.Sleep(300 * time.Microsecond)
	e.h.Emit(fmt.Sprintf("add %d %d %d %s", t, kind, payload, tok), "ok "+e.state())
}

func (e *env) remove(t int) {
	if !guard(5*time.Second, func() { e.ls.RemoveTask(taskID(t)) }) {
		e.fail("remove-task-hangs", "RemoveTask did not return within 5 s")
		return
	}
	if _, ok := e.chans[t]; ok {
		delete(e.chans, t)
		// senders that waited for room get ErrClosedPipe and return
		n := e.pending[t]
		e.pending[t] = 0
		e.waiting -= n
		if e.latest == t {
			e.latest = -1
		}
	}
	e.h.Emit(fmt.Sprintf("remove %d", t), "ok "+e.state())
}

func (e *env) sub(n int) {
	c := e.colls[n]
	before := c.count()
	if !guard(5*time.Second, func() { e.ls.Subscribe(e.ctx, c) }) {
		e.fail("subscribe-hangs", "Subscribe did not return within 5 s")
		return
	}
	e.subbed[n] = true
	if e.latest >= 0 {
		if !e.settle(func() bool { return c.count() > before }) {
			e.fail("latest-not-delivered", fmt.Sprintf("collector %d subscribed while task %d was current and did not get it", n, e.latest))
		}
	}
	time.Sleep(300 * time.Microsecond)
	e.h.Emit(fmt.Sprintf("sub %d", n), "ok "+e.state())
}

func (e *env) unsub(n int) {
	e.ls.Unsubscribe(e.ctx, e.colls[n])
	delete(e.subbed, n)
	e.h.Emit(fmt.Sprintf("unsub %d", n), "ok "+e.state())
}

func (e *env) report(n, t, payload int) {
	if e.pending[t] > 0 {
		// one sender already waits for room in this task's channel.  A second one would queue up behind it in the
		// order the two goroutines reach the channel, which the harness cannot fix under load: not generated (the
		// order among waiting senders is the Go runtime's, see the trusted base)
		return
	}
	ch, open := e.chans[t]
	c := e.colls[n]
	call := func() error { return e.ls.ReportSignature(e.ctx, c.id, mkReport(t, payload)) }
	if open {
		e.reported[fmt.Sprintf("%d/%d/%d", t, n, payload)]++
	}
	if open && (len(ch) == cap(ch) || e.pending[t] > 0) {
		// the channel is full: this sender waits (holding nothing) until the waiter reads or the task is removed
		e.pending[t]++
		e.waiting++
		e.wg.Add(1)
		go func() { defer e.wg.Done(); call() }()
		time.Sleep(2 * time.Millisecond) // senders queue up in the order they were issued
	} else {
		if !guard(5*time.Second, func() { call() }) {
			e.fail("report-hangs", fmt.Sprintf("a report for task %d (channel not full) did not return within 5 s", t))
			return
		}
	}
	e.h.Emit(fmt.Sprintf("report %d %d %d", n, t, payload), "ok "+e.state())
}

func (e *env) read(t int) {
	ch, open := e.chans[t]
	if open {
		select {
		case m, ok := <-ch:
			if ok && m != nil {
				r := rd{taskNum(m.Msg.ID()), e.cidNum(m.CollectorID), payloadOf(m.Msg)}
				e.reads = append(e.reads, r)
				e.h.Res.OracleEvals++
				if r.task != t {
					e.fail("report-to-wrong-task", fmt.Sprintf("the waiter of task %d read a report naming task %d", t, r.task))
				}
				k := fmt.Sprintf("%d/%d/%d", r.task, r.cid, r.payload)
				if e.reported[k] == 0 {
					e.fail("report-altered", fmt.Sprintf("the waiter of task %d read (collector %d, payload %d), which nobody reported (or more often than reported)", t, r.cid, r.payload))
				}
				e.reported[k]--
				if e.pending[t] > 0 {
					// the longest-waiting sender gets through
					e.settle(func() bool { return len(ch) == cap(ch) })
					e.pending[t]--
					e.waiting--
				}
			}
		default:
		}
	}
	e.h.Emit(fmt.Sprintf("read %d", t), "ok "+e.state())
}

func main() {
	h := hx.New("fractal")
	e := &env{h: h, chans: map[int]chan *fractal.CollectorMsg{}}
	e.ls = fractal.NewLocalSuperior()
	if ls := h.ReplayLines(); ls != nil {
		for _, l := range ls {
			e.exec(strings.Fields(l))
		}
	} else {
		for s := 1; s <= h.N; s++ {
			e.generate(s)
		}
		network(h)
	}
	for t := range e.chans {
		e.ls.RemoveTask(taskID(t))
	}
	e.wg.Wait()
	h.Finish("C17: label sequences on the real LocalSuperior with scripted collectors (requests handed to collectors and reports read by waiters compared with the model after every label); real TCP topologies with one and two relay levels; every add/remove/subscribe/stop under a watchdog")
}

func (e *env) exec(t []string) {
	a := func(i int) int { v, _ := strconv.Atoi(t[i]); return v }
	switch t[0] {
	case "reset":
		e.reset(a(1))
	case "add":
		tg := 0
		if t[4] != "all" {
			tg = a(4)
		}
		e.add(a(1), a(2), a(3), tg)
	case "remove":
		e.remove(a(1))
	case "sub":
		e.sub(a(1))
	case "unsub":
		e.unsub(a(1))
	case "report":
		e.report(a(1), a(2), a(3))
	case "read":
		e.read(a(1))
	}
}

func (e *env) generate(seq int) {
	r := e.h.Rng
	e.reset(seq)
	nextTask := seq * 100
	var tasks []int // ever added in this sequence
	pay := 0
	for i, n := 0, 8+r.Intn(e.h.Len); i < n; i++ {
		pick := func() int {
			if len(tasks) == 0 || r.Intn(10) == 0 {
				return seq*100 + 90 + r.Intn(3) // a task nobody added
			}
			return tasks[r.Intn(len(tasks))]
		}
		switch k := r.Intn(20); {
		case k < 3:
			nextTask++
			tasks = append(tasks, nextTask)
			pay++
			// what is replayed to later subscribers is decided by broadcast-vs-targeted, not by the kind of request
			e.add(nextTask, []int{1, 1, 1, 3, 5}[r.Intn(5)], pay, 0)
		case k < 5:
			nextTask++
			tasks = append(tasks, nextTask)
			pay++
			e.add(nextTask, []int{3, 5, 1}[r.Intn(3)], pay, 1+r.Intn(4))
		case k < 8:
			e.sub(1 + r.Intn(4))
		case k == 8:
			e.unsub(1 + r.Intn(4))
		case k < 15:
			pay++
			t := pick()
			e.report(1+r.Intn(4), t, pay)
			if r.Intn(6) == 0 { // a burst that fills the channel
				for j := 0; j < 11; j++ {
					pay++
					e.report(1+r.Intn(4), t, pay)
				}
			}
		case k < 18:
			e.read(pick())
		default:
			e.remove(pick())
		}
	}
	// drain what is left, so that the order of everything accepted is compared
	for _, t := range tasks {
		for j := 0; j < 14; j++ {
			e.read(t)
		}
	}
	time.Sleep(5 * time.Millisecond)
	e.h.Emit("read 0", "ok "+e.state()) // a last look: nothing arrives late (duplicates)
	// every report made for a task that is still there has reached its waiter by now (the waiter has read until nothing
	// was left and no sender waits): none was dropped on the way, however full the task's queue was when it was made
	for _, t := range tasks {
		if ch, open := e.chans[t]; open && len(ch) == 0 && e.pending[t] == 0 {
			e.h.Res.OracleEvals++
			for k, n := range e.reported {
				if n > 0 && strings.HasPrefix(k, fmt.Sprintf("%d/", t)) {
					e.fail("report-lost", fmt.Sprintf("a report (task/collector/payload %s) made for task %d, which was never removed, did not reach its waiter although the waiter drained the queue", k, t))
					break
				}
			}
		}
	}
}

func freePort() string {
	l, err := net.Listen("tcp", "127.0.0.1:0")
	if err != nil {
		panic(err)
	}
	a := l.Addr().String()
	l.Close()
	return a
}

var _ = connection.DialAddress
