package main

import (
	"context"
	"fmt"
	"time"

	"github.com/google/uuid"
	"massnet.org/mass/fractal"
	"massnet.org/mass/fractal/connection"
	"massnet.org/mass/fractal/protocol"
	"verifharness/hx"
)

// node: a relay or leaf — a PersistentRemoteSuperior dialling its parent, scripted collectors subscribed to it and
// (for a relay) a CollectorPool listening for children
type node struct {
	rs     *fractal.PersistentRemoteSuperior
	stopRS context.CancelFunc
	pool   *fractal.CollectorPool
	stopP  context.CancelFunc
	addr   string
	colls  []*coll
}

func dial(parent string, ncoll int, listen bool, base int) (*node, error) {
	n := &node{}
	rs, stop, err := fractal.NewPersistentRemoteSuperior(context.Background(), connection.DialAddress(parent), connection.DialNetwork("tcp"), connection.DialTimeout(3*time.Second))
	if err != nil {
		return nil, err
	}
	n.rs, n.stopRS = rs, stop
	for i := 0; i < ncoll; i++ {
		c := &coll{n: base + i, id: uid("netcoll", base+i)}
		n.colls = append(n.colls, c)
		rs.Subscribe(context.Background(), c)
	}
	if listen {
		n.addr = freePort()
		p, stopP, err := fractal.NewCollectorPool(context.Background(), rs, fractal.CollectorPoolListenAddress(n.addr))
		if err != nil {
			return nil, err
		}
		n.pool, n.stopP = p, stopP
	}
	return n, nil
}

// network: superior + pool; relay R1 (two collectors, pool); leaf L under R1 (one collector); leaf D directly
// under the superior (one collector).
func network(h *hx.H) {
	fail := func(key, desc string) { h.Fail("C17:"+key, desc) }
	ctx := context.Background()
	ls := fractal.NewLocalSuperior()
	addr := freePort()
	pool, stopPool, err := fractal.NewCollectorPool(ctx, ls, fractal.CollectorPoolListenAddress(addr))
	if err != nil {
		fail("net-setup", err.Error())
		return
	}
	r1, err := dial(addr, 2, true, 100)
	if err != nil {
		fail("net-setup", err.Error())
		return
	}
	leaf, err := dial(r1.addr, 1, false, 200)
	if err != nil {
		fail("net-setup", err.Error())
		return
	}
	direct, err := dial(addr, 1, false, 300)
	if err != nil {
		fail("net-setup", err.Error())
		return
	}
	wait := func(what string, f func() bool) bool {
		deadline := time.Now().Add(8 * time.Second)
		for !f() {
			if time.Now().After(deadline) {
				fail("net-not-delivered", what)
				return false
			}
			time.Sleep(time.Millisecond)
		}
		return true
	}
	if !wait("the pools did not register their connections", func() bool { return pool.Count() == 2 && r1.pool.Count() == 1 }) {
		return
	}
	all := append(append(append([]*coll{}, r1.colls...), leaf.colls...), direct.colls...)
	rounds := 6
	if h.Tier == "thorough" {
		rounds = 60
	}
	for round := 0; round < rounds; round++ {
		h.Res.OracleEvals++
		// a broadcast task reaches every collector once, through zero, one and two relays
		t := 900000 + round
		before := map[*coll]int{}
		for _, c := range all {
			before[c] = c.count()
		}
		ch := ls.AddTask(ctx, uuid.Nil, mkReq(t, 1, round))
		if !wait(fmt.Sprintf("broadcast task %d did not reach every collector behind the relays", t), func() bool {
			for _, c := range all {
				if c.count() <= before[c] {
					return false
				}
			}
			return true
		}) {
			return
		}
		time.Sleep(20 * time.Millisecond)
		for _, c := range all {
			c.mu.Lock()
			n := 0
			for _, g := range c.recv {
				if g.task == t {
					n++
					if g.kind != 1 || g.payload != round {
						fail("net-request-altered", fmt.Sprintf("collector %d got task %d as kind %d payload %d", c.n, t, g.kind, g.payload))
					}
				}
			}
			c.mu.Unlock()
			if n != 1 {
				fail("net-broadcast-count", fmt.Sprintf("collector %d got broadcast task %d %d times", c.n, t, n))
			}
		}
		// reports: from the leaf (two relays), from the relay's own collector (one relay), from the direct one;
		// interleaved; each must arrive unmodified, in order per connection, tagged with ONE id per connection
		type sent struct{ who, payload int }
		var order []sent
		for i := 0; i < 4; i++ {
			for who, n := range []*node{leaf, r1, direct} {
				p := round*1000 + who*100 + i
				if err := n.rs.ReportSignature(ctx, n.colls[0].id, mkReport(t, p)); err != nil {
					fail("net-report-error", err.Error())
				}
				order = append(order, sent{who, p})
			}
		}
		gotBy := map[uuid.UUID][]int{}
		for i := 0; i < len(order); i++ {
			select {
			case m, ok := <-ch:
				if !ok {
					fail("net-channel-closed", "the task channel was closed while the task was open")
					return
				}
				if taskNum(m.Msg.ID()) != t {
					fail("report-to-wrong-task", fmt.Sprintf("the waiter of task %d read a report naming task %d", t, taskNum(m.Msg.ID())))
				}
				gotBy[m.CollectorID] = append(gotBy[m.CollectorID], payloadOf(m.Msg))
			case <-time.After(8 * time.Second):
				fail("net-report-lost", fmt.Sprintf("only %d of %d reports arrived at the waiter of task %d", i, len(order), t))
				return
			}
		}
		// two connections at the top: the relay's (carrying leaf + relay reports) and the direct one
		if len(gotBy) != 2 {
			fail("net-tagging", fmt.Sprintf("reports of two connections arrived tagged with %d different collector ids", len(gotBy)))
		}
		for id, ps := range gotBy {
			byWho := map[int][]int{}
			for _, p := range ps {
				if p < 0 {
					fail("report-altered", fmt.Sprintf("a report arrived with an altered payload (collector %s)", id))
					continue
				}
				byWho[(p%1000)/100] = append(byWho[(p%1000)/100], p)
			}
			for who, l := range byWho {
				for i := 1; i < len(l); i++ {
					if l[i] < l[i-1] {
						fail("net-order", fmt.Sprintf("reports of sender %d arrived out of order: %v", who, l))
					}
				}
				if len(l) != 4 {
					fail("net-report-count", fmt.Sprintf("sender %d: %d of 4 reports arrived (%v)", who, len(l), l))
				}
			}
		}
		// a targeted task goes to the connection it names and to no other connection
		var relayID, directID uuid.UUID
		for id, ps := range gotBy {
			if (ps[0]%1000)/100 == 2 {
				directID = id
			} else {
				relayID = id
			}
		}
		for _, c := range all {
			before[c] = c.count()
		}
		tt := 950000 + round
		ch2 := ls.AddTask(ctx, directID, mkReq(tt, 3, round))
		if !wait("a targeted task did not reach its target", func() bool { return direct.colls[0].count() > before[direct.colls[0]] }) {
			return
		}
		time.Sleep(20 * time.Millisecond)
		for _, c := range all {
			if c != direct.colls[0] && c.count() != before[c] {
				fail("net-targeted-leak", fmt.Sprintf("a task targeted at the direct collector also reached collector %d", c.n))
			}
		}
		_ = relayID
		if !guard(5*time.Second, func() { ls.RemoveTask(taskID(t)); ls.RemoveTask(taskID(tt)) }) {
			fail("remove-task-hangs", "RemoveTask did not return within 5 s (network)")
			return
		}
		_ = ch2
		// a report for the removed task is dropped and disturbs nothing
		leaf.rs.ReportSignature(ctx, leaf.colls[0].id, mkReport(t, 7))
	}
	// back-to-back requests: three tasks added without waiting in between must reach every collector, each
	// once and unmodified (several frames in flight on one connection)
	{
		h.Res.OracleEvals++
		base := 960000
		const burst = 40
		for i := 0; i < burst; i++ {
			// payloads of different decimal lengths: the frames differ in size
			ls.AddTask(ctx, uuid.Nil, mkReq(base+i, 1, 7*pow10(i%7)+i))
		}
		ok := wait("the back-to-back broadcast tasks did not all reach every collector", func() bool {
			for _, c := range all {
				n := 0
				c.mu.Lock()
				for _, g := range c.recv {
					if g.task >= base && g.task < base+burst {
						n++
					}
				}
				c.mu.Unlock()
				if n < burst {
					return false
				}
			}
			return true
		})
		time.Sleep(20 * time.Millisecond)
		for _, c := range all {
			c.mu.Lock()
			var seq []int
			for _, g := range c.recv {
				if g.task >= base && g.task < base+burst {
					seq = append(seq, g.task-base)
					if g.kind != 1 || g.payload != 7*pow10((g.task-base)%7)+(g.task-base) {
						fail("net-request-altered", fmt.Sprintf("collector %d got back-to-back task %d as kind %d payload %d", c.n, g.task, g.kind, g.payload))
					}
				}
			}
			c.mu.Unlock()
			// (the order of the three among themselves is not part of the property: requests are handed over by a worker pool)
			if ok && len(seq) != burst {
				fail("net-broadcast-count", fmt.Sprintf("collector %d got the %d back-to-back tasks as %v", c.n, burst, seq))
			}
		}
		for i := 0; i < burst; i++ {
			ls.RemoveTask(taskID(base + i))
		}
		if !ok {
			return
		}
	}
	// a task whose waiter stopped reading: 12 reports pile up; removing it, adding another task and reporting to
	// that one still work
	t := 990000
	ls.AddTask(ctx, uuid.Nil, mkReq(t, 1, 1))
	for i := 0; i < 14; i++ {
		direct.rs.ReportSignature(ctx, direct.colls[0].id, mkReport(t, i))
	}
	time.Sleep(50 * time.Millisecond)
	h.Res.OracleEvals++
	if !guard(5*time.Second, func() { ls.RemoveTask(taskID(t)) }) {
		fail("remove-task-hangs", "RemoveTask of a task with a full channel did not return within 5 s")
		return
	}
	t2 := 990001
	var ch3 chan *fractal.CollectorMsg
	if !guard(5*time.Second, func() { ch3 = ls.AddTask(ctx, uuid.Nil, mkReq(t2, 1, 2)) }) {
		fail("add-task-hangs", "AddTask after a task with a full channel did not return within 5 s")
		return
	}
	leaf.rs.ReportSignature(ctx, leaf.colls[0].id, mkReport(t2, 5))
	select {
	case m := <-ch3:
		if m == nil || payloadOf(m.Msg) != 5 {
			fail("report-altered", "the report after the blocked task arrived altered")
		}
	case <-time.After(8 * time.Second):
		fail("net-report-lost", "a report for another task did not arrive after a task's channel had filled up")
	}
	// dropping and stopping: everything returns promptly, in any order
	h.Res.OracleEvals++
	for what, f := range map[string]func(){
		"stop of the leaf's remote superior":    func() { leaf.stopRS() },
		"stop of the relay's collector pool":    func() { r1.stopP() },
		"stop of the relay's remote superior":   func() { r1.stopRS() },
		"stop of the direct remote superior":    func() { direct.stopRS() },
		"stop of the superior's collector pool": func() { stopPool() },
	} {
		if !guard(10*time.Second, f) {
			fail("stop-hangs", what+" did not return within 10 s")
		}
	}
	if !guard(5*time.Second, func() {
		ls.RemoveTask(taskID(t2))
		ls.AddTask(ctx, uuid.Nil, mkReq(990002, 1, 3))
		ls.RemoveTask(taskID(990002))
	}) {
		fail("add-task-hangs", "AddTask/RemoveTask after every connection was stopped did not return within 5 s")
	}
	h.Res.Extra["network_rounds"] = rounds
	subscribeDuringBroadcast(h)
	subscribeWhileTaskCurrent(h)
	connLanes(h)
	_ = protocol.MsgTypeReserved
}

// parkColl: a collector whose ID() parks its first caller (Subscribe calls it while registering)
type parkColl struct {
	coll
	park chan struct{}
}

func (c *parkColl) ID() uuid.UUID {
	if p := c.park; p != nil {
		c.park = nil
		<-p
	}
	return c.id
}

// subscribeDuringBroadcast: a collector's registration is in progress when a broadcast task is added; however the
// two calls interleave, the collector must be handed the task exactly once (local and remote superior)
func subscribeDuringBroadcast(h *hx.H) {
	ctx := context.Background()
	for round := 0; round < 3; round++ {
		h.Res.OracleEvals++
		ls := fractal.NewLocalSuperior()
		c := &parkColl{coll: coll{n: 1, id: uid("park", round)}, park: make(chan struct{})}
		park := c.park
		go ls.Subscribe(ctx, c)
		time.Sleep(time.Duration(5+10*round) * time.Millisecond)
		t := 980000 + round
		done := make(chan struct{})
		go func() { ls.AddTask(ctx, uuid.Nil, mkReq(t, 1, 1)); close(done) }()
		time.Sleep(time.Duration(5+10*round) * time.Millisecond)
		close(park)
		select {
		case <-done:
		case <-time.After(5 * time.Second):
			h.Fail("C17:add-task-hangs", "AddTask concurrent with a Subscribe did not return within 5 s")
			return
		}
		time.Sleep(30 * time.Millisecond)
		if n := c.count(); n != 1 {
			h.Fail("C17:broadcast-count", fmt.Sprintf("a collector whose Subscribe overlapped AddTask was handed the broadcast task %d times", n))
		}
		ls.RemoveTask(taskID(t))
	}
}

// connLanes: a real Conn pair over loopback; messages sent on the normal and on the priority lane in a random
// interleaving must arrive complete and in order lane by lane (the Lean model's C17_connection_order_per_lane)
func connLanes(h *hx.H) {
	fail := func(key, desc string) { h.Fail("C17:"+key, desc) }
	addr := freePort()
	l, err := fractal.NewListener("tcp", addr)
	if err != nil {
		fail("net-setup", err.Error())
		return
	}
	defer l.Close()
	type acc struct {
		c      *connection.Conn
		cancel context.CancelFunc
		err    error
	}
	ac := make(chan acc, 1)
	go func() { c, cancel, err := l.Accept(); ac <- acc{c, cancel, err} }()
	out, cancelOut, err := fractal.NewDialer(connection.DialAddress(addr), connection.DialNetwork("tcp"), connection.DialTimeout(3*time.Second)).Dial()
	if err != nil {
		fail("net-setup", err.Error())
		return
	}
	in := <-ac
	if in.err != nil {
		fail("net-setup", in.err.Error())
		return
	}
	ctx := context.Background()
	n := 400
	var sent [2][]int
	go func() {
		for i := 0; i < n; i++ {
			laneNo := h.Rng.Intn(2)
			msg := []byte{byte(laneNo), byte(i >> 8), byte(i)}
			if laneNo == 1 {
				out.SendPriority(ctx, msg)
			} else {
				out.Send(ctx, msg)
			}
		}
	}()
	var got [2][]int
	for i := 0; i < n; i++ {
		rctx, c := context.WithTimeout(ctx, 8*time.Second)
		b, err := in.c.Read(rctx)
		c()
		if err != nil || len(b) != 3 {
			fail("conn-message-lost", fmt.Sprintf("only %d of %d messages arrived over the connection (%v)", i, n, err))
			break
		}
		got[b[0]&1] = append(got[b[0]&1], int(b[1])<<8|int(b[2]))
	}
	_ = sent
	h.Res.OracleEvals++
	for laneNo := 0; laneNo < 2; laneNo++ {
		for i := 1; i < len(got[laneNo]); i++ {
			if got[laneNo][i] <= got[laneNo][i-1] {
				fail("conn-lane-order", fmt.Sprintf("lane %d: message %d arrived after message %d", laneNo, got[laneNo][i], got[laneNo][i-1]))
				break
			}
		}
	}
	if len(got[0])+len(got[1]) != n {
		fail("conn-message-lost", fmt.Sprintf("%d of %d messages arrived", len(got[0])+len(got[1]), n))
	}
	if !guard(5*time.Second, func() { cancelOut(); in.cancel() }) {
		fail("stop-hangs", "stopping a connection did not return within 5 s")
	}
}

// slowColl: a collector that is slow to take the first request it is handed
type slowColl struct {
	coll
	hold chan struct{}
	held chan struct{}
}

func (c *slowColl) RequestQualities(ctx context.Context, m *protocol.RequestQualities) error {
	if h := c.hold; h != nil {
		c.hold = nil
		c.held <- struct{}{}
		<-h
	}
	return c.coll.RequestQualities(ctx, m)
}

// subscribeWhileTaskCurrent: a collector subscribes while task A is current and is slow to take A; task B is
// broadcast meanwhile.  The collector must end up with A once and B once.
func subscribeWhileTaskCurrent(h *hx.H) {
	ctx := context.Background()
	h.Res.OracleEvals++
	ls := fractal.NewLocalSuperior()
	a, b := 985000, 985001
	ls.AddTask(ctx, uuid.Nil, mkReq(a, 1, 1))
	c := &slowColl{coll: coll{n: 1, id: uid("slow", 1)}, hold: make(chan struct{}), held: make(chan struct{}, 1)}
	hold := c.hold
	subDone := make(chan struct{})
	go func() { ls.Subscribe(ctx, c); close(subDone) }()
	select {
	case <-c.held:
	case <-time.After(5 * time.Second):
		h.Fail("C17:latest-not-delivered", "a collector subscribing while a task is current was not handed it within 5 s")
		return
	}
	addDone := make(chan struct{})
	go func() { ls.AddTask(ctx, uuid.Nil, mkReq(b, 1, 2)); close(addDone) }()
	time.Sleep(30 * time.Millisecond)
	close(hold)
	for _, d := range []chan struct{}{subDone, addDone} {
		select {
		case <-d:
		case <-time.After(5 * time.Second):
			h.Fail("C17:add-task-hangs", "Subscribe / AddTask overlapping a slow collector did not return within 5 s")
			return
		}
	}
	time.Sleep(50 * time.Millisecond)
	na, nb := 0, 0
	c.mu.Lock()
	for _, g := range c.recv {
		if g.task == a {
			na++
		}
		if g.task == b {
			nb++
		}
	}
	c.mu.Unlock()
	if na != 1 || nb != 1 {
		h.Fail("C17:broadcast-count", fmt.Sprintf("a collector that subscribed while task A was current and took it slowly got A %d times and the task B broadcast meanwhile %d times (want 1 and 1)", na, nb))
	}
	ls.RemoveTask(taskID(a))
	ls.RemoveTask(taskID(b))
}

func pow10(n int) int {
	p := 1
	for i := 0; i < n; i++ {
		p *= 10
	}
	return p
}
