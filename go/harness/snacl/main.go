// Harness for the snacl model (C01 / C04): the parameter block through SecretKey.Marshal / Unmarshal, the box format
// through CryptoKey.Encrypt / Decrypt, and - as oracles on the libraries the wallet theorems take as laws - that a box
// opens only unmodified and under its own key, and that DeriveKey accepts exactly the creating passphrase.
package main

import (
	"bytes"
	"fmt"
	"math"

	"massnet.org/mass/poc/wallet/keystore/snacl"
	"verifharness/hx"
)

func errName(err error) string {
	switch err {
	case nil:
		return "ok"
	case snacl.ErrMalformed:
		return "err malformed"
	case snacl.ErrDecryptFailed:
		return "err decryptFailed"
	case snacl.ErrInvalidPassword:
		return "err invalidPassword"
	}
	return "err other"
}

func main() {
	h := hx.New("snacl")
	r := h.Rng
	h.Emit("reset", "ok")
	edge := []int{0, 1, 2, 8, 16, 255, 256, 16384, 1 << 20, math.MaxInt32, math.MaxInt64, math.MaxInt64 - 1, 1 << 62}
	rnd := func(n int) []byte { b := make([]byte, n); r.Read(b); return b }
	num := func() int {
		if r.Intn(2) == 0 {
			return edge[r.Intn(len(edge))]
		}
		return int(r.Int63())
	}
	for i := 0; i < h.N*20; i++ {
		// marshal of structured parameters
		var sk snacl.SecretKey
		copy(sk.Parameters.Salt[:], rnd(32))
		copy(sk.Parameters.Digest[:], rnd(32))
		sk.Parameters.N, sk.Parameters.R, sk.Parameters.P = num(), num(), num()
		m := sk.Marshal()
		h.Emit(fmt.Sprintf("marshal salt=%x digest=%x n=%d r=%d p=%d", sk.Parameters.Salt, sk.Parameters.Digest, sk.Parameters.N, sk.Parameters.R, sk.Parameters.P), hx.Hex(m))
		// unmarshal: the block just written, a random block of the right length (numbers beyond int), wrong lengths
		var b []byte
		switch r.Intn(5) {
		case 0:
			b = m
		case 1:
			b = rnd(88)
		case 2:
			b = rnd(88)
			for k := 64; k < 88; k++ {
				if r.Intn(2) == 0 {
					b[k] = 0xff
				}
			}
		case 3:
			b = rnd([]int{0, 1, 24, 32, 64, 87, 89, 96, 176}[r.Intn(9)])
		default:
			b = append(append([]byte(nil), m...), rnd(r.Intn(3))...)
			if r.Intn(2) == 0 && len(b) > 0 {
				b = b[:len(b)-1-r.Intn(2)]
			}
		}
		var sk2 snacl.SecretKey
		out := errName(sk2.Unmarshal(b))
		if out == "ok" {
			out = fmt.Sprintf("ok salt=%x digest=%x n=%d r=%d p=%d", sk2.Parameters.Salt, sk2.Parameters.Digest, sk2.Parameters.N, sk2.Parameters.R, sk2.Parameters.P)
			h.Res.OracleEvals++
			if !bytes.Equal(sk2.Marshal(), b) {
				h.Fail("C01:params-block-not-stable", "Marshal(Unmarshal(b)) differs from b")
			}
		}
		h.Emit("unmarshal b="+hx.Hex(b), out)
	}
	// the box format and the library laws the wallet theorems assume
	for i := 0; i < h.N; i++ {
		key, _ := snacl.GenerateCryptoKey()
		other, _ := snacl.GenerateCryptoKey()
		msg := rnd(r.Intn(80))
		box, err := key.Encrypt(msg)
		h.Res.OracleEvals++
		if err != nil || len(box) != snacl.NonceSize+snacl.Overhead+len(msg) {
			h.Fail("C04:box-format", fmt.Sprintf("Encrypt of %d bytes returned %d bytes (%v)", len(msg), len(box), err))
			continue
		}
		if back, err := key.Decrypt(box); err != nil || !bytes.Equal(back, msg) {
			h.Fail("C01:box-roundtrip", "Decrypt(Encrypt(m)) != m")
		}
		h.Emit(fmt.Sprintf("decrypt len=%d opens=1", len(box)), "ok")
		if _, err := other.Decrypt(box); err != snacl.ErrDecryptFailed {
			h.Fail("C04:box-opens-under-another-key", fmt.Sprintf("a box sealed under one key opened under another (%v)", err))
		}
		h.Emit(fmt.Sprintf("decrypt len=%d opens=0", len(box)), errName(func() error { _, e := other.Decrypt(box); return e }()))
		// every single-byte modification is rejected
		for pos := range box {
			mod := append([]byte(nil), box...)
			mod[pos] ^= byte(1 + r.Intn(255))
			h.Res.OracleEvals++
			if _, err := key.Decrypt(mod); err != snacl.ErrDecryptFailed {
				h.Fail("C01:modified-box-accepted", fmt.Sprintf("a box modified at byte %d of %d was not rejected (%v)", pos, len(box), err))
				break
			}
		}
		// truncations
		for _, n := range []int{0, 1, 23, 24, 25, snacl.NonceSize + snacl.Overhead - 1} {
			if n > len(box) {
				continue
			}
			_, err := key.Decrypt(box[:n])
			opens := 0
			if err == nil {
				opens = 1
				h.Fail("C01:truncated-box-accepted", fmt.Sprintf("a box cut to %d bytes opened", n))
			}
			h.Emit(fmt.Sprintf("decrypt len=%d opens=%d", n, opens), errName(err))
		}
	}
	// DeriveKey: the creating passphrase and only it; the block carries everything needed
	for i := 0; i < 1+h.N/10; i++ {
		pass, wrong := rnd(6+r.Intn(20)), rnd(6+r.Intn(20))
		sk, err := snacl.NewSecretKey(&pass, 16, 8, 1)
		if err != nil {
			panic(err)
		}
		keyCopy := *sk.Key
		var sk2 snacl.SecretKey
		h.Res.OracleEvals++
		if err := sk2.Unmarshal(sk.Marshal()); err != nil {
			h.Fail("C01:params-roundtrip", "Unmarshal(Marshal()) failed: "+err.Error())
			continue
		}
		if err := sk2.DeriveKey(&pass); err != nil || *sk2.Key != keyCopy {
			h.Fail("C03:creating-passphrase-refused", fmt.Sprintf("DeriveKey with the creating passphrase after a marshal round trip: %v, same key: %v", err, *sk2.Key == keyCopy))
		}
		var sk3 snacl.SecretKey
		sk3.Unmarshal(sk.Marshal())
		if err := sk3.DeriveKey(&wrong); err != snacl.ErrInvalidPassword {
			h.Fail("C03:wrong-passphrase-derives", fmt.Sprintf("DeriveKey with another passphrase: %v", err))
		}
		// one flipped byte anywhere in the block: the passphrase no longer derives (salt, digest) or scrypt refuses / derives another key (N, r, p)
		blk := sk.Marshal()
		pos := r.Intn(64)
		blk[pos] ^= byte(1 + r.Intn(255))
		var sk4 snacl.SecretKey
		sk4.Unmarshal(blk)
		if err := sk4.DeriveKey(&pass); err == nil {
			h.Fail("C01:tampered-params-accepted", fmt.Sprintf("DeriveKey accepted the passphrase although byte %d of the parameter block was altered", pos))
		}
	}
	h.Finish("parameter blocks (edge and random numbers, right and wrong lengths), boxes (round trip, other key, every single-byte modification, truncations), DeriveKey (creating / other passphrase, tampered block)")
}
