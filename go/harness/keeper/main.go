// Harness C09 / C11 (actions) / C13: the real space keeper (capacity.SpaceKeeper) with a scripted plot
// backend and wallet.  The plotter goroutine is parked at the gates of hook H3 (capacity.VerifGate), so the
// harness — not the Go scheduler — decides when it takes its next micro-step, and the backend's Plot() ends
// when the harness says so.  A schedule is a sequence of labels of Model/Keeper.lean, one per line.
package main

import (
	"context"
	"crypto/sha256"
	"flag"
	"fmt"
	"github.com/massnetorg/mass-core/poc/pocutil"
	"os"
	"os/exec"
	"path/filepath"
	"sort"
	"strconv"
	"strings"
	"sync"
	"sync/atomic"
	"time"

	"github.com/massnetorg/mass-core/pocec"
	"massnet.org/mass/config"
	"massnet.org/mass/poc/engine"
	massdb_v1 "massnet.org/mass/poc/engine/massdb/massdb.v1"
	"massnet.org/mass/poc/engine/spacekeeper/capacity"
	"verifharness/hx"
)

func keyFor(seed string, i int) *pocec.PrivateKey {
	s := sha256.Sum256([]byte(seed + "-" + strconv.Itoa(i)))
	priv, _ := pocec.PrivKeyFromBytes(pocec.S256(), s[:])
	return priv
}

type gateEv struct {
	point, sid string
	rel        chan struct{}
}

type env struct {
	h        *hx.H
	focus    string
	root     string
	w        *fakeWorld
	wallet   *fakeWallet
	sk       *capacity.SpaceKeeper
	ordOf    map[string]int // sid -> ordinal
	sidOf    map[int]string
	nround   int
	gates    chan gateEv
	parked   *gateEv
	pc       string // exited willRecv willPop popped starting plotting finished
	pcOrd    int
	quitting bool
	stopDone chan error
	stuck    bool
	dead     bool // the sequence cannot go on (stuck, or a step the real code would not survive)
	// requests that may still wait in the channel or the queue, by ordinal: "plot" or "mine".  The real
	// queue is a heap: among requests for one space the order is unspecified, so the generator keeps them alike.
	outstanding map[int]string
	mineAsked   map[int]bool // a mine request was accepted for the space and no stop / remove / delete since
	// C09 "a stopped space is not plotted or mined until asked again"
	stopped       map[int]bool
	pendingAtStop map[int]bool                  // a request for the space waited in the channel or the popped slot when it was stopped
	chanOrds      []int                         // what the harness knows to be in the channel
	prevField     map[int]engine.WorkSpaceState // state at the previous dump
	prevUsing     map[int]bool
	poppedOrd     int
	self          string
}

var errNames = map[error]string{
	capacity.ErrWorkSpaceDoesNotExist:  "notExist",
	capacity.ErrWorkSpaceIsNotPlotting: "notPlotting",
	capacity.ErrWorkSpaceIsNotStill:    "notStill",
}

func errName(err error) string {
	if err == nil {
		return "ok"
	}
	if n, ok := errNames[err]; ok {
		return "err " + n
	}
	if err.Error() == "too many pending plot requests" {
		return "err queueFull"
	}
	return "err other:" + strings.ReplaceAll(err.Error(), " ", "_")
}

// guard runs f under a watchdog; false = it did not return in time (deadlock).
func guard(d time.Duration, f func()) bool {
	done := make(chan struct{})
	go func() { f(); close(done) }()
	select {
	case <-done:
		return true
	case <-time.After(d):
		return false
	}
}

var curGates chan gateEv

func init() {
	capacity.VerifGate = func(point, sid string) {
		g := curGates
		if g == nil {
			return
		}
		ev := gateEv{point, sid, make(chan struct{})}
		g <- ev
		<-ev.rel
	}
}

func (e *env) newKeeper(n int) {
	e.nround++
	dir := fmt.Sprintf("%s/k%d", e.root, e.nround)
	os.MkdirAll(dir, 0o755)
	e.w = &fakeWorld{entries: map[string]*entry{}, events: make(chan string, 4096)}
	install(e.w)
	e.wallet = &fakeWallet{seed: "keeper-" + strconv.Itoa(e.nround)}
	cfg := config.DefaultConfig()
	cfg.Miner.ProofDir = []string{dir}
	ski, err := capacity.NewSpaceKeeperV1(cfg, e.wallet)
	if err != nil {
		panic(err)
	}
	e.sk = ski.(*capacity.SpaceKeeper)
	infos, err := e.sk.ConfigureByBitLength(map[int]int{24: n}, false, false)
	if err != nil {
		panic(err)
	}
	e.ordOf, e.sidOf = map[string]int{}, map[int]string{}
	for _, wi := range infos {
		e.ordOf[wi.SpaceID] = int(wi.Ordinal)
		e.sidOf[int(wi.Ordinal)] = wi.SpaceID
	}
	e.gates = make(chan gateEv, 4)
	curGates = e.gates
	e.parked, e.pc, e.pcOrd, e.quitting, e.stuck, e.dead = nil, "exited", -1, false, false, false
	e.outstanding = map[int]string{}
	e.mineAsked = map[int]bool{}
	e.stopped, e.pendingAtStop = map[int]bool{}, map[int]bool{}
	e.chanOrds, e.prevField, e.prevUsing, e.poppedOrd = nil, map[int]engine.WorkSpaceState{}, map[int]bool{}, -1
	for o := range e.sidOf {
		e.prevField[o], e.prevUsing[o] = engine.Registered, true
	}
}

// ---- the plotter's position ----

// await waits for the plotter's next observable position after it was released: a gate, the backend's
// Plot() (it blocks there), or its return (Stop() completes).  false = none within the watchdog.
func (e *env) await(d time.Duration) bool {
	var stopCh chan error
	if e.quitting {
		stopCh = e.stopDone
	}
	select {
	case ev := <-e.gates:
		e.parked = &ev
		switch ev.point {
		case "idle":
			e.pc, e.pcOrd = "willRecv", -1
		case "before-pop":
			e.pc, e.pcOrd = "willPop", -1
		case "popped":
			e.pc, e.pcOrd = "popped", -1
		case "step1-done":
			e.pc, e.pcOrd = "starting", e.ordOf[ev.sid]
		case "plotted":
			e.pc, e.pcOrd = "finished", e.ordOf[ev.sid]
		}
		return true
	case s := <-e.w.events:
		if strings.HasPrefix(s, "start ") {
			o, _ := strconv.Atoi(s[6:])
			e.parked = nil
			e.pc, e.pcOrd = "plotting", o
			return true
		}
		return e.await(d) // an "end" event: the gate "plotted" follows
	case <-stopCh:
		e.parked = nil
		e.pc, e.pcOrd, e.quitting = "exited", -1, false
		return true
	case <-time.After(d):
		return false
	}
}

func (e *env) release() {
	if e.parked != nil {
		close(e.parked.rel)
		e.parked = nil
	}
}

func (e *env) pcString() string {
	switch e.pc {
	case "starting", "plotting", "finished":
		return fmt.Sprintf("%s:%d", e.pc, e.pcOrd)
	}
	return e.pc
}

func b01(b bool) string {
	if b {
		return "1"
	}
	return "0"
}

var stName = []string{"registered", "plotting", "ready", "mining"}

func (e *env) state() (capacity.VerifKeeper, bool) {
	var st capacity.VerifKeeper
	ok := guard(2*time.Second, func() { st = e.sk.VerifState() })
	return st, ok
}

func (e *env) dump() string {
	if e.stuck {
		return "STUCK"
	}
	st, ok := e.state()
	if !ok {
		e.stuck, e.dead = true, true
		return "STUCK"
	}
	type row struct {
		ord int
		s   string
	}
	var rows []row
	nplotting := 0
	for _, sp := range st.Spaces {
		ord := e.ordOf[sp.SID]
		idx := ""
		for _, b := range sp.InIndex {
			idx += b01(b)
		}
		rows = append(rows, row{ord, fmt.Sprintf(" [%d f=%s idx=%s all=%s u=%s]", ord, stName[sp.Field], idx, b01(sp.InAll), b01(sp.Using))})
		// C09: exactly one state map holds the space, and it is the one its state field names
		e.h.Res.OracleEvals++
		if sp.InAll {
			cnt := 0
			for i, b := range sp.InIndex {
				if b {
					cnt++
					if engine.WorkSpaceState(i) != sp.Field {
						e.h.Fail("C09:state-maps-disagree", fmt.Sprintf("space %d: state field says %s but it is indexed under %s", ord, stName[sp.Field], stName[i]))
					}
				}
			}
			if cnt != 1 {
				e.h.Fail("C09:not-exactly-one-state", fmt.Sprintf("space %d is indexed under %d states", ord, cnt))
			}
			if sp.Field == engine.Plotting {
				nplotting++
			}
			// C09: a space starts mining only on a mine request that no stop has voided since ("a stopped space is not ... mined
			// until asked again"; a plot request asks for plotting, not for mining)
			if sp.Field == engine.Mining && e.prevField[ord] != engine.Mining && !e.mineAsked[ord] {
				e.h.Fail("C09:mining-without-a-valid-mine-request", fmt.Sprintf("space %d moved from %s to mining although its last mine request was voided by a stop / remove (or it was never asked to mine)", ord, stName[e.prevField[ord]]))
			}
			// C09: a stopped space is not plotted or mined until asked again (a transition into plotting/mining)
			if e.stopped[ord] && sp.Field != e.prevField[ord] && (sp.Field == engine.Plotting || sp.Field == engine.Mining) {
				key := "C09:stopped-space-" + map[bool]string{true: "plotted", false: "mined"}[sp.Field == engine.Plotting] + "-without-new-request"
				why := ""
				if e.pendingAtStop[ord] {
					key = "C09:stop-does-not-cancel-pending-request"
					why = " (a request for it was waiting in the plotter's channel or popped slot when it was stopped; stop purges only the queue)"
				}
				e.h.Fail(key, fmt.Sprintf("space %d was stopped (stop returned ok) and not asked to plot or mine again, yet it moved from %s to %s%s", ord, stName[e.prevField[ord]], stName[sp.Field], why))
				delete(e.stopped, ord)
			}
		}
		e.prevField[ord], e.prevUsing[ord] = sp.Field, sp.Using && sp.InAll
	}
	e.poppedOrd = -1
	if st.Popped != "" {
		e.poppedOrd = e.ordOf[st.Popped]
	}
	e.h.Res.OracleEvals++
	if len(e.chanOrds) != st.ChanLen {
		e.h.Fail("C09:harness-channel-bookkeeping", fmt.Sprintf("the harness expects %d requests in the channel, the keeper holds %d", len(e.chanOrds), st.ChanLen))
		e.chanOrds = make([]int, st.ChanLen)
		for i := range e.chanOrds {
			e.chanOrds[i] = -1
		}
	}
	sort.Slice(rows, func(i, j int) bool { return rows[i].ord < rows[j].ord })
	var list, queue []string
	for _, s := range st.List {
		list = append(list, strconv.Itoa(e.ordOf[s]))
	}
	for _, s := range st.Queue {
		queue = append(queue, strconv.Itoa(e.ordOf[s]))
	}
	sort.Strings(queue)
	popped := "-"
	if st.Popped != "" {
		popped = strconv.Itoa(e.ordOf[st.Popped]) + ":" + b01(st.PoppedWM)
	}
	e.w.mu.Lock()
	if e.w.overlap || nplotting > 1 {
		e.h.Fail("C09:two-plots-at-once", "more than one space is plotting at the same time")
	}
	del := strings.Join(e.w.deleted, ",")
	var files []string
	for _, en := range e.w.entries {
		if en.exists {
			files = append(files, strconv.FormatInt(en.ordinal, 10))
		}
	}
	sort.Strings(files)
	e.w.mu.Unlock()
	if del == "" {
		del = "-"
	}
	if st.ChanLen == 0 {
		inq := map[int]bool{}
		for _, s := range st.Queue {
			inq[e.ordOf[s]] = true
		}
		for o := range e.outstanding {
			if !inq[o] {
				delete(e.outstanding, o)
			}
		}
	}
	out := "pc=" + e.pcString() + " q=" + b01(e.quitting)
	for _, r := range rows {
		out += r.s
	}
	out += fmt.Sprintf(" list=%s chan=%d queue=%s popped=%s deleted=%s files=%s", orDash(list), st.ChanLen, orDash(queue), popped, del, orDash(files))
	e.queries(st)
	return out
}

func orDash(s []string) string {
	if len(s) == 0 {
		return "-"
	}
	return strings.Join(s, ",")
}

// queries: C09 — flag filters, id lists, info lists and the miner's view agree with each other.
func (e *env) queries(st capacity.VerifKeeper) {
	using := map[string]engine.WorkSpaceState{}
	for _, sp := range st.Spaces {
		if sp.Using {
			using[sp.SID] = sp.Field
		}
	}
	for f := engine.WorkSpaceStateFlags(1); f <= engine.SFAll; f++ {
		e.h.Res.OracleEvals++
		want := map[string]bool{}
		for sid, s := range using {
			if f.Contains(s.Flag()) {
				want[sid] = true
			}
		}
		ids, _ := e.sk.WorkSpaceIDs(f)
		infos, _ := e.sk.WorkSpaceInfos(f)
		got := map[string]bool{}
		for _, id := range ids {
			got[id] = true
		}
		okq := len(got) == len(want) && len(ids) == len(want) && len(infos) == len(ids)
		for id := range want {
			if !got[id] {
				okq = false
			}
		}
		for i, wi := range infos {
			if i < len(ids) && wi.SpaceID != ids[i] {
				okq = false
			}
			if s, ok := using[wi.SpaceID]; !ok || s != wi.State {
				okq = false
			}
		}
		if !okq {
			e.h.Fail("C09:queries-disagree", fmt.Sprintf("flags %v: WorkSpaceIDs=%d WorkSpaceInfos=%d, state fields say %d", f, len(ids), len(infos), len(want)))
		}
	}
	if e.pc != "exited" {
		proofs, err := e.sk.GetProofs(context.Background(), engine.SFMining, [32]byte{1}, false)
		e.h.Res.OracleEvals++
		if err == nil {
			n := 0
			for _, s := range using {
				if s == engine.Mining {
					n++
				}
			}
			bad := len(proofs) != n
			for _, p := range proofs {
				if using[p.SpaceID] != engine.Mining {
					bad = true
				}
			}
			if bad {
				e.h.Fail("C09:miner-offered-non-mining", fmt.Sprintf("GetProofs(SFMining) offered %d spaces, %d are mining", len(proofs), n))
			}
		}
	}
}

func (e *env) emit(op, out string) {
	e.h.Emit(op, out)
	if e.dead {
		return
	}
	e.h.Emit("dump", e.dump())
}

func (e *env) chanLen() int {
	st, ok := e.state()
	if !ok {
		return -1
	}
	return st.ChanLen
}

func (e *env) queueLen() int {
	st, ok := e.state()
	if !ok {
		return -1
	}
	return len(st.Queue)
}

// ---- labels ----

func (e *env) act(kind string, ord int) {
	sid, ok := e.sidOf[ord]
	if !ok {
		sid = "nosuchspace"
	}
	var err error
	op := fmt.Sprintf("%s %d", kind, ord)
	okc := guard(2*time.Second, func() {
		switch kind {
		case "plot":
			err = e.sk.ActOnWorkSpace(sid, engine.Plot)
		case "mine":
			err = e.sk.ActOnWorkSpace(sid, engine.Mine)
		case "stop":
			err = e.sk.ActOnWorkSpace(sid, engine.Stop)
		case "remove":
			err = e.sk.ActOnWorkSpace(sid, engine.Remove)
		case "delete":
			err = e.sk.ActOnWorkSpace(sid, engine.Delete)
		}
	})
	if !okc {
		e.stuck, e.dead = true, true
		e.h.Emit(op, "blocked")
		e.h.Fail("C13:request-never-returns", fmt.Sprintf("%s on space %d did not return within 2s (outstanding requests: see replay)", kind, ord))
		return
	}
	e.noteRequest(kind, ord, err)
	e.afterAPI()
	e.emit(op, errName(err))
}

func (e *env) noteRequest(kind string, ord int, err error) {
	if err == nil && (kind == "remove" || kind == "delete") {
		// C11: remove and delete are refused while a space is plotting or mining
		e.h.Res.OracleEvals++
		if f, known := e.prevField[ord]; known && e.prevUsing[ord] && (f == engine.Plotting || f == engine.Mining) {
			e.h.Fail("C11:"+kind+"-accepted-on-busy-space", fmt.Sprintf("%s of space %d returned without error although the space was %s", kind, ord, stName[f]))
		}
	}
	if err == nil {
		switch kind {
		case "mine":
			e.mineAsked[ord] = true
		case "stop", "remove", "delete":
			e.mineAsked[ord] = false
		}
	}
	switch kind {
	case "stop":
		if err == nil {
			e.stopped[ord] = true
			pend := e.pc == "popped" && e.poppedOrd == ord
			for _, o := range e.chanOrds {
				if o == ord {
					pend = true
				}
			}
			e.pendingAtStop[ord] = pend
			// C09: stop returns a plotting space to registered — its plot must not go on
			e.h.Res.OracleEvals++
			if e.prevField[ord] == engine.Plotting && (e.pc == "starting" || e.pc == "plotting") && e.pcOrd == ord {
				e.w.mu.Lock()
				r := e.w.running
				e.w.mu.Unlock()
				if r != nil || e.pc == "starting" {
					e.h.Fail("C09:stop-did-not-stop-the-plot", fmt.Sprintf("stop on plotting space %d returned ok but its plot goes on (the plotter is at %s)", ord, e.pcString()))
				}
			}
		}
	case "plot", "mine":
		delete(e.stopped, ord)
		if err == nil && e.prevUsing[ord] && e.prevField[ord] == engine.Registered {
			e.chanOrds = append(e.chanOrds, ord) // a request was sent
		}
	}
}

// afterAPI: a stop that reached the executing plot makes the backend return; the plotter parks at "plotted".
func (e *env) afterAPI() {
	if e.pc == "plotting" {
		e.w.mu.Lock()
		r := e.w.running
		e.w.mu.Unlock()
		if r == nil {
			if !e.await(2 * time.Second) {
				e.stuck, e.dead = true, true
				e.h.Fail("C13:plotter-step-never-completes", "the plot was stopped but the plotter did not come back from Plot()")
			}
		}
	}
}

func (e *env) bulk(kind string, flags engine.WorkSpaceStateFlags) {
	op := fmt.Sprintf("bulk %s %d", kind, flags)
	var errs map[string]error
	okc := guard(3*time.Second, func() {
		a := map[string]engine.ActionType{"plot": engine.Plot, "mine": engine.Mine, "stop": engine.Stop, "remove": engine.Remove, "delete": engine.Delete}[kind]
		errs, _ = e.sk.ActOnWorkSpaces(flags, a)
	})
	if !okc {
		e.stuck, e.dead = true, true
		e.h.Emit(op, "blocked")
		e.h.Fail("C13:request-never-returns", fmt.Sprintf("bulk %s did not return within 3s", kind))
		return
	}
	var parts []string
	for sid, er := range errs {
		e.noteRequest(kind, e.ordOf[sid], er)
		parts = append(parts, fmt.Sprintf("%d:%s", e.ordOf[sid], strings.ReplaceAll(errName(er), " ", "_")))
	}
	sort.Strings(parts)
	e.afterAPI()
	e.emit(op, "res "+orDash(parts))
}

// enabled plotter label at the current position ("" = none: it waits for the environment)
func (e *env) nextPlotter() string {
	switch e.pc {
	case "willRecv":
		if e.quitting {
			return "exit"
		}
		if e.chanLen() > 0 {
			return "recv"
		}
	case "willPop":
		return "pop"
	case "popped":
		return "step1"
	case "finished":
		return "step3"
	}
	return ""
}

// plotterStep lets the plotter take the named step (it must be the enabled one).
func (e *env) plotterStep(l string) {
	if e.dead || l == "" {
		return
	}
	op := l
	switch l {
	case "pop":
		if e.queueLen() == 0 {
			// PopItem() on a queue that was purged since the loop condition was evaluated.  The real code does not
			// survive heap.Pop on an empty heap; the step is executed in a child process to see it.
			e.dead = true
			seq := append(e.h.Cur(), "pop 0 0")
			if died, how := e.child(seq); died {
				e.h.FailWith("C13:pop-on-purged-queue-panics", "the plotter found its queue non-empty, a stop/remove/delete purged it, then PopItem() ran on the empty queue: "+how, seq)
				return
			}
			e.dead = false
		}
	}
	before := e.chanLen()
	e.release()
	if !e.await(2 * time.Second) {
		e.stuck, e.dead = true, true
		e.h.Emit(op, "disabled")
		e.h.Fail("C13:plotter-step-never-completes", fmt.Sprintf("plotter step %s did not complete within 2s", l))
		return
	}
	if l == "step1" && e.quitting && e.pc == "plotting" {
		// quit was closed before this plot began: its monitor goroutine calls StopPlot() at once, before or
		// after step 1 began the plot (a race in the real code); what happened is observed
		ord := e.pcOrd
		aborted := false
		for i := 0; i < 40 && !aborted; i++ {
			time.Sleep(time.Millisecond)
			e.w.mu.Lock()
			aborted = e.w.running == nil
			e.w.mu.Unlock()
		}
		if aborted {
			e.h.Emit("step1", "ok")
			if !e.await(2 * time.Second) {
				e.stuck, e.dead = true, true
				return
			}
			e.emit(fmt.Sprintf("plotends %d 0", ord), "ok")
			return
		}
	}
	if l == "exit" {
		d := "0"
		if before > 0 && e.chanLen() == 0 {
			d = "1"
			e.chanOrds = nil
		}
		op = "exit " + d
	}
	if l == "recv" {
		e.chanOrds = nil
	}
	if l == "pop" {
		op = e.popObserved()
	}
	e.emit(op, "ok")
}

// popObserved: which request the heap yielded (the order among requests for one space is unspecified)
func (e *env) popObserved() string {
	st, ok := e.state()
	if !ok || e.pc != "popped" {
		return "pop 0 0"
	}
	return fmt.Sprintf("pop %s %d", b01(st.PoppedWM), st.PoppedEpoch)
}

// child replays a sequence in a fresh process; reports whether that process died and how.
func (e *env) child(seq []string) (bool, string) {
	dir, _ := os.MkdirTemp("", "verif-keeper-child-")
	defer os.RemoveAll(dir)
	f := filepath.Join(dir, "replay.txt")
	os.WriteFile(f, []byte(strings.Join(seq, "\n")+"\n"), 0o644)
	cmd := exec.Command(e.self, "-replay", f, "-out", filepath.Join(dir, "out"))
	out, err := cmd.CombinedOutput()
	if err == nil {
		return false, ""
	}
	how := "process exited: " + err.Error()
	for _, l := range strings.Split(string(out), "\n") {
		if strings.HasPrefix(l, "panic:") || strings.HasPrefix(l, "fatal error:") {
			how = l
			break
		}
	}
	return true, how
}

// plotEnds tells the blocked backend how the running plot ends.
func (e *env) plotEnds(done bool) {
	if e.pc != "plotting" {
		return
	}
	e.w.mu.Lock()
	r := e.w.running
	e.w.mu.Unlock()
	if r == nil {
		return
	}
	ord := e.pcOrd
	r.cmd <- done
	if !e.await(2 * time.Second) {
		e.stuck, e.dead = true, true
		e.h.Fail("C13:plotter-step-never-completes", "the plot ended but the plotter did not come back from Plot()")
		return
	}
	e.emit(fmt.Sprintf("plotends %d %s", ord, b01(done)), "ok")
}

func (e *env) start() {
	if e.pc != "exited" {
		return
	}
	err := e.sk.Start()
	if err != nil {
		e.emit("keeperstart", errName(err))
		return
	}
	if !e.await(2 * time.Second) {
		e.stuck, e.dead = true, true
		e.h.Fail("C13:plotter-step-never-completes", "the plotter did not reach its loop after Start()")
		return
	}
	e.emit("keeperstart", "ok")
}

// quit: Stop() closes the quit channel and waits for the plotter; it returns at the label `exit`.
func (e *env) quit() {
	if e.pc == "exited" || e.quitting {
		return
	}
	e.stopDone = make(chan error, 1)
	sk := e.sk
	done := e.stopDone
	go func() { done <- sk.Stop() }()
	for i := 0; i < 2000 && !sk.VerifQuitClosed(); i++ {
		time.Sleep(time.Millisecond)
	}
	time.Sleep(2 * time.Millisecond) // let the monitor goroutine of an executing or starting plot fire
	e.quitting = true
	if e.pc == "plotting" {
		if !e.await(2 * time.Second) {
			e.stuck, e.dead = true, true
			e.h.Emit("quit", "ok")
			e.h.Fail("C13:stop-never-returns", "the keeper was stopped while a plot was executing and the plot was not aborted")
			return
		}
	}
	e.emit("quit", "ok")
}

// settle: the plotter runs until it needs the environment.
func (e *env) settle() {
	for i := 0; i < 64 && !e.dead; i++ {
		l := e.nextPlotter()
		if l == "" {
			return
		}
		e.plotterStep(l)
	}
}

func (e *env) step(n int) {
	r := e.h.Rng
	ord := r.Intn(n)
	if r.Intn(12) == 0 {
		ord = n // a space that does not exist
	}
	x := r.Intn(100)
	switch {
	case x < 16:
		e.act("plot", ord)
	case x < 26:
		e.act("mine", ord)
	case x < 36:
		e.act("stop", ord)
	case x < 40:
		e.act("remove", ord)
	case x < 43:
		e.act("delete", ord)
	case x < 68:
		if l := e.nextPlotter(); l != "" {
			e.plotterStep(l)
		} else if e.pc == "plotting" {
			e.plotEnds(r.Intn(3) != 0)
		} else {
			e.act("plot", ord)
		}
	case x < 76:
		if e.pc == "plotting" {
			e.plotEnds(r.Intn(3) != 0)
		} else {
			e.settle()
		}
	case x < 82:
		e.settle()
	case x < 90:
		kinds := []string{"plot", "mine", "stop", "remove"}
		if r.Intn(6) == 0 {
			kinds = append(kinds, "delete")
		}
		e.bulk(kinds[r.Intn(len(kinds))], engine.WorkSpaceStateFlags(1+r.Intn(15)))
	case x < 96:
		if e.pc == "exited" {
			e.start()
		} else if !e.quitting {
			e.quit()
		} else {
			e.settle()
		}
	default:
		e.act("stop", ord)
	}
}

// windDown brings the plotter to `exited` so that nothing of this keeper is left running.
func (e *env) windDown() {
	for i := 0; i < 200 && !e.dead && e.pc != "exited"; i++ {
		if e.pc == "plotting" {
			e.plotEnds(true)
			continue
		}
		if l := e.nextPlotter(); l != "" {
			e.plotterStep(l)
			continue
		}
		e.quit()
	}
}

func (e *env) replay(ls []string) {
	for _, l := range ls {
		if e.dead {
			break
		}
		t := strings.Fields(l)
		switch t[0] {
		case "reset":
			n, _ := strconv.Atoi(t[1])
			e.newKeeper(n)
			e.h.Emit(l, "ok")
			e.h.Emit("dump", e.dump())
		case "dump", "stuck":
		case "keeperstart":
			e.start()
		case "quit":
			e.quit()
		case "recv", "pop", "step1", "step3", "exit":
			if t[0] == "pop" && e.pc == "willPop" {
				// executed for real (this may be the child process of a predicted panic)
				e.release()
				if !e.await(2 * time.Second) {
					e.stuck, e.dead = true, true
					e.h.Emit(l, "disabled")
				} else {
					e.emit(e.popObserved(), "ok")
				}
				continue
			}
			if e.nextPlotter() == t[0] {
				e.plotterStep(t[0])
			} else {
				e.h.Emit(l, "disabled")
			}
		case "settle":
			e.settle()
		case "plotends":
			e.plotEnds(t[2] == "1")
		case "bulk":
			f, _ := strconv.Atoi(t[2])
			e.bulk(t[1], engine.WorkSpaceStateFlags(f))
		case "flood":
			n, _ := strconv.Atoi(t[2])
			o, _ := strconv.Atoi(t[1])
			if !e.flood(o, n) {
				e.h.Fail("C13:request-never-returns", "a plot request did not return (see replay)")
			}
		default:
			o, _ := strconv.Atoi(t[1])
			e.act(t[0], o)
		}
	}
}

func main() {
	focus := flag.String("focus", "C09", "C09|C13")
	h := hx.New("keeper")
	root, _ := os.MkdirTemp("", "verif-keeper-")
	defer os.RemoveAll(root)
	self, _ := os.Executable()
	e := &env{h: h, focus: *focus, root: root, self: self}
	if ls := h.ReplayLines(); ls != nil {
		e.replay(ls)
		h.Finish("replay")
		return
	}
	for s := 0; s < h.N && !e.stuck; s++ {
		n := 1 + h.Rng.Intn(3)
		e.newKeeper(n)
		h.Emit(fmt.Sprintf("reset %d", n), "ok")
		h.Emit("dump", e.dump())
		if s%6 == 2 {
			// a batch action over ALL states while a space plots, then requests for that space before its plot ends
			// (whatever a batch action does to the plotter's bookkeeping, the plotting space's requests still work)
			batch := []string{"remove", "delete", "stop", "mine", "plot"}[h.Rng.Intn(5)]
			after := [][]string{{"stop 0"}, {"mine 0"}, {"plot 0"}, {"mine 0", "stop 0"}}[h.Rng.Intn(4)]
			script := append([]string{"keeperstart", "plot 0", "recv", "pop", "step1", fmt.Sprintf("bulk %s 15", batch)}, after...)
			e.replay(script)
		} else if s%6 == 4 && n >= 2 {
			// requests for one space pile up in the plotter's channel while another space plots: a mine request voided by
			// a stop, then a plain plot request - the space is plotted and ends ready, not mining
			e.replay([]string{"keeperstart", "plot 0", "recv", "pop", "step1", "mine 1", "stop 1", "plot 1", "plotends 0 1", "step3",
				"recv", "pop", "step1", "plotends 1 1", "step3", "settle"})
		} else if h.Rng.Intn(4) != 0 {
			e.start()
		}
		steps := 8 + h.Rng.Intn(h.Len)
		for i := 0; i < steps && !e.dead; i++ {
			e.step(n)
		}
		e.windDown()
		if s < 2 {
			h.Sample(strings.Join(h.Cur(), " ; "))
		}
	}
	if *focus == "C13" && !e.stuck {
		staleRequestAfterReconfigure(e)
	}
	if *focus == "C13" && !e.stuck {
		overflow(e)
		realPlotDB(e)
		storm(e)
	}
	if *focus == "C11" && !e.stuck {
		requestDuringDelete(e)
	}
	if *focus == "C09" && !e.stuck {
		stopAtPlotEntry(e)
	}
	h.Finish("schedules of plotter micro-steps (gated by hook H3), single and bulk actions on 1-3 workspaces, keeper start/quit and scripted plot outcomes against the real keeper with a scripted plot backend; every call under a watchdog; distinct = distinct (op, output) pairs")
}

// flood: n successive plot requests for one space; how many were accepted and how many refused.
// A request that does not return at all is C13's deadlock.
func (e *env) flood(ord, n int) bool {
	acc, ref := 0, 0
	for i := 0; i < n; i++ {
		var err error
		ok := guard(1500*time.Millisecond, func() { err = e.sk.ActOnWorkSpace(e.sidOf[ord], engine.Plot) })
		if !ok {
			e.stuck, e.dead = true, true
			e.h.Emit(fmt.Sprintf("flood %d %d", ord, n), fmt.Sprintf("blockedAt %d", i+1))
			return false
		}
		if err == nil {
			acc++
			e.chanOrds = append(e.chanOrds, ord)
		} else {
			ref++
		}
	}
	e.h.Res.OracleEvals++
	e.emit(fmt.Sprintf("flood %d %d", ord, n), fmt.Sprintf("accepted %d refused %d", acc, ref))
	return true
}

// overflow: C13 "however many requests are outstanding" — more plot requests than the plotter's channel holds,
// issued while a plot is executing; then the plot ends and everything must still move.
func overflow(e *env) {
	h := e.h
	e.newKeeper(2)
	h.Emit("reset 2", "ok")
	h.Emit("dump", e.dump())
	e.start()
	e.act("plot", 0)
	e.settle()
	capn := capacity.VerifPlotterMaxChanSize
	if !e.flood(1, capn+8) {
		// does the system recover when the plot ends?
		e.w.mu.Lock()
		r := e.w.running
		e.w.mu.Unlock()
		if r != nil {
			r.cmd <- true
		}
		e.await(2 * time.Second) // gate "plotted"
		e.release()              // step 3 needs the state lock
		recovered := e.await(2*time.Second) && guard(2*time.Second, func() { e.sk.ActOnWorkSpace(e.sidOf[0], engine.Stop) })
		seq := append(h.Cur(), "plotends 0 1", "step3", "stop 0")
		if !recovered {
			h.FailWith("C13:channel-full-under-lock", fmt.Sprintf("a plot request for a registered space blocked on the full plotter channel (capacity %d) while holding the state lock; after the running plot ended the plotter cannot take the lock for step 3: every later request hangs", capn), seq)
		} else {
			h.FailWith("C13:request-blocked-while-plotting", "a plot request blocked until the running plot ended", seq)
		}
		return
	}
	e.plotEnds(true)
	e.settle()
	e.act("stop", 1)
	e.windDown()
}

// realPlotDB: C13 on the real plot backend (massdb.v1, bit length 10): stop requests arriving twice during
// one plot (a stop request racing the shutdown monitor), Close during a plot, Plot/StopPlot/Delete on a
// plotted space.  A panic in the plot goroutine kills this process (the check reports it); a call that does
// not return is reported by the watchdog.
func realPlotDB(e *env) {
	h := e.h
	dir := filepath.Join(e.root, "realdb")
	os.MkdirAll(dir, 0o755)
	pk := keyFor("realdb", 0).PubKey()
	const bl = 10
	fail := func(what string) {
		h.FailWith("C13:plotdb-call-never-returns", what+" did not return within the watchdog", []string{"realdb: " + what})
	}
	mdbi, err := massdb_v1.CreateDB(dir, int64(0), pk, bl)
	if err != nil {
		h.FailWith("C13:plotdb-create", err.Error(), nil)
		return
	}
	mdb := mdbi.(*massdb_v1.MassDBV1)
	massdb_v1.VerifCacheSize = func(required uint64) (uint64, bool) { return 64, true } // many small windows
	defer func() { massdb_v1.VerifCacheSize, massdb_v1.VerifPoint = nil, nil }()
	rounds := 150
	if h.Tier == "thorough" {
		rounds = 1500
	}
	for round := 0; round < rounds; round++ {
		n := 0
		stopAt := 1 + round%3
		var stops []chan error
		massdb_v1.VerifPoint = func(name, pass string, start, end uint64) {
			n++
			if n == stopAt {
				// many stop requests during one plot, released together
				const k = 24
				cs := make([]chan chan error, k)
				gate := make(chan struct{})
				for i := range cs {
					cs[i] = make(chan chan error, 1)
					go func(c chan chan error) { <-gate; c <- mdb.StopPlot() }(cs[i])
				}
				close(gate)
				for _, c := range cs {
					stops = append(stops, <-c)
				}
			}
		}
		res := mdb.Plot()
		h.Res.OracleEvals++
		if !guard(20*time.Second, func() { <-res }) {
			fail(fmt.Sprintf("Plot() after concurrent stops (round %d)", round))
			return
		}
		for _, c := range stops {
			c := c
			if !guard(5*time.Second, func() { <-c }) {
				fail("StopPlot() result")
				return
			}
		}
		// a third stop after the plot has ended, then Close + reopen (Close stops again)
		if !guard(5*time.Second, func() { <-mdb.StopPlot() }) {
			fail("StopPlot() on an idle db")
			return
		}
		if _, plotted, _ := mdb.Progress(); plotted && round < rounds-1 {
			// start over with a fresh pair of files: later rounds need a plot to interrupt
			if !guard(5*time.Second, func() { <-mdb.Delete() }) {
				fail("Delete() of the plotted db")
				return
			}
			mdbi, err = massdb_v1.CreateDB(dir, int64(0), pk, bl)
			if err != nil {
				h.FailWith("C13:plotdb-create", err.Error(), nil)
				return
			}
			mdb = mdbi.(*massdb_v1.MassDBV1)
		} else if round%2 == 1 {
			if !guard(5*time.Second, func() { mdb.Close() }) {
				fail("Close()")
				return
			}
			mdbi, err = massdb_v1.OpenDB(dir, int64(0), pk, bl)
			if err != nil {
				h.FailWith("C13:plotdb-reopen", err.Error(), nil)
				return
			}
			mdb = mdbi.(*massdb_v1.MassDBV1)
		}
	}
	// finish the plot; then Plot / StopPlot / Delete on the plotted space
	massdb_v1.VerifPoint = nil
	massdb_v1.VerifCacheSize = nil
	res := mdb.Plot()
	if !guard(60*time.Second, func() { <-res }) {
		fail("Plot() to completion")
		return
	}
	_, plotted, _ := mdb.Progress()
	h.Res.OracleEvals++
	if !plotted {
		h.FailWith("C13:plotdb-not-complete", "the plot did not complete after the interrupted rounds", nil)
	}
	res = mdb.Plot() // on a plotted space: returns at once and must leave nothing marked as plotting
	if !guard(5*time.Second, func() { <-res }) {
		fail("Plot() on a plotted space")
		return
	}
	if !guard(5*time.Second, func() { <-mdb.StopPlot() }) {
		fail("StopPlot() after Plot() on a plotted space")
		return
	}
	var derr error
	if !guard(5*time.Second, func() { derr = <-mdb.Delete() }) {
		fail("Delete()")
		return
	}
	h.Res.OracleEvals++
	if derr != nil {
		h.FailWith("C13:plotdb-delete-refused", "Delete() on an idle plotted space: "+derr.Error(), nil)
	}
	h.Res.Extra["realdb_rounds"] = rounds
}

// storm: no gates — several goroutines issue single and batch requests and queries against a running keeper
// whose (scripted) plots end by themselves after a moment.  Every call runs under a watchdog: a call that
// does not return is C13's deadlock; a panic in the keeper kills this process (reported as process death).
func storm(e *env) {
	h := e.h
	d := 1200 * time.Millisecond
	if h.Tier == "thorough" {
		d = 8 * time.Second
	}
	for round := 0; round < 2; round++ {
		e.newKeeper(4)
		curGates = nil
		e.w.auto = true
		if err := e.sk.Start(); err != nil {
			h.FailWith("C13:storm-start", err.Error(), nil)
			return
		}
		var sids []string
		for _, s := range e.sidOf {
			sids = append(sids, s)
		}
		sort.Strings(sids)
		stuck := make(chan string, 64)
		var wg sync.WaitGroup
		var calls int64
		deadline := time.Now().Add(d)
		for g := 0; g < 6; g++ {
			wg.Add(1)
			go func(g int) {
				defer wg.Done()
				seed := uint32(h.Seed)*2654435761 + uint32(g+1)*40503 + uint32(round)
				rnd := func(n int) int { seed = seed*1664525 + 1013904223; return int(seed>>8) % n }
				for time.Now().Before(deadline) {
					sid := sids[rnd(len(sids))]
					what := ""
					var f func()
					switch k := rnd(12); {
					case k < 3:
						what, f = "plot "+sid[:8], func() { e.sk.ActOnWorkSpace(sid, engine.Plot) }
					case k < 5:
						what, f = "mine "+sid[:8], func() { e.sk.ActOnWorkSpace(sid, engine.Mine) }
					case k < 7:
						what, f = "stop "+sid[:8], func() { e.sk.ActOnWorkSpace(sid, engine.Stop) }
					case k == 7:
						what, f = "plot all", func() { e.sk.ActOnWorkSpaces(engine.SFAll, engine.Plot) }
					case k == 8:
						what, f = "mine all", func() { e.sk.ActOnWorkSpaces(engine.SFAll, engine.Mine) }
					case k == 9:
						what, f = "stop all", func() { e.sk.ActOnWorkSpaces(engine.SFAll, engine.Stop) }
					case k == 10 && rnd(2) == 0:
						// proofs through a reader whose context is cancelled while the keeper is still writing them
						what, f = "proof readers", func() {
							for j := 0; j < 20; j++ {
								ctx, cancel := context.WithCancel(context.Background())
								var ch pocutil.Hash
								ch[0] = byte(j)
								rd, err := e.sk.GetProofsReader(ctx, engine.SFAll, ch, false)
								rd1, err1 := e.sk.GetProofReader(ctx, sid, ch, false)
								if j%2 == 0 {
									cancel()
								}
								if err == nil && j%3 == 0 {
									rd.Read()
								}
								if err1 == nil && j%4 == 0 {
									rd1.Read()
								}
								cancel()
							}
						}
					case k == 10:
						what, f = "infos", func() { e.sk.WorkSpaceInfos(engine.SFAll); e.sk.WorkSpaceIDs(engine.SFMining) }
					default:
						what, f = "state", func() { e.sk.VerifState() }
					}
					atomic.AddInt64(&calls, 1)
					if !guard(10*time.Second, f) {
						stuck <- what
						return
					}
				}
			}(g)
		}
		wg.Wait()
		h.Res.OracleEvals++
		select {
		case what := <-stuck:
			h.FailWith("C13:storm-call-never-returns", "under concurrent requests (no gates) the call `"+what+"` did not return within 10 s: the keeper is deadlocked", []string{"storm: 6 goroutines of plot/mine/stop (single and batch) and queries against a running keeper"})
			return
		default:
		}
		if !guard(15*time.Second, func() { e.sk.Stop() }) {
			h.FailWith("C13:storm-stop-never-returns", "Stop() after the concurrent requests did not return within 15 s", []string{"storm"})
			return
		}
		h.Res.Extra[fmt.Sprintf("storm_calls_%d", round)] = atomic.LoadInt64(&calls)
	}
	curGates = nil
}

// requestDuringDelete (C11): while a delete request is erasing a space's files, a mine or plot request for the same
// space must not be accepted (delete is refused for a mining space; a space must not become mining once its files are
// on their way out).  The scripted backend parks inside Delete().
// staleRequestAfterReconfigure (C13): a request made while the keeper is stopped waits in the plotter's channel; a new
// configuration then leaves that space out; the keeper is started.  Whatever the plotter does with the stale request,
// queries and requests still return and the keeper stops.
func staleRequestAfterReconfigure(e *env) {
	h := e.h
	for _, kind := range []engine.ActionType{engine.Plot, engine.Mine} {
		e.newKeeper(2)
		curGates = nil
		e.w.auto = true
		if err := e.sk.ActOnWorkSpace(e.sidOf[1], kind); err != nil {
			continue // refused while stopped: nothing to wait in the channel
		}
		if _, err := e.sk.ConfigureByBitLength(map[int]int{24: 1}, false, false); err != nil {
			h.FailWith("C13:reconfigure-scenario", "ConfigureByBitLength(24:1) on two indexed spaces: "+err.Error(), nil)
			return
		}
		if err := e.sk.Start(); err != nil {
			h.FailWith("C13:reconfigure-scenario", err.Error(), nil)
			return
		}
		time.Sleep(50 * time.Millisecond) // the plotter takes the stale request
		replay := []string{kind.String() + " 1 (keeper stopped); configure 24:1 (space 1 left out); keeper start; queries; " + kind.String() + " 0; keeper stop"}
		h.Res.OracleEvals++
		if !guard(5*time.Second, func() { e.sk.WorkSpaceIDs(engine.SFAll); e.sk.WorkSpaceInfos(engine.SFAll) }) {
			h.FailWith("C13:request-never-returns", "state queries do not return after the plotter met a request for a space that a later configuration left out", replay)
			e.stuck = true
			return
		}
		if !guard(5*time.Second, func() { e.sk.ActOnWorkSpace(e.sidOf[0], kind) }) {
			h.FailWith("C13:request-never-returns", "a request does not return after the plotter met a request for a space that a later configuration left out", replay)
			e.stuck = true
			return
		}
		if !guard(10*time.Second, func() { e.sk.Stop() }) {
			h.FailWith("C13:stop-never-returns", "Stop() does not return after the plotter met a request for a space that a later configuration left out", replay)
			e.stuck = true
			return
		}
	}
	curGates = nil
}

// stopAtPlotEntry (C09): a stop that lands while the backend is still starting the plot.  The space is already reported as
// plotting; whatever the interleaving, a stop that returned without error sticks: the plot does not run on to ready.
func stopAtPlotEntry(e *env) {
	h := e.h
	for rep := 0; rep < 2; rep++ {
		e.newKeeper(1)
		curGates = nil
		e.w.auto = false
		e.w.mu.Lock()
		e.w.parkPlot, e.w.inPlot = make(chan struct{}), make(chan struct{}, 1)
		e.w.mu.Unlock()
		go func(w *fakeWorld) { // nobody reads the plot events in this scenario
			for range w.events {
			}
		}(e.w)
		if err := e.sk.Start(); err != nil {
			h.FailWith("C09:keeper-start", err.Error(), nil)
			return
		}
		sid := e.sidOf[0]
		kind := []engine.ActionType{engine.Plot, engine.Mine}[rep]
		if err := e.sk.ActOnWorkSpace(sid, kind); err != nil {
			h.FailWith("C09:plot-entry-scenario", fmt.Sprintf("%v request refused: %v", kind, err), nil)
			return
		}
		select {
		case <-e.w.inPlot:
		case <-time.After(5 * time.Second):
			h.FailWith("C09:plot-entry-scenario", "the plotter did not reach the backend's Plot() within 5 s", nil)
			return
		}
		stopDone := make(chan error, 1)
		go func() { stopDone <- e.sk.ActOnWorkSpace(sid, engine.Stop) }()
		time.Sleep(60 * time.Millisecond) // the stop is under way (or waits for the state lock) while Plot() is still starting
		e.w.mu.Lock()
		close(e.w.parkPlot)
		e.w.parkPlot = nil
		e.w.mu.Unlock()
		var stopErr error
		select {
		case stopErr = <-stopDone:
		case <-time.After(5 * time.Second):
			h.FailWith("C13:request-never-returns", "a stop issued while the backend was starting a plot did not return within 5 s", nil)
			return
		}
		// a plot that is (still) running now completes if nobody stopped it
		time.Sleep(30 * time.Millisecond)
		e.w.mu.Lock()
		if r := e.w.running; r != nil && r.cmd != nil {
			select {
			case r.cmd <- true:
			default:
			}
		}
		e.w.mu.Unlock()
		time.Sleep(150 * time.Millisecond)
		h.Res.OracleEvals++
		st := e.sk.VerifState()
		for _, sp := range st.Spaces {
			if sp.SID == sid && stopErr == nil && sp.Field != engine.Registered {
				h.FailWith("C09:stop-during-plot-start-did-not-stick", fmt.Sprintf("a %v request was being started by the backend when a stop for the space returned without error; afterwards the space is %v instead of registered (the plot ran on)", kind, sp.Field),
					[]string{kind.String() + " 0; (backend parked at the entry of Plot()); stop 0; release; plot completes"})
			}
		}
		if !guard(10*time.Second, func() { e.sk.Stop() }) {
			h.FailWith("C13:stop-never-returns", "Stop() after the plot-entry scenario did not return", nil)
			return
		}
	}
	curGates = nil
}

func requestDuringDelete(e *env) {
	h := e.h
	for _, kind := range []engine.ActionType{engine.Mine, engine.Plot} {
		e.newKeeper(2)
		curGates = nil
		e.w.auto = true
		if err := e.sk.Start(); err != nil {
			h.FailWith("C11:keeper-start", err.Error(), nil)
			return
		}
		sid := e.sidOf[0]
		e.w.parkDel, e.w.inDel = make(chan struct{}), make(chan struct{}, 1)
		delDone := make(chan error, 1)
		go func() { delDone <- e.sk.ActOnWorkSpace(sid, engine.Delete) }()
		select {
		case <-e.w.inDel:
		case err := <-delDone:
			h.FailWith("C11:delete-scenario", fmt.Sprintf("delete of an idle registered space did not reach the backend: %v", err), nil)
			return
		case <-time.After(5 * time.Second):
			h.FailWith("C11:delete-scenario", "delete did not reach the backend within 5 s", nil)
			return
		}
		reqDone := make(chan error, 1)
		go func() { reqDone <- e.sk.ActOnWorkSpace(sid, kind) }()
		var reqErr error
		answered := false
		select {
		case reqErr = <-reqDone:
			answered = true
		case <-time.After(300 * time.Millisecond):
		}
		close(e.w.parkDel)
		e.w.parkDel = nil
		delErr := <-delDone
		if !answered {
			select {
			case reqErr = <-reqDone:
			case <-time.After(5 * time.Second):
				h.FailWith("C13:request-hangs", "a request issued during a delete did not return within 5 s of the delete", nil)
				return
			}
		}
		time.Sleep(20 * time.Millisecond)
		h.Res.OracleEvals++
		st := e.sk.VerifState()
		indexed := false
		for _, sp := range st.Spaces {
			if sp.SID == sid && sp.InAll {
				indexed = true
			}
		}
		if delErr == nil && (reqErr == nil || indexed) {
			h.FailWith("C11:request-accepted-during-delete", fmt.Sprintf("a %v request for a space was accepted (err=%v, still indexed=%v) while a delete request was erasing its files", kind, reqErr, indexed),
				[]string{"delete 0 (backend parked inside Delete); " + kind.String() + " 0; release"})
		}
		if !guard(10*time.Second, func() { e.sk.Stop() }) {
			h.FailWith("C13:stop-never-returns", "Stop() after the delete scenario did not return", nil)
			return
		}
	}
	curGates = nil
}
