package main

// A scripted plot backend: registered in place of the "massdb.v1" entry of the exported registry
// massdb.DBBackendList.  Plot() blocks until the harness tells it how the plot ends; Delete records.

import (
	"errors"
	"fmt"
	"sync"
	"sync/atomic"
	"time"

	"github.com/massnetorg/mass-core/poc"
	"github.com/massnetorg/mass-core/poc/pocutil"
	"github.com/massnetorg/mass-core/pocec"
	"massnet.org/mass/poc/engine/massdb"
)

type entry struct {
	dir     string
	ordinal int64
	pk      *pocec.PublicKey
	bl      int
	plotted bool
	exists  bool
}

type fakeWorld struct {
	mu       sync.Mutex
	entries  map[string]*entry
	running  *fakeDB     // the plot in progress (at most one expected)
	events   chan string // "start <ord>", "end <ord>"
	deleted  []string    // keys of deleted entries
	overlap  bool        // two plots at once were observed
	created  int
	auto     bool // storm mode: a plot ends by itself after a moment (completed or not), no events
	autoN    int
	parkDel  chan struct{} // non-nil: Delete announces itself on inDel and waits here before erasing
	inDel    chan struct{}
	parkPlot chan struct{} // non-nil: Plot announces itself on inPlot and waits here before anything is marked as plotting
	inPlot   chan struct{}
}

func ekey(dir string, ord int64, pk *pocec.PublicKey, bl int) string {
	return fmt.Sprintf("%s|%d|%x|%d", dir, ord, pk.SerializeCompressed(), bl)
}

type fakeDB struct {
	w        *fakeWorld
	e        *entry
	plotting int32
	cmd      chan bool // true = completes, false = aborted
	stopOnce *sync.Once
	wg       sync.WaitGroup
}

func parse(args ...interface{}) (string, int64, *pocec.PublicKey, int, error) {
	if len(args) != 4 {
		return "", 0, nil, 0, massdb.ErrInvalidDBArgs
	}
	return args[0].(string), args[1].(int64), args[2].(*pocec.PublicKey), args[3].(int), nil
}

func (w *fakeWorld) open(args ...interface{}) (massdb.MassDB, error) {
	dir, ord, pk, bl, err := parse(args...)
	if err != nil {
		return nil, err
	}
	w.mu.Lock()
	defer w.mu.Unlock()
	e, ok := w.entries[ekey(dir, ord, pk, bl)]
	if !ok || !e.exists {
		return nil, massdb.ErrDBDoesNotExist
	}
	return &fakeDB{w: w, e: e}, nil
}

func (w *fakeWorld) create(args ...interface{}) (massdb.MassDB, error) {
	dir, ord, pk, bl, err := parse(args...)
	if err != nil {
		return nil, err
	}
	w.mu.Lock()
	defer w.mu.Unlock()
	k := ekey(dir, ord, pk, bl)
	e, ok := w.entries[k]
	if !ok {
		e = &entry{dir: dir, ordinal: ord, pk: pk, bl: bl}
		w.entries[k] = e
	}
	e.exists = true
	w.created++
	return &fakeDB{w: w, e: e}, nil
}

func (d *fakeDB) Type() string { return "massdb.v1" }
func (d *fakeDB) Close() error { <-d.StopPlot(); return nil }

func (d *fakeDB) Plot() chan error {
	result := make(chan error, 1)
	d.w.mu.Lock()
	park, in := d.w.parkPlot, d.w.inPlot
	d.w.mu.Unlock()
	if park != nil { // a backend that takes a moment to start (opening files, allocating the cache)
		select {
		case in <- struct{}{}:
		default:
		}
		<-park
	}
	if !atomic.CompareAndSwapInt32(&d.plotting, 0, 1) {
		result <- errors.New("already plotting")
		return result
	}
	d.w.mu.Lock()
	if d.e.plotted {
		d.w.mu.Unlock()
		atomic.StoreInt32(&d.plotting, 0)
		result <- nil
		return result
	}
	if d.w.running != nil {
		d.w.overlap = true
	}
	d.w.running = d
	d.cmd = make(chan bool, 2)
	d.stopOnce = new(sync.Once)
	d.w.mu.Unlock()
	d.wg.Add(1)
	go func() {
		var done bool
		if d.w.auto {
			d.w.mu.Lock()
			d.w.autoN++
			complete := d.w.autoN%3 == 0
			d.w.mu.Unlock()
			select {
			case done = <-d.cmd:
			case <-time.After(300 * time.Microsecond):
				done = complete
			}
		} else {
			d.w.events <- fmt.Sprintf("start %d", d.e.ordinal)
			done = <-d.cmd
		}
		d.w.mu.Lock()
		if done {
			d.e.plotted = true
		}
		d.w.running = nil
		d.w.mu.Unlock()
		result <- nil
		atomic.StoreInt32(&d.plotting, 0)
		d.wg.Done()
		if !d.w.auto {
			d.w.events <- fmt.Sprintf("end %d", d.e.ordinal)
		}
	}()
	return result
}

func (d *fakeDB) StopPlot() chan error {
	result := make(chan error, 1)
	if atomic.LoadInt32(&d.plotting) == 0 {
		result <- nil
		return result
	}
	cmd, once := d.cmd, d.stopOnce
	go func() {
		if once != nil {
			once.Do(func() { cmd <- false })
		}
		d.wg.Wait()
		result <- nil
	}()
	return result
}

func (d *fakeDB) Ready() bool              { d.w.mu.Lock(); defer d.w.mu.Unlock(); return d.e.plotted }
func (d *fakeDB) BitLength() int           { return d.e.bl }
func (d *fakeDB) PubKeyHash() pocutil.Hash { return pocutil.PubKeyHash(d.e.pk) }
func (d *fakeDB) PubKey() *pocec.PublicKey { return d.e.pk }
func (d *fakeDB) GetProof(challenge pocutil.Hash, filter bool) (*poc.DefaultProof, error) {
	return nil, errors.New("fake backend: no proof")
}
func (d *fakeDB) Progress() (bool, bool, float64) {
	d.w.mu.Lock()
	defer d.w.mu.Unlock()
	if d.e.plotted {
		return true, true, 100
	}
	return false, false, 10
}
func (d *fakeDB) Delete() chan error {
	result := make(chan error, 1)
	if atomic.LoadInt32(&d.plotting) != 0 {
		result <- errors.New("already plotting")
		return result
	}
	if p := d.w.parkDel; p != nil {
		d.w.inDel <- struct{}{}
		<-p
	}
	d.w.mu.Lock()
	d.e.exists = false
	d.e.plotted = false
	d.w.deleted = append(d.w.deleted, fmt.Sprintf("%d", d.e.ordinal))
	d.w.mu.Unlock()
	result <- nil
	return result
}

func install(w *fakeWorld) {
	for i := range massdb.DBBackendList {
		if massdb.DBBackendList[i].Typ == "massdb.v1" {
			massdb.DBBackendList[i].OpenDB = w.open
			massdb.DBBackendList[i].CreateDB = w.create
			return
		}
	}
	massdb.AddDBBackend(massdb.DBBackend{Typ: "massdb.v1", OpenDB: w.open, CreateDB: w.create})
}

// ---- a scripted wallet ----
type fakeWallet struct {
	mu     sync.Mutex
	keys   []*pocec.PublicKey
	privs  []*pocec.PrivateKey
	locked bool
	seed   string
}

func (fw *fakeWallet) GenerateNewPublicKey() (*pocec.PublicKey, uint32, error) {
	fw.mu.Lock()
	defer fw.mu.Unlock()
	i := len(fw.keys)
	priv := keyFor(fw.seed, i)
	fw.privs = append(fw.privs, priv)
	fw.keys = append(fw.keys, priv.PubKey())
	return priv.PubKey(), uint32(i), nil
}
func (fw *fakeWallet) GetPublicKeyOrdinal(pk *pocec.PublicKey) (uint32, bool) {
	fw.mu.Lock()
	defer fw.mu.Unlock()
	for i, k := range fw.keys {
		if k.IsEqual(pk) {
			return uint32(i), true
		}
	}
	return 0, false
}
func (fw *fakeWallet) SignMessage(pk *pocec.PublicKey, hash []byte) (*pocec.Signature, error) {
	fw.mu.Lock()
	defer fw.mu.Unlock()
	for i, k := range fw.keys {
		if k.IsEqual(pk) {
			return fw.privs[i].Sign(hash)
		}
	}
	return nil, errors.New("unknown key")
}
func (fw *fakeWallet) Unlock(p []byte) error { fw.locked = false; return nil }
func (fw *fakeWallet) Lock()                 { fw.locked = true }
func (fw *fakeWallet) IsLocked() bool        { return fw.locked }
