// Harness C17/C16 (byte stream): the receive loop of a real connection.Conn is fed a scripted byte stream in
// scripted pieces (a net.Conn whose Read returns exactly the next piece): units of every size, keep-alives,
// oversize announcements, streams cut mid-unit, length prefixes split over several reads.  What the reader of
// the Conn gets, and whether the Conn closed the transport, is compared with the Lean model of the loop
// (Model/Stream.lean: the chunked receiver), which is proved to deliver exactly the units written, in order,
// whatever the pieces.
package main

import (
	"context"
	"encoding/binary"
	"errors"
	"fmt"
	"net"
	"strconv"
	"strings"
	"sync"
	"time"

	"massnet.org/mass/fractal/connection"
	"verifharness/hx"
)

type addr struct{}

func (addr) Network() string { return "script" }
func (addr) String() string  { return "script" }

// scriptConn: a transport that delivers the scripted pieces, one per Read (a piece larger than the caller's
// buffer is continued by the next Read), announces on idle that the receiver has come back for more when
// nothing is left, and then blocks until closed.
type scriptConn struct {
	mu       sync.Mutex
	pieces   [][]byte
	idle     chan struct{}
	idleOnce sync.Once
	closed   chan struct{}
	once     sync.Once
	byHarn   bool
}

func (c *scriptConn) Read(p []byte) (int, error) {
	c.mu.Lock()
	for len(c.pieces) > 0 && len(c.pieces[0]) == 0 {
		c.pieces = c.pieces[1:]
	}
	if len(c.pieces) > 0 {
		n := copy(p, c.pieces[0])
		c.pieces[0] = c.pieces[0][n:]
		c.mu.Unlock()
		return n, nil
	}
	c.mu.Unlock()
	c.idleOnce.Do(func() { close(c.idle) })
	<-c.closed
	return 0, errors.New("script transport closed")
}
func (c *scriptConn) Write(p []byte) (int, error) {
	select {
	case <-c.closed:
		return 0, errors.New("script transport closed")
	default:
		return len(p), nil
	}
}
func (c *scriptConn) Close() error                       { c.once.Do(func() { close(c.closed) }); return nil }
func (c *scriptConn) LocalAddr() net.Addr                { return addr{} }
func (c *scriptConn) RemoteAddr() net.Addr               { return addr{} }
func (c *scriptConn) SetDeadline(t time.Time) error      { return nil }
func (c *scriptConn) SetReadDeadline(t time.Time) error  { return nil }
func (c *scriptConn) SetWriteDeadline(t time.Time) error { return nil }

// receive runs the pieces through a real Conn: the frames its reader got, and "open" / "close".
func receive(max uint32, pieces [][]byte) (frames [][]byte, state string) {
	sc := &scriptConn{idle: make(chan struct{}), closed: make(chan struct{})}
	for _, p := range pieces {
		sc.pieces = append(sc.pieces, append([]byte(nil), p...))
	}
	conn, closer, err := connection.NewConn(connection.WithNetConn(sc), connection.KeepaliveInterval(0), connection.KeepaliveTimeout(0), connection.MaxRecvMsgSize(max))
	if err != nil {
		return nil, "err"
	}
	done := make(chan struct{})
	go func() {
		defer close(done)
		for {
			ctx, cancel := context.WithTimeout(context.Background(), 5*time.Second)
			data, err := conn.Read(ctx)
			cancel()
			if err != nil {
				return
			}
			frames = append(frames, data)
		}
	}()
	select {
	case <-sc.idle:
		state = "open"
	case <-sc.closed:
		state = "close"
	case <-time.After(4 * time.Second):
		state = "hang"
	}
	sc.Close() // the receive loop ends, its queue is closed after what it holds has been read
	select {
	case <-done:
	case <-time.After(6 * time.Second):
		state = "hang"
	}
	go closer()
	return frames, state
}

func hexs(bs [][]byte) string {
	if len(bs) == 0 {
		return "-"
	}
	var out []string
	for _, b := range bs {
		out = append(out, hx.Hex(b))
	}
	return strings.Join(out, ",")
}

func main() {
	h := hx.New("stream")
	h.Emit("reset", "ok")
	r := h.Rng
	for s := 0; s < h.N; s++ {
		max := []uint32{16, 64, 300, 2 * 1024 * 1024}[r.Intn(4)]
		var stream []byte
		var units []string
		n := 1 + r.Intn(6)
		for i := 0; i < n; i++ {
			var hdr [4]byte
			switch x := r.Intn(20); {
			case x < 2: // keep-alive
				stream = append(stream, hdr[:]...)
				units = append(units, "ka")
			case x == 2: // oversize announcement, then whatever
				sz := []uint32{max + 1, max + 2, 2 * max, 0x7fffffff, 0x80000000, 0xffffffff}[r.Intn(6)]
				binary.BigEndian.PutUint32(hdr[:], sz)
				stream = append(stream, hdr[:]...)
				junk := make([]byte, r.Intn(12))
				r.Read(junk)
				stream = append(stream, junk...)
				units = append(units, "big")
			default:
				lim := int(max)
				if lim > 40 && r.Intn(6) != 0 {
					lim = 40
				}
				if lim > 3000 {
					lim = 3000
				}
				sz := 1 + r.Intn(lim)
				if r.Intn(8) == 0 {
					sz = int(max) // exactly the limit
					if sz > 3000 {
						sz = 1 + r.Intn(3000)
					}
				}
				body := make([]byte, sz)
				r.Read(body)
				if r.Intn(5) == 0 {
					// bodies that look like length prefixes
					for j := range body {
						body[j] = []byte{0, 0, 0, 1, 0, 0, 0, 0}[j%8]
					}
				}
				binary.BigEndian.PutUint32(hdr[:], uint32(sz))
				stream = append(stream, hdr[:]...)
				stream = append(stream, body...)
				units = append(units, strconv.Itoa(sz))
			}
		}
		if r.Intn(4) == 0 && len(stream) > 1 { // the peer dies mid-stream
			stream = stream[:1+r.Intn(len(stream)-1)]
		}
		// pieces: small ones (so that prefixes are split), sometimes everything at once
		var pieces [][]byte
		rest := stream
		mode := r.Intn(4)
		for len(rest) > 0 {
			k := 1 + r.Intn(7)
			switch mode {
			case 0:
				k = len(rest)
			case 1:
				k = 1 + r.Intn(3)
			case 2:
				if r.Intn(3) == 0 {
					k = 1 + r.Intn(60)
				}
			}
			if k > len(rest) {
				k = len(rest)
			}
			pieces = append(pieces, rest[:k])
			rest = rest[k:]
		}
		frames, state := receive(max, pieces)
		line := fmt.Sprintf("stream %d %s", max, hexs(pieces))
		h.Emit(line, "frames "+hexs(frames)+" "+state)
		h.Res.Sequences++
		h.Res.OracleEvals++
		// what the byte stream says, read in one piece (the property: delivery does not depend on how the transport cuts it)
		var want [][]byte
		for rest := stream; len(rest) >= 4; {
			n := int(binary.BigEndian.Uint32(rest[:4]))
			if n == 0 {
				rest = rest[4:]
				continue
			}
			if uint32(n) > max || len(rest) < 4+n {
				break
			}
			want = append(want, rest[4:4+n])
			rest = rest[4+n:]
		}
		same := len(want) == len(frames)
		for i := 0; same && i < len(want); i++ {
			same = string(want[i]) == string(frames[i])
		}
		if !same && state != "hang" {
			h.FailWith("C17:frames-depend-on-chunking", fmt.Sprintf("units %v in %d pieces: %d frames were handed on, the byte stream holds %d complete frames within the limit (or a frame differs byte for byte)", units, len(pieces), len(frames), len(want)), []string{line})
			h.FailWith("C16:frames-depend-on-chunking", fmt.Sprintf("units %v in %d pieces: %d frames were handed on, the byte stream holds %d complete frames within the limit (or a frame differs byte for byte)", units, len(pieces), len(frames), len(want)), []string{line})
		}
		if state == "hang" {
			h.FailWith("C17:receive-loop-hangs", fmt.Sprintf("units %v in %d pieces: the receive loop neither came back for more bytes nor closed the transport within 4 s", units, len(pieces)), []string{line})
		}
		if s < 2 {
			h.Sample(fmt.Sprintf("limit %d, units %v, %d bytes in %d pieces -> %d frames, %s", max, units, len(stream), len(pieces), len(frames), state))
		}
	}
	h.Finish("byte streams of length-prefixed units (frames of 1..limit bytes, keep-alives, oversize announcements, cut streams) delivered to a real connection.Conn in scripted pieces; distinct = distinct (line, output) pairs")
}
