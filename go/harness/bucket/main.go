// Harness C19: the real leveldb-backed bucket store under random / adversarial
// operation sequences; a shadow tree-of-maps is the property oracle.
package main

import (
	"fmt"
	"os"
	"path/filepath"
	"sort"
	"strconv"
	"strings"

	"massnet.org/mass/poc/wallet/db"
	ldb "massnet.org/mass/poc/wallet/db/ldb"
	"verifharness/hx"
)

// ---- shadow tree of maps (the specification, stated directly) ----
type node struct {
	kv   map[string]string
	subs map[string]*node
}

func newNode() *node { return &node{kv: map[string]string{}, subs: map[string]*node{}} }
func (n *node) clone() *node {
	c := newNode()
	for k, v := range n.kv {
		c.kv[k] = v
	}
	for k, v := range n.subs {
		c.subs[k] = v.clone()
	}
	return c
}
func (n *node) at(path []string) *node {
	cur := n
	for _, p := range path {
		cur = cur.subs[p]
		if cur == nil {
			return nil
		}
	}
	return cur
}

type handle struct {
	b    db.Bucket
	path []string
}

type env struct {
	h        *hx.H
	dir      string
	seq      int
	store    db.DB
	tx       db.DBTransaction
	rtx      db.ReadTransaction
	mode     string // "", "w", "r"
	handles  []handle
	shadow   *node // committed
	work     *node // inside a write tx
	validOps int
	written  []string
	tops     []string // top-level names ever created in this sequence (also in rolled-back transactions)
}

func validName(s string) bool { return len(s) > 0 && len(s) <= 256 && !strings.Contains(s, "_") }

func errName(err error) string {
	switch err {
	case db.ErrInvalidBucketName:
		return "invalidBucketName"
	case db.ErrIllegalBucketPath:
		return "illegalBucketPath"
	case db.ErrIllegalValue:
		return "illegalValue"
	case db.ErrIllegalKey:
		return "illegalKey"
	case db.ErrBucketExist:
		return "bucketExist"
	case db.ErrNotSupported:
		return "notSupported"
	}
	return "other:" + strings.ReplaceAll(err.Error(), " ", "_")
}

func (e *env) cur() *node {
	if e.mode == "w" {
		return e.work
	}
	return e.shadow
}

func (e *env) closeAll() {
	if e.tx != nil {
		e.tx.Rollback()
		e.tx = nil
	}
	e.rtx = nil
	if e.store != nil {
		e.store.Close()
		e.store = nil
	}
}

func (e *env) reset() {
	e.closeAll()
	e.seq++
	dir := filepath.Join(e.dir, fmt.Sprintf("db%d", e.seq))
	os.RemoveAll(filepath.Join(e.dir, fmt.Sprintf("db%d", e.seq-1)))
	s, err := db.CreateDB("leveldb", dir)
	if err != nil {
		panic(err)
	}
	e.store = s
	e.mode = ""
	e.handles = nil
	e.shadow = newNode()
	e.work = nil
	e.written = nil
	e.tops = nil
}

func (e *env) dbdir() string { return filepath.Join(e.dir, fmt.Sprintf("db%d", e.seq)) }

func (e *env) addHandle(b db.Bucket, path []string) string {
	e.handles = append(e.handles, handle{b, append([]string(nil), path...)})
	return "h " + strconv.Itoa(len(e.handles)-1)
}

func (e *env) oracle(cond bool, key, format string, a ...interface{}) {
	e.h.Res.OracleEvals++
	if !cond {
		e.h.Fail(key, fmt.Sprintf(format, a...))
	}
}

// apply executes one operation line on the real store and returns the canonical output.
func (e *env) apply(line string) string {
	t := strings.Fields(line)
	bad := "bad-op"
	getH := func(s string) (handle, bool) {
		i, err := strconv.Atoi(s)
		if err != nil || i < 0 || i >= len(e.handles) {
			return handle{}, false
		}
		return e.handles[i], true
	}
	arg := func(i int) ([]byte, bool) {
		if i >= len(t) {
			return nil, false
		}
		return hx.UnHex(t[i])
	}
	switch t[0] {
	case "reset":
		e.reset()
		return "ok"
	case "begin":
		if e.mode != "" {
			return bad
		}
		tx, err := e.store.BeginTx()
		if err != nil {
			return "err " + errName(err)
		}
		e.tx, e.mode, e.handles = tx, "w", nil
		e.work = e.shadow.clone()
		return "ok"
	case "rbegin":
		if e.mode != "" {
			return bad
		}
		rtx, err := e.store.BeginReadTx()
		if err != nil {
			return "err " + errName(err)
		}
		e.rtx, e.mode, e.handles = rtx, "r", nil
		return "ok"
	case "rend":
		if e.mode != "r" {
			return bad
		}
		e.rtx.Rollback()
		e.rtx, e.mode, e.handles = nil, "", nil
		return "ok"
	case "commit":
		if e.mode != "w" {
			return bad
		}
		err := e.tx.Commit()
		e.tx, e.mode, e.handles = nil, "", nil
		if err != nil {
			return "err " + errName(err)
		}
		e.shadow, e.work = e.work, nil
		return "ok"
	case "rollback":
		if e.mode != "w" {
			return bad
		}
		e.tx.Rollback()
		e.tx, e.mode, e.handles, e.work = nil, "", nil, nil
		return "ok"
	case "raw":
		// the whole flat keyspace underneath (no transaction open): nothing is stored that the tree of buckets does not account for
		if e.mode != "" {
			return bad
		}
		l, ok := e.store.(*ldb.LevelDB)
		if !ok {
			return "err not-leveldb"
		}
		var ents []string
		it := l.LDb.NewIterator(nil, nil)
		for it.Next() {
			ents = append(ents, hx.Hex(it.Key())+"="+hx.Hex(it.Value()))
		}
		it.Release()
		sort.Strings(ents)
		if len(ents) == 0 {
			return "raw -"
		}
		return "raw " + strings.Join(ents, ",")
	case "reopen":
		e.closeAll()
		s, err := db.OpenDB("leveldb", e.dbdir())
		if err != nil {
			return "err " + errName(err)
		}
		e.store, e.mode, e.handles, e.work = s, "", nil, nil
		return "ok"
	}
	if e.mode == "" {
		return bad
	}
	switch t[0] {
	case "top", "ctop":
		name, ok := arg(1)
		if !ok {
			return bad
		}
		if t[0] == "top" {
			var b db.Bucket
			if e.mode == "w" {
				b = e.tx.TopLevelBucket(string(name))
			} else {
				b = e.rtx.TopLevelBucket(string(name))
			}
			exists := e.cur().subs[string(name)] != nil
			e.oracle((b != nil) == exists, "top-presence", "TopLevelBucket(%q) found=%v, tree says %v", name, b != nil, exists)
			if b == nil {
				return "nil"
			}
			return e.addHandle(b, []string{string(name)})
		}
		if e.mode != "w" {
			return bad
		}
		b, err := e.tx.CreateTopLevelBucket(string(name))
		e.oracle((err == nil) == validName(string(name)), "ctop-validity", "CreateTopLevelBucket(%q) err=%v", name, err)
		if err != nil {
			return "err " + errName(err)
		}
		if e.work.subs[string(name)] == nil {
			e.work.subs[string(name)] = newNode()
		}
		e.tops = append(e.tops, string(name))
		return e.addHandle(b, []string{string(name)})
	case "tnames":
		var ns []string
		var err error
		if e.mode == "w" {
			ns, err = e.tx.BucketNames()
		} else {
			ns, err = e.rtx.BucketNames()
		}
		if err != nil {
			return "err " + errName(err)
		}
		e.checkNames(ns, e.cur(), "tnames")
		return showNames(ns)
	}
	if len(t) < 2 {
		return bad
	}
	h, ok := getH(t[1])
	if !ok {
		return bad
	}
	nd := e.cur().at(h.path) // may be nil if the bucket was deleted through another handle
	switch t[0] {
	case "sub":
		name, ok := arg(2)
		if !ok {
			return bad
		}
		b := h.b.Bucket(string(name))
		if nd != nil {
			exists := nd.subs[string(name)] != nil
			e.oracle((b != nil) == exists, "sub-presence", "Bucket(%q) under %q found=%v, tree says %v", name, h.path, b != nil, exists)
		}
		if b == nil {
			return "nil"
		}
		return e.addHandle(b, append(append([]string(nil), h.path...), string(name)))
	case "new":
		name, ok := arg(2)
		if !ok {
			return bad
		}
		b, err := h.b.NewBucket(string(name))
		if nd != nil && e.mode == "w" {
			want := validName(string(name)) && nd.subs[string(name)] == nil
			e.oracle((err == nil) == want, "new-result", "NewBucket(%q) under %q err=%v, tree expects success=%v", name, h.path, err, want)
		}
		if err != nil {
			return "err " + errName(err)
		}
		if nd != nil {
			nd.subs[string(name)] = newNode()
		}
		return e.addHandle(b, append(append([]string(nil), h.path...), string(name)))
	case "names":
		ns, err := h.b.BucketNames()
		if err != nil {
			return "err " + errName(err)
		}
		if nd != nil {
			e.checkNames(ns, nd, "names")
		}
		return showNames(ns)
	case "delb":
		name, ok := arg(2)
		if !ok {
			return bad
		}
		err := h.b.DeleteBucket(string(name))
		if err != nil {
			return "err " + errName(err)
		}
		if nd != nil {
			delete(nd.subs, string(name))
		}
		return "ok"
	case "put":
		k, ok1 := arg(2)
		v, ok2 := arg(3)
		if !ok1 || !ok2 {
			return bad
		}
		err := h.b.Put(k, v)
		if e.mode == "w" {
			e.oracle((err == nil) == (len(k) > 0 && len(v) > 0), "put-result", "Put(%x,%x) err=%v", k, v, err)
		}
		if err != nil {
			return "err " + errName(err)
		}
		if nd != nil {
			nd.kv[string(k)] = string(v)
		}
		e.written = append(e.written, string(k))
		return "ok"
	case "get":
		k, ok := arg(2)
		if !ok {
			return bad
		}
		v, err := h.b.Get(k)
		if err != nil {
			return "err " + errName(err)
		}
		if nd != nil {
			want, has := nd.kv[string(k)]
			e.oracle((v != nil) == has && string(v) == want, "get-isolation", "Get(%x) in %q = %x, tree says %x (present=%v)", k, h.path, v, want, has)
		}
		if v == nil {
			return "nil"
		}
		return "val " + hx.Hex(v)
	case "del":
		k, ok := arg(2)
		if !ok {
			return bad
		}
		err := h.b.Delete(k)
		if err != nil {
			return "err " + errName(err)
		}
		if nd != nil {
			delete(nd.kv, string(k))
		}
		return "ok"
	case "clear":
		err := h.b.Clear()
		if err != nil {
			return "err " + errName(err)
		}
		if nd != nil {
			nd.kv = map[string]string{}
		}
		return "ok"
	case "scan":
		p, ok := arg(2)
		if !ok {
			return bad
		}
		es, err := h.b.GetByPrefix(p)
		if err != nil {
			return "err " + errName(err)
		}
		var parts []string
		got := map[string]string{}
		for _, en := range es {
			parts = append(parts, hx.Hex(en.Key)+"="+hx.Hex(en.Value))
			got[string(en.Key)] = string(en.Value)
		}
		if nd != nil {
			want := map[string]string{}
			for k, v := range nd.kv {
				if strings.HasPrefix(k, string(p)) {
					want[k] = v
				}
			}
			same := len(want) == len(got) && len(got) == len(es)
			for k, v := range want {
				if got[k] != v {
					same = false
				}
			}
			e.oracle(same, "scan-isolation", "GetByPrefix(%x) in %q = %v, tree says %v", p, h.path, got, want)
		}
		return "entries " + strings.Join(parts, ",")
	case "fetch":
		m := h.b.GetBucketMeta()
		var b db.Bucket
		if e.mode == "w" {
			b = e.tx.FetchBucket(m)
		} else {
			b = e.rtx.FetchBucket(m)
		}
		// a handle may dangle: its bucket, or a bucket above it, was removed through another handle, and whatever was created
		// through the dangling handle afterwards lies in no bucket of the tree (the wallet never does that; outside the property).
		// Judged only when the bucket's parent is in the tree.
		parentThere := len(h.path) <= 1 || e.cur().at(h.path[:len(h.path)-1]) != nil
		if parentThere {
			e.oracle((b != nil) == (nd != nil), "fetch-presence", "FetchBucket(meta of %q) found=%v, tree says %v", h.path, b != nil, nd != nil)
		}
		if b == nil {
			return "nil"
		}
		return e.addHandle(b, h.path)
	}
	return bad
}

func (e *env) checkNames(ns []string, nd *node, what string) {
	var want []string
	for k := range nd.subs {
		want = append(want, k)
	}
	sort.Strings(want)
	got := append([]string(nil), ns...)
	sort.Strings(got)
	e.oracle(strings.Join(got, "\x00") == strings.Join(want, "\x00"), what+"-agree", "%s = %q, tree says %q", what, got, want)
}

func showNames(ns []string) string {
	s := append([]string(nil), ns...)
	sort.Strings(s)
	for i := range s {
		s[i] = hx.Hex([]byte(s[i]))
	}
	return "names " + strings.Join(s, ",")
}

// ---- generator ----

var namePool = []string{"a", "ab", "abc", "a", "ab", "1", "2", "10", "b", "a1", "km", "a_b", "", "_", "1_a", "b_1_a"}
var keyPool = []string{"k", "k1", "k12", "a", "a_k", "_", "", "b_k", "b_k", "2_a_ab_k", "ab", "1_a_k", "\x00", "\xff", "k\x00", "_k", "b_", "b", "c_k", "bc_k"}
var valPool = []string{"v", "v2", "", "\x00", "value_with_sep", "b_1_km"}

func (e *env) genName() []byte {
	r := e.h.Rng
	switch r.Intn(20) {
	case 0:
		return []byte(strings.Repeat("n", 256))
	case 1:
		return []byte(strings.Repeat("n", 257))
	case 2:
		b := make([]byte, 1+r.Intn(3))
		r.Read(b)
		return b
	}
	return []byte(namePool[r.Intn(len(namePool))])
}
func (e *env) genKey() []byte {
	r := e.h.Rng
	if len(e.written) > 0 && r.Intn(2) == 0 {
		return []byte(e.written[r.Intn(len(e.written))])
	}
	if r.Intn(10) == 0 {
		b := make([]byte, r.Intn(4))
		r.Read(b)
		return b
	}
	// sometimes a key imitating another handle's inner layout
	if r.Intn(8) == 0 && len(e.handles) > 0 {
		h := e.handles[r.Intn(len(e.handles))]
		return []byte(strings.Join(h.path[1:], "_") + "_k")
	}
	return []byte(keyPool[r.Intn(len(keyPool))])
}

func (e *env) genOp() string {
	r := e.h.Rng
	if e.mode == "" {
		switch x := r.Intn(10); {
		case x < 7:
			return "begin"
		case x < 9:
			return "rbegin"
		default:
			return "reopen"
		}
	}
	nh := len(e.handles)
	if nh == 0 || r.Intn(10) == 0 {
		if e.mode == "w" && r.Intn(2) == 0 {
			return "ctop " + hx.Hex(e.genName())
		}
		if r.Intn(4) == 0 {
			return "tnames"
		}
		if len(e.tops) > 0 && r.Intn(10) < 7 {
			return "top " + hx.Hex([]byte(e.tops[r.Intn(len(e.tops))]))
		}
		return "top " + hx.Hex(e.genName())
	}
	hid := strconv.Itoa(r.Intn(nh))
	x := r.Intn(100)
	if e.mode == "r" {
		switch {
		case x < 8:
			return "rend"
		case x < 30:
			return "get " + hid + " " + hx.Hex(e.genKey())
		case x < 50:
			return "scan " + hid + " " + hx.Hex(e.genKey())
		case x < 65:
			return "sub " + hid + " " + hx.Hex(e.genName())
		case x < 75:
			return "names " + hid
		case x < 85:
			return "fetch " + hid
		case x < 90:
			return "put " + hid + " " + hx.Hex(e.genKey()) + " " + hx.Hex([]byte("v"))
		default:
			return "tnames"
		}
	}
	switch {
	case x < 5:
		return "commit"
	case x < 9:
		return "rollback"
	case x < 10:
		return "reopen"
	case x < 35:
		return "put " + hid + " " + hx.Hex(e.genKey()) + " " + hx.Hex([]byte(valPool[r.Intn(len(valPool))]))
	case x < 47:
		return "get " + hid + " " + hx.Hex(e.genKey())
	case x < 53:
		return "del " + hid + " " + hx.Hex(e.genKey())
	case x < 57:
		return "clear " + hid
	case x < 67:
		return "scan " + hid + " " + hx.Hex(e.genKey())
	case x < 80:
		return "new " + hid + " " + hx.Hex(e.genName())
	case x < 88:
		return "sub " + hid + " " + hx.Hex(e.genName())
	case x < 92:
		return "names " + hid
	case x < 96:
		return "delb " + hid + " " + hx.Hex(e.genName())
	default:
		return "fetch " + hid
	}
}

func main() {
	h := hx.New("bucket")
	tmp, err := os.MkdirTemp("", "verif-bucket-")
	if err != nil {
		panic(err)
	}
	defer os.RemoveAll(tmp)
	e := &env{h: h, dir: tmp}
	if ls := h.ReplayLines(); ls != nil {
		if len(ls) == 0 || ls[0] != "reset" {
			h.Emit("reset", e.apply("reset"))
		}
		for _, l := range ls {
			h.Emit(l, e.apply(l))
		}
	} else {
		for s := 0; s < h.N; s++ {
			h.Emit("reset", e.apply("reset"))
			if h.Rng.Intn(10) < 7 {
				// preamble: a small tree whose names and keys are prefixes / imitations of one another
				pre := []string{"begin", "ctop " + hx.Hex([]byte("a")), "ctop " + hx.Hex([]byte("ab")),
					"new 0 " + hx.Hex([]byte("a")), "new 0 " + hx.Hex([]byte("ab")), "new 1 " + hx.Hex([]byte("a")),
					"new 2 " + hx.Hex([]byte("b")), "new 0 " + hx.Hex([]byte("1")), "new 0 " + hx.Hex([]byte("10"))}
				for _, op := range pre {
					h.Emit(op, e.apply(op))
				}
				for i := 0; i < 6+h.Rng.Intn(10); i++ {
					op := "put " + strconv.Itoa(h.Rng.Intn(len(e.handles))) + " " + hx.Hex(e.genKey()) + " " + hx.Hex([]byte(valPool[h.Rng.Intn(2)]))
					h.Emit(op, e.apply(op))
				}
				if h.Rng.Intn(2) == 0 {
					h.Emit("commit", e.apply("commit"))
				}
			}
			if len(e.handles) == 0 && e.mode == "" && h.Rng.Intn(6) == 0 {
				// deep nesting: depth numerals change width at 10
				pre := []string{"begin", "ctop " + hx.Hex([]byte("d"))}
				for _, op := range pre {
					h.Emit(op, e.apply(op))
				}
				cur := 0
				for d := 2; d <= 12; d++ {
					for _, nm := range []string{"ab", "ac", "a"} {
						op := "new " + strconv.Itoa(cur) + " " + hx.Hex([]byte(nm))
						h.Emit(op, e.apply(op))
					}
					cur = len(e.handles) - 1 // descend into "a"
					if d >= 9 {
						for _, hid := range []int{len(e.handles) - 3, len(e.handles) - 2} {
							op := "put " + strconv.Itoa(hid) + " " + hx.Hex(e.genKey()) + " " + hx.Hex([]byte("v"+strconv.Itoa(hid)))
							h.Emit(op, e.apply(op))
						}
					}
				}
				if h.Rng.Intn(2) == 0 {
					h.Emit("commit", e.apply("commit"))
				}
			}
			if len(e.handles) == 0 && e.mode == "" && s%4 == 1 {
				// transactions that make exactly ONE modification each (a commit must not depend on what else was written):
				// removal of an empty bucket holding empty buckets, of a non-empty one, of a key; one new bucket; one put; one clear
				x := hx.Hex([]byte("x"))
				hexs := func(v string) string { return hx.Hex([]byte(v)) }
				pre := []string{"begin", "ctop " + x, "new 0 " + hexs("e"), "new 1 " + hexs("f"), "new 2 " + hexs("ff"), "new 0 " + hexs("g"), "put 4 " + hexs("k") + " " + hexs("v"),
					"new 0 " + hexs("c"), "put 5 " + hexs("k1") + " " + hexs("v1"), "put 0 " + hexs("k0") + " " + hexs("v0"),
					"new 0 " + hexs("r"), "put 6 " + hexs("k") + " " + hexs("old"), "put 6 " + hexs("k3") + " " + hexs("old3"), "commit"}
				singles := [][]string{{"delb 0 " + hexs("e")}, {"delb 0 " + hexs("g")}, {"del 0 " + hexs("k0")}, {"new 0 " + hexs("n")}, {"put 0 " + hexs("k2") + " " + hexs("v2")},
					{"sub 0 " + hexs("c"), "clear 1"}, {"sub 0 " + hexs("n"), "new 1 " + hexs("m")}, {"sub 0 " + hexs("n"), "delb 1 " + hexs("m")}, {"delb 0 " + hexs("n")},
					// a bucket removed and created again in ONE transaction: the transaction sees its own removal, and what it then
					// writes into the new bucket - also under a key the old one held - is what is there after the commit
					{"delb 0 " + hexs("r"), "new 0 " + hexs("r"), "get 1 " + hexs("k"), "scan 1 -", "put 1 " + hexs("k") + " " + hexs("new"), "get 1 " + hexs("k3")},
					{"sub 0 " + hexs("r"), "get 1 " + hexs("k"), "get 1 " + hexs("k3"), "scan 1 -"}}
				h.Rng.Shuffle(3, func(i, j int) { singles[i], singles[j] = singles[j], singles[i] })
				for _, op := range pre {
					h.Emit(op, e.apply(op))
				}
				for _, one := range singles {
					for _, op := range append(append([]string{"begin", "top " + x}, one...), "commit", "rbegin", "top "+x, "names 0", "sub 0 "+hexs("e"), "sub 0 "+hexs("g"), "sub 0 "+hexs("n"), "get 0 "+hexs("k0"), "rend") {
						h.Emit(op, e.apply(op))
					}
				}
			}
			n := 5 + h.Rng.Intn(h.Len)
			for i := 0; i < n; i++ {
				op := e.genOp()
				h.Emit(op, e.apply(op))
			}
			// final audit of every bucket in the shadow after a reopen
			for _, op := range []string{"reopen", "raw", "rbegin", "tnames"} {
				h.Emit(op, e.apply(op))
			}
			e.audit(e.shadow, nil)
			if s < 3 {
				h.Sample(strings.Join(h.Cur(), " ; "))
			}
		}
	}
	e.closeAll()
	h.Finish("random op sequences over nested buckets with adversarial names/keys; distinct = distinct (op line, output) pairs")
}

// audit walks the shadow tree and reads every bucket back through the API.
func (e *env) audit(nd *node, path []string) {
	var names []string
	for k := range nd.subs {
		names = append(names, k)
	}
	sort.Strings(names)
	for _, n := range names {
		var op string
		if len(path) == 0 {
			op = "top " + hx.Hex([]byte(n))
		} else {
			// find a handle for path
			op = "sub " + strconv.Itoa(e.findHandle(path)) + " " + hx.Hex([]byte(n))
		}
		out := e.apply(op)
		e.h.Emit(op, out)
		if !strings.HasPrefix(out, "h ") {
			continue
		}
		id := strconv.Itoa(len(e.handles) - 1)
		for _, op2 := range []string{"scan " + id + " -", "names " + id} {
			e.h.Emit(op2, e.apply(op2))
		}
		e.audit(nd.subs[n], append(append([]string(nil), path...), n))
	}
}

func (e *env) findHandle(path []string) int {
	for i := len(e.handles) - 1; i >= 0; i-- {
		if strings.Join(e.handles[i].path, "\x00") == strings.Join(path, "\x00") {
			return i
		}
	}
	return -1
}
