// Harness C16: the cluster wire codec.  Structured stream (well-formed messages
// of all six types, round trip through EncodeMessage/DecodeMessage) and malformed
// stream (every wire struct with fields absent / null / wrong / bad hex / bad uuid,
// truncated and random bytes).  DecodeMessage runs under recover with a watchdog.
package main

import (
	"context"
	"encoding/binary"
	"encoding/hex"
	"encoding/json"
	"fmt"
	"math/big"
	"net"
	"reflect"
	"strconv"
	"strings"
	"time"

	"github.com/google/uuid"
	"github.com/massnetorg/mass-core/poc/chiapos"
	"github.com/massnetorg/mass-core/poc/pocutil"
	"massnet.org/mass/fractal/connection"
	"massnet.org/mass/fractal/protocol"
	engine_v2 "massnet.org/mass/poc/engine.v2"
	"verifharness/hx"
)

type G struct {
	h   *hx.H
	g1s []*chiapos.G1Element
	g2s []*chiapos.G2Element
}

func tx(s string) string { return hx.Hex([]byte(s)) }

func uuidField(s string) string {
	u, err := uuid.Parse(s)
	if err != nil {
		return tx(s) + "/!"
	}
	return tx(s) + "/" + hex.EncodeToString(u[:])
}

func g1Field(s string) string {
	b, err := hex.DecodeString(s)
	ok := "0"
	if err == nil {
		if _, err := chiapos.NewG1ElementFromBytes(b); err == nil {
			ok = "1"
		}
	}
	return tx(s) + "/" + ok
}

func g2Field(s string) string {
	b, err := hex.DecodeString(s)
	ok := "0"
	if err == nil {
		if _, err := chiapos.NewG2ElementFromBytes(b); err == nil {
			ok = "1"
		}
	}
	return tx(s) + "/" + ok
}

// wireLine renders what json.Unmarshal produced for a body of message type typ.
func wireLine(typ int, body []byte) string {
	p := "dec " + strconv.Itoa(typ) + " "
	switch typ {
	case 1:
		m := &protocol.MsgRequestQualities{}
		if json.Unmarshal(body, m) != nil {
			return p + "jsonerr"
		}
		return p + fmt.Sprintf("%s %s %s %d %d", uuidField(m.TaskID), tx(m.Challenge), tx(m.ParentTarget), m.ParentSlot, m.Height)
	case 2:
		m := &protocol.MsgReportQualities{}
		if json.Unmarshal(body, m) != nil {
			return p + "jsonerr"
		}
		s := p + uuidField(m.TaskID)
		for _, q := range m.Qualities {
			if q == nil {
				s += " QNULL"
				continue
			}
			s += fmt.Sprintf(" Q %s %s %s %d %d %s %s %d", tx(q.SpaceID), g1Field(q.PublicKey), g1Field(q.PoolPublicKey), q.Index, q.KSize, tx(q.Quality), tx(q.PlotID), q.Slot)
		}
		return s
	case 3:
		m := &protocol.MsgRequestProof{}
		if json.Unmarshal(body, m) != nil {
			return p + "jsonerr"
		}
		return p + fmt.Sprintf("%s %d %s %s %d", uuidField(m.TaskID), m.Height, tx(m.SpaceID), tx(m.Challenge), m.Index)
	case 4:
		m := &protocol.MsgReportProof{}
		if json.Unmarshal(body, m) != nil {
			return p + "jsonerr"
		}
		if m.Proof == nil {
			return p + uuidField(m.TaskID) + " PNULL"
		}
		q := m.Proof
		return p + fmt.Sprintf("%s P %s %s %s %s %d %s", uuidField(m.TaskID), tx(q.SpaceID), tx(q.Challenge), g1Field(q.PoolPublicKey), g1Field(q.PlotPublicKey), q.KSize, tx(q.Proof))
	case 5:
		m := &protocol.MsgRequestSignature{}
		if json.Unmarshal(body, m) != nil {
			return p + "jsonerr"
		}
		return p + fmt.Sprintf("%s %d %s %s", uuidField(m.TaskID), m.Height, tx(m.SpaceID), tx(m.Hash))
	case 6:
		m := &protocol.MsgReportSignature{}
		if json.Unmarshal(body, m) != nil {
			return p + "jsonerr"
		}
		return p + fmt.Sprintf("%s %s %s %s", uuidField(m.TaskID), tx(m.SpaceID), tx(m.Hash), g2Field(m.Signature))
	}
	return p + "unknown"
}

func hb(b []byte) string { return hx.Hex(b) }

func showQuality(q *protocol.Quality) string {
	w := q.WorkSpaceQuality
	return fmt.Sprintf("[%s %s %s %d %d %s %s %d]", tx(w.SpaceID), hb(w.PublicKey.Bytes()), hb(w.PoolPublicKey.Bytes()), w.Index, w.KSize, hb(w.Quality), hb(w.PlotID[:]), q.Slot)
}

func showMsg(m protocol.Message) string {
	switch x := m.(type) {
	case *protocol.RequestQualities:
		return fmt.Sprintf("reqq %s %s %s %d %d", hb(x.TaskID[:]), hb(x.Challenge[:]), x.ParentTarget.String(), x.ParentSlot, x.Height)
	case *protocol.ReportQualities:
		s := "repq " + hb(x.TaskID[:])
		for _, q := range x.Qualities {
			s += " " + showQuality(q)
		}
		return s
	case *protocol.RequestProof:
		return fmt.Sprintf("reqp %s %d %s %s %d", hb(x.TaskID[:]), x.Height, tx(x.SpaceID), hb(x.Challenge[:]), x.Index)
	case *protocol.ReportProof:
		p := x.Proof
		return fmt.Sprintf("repp %s %s %s %s %s %d %s pub=%s ord=%d puzzle=%s", hb(x.TaskID[:]), tx(p.SpaceID), hb(p.Proof.Challenge[:]), hb(p.Proof.PoolPublicKey.Bytes()),
			hb(p.Proof.PlotPublicKey.Bytes()), p.Proof.KSize, hb(p.Proof.Proof), hb(p.PublicKey.Bytes()), p.Ordinal, hb(p.Proof.PuzzleHash[:]))
	case *protocol.RequestSignature:
		return fmt.Sprintf("reqs %s %d %s %s", hb(x.TaskID[:]), x.Height, tx(x.SpaceID), hb(x.Hash[:]))
	case *protocol.ReportSignature:
		return fmt.Sprintf("reps %s %s %s %s", hb(x.TaskID[:]), tx(x.SpaceID), hb(x.Hash[:]), hb(x.Signature.Bytes()))
	}
	return "?"
}

// decode runs DecodeMessage under recover and a watchdog.
func decode(data []byte) (out string, msg protocol.Message) {
	type res struct {
		out string
		msg protocol.Message
	}
	ch := make(chan res, 1)
	go func() {
		defer func() {
			if r := recover(); r != nil {
				ch <- res{"panic", nil}
			}
		}()
		m, err := protocol.DecodeMessage(data)
		if err != nil {
			ch <- res{"error", nil}
			return
		}
		ch <- res{"ok " + showMsg(m), m}
	}()
	select {
	case r := <-ch:
		return r.out, r.msg
	case <-time.After(20 * time.Second):
		return "hang", nil
	}
}

func frame(typ int, body []byte) []byte {
	b := make([]byte, 2)
	binary.BigEndian.PutUint16(b, uint16(typ))
	return append(b, body...)
}

func (g *G) decLine(typ int, body []byte, what string) {
	data := frame(typ, body)
	var line string
	if typ < 1 || typ > 6 {
		line = "dec " + strconv.Itoa(typ) + " unknown"
	} else {
		line = wireLine(typ, body)
	}
	out, _ := decode(data)
	g.h.Emit(line, out)
	g.h.Res.OracleEvals++
	if out == "panic" || out == "hang" {
		key := "decode-" + out + "-type" + strconv.Itoa(typ)
		g.h.FailWith(key, fmt.Sprintf("DecodeMessage %s on %s frame: type=%d body=%q", out, what, typ, truncate(body)), []string{line, "# frame hex: " + hex.EncodeToString(data)})
	}
}

func truncate(b []byte) string {
	if len(b) > 300 {
		return string(b[:300]) + "..."
	}
	return string(b)
}

func (g *G) hash() (h pocutil.Hash) { g.h.Rng.Read(h[:]); return }
func (g *G) bytes(max int) []byte {
	b := make([]byte, g.h.Rng.Intn(max+1))
	g.h.Rng.Read(b)
	return b
}
func (g *G) g1() *chiapos.G1Element { return g.g1s[g.h.Rng.Intn(len(g.g1s))] }
func (g *G) uuid() (u uuid.UUID)    { g.h.Rng.Read(u[:]); return }
func (g *G) u64() uint64 {
	switch g.h.Rng.Intn(5) {
	case 0:
		return 0
	case 1:
		return ^uint64(0)
	}
	return g.h.Rng.Uint64()
}
func (g *G) space() string {
	return []string{"", "space-1", "a b", "ünï", "\"quoted\"\\", "x\x00y", strings.Repeat("s", 100)}[g.h.Rng.Intn(7)]
}

func (g *G) target() *big.Int {
	r := g.h.Rng
	switch r.Intn(7) {
	case 0:
		return big.NewInt(0)
	case 1:
		return big.NewInt(1)
	case 2:
		return big.NewInt(255)
	case 3:
		return big.NewInt(256)
	case 4:
		return new(big.Int).Lsh(big.NewInt(1), uint(r.Intn(300)))
	}
	return new(big.Int).SetBytes(g.bytes(40))
}

func (g *G) quality() *protocol.Quality {
	var pid [32]byte
	g.h.Rng.Read(pid[:])
	return &protocol.Quality{WorkSpaceQuality: &engine_v2.WorkSpaceQuality{SpaceID: g.space(), PublicKey: g.g1(), PoolPublicKey: g.g1(),
		Index: g.h.Rng.Uint32(), KSize: uint8(g.h.Rng.Intn(256)), Quality: g.bytes(40), PlotID: pid}, Slot: g.u64()}
}

func (g *G) message(typ int) protocol.Message {
	switch typ {
	case 1:
		return &protocol.RequestQualities{TaskID: g.uuid(), Challenge: g.hash(), ParentTarget: g.target(), ParentSlot: g.u64(), Height: g.u64()}
	case 2:
		m := &protocol.ReportQualities{TaskID: g.uuid()}
		for i := g.h.Rng.Intn(4); i > 0; i-- {
			m.Qualities = append(m.Qualities, g.quality())
		}
		return m
	case 3:
		return &protocol.RequestProof{TaskID: g.uuid(), Height: g.u64(), SpaceID: g.space(), Challenge: g.hash(), Index: g.h.Rng.Uint32()}
	case 4:
		plk := g.g1()
		pos := &chiapos.ProofOfSpace{Challenge: g.hash(), PoolPublicKey: g.g1(), PlotPublicKey: plk, KSize: uint8(g.h.Rng.Intn(256)), Proof: g.bytes(64)}
		return &protocol.ReportProof{TaskID: g.uuid(), Proof: &protocol.Proof{SpaceID: g.space(), Proof: pos, PublicKey: plk, Ordinal: engine_v2.UnknownOrdinal}}
	case 5:
		return &protocol.RequestSignature{TaskID: g.uuid(), Height: g.u64(), SpaceID: g.space(), Hash: g.hash()}
	default:
		return &protocol.ReportSignature{TaskID: g.uuid(), SpaceID: g.space(), Hash: g.hash(), Signature: g.g2s[g.h.Rng.Intn(len(g.g2s))]}
	}
}

func uv(u uuid.UUID) string { return hex.EncodeToString(u[:]) + "/" + tx(u.String()) }

// encLine renders a message's field values (input of the model's toWire) and the implementation's wire struct.
func encLine(m protocol.Message) (line, out string) {
	switch x := m.(type) {
	case *protocol.RequestQualities:
		w := x.Msg()
		return fmt.Sprintf("enc 1 %s %s %s %d %d", uv(x.TaskID), hb(x.Challenge[:]), x.ParentTarget.String(), x.ParentSlot, x.Height),
			fmt.Sprintf("t=%d w1 %s %s %s %d %d", x.MsgType(), tx(w.TaskID), tx(w.Challenge), tx(w.ParentTarget), w.ParentSlot, w.Height)
	case *protocol.ReportQualities:
		w := x.Msg()
		l := "enc 2 " + uv(x.TaskID)
		o := fmt.Sprintf("t=%d w2 %s", x.MsgType(), tx(w.TaskID))
		for i, q := range x.Qualities {
			l += fmt.Sprintf(" Q %s %s %s %d %d %s %s %d", tx(q.SpaceID), hb(q.PublicKey.Bytes()), hb(q.PoolPublicKey.Bytes()), q.Index, q.KSize, hb(q.Quality), hb(q.PlotID[:]), q.Slot)
			wq := w.Qualities[i]
			o += fmt.Sprintf(" Q %s %s %s %d %d %s %s %d", tx(wq.SpaceID), tx(wq.PublicKey), tx(wq.PoolPublicKey), wq.Index, wq.KSize, tx(wq.Quality), tx(wq.PlotID), wq.Slot)
		}
		return l, o
	case *protocol.RequestProof:
		w := x.Msg()
		return fmt.Sprintf("enc 3 %s %d %s %s %d", uv(x.TaskID), x.Height, tx(x.SpaceID), hb(x.Challenge[:]), x.Index),
			fmt.Sprintf("t=%d w3 %s %d %s %s %d", x.MsgType(), tx(w.TaskID), w.Height, tx(w.SpaceID), tx(w.Challenge), w.Index)
	case *protocol.ReportProof:
		w := x.Msg()
		p := x.Proof
		return fmt.Sprintf("enc 4 %s %s %s %s %s %d %s", uv(x.TaskID), tx(p.SpaceID), hb(p.Proof.Challenge[:]), hb(p.Proof.PoolPublicKey.Bytes()), hb(p.Proof.PlotPublicKey.Bytes()), p.Proof.KSize, hb(p.Proof.Proof)),
			fmt.Sprintf("t=%d w4 %s P %s %s %s %s %d %s", x.MsgType(), tx(w.TaskID), tx(w.Proof.SpaceID), tx(w.Proof.Challenge), tx(w.Proof.PoolPublicKey), tx(w.Proof.PlotPublicKey), w.Proof.KSize, tx(w.Proof.Proof))
	case *protocol.RequestSignature:
		w := x.Msg()
		return fmt.Sprintf("enc 5 %s %d %s %s", uv(x.TaskID), x.Height, tx(x.SpaceID), hb(x.Hash[:])),
			fmt.Sprintf("t=%d w5 %s %d %s %s", x.MsgType(), tx(w.TaskID), w.Height, tx(w.SpaceID), tx(w.Hash))
	case *protocol.ReportSignature:
		w := x.Msg()
		return fmt.Sprintf("enc 6 %s %s %s %s", uv(x.TaskID), tx(x.SpaceID), hb(x.Hash[:]), hb(x.Signature.Bytes())),
			fmt.Sprintf("t=%d w6 %s %s %s %s", x.MsgType(), tx(w.TaskID), tx(w.SpaceID), tx(w.Hash), tx(w.Signature))
	}
	return "bad", "bad"
}

func main() {
	h := hx.New("codec")
	g := &G{h: h}
	scheme := chiapos.NewAugSchemeMPL()
	g.g1s = append(g.g1s, chiapos.NewG1ElementGenerator(), chiapos.NewG1Element())
	g.g2s = append(g.g2s, chiapos.NewG2ElementGenerator(), chiapos.NewG2Element())
	for i := 0; i < 4; i++ {
		seed := make([]byte, 32)
		h.Rng.Read(seed)
		sk, err := scheme.KeyGen(seed)
		if err != nil {
			panic(err)
		}
		pk, _ := sk.GetG1()
		g.g1s = append(g.g1s, pk)
		sig, _ := scheme.Sign(sk, []byte("m"))
		g.g2s = append(g.g2s, sig)
	}
	if ls := h.ReplayLines(); ls != nil {
		for _, l := range ls {
			if strings.HasPrefix(l, "hexframe ") {
				b, _ := hex.DecodeString(strings.TrimPrefix(l, "hexframe "))
				out, _ := decode(b)
				fmt.Println("DecodeMessage =>", out)
				if out == "panic" || out == "hang" {
					h.FailWith("decode-"+out, "replayed frame", []string{l})
				}
			}
		}
		h.Emit("reset", "ok")
		h.Finish("replay of hex frames")
		return
	}
	h.Emit("reset", "ok")
	// ---- structured stream: round trips
	for i := 0; i < h.N*10; i++ {
		typ := 1 + i%6
		m := g.message(typ)
		line, out := encLine(m)
		h.Emit(line, out)
		data, err := protocol.EncodeMessage(m)
		if err != nil {
			h.FailWith("encode-error", fmt.Sprintf("EncodeMessage failed: %v", err), []string{line})
			continue
		}
		g.decLine(typ, data[2:], "well-formed")
		_, back := decode(data)
		h.Res.OracleEvals++
		if back == nil || back.MsgType() != m.MsgType() || showMsg(back) != showMsg(m) || !sameMsg(m, back) {
			h.FailWith("roundtrip-type"+strconv.Itoa(typ), fmt.Sprintf("decode(encode(m)) != m: m=%s back=%v", showMsg(m), back), []string{line, "# frame hex: " + hex.EncodeToString(data)})
		}
		if i < 3 {
			h.Sample(line + " => " + out)
		}
	}
	// frames are values: encoding further messages must not change a frame the caller still holds
	// (a sender queues several encoded frames before any of them is written or decoded)
	for round := 0; round < 1+h.N/8; round++ {
		k := 2 + h.Rng.Intn(7)
		msgs := make([]protocol.Message, k)
		frames := make([][]byte, k)
		copies := make([][]byte, k)
		for i := range msgs {
			msgs[i] = g.message(1 + h.Rng.Intn(6))
			data, err := protocol.EncodeMessage(msgs[i])
			if err != nil {
				continue
			}
			frames[i] = data
			copies[i] = append([]byte(nil), data...)
		}
		for i, m := range msgs {
			if frames[i] == nil {
				continue
			}
			h.Res.OracleEvals++
			line, _ := encLine(m)
			if string(frames[i]) != string(copies[i]) {
				h.FailWith("frame-altered-by-later-encode", fmt.Sprintf("the frame EncodeMessage returned for message %d of %d changed while later messages were encoded", i, k), []string{line, "# frame as returned: " + hex.EncodeToString(copies[i]), "# frame now: " + hex.EncodeToString(frames[i])})
				continue
			}
			_, back := decode(frames[i])
			if back == nil || back.MsgType() != m.MsgType() || !sameMsg(m, back) {
				h.FailWith("roundtrip-batch", fmt.Sprintf("message %d of a batch of %d encoded first and decoded afterwards differs: m=%s back=%v", i, k, showMsg(m), back), []string{line})
			}
		}
	}
	// a negative parent target is not well-formed (the sign does not travel); model correspondence only
	{
		m := &protocol.RequestQualities{TaskID: g.uuid(), Challenge: g.hash(), ParentTarget: big.NewInt(-258), ParentSlot: 1, Height: 2}
		line, out := encLine(m)
		h.Emit(line, out)
	}
	// ---- malformed stream
	for i := 0; i < h.N*10; i++ {
		typ := 1 + i%6
		m := g.message(typ)
		data, _ := protocol.EncodeMessage(m)
		var obj map[string]interface{}
		json.Unmarshal(data[2:], &obj)
		// a null element at every position of a list of otherwise well-formed elements
		if l, ok := obj["qualities"].([]interface{}); ok && len(l) > 0 {
			for pos := 0; pos <= len(l); pos++ {
				withNull := append(append(append([]interface{}{}, l[:pos]...), nil), l[pos:]...)
				b2, _ := json.Marshal(map[string]interface{}{"task_id": obj["task_id"], "qualities": withNull})
				g.decLine(typ, b2, "null-element")
			}
		}
		g.mutate(obj)
		body, _ := json.Marshal(obj)
		g.decLine(typ, body, "mutated")
	}
	// fixed adversarial bodies for every type
	u := g.uuid().String()
	bodies := []string{`{}`, `null`, `[]`, `""`, `0`, `{"task_id":"` + u + `"}`, `{"task_id":"` + u + `","proof":null}`, `{"task_id":"` + u + `","qualities":[null]}`,
		`{"task_id":"` + u + `","qualities":[null,null,{}]}`, `{"task_id":"` + u + `","qualities":[{}]}`, `{"task_id":"` + u + `","proof":{}}`, `{"task_id":"` + u + `","qualities":null}`,
		`{"task_id":"{` + u + `}"}`, `{"task_id":"urn:uuid:` + u + `"}`, `{"task_id":"` + strings.ReplaceAll(u, "-", "") + `"}`, `{"task_id":"` + strings.ToUpper(u) + `"}`,
		`{"task_id":"` + u + `","challenge":"zz","parent_target":"0"}`, `{"task_id":1}`, `{"task_id":"` + u + `","height":-1}`, `{"task_id":"` + u + `","height":1e400}`,
		`{"task_id":"` + u + `","qualities":{}}`, `{"task_id":"` + u + `","proof":[]}`, `{`, ``, `{"task_id":"` + u + `","parent_target":"` + strings.Repeat("ff", 5000) + `","challenge":"` + strings.Repeat("00", 32) + `"}`,
		`{"task_id":"` + u + `","qualities":[` + strings.TrimSuffix(strings.Repeat("null,", 2000), ",") + `]}`}
	for typ := 0; typ <= 8; typ++ {
		for _, b := range bodies {
			g.decLine(typ, []byte(b), "adversarial")
		}
	}
	g.decLine(65535, []byte("{}"), "adversarial")
	// short frames
	for _, d := range [][]byte{{}, {0}, {4}} {
		out, _ := decode(d)
		h.Emit("dec short", out)
	}
	// random bytes
	for i := 0; i < h.N*5; i++ {
		typ := h.Rng.Intn(8)
		g.decLine(typ, g.bytes(60), "random")
	}
	// frame-size decision of the receive loop: a peer announces a frame length on a real Conn over net.Pipe
	g.frames()
	g.queued()
	h.Finish("structured stream: well-formed messages of all six types (edge big ints, empty lists, max uint64) through EncodeMessage/DecodeMessage; malformed stream: JSON field mutations, fixed adversarial bodies per type, short frames, random bytes. distinct = distinct (line, output) pairs")
}

// announce opens a Conn over net.Pipe with receive limit max, lets the peer announce a frame of
// `size` bytes (sending the body only when it is within the limit) and classifies what the receiver did.
func announce(max, size uint32) string {
	local, peer := net.Pipe()
	conn, closer, err := connection.NewConn(connection.WithNetConn(local), connection.KeepaliveInterval(0), connection.KeepaliveTimeout(0), connection.MaxRecvMsgSize(max))
	if err != nil {
		return "err"
	}
	defer func() { peer.Close(); go closer() }()
	go func() {
		var hdr [4]byte
		binary.BigEndian.PutUint32(hdr[:], size)
		peer.SetWriteDeadline(time.Now().Add(2 * time.Second))
		if _, err := peer.Write(hdr[:]); err != nil {
			return
		}
		if size > 0 && size <= max {
			peer.Write(make([]byte, size))
		}
	}()
	wait := 1500 * time.Millisecond
	if size == 0 || size > max {
		wait = 700 * time.Millisecond
	}
	ctx, cancel := context.WithTimeout(context.Background(), wait)
	defer cancel()
	data, err := conn.Read(ctx)
	switch {
	case err == nil:
		return "alloc " + strconv.Itoa(len(data))
	case ctx.Err() == nil:
		return "close"
	case size == 0:
		return "ctrl" // nothing delivered, connection still open
	default:
		return "alloc " + strconv.FormatUint(uint64(size), 10) // still open, waiting for an announced body
	}
}

func (g *G) frames() {
	type probe struct{ max, size uint32 }
	var ps []probe
	for _, max := range []uint32{2 * 1024 * 1024, 1024} {
		for _, s := range []uint32{0, 1, 2, max - 1, max, max + 1, 2 * max, 1 << 30, 0x7fffffff, 0x80000000, 0xfffffff0, 0xfffffffb, 0xfffffffc, 0xfffffffd, 0xfffffffe, 0xffffffff, max - 4, max - 3, max + 4} {
			ps = append(ps, probe{max, s})
		}
	}
	bad := 0
	for _, p := range ps {
		if bad > 0 && p.size > p.max {
			continue // every unbounded reservation pins address space; one witness is enough
		}
		out := announce(p.max, p.size)
		line := fmt.Sprintf("frame %d %d", p.max, p.size)
		g.h.Emit(line, out)
		g.h.Res.OracleEvals++
		if p.size > p.max && out != "close" {
			bad++
			g.h.FailWith("frame-unbounded", fmt.Sprintf("receive limit %d, announced frame length %d: connection not closed (%s) — the receiver reserves a peer-chosen amount of memory", p.max, p.size, out), []string{line})
		}
		if p.size > 0 && p.size <= p.max && out != "alloc "+strconv.Itoa(int(p.size)) {
			g.h.FailWith("frame-lost", fmt.Sprintf("receive limit %d, frame of %d bytes within the limit was not delivered: %s", p.max, p.size, out), []string{line})
		}
	}
}

// queued: several encoded messages arrive back to back on a real Conn before the reader takes the first one;
// each must come out byte for byte as it went in (the receive loop hands over its own copy of every frame) and
// decode to the message that was encoded
func (g *G) queued() {
	local, peer := net.Pipe()
	conn, closer, err := connection.NewConn(connection.WithNetConn(local), connection.KeepaliveInterval(0), connection.KeepaliveTimeout(0))
	if err != nil {
		return
	}
	defer func() { peer.Close(); go closer() }()
	var frames [][]byte
	for i := 0; i < 6; i++ {
		b, err := protocol.EncodeMessage(g.message(1 + 2*(i%3))) // request messages of the three kinds
		if err != nil {
			continue
		}
		frames = append(frames, b)
	}
	go func() {
		peer.SetWriteDeadline(time.Now().Add(3 * time.Second))
		for _, f := range frames {
			var hdr [4]byte
			binary.BigEndian.PutUint32(hdr[:], uint32(len(f)))
			peer.Write(hdr[:])
			peer.Write(f)
		}
	}()
	time.Sleep(150 * time.Millisecond) // let the frames queue up inside the Conn
	g.h.Res.OracleEvals++
	for i, f := range frames {
		ctx, cancel := context.WithTimeout(context.Background(), 3*time.Second)
		data, err := conn.Read(ctx)
		cancel()
		if err != nil {
			g.h.FailWith("frame-lost", fmt.Sprintf("queued frame %d of %d was not delivered: %v", i, len(frames), err), []string{"queued"})
			return
		}
		if string(data) != string(f) {
			g.h.FailWith("frame-altered", fmt.Sprintf("queued frame %d of %d came out of the connection with other bytes than went in (it was still waiting when later frames arrived)", i, len(frames)), []string{"queued"})
			return
		}
	}

}

func sameMsg(a, b protocol.Message) bool {
	// compare through the wire struct (everything that travels) and the ids
	ea, _ := a.Bytes()
	eb, _ := b.Bytes()
	return string(ea) == string(eb) && a.ID() == b.ID() && reflect.TypeOf(a) == reflect.TypeOf(b)
}

func (g *G) mutate(obj map[string]interface{}) {
	r := g.h.Rng
	keys := make([]string, 0, len(obj))
	for k := range obj {
		keys = append(keys, k)
	}
	if len(keys) == 0 {
		return
	}
	// sort for determinism
	for i := range keys {
		for j := i + 1; j < len(keys); j++ {
			if keys[j] < keys[i] {
				keys[i], keys[j] = keys[j], keys[i]
			}
		}
	}
	k := keys[r.Intn(len(keys))]
	v := obj[k]
	// descend into nested structures half of the time
	if m, ok := v.(map[string]interface{}); ok && r.Intn(2) == 0 {
		g.mutate(m)
		return
	}
	if l, ok := v.([]interface{}); ok && len(l) > 0 && r.Intn(2) == 0 {
		i := r.Intn(len(l))
		if m, ok := l[i].(map[string]interface{}); ok && r.Intn(3) != 0 {
			g.mutate(m)
		} else {
			l[i] = nil
		}
		return
	}
	switch r.Intn(9) {
	case 0:
		delete(obj, k)
	case 1:
		obj[k] = nil
	case 2:
		obj[k] = 12345
	case 3:
		if s, ok := v.(string); ok && len(s) > 0 {
			obj[k] = s[:len(s)-1] // odd length / truncated
		} else {
			obj[k] = "x"
		}
	case 4:
		if s, ok := v.(string); ok && len(s) > 0 {
			obj[k] = "g" + s[1:] // non-hex
		} else {
			obj[k] = []interface{}{}
		}
	case 5:
		if s, ok := v.(string); ok {
			obj[k] = s + "00"
		} else {
			obj[k] = map[string]interface{}{}
		}
	case 6:
		if s, ok := v.(string); ok {
			obj[k] = strings.ToUpper(s)
		} else {
			obj[k] = "str"
		}
	case 7:
		obj[k] = ""
	default:
		if s, ok := v.(string); ok && len(s) > 2 {
			b := []byte(s)
			b[r.Intn(len(b))] = "0123456789abcdef-{}:"[r.Intn(20)]
			obj[k] = string(b)
		} else {
			obj[k] = true
		}
	}
}
