// Harness C11 (start-up scan): plot directories populated with header-only files — valid pairs at every
// progress, renamed, foreign-key, wrong-ordinal, wrong-header, truncated, duplicated across directories,
// odd-cased and zero-padded names, legacy names — are scanned by the real keeper (NewSpaceKeeperV1 with the
// real massdb.v1 backend and a scripted wallet).  The description of the directories goes to the Lean model
// of the scan; the harness's own oracles check that nothing a scan finds is destroyed, that every indexed
// space has a file pair whose headers say what its name says, and that each space is indexed once.
package main

import (
	"crypto/sha256"
	"encoding/binary"
	"encoding/hex"
	"errors"
	"fmt"
	"os"
	"path/filepath"
	"sort"
	"strconv"
	"strings"

	"github.com/massnetorg/mass-core/poc/pocutil"
	"github.com/massnetorg/mass-core/pocec"
	"massnet.org/mass/config"
	"massnet.org/mass/poc/engine"
	"massnet.org/mass/poc/engine/massdb"
	massdb_v1 "massnet.org/mass/poc/engine/massdb/massdb.v1"
	"massnet.org/mass/poc/engine/spacekeeper/capacity"
	"verifharness/hx"
)

var typA, typB = int(massdb_v1.MapTypeHashMapA), int(massdb_v1.MapTypeHashMapB)

const nKeys = 6 // keys 0..3 are in the wallet (ordinal = key number), 4 and 5 are foreign

func keyFor(i int) *pocec.PrivateKey {
	s := sha256.Sum256([]byte("scan-key-" + strconv.Itoa(i)))
	priv, _ := pocec.PrivKeyFromBytes(pocec.S256(), s[:])
	return priv
}

type wallet struct{ n int }

func (w *wallet) GenerateNewPublicKey() (*pocec.PublicKey, uint32, error) {
	return nil, 0, errors.New("not in this harness")
}
func (w *wallet) GetPublicKeyOrdinal(pk *pocec.PublicKey) (uint32, bool) {
	for i := 0; i < w.n; i++ {
		if keyFor(i).PubKey().IsEqual(pk) {
			return uint32(i), true
		}
	}
	return 0, false
}
func (w *wallet) SignMessage(pk *pocec.PublicKey, hash []byte) (*pocec.Signature, error) {
	return nil, errors.New("no")
}
func (w *wallet) Unlock(p []byte) error { return nil }
func (w *wallet) Lock()                 {}
func (w *wallet) IsLocked() bool        { return false }

// header of one generated file
type hdr struct {
	sizeOk, codeOk, versionOk, keyParses, hashOk bool
	typ, bl, key                                 int
	checkpoint                                   uint64
	tag                                          uint32 // unique mark in the align holder: identity of the file's content
}

func (h hdr) bytes() []byte {
	b := make([]byte, 4096)
	copy(b[0:], massdb.DBFileCode)
	if !h.codeOk {
		b[3] ^= 0x40
	}
	ver := uint64(1)
	if !h.versionOk {
		ver = 2
	}
	binary.LittleEndian.PutUint64(b[32:], ver)
	b[40] = byte(h.bl)
	b[41] = byte(h.typ)
	binary.LittleEndian.PutUint64(b[42:], h.checkpoint)
	pk := keyFor(h.key).PubKey()
	kh := pocutil.PubKeyHash(pk)
	copy(b[50:], kh[:])
	if !h.hashOk {
		b[60] ^= 1
	}
	copy(b[82:], pk.SerializeCompressed())
	if !h.keyParses {
		b[82] = 0x07 // not a compressed-point prefix
	}
	binary.LittleEndian.PutUint32(b[200:], h.tag)
	if !h.sizeOk {
		return b[:1000]
	}
	return b
}

type file struct {
	dir  int
	name string
	h    hdr
}

type G struct {
	h    *hx.H
	root string
	nseq int
	tag  uint32
}

func hexKey(k int, upper bool) string {
	s := hex.EncodeToString(keyFor(k).PubKey().SerializeCompressed())
	if upper {
		return strings.ToUpper(s)
	}
	return s
}

func canonical(ord, key, bl int, isA bool) string {
	n := fmt.Sprintf("%d_%s_%d", ord, hexKey(key, false), bl)
	if isA {
		n += "_a"
	}
	return n + ".massdb"
}

// shape: the harness's own reading of `^\d+_[A-F0-9]{66}_\d{2}\.MASSDB$` on the upper-cased name
func shape(name string) (ok bool, ordS, keyS, blS string) {
	u := strings.ToUpper(name)
	if !strings.HasSuffix(u, ".MASSDB") {
		return false, "", "", ""
	}
	parts := strings.Split(name[:len(name)-len(".MASSDB")], "_")
	if len(parts) != 3 {
		return false, "", "", ""
	}
	digits := func(s string) bool {
		if s == "" {
			return false
		}
		for _, c := range s {
			if c < '0' || c > '9' {
				return false
			}
		}
		return true
	}
	if !digits(parts[0]) || !digits(parts[2]) || len(parts[2]) != 2 || len(parts[1]) != 66 {
		return false, "", "", ""
	}
	for _, c := range strings.ToUpper(parts[1]) {
		if !(c >= '0' && c <= '9' || c >= 'A' && c <= 'F') {
			return false, "", "", ""
		}
	}
	return true, parts[0], parts[1], parts[2]
}

func b01(b bool) int {
	if b {
		return 1
	}
	return 0
}

func (g *G) newTag() uint32 { g.tag++; return g.tag }

func (g *G) good(typ, bl, key int, cp uint64) hdr {
	return hdr{true, true, true, true, true, typ, bl, key, cp, g.newTag()}
}

// gen: the files of one scenario
func (g *G) gen(ndirs int) []file {
	r := g.h.Rng
	var fs []file
	bls := []int{24, 26, 28}
	half := func(bl int) uint64 { return uint64(1) << uint(bl-1) }
	n := 2 + r.Intn(6)
	for i := 0; i < n; i++ {
		dir := r.Intn(ndirs)
		key := r.Intn(nKeys)
		ord := key
		bl := bls[r.Intn(3)]
		cps := []uint64{0, 0, 12, half(bl) - 2, half(bl), half(bl) + 40}
		cp := cps[r.Intn(len(cps))]
		hb := g.good(typB, bl, key, cp)
		ha := g.good(typA, bl, key, uint64(1)<<uint(bl))
		nameB, nameA := canonical(ord, key, bl, false), canonical(ord, key, bl, true)
		withA := cp < half(bl) || r.Intn(3) == 0
		switch r.Intn(16) {
		case 0: // odd-cased name
			nameB = fmt.Sprintf("%d_%s_%d.massdb", ord, hexKey(key, true), bl)
		case 1:
			nameB = fmt.Sprintf("%d_%s_%d.MASSDB", ord, hexKey(key, false), bl)
		case 2: // zero-padded ordinal
			nameB = fmt.Sprintf("00%d_%s_%d.massdb", ord, hexKey(key, false), bl)
		case 3: // wrong ordinal in the name
			nameB, nameA = canonical(ord+1, key, bl, false), canonical(ord+1, key, bl, true)
		case 4: // renamed: header of another key
			hb.key = (key + 1) % nKeys
		case 5: // renamed: header of another bit length
			hb.bl = bls[(r.Intn(2)+1+indexOf(bls, bl))%3]
		case 6:
			hb.codeOk = false
		case 7:
			hb.versionOk = false
		case 8:
			hb.typ = []int{typA, 0, 7}[r.Intn(3)]
		case 9:
			hb.hashOk = false
		case 10:
			hb.sizeOk = false
		case 11: // map A damaged or missing while B is not complete
			switch r.Intn(4) {
			case 0:
				withA = false
			case 1:
				ha.typ = typB
			case 2:
				ha.key = (key + 2) % nKeys
			default:
				ha.sizeOk = false
			}
		case 12: // invalid bit length in the name
			bl2 := []int{22, 25, 42}[r.Intn(3)]
			nameB = fmt.Sprintf("%d_%s_%d.massdb", ord, hexKey(key, false), bl2)
		case 13: // junk names
			nameB = []string{nameB + ".bak", "x" + nameB, strings.Replace(nameB, "_", "-", 1)}[r.Intn(3)]
		case 14: // key field is hex but not a public key
			bad := "07" + strings.Repeat("ab", 32)
			nameB = fmt.Sprintf("%d_%s_%d.massdb", ord, bad, bl)
		}
		fs = append(fs, file{dir, nameB, hb})
		if withA {
			fs = append(fs, file{dir, nameA, ha})
		}
		if ndirs > 1 && r.Intn(5) == 0 { // the same space again in another directory
			d2 := (dir + 1 + r.Intn(ndirs-1)) % ndirs
			hb2 := g.good(typB, bl, key, cps[r.Intn(len(cps))])
			fs = append(fs, file{d2, canonical(ord, key, bl, false), hb2})
			if hb2.checkpoint < half(bl) {
				fs = append(fs, file{d2, canonical(ord, key, bl, true), g.good(typA, bl, key, 0)})
			}
		}
	}
	// one file per (dir, name)
	seen := map[string]bool{}
	var out []file
	for _, f := range fs {
		k := fmt.Sprintf("%d/%s", f.dir, f.name)
		if !seen[k] {
			seen[k] = true
			out = append(out, f)
		}
	}
	return out
}

func indexOf(xs []int, x int) int {
	for i, y := range xs {
		if y == x {
			return i
		}
	}
	return 0
}

func (g *G) dirs(n int) []string {
	g.nseq++
	var ds []string
	for i := 0; i < n; i++ {
		d := filepath.Join(g.root, fmt.Sprintf("s%d", g.nseq), fmt.Sprintf("d%d", i))
		os.MkdirAll(d, 0o755)
		ds = append(ds, d)
	}
	return ds
}

// tags: the content marks of all files present
func tags(ds []string) map[uint32]string {
	out := map[uint32]string{}
	for _, d := range ds {
		es, _ := os.ReadDir(d)
		for _, e := range es {
			b, err := os.ReadFile(filepath.Join(d, e.Name()))
			if err == nil && len(b) >= 204 {
				if t := binary.LittleEndian.Uint32(b[200:]); t != 0 {
					out[t] = filepath.Join(filepath.Base(d), e.Name())
				}
			}
		}
	}
	return out
}

func (g *G) scenario() {
	h := g.h
	ndirs := 1 + h.Rng.Intn(3)
	ds := g.dirs(ndirs)
	fs := g.gen(ndirs)
	h.Emit(fmt.Sprintf("reset %d", ndirs), "ok")
	for k := 0; k < 4; k++ {
		h.Emit(fmt.Sprintf("w %d %d", k, k), "ok")
	}
	byName := map[string]file{}
	for _, f := range fs {
		os.WriteFile(filepath.Join(ds[f.dir], f.name), f.h.bytes(), 0o644)
		byName[fmt.Sprintf("%d/%s", f.dir, f.name)] = f
	}
	// canonical files, for the model's lookups
	for _, f := range fs {
		for ord := 0; ord < nKeys+1; ord++ {
			for key := 0; key < nKeys; key++ {
				for _, bl := range []int{24, 26, 28} {
					for _, isA := range []bool{false, true} {
						if f.name == canonical(ord, key, bl, isA) {
							x := f.h
							h.Emit(fmt.Sprintf("f %d %d %d %d %d %d %d %d %d %d %d %d %d %d", f.dir, ord, key, bl, b01(isA),
								b01(x.sizeOk), b01(x.codeOk), b01(x.versionOk), b01(x.keyParses), b01(x.hashOk), x.typ, x.bl, x.key, x.checkpoint), "ok")
						}
					}
				}
			}
		}
	}
	// directory entries in ReadDir order
	for di, d := range ds {
		es, _ := os.ReadDir(d)
		for _, e := range es {
			ok, ordS, keyS, blS := shape(e.Name())
			if !ok {
				h.Emit(fmt.Sprintf("e %d 0 0 0 0 0 0", di), "ok")
				continue
			}
			ord, _ := strconv.Atoi(ordS)
			bl, _ := strconv.Atoi(blS)
			key, valid := 9, false
			for k := 0; k < nKeys; k++ {
				if strings.EqualFold(keyS, hexKey(k, false)) {
					key, valid = k, true
				}
			}
			blValid := bl >= 24 && bl <= 40 && bl%2 == 0
			h.Emit(fmt.Sprintf("e %d 1 %d %d %d %d %d", di, ord, b01(valid), key, bl, b01(blValid)), "ok")
		}
	}
	before := tags(ds)
	cfg := config.DefaultConfig()
	cfg.Miner.ProofDir = ds
	ski, err := capacity.NewSpaceKeeperV1(cfg, &wallet{4})
	if err != nil {
		h.Emit("scan", "error "+strings.ReplaceAll(err.Error(), " ", "_"))
		return
	}
	sk := ski.(*capacity.SpaceKeeper)
	st := sk.VerifState()
	var rows []string
	seen := map[string]int{}
	for _, sp := range st.Spaces {
		if !sp.InAll {
			continue
		}
		// sid = pubkey-bl; the ordinal is the wallet's
		parts := strings.Split(sp.SID, "-")
		ord, key, bl := -1, -1, -1
		if len(parts) == 2 {
			bl, _ = strconv.Atoi(parts[1])
			for k := 0; k < nKeys; k++ {
				if strings.EqualFold(parts[0], hexKey(k, false)) {
					key, ord = k, k
				}
			}
		}
		di := -1
		for i, d := range ds {
			if d == sp.RootDir {
				di = i
			}
		}
		stn := map[engine.WorkSpaceState]string{engine.Registered: "registered", engine.Ready: "ready"}[sp.Field]
		rows = append(rows, fmt.Sprintf("%d:%d:%d@%d=%s", ord, key, bl, di, stn))
		seen[fmt.Sprintf("%d:%d:%d", ord, key, bl)]++
		// --- oracles ---
		h.Res.OracleEvals++
		if key < 0 || key >= 4 || ord != key {
			h.Fail("C11:indexed-space-not-of-the-wallet", fmt.Sprintf("space %s indexed although its key/ordinal is not the wallet's", sp.SID))
		}
		if di >= 0 && key >= 0 {
			// the pair the keeper will serve proofs from: its headers must say what the name says
			for _, isA := range []bool{false, true} {
				if isA && sp.Field == engine.Ready {
					continue // a complete map B is served alone; a leftover map A is not opened
				}
				p := filepath.Join(ds[di], canonical(ord, key, bl, isA))
				b, err := os.ReadFile(p)
				if err != nil {
					if !isA {
						h.Fail("C11:indexed-space-without-file", fmt.Sprintf("space %s is indexed but %s does not exist", sp.SID, filepath.Base(p)))
					}
					continue
				}
				if len(b) >= 115 && !isA && sp.Field == engine.Ready {
					// ready (= offered for mining once asked) only if the progress recorded in map B says the table is complete
					if cp := binary.LittleEndian.Uint64(b[42:50]); cp < uint64(1)<<uint(bl-1) {
						msg := fmt.Sprintf("space %s is indexed as ready although %s records checkpoint %d of %d", sp.SID, filepath.Base(p), cp, uint64(1)<<uint(bl-1))
						h.Fail("C10:ready-with-incomplete-table", msg)
						h.Fail("C11:ready-with-incomplete-table", msg)
					}
				}
				if len(b) >= 115 {
					hbl := int(b[40])
					pkOK := hex.EncodeToString(b[82:115]) == hexKey(key, false)
					if hbl != bl || !pkOK {
						h.Fail("C11:header-does-not-match-name", fmt.Sprintf("space %s is indexed (state %s) from %s whose header says bit length %d, key matches name: %v", sp.SID, stn, filepath.Base(p), hbl, pkOK))
					}
				}
			}
		}
	}
	// complete: a well-formed plot file of the wallet - canonical name, every header check passing, header = name, and (unless
	// map B is complete) a sound map A beside it - yields an indexed space, whatever else lies in this or another directory
	sound := func(f file, typ, key, bl int) bool {
		x := f.h
		return x.sizeOk && x.codeOk && x.versionOk && x.keyParses && x.hashOk && x.typ == typ && x.bl == bl && x.key == key
	}
	for _, f := range fs {
		for key := 0; key < 4 && key < nKeys; key++ {
			for _, bl := range []int{24, 26, 28} {
				if f.name != canonical(key, key, bl, false) || !sound(f, typB, key, bl) {
					continue
				}
				okA := f.h.checkpoint >= uint64(1)<<uint(bl-1)
				if fa, has := byName[fmt.Sprintf("%d/%s", f.dir, canonical(key, key, bl, true))]; has && sound(fa, typA, key, bl) {
					okA = true
				}
				h.Res.OracleEvals++
				if okA && seen[fmt.Sprintf("%d:%d:%d", key, key, bl)] == 0 {
					h.Fail("C11:well-formed-plot-not-indexed", fmt.Sprintf("directory %d holds the sound plot file %s of wallet key %d (checkpoint %d), yet no space %d/%d is indexed", f.dir, f.name, key, f.h.checkpoint, key, bl))
				}
			}
		}
	}
	for k, n := range seen {
		if n != 1 {
			h.Fail("C11:indexed-twice", fmt.Sprintf("space %s is indexed %d times", k, n))
		}
	}
	after := tags(ds)
	h.Res.OracleEvals++
	for t, name := range before {
		if _, ok := after[t]; !ok {
			h.Fail("C11:plot-file-destroyed-by-scan", fmt.Sprintf("the content of %s is gone after start-up (no delete was requested)", name))
		}
	}
	sort.Strings(rows)
	out := strings.Join(rows, " ")
	if out == "" {
		out = "-"
	}
	h.Emit("scan", out)
	sk.Stop()
}

// legacy: a legacy-named plotted file (`PK-BL-B.MASSDB`), alone or next to a canonical file of the same space
func (g *G) legacy(withCanonical, upper bool) {
	h := g.h
	ds := g.dirs(1)
	hb := g.good(typB, 24, 1, uint64(1)<<23)
	name := fmt.Sprintf("%s-24-B.massdb", hexKey(1, upper))
	os.WriteFile(filepath.Join(ds[0], name), hb.bytes(), 0o644)
	if withCanonical {
		os.WriteFile(filepath.Join(ds[0], canonical(1, 1, 24, false)), g.good(typB, 24, 1, uint64(1)<<23).bytes(), 0o644)
	}
	before := tags(ds)
	cfg := config.DefaultConfig()
	cfg.Miner.ProofDir = ds
	ski, err := capacity.NewSpaceKeeperV1(cfg, &wallet{4})
	if err != nil {
		h.FailWith("C11:legacy-scan-error", err.Error(), nil)
		return
	}
	sk := ski.(*capacity.SpaceKeeper)
	after := tags(ds)
	h.Res.OracleEvals++
	for t, n := range before {
		if _, ok := after[t]; !ok {
			h.FailWith("C11:legacy-upgrade-overwrites-plot-file", fmt.Sprintf("start-up renamed the legacy file over the existing %s: its content is gone although no delete was requested", n),
				[]string{fmt.Sprintf("legacy withCanonical=%v upper=%v", withCanonical, upper)})
		}
	}
	n := 0
	for _, sp := range sk.VerifState().Spaces {
		if sp.InAll {
			n++
		}
	}
	h.Res.OracleEvals++
	if n != 1 {
		h.FailWith("C11:legacy-not-indexed-once", fmt.Sprintf("%d spaces indexed from one legacy file", n), nil)
	}
	sk.Stop()
	h.Res.Extra[fmt.Sprintf("legacy_%v_%v", withCanonical, upper)] = n
}

func main() {
	h := hx.New("scan")
	root, _ := os.MkdirTemp("", "verif-scan-")
	defer os.RemoveAll(root)
	g := &G{h: h, root: root}
	if h.ReplayLines() != nil {
		h.Finish("replay is by seed for this harness")
		return
	}
	for i := 0; i < h.N; i++ {
		g.scenario()
		if i < 2 {
			h.Sample(strings.Join(h.Cur(), " ; "))
		}
	}
	g.legacy(false, false)
	g.legacy(false, true)
	g.legacy(true, false)
	g.legacy(true, true) // an upper-case legacy name next to the canonical (lower-case) file of the same space
	h.Finish("plot directories (1-3) with 2-8 generated file groups each: valid pairs at every progress, odd-cased / zero-padded / wrong-ordinal / invalid-bit-length / junk names, foreign keys, headers of another key or bit length, wrong code/version/type/hash, truncated headers, map A missing or damaged, duplicates across directories; scanned by the real keeper with the real massdb.v1 backend")
}
