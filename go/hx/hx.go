// Package hx: shared plumbing of the correspondence harnesses.
//
// A harness generates operation lines from one PRNG state, executes each on
// the real implementation (in-process), and writes
//   <out>/ops.txt     one operation per line (input of the Lean driver)
//   <out>/impl.txt    the implementation's canonical output, line for line
//   <out>/result.json counts, distribution, samples and property-oracle failures
// The check script pipes ops.txt through the Lean driver and diffs with impl.txt.
package hx

import (
	"bufio"
	"encoding/hex"
	"encoding/json"
	"flag"
	"fmt"
	"math/rand"
	"os"
	"path/filepath"
	"sort"
	"strings"

	"github.com/massnetorg/mass-core/logging"
)

type Failure struct {
	Key    string   `json:"key"`    // stable slug, matched against KNOWN_FINDINGS
	Desc   string   `json:"desc"`   // what failed
	Replay []string `json:"replay"` // the operation lines (or inputs) that reproduce it
}

type Result struct {
	Harness     string         `json:"harness"`
	Seed        int64          `json:"seed"`
	Sequences   int            `json:"sequences"`
	Ops         int            `json:"ops"`
	OpKinds     map[string]int `json:"op_kinds"`
	OutKinds    map[string]int `json:"out_kinds"`
	Distinct    int            `json:"distinct_nontrivial"`
	Rule        string         `json:"rule"`
	Samples     []string       `json:"samples"`
	Failures    []Failure      `json:"oracle_failures"`
	OracleEvals int            `json:"oracle_evaluations"`
	Notes       []string       `json:"notes,omitempty"`
	Extra       map[string]interface{} `json:"extra,omitempty"`
}

type H struct {
	Rng    *rand.Rand
	Seed   int64
	N      int
	Len    int
	Tier   string
	Out    string
	Replay string
	ops    *bufio.Writer
	impl   *bufio.Writer
	opsF   *os.File
	implF  *os.File
	Res    Result
	cur    []string // ops of the current sequence (since last reset)
	seen   map[string]bool
}

func New(name string) *H {
	seed := flag.Int64("seed", 1, "PRNG seed")
	n := flag.Int("n", 100, "number of sequences")
	l := flag.Int("len", 30, "max ops per sequence")
	tier := flag.String("tier", "quick", "quick|thorough")
	out := flag.String("out", "", "output directory")
	replay := flag.String("replay", "", "replay an ops file instead of generating")
	flag.Parse()
	if *out == "" {
		fmt.Fprintln(os.Stderr, "need -out")
		os.Exit(2)
	}
	os.MkdirAll(*out, 0o755)
	h := &H{Rng: rand.New(rand.NewSource(*seed)), Seed: *seed, N: *n, Len: *l, Tier: *tier, Out: *out, Replay: *replay,
		seen: map[string]bool{}}
	h.Res = Result{Harness: name, Seed: *seed, OpKinds: map[string]int{}, OutKinds: map[string]int{}, Extra: map[string]interface{}{}}
	var err error
	h.opsF, err = os.Create(filepath.Join(*out, "ops.txt"))
	must(err)
	h.implF, err = os.Create(filepath.Join(*out, "impl.txt"))
	must(err)
	// mass-core's logging initialises itself lazily, and not thread-safely, on the first CPrint: do it here, on
	// the main goroutine, before a harness starts anything concurrent
	logging.CPrint(logging.DEBUG, "verification harness "+name)
	h.ops = bufio.NewWriter(h.opsF)
	h.impl = bufio.NewWriter(h.implF)
	return h
}

func must(err error) {
	if err != nil {
		fmt.Fprintln(os.Stderr, "harness:", err)
		os.Exit(2)
	}
}

// ReplayLines returns the lines of the replay file (nil when generating).
func (h *H) ReplayLines() []string {
	if h.Replay == "" {
		return nil
	}
	b, err := os.ReadFile(h.Replay)
	must(err)
	var ls []string
	for _, l := range strings.Split(string(b), "\n") {
		l = strings.TrimSpace(l)
		if l != "" && !strings.HasPrefix(l, "#") {
			ls = append(ls, l)
		}
	}
	return ls
}

// Emit records one operation line and the implementation's output for it.
func (h *H) Emit(op, out string) {
	if strings.ContainsAny(op, "\n") || strings.ContainsAny(out, "\n") {
		panic("newline in protocol line")
	}
	h.ops.WriteString(op)
	h.ops.WriteByte('\n')
	h.impl.WriteString(out)
	h.impl.WriteByte('\n')
	h.Res.Ops++
	kind := op
	if i := strings.IndexByte(op, ' '); i >= 0 {
		kind = op[:i]
	}
	h.Res.OpKinds[kind]++
	ok := out
	if i := strings.IndexByte(out, ' '); i >= 0 {
		ok = out[:i]
		if ok == "err" {
			ok = out
		}
	}
	h.Res.OutKinds[kind+"->"+ok]++
	if kind == "reset" {
		h.Res.Sequences++
		h.cur = h.cur[:0]
	}
	h.cur = append(h.cur, op)
	sig := op + " => " + out
	if !h.seen[sig] {
		h.seen[sig] = true
	}
}

// Cur returns a copy of the current sequence (for replays).
func (h *H) Cur() []string { return append([]string(nil), h.cur...) }

func (h *H) Fail(key, desc string) {
	h.FailWith(key, desc, h.Cur())
}

func (h *H) FailWith(key, desc string, replay []string) {
	for _, f := range h.Res.Failures {
		if f.Key == key && len(f.Replay) <= len(replay) {
			return // keep the shortest replay per key
		}
	}
	var fs []Failure
	for _, f := range h.Res.Failures {
		if f.Key != key {
			fs = append(fs, f)
		}
	}
	h.Res.Failures = append(fs, Failure{Key: key, Desc: desc, Replay: replay})
	// keep what was found so far on disk: the code under test may take the process down later
	// (a fatal log entry, a panic in another goroutine), and the check then still sees this failure
	if b, err := json.MarshalIndent(h.Res, "", " "); err == nil {
		os.WriteFile(filepath.Join(h.Out, "partial.json"), b, 0o644)
	}
}

func (h *H) Sample(s string) {
	if len(h.Res.Samples) < 6 {
		h.Res.Samples = append(h.Res.Samples, s)
	}
}

func (h *H) Finish(rule string) {
	h.ops.Flush()
	h.impl.Flush()
	h.opsF.Close()
	h.implF.Close()
	h.Res.Rule = rule
	if h.Res.Distinct == 0 {
		h.Res.Distinct = len(h.seen)
	}
	sort.Slice(h.Res.Failures, func(i, j int) bool { return h.Res.Failures[i].Key < h.Res.Failures[j].Key })
	b, _ := json.MarshalIndent(h.Res, "", " ")
	must(os.WriteFile(filepath.Join(h.Out, "result.json"), b, 0o644))
}

func Hex(b []byte) string {
	if len(b) == 0 {
		return "-"
	}
	return hex.EncodeToString(b)
}

func UnHex(s string) ([]byte, bool) {
	if s == "-" {
		return []byte{}, true
	}
	b, err := hex.DecodeString(s)
	return b, err == nil
}

func (h *H) Pick(xs ...string) string { return xs[h.Rng.Intn(len(xs))] }
func (h *H) Chance(p float64) bool   { return h.Rng.Float64() < p }
