#!/usr/bin/env python3
"""Print the prompt given to a seeding sub-agent: property text + its scratch worktree, nothing from /verif."""
import json, sys
pid, wt = sys.argv[1], sys.argv[2]
props = {json.loads(l)["id"]: json.loads(l) for l in open("/verif/properties.jsonl")}
p = props[pid]
print(f"""You are working in a scratch git worktree of the Go project massnetorg/MassNet-miner (Go module `massnet.org/mass`, a proof-of-capacity miner node: HD keystore wallet, plot-space keeper, plot DB, cluster mining, HTTP/gRPC API) at {wt}. Work ONLY inside that directory: do not read, list or touch /repo, /verif, /root/.vp or any other copy of the project, and do not look for existing checks or verification tooling anywhere. The sandbox has no network; start every shell call with `export GOFLAGS=-mod=mod GOPROXY=off GOSUMDB=off GOTOOLCHAIN=local`. `go build ./...` takes ~20 s (linker warnings about blake3 are noise). Files carrying `//go:build verif` are inert test instrumentation: ignore them, do not change or use them.

The project is supposed to satisfy this property:

  Title: {p['title']}
  Statement: {p['statement']}
  Quantified over: {p['quantifier']['text']}

This is authorised robustness testing of a verification setup: I need realistic *seeded defects* to measure whether independent checks notice them. Produce TWO independent source changes, m1 and m2 (each a separate patch against clean HEAD, in different functions/files or of clearly different kinds), to the project's non-test Go files, each of which:
  1. BREAKS the property above (really: some input / history / schedule exists on which the property's statement is false with the change and true without it);
  2. still compiles (`go build ./...`) and the existing, unedited test suite still passes (`go test -vet=off -count=1 ./...`);
  3. reads like something a maintainer could plausibly merge (a refactor, an optimisation, a 'hardening', a clean-up, a small feature) - not sabotage with an obvious marker;
  4. needs something SPECIFIC to manifest: a particular interleaving, a crash or storage fault at a particular point, a multi-step sequence of operations, an unusual input or boundary value, or two cooperating sites that each look fine alone. It must NOT be something that ordinary use (or the first call of the changed function) would expose at once.

For each change write, under {wt}/out/m1/ and {wt}/out/m2/:
  - patch.diff : `git diff` against HEAD (must apply with `git apply` on a clean HEAD);
  - demo_test.go : ONE Go test file (with its `package` clause for the directory it is to be copied into) containing a test that PASSES on clean HEAD and FAILS with the patch applied; deterministic if at all possible, finishing in under 60 s, using only the project's own packages and the standard library (and the module's existing dependencies);
  - meta.json : {{"summary": what was changed and why it breaks the property, "needs": what exactly is needed for it to manifest, "demo_dir": the directory (relative to the project root) demo_test.go is to be copied into, "demo_cmd": "go test -vet=off -count=1 -run <TestName> ./<pkg>/", "ran": what you ran and what you saw on the clean tree and with the patch}}.
Verify all of it yourself: demo passes clean, fails patched; build + whole suite pass patched (with the demo file removed). When done, leave the worktree clean (`git checkout -- .`, remove copied demo files) except for the out/ directory, and reply with a short summary of the two changes.""")
