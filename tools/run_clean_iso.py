#!/usr/bin/env python3
"""Unchanged-tree sweep for `vp run --with-repo -- python3 tools/run_clean_iso.py <tier> <seed>... [-- Cnn ...]`.

Runs in a snapshot of /verif (cwd) against a snapshot of /repo ($VP_RUN_REPO): points the snapshot's go.mod at the
repo snapshot, builds the framework there, then runs every property's check at <tier> once per seed (VERIF_SEED).
Every run must exit 0 and print no VIOLATION line; anything else is printed as ALARM with the log kept in
clean_iso_<prop>_<seed>.log.  NOT evidence: a soak of the checks for false alarms."""
import json, os, re, subprocess, sys, time
ROOT = os.getcwd()
repo = os.environ["VP_RUN_REPO"]
args = sys.argv[1:]
props = None
if "--" in args:
    i = args.index("--")
    args, props = args[:i], args[i + 1:]
tier, seeds = args[0], args[1:] or ["1"]
env = dict(os.environ, VERIF_REPO=repo, GOFLAGS="-mod=mod", GOPROXY="off", GOSUMDB="off", GOTOOLCHAIN="local",
           VERIF_EVIDENCE_DIR=os.path.join(ROOT, ".work", "evidence_soak"))
gomod = os.path.join(ROOT, "go", "go.mod")
txt = re.sub(r"replace massnet.org/mass => \S+", "replace massnet.org/mass => " + repo, open(gomod).read())
open(gomod, "w").write(txt)
sh = open(os.path.join(ROOT, "setup.sh")).read().replace("-repo /repo", "-repo " + repo)
open(os.path.join(ROOT, "setup.sh"), "w").write(sh)
subprocess.check_call(["sh", "./setup.sh"], cwd=ROOT, env=env)
if props is None:
    props = [c["property_id"] for c in json.load(open(os.path.join(ROOT, "MANIFEST.json")))["checks"]]
alarms = 0
for seed in seeds:
    for pid in props:
        t0 = time.time()
        p = subprocess.run(["./check", pid, "--tier", tier], cwd=ROOT, env=dict(env, VERIF_SEED=seed), stdout=subprocess.PIPE, stderr=subprocess.STDOUT, text=True)
        bad = p.returncode != 0 or "VIOLATION" in p.stdout
        print("%s seed=%s tier=%s rc=%d %ds %s" % (pid, seed, tier, p.returncode, time.time() - t0, "ALARM" if bad else "quiet"), flush=True)
        if bad:
            alarms += 1
            open(os.path.join(ROOT, "clean_iso_%s_%s.log" % (pid, seed)), "w").write(p.stdout)
            for l in p.stdout.split("\n"):
                if "VIOLATION" in l:
                    print("   " + l[:300], flush=True)
print("DONE alarms=%d" % alarms, flush=True)
