#!/bin/sh
# usage: tools/try_mutation.sh <Cnn> <patch.diff> [tier]   — apply to /repo, run the check, always revert
set -u
P=$1; PATCH=$2; TIER=${3:-quick}
cd /verif
git -C /repo diff --quiet || { echo "/repo not clean"; exit 2; }
git -C /repo apply "$PATCH" || { echo "patch does not apply"; exit 2; }
(cd /repo && GOFLAGS=-mod=mod GOPROXY=off GOSUMDB=off go build ./... 2>&1 | grep -v "ld: \|^#" | head -5)
VERIF_EVIDENCE_DIR=/verif/.work/evidence_mut ./check "$P" --tier "$TIER" 2>&1 | grep -v "^KNOWN-FINDING" | cut -c1-400 | tail -8
echo "exit=$?"
git -C /repo checkout -- . ; git -C /repo clean -fdq -- . 2>/dev/null
git -C /repo status --short | head -3
