#!/usr/bin/env python3
"""Apply every /verif/seeded/<id>/patch.diff to /repo in turn, run the property's quick check, undo; write seeded/RESULTS.md."""
import json, os, subprocess, sys, glob, re
rows = []
only = sys.argv[1:]
for d in sorted(glob.glob("/verif/seeded/*/")):
    sid = os.path.basename(d.rstrip("/"))
    if only and not any(sid.startswith(o) for o in only):
        continue
    meta = json.load(open(d + "meta.json"))
    prop = meta["property"]
    assert subprocess.run("git -C /repo diff --quiet", shell=True).returncode == 0, "/repo not clean"
    if meta.get("neutralised"):
        rows.append((sid, prop, "neutralised", meta["neutralised"][:90], meta.get("summary", "")[:110]))
        print(rows[-1][:4], flush=True)
        continue
    if subprocess.run("git -C /repo apply " + d + "patch.diff", shell=True).returncode != 0:
        rows.append((sid, prop, "does-not-apply", "", meta.get("summary", "")[:110]))
        print(rows[-1][:4], flush=True)
        continue
    try:
        p = subprocess.run(["./check", prop], cwd="/verif", env=dict(os.environ, VERIF_EVIDENCE_DIR="/verif/.work/evidence_mut"), stdout=subprocess.PIPE, stderr=subprocess.STDOUT, text=True)
    finally:
        subprocess.run("git -C /repo checkout -- . ", shell=True)
    viol = re.findall(r"VIOLATION property=\S+ replay=\S+/([^/\s]+)\.txt( no-failing-input-found)?", p.stdout)
    caught = p.returncode == 1 and viol
    rows.append((sid, prop, "caught" if caught else "MISSED", ", ".join(v[0].split("_", 1)[1] + (" (no input)" if v[1] else "") for v in viol), meta.get("summary", "")[:110]))
    meta["detected_by"] = {"check": "./check %s --tier quick" % prop, "result": rows[-1][2], "violations": rows[-1][3]}
    json.dump(meta, open(d + "meta.json", "w"), indent=1)
    print(rows[-1][:4], flush=True)
if not only:
    with open("/verif/seeded/RESULTS.md", "w") as f:
        f.write("# Seeded changes vs checks (quick tier, VERIF_SEED=1)\n\n| seeded change | property | result | violation keys | what the change does |\n|---|---|---|---|---|\n")
        for r in rows:
            f.write("| %s | %s | %s | %s | %s |\n" % r)
