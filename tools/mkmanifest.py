#!/usr/bin/env python3
"""Regenerates /verif/MANIFEST.json from tools/props.py (checks) — keeps it valid at all times."""
import json, os, sys
ROOT = os.path.dirname(os.path.dirname(os.path.abspath(__file__)))
sys.path.insert(0, os.path.join(ROOT, "tools"))
from props import PROPS

ids = [json.loads(l)["id"] for l in open(os.path.join(ROOT, "properties.jsonl"))]
checks = []
na = []
for pid in ids:
    cfg = PROPS.get(pid)
    if not cfg or cfg.get("unclaimed"):
        na.append({"property_id": pid, "reason": (cfg or {}).get("unclaimed", "check not built yet (work in progress; see DESIGN.md section 4 for the plan)")})
        continue
    checks.append({
        "property_id": pid,
        "quick_cmd": "./check %s --tier quick" % pid,
        "thorough_cmd": "./check %s --tier thorough" % pid,
        "evidence_file": "evidence/%s.json" % pid,
        "replay_cmd_template": "./check %s --replay {path}" % pid,
        "engine": "lean4-proof+correspondence",
        "level_claimed": {"category": "proof", "text": cfg["level_text"], "design_ref": cfg.get("design_ref", "DESIGN.md section 4, " + pid)},
        "level_note": cfg["level_note"],
        "technique": cfg.get("technique", "Lean 4 theorems over a hand-written executable model; model tied to /repo by regenerated facts + differential correspondence check (Go impl vs Lean driver)"),
    })
m = {
    "version": 1,
    "setup_cmd": "./setup.sh",
    "hooks": {
        "guard": "verif",
        "enable": "go build -tags verif (the harness module /verif/go replaces massnet.org/mass by /repo)",
        "baseline_off_cmd": "cd /repo && go build ./... && go test -vet=off -count=1 ./...",
        "source_commits": [l.strip() for l in open(os.path.join(ROOT, "HOOK_COMMITS.txt"))] if os.path.exists(os.path.join(ROOT, "HOOK_COMMITS.txt")) else [],
        "add_only": True,
    },
    "engines": [{
        "name": "lean4-proof+correspondence", "path": "check",
        "serves_properties": [c["property_id"] for c in checks],
        "kind_free_text": "Lean 4.33 theorems (lean/MassVerif/Props) about executable models (lean/MassVerif/Model); facts regenerated from /repo by go/extract; Go harnesses (go/harness) run the real code and the Lean drivers on the same operation lines and diff; property oracles in Go search for concrete failing inputs",
    }],
    "checks": checks,
    "not_applicable": na,
    "notes": "All checks: ./check <id> [--tier quick|thorough] [--replay file]. KNOWN_FINDINGS.txt lists recorded genuine defects; DESIGN.md explains the approach, trusted base and which seeded changes each check catches.",
}
json.dump(m, open(os.path.join(ROOT, "MANIFEST.json"), "w"), indent=1)
print("checks:", [c["property_id"] for c in checks], "not_applicable:", len(na))
