"""Per-property configuration of ./check."""

LEVELDB_LAW = ("goleveldb: a committed transaction is atomic and durable, a discarded one leaves no trace, "
               "iterators are ordered by byte string (modelled as a finite map; exercised, not proved)")

PROPS = {
    "C19": {
        "props": ["MassVerif.Props.C19"],
        "drivers_mod": ["MassVerif.Driver.C19"],
        "harnesses": [{
            "name": "bucket", "pkg": "harness/bucket", "driver": "MassVerif/Driver/C19.lean",
            "quick": {"n": 150, "len": 40},
            "thorough": {"n": 1500, "len": 80},
            "search": {"n": 1500, "len": 80},
        }],
        "level_text": "Unbounded proof (Lean 4) that the flat key layout is uniquely decodable for arbitrary binary keys and valid "
                      "bucket names, that index and entry keys never collide, and that put/get/delete/clear/scan/new-bucket/delete-bucket "
                      "act on exactly one map (or one subtree) of the tree-of-maps abstraction; transactions over the leveldb law. "
                      "The model is tied to the code by a differential check on every run (real leveldb store vs Lean driver).",
        "level_note": "Trusted: Lean kernel; goleveldb's transaction/iterator semantics (law, exercised by the harness); the hand-written "
                      "model's agreement with leveldb.go is validated by random/adversarial op sequences, not proved.",
        "trusted_base": [LEVELDB_LAW,
                         "bytes are modelled as List Char (byte b = Char.ofNat b, injective and order preserving)"],
        "assumptions": [
            "the model Model/BucketStore.lean transcribes poc/wallet/db/ldb/leveldb.go by hand; its agreement with the "
            "code is checked on every run by the correspondence stream (real leveldb vs Lean driver, same op lines)",
            "handles are not used after commit/rollback (the wallet never does)"],
    },
    "C20": {
        "props": ["MassVerif.Props.C20"],
        "drivers_mod": ["MassVerif.Driver.C20"],
        "harnesses": [{
            "name": "api", "pkg": "harness/api", "driver": "MassVerif/Driver/C20.lean",
            "quick": {"n": 30}, "thorough": {"n": 600}, "search": {"n": 600},
        }],
        "level_text": "Unbounded proof (Lean 4): the admission closure admits exactly wildcard / loopback / whitelisted / enabled-LAN "
                      "addresses, with the mask arithmetic of IPNet.Contains proved equal to the three closed RFC1918 intervals for all "
                      "2^32 IPv4 addresses (CIDR literals are regenerated facts); non-admitted requests get 403 without the inner handler; "
                      "AmountToString is the exact canonical decimal of m/10^8 and StringToAmount inverts it for every 0<=m<=max; "
                      "the listed binding target is the library's definition. Tied to the code by a differential check of every function.",
        "level_note": "Trusted: Lean kernel; net.ResolveTCPAddr/ParseIP/IP.String (modelled at the level of the parsed address; the harness "
                      "canonicaliser is independent of the code under test); hash160/bech32/address encoders of mass-core are parameters — "
                      "the binding-target/address clause is decided by comparing the API's records with the library's own functions.",
        "trusted_base": ["net package address parsing (modelled at the parsed value)", "mass-core massutil encoders (parameters)"],
        "assumptions": ["http.Request.RemoteAddr is an IP:port literal as set by net/http (host names are not generated)",
                        "hand-written model Model/Api.lean; agreement with api/gateway.go, api/util.go checked by the correspondence stream on every run"],
    },
    "C16": {
        "props": ["MassVerif.Props.C16"],
        "drivers_mod": ["MassVerif.Driver.C16"],
        "harnesses": [{
            "name": "codec", "pkg": "harness/codec", "driver": "MassVerif/Driver/C16.lean",
            "quick": {"n": 40}, "thorough": {"n": 800}, "search": {"n": 400},
        }],
        "level_text": "Unbounded proof (Lean 4) over a model of Msg()/SetMsg() for the six cluster messages, with hex, the 64-hex hash form "
                      "and big-int<->bytes modelled concretely: every well-formed message decodes after encoding to itself (up to the fields "
                      "that by design do not travel), the type prefix dispatches to the encoded type, and the decoder is total — no wire "
                      "struct json.Unmarshal can produce (absent proof, null list elements, any strings) makes it panic; the frame length "
                      "is bounded before allocation. Tied to the code by a differential check (DecodeMessage under recover + watchdog).",
        "level_note": "Trusted: Lean kernel; encoding/json (law: Unmarshal(Marshal w) = w into the same struct type; absent object = nil), "
                      "google/uuid and chiapos element parsing (parameters with a round-trip law; their verdict on every generated string is "
                      "fed to the model by the harness).",
        "trusted_base": ["encoding/json, google/uuid, chiapos BLS element (de)serialisation: parameters with round-trip laws"],
        "assumptions": ["hand-written model Model/Codec.lean; agreement with fractal/protocol/*.go checked by the correspondence stream on every run",
                        "memory: the frame bound (connection/conn.go) is a regenerated structural fact + the arithmetic theorem C16_frame_bound"],
    },
    "C18": {
        "props": ["MassVerif.Props.C18"],
        "drivers_mod": ["MassVerif.Driver.C18"],
        "harnesses": [{
            "name": "hd", "pkg": "harness/hd", "driver": "MassVerif/Driver/C18.lean",
            "quick": {"n": 60}, "thorough": {"n": 1500}, "search": {"n": 600},
        }],
        "level_text": "Unbounded proof (Lean 4) over a model of ExtendedKey as coded (minimal-length scalar bytes, copy-into-buffer data "
                      "assembly) next to BIP32's CKD: public derivation commutes with private derivation (from the secp256k1 group law); "
                      "Child equals BIP32 wherever a hardened step's parent scalar is held in 32 bytes (the hypothesis the proof forces; "
                      "kernel-checked counterexample for a 31-byte parent = known finding); parse(serialize k) is k in canonical form and "
                      "derives the same children under the same hypothesis; mnemonic sentences of all five sizes decode, by both decoders, "
                      "to the entropy they encode. Correspondence on every run: real hdkeychain/mnemonic code vs the Lean model with "
                      "library crypto oracle-fed, plus an independent Go BIP32 reference as the property oracle.",
        "level_note": "Trusted: Lean kernel; HMAC-SHA512, SHA-256, hash160, base58 and secp256k1 of the Go libraries (parameters; the group "
                      "law pub((a+b) mod n) = pub a + pub b is assumed); the English word list being 2048 distinct whitespace-free words is "
                      "checked at run time, not in the kernel.",
        "trusted_base": ["crypto/hmac, crypto/sha512, crypto/sha256, mass-core pocec (secp256k1), massutil.Hash160, base58: parameters / oracle-fed"],
        "assumptions": ["hand-written models Model/HD.lean, Model/Mnemonic.lean; agreement with extendedkey.go / mnemonic.go checked by the correspondence stream on every run",
                        "child scalar = 0 (probability 2^-256) is excluded by hypothesis in C18_neuter_child_comm"],
    },
}

WALLET_TB = ["goleveldb transactions (law: commit atomic+durable, discard leaves no trace)",
             "scrypt + secretbox (law: a box opens only under the passphrase it was sealed with; passphrases are symbolic tokens)",
             "secp256k1 / HD derivation (keys are symbolic (keystore, branch, index) identities; byte-level derivation is C18)"]
WALLET_ASSUME = ["hand-written model Model/Wallet.lean; agreement with manager.go/addrmgr.go checked on every run by the correspondence "
                 "stream (every op result + a canonical dump of the running instance after every op, real leveldb, fast scrypt)",
                 "the harness never calls Unlock on an already unlocked wallet and compares master-key liveness only while locked "
                 "(DESIGN.md 4.A: second-Unlock quirk)",
                 "which keystore GenerateNewPublicKey picks (Go map order) is fed to the model as the observed choice"]

def wallet(pid, level_text, extra=None):
    h = {"name": "wallet", "pkg": "harness/wallet", "driver": "MassVerif/Driver/Wallet.lean",
         "quick": {"n": 40, "len": 30, "focus": pid}, "thorough": {"n": 600, "len": 60, "focus": pid},
         "search": {"n": 300, "len": 40, "focus": pid}}
    cfg = {"props": ["MassVerif.Props." + pid], "drivers_mod": ["MassVerif.Driver.Wallet"], "harnesses": [h],
           "level_text": level_text,
           "level_note": "Trusted: Lean kernel; leveldb, scrypt/secretbox and secp256k1 as laws/parameters (symbolic treatment); the "
                         "model-to-code tie is a differential check, not a proof.",
           "trusted_base": WALLET_TB, "assumptions": WALLET_ASSUME}
    if extra:
        cfg.update(extra)
    return cfg

PROPS.update({
    "C02": wallet("C02", "Unbounded proof (Lean 4), by induction over arbitrary operation histories of the wallet model (durable image / "
                  "memory image / lock state): the running instance always shows exactly the durable image (coherence invariant), a "
                  "restart with the current public passphrase presents the same keystores, remarks, counters and passphrases, locked; "
                  "a wrong public passphrase fails and alters nothing; an operation that reports an error leaves the store untouched. "
                  "Tied to the code by replaying random histories with restarts on the real keystore manager (results + dump diffed)."),
    "C03": wallet("C03", "Unbounded proof (Lean 4) over the same wallet model: one private passphrase seals every keystore in every "
                  "reachable state; unlock/export/delete/passphrase-change succeed only with it and a superseded one opens nothing; "
                  "signing needs an unlocked wallet; in every reachable locked state no keystore holds private keys, key-decrypting "
                  "keys or a passphrase hash (the full-strength theorem, provable after the fix of F3). The harness dumps which secret "
                  "fields are live in the real instance after every operation."),
    "C01": wallet("C01", "Unbounded proof (Lean 4) on the wallet model: export writes the keystore's durable snapshot; importing an untampered "
                  "file (or one altered only in fields import ignores) with the passphrase in force at export, into any wallet not holding "
                  "that keystore, restores the same identity, remark and counters (= the same keys at the same indices; one identity and "
                  "path yield one key by C18), and after unlock every restored key signs; wrong passphrase, already-present keystore and "
                  "corruption of an authenticated field are rejected with the store unchanged. The full-strength 'every single-field "
                  "corruption is rejected' is false of the code (kernel-checked counterexample): remark, counters and account are not "
                  "authenticated = known findings. The harness exports/deletes/imports with every kind of tampering and compares "
                  "addresses and public keys index by index on the real code."),
    "C05": wallet("C05", "Unbounded proof (Lean 4): signing succeeds exactly for keys that were issued (on either branch, locked or unlocked) "
                  "and are still managed, while the wallet is unlocked, for a 32-byte digest; foreign keys and a locked wallet are refused; "
                  "issued keys stay issued across restart; the byte-level binding (the private key derived for a path is the one whose "
                  "public half was issued for that path) is C18's neuter/child commutation theorem. The harness signs with every key ever "
                  "issued and verifies each signature with pocec directly.",
                  {"props": ["MassVerif.Props.C05"]}),
    "C06": wallet("C06", "Unbounded proof (Lean 4): every plot-key request returns the owning keystore's current external counter as ordinal and "
                  "advances it by one (consecutive, no gaps, no reuse while the keystore exists); a later ordinal lookup returns the index the "
                  "key was issued with, also after restart (coherence, C02). Freshness across delete + re-create is false of the code "
                  "(kernel-checked counterexample: the counter travels with an older file) = known finding. The harness keeps every key ever "
                  "returned and its ordinal and re-queries them."),
    "C12": wallet("C12", "Proof (Lean 4) of the transaction discipline: for every list of bucket writes and every fault (failed write, crash at a "
                  "write, failed commit, crash after commit) db.Update leaves the store with none or all of the writes when the closure "
                  "propagates errors; a reported error leaves memory unchanged when the closure assigns no in-memory state (kernel-checked "
                  "counterexamples for both premises); the premises are regenerated structural facts about every wallet method (one Update, "
                  "no swallowed error, no assignment in the closure) decided by `decide`; lifted to the wallet model (C12_atomic, "
                  "C12_opens_after). Correspondence = exhaustive fault enumeration on the real code: every bucket write and the commit of "
                  "every operation of generated histories is cut in all four ways behind a fault-injecting db.DB, the reopened wallet is "
                  "compared with the model and with the pre/post images.",
                  {"props": ["MassVerif.Props.C12"],
                   "harnesses": [{"name": "walletfault", "pkg": "harness/wallet", "driver": "MassVerif/Driver/Wallet.lean",
                                  "quick": {"n": 1, "len": 3, "focus": "C12"}, "thorough": {"n": 12, "len": 5, "focus": "C12"},
                                  "search": {"n": 4, "len": 4, "focus": "C12"}, "timeout": 9000}]}),
    "C14": {
        "props": ["MassVerif.Props.C14"],
        "harnesses": [{"name": "walletconc", "pkg": "harness/walletconc", "race": True, "env": {"GORACE": "halt_on_error=1"},
                       "crash_key": "data-race-or-fatal-error", "replayable": False,
                       "quick": {"n": 12, "len": 12}, "thorough": {"n": 80, "len": 30}, "search": {"n": 40, "len": 20}, "timeout": 9000}],
        "level_text": "PARTIAL by nature. Proof (Lean 4): (1) regenerated structural facts, decided by `decide`: every exported keystore-manager "
                      "method that touches shared state is one critical section of the manager mutex (Lock(); defer Unlock() as its first "
                      "two statements) and every AddrManager method touching the address map one of the AddrManager mutex; (2) for any "
                      "object with that discipline every concurrent history is linearizable w.r.t. its sequential specification "
                      "(Wallet.step): the callers' results are those of running the operations one at a time in critical-section order, and "
                      "an operation that returned before another was called precedes it (C14_linearizable, C14_real_time, by induction over "
                      "arbitrary event traces). Supporting, not proof: 2-4 goroutines of random wallet operations under the Go race detector "
                      "(a race report or fatal runtime error kills the harness = violation), invariant oracles, reopen comparison.",
        "level_note": "Outside any model: the Go memory model itself; races inside goleveldb/mass-core; unexported helpers called without "
                      "the lock by other packages. The getters Name/Remarks/AddrUse/KeyScope of AddrManager read fields without a lock "
                      "(Remarks races with ChangeRemark; not exercised, recorded in DESIGN.md).",
        "trusted_base": ["sync.Mutex provides mutual exclusion (critical sections are modelled as atomic events)",
                         "the extractor's lock-on-entry pattern match (go/ast)"],
        "assumptions": ["a method body that starts with mu.Lock(); defer mu.Unlock() is one critical section",
                        "dynamic part is schedule sampling, labelled supporting evidence only"],
        "technique": "Lean 4 theorems (linearizability of lock-disciplined objects + regenerated lock facts); race-detector runs as supporting search",
    },
    "C04": wallet("C04", "Proof (Lean 4), symbolic (Dolev-Yao): a term algebra of seeds, extended keys, key-encryption keys, passphrases, scrypt "
                  "parameters and secretbox ciphertexts; the table `classOf` says what the code stores under every bucket key name and export "
                  "field; theorem: from everything the wallet emits (store, exports, log text) no seed, private key, key-encryption key or "
                  "passphrase is derivable by an observer who can project pairs, open a box with a derivable key and derive a master key "
                  "from a derivable passphrase; with the private passphrase the master HD key and every child key is derivable. Tie to the "
                  "code: a recording db.DB logs every Put of generated histories; the harness derives the four keys of every keystore from "
                  "the passphrases, opens every stored value and export field and reports the class it observes; the Lean driver prints the "
                  "table's class for the same key name; byte scan of all store files, exports and the node's log output for every secret "
                  "(raw and hex) after every operation.",
                  {"props": ["MassVerif.Props.C04"], "drivers_mod": ["MassVerif.Driver.C04"],
                   "harnesses": [{"name": "walletsecrecy", "pkg": "harness/wallet", "driver": "MassVerif/Driver/C04.lean",
                                  "quick": {"n": 12, "len": 14, "focus": "C04"}, "thorough": {"n": 300, "len": 40, "focus": "C04"},
                                  "search": {"n": 60, "len": 20, "focus": "C04"}}],
                   "level_note": "Symbolic secrecy, not computational: scrypt/secretbox are idealised (a box opens only under its key). Log "
                                 "output of packages other than the wallet is covered by the byte scan only. Trusted: Lean kernel; the "
                                 "harness's classifier."}),
    "C07": {
        "props": ["MassVerif.Props.C07", "MassVerif.Props.C07File"], "drivers_mod": ["MassVerif.Driver.Plot"],
        "harnesses": [{"name": "plot", "pkg": "harness/plot", "driver": "MassVerif/Driver/Plot.lean",
                       "quick": {"n": 9, "focus": "C07"}, "thorough": {"n": 60, "focus": "C07"}, "search": {"n": 30, "focus": "C07"}}],
        "level_text": "Unbounded proof (Lean 4) over a model of both plotting passes as write sequences applied window by window: for every list "
                      "of window sizes (any amount of memory, any number of windows) a completed pass leaves exactly the last-writer table of its "
                      "write sequence; hence the completed plot equals the construction (specB) for every cache-size schedule of both passes; "
                      "every stored entry is a pair of map-A partners with FB = its position (sound) and every constructible prefix has an entry "
                      "(complete); enough non-empty windows always terminate. P and FB are arbitrary functions. Correspondence: the real "
                      "massdb.v1 plotter at bit lengths 8-12 with forced cache sizes (hook H1) vs the Lean model on the same P/FB tables and "
                      "window sizes, all 2^bl entries compared; oracle = independent computation from pocutil.",
        "level_note": "Trusted: Lean kernel; mass-core's P/FB/VerifyProof (parameters); bit lengths >= 24 (consensus sizes) exercise the same "
                      "code with 3-byte records and are not plotted by the check; GetProof re-verifies with poc.VerifyProof (library).",
        "trusted_base": ["pocutil.P / pocutil.FB (MASS-SHA256) and poc.VerifyProof of mass-core: parameters — the theorems hold for all their values; the harness feeds their values to the model",
                          "OS/filesystem: Sync makes preceding writes durable; a crash may persist any subset of unsynced block writes (modelled: arbitrary content at or above the checkpoint)"],
        "assumptions": ["hand-written model Model/Plot.lean; agreement with plot.go checked by the correspondence stream on every run",
                        "x = 0 is the all-zero record (never stored), as in the code"],
    },
    "C10": {
        "props": ["MassVerif.Props.C10", "MassVerif.Props.C07File"], "drivers_mod": ["MassVerif.Driver.Plot"],
        "harnesses": [{"name": "plotresume", "pkg": "harness/plot", "driver": "MassVerif/Driver/Plot.lean",
                       "quick": {"n": 3, "focus": "C10"}, "thorough": {"n": 20, "focus": "C10"}, "search": {"n": 8, "focus": "C10"}, "timeout": 9000}],
        "level_text": "Unbounded proof (Lean 4): the resumption invariant (every position below the stored checkpoint holds its final value) "
                      "is established by a fresh map, preserved by every completed window and by anything a crash may do at or above the "
                      "checkpoint (unsynced data present, absent or torn); from any such state, after any number of interruptions and with any "
                      "window sizes, a run that completes yields the uninterrupted table, terminates when windows are non-empty (as coded: "
                      "cache >= 2 resp. 4 records; pre-plot checkpoints stay even), and a space reporting plotted holds the complete table; "
                      "kernel-checked counterexample for the old checkpoint rule (start+1). Correspondence = crash-point enumeration on the "
                      "real plotter: every named point (hook H2) of both passes and every window is snapshotted and resumed with other cache "
                      "sizes, plus graceful stops; each resumed image is also run through the Lean model.",
        "level_note": "Trusted: as C07. Torn writes are modelled at the granularity of the WriteAt calls the code issues.",
        "trusted_base": ["pocutil.P / pocutil.FB (MASS-SHA256) and poc.VerifyProof of mass-core: parameters — the theorems hold for all their values; the harness feeds their values to the model",
                          "OS/filesystem: Sync makes preceding writes durable; a crash may persist any subset of unsynced block writes (modelled: arbitrary content at or above the checkpoint)"],
        "assumptions": ["hand-written model; correspondence on every run", "crash images are taken at the named points (all writes so far present); "
                        "the theorem additionally covers any loss of unsynced writes"],
    },
})
KEEPER_TB = ["the Go runtime's channels, RWMutex and goroutine scheduling (the model makes a call under stateLock atomic and "
             "splits the plotter's loop at the points where it holds no lock; hook H3 parks the real plotter at those points)",
             "gopkg.in/karalabe/cookiejar.v2 prque: a max-heap; the order among requests of equal priority (same space) is "
             "unspecified — the model's pop label carries which one the heap yielded (observed)",
             "the plot backend behind massdb.MassDB is a parameter: Plot() blocks until the backend ends it, StopPlot() makes an "
             "executing plot return, Progress() says whether it completed (scripted backend in the keeper harness; the real "
             "massdb.v1 is exercised by the C07/C10 harness and by the C13 real-DB scenario)"]
KEEPER_ASSUME = ["hand-written model Model/Keeper.lean (v1 keeper capacity/*.go); agreement checked on every run by the gated "
                 "correspondence stream: every API call and every plotter micro-step is one line, the whole bookkeeping is compared after each",
                 "the v2 keeper (engine.v2/spacekeeper/skchia) is covered through the regenerated fact that its request methods, "
                 "queue and plotter loop are the same text as v1's (Facts.keeperV2SameAsV1); it is not driven by the harness",
                 "two API calls never overlap in the model (they serialise on stateLock; PlotWS takes only the read lock and writes "
                 "the popped item's wouldMining flag under it — a Go-level data race the model does not exhibit)"]

def keeper(pid, text, note, extra=None, timeout=1500):
    q = {"n": 60, "len": 30, "focus": pid}
    t = {"n": 700, "len": 60, "focus": pid}
    return {
        "props": ["MassVerif.Props." + pid], "drivers_mod": ["MassVerif.Driver.Keeper"],
        "harnesses": [{"name": "keeper", "pkg": "harness/keeper", "driver": "MassVerif/Driver/Keeper.lean",
                       "quick": q, "thorough": t, "search": {"n": 400, "len": 60, "focus": pid}, "timeout": timeout,
                       "crash_key": "process-died"}],
        "level_text": text, "level_note": note,
        "trusted_base": KEEPER_TB, "assumptions": KEEPER_ASSUME + (extra or []),
    }

PROPS.update({
    "C09": keeper("C09",
        "Unbounded proof (Lean 4) over a labelled transition system of the keeper: API actions atomic, the plotter's loop split into "
        "its micro-steps (receive, pop, step 1, plot end, step 3, exit), keeper start/quit; schedules = arbitrary label lists, so every "
        "interleaving of plotter steps with requests is covered. Proved for every reachable configuration: each indexed space is in exactly "
        "one state map and it is the one its state field names; at most one space is plotting and it is the one the plotter holds; every "
        "label moves states only along the documented table (Trans); stop returns a mining space to ready and a plotting space to "
        "registered; after a stop, until asked again, the space never becomes mining or (re-)enters plotting, and all its waiting requests "
        "are void; flag filters, the list and the per-state maps agree; the miner is offered exactly the in-use mining spaces. "
        "Correspondence: the real keeper with a scripted plot backend, the plotter parked at the gates of hook H3, one label per line.",
        "Trusted: Lean kernel; the model's atomicity of calls under stateLock. Four genuine defects were found by this check and repaired "
        "(fix: commits 4d081e8, 9963a86, 01d69d6, 23f4d62); the model describes the repaired code."),
    "C13": keeper("C13",
        "Unbounded proof (Lean 4) over the keeper transition system: no reachable step panics (PopItem on an empty heap, nil popped item "
        "dereferenced by plot/mine/stop or by step 1 are modelled as panics and shown unreachable); every request is enabled in every "
        "reachable configuration (no send blocks: regenerated fact that every send on the plotter channel is a select case with a default, "
        "in both keepers) and the channel never exceeds its capacity, a request finding it full is refused; the plotter's own next step is "
        "always enabled (it waits only for a plot to end, a request, or Start); once quit is closed every plotter/backend step strictly "
        "decreases a measure <= 5, no request increases it, and some step is enabled until the plotter has returned: Stop() terminates. "
        "Correspondence as C09 with watchdogs on every call, a 1032-request flood while a plot executes, and a scenario on the real "
        "massdb.v1 (double StopPlot during one plot, Close during plotting, Plot/StopPlot/Delete on a plotted space).",
        "Partial in one respect: Go-level data races (PlotWS writing wouldMining under the read lock, queue.Empty()/Push() racing "
        "queue.Delete()'s swap of the heap) are runtime behaviour the model cannot exhibit; 'terminates' assumes the backend ends a plot "
        "it was asked to stop (true of massdb.v1: checked per window)."),
    "C11": keeper("C11",
        "Unbounded proof (Lean 4) over the keeper transition system, action half of the property: remove/delete on a plotting or mining "
        "space return ErrWorkSpaceIsNotStill and leave state, indexes, list, files and the deletion log unchanged; a successful delete "
        "logs exactly one Delete() — of that space —, erases that space's files and touches no other space, and is possible only from "
        "registered/ready; remove erases nothing; no label other than a delete request changes the deletion log or any space's files "
        "(every other request, every plotter step, plot end, keeper start/stop). Start-up scan half: Props/C11Scan (see there). "
        "Correspondence: keeper harness (deleted= and files= columns of the scripted backend after every label).",
        "Trusted: Lean kernel; the scripted backend stands for massdb.v1's Delete (os.Remove of the two files of that space, refused "
        "while plotting: massdb.v1.go)."),
})
# C01 / C04: the parameter block and the box format of snacl (what the keystore file's authenticated fields are made of)
SNACL_TEXT = (" snacl (Model/Snacl, Props/C01Snacl): the 88-byte parameter block round-trips for every well-formed parameter set and determines "
    "it, any other length is rejected; DeriveKey returns a key only if its digest is the stored one and accepts the creating passphrase; "
    "Decrypt(Encrypt(m)) = m, fewer than 24 bytes are malformed, a box the library does not open is an error. The harness also exercises "
    "the library laws the wallet theorems assume: every single-byte modification of a box and every other key is rejected, DeriveKey refuses "
    "another passphrase and a tampered block.")
for _p in ("C01", "C04"):
    PROPS[_p]["props"] = PROPS[_p]["props"] + ["MassVerif.Props.C01Snacl"]
    PROPS[_p]["drivers_mod"] = PROPS[_p]["drivers_mod"] + ["MassVerif.Driver.Snacl"]
    PROPS[_p]["harnesses"] = PROPS[_p]["harnesses"] + [{"name": "snacl", "pkg": "harness/snacl", "driver": "MassVerif/Driver/Snacl.lean",
                                  "quick": {"n": 20}, "thorough": {"n": 400}, "search": {"n": 200}, "replayable": False}]
    PROPS[_p]["level_text"] += SNACL_TEXT
# C09: "state queries and flag filters agree" on the enum helpers translated from the source on every run
PROPS["C09"]["props"].append("MassVerif.Props.C09Flags")
PROPS["C09"]["level_text"] += (" Enum helpers (Props/C09Flags over Generated/Engine.lean, which go/extract/translate.go re-translates from "
    "poc/engine/engine.go and poc/engine.v2/engine.go to BitVec definitions on every run - a regenerated model, not a hand-written one): for all "
    "2^32 flag words and state values, States() lists exactly the valid states whose flag the word contains, in ascending order; a state's flag "
    "selects exactly that state; flags are one bit per state and injective; IsNone iff no state is selected; a union of words selects the union; "
    "the v2 copy is the same definition by definition.")
PROPS["C09"]["assumptions"] = PROPS["C09"]["assumptions"] + ["go/extract/translate.go (the translator of the enum helpers: constants with iota, "
    "one-line return methods over & | ^ << >> comparisons, and the filter-loop shape) is trusted to render Go's unsigned arithmetic as BitVec "
    "operations; a source outside that fragment yields no definitions and Props/C09Flags stops checking (C09 only)"]
PROPS["C11"]["props"].append("MassVerif.Props.C11Scan")
PROPS["C11"]["props"].append("MassVerif.Props.C07File")      # the header block: what is written is what is checked
PROPS["C11"]["props"].append("MassVerif.Props.C11Header")    # the scan model's header description is a function of the block's bytes
PROPS["C11"]["drivers_mod"].append("MassVerif.Driver.Scan")
PROPS["C11"]["harnesses"].append({"name": "scan", "pkg": "harness/scan", "driver": "MassVerif/Driver/Scan.lean",
                                  "quick": {"n": 150}, "thorough": {"n": 3000}, "search": {"n": 1500}, "replayable": False})
# C10 too: a space is ready after a restart only if the progress recorded in its map B says the table is complete
PROPS["C10"]["drivers_mod"].append("MassVerif.Driver.Scan")
PROPS["C10"]["harnesses"].append({"name": "scan", "pkg": "harness/scan", "driver": "MassVerif/Driver/Scan.lean",
                                  "quick": {"n": 60}, "thorough": {"n": 1500}, "search": {"n": 600}, "replayable": False})
BYTES_TEXT = (" Byte level (Model/PlotFile, Props/C07File): the record-level tables are carried down to the files as the code writes "
    "them - L-byte little-endian records, a cache of any byte length flushed whole (zeros spill past the window), cache lengths as "
    "makeAvailableMemory yields them, checkpoint and data in one file: for every window history the file's records below its checkpoint "
    "decode to the record-level table, a completed map A / map B on disk decodes to the construction, Get returns the stored pair and "
    "GetProof serves exactly it iff the library's VerifyProof accepts it; every window makes progress and stays inside the table under "
    "the code's memory bounds; the checkpoint write touches only its 8 bytes, a data write never the header block; the header written "
    "by createMapFile is the header loadHashMap reads, field by field. Correspondence: both data regions byte for byte (complete plots, "
    "images after k windows, resumes of crash images), header blocks, and mutated headers through LoadHashMap.")
for _p in ("C07", "C10", "C11"):
    PROPS[_p]["level_text"] += BYTES_TEXT
PROPS["C11"]["level_text"] += (" Start-up half (Props/C11Scan, Model/Scan): for every wallet, directory content and entry order the "
    "scan indexes no space twice; every indexed space comes from an entry with a plot-file name, a valid key and bit length and the "
    "wallet's ordinal for that key; whatever canonical map-B file it will serve proofs from loaded (size, code, version, key, key hash), "
    "is a map B and names the same key and bit length as the file name; ready iff that header's checkpoint reached half the volume; a "
    "registered space's map A passed the same checks; each well-formed wallet-owned file yields an indexed space. Correspondence: real "
    "keeper + real massdb.v1 on generated header-only files (renamed, foreign-key, wrong-ordinal, wrong code/version/type/hash, truncated, "
    "map A missing or damaged, duplicates across directories, odd-cased and zero-padded names) vs the Lean scan; oracles on the "
    "directories before/after (content tags) and on the headers of every indexed pair; legacy-name scenarios.")
PROPS["C11"]["assumptions"] = PROPS["C11"]["assumptions"] + [
    "Model/Scan.lean works on a description of the directories (per entry: name shape and fields; per canonical file: header fields) "
    "that the harness derives from the files it generated; the name regexp (fact regMassDBV1) is read by the harness's own predicate, "
    "not proved equivalent", "file names that match the regexp only case-insensitively or with a zero-padded ordinal are opened "
    "under the canonical name (a fresh pair is created next to them): they are not 'well-formed names' in the theorems",
    "legacy names (PK-BL-B.MASSDB) are exercised by oracles only (rename, no overwrite), not modelled in Lean"]


PROPS["C15"] = {
    "props": ["MassVerif.Props.C15"], "drivers_mod": ["MassVerif.Driver.Config"],
    "harnesses": [{"name": "config", "pkg": "harness/config", "driver": "MassVerif/Driver/Config.lean",
                   "quick": {"n": 250, "len": 36}, "thorough": {"n": 4000, "len": 60}, "search": {"n": 2500, "len": 60}}],
    "level_text": "Unbounded proof (Lean 4) over a model of the configuration arithmetic (fill pass over the indexed spaces, largest "
                  "bit length first; disk check; creation pass; the uint64->int conversions; the API's MiB arithmetic and pre-checks): for "
                  "every index, target and free-disk figures a successful size configuration selects spaces whose total never exceeds the "
                  "request and is short of it by less than the smallest plot size (24 bits = 96 MiB), every indexed space of a usable bit "
                  "length left out would not have fitted and is larger than anything created, new spaces are created only in the "
                  "keeper's first directory resp. in the requested directory and fit its free bytes; per directory (directories distinct) the "
                  "same bounds hold for each directory's size and only spaces of requested directories are selected; by bit-length "
                  "counts the counts are exact; requests below the minimum, of 2^63 bytes or more, whose MiB count overflows, or beyond "
                  "free disk are rejected and a rejected request creates nothing (by path: every directory is checked before anything is "
                  "created - after the fix of F21); everything selected is a plot file of its directory and is indexed again by a keeper "
                  "restarted on those directories. Correspondence: real keeper (real massdb.v1 files, scripted wallet, free-disk figures "
                  "through hook H6) and real API handlers vs the Lean driver on generated scenarios with reconfiguration and restarts.",
    "level_note": "Trusted: Lean kernel; gopsutil disk.Usage (a parameter, fed through hook H6); the priority queue's order = ascending "
                  "ordinal (one key counter in the harness); files are sparse until plotted, so 'free disk' does not shrink in the harness. "
                  "Readings stated in the evidence: size-based configuration considers the usable bit lengths 24/26/28 only (a space of "
                  "another bit length is configured by counts only); a by-path request naming one directory twice is not 'one size per "
                  "directory' (per-directory theorems assume distinct directories; the model still follows the code there). 'Same selection "
                  "for the same request after a restart' is checked by the harness oracle, the theorem covers re-indexing of the selection.",
    "trusted_base": ["github.com/shirou/gopsutil disk.Usage: free bytes per directory are parameters of the model (hook H6 feeds the harness's figures; the comparison stays the code's)",
                     "gopkg.in/karalabe/cookiejar.v2 prque with priority -ordinal+diff: indexed spaces of one bit length are visited by ascending ordinal",
                     "massdb.v1 CreateDB/OpenDB and the start-up scan (C11) for 'a created space is a file pair that is indexed again'"],
    "assumptions": ["hand-written model Model/Config.lean; agreement with capacity.go / api/spaces.v1.go / api/util.go / mining/spacekeeper_v1.go checked by the correspondence stream on every run",
                    "constants regenerated from the source: usableBitLength, MinValidDefaultBitLength, MiB, the body of DefaultPlotSize (theorem C15_facts)",
                    "int64 overflow of the running total is not modelled (needs indexed spaces of 2^63 bytes); keeper not running, wallet unlocked, no concurrent configuration (the code's guards, not exercised)",
                    "passphrase/payout-address validation of the API handlers is fixed to valid inputs"],
}

PROPS["C08"] = {
    "props": ["MassVerif.Props.C08"], "drivers_mod": ["MassVerif.Driver.Miner"],
    "harnesses": [{"name": "miner", "pkg": "harness/miner", "driver": "MassVerif/Driver/Miner.lean",
                   "quick": {"n": 160}, "thorough": {"n": 1200}, "search": {"n": 600}, "replayable": False, "timeout": 600}],
    "level_text": "Unbounded proof (Lean 4) over a model of one round of the v1 miner: the proof search as a transition system over ticker "
                  "ticks (carrying the clock's slot), better/lesser chain tips and a stop, for arbitrary label sequences, candidates, "
                  "qualities and targets. Proved: a proof found for slot s is an offered, error-free, bound candidate, all offered bound "
                  "proofs verify, its quality exceeds the target of s and is the best of s (first maximum), no offered bound proof exceeded "
                  "the target at any slot from the template's first slot up to s (earliest slot), s was at most allowAhead (=1, regenerated "
                  "fact) slots ahead of the clock at the finding tick; after a better tip or a stop the search never returns a proof "
                  "(abandonment); if an eligible proof wins some first slot and nothing interferes, exactly that best proof is returned as "
                  "soon as a tick comes within the look-ahead (completeness); a block is handed to the chain only by a round whose height "
                  "was not mined, only by a poll that saw the clock after the block's timestamp, and not after a stop or a moved tip during "
                  "the wait (after the fix of F23/F24); heights of accepted blocks over any template sequence are pairwise distinct. "
                  "Correspondence: the real PoCMiner (solveBlock + submitBlock through hook H7) against a scripted chain/keeper with REAL "
                  "bit-length-24 proofs (re-verified with VerifiedQuality on every run), real-time scenarios started on a slot boundary; "
                  "the timing-independent outcome is diffed with the Lean model, time-dependent clauses are checked as inequalities "
                  "against the clock; the header's signature is verified with pocec under the winner's key.",
    "level_note": "Partial in one respect: the miner reads the wall clock; the model abstracts it to the slot carried by each tick, and the "
                  "harness places scripted events with >= 1 s margins (scheduling jitter beyond that would show as a correspondence "
                  "difference, not be masked). Trusted: Lean kernel; mass-core's VerifiedQuality / GetTarget / PassBinding / difficulty (parameters); "
                  "pocec signatures. An offered bound proof that does not verify aborts the round (no block) - the keeper never offers one "
                  "(massdb GetProof re-verifies). The v2 miner (engine.v2) is not covered.",
    "trusted_base": ["mass-core poc.DefaultProof.VerifiedQuality, PoCTemplate.GetTarget/PassBinding/GetCoinbase, wire header hashing, pocec signatures: parameters / library",
                     "wall clock and ticker: abstracted to the slot value each tick observes; the real-time harness checks look-ahead and not-before-timestamp against time.Now()",
                     "go/harness/miner/proofs.json: precomputed real proofs (cmd/mkproofs), input data re-verified by the library on every run"],
    "assumptions": ["hand-written model Model/Miner.lean of strategy.go/miner.go; agreement checked by the correspondence stream on every run",
                    "one round at a time (generateBlocks is a single goroutine); chain acceptance is scripted"],
}

# the configuration harness also serves C11 ("no other operation deletes plot data"): its fault scenarios
# (wallet failing while a configuration creates spaces) and every generated configuration call are checked for
# plot files that disappear; failures are keyed C11:configure-deleted-files
PROPS["C11"]["harnesses"].append({"name": "config", "pkg": "harness/config", "driver": "MassVerif/Driver/Config.lean",
                                  "quick": {"n": 60, "len": 30}, "thorough": {"n": 1500, "len": 60}, "search": {"n": 800, "len": 60}})
PROPS["C11"]["drivers_mod"].append("MassVerif.Driver.Config")

PROPS["C17"] = {
    "props": ["MassVerif.Props.C17"], "drivers_mod": ["MassVerif.Driver.Fractal"],
    "harnesses": [{"name": "fractal", "pkg": "harness/fractal", "driver": "MassVerif/Driver/Fractal.lean",
                   "quick": {"n": 40, "len": 40}, "thorough": {"n": 600, "len": 80}, "search": {"n": 300, "len": 80}, "timeout": 900}],
    "level_text": "Unbounded proof (Lean 4) over a message-level model of the local superior's task router (any sequence of add/remove "
                  "task, subscribe/unsubscribe, report and read labels; any number of tasks, collectors and pending reports): in every "
                  "reachable state a report buffered for a task names that task, and everything read, buffered or waiting was reported for "
                  "that task by that collector with that payload (tag and payload unmodified); a task's channel is a FIFO queue (a report "
                  "joins the end of the queue of the task it names and of no other, the waiter reads the oldest, order is kept, other "
                  "tasks' queues are untouched), never above its capacity; after RemoveTask the task has no channel, its waiting senders "
                  "are released and a report naming it is dropped (no delivery to a removed task); a broadcast task is handed exactly "
                  "once to every subscribed collector and to nobody else, a later subscriber gets the current task once, a targeted task "
                  "goes to its target only, no other label hands out requests; a full channel holds up only its own senders; through any "
                  "number of relays a report keeps task and payload and is tagged with the connection it came in on. Regenerated code facts "
                  "carry the runtime side: hand-over outside the cache lock with recovery from a closed channel (after the fix of F13), "
                  "RemoveTask closes under the lock, subscribe/broadcast serialised (after the fix of F15), pool stop closes the listener "
                  "(after the fix of F14). Correspondence: real LocalSuperior with scripted collectors on generated label sequences "
                  "(requests per collector and reads per task compared after every label), real TCP topologies with one and two relay "
                  "levels (RemoteSuperior + CollectorPool + Conn), watchdogs on every add/remove/subscribe/stop.",
    "level_note": "Partial by nature: promptness under real TCP/timers (keep-alive, 30 s redial) and goroutine interleavings inside one "
                  "label are exercised (watchdogs, overlapping Subscribe/AddTask scenario), not modelled; 'in order per connection' is "
                  "proved for the task channel (the router) - on the wire a priority message (proof/signature) may overtake a normal one "
                  "(qualities) by design of the two-lane connection; a targeted task reaches the directly connected collector it names - "
                  "behind a relay it is forwarded to all of the relay's collectors (the relay does not know which one holds the space). "
                  "Trusted: Lean kernel; Go channels (FIFO among blocked senders), sync.Mutex; the scripted collectors.",
    "trusted_base": ["Go runtime: buffered channels are FIFO and blocked senders are served in arrival order; close wakes blocked senders with a panic that submitCollectorMsg recovers",
                     "massutil/ccache (LRU of 100 tasks): tasks beyond 100 open at once are evicted silently - not modelled (the miner keeps a handful open)",
                     "fractal/connection (framing, keep-alive) and protocol codec (C16) under the network scenarios"],
    "assumptions": ["hand-written model Model/Fractal.lean of fractal/superior.go; agreement checked by the correspondence stream on every run",
                    "task ids are fresh (uuid.New in the callers): a re-added id replaces the channel in code and model alike, the FIFO theorems speak about one incarnation",
                    "LocalCollector.trySlots (the collector-side proof search, same shape as the miner's with allowAhead = 10) is not modelled"],
}
PROPS["C17"]["props"].append("MassVerif.Props.C17Order")
PROPS["C17"]["level_text"] += (" Over whole histories (Props/C17Order): when no task id is added twice, for every open task the reports "
    "accepted for it, in the order they were reported, are exactly what its waiter has read followed by what is still queued "
    "(C17_history_order: in order, complete, unduplicated).")

# C05 also runs the concurrent wallet harness (race detector): signatures returned under concurrent lock/unlock must verify
PROPS["C05"]["harnesses"].append({"name": "walletconc", "pkg": "harness/walletconc", "race": True, "env": {"GORACE": "halt_on_error=1"},
                                  "crash_key": "data-race-or-fatal-error", "replayable": False,
                                  "quick": {"n": 6, "len": 10}, "thorough": {"n": 50, "len": 30}, "search": {"n": 30, "len": 20}, "timeout": 6000})
# C06 too: concurrent key requests never return one key twice, and the ordinal returned is the key's index
PROPS["C06"]["harnesses"].append({"name": "walletconc", "pkg": "harness/walletconc", "race": True, "env": {"GORACE": "halt_on_error=1"},
                                  "crash_key": "data-race-or-fatal-error", "replayable": False,
                                  "quick": {"n": 6, "len": 10}, "thorough": {"n": 50, "len": 30}, "search": {"n": 30, "len": 20}, "timeout": 6000})
# C03 too: a keystore created while the passphrase changes is governed by the passphrase in force; and the fault
# enumeration over passphrase changes (two and three keystores), judged by "one passphrase governs all keystores"
PROPS["C03"]["harnesses"].append({"name": "walletconc", "pkg": "harness/walletconc", "race": True, "env": {"GORACE": "halt_on_error=1"},
                                  "crash_key": "data-race-or-fatal-error", "replayable": False,
                                  "quick": {"n": 6, "len": 10}, "thorough": {"n": 50, "len": 30}, "search": {"n": 30, "len": 20}, "timeout": 6000})
PROPS["C03"]["harnesses"].append({"name": "walletfaultpass", "pkg": "harness/wallet", "driver": "MassVerif/Driver/Wallet.lean",
                                  "quick": {"n": 0, "len": 3, "focus": "C03F"}, "thorough": {"n": 6, "len": 5, "focus": "C03F"},
                                  "search": {"n": 2, "len": 4, "focus": "C03F"}, "timeout": 9000})
# C05 too: a key handed out by an operation that hit a storage fault signs after a restart (fault enumeration over key issuance)
PROPS["C05"]["harnesses"].append({"name": "walletfaultkeys", "pkg": "harness/wallet", "driver": "MassVerif/Driver/Wallet.lean",
                                  "quick": {"n": 0, "len": 3, "focus": "C05F"}, "thorough": {"n": 6, "len": 5, "focus": "C05F"},
                                  "search": {"n": 2, "len": 4, "focus": "C05F"}, "timeout": 9000})
# C02 too: with a storage error in the way the reopened wallet still presents exactly what was acknowledged (public-passphrase changes)
PROPS["C02"]["harnesses"].append({"name": "walletfaultpub", "pkg": "harness/wallet", "driver": "MassVerif/Driver/Wallet.lean",
                                  "quick": {"n": 0, "len": 3, "focus": "C02F"}, "thorough": {"n": 4, "len": 5, "focus": "C02F"},
                                  "search": {"n": 2, "len": 4, "focus": "C02F"}, "timeout": 9000})
# C06 too: after a key request that failed on a storage fault the next request continues the ordinals without a gap
PROPS["C06"]["harnesses"].append({"name": "walletfaultkeys", "pkg": "harness/wallet", "driver": "MassVerif/Driver/Wallet.lean",
                                  "quick": {"n": 0, "len": 3, "focus": "C06F"}, "thorough": {"n": 6, "len": 5, "focus": "C05F"},
                                  "search": {"n": 2, "len": 4, "focus": "C05F"}, "timeout": 9000})
# collector side of C17: what a LocalCollector reports for a qualities task
PROPS["C17"]["props"].append("MassVerif.Props.C17Collector")
PROPS["C17"]["props"].append("MassVerif.Props.C17EndToEnd")    # codec + framing + any transport chunking, composed
PROPS["C17"]["drivers_mod"].append("MassVerif.Driver.Collector")
PROPS["C17"]["harnesses"].append({"name": "collector", "pkg": "harness/collector", "driver": "MassVerif/Driver/Collector.lean",
                                  "quick": {"n": 80}, "thorough": {"n": 800}, "search": {"n": 400}, "replayable": False, "timeout": 600})
PROPS["C17"]["level_text"] += (" Collector side (Model/Collector, Props/C17Collector): for any spaces, qualities, targets, ticks and "
    "cancellations a local collector's reports for a qualities task name that task, list per slot exactly the error-free spaces whose "
    "quality exceeds the slot's target (never an empty list), come in increasing slot order without repetition, cover every such slot "
    "up to allowAhead (=10, regenerated fact) slots past the clock at each tick, and stop after a cancellation; the real LocalCollector "
    "(scripted engine.v2 keeper and superior, real time, library qualities and difficulty targets) is diffed against the model, and its "
    "proof/signature reports name the request's task and space.")
PROPS["C17"]["assumptions"] = [a for a in PROPS["C17"]["assumptions"] if "trySlots" not in a] + [
    "Model/Collector.lean transcribes LocalCollector.onRequestQualities/trySlots/reportQualities; a report still in flight when a newer qualities task arrives may be delivered (the code selects between the cancelled context and the hand-over): not excluded by the property, tolerated by the harness for 400 ms"]

# byte-stream side of C17 ("unmodified, in order per connection") and of C16 ("decoding arbitrary bytes received from a
# peer ... never hangs or exhausts memory"): the receive loop of a connection as a chunked receiver
for _pid in ("C17", "C16"):
    PROPS[_pid]["props"].append("MassVerif.Props.C17Stream")
    PROPS[_pid]["drivers_mod"].append("MassVerif.Driver.Stream")
    PROPS[_pid]["harnesses"].append({"name": "stream", "pkg": "harness/stream", "driver": "MassVerif/Driver/Stream.lean",
                                     "quick": {"n": 300}, "thorough": {"n": 6000}, "search": {"n": 2000}})
    PROPS[_pid]["level_text"] += (" Byte stream (Model/Stream, Props/C17Stream): the receive loop of a connection, fed the peer's "
        "byte stream in pieces of any size, emits exactly the units the peer wrote, in order and byte for byte "
        "(C17_stream_delivery, via C17_stream_chunking_irrelevant: pieces do not matter), a stream cut anywhere delivers a prefix "
        "(C17_stream_cut_prefix), and an announced length beyond the limit stops the connection after the units before it "
        "(C17_stream_oversize). Tie: a real connection.Conn over a scripted net.Conn that hands over exactly the generated pieces.")
