#!/usr/bin/env python3
"""Confirm a sub-agent's mutation in its scratch worktree and archive it under /verif/seeded/<id>/.
usage: confirm_mutation.py <worktree> <mdir> <seed-id> <property> """
import json, os, re, shutil, subprocess, sys
wt, mdir, sid, prop = sys.argv[1:5]
env = dict(os.environ, GOFLAGS="-mod=mod", GOPROXY="off", GOSUMDB="off", GOTOOLCHAIN="local")
meta = json.load(open(os.path.join(mdir, "meta.json")))
m = re.search(r"-run (\S+) (\S+)", meta["demo_cmd"])
pat, pkg = m.group(1), m.group(2)
mt = re.search(r"-tags (\S+)", meta["demo_cmd"])
tags = ("-tags " + mt.group(1) + " ") if mt else ""
dest = meta["demo_dir"].split()[0]
demo_dst = os.path.join(wt, dest, "zz_seeded_demo_test.go")
def sh(cmd, **kw):
    p = subprocess.run(cmd, shell=True, cwd=wt, env=env, stdout=subprocess.PIPE, stderr=subprocess.STDOUT, text=True, **kw)
    return p.returncode, p.stdout
def clean():
    sh("git checkout -- . && rm -f " + demo_dst)
clean()
shutil.copy(os.path.join(mdir, "demo_test.go"), demo_dst)
rc0, out0 = sh("go test %s-vet=off -count=1 -run '%s' %s" % (tags, pat, pkg))
rc, out = sh("git apply " + os.path.join(mdir, "patch.diff"))
assert rc == 0, out
rc1, out1 = sh("go test %s-vet=off -count=1 -run '%s' %s" % (tags, pat, pkg))
os.remove(demo_dst)
rcbuild, _ = sh("go build $(go list ./... | grep -v /out/)")
rcb, outb = sh("go test -vet=off -count=1 $(go list ./... | grep -v /out/) 2>&1 | grep -E '^(FAIL|--- FAIL|panic)' | head -20")
if rcbuild != 0:
    outb = "go build failed\n" + outb
clean()
ok = rc0 == 0 and rc1 != 0 and outb.strip() == ""
print("demo clean: rc=%d | demo mutated: rc=%d | suite with mutation: %s" % (rc0, rc1, "pass" if outb.strip() == "" else "FAIL: " + outb[:300]))
if not ok:
    print("NOT CONFIRMED"); sys.exit(1)
d = os.path.join("/verif/seeded", sid)
os.makedirs(d, exist_ok=True)
shutil.copy(os.path.join(mdir, "patch.diff"), d)
shutil.copy(os.path.join(mdir, "demo_test.go"), d)
meta.update({"property": prop, "confirmed": "in scratch worktree %s: demo passes on clean HEAD, fails with patch.diff applied; go build ./... and the full unedited suite (go test -vet=off -count=1 ./...) pass with the patch" % wt,
             "demo_install": "copy demo_test.go into %s/ and run: go test %s-vet=off -count=1 -run '%s' %s" % (dest, tags, pat, pkg)})
json.dump(meta, open(os.path.join(d, "meta.json"), "w"), indent=1)
print("archived", d)
