#!/usr/bin/env python3
"""Isolated variant of run_seeded.py for `vp run --with-repo -- python3 tools/run_seeded_iso.py [ids...]`.

Runs in a snapshot of /verif (cwd) against a snapshot of /repo ($VP_RUN_REPO, or a fresh clone of /repo's
HEAD under /var/tmp when unset) so that /repo itself is never touched and editing can go on meanwhile.  The
snapshot's go.mod is pointed at the repo snapshot, the framework is built there, every seeded patch is applied
to the repo snapshot in turn, the property's quick check runs (VERIF_REPO = snapshot), the patch is undone.
Writes seeded_iso_results.md / .json in the snapshot (cwd).  NOT evidence: a table of which check catches what.
Options (env): SEEDED_TIER=quick|thorough, SEEDED_SEED=<VERIF_SEED>, SEEDED_DIR=<dir of seeded changes>."""
import json, os, subprocess, sys, glob, re, shutil, time

ROOT = os.getcwd()
SEEDED = os.environ.get("SEEDED_DIR", os.path.join(ROOT, "seeded"))
TIER = os.environ.get("SEEDED_TIER", "quick")
repo = os.environ.get("VP_RUN_REPO")
own_clone = False
if not repo:
    repo = "/var/tmp/seeded_iso_repo_%d" % os.getpid()
    subprocess.check_call(["git", "clone", "-q", "/repo", repo])
    own_clone = True
env = dict(os.environ, VERIF_REPO=repo, GOFLAGS="-mod=mod", GOPROXY="off", GOSUMDB="off", GOTOOLCHAIN="local",
           VERIF_EVIDENCE_DIR=os.path.join(ROOT, ".work", "evidence_mut"))
if os.environ.get("SEEDED_SEED"):
    env["VERIF_SEED"] = os.environ["SEEDED_SEED"]

gomod = os.path.join(ROOT, "go", "go.mod")
txt = open(gomod).read()
txt = re.sub(r"replace massnet.org/mass => \S+", "replace massnet.org/mass => " + repo, txt)
open(gomod, "w").write(txt)
if ROOT != "/verif":
    sh = open(os.path.join(ROOT, "setup.sh")).read().replace("-repo /repo", "-repo " + repo)
    open(os.path.join(ROOT, "setup.sh"), "w").write(sh)
    subprocess.check_call(["sh", "./setup.sh"], cwd=ROOT, env=env)

only = sys.argv[1:]
rows = []
for d in sorted(glob.glob(SEEDED + "/*/")):
    sid = os.path.basename(d.rstrip("/"))
    if only and not any(o in sid for o in only):
        continue
    if not os.path.exists(d + "meta.json"):
        continue
    meta = json.load(open(d + "meta.json"))
    prop = meta["property"]
    subprocess.run(["git", "-C", repo, "checkout", "-q", "--", "."])
    subprocess.run(["git", "-C", repo, "clean", "-fdq"])
    if meta.get("neutralised"):
        rows.append(dict(id=sid, property=prop, result="neutralised", keys=meta["neutralised"][:90], secs=0))
        print(rows[-1], flush=True)
        continue
    if subprocess.run(["git", "-C", repo, "apply", d + "patch.diff"]).returncode != 0:
        rows.append(dict(id=sid, property=prop, result="does-not-apply", keys="", secs=0))
        print(rows[-1], flush=True)
        continue
    t0 = time.time()
    try:
        p = subprocess.run(["./check", prop, "--tier", TIER], cwd=ROOT, env=env, stdout=subprocess.PIPE, stderr=subprocess.STDOUT, text=True)
    finally:
        subprocess.run(["git", "-C", repo, "checkout", "-q", "--", "."])
        subprocess.run(["git", "-C", repo, "clean", "-fdq"])
    viol = re.findall(r"VIOLATION property=\S+ replay=\S+/([^/\s]+)\.txt( no-failing-input-found)?", p.stdout)
    caught = p.returncode == 1 and viol
    keys = ", ".join(v[0].split("_", 1)[1] + (" (no input)" if v[1] else "") for v in viol)
    rows.append(dict(id=sid, property=prop, result="caught" if caught else "MISSED", keys=keys, secs=int(time.time() - t0)))
    if not caught:
        open(os.path.join(ROOT, "seeded_iso_%s.log" % sid), "w").write(p.stdout)
    print(rows[-1], flush=True)
    json.dump(rows, open(os.path.join(ROOT, "seeded_iso_results.json"), "w"), indent=1)
# a final run on the clean snapshot: must be quiet
with open(os.path.join(ROOT, "seeded_iso_results.md"), "w") as f:
    f.write("| seeded change | property | result | violation keys | s |\n|---|---|---|---|---|\n")
    for r in rows:
        f.write("| %(id)s | %(property)s | %(result)s | %(keys)s | %(secs)d |\n" % r)
print("DONE caught=%d missed=%d other=%d" % (sum(r["result"] == "caught" for r in rows), sum(r["result"] == "MISSED" for r in rows),
                                             sum(r["result"] not in ("caught", "MISSED") for r in rows)), flush=True)
if own_clone:
    shutil.rmtree(repo, ignore_errors=True)
