/-
C15 — Capacity configuration honours the requested size and reuses spaces.

Property theorems over `Model/Config.lean` (the configuration arithmetic of the v1 keeper and of the two API
handlers).  Helper lemmas are in `Proofs/Config.lean`.  All quantifiers are unbounded: any index, any number of
directories, any target, any free-disk figures.
-/
import MassVerif.Proofs.Config
import MassVerif.Proofs.ConfigStable

namespace MassVerif.Config

/-! ### the constants the theorems rest on (regenerated from /repo and mass-core on every run) -/

theorem C15_facts :
    Facts.usableBitLength = [24, 26, 28] ∧ Facts.minValidDefaultBitLength = 24 ∧ Facts.pocMiB = 2 ^ 20 ∧
    Facts.defaultPlotSizeBody = "return uint64(bl * (1 << uint(bl-2)))" ∧
    minSize = 100663296 ∧ (minUsableSize : Int) = minSize := by decide

/-- the comparisons the model transcribes stand in the source as the model has them (texts listed in the facts'
doc comments: `currentSize > targetSize`, the "target satisfied" test against `PlotSize(MinValidDefaultBitLength)`,
`targetSize-currentSize < PlotSize(bl)` in both creation loops, `uint64(requiredBytes) >= info.Free`, the
`usableBitLength()[0]` minimum and the `int(targetSize)` conversion, `space.rootDir != path`) -/
theorem C15_condition_facts :
    Facts.condFillBySize = true ∧ Facts.condFillByPath = true ∧ Facts.condGenBySize = true ∧
    Facts.condGenByPath = true ∧ Facts.condCheckDisk = true ∧ Facts.condConfigureBySize = true := by decide

/-! ### configuration by total size -/

/-- what a successful `ConfigureBySize` did -/
theorem configureBySize_ok {k : K} {tu : Nat} (h : (k.configureBySize tu).2.err = none) :
    ∃ k1 sel new, k.sizeRequest (fun _ => true) k.dir0 (toInt64 tu) = (k1, .ok (sel, new)) ∧
      (k.configureBySize tu).2.selected = sel ++ new ∧ (k.configureBySize tu).2.created = new ∧
      sel ++ new ≠ [] ∧ ¬ tu < minUsableSize ∧
      (k.configureBySize tu).1 = { k1 with inUse := dedup (sortOrd (sel ++ new)) [], configured := true } := by
  unfold K.configureBySize at h ⊢
  by_cases hmin : tu < minUsableSize
  · simp [hmin] at h
  · simp only [if_neg hmin] at h ⊢
    rcases hreq : k.sizeRequest (fun _ => true) k.dir0 (toInt64 tu) with ⟨k1, (e | ⟨sel, new⟩)⟩
    · simp [hreq] at h
    · simp only [hreq] at h ⊢
      unfold K.apply at h ⊢
      by_cases hemp : (sel ++ new).isEmpty = true
      · simp [hemp] at h
      · simp only [hemp]
        exact ⟨k1, sel, new, rfl, rfl, rfl, by simpa using hemp, hmin, rfl⟩

theorem toInt64_nonneg_eq {tu : Nat} (htu : tu < 2 ^ 64) (h : 0 ≤ toInt64 tu) : toInt64 tu = tu := by
  unfold toInt64 at *
  have : tu % 2 ^ 64 = tu := Nat.mod_eq_of_lt htu
  rw [this] at h ⊢
  split
  · rfl
  · rename_i h1; rw [if_neg h1] at h; omega

/-- a successful size request was not negative -/
theorem configureBySize_target_nonneg {k : K} {tu : Nat} (h : (k.configureBySize tu).2.err = none) :
    0 ≤ toInt64 tu := by
  obtain ⟨k1, sel, new, hreq, _, _, hne, _, _⟩ := configureBySize_ok h
  by_cases hn : toInt64 tu < 0
  · rw [sizeRequest_neg k _ _ hn] at hreq
    simp only [Prod.mk.injEq, Except.ok.injEq] at hreq
    obtain ⟨_, rfl, rfl⟩ := hreq
    simp at hne
  · omega

/-- **Total never exceeds the request, and falls short of it by less than the smallest plot size.**
The selected spaces are indexed spaces or spaces created by this call in the keeper's first directory. -/
theorem C15_size_total (k : K) (tu : Nat) (htu : tu < 2 ^ 64) (h : (k.configureBySize tu).2.err = none) :
    let r := (k.configureBySize tu).2
    total r.selected ≤ tu ∧ (tu : Int) - total r.selected < minSize ∧
    (∀ w ∈ r.selected, w ∈ k.index ∨ w ∈ r.created) ∧
    (∀ w ∈ r.created, w.dir = k.dir0 ∧ k.nextOrd ≤ w.ord ∧ w ∈ r.selected) := by
  obtain ⟨k1, sel, new, hreq, hsel, hnew, hne, _, _⟩ := configureBySize_ok h
  have hnn := configureBySize_target_nonneg h
  have ht := toInt64_nonneg_eq htu hnn
  obtain ⟨h1, h2, h3, h4, _, _, _⟩ := sizeRequest_ok hreq hnn
  simp only [hsel, hnew, total_append]
  rw [ht] at h1 h2
  refine ⟨h1, h2, ?_, ?_⟩
  · intro w hw
    rcases List.mem_append.1 hw with hw | hw
    · exact Or.inl (h3 w hw).1
    · exact Or.inr hw
  · intro w hw
    exact ⟨(h4 w hw).1, (h4 w hw).2.1, List.mem_append.2 (Or.inr hw)⟩

/-- **Indexed spaces are used before new ones are created**: an indexed space of a usable bit length that was
left out did not fit into what the indexed selection left open, and is strictly larger than every space the
call created. -/
theorem C15_size_reuse_first (k : K) (tu : Nat) (htu : tu < 2 ^ 64) (h : (k.configureBySize tu).2.err = none) :
    let r := (k.configureBySize tu).2
    ∀ w ∈ k.index, w.bl ∈ blDesc → w ∉ r.selected →
      (tu : Int) - (total r.selected - total r.created) < w.size ∧ ∀ n ∈ r.created, n.size < w.size := by
  obtain ⟨k1, sel, new, hreq, hsel, hnew, hne, _, _⟩ := configureBySize_ok h
  have hnn := configureBySize_target_nonneg h
  have ht := toInt64_nonneg_eq htu hnn
  obtain ⟨_, _, _, _, _, _, h7⟩ := sizeRequest_ok hreq hnn
  intro r w hw hb hns
  have hns' : w ∉ sel := fun hc => hns (by simp only [r, hsel]; exact List.mem_append.2 (Or.inl hc))
  have := h7 w hw rfl hb hns'
  simp only [r, hsel, hnew, total_append]
  rw [ht] at this
  exact ⟨by omega, this.2⟩

/-- what is created fits the free space of the keeper's first directory -/
theorem C15_size_created_within_free (k : K) (tu : Nat) (h : (k.configureBySize tu).2.err = none)
    (hc : (k.configureBySize tu).2.created ≠ []) :
    total (k.configureBySize tu).2.created < (k.freeOf k.dir0 : Int) := by
  obtain ⟨k1, sel, new, hreq, hsel, hnew, hne, _, _⟩ := configureBySize_ok h
  have hnn := configureBySize_target_nonneg h
  obtain ⟨_, _, _, _, _, h6, _⟩ := sizeRequest_ok hreq hnn
  rw [hnew] at hc ⊢
  exact h6 hc

/-- **A request below the minimum size is rejected.** -/
theorem C15_size_rejects_under_min (k : K) (tu : Nat) (h : tu < minUsableSize) :
    (k.configureBySize tu).2.err = some .underSize := by
  unfold K.configureBySize; simp [h]

/-- **A rejected request creates no file** (and leaves the index alone), whatever the reason of the rejection. -/
theorem C15_size_error_creates_nothing (k : K) (tu : Nat) (h : (k.configureBySize tu).2.err ≠ none) :
    (k.configureBySize tu).1.files = k.files ∧ (k.configureBySize tu).1.index = k.index ∧
    (k.configureBySize tu).1.nextOrd = k.nextOrd ∧ (k.configureBySize tu).2.created = [] := by
  unfold K.configureBySize at h ⊢
  by_cases hmin : tu < minUsableSize
  · simp [hmin]
  · simp only [if_neg hmin] at h ⊢
    rcases hreq : k.sizeRequest (fun _ => true) k.dir0 (toInt64 tu) with ⟨k1, (e | ⟨sel, new⟩)⟩
    · have := sizeRequest_error hreq
      subst this; simp
    · simp only [hreq] at h ⊢
      unfold K.apply at h ⊢
      by_cases hemp : (sel ++ new).isEmpty = true
      · -- nothing selected, so nothing was created
        have hnew : new = [] := by
          have : (sel ++ new) = [] := by simpa using hemp
          exact (List.append_eq_nil_iff.1 this).2
        subst hnew
        simp only [hemp, if_true]
        by_cases hn : toInt64 tu < 0
        · rw [sizeRequest_neg k _ _ hn] at hreq
          simp only [Prod.mk.injEq, Except.ok.injEq] at hreq
          obtain ⟨rfl, _, _⟩ := hreq; simp
        · have := (sizeRequest_ok hreq (by omega)).2.2.2.2.1
          subst this; simp [K.addNew]
      · simp [hemp] at h

/-- **A request beyond free disk space is rejected**: when the indexed spaces do not bring the request within one
smallest plot and what is missing is not below the free bytes of the keeper's first directory. -/
theorem C15_size_rejects_beyond_disk (k : K) (tu : Nat) (hmin : ¬ tu < minUsableSize)
    (hfill : fillFinished (fill (candidates (k.index.filter fun _ => true)) 0 (toInt64 tu)).2 (toInt64 tu) = false)
    (hfree : (k.freeOf k.dir0 : Int) ≤ toInt64 tu - (fill (candidates (k.index.filter fun _ => true)) 0 (toInt64 tu)).2) :
    (k.configureBySize tu).2.err ≠ none := by
  unfold K.configureBySize K.sizeRequest
  simp only [if_neg hmin, hfill]
  by_cases ha : k.allowNew = true
  · have hc : checkDisk (toInt64 tu - (fill (candidates (k.index.filter fun _ => true)) 0 (toInt64 tu)).2) (k.freeOf k.dir0) ≠ none := by
      unfold checkDisk
      by_cases hneg : toInt64 tu - (fill (candidates (k.index.filter fun _ => true)) 0 (toInt64 tu)).2 < 0
      · simp [hneg]
      · rw [if_neg hneg, if_pos (by omega)]; simp
    rcases hd : checkDisk (toInt64 tu - (fill (candidates (k.index.filter fun _ => true)) 0 (toInt64 tu)).2) (k.freeOf k.dir0) with _ | e
    · exact absurd hd hc
    · simp [ha]
  · simp [ha]

/-- the `uint64 → int` edge: a target of 2^63 bytes or more selects nothing and is rejected -/
theorem C15_size_uint64_edge (k : K) (tu : Nat) (h1 : 2 ^ 63 ≤ tu) (h2 : tu < 2 ^ 64) :
    (k.configureBySize tu).2.err ≠ none := by
  intro h
  have := configureBySize_target_nonneg h
  unfold toInt64 at this
  rw [Nat.mod_eq_of_lt h2, if_neg (by omega)] at this
  omega

/-! ### through the API: capacities in MiB -/

/-- **`ConfigureCapacity`: total ≤ the requested MiB, short by less than the smallest plot size** — with the
multiplication by MiB exact (a capacity whose byte count overflows uint64 is rejected: second theorem). -/
theorem C15_api_size_total (k : K) (capMiB : Nat) (h : (k.apiConfigureCapacity capMiB).2.err = none) :
    let r := (k.apiConfigureCapacity capMiB).2
    total r.selected ≤ (capMiB * 2 ^ 20 : Nat) ∧ ((capMiB * 2 ^ 20 : Nat) : Int) - total r.selected < minSize := by
  unfold K.apiConfigureCapacity at h ⊢
  by_cases hov : mibOverflows capMiB = true
  · simp [hov] at h
  · by_cases h1 : mibBytes capMiB < plotSize Facts.minValidDefaultBitLength
    · simp [hov, h1] at h
    · by_cases h2 : mibBytes capMiB > k.freeOf k.dir0
      · rw [if_neg hov, if_neg h1, if_pos h2] at h; simp at h
      · simp only [hov, h1, h2, Bool.false_eq_true, if_false] at h ⊢
        have hb : mibBytes capMiB = capMiB * 2 ^ 20 := by
          unfold mibBytes mibOverflows at *
          have hf : Facts.pocMiB = 2 ^ 20 := by decide
          rw [hf] at hov ⊢
          apply Nat.mod_eq_of_lt
          simpa using hov
        have hlt : mibBytes capMiB < 2 ^ 64 := by unfold mibBytes; exact Nat.mod_lt _ (by decide)
        have := C15_size_total k (mibBytes capMiB) hlt h
        rw [hb] at this ⊢
        exact ⟨this.1, this.2.1⟩

theorem C15_api_rejects_overflow (k : K) (capMiB : Nat) (h : 2 ^ 64 ≤ capMiB * 2 ^ 20) :
    (k.apiConfigureCapacity capMiB) = (k, { err := some .apiInvalidCapacity }) := by
  unfold K.apiConfigureCapacity
  have : mibOverflows capMiB = true := by
    unfold mibOverflows
    have hf : Facts.pocMiB = 2 ^ 20 := by decide
    rw [hf]; simpa using h
  simp [this]

/-- **Below the minimum or beyond the free bytes of the first directory: rejected, keeper untouched.** -/
theorem C15_api_size_rejects (k : K) (capMiB : Nat)
    (h : capMiB * 2 ^ 20 < 100663296 ∨ k.freeOf k.dir0 < capMiB * 2 ^ 20) :
    (k.apiConfigureCapacity capMiB) = (k, { err := some .apiInvalidCapacity }) := by
  by_cases hov : 2 ^ 64 ≤ capMiB * 2 ^ 20
  · exact C15_api_rejects_overflow k capMiB hov
  · unfold K.apiConfigureCapacity
    have hf : Facts.pocMiB = 2 ^ 20 := by decide
    have h0 : mibOverflows capMiB = false := by unfold mibOverflows; rw [hf]; simp; omega
    have hb : mibBytes capMiB = capMiB * 2 ^ 20 := by
      unfold mibBytes; rw [hf]; exact Nat.mod_eq_of_lt (by omega)
    have hm : plotSize Facts.minValidDefaultBitLength = 100663296 := by decide
    simp only [h0, hb, hm, Bool.false_eq_true, if_false]
    rcases h with h | h
    · simp [h]
    · by_cases h' : capMiB * 2 ^ 20 < 100663296
      · simp [h']
      · rw [if_neg h', if_pos h]

/-! ### configuration by per-directory sizes -/

/-- **Per directory: total ≤ that directory's size, short of it by less than the smallest plot size; only spaces
of the requested directories are selected; new spaces are created only in the requested directories.**
(One size per directory: the directories of the request are distinct.  A request naming a directory twice
makes the two entries share that directory's spaces; the per-entry statement then holds for neither.) -/
theorem C15_path_per_directory (k : K) (entries : List (Nat × Int)) (hnd : (entries.map (·.1)).Nodup)
    (h : (k.configureByPath entries).2.err = none) :
    let r := (k.configureByPath entries).2
    (∀ d t, (d, t) ∈ entries → 0 ≤ t → totalIn d r.selected ≤ t ∧ t - totalIn d r.selected < minSize) ∧
    (∀ d t, (d, t) ∈ entries → t < 0 → totalIn d r.selected = 0) ∧
    (∀ w ∈ r.selected, w.dir ∈ entries.map (·.1) ∧ (w ∈ (k.reindex (entries.map (·.1))).index ∨ w ∈ r.created)) ∧
    (∀ w ∈ r.created, w.dir ∈ entries.map (·.1) ∧ w ∈ r.selected) := by
  unfold K.configureByPath at h ⊢
  by_cases hemp : entries.isEmpty = true
  · simp [hemp] at h
  · simp only [hemp] at h ⊢
    rcases hpre : (k.reindex (entries.map (·.1))).precheck entries with _ | e
    · simp only [hpre] at h ⊢
      rcases hloop : (k.reindex (entries.map (·.1))).pathLoop entries [] [] with ⟨k', (e | ⟨sel, created⟩)⟩
      · simp [hloop] at h
      · simp only [hloop] at h ⊢
        obtain ⟨⟨delta, hcr, _, hdelta⟩, hmem, hper⟩ := pathLoop_ok entries hnd _ _ _ _ _ _ hloop
        unfold K.apply at h ⊢
        by_cases hse : sel.isEmpty = true
        · simp [hse] at h
        · simp only [hse, Bool.false_eq_true, if_false]
          simp only [List.nil_append] at hcr
          subst hcr
          refine ⟨?_, ?_, ?_, ?_⟩
          · intro d t hdt ht
            obtain ⟨X, hX, hp, _⟩ := (hper d).1 t hdt
            simp only [totalIn_nil, Int.zero_add] at hX
            rw [hX]; exact hp ht
          · intro d t hdt ht
            obtain ⟨X, hX, _, hn⟩ := (hper d).1 t hdt
            simp only [totalIn_nil, Int.zero_add] at hX
            rw [hX]; exact hn ht
          · intro w hw
            rcases hmem w hw with h1 | ⟨h1, h2⟩
            · cases h1
            · exact ⟨h2, h1⟩
          · intro w hw
            exact ⟨(hdelta w hw).2, (hdelta w hw).1⟩
    · simp [hpre] at h

/-- **A rejected per-directory request creates no file** (distinct directories): every directory's disk check
is made before the first space is created, and then nothing can fail any more. -/
theorem C15_path_error_creates_nothing (k : K) (entries : List (Nat × Int)) (hnd : (entries.map (·.1)).Nodup)
    (h : (k.configureByPath entries).2.err ≠ none) :
    (k.configureByPath entries).1.files = k.files ∧ (k.configureByPath entries).1.nextOrd = k.nextOrd ∧
    (k.configureByPath entries).2.created = [] := by
  unfold K.configureByPath at h ⊢
  by_cases hemp : entries.isEmpty = true
  · simp [hemp]
  · simp only [hemp] at h ⊢
    rcases hpre : (k.reindex (entries.map (·.1))).precheck entries with _ | e
    · simp only [hpre] at h ⊢
      obtain ⟨k', sel, created, hloop⟩ := pathLoop_no_error entries hnd (k.reindex (entries.map (·.1))) [] [] hpre
      simp only [hloop] at h ⊢
      obtain ⟨⟨delta, hcr, hk', hdelta⟩, _, _⟩ := pathLoop_ok entries hnd _ _ _ _ _ _ hloop
      unfold K.apply at h ⊢
      by_cases hse : sel.isEmpty = true
      · have hsel : sel = [] := by simpa using hse
        have hd : delta = [] := by
          cases delta with
          | nil => rfl
          | cons w r => have := (hdelta w (by simp)).1; rw [hsel] at this; cases this
        subst hd hk'
        simp only [hse, if_true]
        simp only [List.nil_append] at hcr
        simp [K.addNew, reindex_files, reindex_nextOrd, hcr]
      · simp [hse] at h
    · simp [hpre, reindex_files, reindex_nextOrd]

/-- what the checks before creation reject: a directory whose indexed spaces do not bring its size within one
smallest plot while what is missing is not below that directory's free bytes -/
theorem C15_path_rejects_beyond_disk (k : K) (d : Nat) (t : Int) (rest : List (Nat × Int))
    (hfill : fillFinished (fill (candidates ((k.reindex (d :: rest.map (·.1))).index.filter fun w => w.dir == d)) 0 t).2 t = false)
    (hfree : (k.freeOf d : Int) ≤ t - (fill (candidates ((k.reindex (d :: rest.map (·.1))).index.filter fun w => w.dir == d)) 0 t).2) :
    (k.configureByPath ((d, t) :: rest)).2.err ≠ none := by
  unfold K.configureByPath
  simp only [List.isEmpty_cons, Bool.false_eq_true, if_false, List.map_cons]
  have hpre : (k.reindex (d :: rest.map (·.1))).precheck ((d, t) :: rest) ≠ none := by
    simp only [K.precheck, hfill, Bool.false_eq_true, if_false]
    by_cases ha : (k.reindex (d :: rest.map (·.1))).allowNew = true
    · simp only [ha, Bool.not_true, Bool.false_eq_true, if_false]
      have hfo : (k.reindex (d :: rest.map (·.1))).freeOf d = k.freeOf d := rfl
      rw [hfo]
      unfold checkDisk
      by_cases hneg : t - (fill (candidates ((k.reindex (d :: rest.map (·.1))).index.filter fun w => w.dir == d)) 0 t).2 < 0
      · simp [hneg]
      · rw [if_neg hneg, if_pos (by omega)]; simp
    · simp [ha]
  rcases hp : (k.reindex (d :: rest.map (·.1))).precheck ((d, t) :: rest) with _ | e
  · exact absurd hp hpre
  · simp only [hp]; simp

/-! ### configuration by bit-length counts -/

def countBl (l : List WS) (bl : Nat) : Nat := (l.filter (fun w => w.bl == bl)).length

theorem countBl_append (a b : List WS) (bl : Nat) : countBl (a ++ b) bl = countBl a bl + countBl b bl := by
  simp [countBl, List.filter_append]

theorem countBl_all {l : List WS} {bl : Nat} (h : ∀ w ∈ l, w.bl = bl) : countBl l bl = l.length := by
  unfold countBl; rw [List.filter_eq_self.2]; intro w hw; simp [h w hw]

theorem countBl_none {l : List WS} {bl b : Nat} (h : ∀ w ∈ l, w.bl = b) (hne : b ≠ bl) : countBl l bl = 0 := by
  unfold countBl; rw [List.filter_eq_nil_iff.2]; · rfl
  intro w hw; simp [h w hw, hne]

theorem countBl_flatMap (f : Nat × Nat → List WS) (hf : ∀ p, ∀ w ∈ f p, w.bl = p.1)
    (req : List (Nat × Nat)) (hnd : (req.map (·.1)).Nodup) (bl c : Nat) (hm : (bl, c) ∈ req) :
    countBl (req.flatMap f) bl = (f (bl, c)).length := by
  induction req with
  | nil => cases hm
  | cons p r ih =>
    simp only [List.map_cons, List.nodup_cons] at hnd
    simp only [List.flatMap_cons, countBl_append]
    rcases List.mem_cons.1 hm with rfl | hr
    · rw [countBl_all (hf _)]
      have : countBl (r.flatMap f) bl = 0 := by
        unfold countBl
        rw [List.filter_eq_nil_iff.2]; · rfl
        intro w hw
        obtain ⟨q, hq, hwq⟩ := List.mem_flatMap.1 hw
        have : q.1 ≠ bl := fun h => hnd.1 (List.mem_map.2 ⟨q, hq, h⟩)
        simp [hf q w hwq, this]
      omega
    · have hne : p.1 ≠ bl := fun h => hnd.1 (h ▸ List.mem_map.2 ⟨(bl, c), hr, rfl⟩)
      rw [countBl_none (hf p) hne, ih hnd.2 hr]; omega

theorem count_flatMap (g : Nat × Nat → List Nat) (hg : ∀ p, ∀ b ∈ g p, b = p.1)
    (req : List (Nat × Nat)) (hnd : (req.map (·.1)).Nodup) (bl c : Nat) (hm : (bl, c) ∈ req) :
    (req.flatMap g).count bl = (g (bl, c)).length := by
  induction req with
  | nil => cases hm
  | cons p r ih =>
    simp only [List.map_cons, List.nodup_cons] at hnd
    simp only [List.flatMap_cons, List.count_append]
    rcases List.mem_cons.1 hm with rfl | hr
    · have h1 : (g (bl, c)).count bl = (g (bl, c)).length := by
        rw [List.count_eq_length]; intro b hb; exact (hg _ b hb).symm
      have h2 : (r.flatMap g).count bl = 0 := by
        rw [List.count_eq_zero]
        intro hw
        obtain ⟨q, hq, hwq⟩ := List.mem_flatMap.1 hw
        exact hnd.1 (List.mem_map.2 ⟨q, hq, (hg q bl hwq).symm⟩)
      omega
    · have hne : p.1 ≠ bl := fun h => hnd.1 (h ▸ List.mem_map.2 ⟨(bl, c), hr, rfl⟩)
      have h1 : (g p).count bl = 0 := by
        rw [List.count_eq_zero]; intro hb; exact hne (hg p bl hb).symm
      rw [h1, ih hnd.2 hr]; omega

theorem countBl_mkNew (dir : Nat) (bls : List Nat) (o bl : Nat) : countBl (mkNew dir bls o) bl = bls.count bl := by
  induction bls generalizing o with
  | nil => simp [mkNew, countBl]
  | cons b r ih =>
    have := ih (o + 1)
    simp only [mkNew, countBl, List.filter_cons, List.count_cons] at *
    by_cases hb : b = bl
    · subst hb; simp [this]
    · have : (b == bl) = false := by simpa using hb
      simp [this, *]

theorem takeBl_bl {index : List WS} {bl c : Nat} : ∀ w ∈ takeBl index bl c, w.bl = bl := by
  intro w hw
  have := List.mem_of_mem_take hw
  simpa using (List.mem_filter.1 this).2

theorem newBls_spec (index : List WS) (req : List (Nat × Nat)) (order : List Nat) (hnd : (req.map (·.1)).Nodup) :
    (∀ bl c, (bl, c) ∈ req → (newBls index req order).count bl = c - (takeBl index bl c).length) ∧
    ∀ b ∈ newBls index req order, b ∈ req.map (·.1) := by
  have hmiss : ∀ bl c, (bl, c) ∈ req → (missingBls index req).count bl = c - (takeBl index bl c).length := by
    intro bl c hm
    unfold missingBls
    rw [count_flatMap (fun x => List.replicate (x.2 - (takeBl index x.1 x.2).length) x.1)
      (fun p b hb => List.eq_of_mem_replicate hb) req hnd bl c hm]
    simp
  unfold newBls
  split
  · rename_i hv
    simp only [Bool.and_eq_true] at hv
    refine ⟨?_, ?_⟩
    · intro bl c hm
      have := List.all_eq_true.1 hv.2 (bl, c) hm
      simp only [beq_iff_eq] at this
      rw [this, hmiss bl c hm]
    · intro b hb'
      have := List.all_eq_true.1 hv.1 b hb'
      obtain ⟨p, hp, hpb⟩ := List.any_eq_true.1 this
      exact List.mem_map.2 ⟨p, hp, by simpa using hpb⟩
  · refine ⟨hmiss, ?_⟩
    intro b hb'
    unfold missingBls at hb'
    obtain ⟨q, hq, hbq⟩ := List.mem_flatMap.1 hb'
    rw [List.eq_of_mem_replicate hbq]; exact List.mem_map.2 ⟨q, hq, rfl⟩

/-- **Configuring by bit-length counts yields exactly the requested counts**, and no space of another bit length. -/
theorem C15_counts_exact (k : K) (req : List (Nat × Nat)) (order : List Nat) (hnd : (req.map (·.1)).Nodup)
    (h : (k.configureByBitLength req order).2.err = none) :
    let r := (k.configureByBitLength req order).2
    (∀ bl c, (bl, c) ∈ req → countBl r.selected bl = c) ∧ (∀ w ∈ r.selected, w.bl ∈ req.map (·.1)) ∧
    (∀ w ∈ r.created, w.dir = k.dir0 ∧ k.nextOrd ≤ w.ord) := by
  have hselcount : ∀ bl c, (bl, c) ∈ req → countBl (selByBl k.index req) bl = (takeBl k.index bl c).length :=
    fun bl c hm => countBl_flatMap (fun x => takeBl k.index x.1 x.2) (fun p w hw => takeBl_bl w hw) req hnd bl c hm
  have hselbl : ∀ w ∈ selByBl k.index req, w.bl ∈ req.map (·.1) := by
    intro w hw
    obtain ⟨q, hq, hwq⟩ := List.mem_flatMap.1 hw
    rw [takeBl_bl w hwq]; exact List.mem_map.2 ⟨q, hq, rfl⟩
  have hlen : ∀ bl c, (takeBl k.index bl c).length ≤ c := fun bl c => by unfold takeBl; exact List.length_take_le _ _
  obtain ⟨hcnt, hblmem⟩ := newBls_spec k.index req order hnd
  unfold K.configureByBitLength at h ⊢
  by_cases hfin : blFinished k.index req = true
  · rw [if_pos hfin] at h ⊢
    unfold K.apply at h ⊢
    by_cases hse : (selByBl k.index req).isEmpty = true
    · rw [if_pos hse] at h; simp at h
    · rw [if_neg hse]
      refine ⟨?_, hselbl, by simp⟩
      intro bl c hm
      show countBl (selByBl k.index req) bl = c
      rw [hselcount bl c hm]
      have := List.all_eq_true.1 hfin (bl, c) hm
      simp only [Bool.and_eq_true, beq_iff_eq] at this
      exact this.2
  · rw [if_neg hfin] at h ⊢
    by_cases ha : (!k.allowNew) = true
    · rw [if_pos ha] at h; simp at h
    · rw [if_neg ha] at h ⊢
      rcases hc : checkDisk (blRequired k.index req) (k.freeOf k.dir0) with _ | e
      · simp only [hc] at h ⊢
        unfold K.apply at h ⊢
        by_cases hse : (selByBl k.index req ++ mkNew k.dir0 (newBls k.index req order) k.nextOrd).isEmpty = true
        · rw [if_pos hse] at h; simp at h
        · rw [if_neg hse]
          refine ⟨?_, ?_, ?_⟩
          · intro bl c hm
            show countBl (selByBl k.index req ++ mkNew k.dir0 (newBls k.index req order) k.nextOrd) bl = c
            rw [countBl_append, hselcount bl c hm, countBl_mkNew, hcnt bl c hm]
            have := hlen bl c; omega
          · intro w hw
            rcases List.mem_append.1 hw with hw | hw
            · exact hselbl w hw
            · exact hblmem _ (mem_mkNew hw).2.1
          · intro w hw
            exact ⟨(mem_mkNew hw).1, (mem_mkNew hw).2.2.1⟩
      · simp only [hc] at h; simp at h

/-- a by-count request that needs more bytes of new spaces than the first directory has free is rejected, and
a rejected by-count request creates nothing -/
theorem C15_counts_error_creates_nothing (k : K) (req : List (Nat × Nat)) (order : List Nat)
    (h : (k.configureByBitLength req order).2.err ≠ none) :
    (k.configureByBitLength req order).1.files = k.files ∧ (k.configureByBitLength req order).2.created = [] := by
  unfold K.configureByBitLength at h ⊢
  by_cases hfin : blFinished k.index req = true
  · rw [if_pos hfin]
    unfold K.apply
    split <;> simp
  · rw [if_neg hfin] at h ⊢
    by_cases ha : (!k.allowNew) = true
    · rw [if_pos ha]; simp
    · rw [if_neg ha] at h ⊢
      rcases hc : checkDisk (blRequired k.index req) (k.freeOf k.dir0) with _ | e
      · simp only [hc] at h ⊢
        unfold K.apply at h ⊢
        by_cases hse : (selByBl k.index req ++ mkNew k.dir0 (newBls k.index req order) k.nextOrd).isEmpty = true
        · rw [if_pos hse]
          have : mkNew k.dir0 (newBls k.index req order) k.nextOrd = [] := by
            have : selByBl k.index req ++ mkNew k.dir0 (newBls k.index req order) k.nextOrd = [] := by simpa using hse
            exact (List.append_eq_nil_iff.1 this).2
          simp [this, K.addNew]
        · rw [if_neg hse] at h; simp at h
      · simp only [hc]; simp

/-! ### found again after a restart -/

theorem reindex_fold_mem (add : List WS) (idx : List WS) :
    (∀ w ∈ idx, w ∈ add.foldl (fun idx w => if idx.any (fun x => x.ord == w.ord && x.bl == w.bl) then idx else idx ++ [w]) idx) ∧
    (∀ w ∈ add, ∃ w' ∈ add.foldl (fun idx w => if idx.any (fun x => x.ord == w.ord && x.bl == w.bl) then idx else idx ++ [w]) idx,
        w'.ord = w.ord ∧ w'.bl = w.bl) := by
  induction add generalizing idx with
  | nil => exact ⟨fun w hw => hw, by simp⟩
  | cons a r ih =>
    simp only [List.foldl_cons]
    by_cases hany : (idx.any fun x => x.ord == a.ord && x.bl == a.bl) = true
    · simp only [hany, if_true]
      refine ⟨(ih idx).1, ?_⟩
      intro w hw
      rcases List.mem_cons.1 hw with rfl | hr
      · obtain ⟨x, hx, hxe⟩ := List.any_eq_true.1 hany
        simp only [Bool.and_eq_true, beq_iff_eq] at hxe
        exact ⟨x, (ih idx).1 x hx, hxe⟩
      · exact (ih idx).2 w hr
    · simp only [hany]
      refine ⟨fun w hw => (ih _).1 w (by simp [hw]), ?_⟩
      intro w hw
      rcases List.mem_cons.1 hw with rfl | hr
      · exact ⟨w, (ih _).1 w (by simp), rfl, rfl⟩
      · exact (ih _).2 w hr

/-- a keeper started on directories `dirs` indexes every space file of those directories (under its ordinal and
bit length) -/
theorem restart_indexes (k : K) (dirs : List Nat) {w : WS} (hw : w ∈ k.files) (hd : w.dir ∈ dirs) :
    ∃ w' ∈ (k.restart dirs).index, w'.ord = w.ord ∧ w'.bl = w.bl := by
  unfold K.restart K.reindex
  simp only
  apply (reindex_fold_mem _ _).2
  exact List.mem_flatMap.2 ⟨w.dir, hd, List.mem_filter.2 ⟨hw, by simp⟩⟩

/-- **The selection is found again after a restart**: every space a successful size configuration selected —
reused or newly created — is a plot file of the keeper's directories afterwards, hence indexed again by a keeper
started on those directories with the same wallet.  (`hinv`: the keeper's index consists of plot files.) -/
theorem C15_restart_finds_selection (k : K) (tu : Nat) (dirs : List Nat)
    (hinv : ∀ w ∈ k.index, w ∈ k.files) (h : (k.configureBySize tu).2.err = none) :
    ∀ w ∈ (k.configureBySize tu).2.selected, w.dir ∈ dirs →
      ∃ w' ∈ ((k.configureBySize tu).1.restart dirs).index, w'.ord = w.ord ∧ w'.bl = w.bl := by
  obtain ⟨k1, sel, new, hreq, hsel, hnew, hne, _, hk'⟩ := configureBySize_ok h
  have hnn := configureBySize_target_nonneg h
  obtain ⟨_, _, h3, _, h5, _, _⟩ := sizeRequest_ok hreq hnn
  intro w hw hd
  have hfiles : w ∈ (k.configureBySize tu).1.files := by
    rw [hk', h5]
    simp only [K.addNew, List.mem_append]
    rw [hsel] at hw
    rcases List.mem_append.1 hw with hw | hw
    · exact Or.inl (hinv w (h3 w hw).1)
    · exact Or.inr hw
  exact restart_indexes _ dirs hfiles hd

theorem configureBySize_eq {k k1 : K} {tu : Nat} {sel new : List WS} (hmin : ¬ tu < minUsableSize)
    (hreq : k.sizeRequest (fun _ => true) k.dir0 (toInt64 tu) = (k1, .ok (sel, new))) :
    k.configureBySize tu = k1.apply (sel ++ new) new := by
  unfold K.configureBySize
  rw [if_neg hmin, hreq]

/-- **The same request finds the same selection again and creates nothing** — on the keeper as the first request
left it, and hence (with `restart_indexes`: a restarted keeper indexes every space file of its directories) after a
restart: the fill pass over the index extended by the spaces the first request created takes exactly what the first
request selected and created, which already meets the target. -/
theorem C15_reconfigure_stable (k : K) (tu : Nat) (h : (k.configureBySize tu).2.err = none) :
    ((k.configureBySize tu).1.configureBySize tu).2.err = none ∧
    ((k.configureBySize tu).1.configureBySize tu).2.created = [] ∧
    ∀ w, w ∈ ((k.configureBySize tu).1.configureBySize tu).2.selected ↔ w ∈ (k.configureBySize tu).2.selected := by
  obtain ⟨k1, sel, new, hreq, hsel, hnew, hne, hmin, hk'⟩ := configureBySize_ok h
  have hnn := configureBySize_target_nonneg h
  obtain ⟨h1, h2, h3, h4, h5, _, _⟩ := sizeRequest_ok hreq hnn
  -- the first request's fill pass
  have hfirst : sel = (fill (candidates k.index) 0 (toInt64 tu)).1 ∨ True := Or.inr trivial
  have hfilt : ∀ l : List WS, l.filter (fun _ => true) = l := fun l => List.filter_eq_self.2 (fun _ _ => rfl)
  -- what `sel` is: the fill pass over the old index
  have hselfill : sel = (fill (candidates k.index) 0 (toInt64 tu)).1 := by
    have hr := hreq
    unfold K.sizeRequest at hr
    simp only [hfilt] at hr
    split at hr
    · simp only [Prod.mk.injEq, Except.ok.injEq] at hr; exact hr.2.1.symm
    · split at hr
      · simp at hr
      · split at hr
        · simp at hr
        · simp only [Prod.mk.injEq, Except.ok.injEq] at hr; exact hr.2.1.symm
  have hcur := fill_cur (candidates k.index) 0 (toInt64 tu)
  have hnewbl : ∀ w ∈ new, w.bl ∈ blDesc := fun w hw => (h4 w hw).2.2.1
  have htot := total_candidates new hnewbl
  have hint := candidates_append_interleave k.index new
  have hfi := fill_interleave hint 0 0 (toInt64 tu) (Int.le_refl 0) (by rw [htot, hcur, ← hselfill]; omega)
  simp only [Int.add_zero] at hfi
  -- the keeper after the first request
  have hidx : (k.configureBySize tu).1.index = k.index ++ new := by rw [hk', h5]; rfl
  have hdir : (k.configureBySize tu).1.dir0 = k.dir0 := by rw [hk', h5]; rfl
  -- the second request's size request is met by the indexed spaces alone
  have hfin : fillFinished (fill (candidates (k.index ++ new)) 0 (toInt64 tu)).2 (toInt64 tu) = true := by
    unfold fillFinished
    rw [hfi.1, htot, hcur, ← hselfill]
    have := minSize_pos
    simp only [Bool.or_eq_true, beq_iff_eq, decide_eq_true_eq]
    right; omega
  have hreq2 : (k.configureBySize tu).1.sizeRequest (fun _ => true) (k.configureBySize tu).1.dir0 (toInt64 tu) =
      ((k.configureBySize tu).1, .ok ((fill (candidates (k.index ++ new)) 0 (toInt64 tu)).1, [])) := by
    unfold K.sizeRequest
    simp only [hfilt, hidx, hfin, if_true]
  have hmem : ∀ z, z ∈ (fill (candidates (k.index ++ new)) 0 (toInt64 tu)).1 ↔ z ∈ sel ++ new := by
    intro z
    rw [hfi.2 z, ← hselfill, List.mem_append]
    constructor
    · rintro (hz | hz)
      · exact Or.inl hz
      · exact Or.inr (mem_candidates.1 hz).1
    · rintro (hz | hz)
      · exact Or.inl hz
      · exact Or.inr (mem_candidates.2 ⟨hz, hnewbl z hz⟩)
  have hne2 : ¬ ((fill (candidates (k.index ++ new)) 0 (toInt64 tu)).1 ++ ([] : List WS)).isEmpty = true := by
    intro hemp
    have hnil : (fill (candidates (k.index ++ new)) 0 (toInt64 tu)).1 = [] := by simpa using hemp
    cases hsn : sel ++ new with
    | nil => exact hne hsn
    | cons z r =>
      have := (hmem z).2 (by rw [hsn]; simp)
      rw [hnil] at this; cases this
  have hres : (k.configureBySize tu).1.configureBySize tu =
      ((k.configureBySize tu).1.apply ((fill (candidates (k.index ++ new)) 0 (toInt64 tu)).1 ++ []) []) :=
    configureBySize_eq hmin hreq2
  rw [hres]
  unfold K.apply
  rw [if_neg hne2]
  refine ⟨rfl, rfl, ?_⟩
  intro w
  simp only [List.append_nil]
  rw [hmem w, hsel]

/-! ### the premises are satisfiable (concrete scenarios, evaluated by the kernel) -/

/-- one indexed 26-bit and one 24-bit space, target = their sizes + 5 bytes: both reused, nothing created -/
example :
    let k : K := { index := [⟨0, 26, 0, true⟩, ⟨1, 24, 0, false⟩], dbDirs := [0], nextOrd := 2,
                   files := [⟨0, 26, 0, true⟩, ⟨1, 24, 0, false⟩], free := [(0, 2 ^ 40)] }
    (k.configureBySize 536870917).2.err = none ∧
    (k.configureBySize 536870917).2.selected = [⟨0, 26, 0, true⟩, ⟨1, 24, 0, false⟩] ∧
    (k.configureBySize 536870917).2.created = [] := by decide

/- (a test, evaluated by the interpreter: the creation loop is defined by well-founded recursion, which the
kernel's `decide` does not unfold) one indexed 26-bit space, target = one 26 + one 24 + 5 bytes: the indexed space
is reused and one 24-bit space is created -/
#guard
    let k : K := { index := [⟨0, 26, 0, true⟩], dbDirs := [0], nextOrd := 1, files := [⟨0, 26, 0, true⟩], free := [(0, 2 ^ 40)] }
    (k.configureBySize 536870917).2.err == none &&
    (k.configureBySize 536870917).2.selected == [⟨0, 26, 0, true⟩, ⟨1, 24, 0, false⟩] &&
    (k.configureBySize 536870917).2.created == [⟨1, 24, 0, false⟩]

/-- two directories; the second has too little free space: rejected, nothing created -/
example :
    let k : K := { dbDirs := [0], free := [(0, 2 ^ 40), (1, 1000)] }
    (k.configureByPath [(0, 100663296), (1, 100663296)]).2.err = some .diskNotEnough ∧
    (k.configureByPath [(0, 100663296), (1, 100663296)]).1.files = [] := by decide

example :
    let k : K := { dbDirs := [0], free := [(0, 2 ^ 40)] }
    (k.configureByBitLength [(24, 2), (26, 1)] [26, 24, 24]).2.err = none ∧
    ((k.configureByBitLength [(24, 2), (26, 1)] [26, 24, 24]).2.selected.map (·.bl)) = [26, 24, 24] := by decide

end MassVerif.Config
