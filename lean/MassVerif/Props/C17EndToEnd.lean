/-
C16 + C17 — a cluster message from encoder to decoder over a connection: the codec (`Model/Codec`), the framing of
`connection.Conn` (`Model/Stream`: 4-byte length prefix) and ANY chunking of the byte stream by the transport,
composed.  Property theorem only; helper facts are `C16_frame_roundtrip` and `C17_stream_delivery`.
-/
import MassVerif.Props.C16
import MassVerif.Props.C17Stream

namespace MassVerif.EndToEnd
open MassVerif.Codec MassVerif.Stream

/-- what the receiving side does with the events of the receive loop: every frame goes through `DecodeMessage` -/
def decodeEvents (L : Lib) (J : Json) : List Ev → List Result
  | [] => []
  | .frame b :: r => decodeFrame L J b :: decodeEvents L J r
  | _ :: r => decodeEvents L J r

/-- **Sent messages arrive, equal and in order, whatever the transport does to the byte stream.**  The sender encodes
    well-formed messages `ms` (each frame non-empty by construction and within the receive limit), writes each with its
    length prefix; the transport hands the concatenation over in arbitrary pieces; the receiver's loop reassembles and
    `DecodeMessage` yields exactly `ms` (in canonical form: the fields that by design do not travel), in order, and the
    connection stays open with nothing buffered. -/
theorem C17_messages_arrive (L : Lib) (J : Json) (hu : UuidLaw L) (hj : JsonLaw J) (max : Nat) (ms : List Msg)
    (hwf : ∀ m ∈ ms, m.WF L)
    (hfit : ∀ m ∈ ms, (encodeFrame L J m).length ≤ max ∧ (encodeFrame L J m).length < 4294967296)
    (chunks : List Stream.Bytes) (hc : chunks.flatten = ms.flatMap (fun m => unit (encodeFrame L J m))) :
    (feedAll max {} chunks).1 = { buf := [], stopped := false } ∧
    decodeEvents L J (feedAll max {} chunks).2 = ms.map (fun m => Result.ok m.canon) := by
  have hs : ∀ u ∈ ms.map (fun m => some (encodeFrame L J m)), Sendable max u := by
    intro u hu'
    simp only [List.mem_map] at hu'
    obtain ⟨m, hm, rfl⟩ := hu'
    refine ⟨?_, (hfit m hm).1, (hfit m hm).2⟩
    simp [encodeFrame]
  have hflat : ∀ l : List Msg, (l.map (fun m => some (encodeFrame L J m))).flatMap encU = l.flatMap (fun m => unit (encodeFrame L J m)) := by
    intro l
    induction l with
    | nil => rfl
    | cons m r ih => simp only [List.map_cons, List.flatMap_cons, encU, ih]
  have hd := C17_stream_delivery max _ hs chunks (by rw [hflat ms]; exact hc)
  rw [hd]
  refine ⟨rfl, ?_⟩
  simp only
  clear hd hflat hs hc hfit
  induction ms with
  | nil => rfl
  | cons m r ih =>
    simp only [List.map_cons, evOf, decodeEvents]
    rw [C16_frame_roundtrip L J hu hj m (hwf m List.mem_cons_self), ih (fun x hx => hwf x (List.mem_cons_of_mem _ hx))]

end MassVerif.EndToEnd
