/-
C04 — no secret is stored, exported or logged in the clear.  Property theorems only.
Symbolic (Dolev-Yao) statement: from everything the wallet emits an observer can
derive no secret; with the private passphrase the master HD key is derivable.
-/
import MassVerif.Model.WalletTerms

namespace MassVerif.WalletTerms

/-- everything the wallet ever emits: the values under every bucket key name
    (created or imported keystore), every field of an exported file, log text -/
def Emitted (t : Term) : Prop :=
  (∃ imp k, t = classOf imp k) ∨ (∃ f, t = fileClass f) ∨ t = .text

theorem emitted_emittable {t : Term} (h : Emitted t) : Emittable t := by
  rcases h with ⟨imp, k, rfl⟩ | ⟨f, rfl⟩ | rfl
  · cases k <;> cases imp <;> simp [classOf, Emittable]
  · cases f <;> simp [fileClass, Emittable]
  · trivial

/-- the attacker closure of emittable terms stays emittable: a ciphertext opens
    only with its key, a key derives only from its passphrase, and neither keys nor
    passphrases are emittable -/
theorem derivable_emittable (known : Term → Prop) (hk : ∀ t, known t → Emittable t) :
    ∀ t, Derivable known t → Emittable t := by
  intro t h
  induction h with
  | obs h => exact hk _ h
  | fst _ ih => exact ih.1
  | snd _ ih => exact ih.2
  | dec _ _ _ ihk => exact absurd ihk (by simp [Emittable])
  | kdf _ _ _ ihp _ => exact absurd ihp (by simp [Emittable])
  | child _ ih => exact absurd ih (by simp [Emittable])
  | neuter _ ih => exact absurd ih (by simp [Emittable])

theorem secret_not_emittable {t : Term} (h : Secret t) : ¬ Emittable t := by
  cases t <;> simp [Secret, Emittable] at h ⊢

/-- **Secrecy.**  From the store, every exported file and the log, no seed,
    extended or child private key, key-encryption key or passphrase is derivable. -/
theorem C04_secrecy (t : Term) (hs : Secret t) : ¬ Derivable Emitted t :=
  fun h => secret_not_emittable hs (derivable_emittable Emitted (fun _ => emitted_emittable) t h)

/-- the same for any subset of observations (a single file, a single export, the log alone) -/
theorem C04_secrecy_subset (known : Term → Prop) (hsub : ∀ t, known t → Emitted t) (t : Term) (hs : Secret t) :
    ¬ Derivable known t :=
  fun h => secret_not_emittable hs (derivable_emittable known (fun u hu => emitted_emittable (hsub u hu)) t h)

/-- **Recoverable only with the private passphrase**: adding the private
    passphrase to an exported file makes the master HD private key — and hence
    every child private key — derivable. -/
theorem C04_recoverable (path : List Nat) :
    Derivable (fun t => (∃ f, t = fileClass f) ∨ t = .pass true) (.xprv path) := by
  have obsF : ∀ f, Derivable (fun t => (∃ f, t = fileClass f) ∨ t = .pass true) (fileClass f) :=
    fun f => .obs (Or.inl ⟨f, rfl⟩)
  have hmaster : Derivable _ (.key .masterPriv) := .kdf (p := true) rfl (.obs (Or.inr rfl)) (obsF .privParams)
  have hcrypto : Derivable _ (.key .cryptoPriv) := .dec (obsF .cryptoKeyPrivEnc) hmaster
  have hroot : Derivable _ (.xprv []) := .dec (obsF .masterHDPrivKeyEnc) hcrypto
  have gen : ∀ (path pre : List Nat), Derivable (fun t => (∃ f, t = fileClass f) ∨ t = .pass true) (.xprv pre) →
      Derivable (fun t => (∃ f, t = fileClass f) ∨ t = .pass true) (.xprv (pre ++ path)) := by
    intro path
    induction path with
    | nil => intro pre h; simpa using h
    | cons i r ih =>
      intro pre h
      have := ih (pre ++ [i]) (.child h)
      simpa using this
  simpa using gen path [] hroot

/-- every class in the table is a public atom or a ciphertext (the table is
    what the harness checks the real store against, value by value) -/
theorem C04_table_public (imp : Bool) (k : KeyName) : Emittable (classOf imp k) :=
  emitted_emittable (Or.inl ⟨imp, k, rfl⟩)

theorem C04_file_public (f : FileField) : Emittable (fileClass f) :=
  emitted_emittable (Or.inr (Or.inl ⟨f, rfl⟩))

/-- non-vacuity: the private hierarchy really is in the store, as ciphertext -/
example : classOf false .mhdpriv = .enc .cryptoPriv (.xprv []) ∧ Secret (.xprv []) := ⟨rfl, trivial⟩

end MassVerif.WalletTerms
