/-
C16 — the cluster wire codec is total and lossless.  Property theorems only.
-/
import MassVerif.Proofs.Codec

namespace MassVerif.Codec

/-! ### the laws assumed of the library parameters -/

/-- `uuid.Parse (u.String()) = u` for every 16-byte value -/
def UuidLaw (L : Lib) : Prop := ∀ u : Bytes, u.length = 16 → IsBytes u → L.uuidParse (L.uuidText u) = some u

/-- `json.Unmarshal` into the struct type that was marshalled returns that struct -/
def JsonLaw (J : Json) : Prop := ∀ w : Wire, J.unmarshal w.typ (J.marshal w) = some w

/-! ### well-formed messages (what collectors, miners and relays construct) -/

def IsHash (b : Bytes) : Prop := b.length = 32 ∧ IsBytes b
def IsUuid (b : Bytes) : Prop := b.length = 16 ∧ IsBytes b
def IsG1 (L : Lib) (b : Bytes) : Prop := IsBytes b ∧ L.g1Valid b = true
def IsG2 (L : Lib) (b : Bytes) : Prop := IsBytes b ∧ L.g2Valid b = true

def Quality.WF (L : Lib) (q : Quality) : Prop :=
  IsG1 L q.publicKey ∧ IsG1 L q.poolPublicKey ∧ IsBytes q.quality ∧ IsHash q.plotId

def Proof.WF (L : Lib) (p : Proof) : Prop :=
  IsHash p.challenge ∧ IsG1 L p.poolPublicKey ∧ IsG1 L p.plotPublicKey ∧ IsBytes p.proof

def Msg.WF (L : Lib) : Msg → Prop
  | .requestQualities t c pt _ _ => IsUuid t ∧ IsHash c ∧ 0 ≤ pt
  | .reportQualities t qs => IsUuid t ∧ ∀ q ∈ qs, q.WF L
  | .requestProof t _ _ c _ => IsUuid t ∧ IsHash c
  | .reportProof t p => IsUuid t ∧ p.WF L
  | .requestSignature t _ _ h => IsUuid t ∧ IsHash h
  | .reportSignature t _ h s => IsUuid t ∧ IsHash h ∧ IsG2 L s

/-- what the decoder by design normalises: fields that do not travel -/
def Quality.canon (q : Quality) : Quality := { q with hasError := false }
def Proof.canon (p : Proof) : Proof :=
  { p with puzzleHash := zeroHash, publicKey := p.plotPublicKey, ordinal := unknownOrdinal, hasError := false }
def Msg.canon : Msg → Msg
  | .reportQualities t qs => .reportQualities t (qs.map Quality.canon)
  | .reportProof t p => .reportProof t p.canon
  | m => m

/-! ### facts -/
theorem C16_facts_types :
    Facts.msgTypeRequestQualities = 1 ∧ Facts.msgTypeReportQualities = 2 ∧ Facts.msgTypeRequestProof = 3 ∧
    Facts.msgTypeReportProof = 4 ∧ Facts.msgTypeRequestSignature = 5 ∧ Facts.msgTypeReportSignature = 6 ∧
    Facts.msgTypeByteSize = 2 := by decide

theorem C16_facts_bound_checked_before_alloc : Facts.recvBoundCheckedBeforeAlloc = true := by decide

/-! ### lossless -/

private theorem parseG1_hexEnc {L : Lib} {b : Bytes} (h : IsG1 L b) : parseG1 L (hexEnc b) = some b := by
  simp [parseG1, hexDec_hexEnc b h.1, h.2]

private theorem parseG2_hexEnc {L : Lib} {b : Bytes} (h : IsG2 L b) : parseG2 L (hexEnc b) = some b := by
  simp [parseG2, hexDec_hexEnc b h.1, h.2]

theorem C16_quality_roundtrip (L : Lib) (q : Quality) (h : q.WF L) :
    qualityFromWire L (some q.toWire) = some q.canon := by
  obtain ⟨h1, h2, h3, h4⟩ := h
  simp only [qualityFromWire, Quality.toWire, parseG1_hexEnc h1, parseG1_hexEnc h2,
    hexDec_hexEnc _ h3, hashParse_hexEnc _ h4.2 h4.1, Quality.canon]

theorem C16_proof_roundtrip (L : Lib) (p : Proof) (h : p.WF L) :
    proofFromWire L (some p.toWire) = some p.canon := by
  obtain ⟨h1, h2, h3, h4⟩ := h
  simp only [proofFromWire, Proof.toWire, parseG1_hexEnc h2, parseG1_hexEnc h3,
    hexDec_hexEnc _ h4, hashParse_hexEnc _ h1.2 h1.1, Proof.canon]

private theorem qualities_roundtrip (L : Lib) (qs : List Quality) (h : ∀ q ∈ qs, q.WF L) :
    qualitiesFromWire L (qs.map (fun q => some q.toWire)) = some (qs.map Quality.canon) := by
  induction qs with
  | nil => rfl
  | cons q qs ih =>
    simp only [List.map_cons, qualitiesFromWire]
    rw [C16_quality_roundtrip L q (h q (by simp)), ih (fun x hx => h x (List.mem_cons_of_mem _ hx))]

/-- **Round trip.**  Every well-formed message of the six types decodes, after
    encoding, to the same message (up to the fields that by design do not travel). -/
theorem C16_roundtrip (L : Lib) (hu : UuidLaw L) (m : Msg) (h : m.WF L) :
    fromWire L (toWire L m) = .ok m.canon := by
  cases m with
  | requestQualities t c pt ps ht =>
    obtain ⟨h1, h2, h3⟩ := h
    simp only [toWire, fromWire, hu t h1.1 h1.2, hashParse_hexEnc _ h2.2 h2.1,
      hexDec_hexEnc _ (natToBytes_isBytes _), bytesToNat_natToBytes, Msg.canon]
    congr 2
    omega
  | reportQualities t qs =>
    obtain ⟨h1, h2⟩ := h
    simp only [toWire, fromWire, hu t h1.1 h1.2, qualities_roundtrip L qs h2, Msg.canon]
  | requestProof t ht s c i =>
    obtain ⟨h1, h2⟩ := h
    simp only [toWire, fromWire, hu t h1.1 h1.2, hashParse_hexEnc _ h2.2 h2.1, Msg.canon]
  | reportProof t p =>
    obtain ⟨h1, h2⟩ := h
    simp only [toWire, fromWire, hu t h1.1 h1.2, C16_proof_roundtrip L p h2, Msg.canon]
  | requestSignature t ht s hs =>
    obtain ⟨h1, h2⟩ := h
    simp only [toWire, fromWire, hu t h1.1 h1.2, hashParse_hexEnc _ h2.2 h2.1, Msg.canon]
  | reportSignature t s hs sig =>
    obtain ⟨h1, h2, h3⟩ := h
    simp only [toWire, fromWire, hu t h1.1 h1.2, hashParse_hexEnc _ h2.2 h2.1, parseG2_hexEnc h3, Msg.canon]

/-- the normalisation changes nothing that is transmitted (unconditional) -/
theorem C16_wire_equal (L : Lib) (m : Msg) : toWire L m.canon = toWire L m := by
  cases m with
  | reportQualities t qs =>
    simp only [Msg.canon, toWire, List.map_map]
    congr 1
  | reportProof t p => rfl
  | requestQualities => rfl
  | requestProof => rfl
  | requestSignature => rfl
  | reportSignature => rfl

theorem C16_canon_idem (m : Msg) : m.canon.canon = m.canon := by
  cases m with
  | reportQualities t qs => simp [Msg.canon, Quality.canon, Function.comp_def]
  | reportProof t p => rfl
  | requestQualities => rfl
  | requestProof => rfl
  | requestSignature => rfl
  | reportSignature => rfl

/-! ### total -/

/-- **No panic.**  Whatever `json.Unmarshal` hands over — including an absent
    `proof` object and `null` list elements — the decoder returns a message or
    an error. -/
theorem C16_total (L : Lib) (w : Wire) : fromWire L w ≠ .panic := by
  cases w <;> simp only [fromWire] <;> (repeat' split) <;> simp

theorem C16_frame_total (L : Lib) (J : Json) (data : Bytes) : decodeFrame L J data ≠ .panic := by
  unfold decodeFrame
  split
  · simp only
    split
    · split
      · exact C16_total L _
      · simp
    · simp
  · simp

/-- the decoder terminates: `qualitiesFromWire` is structural in the list; its
    output is never longer than its input (no amplification) -/
theorem C16_qualities_length (L : Lib) (ws : List (Option WQuality)) (qs : List Quality)
    (h : qualitiesFromWire L ws = some qs) : qs.length = ws.length := by
  induction ws generalizing qs with
  | nil => simp [qualitiesFromWire] at h; subst h; rfl
  | cons w ws ih =>
    simp only [qualitiesFromWire] at h
    split at h
    · cases h
    · split at h
      · cases h
      · rename_i qs' hq
        cases h
        simp [ih qs' hq]

/-! ### type prefix and frames -/

theorem C16_wire_typ (L : Lib) (m : Msg) : (toWire L m).typ = m.typ := by cases m <;> rfl

theorem C16_typ_range (m : Msg) : 1 ≤ m.typ ∧ m.typ ≤ 6 := by cases m <;> simp [Msg.typ]

/-- **Frames.**  A frame produced by `EncodeMessage` is dispatched by
    `DecodeMessage` to the decoder of the type it was encoded as, and decodes to
    the same message. -/
theorem C16_frame_roundtrip (L : Lib) (J : Json) (hu : UuidLaw L) (hj : JsonLaw J) (m : Msg)
    (h : m.WF L) : decodeFrame L J (encodeFrame L J m) = .ok m.canon := by
  obtain ⟨r1, r2⟩ := C16_typ_range m
  unfold decodeFrame encodeFrame
  simp only [List.cons_append, List.nil_append]
  have ht : 256 * (m.typ / 256 % 256) + m.typ % 256 = m.typ := by omega
  rw [ht]
  simp only [r1, r2, and_self, if_true]
  have := hj (toWire L m)
  rw [C16_wire_typ] at this
  rw [this]
  exact C16_roundtrip L hu m h

theorem C16_short_frame_rejected (L : Lib) (J : Json) (data : Bytes) (h : data.length < 2) :
    decodeFrame L J data = .error := by
  match data, h with
  | [], _ => rfl
  | [_], _ => rfl

theorem C16_unknown_type_rejected (L : Lib) (J : Json) (b0 b1 : Nat) (body : Bytes)
    (h : ¬ (1 ≤ 256 * b0 + b1 ∧ 256 * b0 + b1 ≤ 6)) : decodeFrame L J (b0 :: b1 :: body) = .error := by
  simp [decodeFrame, h]

/-- **Bounded memory.**  The receive loop allocates only for frames whose
    length prefix is within the configured bound; larger prefixes close the
    connection without allocating. -/
theorem C16_frame_bound (maxRecv size : Nat) :
    (∀ n, frameDecision maxRecv size = .alloc n → n = size ∧ n ≤ maxRecv) ∧
    (size > maxRecv → frameDecision maxRecv size = .close) := by
  unfold frameDecision
  constructor
  · intro n h
    split at h
    · cases h
    · split at h
      · cases h
      · cases h; exact ⟨rfl, by omega⟩
  · intro h
    have : size ≠ 0 := by omega
    simp [this, h]

/-! ### non-vacuity -/
private def L0 : Lib :=
  { uuidText := hexEnc, uuidParse := hexDec, g1Valid := fun b => b.length == 2,
    g2Valid := fun b => b.length == 3 }
private def u0 : Bytes := List.replicate 16 7
private def h0 : Bytes := List.replicate 32 255
private def p0 : Proof :=
  { spaceId := [], challenge := h0, poolPublicKey := [1, 2], plotPublicKey := [3, 4]
    kSize := 32, proof := [9], puzzleHash := h0, publicKey := [5, 6], ordinal := 4 }
example : (Msg.reportProof u0 p0).WF L0 := by
  refine ⟨⟨by decide, by decide⟩, ⟨by decide, by decide⟩, ⟨by decide, by decide⟩, ⟨by decide, by decide⟩, by decide⟩
example : fromWire L0 (.reportProof (hexEnc u0) none) = .error := by decide
example : fromWire L0 (.reportQualities (hexEnc u0) [none]) = .error := by decide

end MassVerif.Codec
