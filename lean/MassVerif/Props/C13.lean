/-
C13 — the space keeper never deadlocks or panics.
Property theorems only.  What the model can carry: the keeper's lock/channel/queue protocol as a
transition system in which API calls are atomic and the plotter moves in micro-steps.  What it cannot:
Go-level data races and the runtime's scheduling; those are the harness's watchdogs (see DESIGN.md).
-/
import MassVerif.Proofs.Keeper

namespace MassVerif.Keeper

/-- **No panic.**  The three places where the code would panic — `PopItem()` on an empty heap, a nil
    `PoppedItem()` dereferenced by plot/mine/stop on a plotting space, a nil popped item in step 1 — are
    `panicked := true` in the model; no schedule reaches them. -/
theorem C13_no_panic {n : Nat} {k : K} (ls : List Label) (hr : run (initK n) ls = some k) :
    k.panicked = false := (reachable_inv ls hr).i0.np

/-- **Every request returns**, in every reachable configuration, whatever the plotter is doing: an API
    call is never disabled (it never waits on the channel: the send is non-blocking). -/
theorem C13_request_returns {n : Nat} {k : K} (ls : List Label) (hr : run (initK n) ls = some k)
    (a : Act) (sid : Nat) : (micro k (.api a sid)).isSome = true := by
  simp [micro, C13_no_panic ls hr]

/-- **However many requests are outstanding**: the channel never holds more than its capacity … -/
theorem C13_channel_bounded {n : Nat} {k : K} (ls : List Label) (hr : run (initK n) ls = some k) :
    k.chan.length ≤ Facts.plotterMaxChanSize := (reachable_inv ls hr).i0.cap

/-- … and a request that finds it full is refused (`ErrPlotterQueueIsFull`) and changes nothing. -/
theorem C13_full_channel_refuses (k : K) (sid : Nat) (w : WS) (hw : k.ws sid = some w)
    (hu : w.inAll = true ∧ w.inUse = true) (hreg : inState w .registered = true)
    (hfull : k.chan.length = Facts.plotterMaxChanSize) (a : Act) (ha : a = .plot ∨ a = .mine) :
    (act k a sid).2 = .error .queueFull ∧ (act k a sid).1.chan = k.chan ∧ (act k a sid).1.ws = k.ws := by
  rcases ha with rfl | rfl <;> simp [act, find, hw, hu.1, hu.2, hreg, send, chanCap, hfull]

/-- the code facts the model's non-blocking `send` stands on (regenerated from /repo on every run): every
    send on the plotter channel, in the v1 and the v2 keeper, is a `select` case next to a `default`; the
    channel capacity is the same in both -/
theorem C13_sends_never_block_fact :
    Facts.keeperSendsNonBlocking = true ∧ Facts.keeperSendsNonBlockingV2 = true ∧
    Facts.plotterMaxChanSizeV2 = Facts.plotterMaxChanSize ∧ 0 < Facts.plotterMaxChanSize := by decide

/-- the model makes every request atomic under `stateLock`; that stands on the lock never being taken again
    by a method called while it is held (sync.RWMutex is not re-entrant: a nested `RLock` deadlocks as soon as
    a writer waits in between).  Regenerated fact: no keeper method that holds `stateLock` to its end calls
    another keeper method that takes it — in the v1 and the v2 keeper. -/
theorem C13_state_lock_not_reentered_fact :
    Facts.keeperLockReentrant = [] ∧ Facts.keeperLockReentrantV2 = [] := by decide

/-- the v2 keeper (`engine.v2/spacekeeper/skchia`) runs the same text as the v1 keeper in every function
    the model covers (request methods, queue, plotter loop, OnStop), so the theorems speak for both -/
theorem C13_v2_same_code_fact : Facts.keeperV2SameAsV1 = true := by decide

/-- **The plotter is never blocked by a request**: whenever it has a next step of its own, that step is
    enabled.  It waits only for the environment: for a plot to end, for a request to arrive, or for `Start`. -/
theorem C13_plotter_never_blocked {n : Nat} {k : K} (ls : List Label) (hr : run (initK n) ls = some k)
    (l : Label) (hl : nextPlotter k = some l) : (micro k l).isSome = true := by
  have hi := reachable_inv ls hr
  have hnp := hi.i0.np
  unfold nextPlotter at hl
  cases hpc : k.pc with
  | exited => simp [hpc] at hl
  | plotting s => simp [hpc] at hl
  | willRecv =>
    simp only [hpc] at hl
    split at hl
    · rename_i hq; cases hl; simp [micro, hnp, hpc, hq]
    · rename_i hq
      split at hl
      · cases hl
      · rename_i hc; cases hl; simp [micro, hnp, hpc, hq, hc]
  | willPop =>
    simp only [hpc] at hl
    split at hl
    · rename_i r rest hq; cases hl; simp [micro, hnp, hpc, hq]
    · rename_i hq; cases hl; simp [micro, hnp, hpc, hq]
  | popped =>
    simp only [hpc] at hl; cases hl
    have := hi.pl.pop hpc
    cases hp : k.popped with
    | none => simp [hp] at this
    | some r =>
      simp only [micro, hnp, hpc, hp, find]
      cases hw : k.ws r.sid with
      | none => simp
      | some w => simp only [beq_self_eq_true, if_true, Bool.false_eq_true, if_false]; split <;> (try split) <;> (try split) <;> simp
  | finished s => simp only [hpc] at hl; cases hl; simp [micro, hnp, hpc]

theorem C13_plotter_waits_only_for_environment (k : K) (h : nextPlotter k = none) :
    k.pc = .exited ∨ (∃ s, k.pc = .plotting s) ∨ (k.pc = .willRecv ∧ k.quitting = false ∧ k.chan = []) := by
  unfold nextPlotter at h
  cases hpc : k.pc with
  | exited => exact Or.inl rfl
  | plotting s => exact Or.inr (Or.inl ⟨s, rfl⟩)
  | willRecv =>
    simp only [hpc] at h
    split at h
    · cases h
    · rename_i hq
      split at h
      · rename_i hc
        refine Or.inr (Or.inr ⟨rfl, by simpa using hq, by simpa using hc⟩)
      · cases h
  | willPop => simp only [hpc] at h; split at h <;> cases h
  | popped => simp [hpc] at h
  | finished s => simp [hpc] at h

/-! ### stopping the keeper terminates -/

/-- distance of the plotter from its exit once `quit` is closed -/
def quitMeasure : Pc → Nat
  | .exited => 0 | .willRecv => 1 | .finished _ => 2 | .plotting _ => 3 | .popped => 4 | .willPop => 5

def isApi : Label → Bool
  | .api _ _ => true
  | _ => false

theorem loopTop_quit_measure (k : K) (hq : k.quitting = true) :
    quitMeasure (loopTop k).pc ≤ 1 ∧ ((loopTop k).quitting = true ∨ (loopTop k).pc = .exited) := by
  unfold loopTop
  rw [if_pos hq]
  split
  · exact ⟨Nat.le_refl _, Or.inl hq⟩
  · exact ⟨by simp [exitNow, quitMeasure], Or.inr rfl⟩

/-- **Stop terminates.**  Once `quit` is closed (`Stop()` is waiting for the plotter): every step of the
    plotter or of the plot backend strictly decreases `quitMeasure` (≤ 5), no API call increases it, and
    `quit` stays closed until the plotter has returned.  Together with the next theorem: after at most five
    plotter/backend steps the plotter has returned and `Stop()` with it, whatever requests interleave. -/
theorem C13_stop_terminates {n : Nat} {k k' : K} (ls : List Label) (hr : run (initK n) ls = some k)
    (hq : k.quitting = true) (l : Label) (hm : micro k l = some k') :
    (k'.quitting = true ∨ k'.pc = .exited) ∧
    (if isApi l then quitMeasure k'.pc ≤ quitMeasure k.pc else quitMeasure k'.pc < quitMeasure k.pc) := by
  have hi := reachable_inv ls hr
  have hne := reachable_qinv ls hr hq
  unfold micro at hm
  split at hm
  · cases hm
  cases l with
  | api a sid =>
    simp only [Option.some.injEq] at hm
    have ha := act_ok a sid hi
    simp only [isApi, if_true]
    split at hm
    · rename_i hc
      simp only [Bool.and_eq_true, beq_iff_eq] at hc
      subst hm
      refine ⟨Or.inl (ha.qt.trans hq), ?_⟩
      rw [hc.2]; simp [quitMeasure]
    · subst hm
      exact ⟨Or.inl (ha.qt.trans hq), by rw [ha.pc]; exact Nat.le_refl _⟩
  | recv =>
    dsimp only at hm
    simp [hq] at hm
  | pop wm ep =>
    dsimp only at hm
    split at hm
    · rename_i hc
      simp only [beq_iff_eq] at hc
      simp only [isApi, Bool.false_eq_true, if_false]
      rw [hc]
      split at hm
      · cases hm
        have := loopTop_quit_measure k hq
        exact ⟨this.2, Nat.lt_of_le_of_lt this.1 (by decide)⟩
      · split at hm
        · cases hm; exact ⟨Or.inl hq, (by decide : quitMeasure Pc.popped < quitMeasure Pc.willPop)⟩
        · cases hm
    · cases hm
  | step1 =>
    dsimp only at hm
    split at hm
    · rename_i hc
      simp only [beq_iff_eq] at hc
      simp only [isApi, Bool.false_eq_true, if_false]
      rw [hc]
      have hlt := loopTop_quit_measure k hq
      have hlt' : quitMeasure (loopTop k).pc < quitMeasure Pc.popped := Nat.lt_of_le_of_lt hlt.1 (by decide)
      cases hp : k.popped with
      | none => have := hi.pl.pop hc; simp [hp] at this
      | some r =>
        simp only [hp, find] at hm
        cases hw : k.ws r.sid with
        | none => simp only [hw] at hm; cases hm; exact ⟨hlt.2, hlt'⟩
        | some w =>
          simp only [hw] at hm
          split at hm
          · cases hm; exact ⟨hlt.2, hlt'⟩
          · split at hm
            · cases hm
              refine ⟨Or.inl hq, ?_⟩
              show quitMeasure (if w.done = true then Pc.finished r.sid else Pc.plotting r.sid) < quitMeasure Pc.popped
              split <;> simp [quitMeasure]
            · split at hm
              · cases hm
                have := loopTop_quit_measure (setWS k r.sid fun w => move w .ready .mining) hq
                exact ⟨this.2, Nat.lt_of_le_of_lt this.1 (by decide)⟩
              · cases hm; exact ⟨hlt.2, hlt'⟩
    · cases hm
  | plotEnds d =>
    dsimp only at hm
    split at hm
    · rename_i sid hc
      cases hm
      simp only [isApi, Bool.false_eq_true, if_false]
      rw [hc]
      refine ⟨Or.inl ?_, (by simp [quitMeasure] : quitMeasure (Pc.finished sid) < quitMeasure (Pc.plotting sid))⟩
      cases d <;> simp [hq]
    · cases hm
  | step3 =>
    dsimp only at hm
    split at hm
    · rename_i sid hc
      cases hm
      simp only [isApi, Bool.false_eq_true, if_false]
      rw [hc]
      have hq3 : (step3 k sid).quitting = true := by
        unfold step3; split
        · exact hq
        · exact hq
      have := loopTop_quit_measure (step3 k sid) hq3
      exact ⟨this.2, Nat.lt_of_le_of_lt this.1 (by simp [quitMeasure])⟩
    · cases hm
  | start =>
    dsimp only at hm
    split at hm
    · rename_i hc
      simp only [beq_iff_eq] at hc
      exact absurd hc hne
    · cases hm
  | quit =>
    dsimp only at hm
    simp [hq] at hm
  | exit d =>
    dsimp only at hm
    split at hm
    · rename_i hc
      simp only [Bool.and_eq_true, beq_iff_eq] at hc
      cases hm
      simp only [isApi, Bool.false_eq_true, if_false]
      rw [hc.1.1]
      exact ⟨Or.inr rfl, (by decide : quitMeasure Pc.exited < quitMeasure Pc.willRecv)⟩
    · cases hm

/-- … and until then the plotter, or the backend whose plot it waits for, can always move. -/
theorem C13_stop_progress {n : Nat} {k : K} (ls : List Label) (hr : run (initK n) ls = some k)
    (hq : k.quitting = true) (hne : k.pc ≠ .exited) :
    (∃ s, k.pc = .plotting s ∧ ∀ d, (micro k (.plotEnds d)).isSome = true) ∨
    (∃ l, nextPlotter k = some l ∧ isApi l = false ∧ (micro k l).isSome = true) := by
  cases hpc : k.pc with
  | exited => exact absurd hpc hne
  | plotting s =>
    refine Or.inl ⟨s, rfl, fun d => ?_⟩
    simp [micro, C13_no_panic ls hr, hpc]
  | willRecv =>
    have hl : nextPlotter k = some (.exit false) := by simp [nextPlotter, hpc, hq]
    exact Or.inr ⟨_, hl, rfl, C13_plotter_never_blocked ls hr _ hl⟩
  | willPop =>
    cases hqq : k.queue with
    | nil =>
      have hl : nextPlotter k = some (.pop false 0) := by simp [nextPlotter, hpc, hqq]
      exact Or.inr ⟨_, hl, rfl, C13_plotter_never_blocked ls hr _ hl⟩
    | cons r rest =>
      have hl : nextPlotter k = some (.pop r.wouldMining r.epoch) := by simp [nextPlotter, hpc, hqq]
      exact Or.inr ⟨_, hl, rfl, C13_plotter_never_blocked ls hr _ hl⟩
  | popped =>
    have hl : nextPlotter k = some .step1 := by simp [nextPlotter, hpc]
    exact Or.inr ⟨_, hl, rfl, C13_plotter_never_blocked ls hr _ hl⟩
  | finished s =>
    have hl : nextPlotter k = some .step3 := by simp [nextPlotter, hpc]
    exact Or.inr ⟨_, hl, rfl, C13_plotter_never_blocked ls hr _ hl⟩

/-! ### not vacuous -/

/-- quit while a plot executes: the monitor aborts it, step 3 runs, the plotter returns -/
example : (run (initK 1) [.start, .api .plot 0, .recv, .pop false 0, .step1, .quit, .step3, .exit false]).map (·.pc) = some .exited := by
  decide
/-- quit with requests waiting in the queue: the plotter leaves at the loop top without popping them -/
example : (run (initK 2) [.start, .api .plot 0, .api .plot 1, .recv, .pop false 0, .step1, .quit, .step3]).map (·.pc) =
    some .exited := by decide
/-- a full channel exists (hypothesis of `C13_full_channel_refuses`) -/
example : ({ initK 1 with chan := List.replicate 1024 ⟨0, false, 0⟩ } : K).chan.length = Facts.plotterMaxChanSize := by
  show (List.replicate 1024 _).length = 1024
  exact List.length_replicate

end MassVerif.Keeper
