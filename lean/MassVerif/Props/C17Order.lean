/-
C17, order over whole histories: for every task whose id was added once, what its waiter has read so far followed by
what is still queued for it is exactly the sequence of reports accepted for it, in the order they were reported.
-/
import MassVerif.Props.C17

namespace MassVerif.Fractal

def taskOf (t : Nat) (l : List Report) : List Report := l.filter (fun r => r.task == t)

theorem taskOf_append (t : Nat) (a b : List Report) : taskOf t (a ++ b) = taskOf t a ++ taskOf t b := by
  simp [taskOf, List.filter_append]

/-- the ids of the tasks added by a label sequence -/
def addedIds : List Label → List Nat
  | [] => []
  | .addTask r _ :: ls => r.task :: addedIds ls
  | _ :: ls => addedIds ls

theorem addedIds_append (a b : List Label) : addedIds (a ++ b) = addedIds a ++ addedIds b := by
  induction a with
  | nil => rfl
  | cons x r ih => cases x <;> simp [addedIds, ih]

/-- the history invariant: open tasks were added; everything accepted names an added task; and per open task the
accepted reports are the read ones followed by the queued ones -/
structure Hist (ls : List Label) (s : Sup) : Prop where
  openAdded : ∀ e ∈ s.tasks, e.1 ∈ addedIds ls
  arrivedAdded : ∀ r ∈ s.arrived, r.task ∈ addedIds ls
  readArrived : ∀ r ∈ s.read, r.task ∈ addedIds ls
  flow : ∀ t b, bufOf s t = some b → taskOf t s.arrived = taskOf t s.read ++ queue s t

theorem bufOf_add_other {s : Sup} {r : Req} {t : Nat} (h : t ≠ r.task) :
    ((s.tasks.filter (fun e => e.1 != r.task) ++ [(r.task, ([] : List Report))]).find? (fun e => e.1 == t)).map (·.2)
      = (s.tasks.find? (fun e => e.1 == t)).map (·.2) := by
  have h2 : ((r.task == t) = false) := by simpa using fun h' : r.task = t => h h'.symm
  rw [List.find?_append]
  have : ∀ l : List (Nat × List Report), (l.filter (fun e => e.1 != r.task)).find? (fun e => e.1 == t) = l.find? (fun e => e.1 == t) := by
    intro l
    induction l with
    | nil => rfl
    | cons x xs ih =>
      by_cases hx : x.1 = r.task
      · have h3 : (x.1 != r.task) = false := by simp [hx]
        have h4 : (x.1 == t) = false := by rw [hx]; exact h2
        simp only [List.filter_cons, h3, Bool.false_eq_true, if_false, List.find?_cons, h4]
        exact ih
      · have h3 : (x.1 != r.task) = true := by simpa using hx
        simp only [List.filter_cons, h3, if_true, List.find?_cons]
        split
        · rfl
        · exact ih
  rw [this]
  cases hf : s.tasks.find? (fun e => e.1 == t) with
  | some e => simp
  | none => simp [h2]

theorem bufOf_remove_other {s : Sup} {tid t : Nat} (h : t ≠ tid) :
    ((s.tasks.filter (fun e => e.1 != tid)).find? (fun e => e.1 == t)).map (·.2) = (s.tasks.find? (fun e => e.1 == t)).map (·.2) := by
  have h2 : ((tid == t) = false) := by simpa using fun h' : tid = t => h h'.symm
  congr 1
  induction s.tasks with
  | nil => rfl
  | cons x xs ih =>
    by_cases hx : x.1 = tid
    · have h3 : (x.1 != tid) = false := by simp [hx]
      have h4 : (x.1 == t) = false := by rw [hx]; exact h2
      simp only [List.filter_cons, h3, Bool.false_eq_true, if_false, List.find?_cons, h4]
      exact ih
    · have h3 : (x.1 != tid) = true := by simpa using hx
      simp only [List.filter_cons, h3, if_true, List.find?_cons]
      split
      · rfl
      · exact ih

theorem filter_filter_other (l : List Report) {tid t : Nat} (h : t ≠ tid) :
    (l.filter (fun r => r.task != tid)).filter (fun r => r.task == t) = l.filter (fun r => r.task == t) := by
  rw [List.filter_filter]
  apply List.filter_congr
  intro r _
  by_cases hr : r.task = t
  · have h1 : (r.task != tid) = true := by rw [hr]; simpa using h
    have h2 : (r.task == t) = true := by simpa using hr
    rw [h1, h2]; rfl
  · have : (r.task == t) = false := by simpa using hr
    simp [this]

theorem taskOf_nil_of_not_added {ls : List Label} {l : List Report} {t : Nat}
    (h : ∀ r ∈ l, r.task ∈ addedIds ls) (ht : t ∉ addedIds ls) : taskOf t l = [] := by
  unfold taskOf
  rw [List.filter_eq_nil_iff]
  intro r hr hp
  have : r.task = t := by simpa using hp
  exact ht (this ▸ h r hr)

/-- one label keeps the history invariant, provided a task id is never added twice -/
theorem step_hist {ls : List Label} {s : Sup} (hi : Inv s) (hh : Hist ls s) (l : Label)
    (hfresh : ∀ r tg, l = .addTask r tg → r.task ∉ addedIds ls) : Hist (ls ++ [l]) (step s l) := by
  have hsub : ∀ x, x ∈ addedIds ls → x ∈ addedIds (ls ++ [l]) := by
    intro x hx; rw [addedIds_append]; exact List.mem_append.2 (Or.inl hx)
  cases l with
  | addTask r tg =>
    have hfr := hfresh r tg rfl
    have hnew : r.task ∈ addedIds (ls ++ [.addTask r tg]) := by
      rw [addedIds_append]; simp [addedIds]
    -- the state after registering the channel (the hand-over of the request does not touch tasks, reports or logs)
    have key : Hist (ls ++ [.addTask r tg]) { s with tasks := (s.tasks.filter (fun e => e.1 != r.task)) ++ [(r.task, [])] } := by
      refine ⟨?_, fun x hx => hsub _ (hh.arrivedAdded x hx), fun x hx => hsub _ (hh.readArrived x hx), ?_⟩
      · intro e he
        rcases List.mem_append.1 he with he | he
        · exact hsub _ (hh.openAdded e (List.mem_filter.1 he).1)
        · simp only [List.mem_singleton] at he; subst he; exact hnew
      · intro t b hb
        by_cases ht : t = r.task
        · subst ht
          -- a fresh id: nothing was accepted or read for it, nobody waits for it
          have h1 := taskOf_nil_of_not_added hh.arrivedAdded hfr
          have h2 := taskOf_nil_of_not_added hh.readArrived hfr
          have h3 : s.waiting.filter (fun x => x.task == r.task) = [] := by
            rw [List.filter_eq_nil_iff]
            intro x hx hp
            obtain ⟨b0, hb0⟩ := hi.waitOpen x hx
            have : x.task = r.task := by simpa using hp
            exact hfr (this ▸ hh.openAdded _ hb0)
          have h4 : b = [] := by
            unfold bufOf at hb
            simp only at hb
            rw [List.find?_append] at hb
            have hnone : (s.tasks.filter (fun e => e.1 != r.task)).find? (fun e => e.1 == r.task) = none := by
              rw [List.find?_eq_none]
              intro e he hp
              have h5 := (List.mem_filter.1 he).2
              have : e.1 = r.task := by simpa using hp
              simp [this] at h5
            rw [hnone] at hb
            simpa using hb.symm
          unfold queue
          rw [hb, h1, h2, h4]
          show ([] : List Report) = [] ++ (([] : List Report) ++ s.waiting.filter (fun x => x.task == r.task))
          rw [h3]; rfl
        · have hb' : bufOf s t = some b := by
            unfold bufOf at hb ⊢
            simp only at hb
            rw [bufOf_add_other ht] at hb
            exact hb
          have := hh.flow t b hb'
          unfold queue at this ⊢
          rw [hb'] at this
          rw [hb]
          exact this
    simp only [step]
    cases tg with
    | none => exact ⟨key.openAdded, key.arrivedAdded, key.readArrived, fun t b hb => key.flow t b hb⟩
    | some c =>
      simp only
      split
      · exact ⟨key.openAdded, key.arrivedAdded, key.readArrived, fun t b hb => key.flow t b hb⟩
      · exact key
  | removeTask tid =>
    simp only [step]
    split
    · exact ⟨fun e he => hsub _ (hh.openAdded e he), fun x hx => hsub _ (hh.arrivedAdded x hx),
             fun x hx => hsub _ (hh.readArrived x hx), hh.flow⟩
    · refine ⟨fun e he => hsub _ (hh.openAdded e (List.mem_filter.1 he).1), fun x hx => hsub _ (hh.arrivedAdded x hx),
             fun x hx => hsub _ (hh.readArrived x hx), ?_⟩
      intro t b hb
      have ht : t ≠ tid := by
        intro heq; subst heq
        have hm := bufOf_some_mem hb
        have := (List.mem_filter.1 hm).2
        simp at this
      have hb' : bufOf s t = some b := by
        unfold bufOf at hb ⊢
        simp only at hb
        rw [bufOf_remove_other ht] at hb
        exact hb
      have := hh.flow t b hb'
      unfold queue at this ⊢
      rw [hb'] at this
      rw [hb]
      simp only
      rw [filter_filter_other s.waiting ht]
      exact this
  | subscribe c =>
    simp only [step]
    split <;> exact ⟨fun e he => hsub _ (hh.openAdded e he), fun x hx => hsub _ (hh.arrivedAdded x hx),
                    fun x hx => hsub _ (hh.readArrived x hx), hh.flow⟩
  | unsubscribe c =>
    exact ⟨fun e he => hsub _ (hh.openAdded e he), fun x hx => hsub _ (hh.arrivedAdded x hx),
           fun x hx => hsub _ (hh.readArrived x hx), hh.flow⟩
  | report c tid p =>
    cases hbt : bufOf s tid with
    | none =>
      rw [C17_report_unknown_task_dropped s c tid p hbt]
      exact ⟨fun e he => hsub _ (hh.openAdded e he), fun x hx => hsub _ (hh.arrivedAdded x hx),
             fun x hx => hsub _ (hh.readArrived x hx), hh.flow⟩
    | some b0 =>
      have hfifo := C17_fifo_report s c tid p b0 hbt
      have hopen : tid ∈ addedIds ls := hh.openAdded _ (bufOf_some_mem hbt)
      have harr : (step s (.report c tid p)).arrived = s.arrived ++ [⟨tid, c, p⟩] := by
        simp only [step, hbt]; split <;> rfl
      have hread : (step s (.report c tid p)).read = s.read := by
        simp only [step, hbt]; split <;> rfl
      have hkeys : (step s (.report c tid p)).tasks.map (·.1) = s.tasks.map (·.1) := by
        simp only [step, hbt]; split
        · exact setBuf_keys _ _ _
        · rfl
      refine ⟨?_, ?_, ?_, ?_⟩
      · intro e he
        have : e.1 ∈ (step s (.report c tid p)).tasks.map (·.1) := List.mem_map.2 ⟨e, he, rfl⟩
        rw [hkeys] at this
        obtain ⟨e0, he0, hk⟩ := List.mem_map.1 this
        exact hsub _ (hk ▸ hh.openAdded e0 he0)
      · intro x hx
        rw [harr] at hx
        rcases List.mem_append.1 hx with hx | hx
        · exact hsub _ (hh.arrivedAdded x hx)
        · simp only [List.mem_singleton] at hx; subst hx; exact hsub _ hopen
      · intro x hx; rw [hread] at hx; exact hsub _ (hh.readArrived x hx)
      · intro t b hb
        rw [harr, hread, taskOf_append]
        by_cases ht : t = tid
        · subst ht
          rw [hfifo.1, hh.flow t b0 hbt]
          simp [taskOf, List.append_assoc]
        · rw [hfifo.2 t ht]
          -- the other task's buffer is what it was
          have hb' : ∃ b', bufOf s t = some b' := by
            have hm := bufOf_some_mem hb
            have : t ∈ (step s (.report c tid p)).tasks.map (·.1) := List.mem_map.2 ⟨_, hm, rfl⟩
            rw [hkeys] at this
            obtain ⟨e0, he0, hk⟩ := List.mem_map.1 this
            have := bufOf_isSome_of_mem (s := s) (tid := t) (b := e0.2) (by rw [← hk]; exact he0)
            cases hq : bufOf s t with
            | none => rw [hq] at this; cases this
            | some b' => exact ⟨b', rfl⟩
          obtain ⟨b', hb''⟩ := hb'
          rw [hh.flow t b' hb'']
          have : taskOf t [({ task := tid, cid := c, payload := p } : Report)] = [] := by
            have : (tid == t) = false := by simpa using fun h : tid = t => ht h.symm
            simp [taskOf, this]
          rw [this]; simp
  | read tid =>
    cases hbt : bufOf s tid with
    | none =>
      have : step s (.read tid) = s := by simp only [step, hbt]
      rw [this]
      exact ⟨fun e he => hsub _ (hh.openAdded e he), fun x hx => hsub _ (hh.arrivedAdded x hx),
             fun x hx => hsub _ (hh.readArrived x hx), hh.flow⟩
    | some b0 =>
      cases b0 with
      | nil =>
        have : step s (.read tid) = s := by simp only [step, hbt]
        rw [this]
        exact ⟨fun e he => hsub _ (hh.openAdded e he), fun x hx => hsub _ (hh.arrivedAdded x hx),
               fun x hx => hsub _ (hh.readArrived x hx), hh.flow⟩
      | cons r b =>
        obtain ⟨hrd, hq, hoth⟩ := C17_fifo_read s hi tid r b hbt
        have hrt : r.task = tid := hi.named _ (bufOf_some_mem hbt) r (by simp)
        have hopen : tid ∈ addedIds ls := hh.openAdded _ (bufOf_some_mem hbt)
        have harr : (step s (.read tid)).arrived = s.arrived := by
          simp only [step, hbt]; unfold letThrough; split
          · split <;> rfl
          · rfl
        have hkeys : (step s (.read tid)).tasks.map (·.1) = s.tasks.map (·.1) := by
          simp only [step, hbt]; unfold letThrough; split
          · split
            · simp only; rw [setBuf_keys, setBuf_keys]
            · simp only; rw [setBuf_keys]
          · simp only; rw [setBuf_keys]
        refine ⟨?_, ?_, ?_, ?_⟩
        · intro e he
          have : e.1 ∈ (step s (.read tid)).tasks.map (·.1) := List.mem_map.2 ⟨e, he, rfl⟩
          rw [hkeys] at this
          obtain ⟨e0, he0, hk⟩ := List.mem_map.1 this
          exact hsub _ (hk ▸ hh.openAdded e0 he0)
        · intro x hx; rw [harr] at hx; exact hsub _ (hh.arrivedAdded x hx)
        · intro x hx
          rw [hrd] at hx
          rcases List.mem_append.1 hx with hx | hx
          · exact hsub _ (hh.readArrived x hx)
          · simp only [List.mem_singleton] at hx; subst hx; rw [hrt]; exact hsub _ hopen
        · intro t b' hb'
          rw [harr, hrd, taskOf_append]
          by_cases ht : t = tid
          · subst ht
            rw [hh.flow t (r :: b) hbt, hq]
            have : taskOf t [r] = [r] := by simp [taskOf, hrt]
            rw [this]; simp
          · rw [hoth t ht]
            have hb'' : ∃ b2, bufOf s t = some b2 := by
              have hm := bufOf_some_mem hb'
              have : t ∈ (step s (.read tid)).tasks.map (·.1) := List.mem_map.2 ⟨_, hm, rfl⟩
              rw [hkeys] at this
              obtain ⟨e0, he0, hk⟩ := List.mem_map.1 this
              have := bufOf_isSome_of_mem (s := s) (tid := t) (b := e0.2) (by rw [← hk]; exact he0)
              cases hq2 : bufOf s t with
              | none => rw [hq2] at this; cases this
              | some b2 => exact ⟨b2, rfl⟩
            obtain ⟨b2, hb2⟩ := hb''
            rw [hh.flow t b2 hb2]
            have : taskOf t [r] = [] := by
              have : (r.task == t) = false := by rw [hrt]; simpa using fun h : tid = t => ht h.symm
              simp [taskOf, this]
            rw [this]; simp

/-- **In order, complete, unduplicated — over whole histories.**  For any sequence of labels in which no task id is
added twice: for every open task, the reports accepted for it (in the order they were reported) are exactly what its
waiter has read so far followed by what is still queued for it. -/
theorem C17_history_order (ls : List Label) (hfresh : (addedIds ls).Nodup) :
    ∀ t b, bufOf (run {} ls) t = some b →
      taskOf t (run {} ls).arrived = taskOf t (run {} ls).read ++ queue (run {} ls) t := by
  have key : ∀ (ls2 ls1 : List Label) (s : Sup), Inv s → Hist ls1 s → (addedIds (ls1 ++ ls2)).Nodup →
      Hist (ls1 ++ ls2) (run s ls2) := by
    intro ls2
    induction ls2 with
    | nil => intro ls1 s _ hh _; simpa [run] using hh
    | cons l r ih =>
      intro ls1 s hi hh hnd
      have hstep : Hist (ls1 ++ [l]) (step s l) := by
        apply step_hist hi hh l
        intro q tg hl
        subst hl
        rw [addedIds_append] at hnd
        have hnd' := (List.nodup_append.1 hnd)
        intro hmem
        exact hnd'.2.2 _ hmem _ (by simp [addedIds]) rfl
      have := ih (ls1 ++ [l]) (step s l) (step_inv hi l) hstep (by simpa [List.append_assoc] using hnd)
      simpa [run, List.append_assoc] using this
  have := key ls [] {} inv_init ⟨by simp, by simp, by simp, by
    intro t b hb; simp [bufOf] at hb⟩ (by simpa using hfresh)
  simp only [List.nil_append] at this
  exact this.flow

end MassVerif.Fractal
