/-
C14 — the wallet API is safe under concurrent use.  Property theorems only.

What a theorem can carry: (1) every exported method of the keystore manager that
touches shared state executes entirely inside one critical section of the
manager mutex, and every AddrManager method that touches the address map inside
one of the AddrManager mutex (regenerated facts, decided by `decide`); (2) for
any object with that discipline every concurrent history is linearizable with
respect to its sequential specification (`Wallet.step`), the order of the
critical sections being the linearization, and it respects real-time order.
What it cannot exhibit: the Go memory model itself — data-race freedom is
exercised under the race detector by the harness (partial, see DESIGN.md).
-/
import MassVerif.Model.Lock
import MassVerif.Model.Tx
import MassVerif.Props.C02

namespace MassVerif.Lock
variable {σ Op Out : Type} [DecidableEq Out]

/-- invariant of a replay: the object state and the outputs recorded in `lin`
    are those of the sequential run of `lin`'s operations from the start state -/
def Good (step : σ → Op → σ × Out) (s0 : σ) (s : St σ Op Out) : Prop :=
  seqRun step s0 (s.lin.map (·.2.1)) = (s.obj, s.lin.map (·.2.2))

theorem seqRun_append (step : σ → Op → σ × Out) (s : σ) (ops : List Op) (op : Op) :
    seqRun step s (ops ++ [op]) =
      ((step (seqRun step s ops).1 op).1, (seqRun step s ops).2 ++ [(step (seqRun step s ops).1 op).2]) := by
  induction ops generalizing s with
  | nil => simp [seqRun]
  | cons o ops ih => simp [seqRun, ih]

theorem stepEv_good (step : σ → Op → σ × Out) (s0 : σ) (s s' : St σ Op Out) (e : Ev Op Out)
    (hg : Good step s0 s) (h : stepEv step s e = some s') : Good step s0 s' := by
  cases e with
  | call id op =>
    simp only [stepEv] at h
    split at h
    · cases h
    · cases h; exact hg
  | run id =>
    simp only [stepEv] at h
    split at h
    · cases h
    · cases h
      unfold Good at hg ⊢
      simp only [List.map_append, List.map_cons, List.map_nil]
      rw [seqRun_append, hg]
  | ret id out =>
    simp only [stepEv] at h
    split at h
    · cases h
    · split at h
      · cases h; exact hg
      · cases h

theorem replay_good (step : σ → Op → σ × Out) (s0 : σ) (s s' : St σ Op Out) (evs : List (Ev Op Out))
    (hg : Good step s0 s) (h : replay step s evs = some s') : Good step s0 s' := by
  induction evs generalizing s with
  | nil => simp [replay] at h; subst h; exact hg
  | cons e es ih =>
    simp only [replay] at h
    split at h
    · cases h
    · rename_i s1 h1
      exact ih s1 (stepEv_good step s0 s s1 e hg h1) h

/-- **Linearizability.**  For every concurrent trace the object can produce,
    the results returned to the callers are exactly those of executing the
    operations one at a time in the order of their critical sections. -/
theorem C14_linearizable (step : σ → Op → σ × Out) (s0 : σ) (evs : List (Ev Op Out)) (s' : St σ Op Out)
    (h : replay step (St.init s0) evs = some s') :
    seqRun step s0 (s'.lin.map (·.2.1)) = (s'.obj, s'.lin.map (·.2.2)) :=
  replay_good step s0 (St.init s0) s' evs (by simp [Good, St.init, seqRun]) h

def ids (l : List (Nat × Op × Out)) : List Nat := l.map (·.1)

/-- invariant for the real-time order -/
structure RT (s : St σ Op Out) : Prop where
  fin : ∀ x ∈ s.finished, x.1 ∈ ids s.lin
  ret : ∀ a ∈ s.returned, a ∈ ids s.lin
  pend : ∀ x ∈ s.pending, x.1 ∉ ids s.lin ∧ s.before.any (·.1 == x.1) = true
  linCalled : ∀ a ∈ ids s.lin, s.before.any (·.1 == a) = true
  order : ∀ x ∈ s.before, ∀ a ∈ x.2, a ∈ ids s.lin ∧
    (x.1 ∈ ids s.lin → ∃ l1 l2, s.lin = l1 ++ l2 ∧ a ∈ ids l1 ∧ x.1 ∉ ids l1)

theorem rt_init (s0 : σ) : RT (St.init (Op := Op) (Out := Out) s0) :=
  ⟨by simp [St.init], by simp [St.init], by simp [St.init], by simp [St.init, ids], by simp [St.init]⟩

theorem stepEv_rt (step : σ → Op → σ × Out) (s s' : St σ Op Out) (e : Ev Op Out)
    (hr : RT s) (h : stepEv step s e = some s') : RT s' := by
  cases e with
  | call id op =>
    simp only [stepEv] at h
    split at h
    · cases h
    · rename_i hnew
      cases h
      have hnotlin : id ∉ ids s.lin := fun hm => hnew (hr.linCalled id hm)
      refine ⟨hr.fin, hr.ret, ?_, ?_, ?_⟩
      · intro x hx
        simp only [List.mem_cons] at hx
        rcases hx with rfl | hx
        · exact ⟨hnotlin, by simp⟩
        · obtain ⟨h1, h2⟩ := hr.pend x hx
          exact ⟨h1, by simp [h2]⟩
      · intro a ha
        simp [hr.linCalled a ha]
      · intro x hx a ha
        simp only [List.mem_cons] at hx
        rcases hx with rfl | hx
        · exact ⟨hr.ret a ha, fun hm => absurd hm hnotlin⟩
        · exact hr.order x hx a ha
  | run id =>
    simp only [stepEv] at h
    split at h
    · cases h
    · rename_i k op hf
      cases h
      have hmem := List.mem_of_find?_eq_some hf
      have hkey : k = id := by
        have := List.find?_some hf
        simpa using this
      rw [hkey] at hmem
      obtain ⟨hnl, hcalled⟩ := hr.pend _ hmem
      simp only at hnl hcalled
      have hids : ∀ l : List (Nat × Op × Out), ids (l ++ [(id, op, (step s.obj op).2)]) = ids l ++ [id] := by
        intro l; simp [ids]
      refine ⟨?_, ?_, ?_, ?_, ?_⟩
      · intro x hx
        simp only [List.mem_cons] at hx
        rw [hids]
        rcases hx with rfl | hx
        · simp
        · exact List.mem_append_left _ (hr.fin x hx)
      · intro a ha; rw [hids]; exact List.mem_append_left _ (hr.ret a ha)
      · intro x hx
        have hx' := (List.mem_filter.mp hx)
        obtain ⟨h1, h2⟩ := hr.pend x hx'.1
        refine ⟨?_, h2⟩
        rw [hids]
        simp only [List.mem_append, List.mem_singleton, not_or]
        exact ⟨h1, by simpa using hx'.2⟩
      · intro a ha
        rw [hids] at ha
        simp only [List.mem_append, List.mem_singleton] at ha
        rcases ha with ha | rfl
        · exact hr.linCalled a ha
        · exact hcalled
      · intro x hx a ha
        obtain ⟨o1, o2⟩ := hr.order x hx a ha
        refine ⟨by rw [hids]; exact List.mem_append_left _ o1, ?_⟩
        intro hxin
        rw [hids] at hxin
        simp only [List.mem_append, List.mem_singleton] at hxin
        by_cases hold : x.1 ∈ ids s.lin
        · obtain ⟨l1, l2, e1, e2, e3⟩ := o2 hold
          exact ⟨l1, l2 ++ [(id, op, (step s.obj op).2)], by rw [e1]; simp, e2, e3⟩
        · exact ⟨s.lin, [(id, op, (step s.obj op).2)], rfl, o1, hold⟩
  | ret id out =>
    simp only [stepEv] at h
    split at h
    · cases h
    · rename_i k o hf
      split at h
      · cases h
        have hmem := List.mem_of_find?_eq_some hf
        have hkey : k = id := by
          have := List.find?_some hf
          simpa using this
        rw [hkey] at hmem
        have hin := hr.fin _ hmem
        simp only at hin
        refine ⟨?_, ?_, hr.pend, hr.linCalled, hr.order⟩
        · intro x hx; exact hr.fin x (List.mem_filter.mp hx).1
        · intro a ha
          simp only [List.mem_cons] at ha
          rcases ha with rfl | ha
          · exact hin
          · exact hr.ret a ha
      · cases h

theorem replay_rt (step : σ → Op → σ × Out) (s s' : St σ Op Out) (evs : List (Ev Op Out))
    (hr : RT s) (h : replay step s evs = some s') : RT s' := by
  induction evs generalizing s with
  | nil => simp [replay] at h; subst h; exact hr
  | cons e es ih =>
    simp only [replay] at h
    split at h
    · cases h
    · rename_i s1 h1
      exact ih s1 (stepEv_rt step s s1 e hr h1) h

/-- **Real-time order.**  If operation `a` had returned before operation `b`
    was called, then `a`'s critical section is in the linearization and, once
    `b`'s has run, strictly precedes it. -/
theorem C14_real_time (step : σ → Op → σ × Out) (s0 : σ) (evs : List (Ev Op Out)) (s' : St σ Op Out)
    (h : replay step (St.init s0) evs = some s') (b : Nat) (retBefore : List Nat)
    (hb : (b, retBefore) ∈ s'.before) (a : Nat) (ha : a ∈ retBefore) :
    a ∈ ids s'.lin ∧ (b ∈ ids s'.lin → ∃ l1 l2, s'.lin = l1 ++ l2 ∧ a ∈ ids l1 ∧ b ∉ ids l1) :=
  (replay_rt step (St.init s0) s' evs (rt_init s0) h).order (b, retBefore) hb a ha

end MassVerif.Lock

namespace MassVerif.Tx

/-- **Every exported keystore-manager method that touches shared state locks
    the manager mutex on entry** (`mu.Lock(); defer mu.Unlock()` as its first two
    statements) — regenerated from /repo on every run. -/
theorem C14_all_methods_locked : ∀ s ∈ sites, s.touchesShared = true → s.locksOnEntry = true := by decide

/-- ... and so does every AddrManager method that touches the address map. -/
theorem C14_addrmgr_methods_locked :
    ∀ m ∈ Facts.addrMgrMethods, m.2.1 = true → m.2.2 = true := by decide

/-- the wallet's sequential specification is `Wallet.step`: instance of the generic theorem -/
theorem C14_wallet_linearizable (w0 : Wallet.W) (evs : List (Lock.Ev Wallet.Op Wallet.Out))
    (s' : Lock.St Wallet.W Wallet.Op Wallet.Out)
    (h : Lock.replay Wallet.step (Lock.St.init w0) evs = some s') :
    Lock.seqRun Wallet.step w0 (s'.lin.map (·.2.1)) = (s'.obj, s'.lin.map (·.2.2)) :=
  Lock.C14_linearizable Wallet.step w0 evs s' h

end MassVerif.Tx

