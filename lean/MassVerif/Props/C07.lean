/-
C07 — a completed plot equals the proof-of-capacity construction.
Property theorems only.  `P` and `FB` (pocutil) are parameters: the theorems
hold for all their values.
-/
import MassVerif.Proofs.Plot

namespace MassVerif.Plot

/-- a freshly created map: all records zero, checkpoint 0 -/
def fresh {α : Type} : PassState α := { table := fun _ => none, checkpoint := 0 }

theorem fresh_final {α : Type} (ws : List (Nat × α)) : Final ws (fresh : PassState α) := by
  intro pos h; simp [fresh] at h

/-- **Windows are irrelevant (one pass).**  Whatever the sizes of the successive
    windows — any number of windows — a pass that completes leaves exactly the
    last-writer table of its write sequence on the whole range. -/
theorem C07_pass_complete {α : Type} (ws : List (Nat × α)) (limit : Nat) (sizes : List Nat) (st : PassState α)
    (hf : Final ws st) (hdone : limit ≤ (runWindows ws limit sizes st).checkpoint) :
    ∀ pos, pos < limit → (runWindows ws limit sizes st).table pos = lastWrite ws pos :=
  fun pos hp => final_runWindows ws limit sizes st hf pos (by omega)

/-- enough windows always complete the pass -/
theorem C07_pass_terminates {α : Type} (ws : List (Nat × α)) (limit : Nat) (sizes : List Nat) (st : PassState α)
    (hpos : ∀ sz ∈ sizes, 1 ≤ sz) (hlen : limit ≤ st.checkpoint + sizes.length) :
    limit ≤ (runWindows ws limit sizes st).checkpoint := by
  rcases runWindows_progress ws limit sizes st hpos with h | h
  · exact h
  · omega

/-- map A after a completed pre-plot pass is `specA`, for every list of cache sizes -/
theorem C07_mapA (p : Params) (caches : List Nat)
    (hdone : p.N ≤ (prePlot p caches fresh).checkpoint) :
    ∀ pos, pos < p.N → (prePlot p caches fresh).table pos = specA p pos :=
  C07_pass_complete (writesA p) p.N _ fresh (fresh_final _) hdone

/-- the writes of pass B depend on map A only below `N` -/
theorem writesB_congr (p : Params) (hbl : 1 ≤ p.bl) (a a' : Table Nat) (h : ∀ pos, pos < p.N → a pos = a' pos) :
    writesB p a = writesB p a' := by
  unfold writesB
  have hN : 2 * p.half = p.N := by
    unfold Params.half Params.N
    have : 2 ^ p.bl = 2 * 2 ^ (p.bl - 1) := by
      rw [← Nat.pow_succ']; congr 1; omega
    omega
  have key : ∀ l : List Nat, (∀ y ∈ l, y < p.half) →
      l.flatMap (fun y => match a (2 * y), a (2 * y + 1) with
        | some x, some x' => [(p.FB x x', (x, x')), (p.FB x' x, (x', x))]
        | _, _ => []) =
      l.flatMap (fun y => match a' (2 * y), a' (2 * y + 1) with
        | some x, some x' => [(p.FB x x', (x, x')), (p.FB x' x, (x', x))]
        | _, _ => []) := by
    intro l
    induction l with
    | nil => intro _; rfl
    | cons y l ih =>
      intro hl
      have hy : y < p.half := hl y (by simp)
      simp only [List.flatMap_cons]
      rw [h (2 * y) (by omega), h (2 * y + 1) (by omega), ih (fun z hz => hl z (List.mem_cons_of_mem _ hz))]
  exact key (List.range p.half) (fun y hy => List.mem_range.mp hy)

/-- **A completed plot equals the construction**, for every amount of memory
    available to either pass (any number of windows in each). -/
theorem C07_windows_irrelevant (p : Params) (hbl : 1 ≤ p.bl) (cachesA cachesB : List Nat)
    (hA : p.N ≤ (prePlot p cachesA fresh).checkpoint)
    (hB : p.N ≤ (plot p (prePlot p cachesA fresh).table cachesB fresh).checkpoint) :
    ∀ z, z < p.N → (plot p (prePlot p cachesA fresh).table cachesB fresh).table z = specB p z := by
  intro z hz
  have hw : writesB p (prePlot p cachesA fresh).table = writesB p (specA p) :=
    writesB_congr p hbl _ _ (C07_mapA p cachesA hA)
  unfold plot at hB ⊢
  rw [hw] at hB ⊢
  exact C07_pass_complete (writesB p (specA p)) p.N _ fresh (fresh_final _) hB z hz

/-- what map A stores is right: the value at a position hashes to that position -/
theorem C07_mapA_sound (p : Params) (pos x : Nat) (h : specA p pos = some x) :
    posA p x = pos ∧ 0 < x ∧ x < p.N := by
  have := lastWrite_mem (writesA p) pos x h
  unfold writesA at this
  simp only [List.mem_map, List.mem_filter, List.mem_range, Prod.mk.injEq] at this
  obtain ⟨x', ⟨hx1, hx2⟩, hp, rfl⟩ := this
  refine ⟨hp, ?_, hx1⟩
  have : x' ≠ 0 := by simpa using hx2
  omega

/-- **Sound**: every stored entry is a valid proof for its prefix: it is a pair
    of map-A partners (`x` stored at `2y`, `x'` at `2y+1`, in either order) whose
    `FB` value is the position. -/
theorem C07_sound (p : Params) (z x x' : Nat) (h : specB p z = some (x, x')) :
    p.FB x x' = z ∧ ∃ y, y < p.half ∧
      ((specA p (2 * y) = some x ∧ specA p (2 * y + 1) = some x') ∨
       (specA p (2 * y) = some x' ∧ specA p (2 * y + 1) = some x)) := by
  have hm := lastWrite_mem (writesB p (specA p)) z (x, x') h
  unfold writesB at hm
  simp only [List.mem_flatMap, List.mem_range] at hm
  obtain ⟨y, hy, hin⟩ := hm
  split at hin
  · rename_i a b ha hb
    simp only [List.mem_cons, Prod.mk.injEq, List.not_mem_nil, or_false] at hin
    rcases hin with ⟨h1, h2, h3⟩ | ⟨h1, h2, h3⟩
    · subst h2 h3
      exact ⟨h1.symm, y, hy, Or.inl ⟨ha, hb⟩⟩
    · subst h2 h3
      exact ⟨h1.symm, y, hy, Or.inr ⟨ha, hb⟩⟩
  · simp at hin

/-- **Complete**: every prefix for which the construction yields a proof has one stored. -/
theorem C07_complete (p : Params) (y x x' : Nat) (hy : y < p.half)
    (hx : specA p (2 * y) = some x) (hx' : specA p (2 * y + 1) = some x') :
    (specB p (p.FB x x')).isSome = true ∧ (specB p (p.FB x' x)).isSome = true := by
  have hmem : (p.FB x x', (x, x')) ∈ writesB p (specA p) ∧ (p.FB x' x, (x', x)) ∈ writesB p (specA p) := by
    unfold writesB
    simp only [List.mem_flatMap, List.mem_range]
    exact ⟨⟨y, hy, by simp [hx, hx']⟩, ⟨y, hy, by simp [hx, hx']⟩⟩
  exact ⟨lastWrite_isSome_of_mem _ _ _ hmem.1, lastWrite_isSome_of_mem _ _ _ hmem.2⟩

/-- non-vacuity: a concrete 3-bit instance plotted in three windows of unequal size completes to the spec -/
private def p0 : Params := { bl := 3, P := fun x => (5 * x + 3) % 8, FB := fun a b => (a + 3 * b) % 8 }
example : p0.N ≤ (prePlot p0 [3, 4, 5] fresh).checkpoint := by decide
example : (List.range 8).map (prePlot p0 [3, 4, 5] fresh).table = (List.range 8).map (specA p0) := by decide

end MassVerif.Plot
