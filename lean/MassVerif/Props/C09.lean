/-
C09 — the workspace lifecycle follows the documented state machine.
Property theorems only (helpers: `Proofs/Keeper.lean`).  The quantifier "all
sequences of single and bulk actions, keeper start/stop, and all orders in which
the plotter's steps interleave with them" is `ls : List Label`: a bulk action is
the sequence of its single actions (each takes the state lock on its own), and
every plotter micro-step is a label of its own.
-/
import MassVerif.Proofs.Keeper

namespace MassVerif.Keeper

/-- **Exactly one state.**  In every reachable configuration a workspace that is indexed at all is
    in exactly one per-state map, and that map is the one its `state` field names. -/
theorem C09_one_state {n : Nat} {k : K} (ls : List Label) (hr : run (initK n) ls = some k)
    (s : Nat) (w : WS) (hw : k.ws s = some w) (ha : w.inAll = true) :
    ∀ st, inState w st = true ↔ st = w.field := by
  have hb := ((reachable_inv ls hr).i0.base s w hw).idx
  simp only [ha, if_true] at hb
  intro st
  simp only [inState, hb, List.contains_cons, List.contains_nil, Bool.or_false, beq_iff_eq]

/-- a space that was deleted is in no state map at all -/
theorem C09_deleted_in_no_state {n : Nat} {k : K} (ls : List Label) (hr : run (initK n) ls = some k)
    (s : Nat) (w : WS) (hw : k.ws s = some w) (ha : w.inAll = false) : ∀ st, inState w st = false := by
  have hb := ((reachable_inv ls hr).i0.base s w hw).idx
  simp only [ha, Bool.false_eq_true, if_false] at hb
  intro st; simp [inState, hb]

/-- **At most one space plots at a time**: two spaces in the plotting state are the same space;
    it is the one the plotter holds, and the popped item names it. -/
theorem C09_single_plotter {n : Nat} {k : K} (ls : List Label) (hr : run (initK n) ls = some k)
    (s1 s2 : Nat) (w1 w2 : WS) (h1 : k.ws s1 = some w1) (h2 : k.ws s2 = some w2)
    (p1 : w1.field = .plotting) (p2 : w2.field = .plotting) :
    s1 = s2 ∧ (k.pc = .plotting s1 ∨ k.pc = .finished s1) ∧ ∃ r, k.popped = some r ∧ r.sid = s1 := by
  have hi := (reachable_inv ls hr).pl
  obtain ⟨_, a, b⟩ := hi.plot s1 w1 h1 p1
  obtain ⟨_, c, _⟩ := hi.plot s2 w2 h2 p2
  rw [a] at c
  refine ⟨by cases c; rfl, ?_, b⟩
  cases hp : k.pc <;> simp [hp, pcSid] at a
  · exact Or.inl (by rw [a])
  · exact Or.inr (by rw [a])

/-- **Only documented transitions.**  Whatever label is taken in a reachable configuration, no space
    appears or disappears and every space's state either stays or moves along `Trans`:
    `mine`: ready → mining; `stop`: mining → ready; plotter step 1 on the popped, still valid request:
    registered → plotting, or ready → mining when the request wants mining; plotter step 3:
    plotting → registered (plot incomplete) | mining | ready.  `plot`, `remove`, `delete`, plot
    completion/abort and keeper start/stop move no state by themselves. -/
theorem C09_transitions {n : Nat} {k k' : K} (ls : List Label) (hr : run (initK n) ls = some k)
    (l : Label) (hm : micro k l = some k') (s : Nat) :
    (k.ws s = none → k'.ws s = none) ∧
    ∀ w, k.ws s = some w → ∃ w', k'.ws s = some w' ∧ Trans k l s w w' := by
  have he := micro_eff (reachable_inv ls hr) hm
  refine ⟨he.wsNone s, fun w hw => ?_⟩
  obtain ⟨w', a, _, b, _⟩ := he.wsSome s w hw
  exact ⟨w', a, b⟩

/-- **stop returns a mining space to ready** (at once) -/
theorem C09_stop_mining {n : Nat} {k k' : K} (ls : List Label) (hr : run (initK n) ls = some k)
    (sid : Nat) (w : WS) (hw : k.ws sid = some w) (hu : w.inAll = true ∧ w.inUse = true) (hf : w.field = .mining)
    (hm : micro k (.api .stop sid) = some k') :
    (act k .stop sid).2 = .ok () ∧ ∃ w', k'.ws sid = some w' ∧ w'.field = .ready := by
  have hi := reachable_inv ls hr
  have hb := (hi.i0.base sid w hw).idx
  simp only [hu.1, if_true, hf] at hb
  have hk : k'.ws = (act k .stop sid).1.ws := by
    unfold micro at hm; split at hm
    · cases hm
    · simp only [Option.some.injEq] at hm; split at hm <;> (subst hm; rfl)
  rw [hk]
  simp [act, find, hw, hu.1, hu.2, inState, hb, cancel, purge, move]

/-- **stop returns a plotting space to registered**: the executing plot is aborted by the stop itself
    (`pc` goes from `plotting sid` to `finished sid` with the plot incomplete), the request will not be
    turned into mining, and the plotter's next step (step 3) files the space under registered. -/
theorem C09_stop_plotting {n : Nat} {k k1 k2 : K} (ls : List Label) (hr : run (initK n) ls = some k)
    (sid : Nat) (hpc : k.pc = .plotting sid)
    (hm : micro k (.api .stop sid) = some k1) (hok : (act k .stop sid).2 = .ok ())
    (h3 : micro k1 .step3 = some k2) :
    k1.pc = .finished sid ∧ ∃ w2, k2.ws sid = some w2 ∧ w2.field = .registered := by
  have hi := reachable_inv ls hr
  obtain ⟨w, hw, hf⟩ := hi.pl.pcw sid (by rw [hpc]; rfl)
  have hfresh := hi.pl.fresh sid w hpc hw
  obtain ⟨hall, _, r, hr0, hrs⟩ := hi.pl.plot sid w hw hf
  have hi1 := micro_inv hi hm
  have he := micro_eff hi hm
  have hq := quiet_after_stop hi hok hm
  -- the stop reached StopPlot(): pc = finished
  have huse : (!(w.inAll && w.inUse)) = false := by
    cases hu : (!(w.inAll && w.inUse)) with
    | false => rfl
    | true => simp [act, find, hw, hu] at hok
  have hstops : stopsPlot k sid = true := by
    have hb := (hi.i0.base sid w hw).idx
    simp only [hall, if_true, hf] at hb
    have : w.inUse = true := by cases hu : w.inUse <;> simp [hall, hu] at huse ⊢
    simp [stopsPlot, find, hw, hr0, hall, this, inState, hb, hrs]
  have hk1 : k1.pc = .finished sid := by
    unfold micro at hm; split at hm
    · cases hm
    · simp only [Option.some.injEq] at hm
      simp only [hstops, hpc, decide_true, Bool.and_self, beq_self_eq_true, if_true] at hm
      subst hm; rfl
  refine ⟨hk1, ?_⟩
  -- the space is still plotting, not done; step 3 moves it to registered
  obtain ⟨w1, a1, _, a3, _⟩ := he.wsSome sid w hw
  have hf1 : w1.field = .plotting := by
    rcases a3 with a3 | ⟨_, a3, _⟩
    · rw [a3]; exact hf
    · rw [hf] at a3; cases a3
  have hd1 : w1.done = false := by
    have hfr := (act_ok .stop sid hi).fr
    have hk : k1.ws = (act k .stop sid).1.ws := by
      unfold micro at hm; split at hm
      · cases hm
      · simp only [Option.some.injEq] at hm; split at hm <;> (subst hm; rfl)
    obtain ⟨w0, b1, b2⟩ := hfr.fwd sid w1 (hk ▸ a1)
    rw [hw] at b1; cases b1
    rw [(b2 hf1).2.2]; exact hfresh
  unfold micro at h3; split at h3
  · cases h3
  · dsimp only at h3
    rw [hk1] at h3
    simp only [Option.some.injEq] at h3
    subst h3
    rw [loopTop_ws]
    simp only [step3, find, a1, hd1]
    exact ⟨move w1 .plotting .registered, by simp [a1], rfl⟩

/-- **A stopped space is not plotted or mined until asked again.**  After a stop that returned ok, along
    every schedule that contains no `plot sid` / `mine sid` request, the space is never mining, and it
    is plotting only as the tail of the plot it was in when it was stopped (never again once it left). -/
theorem C09_stop_sticks {n : Nat} {k k1 k2 : K} (ls0 : List Label) (hr0 : run (initK n) ls0 = some k)
    (sid : Nat) (hm : micro k (.api .stop sid) = some k1) (hok : (act k .stop sid).2 = .ok ())
    (ls : List Label) (hno : ∀ l, l ∈ ls → l ≠ .api .plot sid ∧ l ≠ .api .mine sid)
    (hr : run k1 ls = some k2) (w1 w2 : WS) (hw1 : k1.ws sid = some w1) (hw2 : k2.ws sid = some w2) :
    w2.field ≠ .mining ∧ (w2.field = .plotting → w1.field = .plotting) := by
  have hi := reachable_inv ls0 hr0
  have hq := quiet_after_stop hi hok hm
  obtain ⟨q2, f⟩ := quiet_run ls (micro_inv hi hm) hq hno hr
  exact ⟨q2.nm w2 hw2, f w1 w2 hw1 hw2⟩

/-- … and every request for the stopped space that was still waiting — in the channel, in the queue, or
    popped but not started — has been made void: the plotter's step 1 will drop it. -/
theorem C09_stop_voids_pending {n : Nat} {k k1 : K} (ls0 : List Label) (hr0 : run (initK n) ls0 = some k)
    (sid : Nat) (hm : micro k (.api .stop sid) = some k1) (hok : (act k .stop sid).2 = .ok ())
    (r : Req) (hr : r ∈ k1.chan ∨ r ∈ k1.queue ∨ (k1.pc = .popped ∧ k1.popped = some r)) (hs : r.sid = sid)
    (w1 : WS) (hw1 : k1.ws sid = some w1) : r.epoch ≠ w1.epoch := by
  have hq := quiet_after_stop (reachable_inv ls0 hr0) hok hm
  rcases hr with hr | hr | ⟨hp, hr⟩
  · exact Nat.ne_of_lt (hq.stale r (Or.inl hr) hs w1 hw1)
  · exact Nat.ne_of_lt (hq.stale r (Or.inr hr) hs w1 hw1)
  · exact Nat.ne_of_lt (hq.pop hp r hr hs w1 hw1)

/-- **State queries and flag filters agree.**  `WorkSpaceIDs(flags)`, `WorkSpaceInfos(flags)` and the
    miner's `GetProofs(flags)` all enumerate `getWsByFlags(workSpaceList, flags)` = `byFlags`; a space is in
    that enumeration exactly when it is in use, indexed, and the per-state map that holds it is one of the
    flagged states — the list + state field (read by the queries) and the using flag + state maps (read by
    the actions) never disagree. -/
theorem C09_queries_agree {n : Nat} {k : K} (ls : List Label) (hr : run (initK n) ls = some k)
    (flags sid : Nat) :
    sid ∈ byFlags k flags ↔
      ∃ w, k.ws sid = some w ∧ w.inUse = true ∧ w.inAll = true ∧
        ∃ st, inState w st = true ∧ (flags / 2 ^ st.toNat) % 2 = 1 := by
  have hi := (reachable_inv ls hr).i0
  simp only [byFlags, List.mem_filter, find]
  constructor
  · rintro ⟨hl, hb⟩
    obtain ⟨w, hw⟩ := hi.list sid hl
    simp only [hw, beq_iff_eq] at hb
    have hu := (hi.base sid w hw).listed.mpr hl
    have ha := (hi.base sid w hw).use hu
    have hx := (hi.base sid w hw).idx
    simp only [ha, if_true] at hx
    exact ⟨w, hw, hu, ha, w.field, by simp [inState, hx], hb⟩
  · rintro ⟨w, hw, hu, ha, st, hs, hb⟩
    have hx := (hi.base sid w hw).idx
    simp only [ha, if_true] at hx
    have : st = w.field := by simpa [inState, hx] using hs
    subst this
    exact ⟨(hi.base sid w hw).listed.mp hu, by simp [hw, hb]⟩

/-- **Only spaces in the mining state are offered to the miner** (`GetProofs(SFMining)`, flag 8),
    and every in-use mining space is. -/
theorem C09_miner_sees_mining {n : Nat} {k : K} (ls : List Label) (hr : run (initK n) ls = some k) (sid : Nat) :
    sid ∈ byFlags k 8 ↔ ∃ w, k.ws sid = some w ∧ w.inUse = true ∧ w.field = .mining := by
  have hi := (reachable_inv ls hr).i0
  simp only [byFlags, List.mem_filter, find]
  constructor
  · rintro ⟨hl, hb⟩
    obtain ⟨w, hw⟩ := hi.list sid hl
    simp only [hw, beq_iff_eq] at hb
    refine ⟨w, hw, (hi.base sid w hw).listed.mpr hl, ?_⟩
    cases hf : w.field <;> simp [hf, St.toNat] at hb ⊢
  · rintro ⟨w, hw, hu, hf⟩
    exact ⟨(hi.base sid w hw).listed.mp hu, by simp [hw, hf, St.toNat]⟩

/-- the v2 keeper (`engine.v2/spacekeeper/skchia`) runs the same text as the v1 keeper in every function
    the model covers (regenerated fact), so the theorems speak for both -/
theorem C09_v2_same_code_fact : Facts.keeperV2SameAsV1 = true := by decide

/-- the guards and assignments of `StopWS` / `cancelRequests` that the model's `stop` label transcribes stand in the
    source as transcribed (regenerated) -/
theorem C09_condition_facts : Facts.condKeeperStop = true ∧ Facts.condKeeperCancel = true := by decide

/-! ### the theorems are not vacuous: concrete schedules reach the states they talk about -/

/-- a schedule in which space 1 is plotted, mined, stopped; space 0 is requested, stopped while its
    request waits in the channel, and the plotter then drops the void request -/
def demo : List Label :=
  [.start, .api .mine 1, .api .plot 0, .api .stop 0, .recv, .pop false 0, .step1, .pop true 0, .step1,
   .plotEnds true, .step3, .api .stop 1]

example : (run (initK 2) demo).isSome = true := by decide
example : ((run (initK 2) demo).bind (fun k => k.ws 0)).map (·.field) = some .registered := by decide
example : ((run (initK 2) demo).bind (fun k => k.ws 1)).map (·.field) = some .ready := by decide
example : ((run (initK 2) (demo.take 9)).bind (fun k => k.ws 1)).map (·.field) = some .plotting := by decide
example : ((run (initK 2) (demo.take 11)).bind (fun k => k.ws 1)).map (·.field) = some .mining := by decide
example : (run (initK 2) (demo.take 11)).map (fun k => byFlags k 8) = some [1] := by decide

end MassVerif.Keeper
