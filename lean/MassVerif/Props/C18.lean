/-
C18 — HD key derivation matches BIP32 and is self-consistent; mnemonics round-trip.
Property theorems only.  Full-strength statements that are false of the current
code are kept visible: a kernel-checked counterexample, and the `_partial`
theorem with the hypothesis the proof forces.
-/
import MassVerif.Proofs.HD

namespace MassVerif.HD
open MassVerif.Codec

/-! ### laws assumed of secp256k1 (library) -/

/-- `point(il) + a·G = ((il + a) mod n)·G`, in serialised form -/
def LawAdd (C : Crypto) : Prop :=
  ∀ a il : Nat, (il + a) % C.n ≠ 0 → C.pubAdd (C.pub a) il = some (C.pub ((il + a) % C.n))

theorem C18_facts : Facts.hardenedKeyStart = 2 ^ 31 ∧ Facts.serializedKeyLen = 78 ∧
    Facts.minSeedBytes = 16 ∧ Facts.maxSeedBytes = 64 ∧ Facts.hdMasterKey = "Bitcoin seed" := by decide

/-! ### public derivation commutes with private derivation -/

/-- Deriving a non-hardened child from the public parent equals the public half
    of deriving it from the private parent (both succeed with the same key, or
    both fail) — provided the child scalar is not zero (probability 2⁻²⁵⁶; the
    code does not check this case on the private side). -/
theorem C18_neuter_child_comm (C : Crypto) (hlaw : LawAdd C) (k : XKey) (hp : k.isPrivate = true)
    (i : Nat) (hi : i < hardenedKeyStart) (v : Bytes) (hv : C.pubVersion k.version = some v)
    (hnz : (bytesToNat ((C.hmac k.chainCode (childData C k i)).take 32) + bytesToNat k.key) % C.n ≠ 0) :
    (child C k i >>= neuter C) = (neuter C k >>= fun pk => child C pk i) := by
  have hih : ¬ (i ≥ hardenedKeyStart) := by omega
  -- the public parent
  have hneut : neuter C k = .ok { k with key := pubKeyBytes C k, isPrivate := false, version := v } := by
    simp [neuter, hp, hv]
  rw [hneut]
  -- both sides feed the same bytes to HMAC
  have hdata : childData C { k with key := pubKeyBytes C k, isPrivate := false, version := v } i = childData C k i := by
    simp [childData, hih, pubKeyBytes, hp]
  have hpk : pubKeyBytes C { k with key := pubKeyBytes C k, isPrivate := false, version := v } = pubKeyBytes C k := by
    simp [pubKeyBytes, hp]
  simp only [bind, Except.bind]
  unfold child
  by_cases hd : k.depth = maxUint8
  · simp [hd]
  · simp only [hd, if_false, hp, Bool.not_true, Bool.false_and, Bool.false_eq_true, Bool.not_false,
      Bool.true_and, decide_eq_true_eq, hih]
    unfold childFrom
    rw [hdata, hpk]
    simp only [hp, if_true]
    by_cases hinv : bytesToNat ((C.hmac k.chainCode (childData C k i)).take 32) ≥ C.n ∨
        bytesToNat ((C.hmac k.chainCode (childData C k i)).take 32) = 0
    · simp [hinv]
    · simp only [hinv, if_false, Bool.false_eq_true]
      have hadd := hlaw (bytesToNat k.key) (bytesToNat ((C.hmac k.chainCode (childData C k i)).take 32)) hnz
      have hpub : pubKeyBytes C k = C.pub (bytesToNat k.key) := by simp [pubKeyBytes, hp]
      rw [hpub, hadd]
      simp [neuter, hv, pubKeyBytes, bytesToNat_natToBytes]

/-! ### conformance with BIP32 -/

/-- the hypothesis the proof forces: a hardened step needs the parent scalar
    held as a full 32 bytes; a normal step needs a 33-byte public key -/
def StepOk (C : Crypto) (k : XKey) (i : Nat) : Prop :=
  (i ≥ hardenedKeyStart → k.key.length = 32 ∧ IsBytes k.key) ∧
  (i < hardenedKeyStart → (pubKeyBytes C k).length = 33)

theorem copyInto_one (key : Bytes) (h : key.length = 32) : copyInto 33 1 key = 0 :: key := by
  unfold copyInto
  have : ([0] ++ key ++ List.replicate 33 0).take 33 = [0] ++ key := by
    rw [List.take_append_of_le_length (by simp [h])]
    rw [List.take_of_length_le (by simp [h])]
  simpa using this

theorem copyInto_zero (p : Bytes) (h : p.length = 33) : copyInto 33 0 p = p := by
  unfold copyInto
  simp only [List.replicate_zero, List.nil_append]
  rw [List.take_append_of_le_length (by omega), List.take_of_length_le (by omega)]

theorem C18_data_conforms_partial (C : Crypto) (k : XKey) (i : Nat) (h : StepOk C k i) :
    childData C k i = childDataSpec C k i := by
  unfold childData childDataSpec
  by_cases hi : i ≥ hardenedKeyStart
  · obtain ⟨hl, hb⟩ := h.1 hi
    simp only [hi, if_true]
    rw [copyInto_one _ hl]
    have := padLeft_natToBytes_bytesToNat k.key hb
    rw [hl] at this
    rw [this]
  · simp only [hi, if_false]
    rw [copyInto_zero _ (h.2 (by omega))]

/-- **Partial conformance**: wherever the side condition holds, `Child` is BIP32's CKD. -/
theorem C18_conforms_partial (C : Crypto) (k : XKey) (i : Nat) (h : StepOk C k i) :
    child C k i = childSpec C k i := by
  unfold child childSpec
  rw [C18_data_conforms_partial C k i h]

/-- along a path: every step reached satisfies the side condition -/
def Conforming (C : Crypto) : XKey → List Nat → Prop
  | _, [] => True
  | k, i :: r => StepOk C k i ∧ ∀ c, child C k i = .ok c → Conforming C c r

theorem C18_conforms_path_partial (C : Crypto) (k : XKey) (path : List Nat) (h : Conforming C k path) :
    derivePath (child C) k path = derivePath (childSpec C) k path := by
  induction path generalizing k with
  | nil => rfl
  | cons i r ih =>
    obtain ⟨h1, h2⟩ := h
    simp only [derivePath]
    rw [← C18_conforms_partial C k i h1]
    cases hc : child C k i with
    | error e => rfl
    | ok c => exact ih c (h2 c hc)

/-- a private key whose scalar has a leading zero byte, held (as the code holds
    derived keys) in minimal length: 31 bytes -/
def shortKey : XKey :=
  { key := List.replicate 30 0 ++ [1], chainCode := List.replicate 32 0, depth := 1,
    parentFP := [0, 0, 0, 0], childNum := 0, isPrivate := true, version := [4, 136, 173, 228] }

/-- **The full-strength conformance statement is false of the code**: for a
    hardened child of a parent held in 31 bytes the HMAC input is
    `00‖k₃₁‖00‖i`, BIP32 prescribes `00‖00‖k₃₁‖i`. -/
theorem C18_hardened_data_counterexample (C : Crypto) :
    childData C shortKey (2 ^ 31) ≠ childDataSpec C shortKey (2 ^ 31) := by
  have h : (2 : Nat) ^ 31 ≥ hardenedKeyStart := by decide
  have e1 : bytesToNat shortKey.key = 1 := by decide
  have e2 : natToBytes 1 = [1] := by
    rw [natToBytes]; simp; rw [natToBytes]; simp
  unfold childData childDataSpec
  simp only [h, if_true, e1, e2]
  decide

theorem C18_conforms_false : ¬ ∀ (C : Crypto) (k : XKey) (i : Nat), childData C k i = childDataSpec C k i := by
  intro h
  let C0 : Crypto := ⟨7, fun _ _ => [], fun _ => [], fun _ _ => none, fun _ => [], fun _ => [], fun _ => none, fun _ => false⟩
  exact C18_hardened_data_counterexample C0 (h C0 shortKey (2 ^ 31))

/-! ### text form -/

theorem C18_norm_children_partial (C : Crypto) (k : XKey) (i : Nat)
    (h : k.isPrivate = true → i ≥ hardenedKeyStart → k.key.length = 32) :
    child C (norm k) i = child C k i := by
  unfold norm
  by_cases hp : k.isPrivate = true
  · simp only [hp, if_true]
    by_cases hi : i ≥ hardenedKeyStart
    · have hl := h hp hi
      have : padLeft 32 k.key = k.key := by simp [padLeft, hl]
      rw [this]
      cases k; simp_all
    · unfold child childFrom childData pubKeyBytes
      simp only [hp, hi, if_true, if_false, bytesToNat_padLeft]
  · simp [hp]

/-- the text round trip changes the hardened children of a short key (data level) -/
theorem C18_text_children_counterexample (C : Crypto) :
    childData C (norm shortKey) (2 ^ 31) ≠ childData C shortKey (2 ^ 31) := by
  have h : (2 : Nat) ^ 31 ≥ hardenedKeyStart := by decide
  unfold childData
  simp only [h, if_true]
  decide


/-- a key the wallet can hold -/
structure XKey.WF (C : Crypto) (k : XKey) : Prop where
  ver : k.version.length = 4
  fp : k.parentFP.length = 4
  cc : k.chainCode.length = 32
  depth : k.depth < 256
  num : k.childNum < 2 ^ 32
  cks : ∀ b, (C.checksum b).length = 4
  priv : k.isPrivate = true → k.key.length ≤ 32 ∧ 0 < bytesToNat k.key ∧ bytesToNat k.key < C.n
  pub : k.isPrivate = false → k.key.length = 33 ∧ k.key.head? ≠ some 0 ∧ C.pubValid k.key = true

theorem bytesToNat_ser32 (n : Nat) (h : n < 2 ^ 32) : bytesToNat (ser32 n) = n := by
  simp only [ser32, bytesToNat, List.foldl_cons, List.foldl_nil]
  omega

/-- **Text round trip (structure).**  Parsing the serialised form returns the key
    in canonical form (private scalar padded to 32 bytes); every other field is
    unchanged. -/
theorem C18_parse_serialize (C : Crypto) (k : XKey) (h : k.WF C) :
    parse C (serialize C k) = .ok (norm k) := by
  obtain ⟨hv, hfp, hcc, hd, hn, hck, hpriv, hpub⟩ := h
  -- split the payload into its six fields
  have hkd : (if k.isPrivate then 0 :: padLeft 32 k.key else pubKeyBytes C k).length = 33 := by
    by_cases hp : k.isPrivate = true
    · have := (hpriv hp).1
      simp [hp, padLeft]; omega
    · have hp' : k.isPrivate = false := by simpa using hp
      simp [hp', pubKeyBytes, (hpub hp').1]
  generalize hkdv : (if k.isPrivate then 0 :: padLeft 32 k.key else pubKeyBytes C k) = kd at hkd
  have hpl : payload C k = k.version ++ [k.depth % 256] ++ k.parentFP ++ ser32 k.childNum ++ k.chainCode ++ kd := by
    unfold payload; rw [hkdv]
  have hlen : (payload C k).length = 78 := by
    rw [hpl]; simp [hv, hfp, hcc, hkd, ser32]
  unfold parse serialize
  have hl82 : ¬ ((payload C k ++ C.checksum (payload C k)).length ≠ 82) := by
    simp [hlen, hck]
  simp only [hl82, if_false]
  have htake : (payload C k ++ C.checksum (payload C k)).take 78 = payload C k := by
    rw [List.take_append_of_le_length (by omega), List.take_of_length_le (by omega)]
  have hdrop : (payload C k ++ C.checksum (payload C k)).drop 78 = C.checksum (payload C k) := by
    rw [List.drop_append_of_le_length (by omega), List.drop_of_length_le (by omega)]
    simp
  rw [htake, hdrop]
  simp only [ne_eq, not_true_eq_false, if_false]
  have f1 : (payload C k).take 4 = k.version := by
    rw [hpl]; simp [List.take_append_of_le_length, hv]
  have f2 : ((payload C k).drop 4).headD 0 = k.depth := by
    rw [hpl]; simp [List.drop_append_of_le_length, hv]; omega
  have f3 : ((payload C k).drop 5).take 4 = k.parentFP := by
    rw [hpl]
    have : k.version ++ [k.depth % 256] ++ k.parentFP ++ ser32 k.childNum ++ k.chainCode ++ kd =
        (k.version ++ [k.depth % 256]) ++ (k.parentFP ++ (ser32 k.childNum ++ k.chainCode ++ kd)) := by simp
    rw [this, List.drop_left' (by simp [hv])]
    rw [List.take_left' hfp]
  have f4 : ((payload C k).drop 9).take 4 = ser32 k.childNum := by
    rw [hpl]
    have : k.version ++ [k.depth % 256] ++ k.parentFP ++ ser32 k.childNum ++ k.chainCode ++ kd =
        (k.version ++ [k.depth % 256] ++ k.parentFP) ++ (ser32 k.childNum ++ (k.chainCode ++ kd)) := by simp
    rw [this, List.drop_left' (by simp [hv, hfp])]
    rw [List.take_left' (by simp [ser32])]
  have f5 : ((payload C k).drop 13).take 32 = k.chainCode := by
    rw [hpl]
    have : k.version ++ [k.depth % 256] ++ k.parentFP ++ ser32 k.childNum ++ k.chainCode ++ kd =
        (k.version ++ [k.depth % 256] ++ k.parentFP ++ ser32 k.childNum) ++ (k.chainCode ++ kd) := by simp
    rw [this, List.drop_left' (by simp [hv, hfp, ser32])]
    rw [List.take_left' hcc]
  have f6 : ((payload C k).drop 45).take 33 = kd := by
    rw [hpl]
    rw [List.drop_left' (by simp [hv, hfp, hcc, ser32])]
    rw [List.take_of_length_le (by omega)]
  rw [f1, f2, f3, f4, f5, f6, bytesToNat_ser32 _ hn]
  by_cases hp : k.isPrivate = true
  · obtain ⟨h1, h2, h3⟩ := hpriv hp
    simp only [hp, if_true] at hkdv
    subst hkdv
    simp only [List.head?_cons, beq_self_eq_true, if_true, List.drop_succ_cons, List.drop_zero,
      bytesToNat_padLeft]
    have : ¬ (bytesToNat k.key ≥ C.n ∨ bytesToNat k.key = 0) := by omega
    simp only [this, if_false, norm, hp, if_true]
  · have hp' : k.isPrivate = false := by simpa using hp
    obtain ⟨h1, h2, h3⟩ := hpub hp'
    simp only [hp', Bool.false_eq_true, if_false, pubKeyBytes] at hkdv
    subst hkdv
    have hne : (k.key.head? == some 0) = false := by
      cases hh : k.key.head? with
      | none => rfl
      | some x =>
        have : x ≠ 0 := by intro e; rw [e] at hh; exact h2 hh
        simp [this]
    simp only [hne, Bool.false_eq_true, if_false, h3, Bool.not_true, norm, hp']
    cases k; simp_all

/-- **Text round trip, partial**: the parsed key derives the same children as
    the original, except hardened children of a private key held in fewer than
    32 bytes (see `C18_text_children_counterexample`). -/
theorem C18_text_roundtrip_partial (C : Crypto) (k : XKey) (h : k.WF C) (i : Nat)
    (hs : k.isPrivate = true → i ≥ hardenedKeyStart → k.key.length = 32) :
    (match parse C (serialize C k) with
     | .ok k' => child C k' i
     | .error e => .error e) = child C k i := by
  rw [C18_parse_serialize C k h]
  exact C18_norm_children_partial C k i hs

end MassVerif.HD

/-! ### mnemonics -/
namespace MassVerif.Mnemonic
open MassVerif.Codec MassVerif.HD

/-- `addChecksum` as a closed formula -/
theorem addChecksumNat_eq (cs : Bytes → Nat) (d : Bytes) (hl : d.length / 4 ≤ 8) :
    addChecksumNat cs d = bytesToNat d * 2 ^ (d.length / 4) + cs d / 2 ^ (8 - d.length / 4) % 2 ^ (d.length / 4) := by
  unfold addChecksumNat
  exact addChecksum_fold (cs d) (bytesToNat d) (d.length / 4) hl

/-- **Mnemonic round trip.**  For every entropy of a permitted size, the
    sentence produced by `NewMnemonic` decodes — by both decoders — to that entropy. -/
theorem C18_mnemonic_roundtrip (cs : Bytes → Nat) (hcs : ∀ d, cs d < 256) (e : Bytes) (he : IsBytes e)
    (m : Nat) (hm : 4 ≤ m ∧ m ≤ 8) (hl : e.length = 4 * m) :
    ∃ ws, newMnemonic cs e = some ws ∧ ws.length = 3 * m ∧
      entropyFromMnemonic cs ws = .ok e ∧ mnemonicToRaw cs ws = .ok e := by
  have hc : e.length / 4 = m := by omega
  have hvl : validLen e.length = true := by
    simp [validLen, hl]; omega
  have hN := addChecksumNat_eq cs e (by omega)
  rw [hc] at hN
  have hlt := bytesToNat_lt e he
  have hcsm : cs e / 2 ^ (8 - m) < 2 ^ m := by
    have : cs e < 2 ^ (8 - m) * 2 ^ m := by
      rw [← Nat.pow_add]; have : 8 - m + m = 8 := by omega
      rw [this]; exact hcs e
    exact Nat.div_lt_of_lt_mul this
  rw [Nat.mod_eq_of_lt hcsm] at hN
  -- the sentence
  have hbits : (e.length * 8 + e.length * 8 / 32) / 11 = 3 * m := by omega
  have hnm : newMnemonic cs e = some (wordsOf (3 * m) (addChecksumNat cs e)) := by
    unfold newMnemonic
    simp only [hvl, Bool.not_true, Bool.false_eq_true, if_false, hbits, bytesToNat_natToBytes]
  refine ⟨_, hnm, wordsOf_length _ _, ?_, ?_⟩
  all_goals
    have hNlt : addChecksumNat cs e < 2048 ^ (3 * m) := by
      rw [hN]
      have h1 : (2048 : Nat) ^ (3 * m) = 256 ^ (4 * m) * 2 ^ m := by
        have : (2048 : Nat) = 2 ^ 11 := by decide
        have h256 : (256 : Nat) = 2 ^ 8 := by decide
        rw [this, h256, ← Nat.pow_mul, ← Nat.pow_mul, ← Nat.pow_add]
        congr 1; omega
      rw [h1, ← hl]
      have : (bytesToNat e + 1) * 2 ^ m ≤ 256 ^ e.length * 2 ^ m := Nat.mul_le_mul_right _ hlt
      rw [Nat.add_mul] at this
      omega
    have hfw := fromWords_wordsOf (3 * m) _ hNlt
    have hvc : validCount (3 * m) = true := by
      simp [validCount]; omega
    have hany : (wordsOf (3 * m) (addChecksumNat cs e)).any (· ≥ 2048) = false := by
      rw [List.any_eq_false]
      intro w hw
      have := wordsOf_lt _ _ w hw
      simp; omega
    have hdiv : addChecksumNat cs e / 2 ^ m = bytesToNat e := by
      rw [hN, Nat.add_comm, Nat.add_mul_div_right _ _ (Nat.pow_pos (by omega)), Nat.div_eq_of_lt hcsm]; simp
    have hmod : addChecksumNat cs e % 2 ^ m = cs e / 2 ^ (8 - m) := by
      rw [hN, Nat.add_comm, Nat.add_mul_mod_self_right, Nat.mod_eq_of_lt hcsm]
    have hpad : padLeft (4 * m) (natToBytes (bytesToNat e)) = e := by
      rw [← hl]; exact padLeft_natToBytes_bytesToNat e he
  · unfold entropyFromMnemonic
    simp only [wordsOf_length, hvc, hany, Bool.not_true, Bool.false_eq_true, if_false, hfw]
    have h3 : 3 * m / 3 = m := by omega
    simp only [h3, hdiv, hmod, Nat.mul_comm m 4, hpad]
    by_cases h24 : 3 * m ≠ 24
    · simp [h24]
    · have hm8 : m = 8 := by omega
      subst hm8
      simp
  · unfold mnemonicToRaw
    simp only [wordsOf_length, hvc, hany, Bool.not_true, Bool.false_eq_true, if_false, hfw]
    have a1 : 3 * m * 11 % 32 = m := by omega
    have a2 : (3 * m * 11 - m) / 8 + 1 = 4 * m + 1 := by omega
    have a3 : (4 * m + 1) - (4 * m + 1) % 4 = 4 * m := by omega
    simp only [a1, a2, a3, hdiv, hpad]
    have hagain : addChecksumNat cs e = addChecksumNat cs e := rfl
    simp

/-- a sentence whose checksum bits do not match its entropy is rejected -/
theorem C18_mnemonic_checksum (cs : Bytes → Nat) (ws : List Nat) (hv : validCount ws.length = true)
    (hw : ws.any (· ≥ 2048) = false)
    (hbad : fromWords ws % 2 ^ (ws.length / 3) ≠
      (let e := padLeft (ws.length / 3 * 4) (natToBytes (fromWords ws / 2 ^ (ws.length / 3)))
       if ws.length ≠ 24 then cs e / 2 ^ (8 - ws.length / 3) else cs e)) :
    entropyFromMnemonic cs ws = .error .checksum := by
  unfold entropyFromMnemonic
  simp only [hv, hw, Bool.not_true, Bool.false_eq_true, if_false]
  simp only at hbad
  rw [if_pos hbad]

example : validLen 16 = true ∧ validLen 32 = true ∧ validLen 17 = false := by decide

end MassVerif.Mnemonic
