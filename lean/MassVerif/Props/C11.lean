/-
C11 — plot files are deleted only on request (the action half of the property;
the start-up scan half is `Props/C11Scan.lean`).
Property theorems only.  `filesExist` of a space is its pair of plot files;
`deleted` is the log of `Delete()` calls on the plot backend.
-/
import MassVerif.Proofs.Keeper

namespace MassVerif.Keeper

/-- **Remove and delete are refused while a space is plotting or mining**: the call returns
    `ErrWorkSpaceIsNotStill`; the space keeps its state, indexes, files and place in the list; nothing is
    deleted.  (Its pending plot/mine requests are cancelled: that is all the refused call does.) -/
theorem C11_guard {n : Nat} {k : K} (ls : List Label) (hr : run (initK n) ls = some k)
    (sid : Nat) (w : WS) (hw : k.ws sid = some w) (hu : w.inAll = true ∧ w.inUse = true)
    (hf : w.field = .plotting ∨ w.field = .mining) (a : Act) (ha : a = .remove ∨ a = .delete) :
    (act k a sid).2 = .error .notStill ∧
    (act k a sid).1.ws sid = some { w with epoch := w.epoch + 1 } ∧
    (∀ s, s ≠ sid → (act k a sid).1.ws s = k.ws s) ∧
    (act k a sid).1.list = k.list ∧ (act k a sid).1.deleted = k.deleted := by
  have hb := ((reachable_inv ls hr).i0.base sid w hw).idx
  simp only [hu.1, if_true] at hb
  have h1 : inState w .registered = false := by rcases hf with hf | hf <;> simp [inState, hb, hf]
  have h2 : inState w .ready = false := by rcases hf with hf | hf <;> simp [inState, hb, hf]
  rcases ha with rfl | rfl <;>
    simp [act, find, hw, hu.1, hu.2, h1, h2, cancel, purge, setWS] <;>
    (intro s hs; simp [hs])

/-- **Delete erases exactly that space's files**: a successful delete logs one `Delete()` — of `sid` —,
    that space's files are gone, and no other space is touched. -/
theorem C11_delete_exact {n : Nat} {k : K} (ls : List Label) (hr : run (initK n) ls = some k)
    (sid : Nat) (hok : (act k .delete sid).2 = .ok ()) :
    (act k .delete sid).1.deleted = k.deleted ++ [sid] ∧
    (∃ w', (act k .delete sid).1.ws sid = some w' ∧ w'.filesExist = false ∧ w'.inAll = false ∧ w'.inUse = false) ∧
    (∀ s, s ≠ sid → (act k .delete sid).1.ws s = k.ws s) ∧
    ∃ w, k.ws sid = some w ∧ (w.field = .registered ∨ w.field = .ready) := by
  have hi := reachable_inv ls hr
  cases hw : k.ws sid with
  | none => simp [act, find, hw] at hok
  | some w =>
    have huse : (!(w.inAll && w.inUse)) = false := by
      cases hu : (!(w.inAll && w.inUse)) with
      | false => rfl
      | true => simp [act, find, hw, hu] at hok
    cases hst : (inState w .registered || inState w .ready) with
    | false => simp [act, find, hw, huse, hst] at hok
    | true =>
      have hfield : w.field = .registered ∨ w.field = .ready := by
        rcases Bool.or_eq_true _ _ |>.mp hst with h1 | h1
        · exact Or.inl (field_of_inState hi.i0 hw h1)
        · exact Or.inr (field_of_inState hi.i0 hw h1)
      refine ⟨?_, ?_, ?_, w, rfl, hfield⟩
      · simp [act, find, hw, huse, hst, cancel, purge, setWS]
      · simp [act, find, hw, huse, hst, cancel, purge, setWS]
      · intro s hs; simp [act, find, hw, huse, hst, cancel, purge, setWS, hs]

/-- **Remove erases nothing**, whatever its outcome. -/
theorem C11_remove_erases_nothing {n : Nat} {k k' : K} (ls : List Label) (hr : run (initK n) ls = some k)
    (sid : Nat) (hm : micro k (.api .remove sid) = some k') :
    k'.deleted = k.deleted ∧ ∀ s w w', k.ws s = some w → k'.ws s = some w' → w'.filesExist = w.filesExist := by
  have he := micro_eff (reachable_inv ls hr) hm
  refine ⟨?_, ?_⟩
  · rcases he.deleted with h | ⟨s, h⟩
    · exact h
    · cases h
  · intro s w w' hw hw'
    obtain ⟨w'', a, _, _, b⟩ := he.wsSome s w hw
    rw [hw'] at a; cases a
    rcases b with b | b
    · exact b
    · cases b

/-- **No other operation deletes plot data**: any label that is not a delete request — every other
    request, every plotter step, plot completion or abort, keeper start and stop — leaves the deletion log
    and every space's files as they are. -/
theorem C11_nothing_else_deletes {n : Nat} {k k' : K} (ls : List Label) (hr : run (initK n) ls = some k)
    (l : Label) (hl : ∀ sid, l ≠ .api .delete sid) (hm : micro k l = some k') :
    k'.deleted = k.deleted ∧ ∀ s w w', k.ws s = some w → k'.ws s = some w' → w'.filesExist = w.filesExist := by
  have he := micro_eff (reachable_inv ls hr) hm
  refine ⟨?_, ?_⟩
  · rcases he.deleted with h | ⟨s, h⟩
    · exact h
    · exact absurd h (hl s)
  · intro s w w' hw hw'
    obtain ⟨w'', a, _, _, b⟩ := he.wsSome s w hw
    rw [hw'] at a; cases a
    rcases b with b | b
    · exact b
    · exact absurd b (hl s)

/-- … and a delete request for one space leaves every other space's files alone. -/
theorem C11_delete_touches_one {n : Nat} {k k' : K} (ls : List Label) (hr : run (initK n) ls = some k)
    (sid : Nat) (hm : micro k (.api .delete sid) = some k') (s : Nat) (hs : s ≠ sid) (w w' : WS)
    (hw : k.ws s = some w) (hw' : k'.ws s = some w') : w'.filesExist = w.filesExist := by
  have he := micro_eff (reachable_inv ls hr) hm
  obtain ⟨w'', a, _, _, b⟩ := he.wsSome s w hw
  rw [hw'] at a; cases a
  rcases b with b | b
  · exact b
  · cases b; exact absurd rfl hs

/-! ### not vacuous -/
def errOf : Except Err Unit → Option Err
  | .ok _ => none
  | .error e => some e

example : errOf (act ((run (initK 2) [.start, .api .plot 0, .recv, .pop false 0, .step1]).getD {}) .delete 0).2 = some .notStill := by decide
example : errOf (act (initK 2) .delete 1).2 = none ∧ (act (initK 2) .delete 1).1.deleted = [1] := by decide

/-- the guards of `RemoveWS` / `DeleteWS` that the model's `remove` / `delete` labels transcribe stand in the source as
    transcribed (regenerated): a space in use, registered or ready, else `ErrWorkSpaceIsNotStill`; only `DeleteWS` reaches
    `ws.Delete()` -/
theorem C11_condition_facts : Facts.condKeeperRemove = true ∧ Facts.condKeeperDelete = true := by decide

end MassVerif.Keeper
