/-
C07 / C10 / C11 at the level of the plot files' BYTES (`Model/PlotFile.lean`).
Property theorems only.

The record-level theorems of `Props/C07.lean` / `Props/C10.lean` speak about tables
of optional values.  These carry them down to the files as the code writes them:
`L`-byte little-endian records, a cache of any byte length flushed whole (spilling
zeros past the window), cache lengths as `makeAvailableMemory` yields them, the
checkpoint in the header block of the same file, and `Get` / `GetProof` reading
the bytes back.  `P`, `FB` and `VerifyProof` stay parameters.
-/
import MassVerif.Proofs.PlotFile
import MassVerif.Props.C07

namespace MassVerif.PlotFile
open MassVerif.Plot

/-- a freshly created map file: data all zero (`expandMapFile`), checkpoint 0 -/
def freshFile : FileState := { data := fun _ => 0, cp := 0 }

theorem absRec_fresh (L r : Nat) : absRec freshFile.data L r = none := by
  have : readLE (fun _ => 0) (r * L) L = 0 := readLE_zero (r * L) L
  simp [absRec, freshFile, this]

/-- **Bytes refine records (one pass, any history of windows).**  Start from a file whose records below
    its checkpoint agree with a record-level state; run any number of windows with any cache byte lengths
    that never exceed what remains (`Fits`).  Then the file's checkpoint is the record-level run's, and
    every record below it reads back as the record-level table says - although each flush writes the
    whole cache, zeros included, past the window. -/
theorem C07_bytes_refine_records (ws : List (Nat × Nat)) (L limit : Nat) (win : Nat → Nat) (hL : 0 < L)
    (hwin : ∀ clen, win clen * L ≤ clen) (hv : ∀ w ∈ ws, w.2 < 256 ^ L ∧ w.2 ≠ 0)
    (clens : List Nat) (st : FileState) (ps : PassState Nat)
    (hcp : ps.checkpoint = st.cp) (hag : ∀ r, r < st.cp → absRec st.data L r = ps.table r)
    (hfits : Fits L limit win clens st.cp) :
    (runWindows ws limit (clens.map win) ps).checkpoint = (runBytes ws L limit win clens st).cp ∧
    ∀ r, r < (runBytes ws L limit win clens st).cp →
      absRec (runBytes ws L limit win clens st).data L r = (runWindows ws limit (clens.map win) ps).table r :=
  runBytes_refines ws L limit win hL hwin hv clens st ps hcp hag hfits

theorem winA_fits (L clen : Nat) : winA L clen * L ≤ clen := by
  unfold winA
  calc (clen / L - clen / L % 2) * L ≤ clen / L * L := Nat.mul_le_mul_right _ (Nat.sub_le _ _)
    _ ≤ clen := Nat.div_mul_le_self clen L

theorem winB_fits (L clen : Nat) : winB L clen * L ≤ clen := by
  unfold winB
  calc 4 * (clen / L / 4) * L ≤ clen / L * L :=
        Nat.mul_le_mul_right _ (by rw [Nat.mul_comm]; exact Nat.div_mul_le_self _ 4)
    _ ≤ clen := Nat.div_mul_le_self clen L

/-- **A completed pass, on bytes**: from a fresh file, whatever the cache lengths, once the checkpoint has
    reached the end every record of the data region is the last value the pass wrote there (zero bytes
    where it wrote nothing). -/
theorem C07_file_pass_complete (ws : List (Nat × Nat)) (L limit : Nat) (win : Nat → Nat) (hL : 0 < L)
    (hwin : ∀ clen, win clen * L ≤ clen) (hv : ∀ w ∈ ws, w.2 < 256 ^ L ∧ w.2 ≠ 0)
    (clens : List Nat) (hfits : Fits L limit win clens 0)
    (hdone : limit ≤ (runBytes ws L limit win clens freshFile).cp) :
    ∀ r, r < limit → absRec (runBytes ws L limit win clens freshFile).data L r = lastWrite ws r := by
  intro r hr
  have h := runBytes_refines ws L limit win hL hwin hv clens freshFile (fresh : PassState Nat) rfl
    (fun r _ => by rw [absRec_fresh]; rfl) hfits
  rw [h.2 r (by omega)]
  exact C07_pass_complete ws limit _ fresh (fresh_final _) (by rw [h.1]; exact hdone) r hr

/-- values of pass A fit a record and are not the zero record -/
theorem writesA_values (p : Params) (hbl : p.bl ≤ 8 * recordSize p.bl) :
    ∀ w ∈ writesA p, w.2 < 256 ^ recordSize p.bl ∧ w.2 ≠ 0 := by
  intro w hw
  unfold writesA at hw
  simp only [List.mem_map, List.mem_filter, List.mem_range] at hw
  obtain ⟨x, ⟨hx1, hx2⟩, rfl⟩ := hw
  have hne : x ≠ 0 := by simpa using hx2
  refine ⟨?_, hne⟩
  simp only
  have h256 : (256 : Nat) = 2 ^ 8 := by decide
  rw [h256, ← Nat.pow_mul]
  exact Nat.lt_of_lt_of_le hx1 (Nat.pow_le_pow_right (by decide) hbl)

theorem bl_le_record (bl : Nat) : bl ≤ 8 * recordSize bl := by
  unfold recordSize; omega

/-- **Map A on disk after a completed pre-plot pass is the construction's table A**, byte for byte
    decodable: record `pos` holds the `x` with `posA x = pos` that the construction puts there. -/
theorem C07_fileA (p : Params) (hbl : 1 ≤ p.bl) (clens : List Nat)
    (hfits : Fits (recordSize p.bl) p.N (winA (recordSize p.bl)) clens 0)
    (hdone : p.N ≤ (runBytes (writesA p) (recordSize p.bl) p.N (winA (recordSize p.bl)) clens freshFile).cp) :
    ∀ pos, pos < p.N →
      absRec (runBytes (writesA p) (recordSize p.bl) p.N (winA (recordSize p.bl)) clens freshFile).data
        (recordSize p.bl) pos = specA p pos :=
  C07_file_pass_complete (writesA p) (recordSize p.bl) p.N _ (by unfold recordSize; omega)
    (winA_fits _) (writesA_values p (bl_le_record _)) clens hfits hdone

/-- values of pass B are values of table A -/
theorem writesB_values (p : Params) (L : Nat) (a : Table Nat) (ha : ∀ pos x, a pos = some x → x < 256 ^ L ∧ x ≠ 0) :
    ∀ w ∈ recWritesB (writesB p a), w.2 < 256 ^ L ∧ w.2 ≠ 0 := by
  intro w hw
  unfold recWritesB writesB at hw
  simp only [List.mem_flatMap, List.mem_range] at hw
  obtain ⟨e, ⟨y, _, he⟩, hw⟩ := hw
  split at he
  · rename_i x x' hx hx'
    simp only [List.mem_cons, List.not_mem_nil, or_false] at he hw
    rcases he with rfl | rfl <;> rcases hw with rfl | rfl <;> simp only
    · exact ha _ _ hx
    · exact ha _ _ hx'
    · exact ha _ _ hx'
    · exact ha _ _ hx
  · simp at he

/-- entries of a map-B data region whose records are the record-level last writes -/
theorem absPair_of_records (f : Bytes) (L : Nat) (ws : List (Nat × (Nat × Nat))) (z : Nat)
    (h0 : absRec f L (2 * z) = lastWrite (recWritesB ws) (2 * z))
    (h1 : absRec f L (2 * z + 1) = lastWrite (recWritesB ws) (2 * z + 1)) :
    absPair f L z = lastWrite ws z := by
  rw [absPair_of_absRec, h0, h1, (lastWrite_recWritesB ws z).1, (lastWrite_recWritesB ws z).2]
  cases lastWrite ws z with
  | none => rfl
  | some v => simp

/-- **Map B on disk after a completed plot is the construction's table B.**  Pass B here reads table A
    from a data region `fa` that decodes to `specA` (which `C07_fileA` provides), runs over any cache
    lengths, and its entries are written as two `L`-byte records each. -/
theorem C07_fileB (p : Params) (hbl : 1 ≤ p.bl) (fa : Bytes)
    (hA : ∀ pos, pos < p.N → absRec fa (recordSize p.bl) pos = specA p pos) (clens : List Nat)
    (hfits : Fits (recordSize p.bl) (2 * p.N) (winB (recordSize p.bl)) clens 0)
    (hdone : 2 * p.N ≤ (runBytes (recWritesB (writesB p (absRec fa (recordSize p.bl)))) (recordSize p.bl) (2 * p.N)
      (winB (recordSize p.bl)) clens freshFile).cp) :
    ∀ z, z < p.N →
      absPair (runBytes (recWritesB (writesB p (absRec fa (recordSize p.bl)))) (recordSize p.bl) (2 * p.N)
        (winB (recordSize p.bl)) clens freshFile).data (recordSize p.bl) z = specB p z := by
  intro z hz
  have hw : writesB p (absRec fa (recordSize p.bl)) = writesB p (specA p) := writesB_congr p hbl _ _ hA
  rw [hw] at hdone ⊢
  have hvals : ∀ w ∈ recWritesB (writesB p (specA p)), w.2 < 256 ^ recordSize p.bl ∧ w.2 ≠ 0 := by
    apply writesB_values
    intro pos x hx
    have := C07_mapA_sound p pos x hx
    refine ⟨?_, by omega⟩
    have h256 : (256 : Nat) = 2 ^ 8 := by decide
    rw [h256, ← Nat.pow_mul]
    exact Nat.lt_of_lt_of_le this.2.2 (Nat.pow_le_pow_right (by decide) (bl_le_record _))
  have hrec := C07_file_pass_complete (recWritesB (writesB p (specA p))) (recordSize p.bl) (2 * p.N) _
    (by unfold recordSize; omega) (winB_fits _) hvals clens hfits hdone
  unfold specB
  exact absPair_of_records _ _ _ z (hrec (2 * z) (by omega)) (hrec (2 * z + 1) (by omega))

/-- **`MassDBV1.Get` returns the stored pair**: masking with `2^bl` changes nothing on a completed plot -/
theorem C07_get_serves (p : Params) (fb : Bytes) (z x x' : Nat)
    (hB : absPair fb (recordSize p.bl) z = specB p z) (hs : specB p z = some (x, x')) :
    getB fb p.bl z = (x, x') := by
  have hsound := C07_sound p z x x' hs
  obtain ⟨_, y, _, hy⟩ := hsound
  have hx : x < p.N ∧ x' < p.N := by
    rcases hy with ⟨h1, h2⟩ | ⟨h1, h2⟩
    · exact ⟨(C07_mapA_sound p _ _ h1).2.2, (C07_mapA_sound p _ _ h2).2.2⟩
    · exact ⟨(C07_mapA_sound p _ _ h2).2.2, (C07_mapA_sound p _ _ h1).2.2⟩
  rw [hs] at hB
  unfold absPair at hB
  simp only at hB
  split at hB
  · cases hB
  · simp only [Option.some.injEq, Prod.mk.injEq] at hB
    unfold getB toValue
    simp only [hB.1, hB.2]
    unfold Params.N at hx
    rw [Nat.mod_eq_of_lt hx.1, Nat.mod_eq_of_lt hx.2]

/-- **Served proofs verify, and a proof is served whenever the construction has one** (for any
    `VerifyProof`): `GetProof` hands out exactly the stored pair, and only if the library accepts it;
    if the library accepts the construction's pair for `z`, it is served. -/
theorem C07_getProof (p : Params) (verify : Nat → Nat → Nat → Bool) (fb : Bytes) (z : Nat)
    (hB : absPair fb (recordSize p.bl) z = specB p z) :
    (∀ pr, getProof verify fb p.bl z = some pr → verify pr.1 pr.2 z = true) ∧
    (∀ x x', specB p z = some (x, x') → verify x x' z = true → getProof verify fb p.bl z = some (x, x')) := by
  constructor
  · intro pr h
    unfold getProof at h
    simp only at h
    split at h
    · simp only [Option.some.injEq] at h; subst h; assumption
    · cases h
  · intro x x' hs hv
    unfold getProof
    rw [C07_get_serves p fb z x x' hB hs]
    simp [hv]

/-- the resumption invariant on bytes: every record below the stored checkpoint holds its final value (or is zero
    where the pass writes nothing); what lies at or above the checkpoint is arbitrary - present, absent or torn -/
def FinalBytes (ws : List (Nat × Nat)) (L : Nat) (st : FileState) : Prop :=
  ∀ r, r < st.cp → absRec st.data L r = lastWrite ws r

/-- **Resume, on bytes (C10).**  From ANY file image that satisfies the invariant - whatever bytes a crash left at or
    above the checkpoint - and with any cache lengths in the resumed run, a run that completes leaves the records the
    uninterrupted pass leaves. -/
theorem C10_file_resume (ws : List (Nat × Nat)) (L limit : Nat) (win : Nat → Nat) (hL : 0 < L)
    (hwin : ∀ clen, win clen * L ≤ clen) (hv : ∀ w ∈ ws, w.2 < 256 ^ L ∧ w.2 ≠ 0)
    (st : FileState) (hf : FinalBytes ws L st) (clens : List Nat) (hfits : Fits L limit win clens st.cp)
    (hdone : limit ≤ (runBytes ws L limit win clens st).cp) :
    ∀ r, r < limit → absRec (runBytes ws L limit win clens st).data L r = lastWrite ws r := by
  intro r hr
  -- the record-level state the image abstracts to: its own records, its checkpoint
  let ps : PassState Nat := { table := absRec st.data L, checkpoint := st.cp }
  have h := runBytes_refines ws L limit win hL hwin hv clens st ps rfl (fun _ _ => rfl) hfits
  rw [h.2 r (by omega)]
  exact C07_pass_complete ws limit _ ps (fun pos hp => hf pos hp) (by rw [h.1]; exact hdone) r hr

/-- every image a run passes through satisfies the invariant (so does every crash image: a crash changes nothing below
    the checkpoint that was synced before it) -/
theorem C10_file_invariant (ws : List (Nat × Nat)) (L limit : Nat) (win : Nat → Nat) (hL : 0 < L)
    (hwin : ∀ clen, win clen * L ≤ clen) (hv : ∀ w ∈ ws, w.2 < 256 ^ L ∧ w.2 ≠ 0)
    (st : FileState) (hf : FinalBytes ws L st) (clens : List Nat) (hfits : Fits L limit win clens st.cp) :
    FinalBytes ws L (runBytes ws L limit win clens st) := by
  intro r hr
  let ps : PassState Nat := { table := absRec st.data L, checkpoint := st.cp }
  have h := runBytes_refines ws L limit win hL hwin hv clens st ps rfl (fun _ _ => rfl) hfits
  rw [h.2 r hr]
  exact final_runWindows ws limit _ ps (fun pos hp => hf pos hp) r (by rw [h.1]; exact hr)

/-- **The whole plot, on bytes (C07).**  Fresh files; pass A over any cache lengths, then pass B - reading table A
    from the bytes pass A left - over any cache lengths: once both checkpoints have reached the end, entry `z` of
    map B decodes to what the construction defines, and `Get` returns exactly the stored pair. -/
theorem C07_file_plot (p : Params) (hbl : 1 ≤ p.bl) (clensA clensB : List Nat)
    (hfA : Fits (recordSize p.bl) p.N (winA (recordSize p.bl)) clensA 0)
    (hdA : p.N ≤ (runBytes (writesA p) (recordSize p.bl) p.N (winA (recordSize p.bl)) clensA freshFile).cp)
    (hfB : Fits (recordSize p.bl) (2 * p.N) (winB (recordSize p.bl)) clensB 0)
    (hdB : 2 * p.N ≤ (runBytes (recWritesB (writesB p (absRec
        (runBytes (writesA p) (recordSize p.bl) p.N (winA (recordSize p.bl)) clensA freshFile).data (recordSize p.bl))))
        (recordSize p.bl) (2 * p.N) (winB (recordSize p.bl)) clensB freshFile).cp) :
    ∀ z, z < p.N →
      absPair (runBytes (recWritesB (writesB p (absRec
        (runBytes (writesA p) (recordSize p.bl) p.N (winA (recordSize p.bl)) clensA freshFile).data (recordSize p.bl))))
        (recordSize p.bl) (2 * p.N) (winB (recordSize p.bl)) clensB freshFile).data (recordSize p.bl) z = specB p z :=
  C07_fileB p hbl _ (C07_fileA p hbl clensA hfA hdA) clensB hfB hdB

/-! ### cache lengths as `makeAvailableMemory` yields them (C10: every window makes progress and stays inside the file) -/

/-- pass A: with `minMem ≥ 2` records the window holds at least two records and never crosses the end -/
theorem C10_mem_window_A (N L cp maxMem minMem available clen : Nat) (hL : 0 < L)
    (hmm : minMem ≤ maxMem) (hmin : 2 * L ≤ minMem) (hcp : cp < N) (hcpe : cp % 2 = 0) (hNe : N % 2 = 0)
    (h : memFor (requiredA N L cp) maxMem minMem available = some clen) :
    2 ≤ winA L clen ∧ cp + winA L clen ≤ N ∧ (cp + winA L clen) % 2 = 0 := by
  have hle := memFor_le _ _ _ _ _ h
  have hge := memFor_ge _ _ _ _ _ hmm (by omega) h
  unfold requiredA at hle hge
  have hk : 2 ≤ clen / L := by
    rw [Nat.le_div_iff_mul_le hL]
    rcases hge with rfl | hge
    · have : 2 ≤ N - cp := by omega
      exact Nat.mul_le_mul_right L this
    · omega
  have hkN : clen / L ≤ N - cp := by
    have := Nat.div_le_div_right (c := L) hle
    rwa [Nat.mul_div_cancel _ hL] at this
  unfold winA
  omega

/-- pass B: the window covers at least one half-index and never crosses the end -/
theorem C10_mem_window_B (half L cph maxMem minMem available clen : Nat) (hL : 0 < L)
    (hmm : minMem ≤ maxMem) (hmin : 4 * L ≤ minMem) (hcp : cph < half)
    (h : memFor (requiredB half L cph) maxMem minMem available = some clen) :
    1 ≤ clen / L / 4 ∧ cph + clen / L / 4 ≤ half := by
  have hle := memFor_le _ _ _ _ _ h
  have hge := memFor_ge _ _ _ _ _ hmm (by omega) h
  unfold requiredB at hle hge
  have e : (half - cph) * L * 4 = (half - cph) * 4 * L := by
    rw [Nat.mul_assoc, Nat.mul_comm L 4, ← Nat.mul_assoc]
  rw [e] at hle hge
  have hk : 4 ≤ clen / L := by
    rw [Nat.le_div_iff_mul_le hL]
    rcases hge with rfl | hge
    · have : 4 ≤ (half - cph) * 4 := by omega
      exact Nat.mul_le_mul_right L this
    · omega
  have hkN : clen / L ≤ (half - cph) * 4 := by
    have := Nat.div_le_div_right (c := L) hle
    rwa [Nat.mul_div_cancel _ hL] at this
  omega

/-! ### header and data share a file (C10: progress record vs. data; C11: the header that is checked) -/

theorem putAt_get_in (f : Bytes) (pos : Nat) (l : List Nat) (i : Nat) (hi : i < l.length) :
    putAt f pos l (pos + i) = l.getD i 0 := by
  have h : pos ≤ pos + i ∧ pos + i < pos + l.length := by omega
  have e : pos + i - pos = i := by omega
  simp [putAt, h, e]

theorem putAt_get_out (f : Bytes) (pos : Nat) (l : List Nat) (i : Nat) (hi : i < pos ∨ pos + l.length ≤ i) :
    putAt f pos l i = f i := by
  have h : ¬ (pos ≤ i ∧ i < pos + l.length) := by omega
  simp [putAt, h]

/-- **The checkpoint write touches only its own 8 bytes**: no data byte, no other header byte. -/
theorem C10_checkpoint_write_local (f : Bytes) (cp i : Nat) (hi : i < posCheckpoint ∨ posCheckpoint + 8 ≤ i) :
    updateCheckpoint f cp i = f i := by
  unfold updateCheckpoint
  apply putAt_get_out
  simpa [leBytes] using hi

/-- **A window's data write never touches the header block**, whatever the cache length. -/
theorem C10_data_write_keeps_header (file : Bytes) (L s clen : Nat) (c : Bytes) (i : Nat) (hi : i < lenMeta) :
    fileFlush file L s clen c i = file i := by
  unfold fileFlush flush
  have : ¬ (lenMeta + s * L ≤ i ∧ i < lenMeta + s * L + clen) := by omega
  simp [this]

/-- **The checkpoint read back is the checkpoint written** (8 little-endian bytes, `cp < 2^64`). -/
theorem C10_checkpoint_roundtrip (f : Bytes) (cp : Nat) (hcp : cp < 2 ^ 64) :
    readLE (updateCheckpoint f cp) posCheckpoint 8 = cp := by
  have h := readLE_congr (updateCheckpoint f cp) (fun j => leByte cp (j - posCheckpoint)) posCheckpoint 8
    (fun j h1 h2 => by
      obtain ⟨i, rfl⟩ : ∃ i, j = posCheckpoint + i := ⟨j - posCheckpoint, by omega⟩
      have hi : i < 8 := by omega
      unfold updateCheckpoint
      rw [putAt_get_in _ _ _ _ (by simpa [leBytes] using hi)]
      have e : posCheckpoint + i - posCheckpoint = i := by omega
      rw [e]
      simp [leBytes, hi])
  rw [h]
  have := readLE_leByte cp posCheckpoint 0 8
  simp only [Nat.add_zero, Nat.pow_zero, Nat.div_one] at this
  rw [this, Nat.mod_eq_of_lt (by rw [show (256 : Nat) ^ 8 = 2 ^ 64 by decide]; exact hcp)]

theorem readLE_putAt_other (f : Bytes) (pos : Nat) (l : List Nat) (t n : Nat) (h : t + n ≤ pos ∨ pos + l.length ≤ t) :
    readLE (putAt f pos l) t n = readLE f t n := by
  apply readLE_congr
  intro j h1 h2
  exact putAt_get_out f pos l j (by omega)

theorem readLE_putAt_leBytes (f : Bytes) (pos v : Nat) (hv : v < 2 ^ 64) :
    readLE (putAt f pos (leBytes v 8)) pos 8 = v := by
  have h := readLE_congr (putAt f pos (leBytes v 8)) (fun j => leByte v (j - pos)) pos 8
    (fun j h1 h2 => by
      obtain ⟨i, rfl⟩ : ∃ i, j = pos + i := ⟨j - pos, by omega⟩
      have hi : i < 8 := by omega
      rw [putAt_get_in _ _ _ _ (by simpa [leBytes] using hi)]
      have e : pos + i - pos = i := by omega
      rw [e]
      simp [leBytes, hi])
  rw [h]
  have := readLE_leByte v pos 0 8
  simp only [Nat.add_zero, Nat.pow_zero, Nat.div_one] at this
  rw [this, Nat.mod_eq_of_lt (by rw [show (256 : Nat) ^ 8 = 2 ^ 64 by decide]; exact hv)]

theorem slice_putAt_same (f : Bytes) (pos : Nat) (l : List Nat) : slice (putAt f pos l) pos l.length = l := by
  apply List.ext_getElem
  · simp [slice]
  · intro i h1 h2
    simp only [slice, List.getElem_map, List.getElem_range]
    rw [putAt_get_in f pos l i h2]
    simp [h2]

theorem slice_putAt_other (f : Bytes) (pos : Nat) (l : List Nat) (t n : Nat) (h : t + n ≤ pos ∨ pos + l.length ≤ t) :
    slice (putAt f pos l) t n = slice f t n := by
  apply List.ext_getElem
  · simp [slice]
  · intro i h1 _
    have hi : i < n := by simpa [slice] using h1
    simp only [slice, List.getElem_map, List.getElem_range]
    exact putAt_get_out f pos l (t + i) (by omega)

/-- **The header `createMapFile` writes is the header `loadHashMap` reads**: the seven fields sit at
    disjoint positions, so every one of them - file code, version, bit length, map type, checkpoint, key
    hash, key - decodes to what was encoded. -/
theorem C11_header_roundtrip (code : List Nat) (version typA typB : Nat) (parses : List Nat → Bool)
    (hashOf : List Nat → List Nat) (h : Header)
    (hcode : code.length = 32) (hver : version < 2 ^ 64) (hbl : h.bl < 256) (htyp : h.typ < 256)
    (hAB : h.typ = typA ∨ h.typ = typB) (hcp : h.checkpoint < 2 ^ 64)
    (hh : h.pkHash.length = 32) (hk : h.pk.length = 33) (hp : parses h.pk = true) (hhash : hashOf h.pk = h.pkHash) :
    decodeHeader code version typA typB parses hashOf (encodeHeader code version h) = .ok h := by
  have l8 : ∀ v, (leBytes v 8).length = 8 := fun v => by simp [leBytes]
  -- the key
  have epk : slice (encodeHeader code version h) posPubKey 33 = h.pk := by
    unfold encodeHeader
    rw [← hk]; exact slice_putAt_same _ _ _
  -- the key hash
  have ehash : slice (encodeHeader code version h) posPubKeyHash 32 = h.pkHash := by
    unfold encodeHeader
    rw [slice_putAt_other _ _ _ _ _ (by simp [posPubKey, posPubKeyHash]), ← hh]
    exact slice_putAt_same _ _ _
  -- the checkpoint
  have ecp : readLE (encodeHeader code version h) posCheckpoint 8 = h.checkpoint := by
    unfold encodeHeader
    rw [readLE_putAt_other _ _ _ _ _ (by simp [posPubKey, posCheckpoint]),
      readLE_putAt_other _ _ _ _ _ (by simp [posPubKeyHash, posCheckpoint])]
    exact readLE_putAt_leBytes _ _ _ hcp
  -- the type
  have etyp : encodeHeader code version h posType = h.typ := by
    unfold encodeHeader
    rw [putAt_get_out _ _ _ _ (by simp [posPubKey, posType]), putAt_get_out _ _ _ _ (by simp [posPubKeyHash, posType]),
      putAt_get_out _ _ _ _ (by simp [posCheckpoint, posType, l8])]
    have := putAt_get_in (putAt (putAt (putAt (fun _ => 0) 0 code) posVersion (leBytes version 8)) posBitLength [h.bl % 256])
      posType [h.typ % 256] 0 (by simp)
    simp only [Nat.add_zero] at this
    rw [this]
    simp [Nat.mod_eq_of_lt htyp]
  -- the bit length
  have ebl : encodeHeader code version h posBitLength = h.bl := by
    unfold encodeHeader
    rw [putAt_get_out _ _ _ _ (by simp [posPubKey, posBitLength]), putAt_get_out _ _ _ _ (by simp [posPubKeyHash, posBitLength]),
      putAt_get_out _ _ _ _ (by simp [posCheckpoint, posBitLength, l8]), putAt_get_out _ _ _ _ (by simp [posType, posBitLength])]
    have := putAt_get_in (putAt (putAt (fun _ => 0) 0 code) posVersion (leBytes version 8)) posBitLength [h.bl % 256] 0 (by simp)
    simp only [Nat.add_zero] at this
    rw [this]
    simp [Nat.mod_eq_of_lt hbl]
  -- the version
  have ever : readLE (encodeHeader code version h) posVersion 8 = version := by
    unfold encodeHeader
    rw [readLE_putAt_other _ _ _ _ _ (by simp [posPubKey, posVersion]),
      readLE_putAt_other _ _ _ _ _ (by simp [posPubKeyHash, posVersion]),
      readLE_putAt_other _ _ _ _ _ (by simp [posCheckpoint, posVersion, l8]),
      readLE_putAt_other _ _ _ _ _ (by simp [posType, posVersion]),
      readLE_putAt_other _ _ _ _ _ (by simp [posBitLength, posVersion])]
    exact readLE_putAt_leBytes _ _ _ hver
  -- the file code
  have ecode : slice (encodeHeader code version h) 0 code.length = code := by
    unfold encodeHeader
    rw [slice_putAt_other _ _ _ _ _ (by simp [posPubKey, hcode]), slice_putAt_other _ _ _ _ _ (by simp [posPubKeyHash, hcode]),
      slice_putAt_other _ _ _ _ _ (by simp [posCheckpoint, hcode, l8]), slice_putAt_other _ _ _ _ _ (by simp [posType, hcode]),
      slice_putAt_other _ _ _ _ _ (by simp [posBitLength, hcode]), slice_putAt_other _ _ _ _ _ (by simp [posVersion, hcode, l8])]
    exact slice_putAt_same _ _ _
  unfold decodeHeader
  simp only [ecode, ever, epk, ehash, ecp, etyp, ebl, hp, hhash, ne_eq, not_true_eq_false, if_false, Bool.not_true,
    Bool.false_eq_true]
  have : ¬ (¬ h.typ = typA ∧ ¬ h.typ = typB) := by
    rcases hAB with e | e <;> simp [e]
  simp [this]

/-- **What `loadHashMap` rejects**: a wrong file code, another version, a key that does not parse, a key
    hash that is not the hash of the stored key, an unknown map type - each is an error, whatever else
    the block holds. -/
theorem C11_header_rejects (code : List Nat) (version typA typB : Nat) (parses : List Nat → Bool)
    (hashOf : List Nat → List Nat) (f : Bytes) (h : Header)
    (hok : decodeHeader code version typA typB parses hashOf f = .ok h) :
    slice f 0 code.length = code ∧ readLE f posVersion 8 = version ∧ parses (slice f posPubKey 33) = true ∧
    slice f posPubKeyHash 32 = hashOf (slice f posPubKey 33) ∧ (f posType = typA ∨ f posType = typB) ∧
    h.bl = f posBitLength ∧ h.checkpoint = readLE f posCheckpoint 8 ∧ h.pk = slice f posPubKey 33 ∧ h.typ = f posType := by
  unfold decodeHeader at hok
  by_cases h1 : slice f 0 code.length = code <;> simp only [h1, ne_eq, not_true_eq_false, not_false_eq_true, if_true, if_false] at hok
  · by_cases h2 : readLE f posVersion 8 = version <;> simp only [h2, not_true_eq_false, not_false_eq_true, if_true, if_false] at hok
    · by_cases h3 : parses (slice f posPubKey 33) = true <;> simp only [h3, Bool.not_true, Bool.false_eq_true, if_false] at hok
      · by_cases h4 : slice f posPubKeyHash 32 = hashOf (slice f posPubKey 33) <;> simp only [h4, not_true_eq_false, not_false_eq_true, if_true, if_false] at hok
        · by_cases h5 : ¬ f posType = typA ∧ ¬ f posType = typB <;> simp only [h5, if_true, if_false] at hok
          · cases hok
          · simp only [Except.ok.injEq] at hok
            subst hok
            refine ⟨h1, h2, h3, h4, ?_, rfl, rfl, rfl, rfl⟩
            omega
        · cases hok
      · simp at h3
        simp [h3] at hok
    · cases hok
  · cases hok

/-! ### regenerated facts: the layout, bounds and expressions the byte-level model transcribes -/

/-- the header positions and lengths of hashmap.go are the model's, and the fields tile `[0, 115)` -/
theorem C07_file_layout_facts :
    Facts.plotPosFileCode = 0 ∧ Facts.plotLenFileCode = 32 ∧
    posVersion = Facts.plotPosVersion ∧ Facts.plotLenVersion = 8 ∧
    posBitLength = Facts.plotPosBitLength ∧ Facts.plotLenBitLength = 1 ∧
    posType = Facts.plotPosType ∧ Facts.plotLenType = 1 ∧
    posCheckpoint = Facts.plotPosCheckpoint ∧ Facts.plotLenCheckpoint = 8 ∧
    posPubKeyHash = Facts.plotPosPubKeyHash ∧ Facts.plotLenPubKeyHash = 32 ∧
    posPubKey = Facts.plotPosPubKey ∧ Facts.plotLenPubKey = 33 ∧
    posAlign = Facts.plotPosAlignHolder ∧ lenMeta = Facts.plotPosProofData ∧ lenMeta = Facts.lenMetaInfo ∧
    Facts.plotDbVersion = 1 := by decide

/-- the comparison and offset expressions of plot.go / hashmap.go / massdb.v1.go that the model transcribes
    stand in the source as transcribed (an edit re-opens this theorem) -/
theorem C07_file_condition_facts :
    Facts.condPlotMem = true ∧ Facts.condPlotPassA = true ∧ Facts.condPlotPassB = true ∧
    Facts.condPlotGetB = true ∧ Facts.condPlotCheckpoint = true ∧ Facts.condPlotGetProof = true := by decide

/-- with the code's memory bounds and records of at most 8 bytes every window of either pass makes
    progress and stays inside the table (`C10_mem_window_A/B` instantiated) -/
theorem C10_mem_bounds_facts (L : Nat) (hL : L ≤ 8) :
    2 * L ≤ Facts.plotMinPrePlotMem ∧ Facts.plotMinPrePlotMem ≤ Facts.plotMaxPrePlotMem ∧
    4 * L ≤ Facts.plotMinPlotMem ∧ Facts.plotMinPlotMem ≤ Facts.plotMaxPlotMem := by
  have h1 : Facts.plotMinPrePlotMem = 268435456 := by decide
  have h2 : Facts.plotMaxPrePlotMem = 4294967296 := by decide
  have h3 : Facts.plotMinPlotMem = 268435456 := by decide
  have h4 : Facts.plotMaxPlotMem = 4294967296 := by decide
  omega

/-- non-vacuity: a 3-bit plot (1-byte records) through caches of 3, 5 and 2 BYTES - the first flush
    spills a zero byte over record 2, the second over record 6 - completes to the construction's table A -/
private def p0 : Params := { bl := 3, P := fun x => (5 * x + 3) % 8, FB := fun a b => (a + 3 * b) % 8 }
example : Fits 1 8 (winA 1) [3, 5, 2] 0 := by simp [Fits, winA]
example : (runBytes (writesA p0) 1 8 (winA 1) [3, 5, 2] freshFile).cp = 8 := by decide
example : (List.range 8).map (absRec (runBytes (writesA p0) 1 8 (winA 1) [3, 5, 2] freshFile).data 1)
    = (List.range 8).map (specA p0) := by decide

end MassVerif.PlotFile
