/-
C01 — an exported keystore restores the same wallet identity and keys.
Property theorems only.  Keys are the symbolic triples (keystore identity,
branch, index): "the same keys at the same indices" is "the same identity and
the same counters" (that one identity and path yield one key is C18).
-/
import MassVerif.Props.C03

namespace MassVerif.Wallet

/-- what an export writes: the durable image of the keystore at that moment -/
def snapshot (d : KsD) : File := { id := d.id, remark := d.remark, ext := d.ext, int := d.int, priv := d.priv }

/-- **Export** (with the current passphrase) appends exactly the keystore's snapshot. -/
theorem C01_export_snapshot (w : W) (id : Nat) (p : Pass) (n : Nat)
    (h : (step w (.exportKs id p)).2 = .file n) :
    ∃ d, findD w id = some d ∧ d.priv = p.id ∧ n = w.files.length ∧
      (step w (.exportKs id p)).1.files = w.files ++ [snapshot d] ∧
      (step w (.exportKs id p)).1.dur = w.dur := by
  simp only [step] at h ⊢
  split at h
  · rename_i m d hm hd
    split at h
    · cases h
    · rename_i hp
      dsimp only at h
      injection h with h1
      refine ⟨d, hd, by simpa using hp, h1.symm, ?_, ?_⟩
      · simp [hp, snapshot, zeroMaster, setMem]
      · simp [hp, zeroMaster, setMem]
  · cases h

/-- the conditions `ImportKeystore` puts on the passphrase of the *receiving* wallet -/
def PassRuleOk (w : W) (p : Pass) : Prop := p.wf = true ∧ p.id ≠ w.pubPass.id ∧ checkOne w p = true

/-- **Round trip.**  Importing an untampered file (also one whose ignored
    fields were altered) with the passphrase in force at export, into any wallet
    that does not hold that keystore, yields the same identity, remark and
    counters, sealed under the same passphrase. -/
theorem C01_roundtrip (w' : W) (n : Nat) (f : File) (p : Pass) (t : Tamper)
    (ht : t = .none ∨ t = .ignored)
    (hf : w'.files[n]? = some f) (hp : f.priv = p.id) (hrule : PassRuleOk w' p)
    (hfree : (findD w' f.id).isSome = false) :
    step w' (.importKs n p none t) =
      (addKs (zeroHead w') { id := f.id, remark := f.remark, ext := f.ext, int := f.int, priv := p.id, pub := w'.pubPass.id },
       .imported f.id f.remark) := by
  obtain ⟨h1, h2, h3⟩ := hrule
  have h2' : (p.id == w'.pubPass.id) = false := by simpa using h2
  rcases ht with rfl | rfl <;>
    simp [step, h1, h2', h3, hf, hp, importFile, applyTamper, hfree]

/-- ... and the restored keystore shows the exported identity, remark and
    counters, i.e. the same addresses and public keys at the same indices. -/
theorem C01_restored_view (w' : W) (d : KsD) :
    observe (addKs w' d) = observe w' ++ [projD d] := by
  simp only [observe, addKs, List.map_append, List.map_cons, List.map_nil]
  by_cases hu : w'.unlocked = true <;> simp [hu, load, projM, projD]

/-- after unlocking with that passphrase every restored key can sign -/
theorem C01_restored_keys_sign (w : W) (m : KsM) (id idx : Nat) (internal : Bool)
    (hm : findM w id = some m) (hu : m.unlocked = true) (hidx : idx < (if internal then m.int else m.ext)) :
    (step w (.sign id internal idx 32)).2 = .signed := by
  have : ¬ idx ≥ (if internal then m.int else m.ext) := by omega
  simp [step, hm, hu, this]

/-- **Wrong passphrase** is rejected; the store is unchanged. -/
theorem C01_reject_wrong_pass (w : W) (n : Nat) (f : File) (old : Pass) (new : Option Pass) (t : Tamper)
    (hf : w.files[n]? = some f) (hp : f.priv ≠ old.id) :
    (∃ e, (step w (.importKs n old new t)).2 = .err e) ∧ (step w (.importKs n old new t)).1.dur = w.dur := by
  cases new <;> simp only [step] <;> (repeat' split) <;> simp_all

/-- **Already present** is rejected; the store is unchanged. -/
theorem C01_reject_present (w : W) (n : Nat) (f : File) (old : Pass) (new : Option Pass)
    (hf : w.files[n]? = some f) (hpres : (findD w f.id).isSome = true) :
    (∃ e, (step w (.importKs n old new .none)).2 = .err e) ∧ (step w (.importKs n old new .none)).1.dur = w.dur := by
  cases new <;> simp only [step] <;> (repeat' split) <;> simp_all [importFile, applyTamper]

/-- **Tampering with an authenticated field** (scrypt parameters/digest, either
    ciphertext) or breaking the JSON is rejected; the store is unchanged. -/
theorem C01_tamper_authenticated (w : W) (n : Nat) (old : Pass) (new : Option Pass) (t : Tamper)
    (ht : t = .authenticated ∨ t = .notJson) :
    (∃ e, (step w (.importKs n old new t)).2 = .err e) ∧ (step w (.importKs n old new t)).1.dur = w.dur := by
  rcases ht with rfl | rfl <;> cases new <;> simp only [step] <;> (repeat' split) <;> simp_all

/-- **The full-strength tamper statement is false of the code** (kernel-checked):
    the remark, the two counters and the account number are not authenticated;
    an import of a file altered there is accepted.  Recorded as known findings
    `tamper-remark`, `tamper-extnum`, `tamper-intnum`, `tamper-account`. -/
theorem C01_tamper_unauthenticated_counterexample :
    let p : Pass := ⟨1, true⟩
    let w := run { pubPass := ⟨0, true⟩ } [.newKs p (some 0) true "mine", .genPub (some 0), .exportKs 0 p, .deleteKs 0 p]
    (step w (.importKs 0 p none (.remark "evil"))).2 = .imported 0 "evil" ∧
    ((step w (.importKs 0 p none (.ext 5))).1.dur.map (·.ext)) = [5] ∧
    (step w (.importKs 0 p none (.account 7))).2 = .imported 7 "mine" := by decide

/-- non-vacuity of the round trip: export, delete, import in the same wallet -/
example :
    let p : Pass := ⟨1, true⟩
    let w := run { pubPass := ⟨0, true⟩ } [.newKs p (some 0) true "mine", .genPub (some 0), .next 0 true 2, .exportKs 0 p, .deleteKs 0 p]
    (step w (.importKs 0 p none .none)).2 = .imported 0 "mine" ∧
    observe (step w (.importKs 0 p none .none)).1 = [(0, "mine", 1, 2)] := by decide

end MassVerif.Wallet
