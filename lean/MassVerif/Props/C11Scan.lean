/-
C11, start-up half — the keeper indexes, exactly once, each well-formed plot file whose header matches
its name and whose key and ordinal belong to the wallet, with ready/registered derived from its recorded
progress, and never serves proofs from files that fail these checks.
Property theorems on `Model/Scan.lean`, for every wallet, every directory content and every entry order.
-/
import MassVerif.Model.Scan

namespace MassVerif.Scan

/-- what "the pair of `i` passes the checks" means: whatever canonical files of the space exist in its
    directory load, have the right type and say what their name says; map B's progress decides the state;
    a registered space's map A (if it was there) passed the same checks -/
def Checked (w : World) (i : Indexed) : Prop :=
  (∀ hb, w.file i.dir i.ord i.key i.bl false = some hb →
      hb.loads = true ∧ hb.typ = Facts.mapTypeB ∧ hb.matchesName i.key i.bl = true ∧
      (i.state = .ready ↔ hb.plottedB = true)) ∧
  (w.file i.dir i.ord i.key i.bl false = none → i.state = .registered ∧ i.created = true) ∧
  (i.state = .registered → ∀ ha, w.file i.dir i.ord i.key i.bl true = some ha →
      ha.loads = true ∧ ha.typ = Facts.mapTypeA ∧ ha.matchesName i.key i.bl = true)

def FromEntry (w : World) (es : List Entry) (i : Indexed) : Prop :=
  w.wallet i.key = some i.ord ∧
  ∃ e, e ∈ es ∧ e.shapeOk = true ∧ e.keyValid = true ∧ e.blValid = true ∧
    e.dir = i.dir ∧ e.ord = i.ord ∧ e.key = i.key ∧ e.bl = i.bl

theorem scanEntry_cases (w : World) (acc : List Indexed) (e : Entry) :
    scanEntry w acc e = acc ∨
    ∃ st c, scanEntry w acc e = acc ++ [⟨e.ord, e.key, e.bl, e.dir, st, c⟩] ∧
      e.shapeOk = true ∧ e.keyValid = true ∧ e.blValid = true ∧ w.wallet e.key = some e.ord ∧
      (acc.any (fun i => i.key == e.key && i.bl == e.bl)) = false ∧
      ((c = false ∧ openDB w e.dir e.ord e.key e.bl = some (some st)) ∨
       (c = true ∧ openDB w e.dir e.ord e.key e.bl = none ∧ createDB w e.dir e.ord e.key e.bl = some st)) := by
  unfold scanEntry
  split
  · exact Or.inl rfl
  · rename_i h1
    simp only [Bool.not_eq_true', Bool.and_eq_false_iff, not_or, Bool.not_eq_false] at h1
    have h1' : e.shapeOk = true ∧ e.keyValid = true ∧ e.blValid = true := by
      cases hs : e.shapeOk <;> cases hk : e.keyValid <;> cases hb : e.blValid <;> simp_all
    split
    · exact Or.inl rfl
    · rename_i o ho
      split
      · exact Or.inl rfl
      · rename_i hoe
        have hoe' : o = e.ord := by simpa using hoe
        subst hoe'
        split
        · exact Or.inl rfl
        · rename_i hd
          have hd' : (acc.any fun i => i.key == e.key && i.bl == e.bl) = false := by simpa using hd
          split
          · exact Or.inl rfl
          · rename_i st hop
            exact Or.inr ⟨st, false, rfl, h1'.1, h1'.2.1, h1'.2.2, ho, hd', Or.inl ⟨rfl, hop⟩⟩
          · rename_i hop
            split
            · exact Or.inl rfl
            · rename_i st hcr
              exact Or.inr ⟨st, true, rfl, h1'.1, h1'.2.1, h1'.2.2, ho, hd', Or.inr ⟨rfl, hop, hcr⟩⟩

theorem checked_of_open {w : World} {d o k b : Nat} {st : St} (h : openDB w d o k b = some (some st)) :
    Checked w ⟨o, k, b, d, st, false⟩ := by
  unfold openDB at h
  cases hb : w.file d o k b false with
  | none => simp [hb] at h
  | some hdr =>
    simp only [hb] at h
    split at h
    · cases h
    · rename_i h1
      split at h
      · cases h
      · rename_i h2
        have h1' : hdr.loads = true ∧ hdr.typ = Facts.mapTypeB := by
          simpa using h1
        have h2' : hdr.matchesName k b = true := by simpa using h2
        split at h
        · rename_i hp
          cases h
          refine ⟨?_, ?_, ?_⟩
          · intro hb' e; rw [hb] at e; cases e
            exact ⟨h1'.1, h1'.2, h2', ⟨fun _ => hp, fun _ => rfl⟩⟩
          · intro e; rw [hb] at e; cases e
          · intro e; cases e
        · rename_i hp
          cases ha : w.file d o k b true with
          | none => simp [ha] at h
          | some hdra =>
            simp only [ha] at h
            split at h
            · cases h
            · rename_i h3
              split at h
              · cases h
              · rename_i h4
                cases h
                have h3' : hdra.loads = true ∧ hdra.typ = Facts.mapTypeA := by simpa using h3
                have h4' : hdra.matchesName k b = true := by simpa using h4
                refine ⟨?_, ?_, ?_⟩
                · intro hb' e; rw [hb] at e; cases e
                  exact ⟨h1'.1, h1'.2, h2', ⟨(fun e => by cases e), (fun e => absurd e hp)⟩⟩
                · intro e; rw [hb] at e; cases e
                · intro _ ha' e; rw [ha] at e; cases e
                  exact ⟨h3'.1, h3'.2, h4'⟩

theorem checked_mk {w : World} {d o k b : Nat} {st : St} {c : Bool}
    (h1 : ∀ hb, w.file d o k b false = some hb →
      hb.loads = true ∧ hb.typ = Facts.mapTypeB ∧ hb.matchesName k b = true ∧ (st = .ready ↔ hb.plottedB = true))
    (h2 : w.file d o k b false = none → st = .registered ∧ c = true)
    (h3 : st = .registered → ∀ ha, w.file d o k b true = some ha →
      ha.loads = true ∧ ha.typ = Facts.mapTypeA ∧ ha.matchesName k b = true) :
    Checked w ⟨o, k, b, d, st, c⟩ := ⟨h1, h2, h3⟩

theorem checked_of_create {w : World} {d o k b : Nat} {st : St} (h : createDB w d o k b = some st) :
    Checked w ⟨o, k, b, d, st, true⟩ := by
  unfold createDB at h
  cases hfa : w.file d o k b true <;> cases hfb : w.file d o k b false <;> simp only [hfa, hfb] at h
  · -- nothing existed
    simp at h; subst h
    apply checked_mk
    · intro hb e; rw [hfb] at e; cases e
    · intro _; exact ⟨rfl, rfl⟩
    · intro _ ha e; rw [hfa] at e; cases e
  · rename_i hb
    split at h
    · cases h
    · rename_i hok
      have hB : hb.loads = true ∧ hb.typ = Facts.mapTypeB ∧ hb.matchesName k b = true := by
        simpa [Bool.and_assoc] using hok
      apply checked_mk
      · intro hb' e; rw [hfb] at e; cases e
        split at h
        · rename_i hp; cases h
          exact ⟨hB.1, hB.2.1, hB.2.2, ⟨(fun _ => hp), (fun _ => rfl)⟩⟩
        · rename_i hp; cases h
          exact ⟨hB.1, hB.2.1, hB.2.2, ⟨(fun e => by cases e), (fun e => absurd e hp)⟩⟩
      · intro e; rw [hfb] at e; cases e
      · intro _ ha e; rw [hfa] at e; cases e
  · rename_i ha
    split at h
    · cases h
    · rename_i hok
      have hA : ha.loads = true ∧ ha.typ = Facts.mapTypeA ∧ ha.matchesName k b = true := by
        simpa [Bool.and_assoc] using hok
      simp at h; subst h
      apply checked_mk
      · intro hb e; rw [hfb] at e; cases e
      · intro _; exact ⟨rfl, rfl⟩
      · intro _ ha' e; rw [hfa] at e; cases e; exact hA
  · rename_i ha hb
    split at h
    · cases h
    · rename_i hok
      obtain ⟨a1, a2, a3, b1, b2, b3⟩ : ha.loads = true ∧ ha.typ = Facts.mapTypeA ∧ ha.matchesName k b = true ∧
          hb.loads = true ∧ hb.typ = Facts.mapTypeB ∧ hb.matchesName k b = true := by
        simpa [Bool.and_assoc] using hok
      apply checked_mk
      · intro hb' e; rw [hfb] at e; cases e
        split at h
        · rename_i hp; cases h
          exact ⟨b1, b2, b3, ⟨(fun _ => hp), (fun _ => rfl)⟩⟩
        · rename_i hp; cases h
          exact ⟨b1, b2, b3, ⟨(fun e => by cases e), (fun e => absurd e hp)⟩⟩
      · intro e; rw [hfb] at e; cases e
      · intro _ ha' e; rw [hfa] at e; cases e; exact ⟨a1, a2, a3⟩

/-- the loop invariant of the scan -/
structure ScanInv (w : World) (es : List Entry) (acc : List Indexed) : Prop where
  checked : ∀ i, i ∈ acc → Checked w i
  from_entry : ∀ i, i ∈ acc → FromEntry w es i
  once : (acc.map (fun i => (i.key, i.bl))).Nodup

theorem scanInv_step {w : World} {es : List Entry} {acc : List Indexed} {e : Entry}
    (h : ScanInv w es acc) (he : e ∈ es) : ScanInv w es (scanEntry w acc e) := by
  rcases scanEntry_cases w acc e with h0 | ⟨st, c, h1, a1, a2, a3, a4, a5, a6⟩
  · rw [h0]; exact h
  · rw [h1]
    have hc : Checked w ⟨e.ord, e.key, e.bl, e.dir, st, c⟩ := by
      rcases a6 with ⟨rfl, ho⟩ | ⟨rfl, _, hcr⟩
      · exact checked_of_open ho
      · exact checked_of_create hcr
    refine ⟨?_, ?_, ?_⟩
    · intro i hi
      rcases List.mem_append.mp hi with hi | hi
      · exact h.checked i hi
      · simp only [List.mem_singleton] at hi; subst hi; exact hc
    · intro i hi
      rcases List.mem_append.mp hi with hi | hi
      · exact h.from_entry i hi
      · simp only [List.mem_singleton] at hi; subst hi
        exact ⟨a4, e, he, a1, a2, a3, rfl, rfl, rfl, rfl⟩
    · rw [List.map_append, List.nodup_append]
      refine ⟨h.once, by simp, ?_⟩
      intro x hx y hy
      simp only [List.map_cons, List.map_nil, List.mem_singleton] at hy
      subst hy
      obtain ⟨i, hi, rfl⟩ := List.mem_map.mp hx
      intro heq
      have : (acc.any fun i => i.key == e.key && i.bl == e.bl) = true := by
        simp only [List.any_eq_true, Bool.and_eq_true, beq_iff_eq]
        have := Prod.mk.inj heq
        exact ⟨i, hi, this.1, this.2⟩
      rw [a5] at this; cases this

theorem scan_inv_aux (w : World) (es : List Entry) (pre : List Entry) (acc : List Indexed)
    (hsub : ∀ e, e ∈ pre → e ∈ es) (h : ScanInv w es acc) : ScanInv w es (pre.foldl (scanEntry w) acc) := by
  induction pre generalizing acc with
  | nil => exact h
  | cons e rest ih =>
    simp only [List.foldl_cons]
    exact ih _ (fun x hx => hsub x (by simp [hx])) (scanInv_step h (hsub e (by simp)))

theorem scan_inv (w : World) (es : List Entry) : ScanInv w es (scan w es) :=
  scan_inv_aux w es es [] (fun _ h => h) ⟨by simp, by simp, by simp⟩

/-- **Exactly once**: no space (public key + bit length) is indexed twice, however many directories hold a
    copy of it and in whatever order the entries are read. -/
theorem C11_scan_once (w : World) (es : List Entry) : ((scan w es).map (fun i => (i.key, i.bl))).Nodup :=
  (scan_inv w es).once

/-- **Only the wallet's, only from a matching name**: every indexed space comes from a directory entry whose
    name has the plot-file shape, a valid key and bit length, and the key's own ordinal in the wallet. -/
theorem C11_scan_from_wallet_entry (w : World) (es : List Entry) (i : Indexed) (hi : i ∈ scan w es) :
    FromEntry w es i := (scan_inv w es).from_entry i hi

/-- **Header matches name, state from recorded progress, no proofs from files that fail the checks**:
    for every indexed space, the map-B file it will serve proofs from — if the scan found one — loaded
    (size, file code, version, key, key hash), is a map B, and names the same public key and bit length as
    the file name; the space is ready exactly when that header's checkpoint has reached half the volume; a
    registered space's map A passed the same checks; a space without a map B was created fresh (registered). -/
theorem C11_scan_checked (w : World) (es : List Entry) (i : Indexed) (hi : i ∈ scan w es) : Checked w i :=
  (scan_inv w es).checked i hi

/-- the scan only ever adds to the index -/
theorem scan_grows (w : World) (pre : List Entry) (acc : List Indexed) (i : Indexed) (hi : i ∈ acc) :
    i ∈ pre.foldl (scanEntry w) acc := by
  induction pre generalizing acc with
  | nil => exact hi
  | cons e rest ih =>
    simp only [List.foldl_cons]
    apply ih
    rcases scanEntry_cases w acc e with h0 | ⟨st, c, h1, _⟩
    · rw [h0]; exact hi
    · rw [h1]; exact List.mem_append_left _ hi

/-- **Each well-formed file is indexed**: an entry with a plot-file name, the wallet's key and ordinal, whose
    canonical map B loads, is a map B, matches the name, and is complete (or whose map A passes the same
    checks) yields an indexed space of that key and bit length — this file, or an earlier copy of the same
    space in the scan order. -/
theorem C11_scan_complete (w : World) (es : List Entry) (e : Entry) (he : e ∈ es)
    (h1 : e.shapeOk = true ∧ e.keyValid = true ∧ e.blValid = true) (hw : w.wallet e.key = some e.ord)
    (hb : Hdr) (hfb : w.file e.dir e.ord e.key e.bl false = some hb)
    (hbok : hb.loads = true ∧ hb.typ = Facts.mapTypeB ∧ hb.matchesName e.key e.bl = true)
    (hrest : hb.plottedB = true ∨ ∃ ha, w.file e.dir e.ord e.key e.bl true = some ha ∧
      ha.loads = true ∧ ha.typ = Facts.mapTypeA ∧ ha.matchesName e.key e.bl = true) :
    ∃ i, i ∈ scan w es ∧ i.key = e.key ∧ i.bl = e.bl := by
  obtain ⟨pre, post, rfl⟩ := List.append_of_mem he
  unfold scan
  rw [List.foldl_append, List.foldl_cons]
  generalize pre.foldl (scanEntry w) [] = acc
  -- after `e` has been looked at, the space is in the index
  have key : ∃ i, i ∈ scanEntry w acc e ∧ i.key = e.key ∧ i.bl = e.bl := by
    by_cases hd : (acc.any fun i => i.key == e.key && i.bl == e.bl) = true
    · simp only [List.any_eq_true, Bool.and_eq_true, beq_iff_eq] at hd
      obtain ⟨i, hi, hk, hbl⟩ := hd
      refine ⟨i, ?_, hk, hbl⟩
      rcases scanEntry_cases w acc e with h0 | ⟨st, c, h1', _⟩
      · rw [h0]; exact hi
      · rw [h1']; exact List.mem_append_left _ hi
    · have hop : ∃ st, openDB w e.dir e.ord e.key e.bl = some (some st) := by
        unfold openDB
        simp only [hfb, hbok.1, hbok.2.1, hbok.2.2, beq_self_eq_true, Bool.and_self, Bool.not_true,
          Bool.false_eq_true, if_false]
        rcases hrest with hp | ⟨ha, hfa, a1, a2, a3⟩
        · simp [hp]
        · by_cases hp : hb.plottedB = true
          · simp [hp]
          · simp [hp, hfa, a1, a2, a3]
      obtain ⟨st, hop⟩ := hop
      refine ⟨⟨e.ord, e.key, e.bl, e.dir, st, false⟩, ?_, rfl, rfl⟩
      unfold scanEntry
      simp [h1.1, h1.2.1, h1.2.2, hw, hd, hop]
  obtain ⟨i, hi, hk, hbl⟩ := key
  exact ⟨i, scan_grows w post _ i hi, hk, hbl⟩

/-! ### not vacuous: a world with a complete file, a renamed file and a duplicate -/
def demoWorld : World where
  wallet := fun k => if k < 3 then some k else none
  file := fun d o k b a =>
    if (d, o, k, b, a) = (0, 1, 1, 24, false) then some ⟨true, true, true, true, true, 2, 24, 1, 2 ^ 23⟩      -- complete
    else if (d, o, k, b, a) = (1, 1, 1, 24, false) then some ⟨true, true, true, true, true, 2, 24, 1, 0⟩      -- a second copy
    else if (d, o, k, b, a) = (0, 2, 2, 24, false) then some ⟨true, true, true, true, true, 2, 24, 0, 2 ^ 23⟩ -- renamed: header of key 0
    else none
def demoEntries : List Entry :=
  [⟨0, true, 1, true, 1, 24, true⟩, ⟨0, true, 2, true, 2, 24, true⟩, ⟨1, true, 1, true, 1, 24, true⟩, ⟨1, true, 4, true, 4, 24, true⟩]

example : scan demoWorld demoEntries = [⟨1, 1, 24, 0, .ready, false⟩] := by decide

end MassVerif.Scan
