/-
The parameter block and box format of snacl (C01: the authenticated fields of a keystore file;
C02: what a restart reads back; C04: what is stored is parameters and boxes, never keys).
Property theorems only; scrypt, SHA-256 and secretbox are parameters.
-/
import MassVerif.Model.Snacl
import MassVerif.Generated.Facts

namespace MassVerif.Snacl

theorem le_length (v n : Nat) : (le v n).length = n := by
  induction n generalizing v with
  | zero => rfl
  | succ n ih => simp [le, ih]

theorem fromLE_le (v n : Nat) : fromLE (le v n) = v % 256 ^ n := by
  induction n generalizing v with
  | zero => simp [le, fromLE, Nat.mod_one]
  | succ n ih =>
    simp only [le, fromLE, ih]
    rw [Nat.pow_succ, Nat.mul_comm (256 ^ n) 256, Nat.mod_mul]

/-- a well-formed parameter set: 32-byte salt and digest, numbers that fit Go's `int` -/
def Params.WF (q : Params) : Prop :=
  q.salt.length = 32 ∧ q.digest.length = 32 ∧ q.n < 2 ^ 63 ∧ q.r < 2 ^ 63 ∧ q.p < 2 ^ 63

theorem marshal_length (q : Params) (h : q.WF) : (marshal q).length = blockSize := by
  obtain ⟨h1, h2, _⟩ := h
  simp [marshal, le_length, h1, h2, blockSize, keySize, digestSize]

/-- **The parameter block round-trips**: `Unmarshal(Marshal(q)) = q` for every well-formed parameter set. -/
theorem C01_params_roundtrip (q : Params) (h : q.WF) : unmarshal (marshal q) = some q := by
  have hlen := marshal_length q h
  obtain ⟨h1, h2, hn, hr, hp⟩ := h
  unfold unmarshal
  simp only [hlen, ne_eq, not_true_eq_false, if_false, Option.some.injEq]
  have l8 : ∀ v, (le v 8).length = 8 := fun v => le_length v 8
  have e64 : (256 : Nat) ^ 8 = 2 ^ 64 := by decide
  have fit : ∀ v, v < 2 ^ 63 → fromLE (le v 8) = v := by
    intro v hv
    rw [fromLE_le, e64, Nat.mod_eq_of_lt (by omega)]
  have hs : (marshal q).take 32 = q.salt := by
    unfold marshal
    rw [List.append_assoc, List.append_assoc, List.append_assoc, List.take_left' h1]
  have hd : ((marshal q).drop 32).take 32 = q.digest := by
    unfold marshal
    rw [List.append_assoc, List.append_assoc, List.append_assoc, List.drop_left' h1, List.take_left' h2]
  have d64 : (marshal q).drop 64 = le q.n 8 ++ le q.r 8 ++ le q.p 8 := by
    unfold marshal
    have : (q.salt ++ q.digest).length = 64 := by simp [h1, h2]
    rw [List.append_assoc (q.salt ++ q.digest), List.append_assoc (q.salt ++ q.digest), List.drop_left' this, List.append_assoc]
  have d72 : (marshal q).drop 72 = le q.r 8 ++ le q.p 8 := by
    have : (marshal q).drop 72 = ((marshal q).drop 64).drop 8 := by rw [List.drop_drop]
    rw [this, d64, List.append_assoc, List.drop_left' (l8 _)]
  have d80 : (marshal q).drop 80 = le q.p 8 := by
    have : (marshal q).drop 80 = ((marshal q).drop 72).drop 8 := by rw [List.drop_drop]
    rw [this, d72, List.drop_left' (l8 _)]
  have hN : fromLE (((marshal q).drop 64).take 8) = q.n := by
    rw [d64, List.append_assoc, List.take_left' (l8 _)]; exact fit _ hn
  have hR : fromLE (((marshal q).drop 72).take 8) = q.r := by
    rw [d72, List.take_left' (l8 _)]; exact fit _ hr
  have hP : fromLE (((marshal q).drop 80).take 8) = q.p := by
    have : (le q.p 8).take 8 = le q.p 8 := by
      have := List.take_length (l := le q.p 8)
      rwa [l8] at this
    rw [d80, this]; exact fit _ hp
  rw [hs, hd, hN, hR, hP]

/-- hence the block determines the parameters: two well-formed parameter sets with the same block are the same -/
theorem C01_params_injective (q q' : Params) (h : q.WF) (h' : q'.WF) (e : marshal q = marshal q') : q = q' := by
  have := C01_params_roundtrip q h
  rw [e, C01_params_roundtrip q' h'] at this
  exact (Option.some.inj this).symm

/-- **any length but 88 is rejected** (`ErrMalformed`), before anything is read -/
theorem C01_params_length (b : List Nat) : (unmarshal b).isSome = true ↔ b.length = 88 := by
  unfold unmarshal blockSize keySize digestSize
  by_cases h : b.length = 88 <;> simp [h]

/-- **`DeriveKey` accepts exactly the passphrases whose derived key has the stored digest**; what it returns
    is that derived key.  With `newSecretKey`'s own parameters the creating passphrase is accepted. -/
theorem C03_deriveKey_sound (scrypt : List Nat → Params → Option (List Nat)) (sha : List Nat → List Nat) (q : Params)
    (pass key : List Nat) (h : deriveKey scrypt sha q pass = .ok key) :
    scrypt pass q = some key ∧ sha key = q.digest := by
  unfold deriveKey at h
  split at h
  · cases h
  · rename_i k hk
    split at h
    · rename_i hd
      simp only [Except.ok.injEq] at h
      subst h
      exact ⟨hk, hd⟩
    · cases h

theorem C03_new_then_derive (scrypt : List Nat → Params → Option (List Nat)) (sha : List Nat → List Nat)
    (salt pass : List Nat) (n r p : Nat) (key : List Nat) (q : Params)
    (hsc : ∀ pw a b, a.salt = b.salt → a.n = b.n → a.r = b.r → a.p = b.p → scrypt pw a = scrypt pw b)  -- scrypt does not read the digest
    (h : newSecretKey scrypt sha salt pass n r p = some (key, q)) :
    deriveKey scrypt sha q pass = .ok key := by
  unfold newSecretKey at h
  simp only at h
  split at h
  · cases h
  · rename_i k hk
    simp only [Option.some.injEq, Prod.mk.injEq] at h
    obtain ⟨rfl, rfl⟩ := h
    unfold deriveKey
    have e := hsc pass { salt := salt, digest := sha k, n := n, r := r, p := p } { salt := salt, digest := [], n := n, r := r, p := p } rfl rfl rfl rfl
    simp only [e, hk]
    simp

/-- **The box format**: `Decrypt(Encrypt(m)) = m` under the same key when the nonce has 24 bytes (secretbox's law
    `open (seal m) = m` as hypothesis); fewer than 24 bytes are `ErrMalformed`; a box the library does not open is
    `ErrDecryptFailed` - never a plaintext. -/
theorem C04_box_roundtrip (sealF : List Nat → List Nat → List Nat → List Nat)
    (open_ : List Nat → List Nat → List Nat → Option (List Nat))
    (law : ∀ k nc m, open_ k nc (sealF k nc m) = some m)
    (key nonce msg : List Nat) (hn : nonce.length = nonceSize) :
    decrypt open_ key (encrypt sealF key nonce msg) = .ok msg := by
  unfold decrypt encrypt
  have h1 : ¬ (nonce ++ sealF key nonce msg).length < nonceSize := by simp [hn]
  simp only [h1, if_false]
  rw [← hn, List.take_left' rfl, List.drop_left' rfl, law]

theorem C04_box_rejects (open_ : List Nat → List Nat → List Nat → Option (List Nat)) (key box : List Nat) :
    (box.length < 24 → decrypt open_ key box = .error .malformed) ∧
    (24 ≤ box.length → open_ key (box.take 24) (box.drop 24) = none → decrypt open_ key box = .error .decryptFailed) := by
  unfold decrypt nonceSize
  constructor
  · intro h; simp [h]
  · intro h ho
    have : ¬ box.length < 24 := by omega
    simp [this, ho]

/-- the sizes are the source's (regenerated) -/
theorem C01_snacl_facts : keySize = Facts.snaclKeySize ∧ nonceSize = Facts.snaclNonceSize ∧ Facts.condSnaclMarshal = true ∧
    Facts.condSnaclUnmarshal = true ∧ Facts.condSnaclDerive = true ∧ Facts.condSnaclDecrypt = true := by decide

/-- non-vacuity -/
example : unmarshal (marshal { salt := List.replicate 32 7, digest := List.replicate 32 9, n := 16384, r := 8, p := 1 })
    = some { salt := List.replicate 32 7, digest := List.replicate 32 9, n := 16384, r := 8, p := 1 } := by decide

end MassVerif.Snacl
