/-
C17, collector side: what a local collector reports for a qualities task (Model/Collector.lean).
For any spaces, qualities, targets and any sequence of ticks and cancellations.
-/
import MassVerif.Model.Collector

namespace MassVerif.Collector

theorem C17_collector_facts : Facts.collectorAllowAhead = 10 := by decide

theorem mem_satisfied {cs : List QCand} {t : Nat → Nat} {s : Nat} {c : QCand} :
    c ∈ satisfied cs t s ↔ c ∈ cs ∧ c.err = false ∧ c.q s > t s := by
  unfold satisfied valid
  simp only [List.mem_filter, Bool.not_eq_eq_eq_not, Bool.not_true, decide_eq_true_eq]
  constructor
  · rintro ⟨⟨h1, h2⟩, h3⟩; exact ⟨h1, h2, h3⟩
  · rintro ⟨h1, h2, h3⟩; exact ⟨⟨h1, h2⟩, h3⟩

/-- what `n` iterations from work slot `w` report: exactly the slots of `[w, w+n)` at which some valid quality
is over the target, each once, in increasing order, each with exactly the spaces over the target -/
theorem scanN_spec (task : Nat) (cs : List QCand) (t : Nat → Nat) (n w : Nat) :
    (∀ r ∈ scanN task cs t w n, r.task = task ∧ w ≤ r.slot ∧ r.slot < w + n ∧
        r.spaces = (satisfied cs t r.slot).map (·.id) ∧ satisfied cs t r.slot ≠ []) ∧
    (∀ s, w ≤ s → s < w + n → satisfied cs t s ≠ [] → ∃ r ∈ scanN task cs t w n, r.slot = s) ∧
    (scanN task cs t w n).Pairwise (fun a b => a.slot < b.slot) := by
  induction n generalizing w with
  | zero =>
    refine ⟨by simp [scanN], ?_, by simp [scanN]⟩
    intro s h1 h2; omega
  | succ n ih =>
    obtain ⟨i1, i2, i3⟩ := ih (w + 1)
    simp only [scanN]
    by_cases hemp : (satisfied cs t w).isEmpty = true
    · simp only [hemp, if_true, List.nil_append]
      refine ⟨?_, ?_, i3⟩
      · intro r hr
        obtain ⟨a, b, c, d, e⟩ := i1 r hr
        exact ⟨a, by omega, by omega, d, e⟩
      · intro s h1 h2 h3
        by_cases hs : s = w
        · subst hs; exact absurd (List.isEmpty_iff.1 hemp) h3
        · exact i2 s (by omega) (by omega) h3
    · simp only [hemp, Bool.false_eq_true, if_false, List.singleton_append]
      have hne : satisfied cs t w ≠ [] := fun h => hemp (by simp [h])
      refine ⟨?_, ?_, ?_⟩
      · intro r hr
        rcases List.mem_cons.1 hr with rfl | hr
        · exact ⟨rfl, Nat.le_refl _, by show w < w + (n + 1); omega, rfl, hne⟩
        · obtain ⟨a, b, c, d, e⟩ := i1 r hr
          exact ⟨a, by omega, by omega, d, e⟩
      · intro s h1 h2 h3
        by_cases hs : s = w
        · subst hs; exact ⟨⟨task, s, (satisfied cs t s).map (·.id)⟩, List.mem_cons_self, rfl⟩
        · obtain ⟨r, hr, hrs⟩ := i2 s (by omega) (by omega) h3
          exact ⟨r, List.mem_cons_of_mem _ hr, hrs⟩
      · refine List.pairwise_cons.2 ⟨?_, i3⟩
        intro r hr
        have := (i1 r hr).2.1
        show w < r.slot
        omega

/-- the invariant of a collector's answer to one task that began at work slot `start` -/
structure Inv (start : Nat) (st0 st : St) : Prop where
  same : st.task = st0.task ∧ st.cs = st0.cs ∧ st.target = st0.target
  lower : start ≤ st.work
  sound : ∀ r ∈ st.reports, r.task = st0.task ∧ start ≤ r.slot ∧ r.slot < st.work ∧
      r.spaces = (satisfied st0.cs st0.target r.slot).map (·.id) ∧ satisfied st0.cs st0.target r.slot ≠ []
  complete : (valid st0.cs).isEmpty = false → ∀ s, start ≤ s → s < st.work → satisfied st0.cs st0.target s ≠ [] →
      ∃ r ∈ st.reports, r.slot = s
  ordered : st.reports.Pairwise (fun a b => a.slot < b.slot)

theorem inv_step {start : Nat} {st0 st : St} (hi : Inv start st0 st) (l : Label) : Inv start st0 (st.step l) := by
  cases l with
  | cancel => exact ⟨hi.same, hi.lower, hi.sound, hi.complete, hi.ordered⟩
  | tick now =>
    simp only [St.step]
    split
    · exact hi
    · split
      · exact hi
      · split
        · exact hi
        · rename_i hc hv hw
          obtain ⟨e1, e2, e3⟩ := hi.same
          have hspec := scanN_spec st.task st.cs st.target (now + allowAhead + 1 - st.work) st.work
          rw [e1, e2, e3] at hspec
          obtain ⟨s1, s2, s3⟩ := hspec
          refine ⟨⟨e1, e2, e3⟩, by simp only; have := hi.lower; omega, ?_, ?_, ?_⟩
          · intro r hr
            simp only at hr
            rw [e1, e2, e3] at hr
            rcases List.mem_append.1 hr with hr | hr
            · obtain ⟨a, b, c, d, e⟩ := hi.sound r hr
              exact ⟨a, b, by simp only; omega, d, e⟩
            · obtain ⟨a, b, c, d, e⟩ := s1 r hr
              exact ⟨a, by have := hi.lower; omega, by simp only; omega, d, e⟩
          · intro hne s h1 h2 h3
            simp only at h2 ⊢
            rw [e1, e2, e3]
            by_cases hlt : s < st.work
            · obtain ⟨r, hr, hrs⟩ := hi.complete hne s h1 hlt h3
              exact ⟨r, List.mem_append.2 (Or.inl hr), hrs⟩
            · obtain ⟨r, hr, hrs⟩ := s2 s (by omega) (by omega) h3
              exact ⟨r, List.mem_append.2 (Or.inr hr), hrs⟩
          · simp only
            rw [e1, e2, e3]
            rw [List.pairwise_append]
            refine ⟨hi.ordered, s3, ?_⟩
            intro a ha b hb
            have := (hi.sound a ha).2.2.1
            have := (s1 b hb).2.1
            omega

theorem inv_run {start : Nat} {st0 : St} (ls : List Label) : ∀ st, Inv start st0 st → Inv start st0 (st.run ls) := by
  induction ls with
  | nil => intro st h; exact h
  | cons l r ih => intro st h; exact ih _ (inv_step h l)

/-- **What a collector reports for a qualities task.**  Whatever the ticks and cancellations: every report names the
task; its slot is not before the slot after the parent's; it lists exactly the error-free spaces whose quality at
that slot exceeds that slot's target, and there is at least one; slots are reported in increasing order, none twice. -/
theorem C17_collector_reports_sound (task : Nat) (cs : List QCand) (t : Nat → Nat) (start : Nat) (ls : List Label) :
    let st0 : St := { task := task, cs := cs, target := t, work := start }
    (∀ r ∈ (st0.run ls).reports, r.task = task ∧ start ≤ r.slot ∧
        (∀ id, id ∈ r.spaces ↔ ∃ c ∈ cs, c.id = id ∧ c.err = false ∧ c.q r.slot > t r.slot) ∧ r.spaces ≠ []) ∧
    (st0.run ls).reports.Pairwise (fun a b => a.slot < b.slot) := by
  intro st0
  have hi : Inv start st0 (st0.run ls) :=
    inv_run ls st0 ⟨⟨rfl, rfl, rfl⟩, Nat.le_refl _, by simp [st0], by intro _ s h1 h2; simp only [st0] at h2; omega, by simp [st0]⟩
  refine ⟨?_, hi.ordered⟩
  intro r hr
  obtain ⟨a, b, _, d, e⟩ := hi.sound r hr
  refine ⟨a, b, ?_, ?_⟩
  · intro id
    rw [d]
    simp only [List.mem_map]
    constructor
    · rintro ⟨c, hc, rfl⟩
      have := mem_satisfied.1 hc
      exact ⟨c, this.1, rfl, this.2.1, this.2.2⟩
    · rintro ⟨c, hc, rfl, h1, h2⟩
      exact ⟨c, mem_satisfied.2 ⟨hc, h1, h2⟩, rfl⟩
  · rw [d]
    intro h
    exact e (List.map_eq_nil_iff.1 h)

/-- the look-ahead: a tick never takes the work slot beyond `allowAhead + 1` slots past the clock it saw -/
theorem C17_collector_look_ahead (st : St) (now : Nat) (h : st.work ≤ now + allowAhead + 1) :
    (st.step (.tick now)).work ≤ now + allowAhead + 1 := by
  simp only [St.step]
  split
  · exact h
  · split
    · exact h
    · split
      · exact h
      · simp only; omega

/-- **Completeness.**  If some space is error-free, the task is not cancelled before, and a tick sees the clock at
`now`: every slot from the first one up to `now + allowAhead` at which a quality exceeds the target has been reported. -/
theorem C17_collector_reports_complete (task : Nat) (cs : List QCand) (t : Nat → Nat) (start : Nat)
    (ls : List Label) (now : Nat) (hv : (valid cs).isEmpty = false) (hnc : ∀ l ∈ ls, l ≠ .cancel) :
    let st0 : St := { task := task, cs := cs, target := t, work := start }
    ∀ s, start ≤ s → s ≤ now + allowAhead → satisfied cs t s ≠ [] →
      ∃ r ∈ ((st0.run ls).step (.tick now)).reports, r.slot = s := by
  intro st0 s h1 h2 h3
  have hi0 : Inv start st0 st0 :=
    ⟨⟨rfl, rfl, rfl⟩, Nat.le_refl _, by simp [st0], by intro _ s h1 h2; simp only [st0] at h2; omega, by simp [st0]⟩
  have hi : Inv start st0 (st0.run ls) := inv_run ls st0 hi0
  -- never cancelled
  have hcan : ∀ (ls : List Label) (st : St), st.cancelled = false → (∀ l ∈ ls, l ≠ .cancel) → (st.run ls).cancelled = false := by
    intro ls
    induction ls with
    | nil => intro st h _; exact h
    | cons l r ih =>
      intro st h hq
      simp only [St.run, List.foldl_cons]
      apply ih
      · cases l with
        | cancel => exact absurd rfl (hq _ (by simp))
        | tick n =>
          simp only [St.step]
          split
          · exact h
          · split
            · exact h
            · split
              · exact h
              · exact h
      · intro l' hl'; exact hq l' (List.mem_cons_of_mem _ hl')
  have hc := hcan ls st0 rfl hnc
  have hi' := inv_step hi (.tick now)
  -- after the tick the work slot is beyond now + allowAhead
  have hwork : now + allowAhead < ((st0.run ls).step (.tick now)).work := by
    simp only [St.step, hc, Bool.false_eq_true, if_false]
    have hv' : (valid (st0.run ls).cs).isEmpty = false := by rw [hi.same.2.1]; exact hv
    simp only [hv', Bool.false_eq_true, if_false]
    split
    · omega
    · simp only; omega
  exact hi'.complete hv s h1 (by omega) h3

/-- **After a cancellation (a newer qualities task, or a stop) nothing more is reported for the task.** -/
theorem C17_collector_cancel (st : St) (hc : st.cancelled = true) (ls : List Label) :
    (st.run ls).reports = st.reports := by
  induction ls generalizing st with
  | nil => rfl
  | cons l r ih =>
    simp only [St.run, List.foldl_cons]
    have hstep : (st.step l).cancelled = true ∧ (st.step l).reports = st.reports := by
      cases l with
      | cancel => exact ⟨rfl, rfl⟩
      | tick n => simp [St.step, hc]
    have := ih (st.step l) hstep.1
    simp only [St.run] at this
    rw [this, hstep.2]

example :
    let a : QCand := ⟨0, false, fun s => if s = 7 then 90 else 10⟩
    let b : QCand := ⟨1, false, fun s => if s ≥ 7 then 60 else 20⟩
    let e : QCand := ⟨2, true, fun _ => 1000⟩
    ((St.run { task := 3, cs := [a, b, e], target := fun _ => 50, work := 5 } [.tick 0, .cancel, .tick 9]).reports
      = [⟨3, 7, [0, 1]⟩, ⟨3, 8, [1]⟩, ⟨3, 9, [1]⟩, ⟨3, 10, [1]⟩]) := by decide

end MassVerif.Collector
