/-
C12 — wallet operations are atomic under crashes and storage errors.
Property theorems only.
-/
import MassVerif.Model.Tx
import MassVerif.Props.C02

namespace MassVerif.Tx

private theorem runWrites_ok {S : Type} (f : Fault) (ws : List (S → S)) (i : Nat) (t t' : S)
    (h : runWrites true f ws i t = .ok t') : t' = applyAll ws t := by
  induction ws generalizing i t with
  | nil => simp [runWrites] at h; simp [applyAll, h]
  | cons w ws ih =>
    simp only [runWrites] at h
    split at h; · cases h
    split at h
    · simp at h
    · simpa [applyAll] using ih _ _ h

private theorem runWrites_err {S : Type} (p : Bool) (f : Fault) (ws : List (S → S)) (i : Nat) (t : S) (o : Outcome)
    (h : runWrites p f ws i t = .error o) : o ≠ .ok := by
  induction ws generalizing i t with
  | nil => simp [runWrites] at h
  | cons w ws ih =>
    simp only [runWrites] at h
    split at h
    · cases h; simp
    · split at h
      · split at h
        · cases h; simp
        · exact ih _ _ h
      · exact ih _ _ h

/-- **Atomicity of one transaction.**  When the closure propagates write
    errors, whatever fault strikes — a failed write, a crash at a write, a failed
    commit, a crash after the commit — the store afterwards holds either none or
    all of the operation's writes; success means all, an error means none. -/
theorem C12_update_atomic {S : Type} (s : S) (writes : List (S → S)) (f : Fault) :
    let r := update s writes true f
    (r.1 = s ∨ r.1 = applyAll writes s) ∧
    (r.2 = .ok → r.1 = applyAll writes s) ∧
    (r.2 = .error → r.1 = s) := by
  simp only [update]
  cases h : runWrites true f writes 0 s with
  | error o =>
    have := runWrites_err true f writes 0 s o h
    simp [this]
  | ok t =>
    have ht := runWrites_ok f writes 0 s t h
    subst ht
    cases f <;> simp

/-- without a fault the transaction applies all writes and succeeds -/
theorem C12_update_no_fault {S : Type} (s : S) (writes : List (S → S)) (p : Bool) :
    update s writes p .none = (applyAll writes s, .ok) := by
  have : ∀ (ws : List (S → S)) (i : Nat) (t : S), runWrites p Fault.none ws i t = .ok (applyAll ws t) := by
    intro ws
    induction ws with
    | nil => intro i t; rfl
    | cons w ws ih => intro i t; simp [runWrites, ih, applyAll]
  simp [update, this]

/-- **A closure that swallows a write error is not atomic** (kernel-checked):
    the failed write is skipped, the rest commits, and the call reports success.
    This was `DeleteKeystore` (`if addrManager.destroy(tx) != nil { return err }` with the outer, nil `err`). -/
theorem C12_swallow_counterexample :
    update ([] : List Nat) [fun l => 1 :: l, fun l => 2 :: l] false (.failWrite 0) = ([2], .ok) := by decide

/-- **On a reported error the running instance keeps the prior state** — provided
    the closure assigns no in-memory state. -/
theorem C12_error_keeps_memory {M : Type} (m : M) (refresh : M → M) :
    memAfter m refresh false .error = m := rfl

/-- ... and it does not when it does (this was `changeRemark`). -/
theorem C12_assign_in_tx_counterexample :
    memAfter "old" (fun _ => "new") true .error = "new" := rfl

/-- **The structural premises hold for every wallet method on the current tree**
    (regenerated from /repo on every run): at most one `db.Update` per method, no
    closure swallows an error, no closure assigns receiver state. -/
theorem C12_sites_ok : ∀ s ∈ sites, s.updates ≤ 1 ∧ s.swallows = false ∧ s.assignsInTx = false := by decide

/-- **One write transaction per operation, helpers included** (regenerated from /repo
    on every run): following the calls into the package's own functions and methods, no
    wallet method reaches more than one `db.Update` call site, and none inside a loop. -/
theorem C12_single_transaction_reach : ∀ x ∈ Facts.walletTxReach, x.2 ≤ 1 := by decide

/-- why the premise matters: an operation split over two transactions is not atomic —
    a failed commit of the second leaves the first one's writes in the store -/
theorem C12_two_transactions_counterexample :
    let r1 := update (0 : Nat) [fun n => n + 1] true .none
    let r2 := update r1.1 [fun n => n + 2] true .failCommit
    r2.2 = .error ∧ r2.1 ≠ 0 ∧ r2.1 ≠ 3 := by decide

/-- the mutating methods are exactly the ones with a transaction -/
theorem C12_sites_mutating :
    (sites.filter (fun s => s.updates = 1)).map (·.name) =
      ["ChangePrivPassphrase", "ChangePubPassphrase", "ChangeRemark", "DeleteKeystore", "GenerateNewPublicKey",
       "ImportKeystore", "NewKeystore", "NextAddresses"] := by decide

end MassVerif.Tx

namespace MassVerif.Wallet
open MassVerif.Tx

/-- the durable image after operation `op` was struck by a fault: the wallet
    model's transaction for `op` is `w.dur ↦ (step w op).1.dur` (one `db.Update`) -/
def durAfterFault (w : W) (f : Fault) (op : Op) : List KsD × Outcome :=
  update w.dur [fun _ => (step w op).1.dur] true f

/-- **C12 on the wallet model**: after any fault the store holds the complete
    effect of the operation or none of it, and every earlier acknowledged
    operation (the whole prior durable image) is still in effect. -/
theorem C12_atomic (w : W) (f : Fault) (op : Op) :
    (durAfterFault w f op).1 = w.dur ∨ (durAfterFault w f op).1 = (step w op).1.dur := by
  have := (C12_update_atomic w.dur [fun _ => (step w op).1.dur] f).1
  simpa [durAfterFault, applyAll] using this

/-- the wallet opens after every fault: both candidate images are images of reachable states -/
theorem C12_opens_after {w : W} (h : Reachable w) (f : Fault) (op : Op) :
    ∃ w', Reachable w' ∧ (durAfterFault w f op).1 = w'.dur := by
  rcases C12_atomic w f op with e | e
  · exact ⟨w, h, e⟩
  · obtain ⟨p, ops, hp, rfl⟩ := h
    refine ⟨(step (run { pubPass := p } ops) op).1, ⟨p, ops ++ [op], hp, ?_⟩, e⟩
    simp [run, List.foldl_append]

end MassVerif.Wallet
