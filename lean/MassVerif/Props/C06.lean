/-
C06 — plot public keys are issued once, with stable ordinals.  Property theorems only.
Keys are the symbolic triples (keystore, branch, index); an issuance returns the
indices `first … first+count-1` of one keystore and branch.
-/
import MassVerif.Props.C02

namespace MassVerif.Wallet

/-- the external counter of keystore `id` in the store -/
def counter (w : W) (id : Nat) : Option Nat := (findD w id).map (·.ext)

/-- external keys returned by an operation: (keystore, first index, count) -/
def issuedExt (w : W) (op : Op) : Option (Nat × Nat × Nat) :=
  match (step w op).2 with
  | .keys id false first n => some (id, first, n)
  | _ => none

theorem find_map_if (l : List KsD) (id id' : Nat) (f : KsD → KsD) (hf : ∀ d, (f d).id = d.id) :
    (l.map (fun d => if d.id == id then f d else d)).find? (·.id == id') =
      (l.find? (·.id == id')).map (fun d => if d.id == id then f d else d) := by
  rw [List.find?_map]
  congr 2
  funext d
  simp only [Function.comp]
  split <;> simp [hf]

theorem counter_setDur_ext (w : W) (id id' k : Nat) :
    counter (setMem (setDur w id (fun d => { d with ext := d.ext + k })) id (fun m => { m with ext := m.ext + k })) id' =
      (counter w id').map (fun c => if id' = id then c + k else c) := by
  have key := find_map_if w.dur id id' (fun d => { d with ext := d.ext + k }) (fun _ => rfl)
  simp only [counter, findD, setMem, setDur]
  rw [key]
  cases hf : w.dur.find? (·.id == id') with
  | none => rfl
  | some d =>
    have hid : d.id = id' := by simpa using List.find?_some hf
    simp only [Option.map_some]
    by_cases hc : id' = id
    · subst hc; simp [hid]
    · have : ¬ d.id = id := by rw [hid]; exact hc
      simp [hc, this]

/-- **Ordinal = index, consecutive.**  A plot-key request on keystore `id`
    returns exactly the keystore's current external counter as ordinal and
    advances the counter by one. -/
theorem C06_genPub_consecutive (w : W) (id id' first n : Nat) (internal : Bool)
    (h : (step w (.genPub (some id))).2 = .keys id' internal first n) :
    id' = id ∧ internal = false ∧ n = 1 ∧ counter w id = some first ∧
    counter (step w (.genPub (some id))).1 id = some (first + 1) := by
  simp only [step] at h
  split at h
  · rename_i m d hm hd
    split at h
    · cases h
    · rename_i hsmall
      dsimp only at h
      injection h with h1 h2 h3 h4
      subst h1 h2 h3 h4
      have hc : counter w id = some d.ext := by simp [counter, hd]
      refine ⟨rfl, rfl, rfl, hc, ?_⟩
      simp only [step, hm, hd, if_neg hsmall]
      rw [counter_setDur_ext, hc]; simp
  · cases h

theorem C06_next_consecutive (w : W) (id id' first n k : Nat) (internal : Bool)
    (h : (step w (.next id false k)).2 = .keys id' internal first n) :
    id' = id ∧ internal = false ∧ n = k ∧ counter w id = some first ∧
    counter (step w (.next id false k)).1 id = some (first + k) := by
  simp only [step, Bool.false_eq_true, if_false] at h
  split at h
  · rename_i m d hm hd
    split at h
    · cases h
    · rename_i hsmall
      dsimp only at h
      injection h with h1 h2 h3 h4
      subst h1 h2 h3 h4
      have hc : counter w id = some d.ext := by simp [counter, hd]
      refine ⟨rfl, rfl, rfl, hc, ?_⟩
      simp only [step, hm, hd, Bool.false_eq_true, if_false, if_neg hsmall]
      rw [counter_setDur_ext, hc]; simp
  · cases h

/-- **Stable ordinal.**  A lookup of an issued key returns the index it was issued with. -/
theorem C06_ordinal_is_index (w : W) (id idx : Nat) (internal : Bool) (o : Nat)
    (h : (step w (.ordinal id internal idx)).2 = .ordinal (some o)) : o = idx := by
  simp only [step] at h
  split at h
  · cases internal <;> simp only [Bool.false_eq_true, if_false, if_true] at h <;>
      (split at h
       · dsimp only at h
         simp only [Out.ordinal.injEq, Option.some.injEq] at h; exact h.symm
       · cases h)
  · cases h

/-- ... and every index below the counter is found (here: in the memory image,
    which by `C02_coherent` is the durable one, also after a restart). -/
theorem C06_ordinal_found (w : W) (m : KsM) (id idx : Nat) (hm : findM w id = some m) (hlt : idx < m.ext) :
    (step w (.ordinal id false idx)).2 = .ordinal (some idx) := by
  simp [step, hm, hlt]

/-- **The proviso is necessary** (kernel-checked): restoring a keystore from a
    file exported before a later issuance rewinds the counter, and the same
    ordinal is returned twice. -/
theorem C06_fresh_counterexample :
    let p : Pass := ⟨1, true⟩
    let ops : List Op := [.newKs p (some 0) true "", .genPub (some 0), .exportKs 0 p, .genPub (some 0),
                          .deleteKs 0 p, .importKs 0 p none .none]
    let w := run { pubPass := ⟨0, true⟩ } ops
    (step (run { pubPass := ⟨0, true⟩ } (ops.take 3)) (.genPub (some 0))).2 = .keys 0 false 1 1 ∧
    (step w (.genPub (some 0))).2 = .keys 0 false 1 1 := by decide

/-- the index arithmetic of `nextAddresses` the model transcribes stands in the source as transcribed (regenerated):
    the next index comes from the stored counter inside the transaction, the limit test, the key's index = counter - 1 -/
theorem C06_condition_facts : Facts.condWalletNext = true := by decide

end MassVerif.Wallet
