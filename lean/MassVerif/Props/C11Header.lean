/-
C11 — the link between the start-up scan's decision model (`Model/Scan.lean`, whose `Hdr` describes a header block
by the outcome of each check) and the byte-level header decoder (`Model/PlotFile.lean`, `decodeHeader`): the
description the scan model works with is a function of the first 4096 bytes, and "loads" / "ready" mean what the
decoder says.  Property theorems only.
-/
import MassVerif.Model.Scan
import MassVerif.Props.C07File

namespace MassVerif.PlotFile
open MassVerif.Scan

/-- the scan model's description of a header block, read off its bytes (`sizeOk`: at least 4096 bytes could be read;
    `keyOf`: the harness numbering of the stored key) -/
def describe (code : List Nat) (version : Nat) (parses : List Nat → Bool) (hashOf : List Nat → List Nat)
    (keyOf : List Nat → Nat) (sizeOk : Bool) (f : Bytes) : Hdr :=
  { sizeOk := sizeOk
    codeOk := decide (slice f 0 code.length = code)
    versionOk := decide (readLE f posVersion 8 = version)
    keyParses := parses (slice f posPubKey 33)
    hashOk := decide (slice f posPubKeyHash 32 = hashOf (slice f posPubKey 33))
    typ := f posType
    bl := f posBitLength
    key := keyOf (slice f posPubKey 33)
    checkpoint := readLE f posCheckpoint 8 }

/-- **"loads" in the scan model is "the decoder returns a header"** (for a block of full size), and the fields the
    scan then looks at - type, bit length, checkpoint - are the decoded ones. -/
theorem C11_describe_loads (code : List Nat) (version : Nat) (parses : List Nat → Bool) (hashOf : List Nat → List Nat)
    (keyOf : List Nat → Nat) (f : Bytes) :
    (describe code version parses hashOf keyOf true f).loads = true ↔
      ∃ h, decodeHeader code version Facts.mapTypeA Facts.mapTypeB parses hashOf f = .ok h ∧
        h.typ = (describe code version parses hashOf keyOf true f).typ ∧
        h.bl = (describe code version parses hashOf keyOf true f).bl ∧
        h.checkpoint = (describe code version parses hashOf keyOf true f).checkpoint := by
  unfold Hdr.loads describe decodeHeader
  simp only [Bool.and_eq_true, Bool.or_eq_true, decide_eq_true_eq, beq_iff_eq, Bool.true_and]
  constructor
  · rintro ⟨⟨⟨⟨h1, h2⟩, h3⟩, h4⟩, h5⟩
    have h5' : ¬ (¬ f posType = Facts.mapTypeA ∧ ¬ f posType = Facts.mapTypeB) := by
      rcases h5 with e | e <;> simp [e]
    simp [h1, h2, h3, h4, h5']
  · rintro ⟨h, hd, _⟩
    by_cases h1 : slice f 0 code.length = code <;> simp only [h1, ne_eq, not_true_eq_false, not_false_eq_true, if_true, if_false] at hd
    · by_cases h2 : readLE f posVersion 8 = version <;> simp only [h2, not_true_eq_false, not_false_eq_true, if_true, if_false] at hd
      · by_cases h3 : parses (slice f posPubKey 33) = true
        · simp only [h3, Bool.not_true, Bool.false_eq_true, if_false] at hd
          by_cases h4 : slice f posPubKeyHash 32 = hashOf (slice f posPubKey 33) <;> simp only [h4, not_true_eq_false, not_false_eq_true, if_true, if_false] at hd
          · by_cases h5 : ¬ f posType = Facts.mapTypeA ∧ ¬ f posType = Facts.mapTypeB <;> simp only [h5, if_true, if_false] at hd
            · cases hd
            · refine ⟨⟨⟨⟨h1, h2⟩, h3⟩, h4⟩, ?_⟩
              by_cases ha : f posType = Facts.mapTypeA
              · exact Or.inl ha
              · right
                by_cases hb : f posType = Facts.mapTypeB
                · exact hb
                · exact absurd ⟨ha, hb⟩ h5
          · cases hd
        · simp [h3] at hd
      · cases hd
    · cases hd

/-- **"ready" in the scan model is "the recorded checkpoint reached half the volume"** - the test of
    `HashMapB.Progress` on the decoded header, i.e. exactly when pass B's byte-level run has completed (`C07_fileB`'s
    premise, in half-indices) -/
theorem C11_describe_ready (code : List Nat) (version : Nat) (parses : List Nat → Bool) (hashOf : List Nat → List Nat)
    (keyOf : List Nat → Nat) (f : Bytes) :
    (describe code version parses hashOf keyOf true f).plottedB = true ↔
      2 ^ (f posBitLength) / 2 ≤ readLE f posCheckpoint 8 := by
  unfold Hdr.plottedB describe
  simp

/-- a header written by `createMapFile` for map B and updated to checkpoint `cp` is described as loading, of type B,
    with that checkpoint (composition with `C11_header_roundtrip`) -/
theorem C11_created_header_described (code : List Nat) (version : Nat) (parses : List Nat → Bool) (hashOf : List Nat → List Nat)
    (keyOf : List Nat → Nat) (h : Header)
    (hcode : code.length = 32) (hver : version < 2 ^ 64) (hbl : h.bl < 256) (htyp : h.typ = Facts.mapTypeB)
    (hcp : h.checkpoint < 2 ^ 64) (hh : h.pkHash.length = 32) (hk : h.pk.length = 33) (hp : parses h.pk = true)
    (hhash : hashOf h.pk = h.pkHash) :
    (describe code version parses hashOf keyOf true (encodeHeader code version h)).loads = true ∧
    (describe code version parses hashOf keyOf true (encodeHeader code version h)).checkpoint = h.checkpoint ∧
    (describe code version parses hashOf keyOf true (encodeHeader code version h)).bl = h.bl := by
  have hrt := C11_header_roundtrip code version Facts.mapTypeA Facts.mapTypeB parses hashOf h hcode hver hbl
    (by rw [htyp]; decide) (Or.inr htyp) hcp hh hk hp hhash
  have hl := (C11_describe_loads code version parses hashOf keyOf (encodeHeader code version h)).mpr
  have hex : ∃ h', decodeHeader code version Facts.mapTypeA Facts.mapTypeB parses hashOf (encodeHeader code version h) = .ok h' ∧
      h'.typ = (describe code version parses hashOf keyOf true (encodeHeader code version h)).typ ∧
      h'.bl = (describe code version parses hashOf keyOf true (encodeHeader code version h)).bl ∧
      h'.checkpoint = (describe code version parses hashOf keyOf true (encodeHeader code version h)).checkpoint := by
    have hrej := C11_header_rejects code version Facts.mapTypeA Facts.mapTypeB parses hashOf (encodeHeader code version h) h hrt
    refine ⟨h, hrt, ?_, ?_, ?_⟩
    · unfold describe; simp only; exact hrej.2.2.2.2.2.2.2.2
    · unfold describe; simp only; exact hrej.2.2.2.2.2.1
    · unfold describe; simp only; exact hrej.2.2.2.2.2.2.1
  obtain ⟨h', hd', _, hb', hc'⟩ := hex
  have : h' = h := by rw [hrt] at hd'; exact (Except.ok.inj hd').symm
  subst this
  exact ⟨hl ⟨h', hd', by assumption, hb', hc'⟩, hc'.symm, hb'.symm⟩

end MassVerif.PlotFile
