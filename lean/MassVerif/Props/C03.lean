/-
C03 — private keys are usable only with the current passphrase; Lock wipes them.
Property theorems only (the invariant and its preservation are in Proofs/Wallet.lean).
-/
import MassVerif.Props.C02
import MassVerif.Props.C12

namespace MassVerif.Wallet

/-- **One private passphrase governs all keystores at all times.** -/
theorem C03_single_passphrase {w : W} (h : Reachable w) : ∀ d ∈ w.dur, ∀ d' ∈ w.dur, d.priv = d'.priv :=
  (reachable_inv h).onePriv

/-- `p` is the current private passphrase -/
def IsCurrent (w : W) (p : Pass) : Prop := ∀ d ∈ w.dur, d.priv = p.id

theorem any_ne_false {w : W} {p : Pass} (h : w.dur.any (fun d => d.priv != p.id) = false) : IsCurrent w p := by
  intro d hd
  rw [List.any_eq_false] at h
  simpa using h d hd

/-- **Unlock is all-or-nothing and needs the current passphrase.** -/
theorem C03_unlock (w : W) (p : Pass) :
    ((step w (.unlock p)).2 = .ok → IsCurrent w p ∧ (step w (.unlock p)).1.unlocked = true ∧
        ∀ m ∈ (step w (.unlock p)).1.mem, m.unlocked = true) ∧
    ((step w (.unlock p)).2 ≠ .ok → (step w (.unlock p)).1 = w) := by
  simp only [step]
  by_cases hany : w.dur.any (fun d => d.priv != p.id) = true
  · simp [hany]
  · have hany' : w.dur.any (fun d => d.priv != p.id) = false := by simpa using hany
    simp only [hany', Bool.false_eq_true, if_false]
    refine ⟨fun _ => ⟨any_ne_false hany', by trivial, ?_⟩, fun hh => absurd rfl hh⟩
    intro m hm
    obtain ⟨m0, _, rfl⟩ := List.mem_map.mp hm
    rfl

/-- **Export, delete and passphrase change succeed only with the current passphrase.** -/
theorem C03_export_needs_current {w : W} (h : Reachable w) (id : Nat) (p : Pass) (n : Nat)
    (hs : (step w (.exportKs id p)).2 = .file n) : IsCurrent w p := by
  have hi := reachable_inv h
  simp only [step] at hs
  split at hs
  · rename_i m d hm hd
    split at hs
    · cases hs
    · rename_i hp
      obtain ⟨hdm, _⟩ := findD_some_mem hd
      intro d' hd'
      rw [hi.onePriv d' hd' d hdm]
      simpa using hp
  · cases hs

theorem C03_delete_needs_current {w : W} (h : Reachable w) (id : Nat) (p : Pass)
    (hs : (step w (.deleteKs id p)).2 = .ok) : IsCurrent w p := by
  have hi := reachable_inv h
  simp only [step] at hs
  split at hs
  · rename_i m d hm hd
    split at hs
    · cases hs
    · rename_i hp
      obtain ⟨hdm, _⟩ := findD_some_mem hd
      intro d' hd'
      rw [hi.onePriv d' hd' d hdm]
      simpa using hp
  · cases hs

theorem C03_changePriv_needs_current (w : W) (old new : Pass)
    (hs : (step w (.changePriv old new)).2 = .ok) :
    IsCurrent w old ∧ IsCurrent (step w (.changePriv old new)).1 new ∧ new.id ≠ old.id := by
  simp only [step] at hs ⊢
  split at hs; · cases hs
  split at hs; · cases hs
  split at hs; · cases hs
  rename_i _ _ hne
  split at hs; · cases hs
  rename_i hany
  have hany' : w.dur.any (fun d => d.priv != old.id) = false := by simpa using hany
  simp only [*, Bool.false_eq_true, if_false]
  refine ⟨any_ne_false hany', ?_, by simpa using hne⟩
  intro d hd
  obtain ⟨d0, _, rfl⟩ := List.mem_map.mp hd
  rfl

/-- **A superseded passphrase opens nothing**: once `p` is not the current
    passphrase of a non-empty wallet, unlock / export / delete with `p` fail. -/
theorem C03_superseded {w : W} (h : Reachable w) (p : Pass) (d : KsD) (hd : d ∈ w.dur) (hne : d.priv ≠ p.id) :
    (step w (.unlock p)).2 = .err .invalidPassphrase ∧
    (∀ id, (step w (.exportKs id p)).2 = .err .invalidPassphrase ∨ (step w (.exportKs id p)).2 = .err .accountNotFound) ∧
    (∀ id, (step w (.deleteKs id p)).2 = .err .invalidPassphrase ∨ (step w (.deleteKs id p)).2 = .err .accountNotFound) := by
  have hi := reachable_inv h
  have hall : ∀ d' ∈ w.dur, d'.priv ≠ p.id := fun d' hd' => by rw [hi.onePriv d' hd' d hd]; exact hne
  refine ⟨?_, ?_, ?_⟩
  · simp only [step]
    have : w.dur.any (fun d => d.priv != p.id) = true := by
      rw [List.any_eq_true]; exact ⟨d, hd, by simpa using hne⟩
    simp [this]
  · intro id
    simp only [step]
    split
    · rename_i m d' _ hd'
      have := hall d' (findD_some_mem hd').1
      simp [this]
    · right; rfl
  · intro id
    simp only [step]
    split
    · rename_i m d' _ hd'
      have := hall d' (findD_some_mem hd').1
      simp [this]
    · right; rfl

/-- **Signing needs an unlocked wallet** (which, by `C03_unlock`, was unlocked
    with the current passphrase). -/
theorem C03_sign_needs_unlocked {w : W} (h : Reachable w) (id : Nat) (internal : Bool) (idx len : Nat)
    (hs : (step w (.sign id internal idx len)).2 = .signed) : w.unlocked = true := by
  have hi := reachable_inv h
  simp only [step] at hs
  split at hs
  · rename_i m hm
    have hmem : m ∈ w.mem := by
      unfold findM at hm; exact List.mem_of_find?_eq_some hm
    rw [← hi.lockFlag m hmem]
    cases hu : m.unlocked with
    | true => rfl
    | false =>
      exfalso
      cases internal <;> simp only [Bool.false_eq_true, if_false, if_true] at hs <;>
        (split at hs; · cases hs) <;> simp [hu] at hs
  · cases hs

/-- **A locked wallet holds nothing.**  In every reachable state with the
    wallet locked, no keystore is unlocked (no address private key, account
    key, private crypto key or passphrase hash in memory) and none holds a
    usable master key; signing fails. -/
theorem C03_locked_holds_nothing {w : W} (h : Reachable w) (hl : w.unlocked = false) :
    (∀ m ∈ w.mem, m.unlocked = false ∧ m.masterUsable = false) ∧
    (∀ id internal idx len, (step w (.sign id internal idx len)).2 ≠ .signed) := by
  have hi := reachable_inv h
  refine ⟨fun m hm => ⟨by rw [hi.lockFlag m hm, hl], hi.lockedClean hl m hm⟩, ?_⟩
  intro id internal idx len hs
  have := C03_sign_needs_unlocked h id internal idx len hs
  rw [hl] at this; cases this

/-- Lock always reaches that state. -/
theorem C03_lock_wipes (w : W) : (step w .lock).1.unlocked = false ∧
    ∀ m ∈ (step w .lock).1.mem, m.unlocked = false ∧ m.masterUsable = false := by
  simp only [step]
  refine ⟨by trivial, ?_⟩
  intro m hm
  obtain ⟨m0, _, rfl⟩ := List.mem_map.mp hm
  exact ⟨rfl, rfl⟩

/-- non-vacuity: the locked `changePriv` history that used to leave the master key behind -/
example : let w := run { pubPass := ⟨0, true⟩ } [.newKs ⟨1, true⟩ (some 0) true "", .changePriv ⟨1, true⟩ ⟨2, true⟩]
    w.unlocked = false ∧ w.mem.map (·.masterUsable) = [false] ∧ w.dur.map (·.priv) = [2] := by decide

/-- **One passphrase also after a crash or storage error**: whatever fault strikes
    whatever operation (in particular a passphrase change over many keystores), all
    keystores in the store afterwards answer to one and the same private passphrase. -/
theorem C03_single_passphrase_after_fault {w : W} (h : Reachable w) (f : Tx.Fault) (op : Op) :
    ∀ d ∈ (durAfterFault w f op).1, ∀ d' ∈ (durAfterFault w f op).1, d.priv = d'.priv := by
  obtain ⟨w', hr, e⟩ := C12_opens_after h f op
  rw [e]
  exact C03_single_passphrase hr

/-- the premise of the theorem above for the passphrase change, on the current tree: the whole
    re-encryption of all keystores is one write transaction (regenerated from /repo on every run) -/
theorem C03_passphrase_change_one_transaction :
    ("ChangePrivPassphrase", 1) ∈ Facts.walletTxReach ∧ ("Unlock", 0) ∈ Facts.walletTxReach := by decide

/-- the guard expressions the wallet model transcribes stand in the source as transcribed (regenerated): the
    one-passphrase rule of `NewKeystore` and `ImportKeystore`, and everything `clearPrivKeys` wipes on `Lock` -/
theorem C03_condition_facts :
    Facts.condWalletNewKs = true ∧ Facts.condWalletImport = true ∧ Facts.condWalletClear = true := by decide

end MassVerif.Wallet
