/-
C08 — Miner submits only winning, correctly signed blocks at the earliest slot.

Theorems over `Model/Miner.lean`: the proof search of one round as a transition system over ticker ticks,
chain-tip events and a stop of the miner (any label sequence), the round around it, the wait before submission,
and the miner over any sequence of templates.  Qualities, targets, validity and binding are arbitrary
(library values); nothing is bounded.
-/
import MassVerif.Model.Miner

namespace MassVerif.Miner

theorem C08_facts : Facts.minerAllowAhead = 1 ∧ Facts.minerPocSlot = 3 ∧ Facts.minerSubmitChecksQuitAndTip = true := by decide

/-- the comparisons the model transcribes stand in the source as the model has them: `workSlot > nowSlot+allowAhead`,
`i <= nowSlot+allowAhead`, `quality.Cmp(bestQuality) > 0` from a `bestQuality` reset to 0 per slot, the target test
`bestQuality.Cmp(GetTarget(Timestamp)) > 0`, `workSlot = Timestamp/pocSlot`; `time.Now().After(Timestamp)` before
`ProcessBlock` and the recording of the mined height; the double-mining test and `SignHash(tProof.proof.SpaceID, ..)` -/
theorem C08_condition_facts :
    Facts.condMinerSearch = true ∧ Facts.condMinerSubmit = true ∧ Facts.condMinerDouble = true ∧
    Facts.minerMinedHeightOnlyGrows = true := by decide

/-! ### choosing the best proof of one slot -/

theorem bestOf_aux (s : Nat) (l : List Cand) (b : Option Cand) (bq : Nat)
    (hb : ∀ c, b = some c → c.q s = bq) (hz : b = none → bq = 0) :
    (∀ c, (l.foldl (fun acc c => if c.q s > acc.2 then (some c, c.q s) else acc) (b, bq)).1 = some c →
        c.q s = (l.foldl (fun acc c => if c.q s > acc.2 then (some c, c.q s) else acc) (b, bq)).2 ∧ (c ∈ l ∨ b = some c)) ∧
    ((l.foldl (fun acc c => if c.q s > acc.2 then (some c, c.q s) else acc) (b, bq)).1 = none →
        (l.foldl (fun acc c => if c.q s > acc.2 then (some c, c.q s) else acc) (b, bq)).2 = 0) ∧
    bq ≤ (l.foldl (fun acc c => if c.q s > acc.2 then (some c, c.q s) else acc) (b, bq)).2 ∧
    (∀ c ∈ l, c.q s ≤ (l.foldl (fun acc c => if c.q s > acc.2 then (some c, c.q s) else acc) (b, bq)).2) := by
  induction l generalizing b bq with
  | nil =>
    refine ⟨fun c h => ⟨hb c h, Or.inr h⟩, hz, Nat.le_refl _, by simp⟩
  | cons x r ih =>
    simp only [List.foldl_cons]
    by_cases hx : x.q s > bq
    · simp only [hx, if_true]
      obtain ⟨h1, h2, h3, h4⟩ := ih (some x) (x.q s) (fun c hc => by cases hc; rfl) (fun h => by cases h)
      refine ⟨?_, h2, by omega, ?_⟩
      · intro c hc
        obtain ⟨e, m⟩ := h1 c hc
        refine ⟨e, ?_⟩
        rcases m with m | m
        · exact Or.inl (List.mem_cons_of_mem _ m)
        · cases m; exact Or.inl (by simp)
      · intro c hc
        rcases List.mem_cons.1 hc with rfl | hc
        · exact h3
        · exact h4 c hc
    · simp only [hx, if_false]
      obtain ⟨h1, h2, h3, h4⟩ := ih b bq hb hz
      refine ⟨?_, h2, h3, ?_⟩
      · intro c hc
        obtain ⟨e, m⟩ := h1 c hc
        refine ⟨e, ?_⟩
        rcases m with m | m
        · exact Or.inl (List.mem_cons_of_mem _ m)
        · exact Or.inr m
      · intro c hc
        rcases List.mem_cons.1 hc with rfl | hc
        · omega
        · exact h4 c hc

theorem bestOf_some {el : List Cand} {s : Nat} {c : Cand} {q : Nat} (h : bestOf el s = (some c, q)) :
    q = c.q s ∧ c ∈ el ∧ ∀ c' ∈ el, c'.q s ≤ q := by
  have := bestOf_aux s el none 0 (fun c h => by cases h) (fun _ => rfl)
  unfold bestOf at h
  rw [h] at this
  obtain ⟨h1, _, _, h4⟩ := this
  obtain ⟨e, m⟩ := h1 c rfl
  refine ⟨e.symm, ?_, h4⟩
  rcases m with m | m
  · exact m
  · cases m

theorem bestOf_none {el : List Cand} {s : Nat} {q : Nat} (h : bestOf el s = (none, q)) :
    ∀ c' ∈ el, c'.q s = 0 := by
  have := bestOf_aux s el none 0 (fun c h => by cases h) (fun _ => rfl)
  unfold bestOf at h
  rw [h] at this
  obtain ⟨_, h2, _, h4⟩ := this
  intro c' hc'
  have := h4 c' hc'
  have := h2 rfl
  simp only at *
  omega

/-- a slot is won: every offered bound proof verifies, the winner is one of them, its quality exceeds the target
of the slot and no other has a higher quality at this slot -/
theorem attempt_found {el : List Cand} {t : Nat → Nat} {s : Nat} {c : Cand} (h : attempt el t s = .found c) :
    (∀ c' ∈ el, c'.valid = true) ∧ c ∈ el ∧ c.q s > t s ∧ ∀ c' ∈ el, c'.q s ≤ c.q s := by
  unfold attempt at h
  split at h
  · cases h
  · rename_i hv
    have hvalid : ∀ c' ∈ el, c'.valid = true := by
      intro c' hc'
      by_cases hcv : c'.valid = true
      · exact hcv
      · exact absurd (List.any_eq_true.2 ⟨c', hc', by simp [hcv]⟩) hv
    split at h
    · rename_i c0 q hb
      split at h
      · rename_i hq
        cases h
        obtain ⟨e, m, hmax⟩ := bestOf_some hb
        subst e
        exact ⟨hvalid, m, hq, hmax⟩
      · cases h
    · cases h

/-- a slot is lost: every offered bound proof verifies and none exceeds the target of the slot -/
theorem attempt_next {el : List Cand} {t : Nat → Nat} {s : Nat} (h : attempt el t s = .next) :
    (∀ c' ∈ el, c'.valid = true) ∧ ∀ c' ∈ el, c'.q s ≤ t s := by
  unfold attempt at h
  split at h
  · cases h
  · rename_i hv
    have hvalid : ∀ c' ∈ el, c'.valid = true := by
      intro c' hc'
      by_cases hcv : c'.valid = true
      · exact hcv
      · exact absurd (List.any_eq_true.2 ⟨c', hc', by simp [hcv]⟩) hv
    refine ⟨hvalid, ?_⟩
    split at h
    · rename_i c0 q hb
      split at h
      · cases h
      · rename_i hq
        obtain ⟨_, _, hmax⟩ := bestOf_some hb
        intro c' hc'
        have := hmax c' hc'
        omega
    · rename_i q hb
      intro c' hc'
      have := bestOf_none hb c' hc'
      omega

theorem attempt_error {el : List Cand} {t : Nat → Nat} {s : Nat} (h : attempt el t s = .error) :
    ∃ c ∈ el, c.valid = false := by
  unfold attempt at h
  split at h
  · rename_i hv
    obtain ⟨c, hc, hcv⟩ := List.any_eq_true.1 hv
    exact ⟨c, hc, by simpa using hcv⟩
  · split at h
    · split at h <;> cases h
    · cases h

/-- when every offered bound proof verifies and one exceeds the target, the slot is won -/
theorem attempt_found_of {el : List Cand} {t : Nat → Nat} {s : Nat} (hv : ∀ c ∈ el, c.valid = true)
    {c : Cand} (hc : c ∈ el) (hq : c.q s > t s) : ∃ c', attempt el t s = .found c' := by
  cases h : attempt el t s with
  | found c' => exact ⟨c', rfl⟩
  | error =>
    obtain ⟨c0, hc0, hv0⟩ := attempt_error h
    rw [hv c0 hc0] at hv0; cases hv0
  | next =>
    have := (attempt_next h).2 c hc
    omega

/-! ### the inner loop -/

/-- `s` is the first slot from `w` on that is won, by `c` -/
def FirstWin (el : List Cand) (t : Nat → Nat) (w s : Nat) (c : Cand) : Prop :=
  w ≤ s ∧ attempt el t s = .found c ∧ ∀ s', w ≤ s' → s' < s → attempt el t s' = .next

theorem scanN_spec (el : List Cand) (t : Nat → Nat) (n w : Nat) :
    match (scanN el t w n).1 with
    | some (.found c s) => FirstWin el t w s c ∧ s < w + n ∧ (scanN el t w n).2 = s
    | some .error => True
    | some .quit => False
    | none => (scanN el t w n).2 = w + n ∧ ∀ s', w ≤ s' → s' < w + n → attempt el t s' = .next := by
  induction n generalizing w with
  | zero =>
    simp only [scanN]
    exact ⟨by omega, fun s' h1 h2 => by omega⟩
  | succ n ih =>
    simp only [scanN]
    cases ha : attempt el t w with
    | found c =>
      simp only
      exact ⟨⟨Nat.le_refl _, ha, fun s' h1 h2 => by omega⟩, by omega, by first | rfl | trivial⟩
    | error => simp only
    | next =>
      simp only
      have := ih (w + 1)
      revert this
      cases hr : (scanN el t (w + 1) n).1 with
      | none =>
        simp only
        intro ⟨h1, h2⟩
        refine ⟨by omega, ?_⟩
        intro s' hs1 hs2
        by_cases he : s' = w
        · subst he; exact ha
        · exact h2 s' (by omega) (by omega)
      | some r =>
        cases r with
        | found c s =>
          simp only
          intro ⟨⟨h1, h2, h3⟩, h4, h5⟩
          refine ⟨⟨by omega, h2, ?_⟩, by omega, h5⟩
          intro s' hs1 hs2
          by_cases he : s' = w
          · subst he; exact ha
          · exact h3 s' (by omega) hs2
        | quit => simp only; exact id
        | error => simp only; exact id

/-! ### the search over ticks, tips and stops -/

/-- what holds of a search in progress that began at `start` -/
structure Inv (el : List Cand) (t : Nat → Nat) (start : Nat) (st : Scan) : Prop where
  hel : st.el = el
  ht : st.target = t
  hnone : st.result = none → start ≤ st.work ∧ ∀ s', start ≤ s' → s' < st.work → attempt el t s' = .next
  hfound : ∀ c s, st.result = some (.found c s) → FirstWin el t start s c

theorem inv_init (el : List Cand) (t : Nat → Nat) (start : Nat) :
    Inv el t start { el := el, target := t, work := start } :=
  ⟨rfl, rfl, fun _ => ⟨Nat.le_refl _, fun s' h1 h2 => by simp only at h2; omega⟩, fun c s h => by cases h⟩

/-- the five ways a tick can go -/
theorem step_tick_cases (st : Scan) (now : Nat) :
    (st.result.isSome = true ∧ st.step (.tick now) = st) ∨
    (st.result = none ∧ st.quit = true ∧ st.step (.tick now) = { st with result := some .quit }) ∨
    (st.result = none ∧ st.quit = false ∧ st.work > now + allowAhead ∧ st.step (.tick now) = st) ∨
    (st.result = none ∧ st.quit = false ∧ ¬ st.work > now + allowAhead ∧ st.stale = true ∧
      st.step (.tick now) = { st with result := some .quit }) ∨
    (st.result = none ∧ st.quit = false ∧ ¬ st.work > now + allowAhead ∧ st.stale = false ∧
      st.step (.tick now) = { st with result := (scanN st.el st.target st.work (now + allowAhead + 1 - st.work)).1,
                                      work := (scanN st.el st.target st.work (now + allowAhead + 1 - st.work)).2 }) := by
  simp only [Scan.step]
  by_cases h1 : st.result.isSome = true
  · left; exact ⟨h1, by rw [if_pos h1]⟩
  · right
    have hnone : st.result = none := by
      cases hr : st.result with
      | none => rfl
      | some r => simp [hr] at h1
    rw [if_neg h1]
    by_cases h2 : st.quit = true
    · left; exact ⟨hnone, h2, by rw [if_pos h2]⟩
    · right
      have h2' : st.quit = false := by simpa using h2
      rw [if_neg h2]
      by_cases h3 : st.work > now + allowAhead
      · left; exact ⟨hnone, h2', h3, by rw [if_pos h3]⟩
      · right
        rw [if_neg h3]
        by_cases h4 : st.stale = true
        · left; exact ⟨hnone, h2', h3, h4, by rw [if_pos h4]⟩
        · right
          have h4' : st.stale = false := by simpa using h4
          exact ⟨hnone, h2', h3, h4', by rw [if_neg h4]⟩

/-- one label preserves the invariant; a block found by this label lies within the look-ahead of its tick -/
theorem inv_step {el : List Cand} {t : Nat → Nat} {start : Nat} {st : Scan} (hi : Inv el t start st) (l : Label) :
    Inv el t start (st.step l) ∧
    (∀ c s, st.result = none → (st.step l).result = some (.found c s) →
      ∃ now, l = .tick now ∧ s ≤ now + allowAhead ∧ st.stale = false ∧ st.quit = false) := by
  cases l with
  | betterTip => exact ⟨⟨hi.hel, hi.ht, hi.hnone, hi.hfound⟩, fun c s h1 h2 => by simp [Scan.step, h1] at h2⟩
  | lesserTip => exact ⟨hi, fun c s h1 h2 => by simp [Scan.step, h1] at h2⟩
  | stop => exact ⟨⟨hi.hel, hi.ht, hi.hnone, hi.hfound⟩, fun c s h1 h2 => by simp [Scan.step, h1] at h2⟩
  | tick now =>
    rcases step_tick_cases st now with ⟨h1, e⟩ | ⟨hn, hq, e⟩ | ⟨hn, hq, h3, e⟩ | ⟨hn, hq, h3, h4, e⟩ | ⟨hn, hq, h3, h4, e⟩
    · rw [e]; exact ⟨hi, fun c s hn _ => by simp [hn] at h1⟩
    · rw [e]
      exact ⟨⟨hi.hel, hi.ht, (fun h => by cases h), (fun c s h => by cases h)⟩, (fun c s _ h => by cases h)⟩
    · rw [e]; exact ⟨hi, fun c s _ h => by rw [hn] at h; cases h⟩
    · rw [e]
      exact ⟨⟨hi.hel, hi.ht, (fun h => by cases h), (fun c s h => by cases h)⟩, (fun c s _ h => by cases h)⟩
    · rw [e]
      obtain ⟨hw, hbelow⟩ := hi.hnone hn
      have hspec := scanN_spec st.el st.target (now + allowAhead + 1 - st.work) st.work
      rw [hi.hel, hi.ht] at hspec ⊢
      refine ⟨⟨rfl, rfl, ?_, ?_⟩, ?_⟩
      · intro hr
        have hr' : (scanN el t st.work (now + allowAhead + 1 - st.work)).1 = none := hr
        rw [hr'] at hspec
        obtain ⟨e2, hnx⟩ := hspec
        show start ≤ (scanN el t st.work (now + allowAhead + 1 - st.work)).2 ∧ _
        rw [e2]
        refine ⟨by omega, ?_⟩
        intro s' hs1 hs2
        by_cases hlt : s' < st.work
        · exact hbelow s' hs1 hlt
        · exact hnx s' (by omega) hs2
      · intro c s hr
        have hr' : (scanN el t st.work (now + allowAhead + 1 - st.work)).1 = some (.found c s) := hr
        rw [hr'] at hspec
        obtain ⟨⟨f1, f2, f3⟩, _, _⟩ := hspec
        refine ⟨by omega, f2, ?_⟩
        intro s' hs1 hs2
        by_cases hlt : s' < st.work
        · exact hbelow s' hs1 hlt
        · exact f3 s' (by omega) hs2
      · intro c s _ hr
        have hr' : (scanN el t st.work (now + allowAhead + 1 - st.work)).1 = some (.found c s) := hr
        rw [hr'] at hspec
        obtain ⟨_, f4, _⟩ := hspec
        exact ⟨now, rfl, by omega, h4, hq⟩

/-- a finished search stays as it is -/
theorem step_done {st : Scan} {r : Result} (h : st.result = some r) (l : Label) : (st.step l).result = some r := by
  cases l with
  | betterTip => exact h
  | lesserTip => exact h
  | stop => exact h
  | tick now =>
    rcases step_tick_cases st now with ⟨_, e⟩ | ⟨hn, _⟩ | ⟨hn, _⟩ | ⟨hn, _⟩ | ⟨hn, _⟩
    · rw [e]; exact h
    all_goals (rw [h] at hn; cases hn)

/-- **Soundness of the search.**  Whatever the ticks, tips and stops: a proof `c` found for slot `s` is an
offered, bound, error-free candidate; all of them verify; its quality exceeds the target of slot `s`; it has the
best quality of that slot; no offered bound proof exceeded the target at any slot from the template's first slot
up to `s` (earliest slot); and `s` was at most `allowAhead` slots ahead of the clock at the tick that found it,
no better tip or stop having been seen before. -/
theorem C08_search_sound (cs : List Cand) (t : Nat → Nat) (start : Nat) (ls : List Label) (c : Cand) (s : Nat)
    (h : (Scan.run { el := eligible cs, target := t, work := start } ls).result = some (.found c s)) :
    c ∈ cs ∧ c.err = false ∧ c.binding = true ∧ (∀ c' ∈ eligible cs, c'.valid = true) ∧
    c.q s > t s ∧ (∀ c' ∈ eligible cs, c'.q s ≤ c.q s) ∧ start ≤ s ∧
    (∀ s', start ≤ s' → s' < s → ∀ c' ∈ eligible cs, c'.q s' ≤ t s') ∧
    ∃ now, Label.tick now ∈ ls ∧ s ≤ now + allowAhead := by
  -- generalise over the state reached so far
  have key : ∀ (ls : List Label) (st : Scan), Inv (eligible cs) t start st →
      (st.run ls).result = some (.found c s) →
      FirstWin (eligible cs) t start s c ∧ (st.result = some (.found c s) ∨ ∃ now, Label.tick now ∈ ls ∧ s ≤ now + allowAhead) := by
    intro ls
    induction ls with
    | nil => intro st hi hr; exact ⟨hi.hfound c s hr, Or.inl hr⟩
    | cons l r ih =>
      intro st hi hr
      simp only [Scan.run, List.foldl_cons] at hr
      obtain ⟨hi', hla⟩ := inv_step hi l
      obtain ⟨hf, hor⟩ := ih (st.step l) hi' hr
      refine ⟨hf, ?_⟩
      rcases hor with hor | ⟨now, hm, hle⟩
      · cases hst : st.result with
        | none =>
          obtain ⟨now, hl, hle, _, _⟩ := hla c s hst hor
          exact Or.inr ⟨now, by simp [hl], hle⟩
        | some r0 =>
          -- a finished search stays as it is
          left
          have := step_done hst l
          rw [this] at hor; exact hor
      · exact Or.inr ⟨now, List.mem_cons_of_mem _ hm, hle⟩
  obtain ⟨⟨hs, hfound, hbefore⟩, hor⟩ := key ls _ (inv_init (eligible cs) t start) h
  obtain ⟨hv, hmem, hq, hbest⟩ := attempt_found hfound
  have hmem' : c ∈ cs ∧ c.err = false ∧ c.binding = true := by
    unfold eligible at hmem
    simp only [List.mem_filter, Bool.not_eq_eq_eq_not, Bool.not_true] at hmem
    exact ⟨hmem.1.1, hmem.1.2, hmem.2⟩
  refine ⟨hmem'.1, hmem'.2.1, hmem'.2.2, hv, hq, hbest, hs, ?_, ?_⟩
  · intro s' h1 h2 c' hc'
    exact (attempt_next (hbefore s' h1 h2)).2 c' hc'
  · rcases hor with hor | hor
    · cases hor
    · exact hor

/-- **Abandonment.**  Once a better chain tip was seen or the miner was stopped, the search returns no proof,
whatever follows. -/
theorem C08_abandon (st : Scan) (hflag : st.stale = true ∨ st.quit = true) (hr : st.result = none ∨ st.result = some .quit)
    (ls : List Label) : ∀ c s, (st.run ls).result ≠ some (.found c s) := by
  induction ls generalizing st with
  | nil =>
    intro c s h
    simp only [Scan.run, List.foldl_nil] at h
    rcases hr with hr | hr <;> rw [hr] at h <;> cases h
  | cons l r ih =>
    intro c s
    simp only [Scan.run, List.foldl_cons]
    have : (((st.step l).stale = true ∨ (st.step l).quit = true)) ∧ ((st.step l).result = none ∨ (st.step l).result = some .quit) := by
      cases l with
      | betterTip => exact ⟨Or.inl rfl, hr⟩
      | lesserTip => exact ⟨hflag, hr⟩
      | stop => exact ⟨Or.inr rfl, hr⟩
      | tick now =>
        rcases step_tick_cases st now with ⟨_, e⟩ | ⟨_, _, e⟩ | ⟨_, _, _, e⟩ | ⟨_, _, _, _, e⟩ | ⟨_, hq, _, h4, _⟩
        · rw [e]; exact ⟨hflag, hr⟩
        · rw [e]; exact ⟨hflag, Or.inr rfl⟩
        · rw [e]; exact ⟨hflag, hr⟩
        · rw [e]; exact ⟨hflag, Or.inr rfl⟩
        · rcases hflag with hf | hf
          · rw [h4] at hf; cases hf
          · rw [hq] at hf; cases hf
    exact ih (st.step l) this.1 this.2 c s

/-- **Completeness of the search.**  When every offered bound proof verifies, `s` is the first slot from the
template's first slot on at which one of them exceeds the target, no better tip arrives and the miner is not
stopped, the search returns the best proof of slot `s` as soon as a tick sees the clock within `allowAhead` of
`s` — not later, and nothing else. -/
theorem C08_search_complete (el : List Cand) (t : Nat → Nat) (start : Nat) (c : Cand) (s : Nat)
    (hfw : FirstWin el t start s c) (ls : List Label)
    (hquiet : ∀ l ∈ ls, l ≠ .betterTip ∧ l ≠ .stop)
    (htick : ∃ now, Label.tick now ∈ ls ∧ s ≤ now + allowAhead) :
    (Scan.run { el := el, target := t, work := start } ls).result = some (.found c s) := by
  obtain ⟨hs0, hfound, hbefore⟩ := hfw
  have hv := (attempt_found hfound).1
  -- the loop cannot fail: every offered bound proof verifies
  have hnoerr : ∀ (n w : Nat), (scanN el t w n).1 ≠ some .error := by
    intro n
    induction n with
    | zero => intro w; simp [scanN]
    | succ n ihn =>
      intro w
      simp only [scanN]
      cases ha : attempt el t w with
      | found c' => simp
      | error =>
        obtain ⟨c0, hc0, hv0⟩ := attempt_error ha
        rw [hv c0 hc0] at hv0; cases hv0
      | next => exact ihn (w + 1)
  have key : ∀ (ls : List Label) (st : Scan), Inv el t start st → st.stale = false → st.quit = false →
      (∀ l ∈ ls, l ≠ .betterTip ∧ l ≠ .stop) →
      ((st.result = none ∧ st.work ≤ s ∧ ∃ now, Label.tick now ∈ ls ∧ s ≤ now + allowAhead) ∨ st.result = some (.found c s)) →
      (st.run ls).result = some (.found c s) := by
    intro ls
    induction ls with
    | nil =>
      intro st _ _ _ _ h
      rcases h with ⟨_, _, now, hm, _⟩ | h
      · cases hm
      · exact h
    | cons l r ih =>
      intro st hi hs hq hquiet h
      simp only [Scan.run, List.foldl_cons]
      have hq' := hquiet l (by simp)
      have hrest : ∀ l' ∈ r, l' ≠ .betterTip ∧ l' ≠ .stop := fun l' hl' => hquiet l' (List.mem_cons_of_mem _ hl')
      obtain ⟨hi', _⟩ := inv_step hi l
      rcases h with ⟨hnone, hw, now, hm, hle⟩ | h
      · cases l with
        | betterTip => exact absurd rfl hq'.1
        | stop => exact absurd rfl hq'.2
        | lesserTip =>
          apply ih st hi hs hq hrest
          left
          refine ⟨hnone, hw, now, ?_, hle⟩
          rcases List.mem_cons.1 hm with hm | hm
          · cases hm
          · exact hm
        | tick n0 =>
          rcases step_tick_cases st n0 with ⟨h1, _⟩ | ⟨_, hq2, _⟩ | ⟨_, _, h3, e⟩ | ⟨_, _, _, h4, _⟩ | ⟨_, _, h3, _, e⟩
          · simp [hnone] at h1
          · rw [hq] at hq2; cases hq2
          · -- too far ahead: nothing happens, and this tick is not the one that reaches `s`
            have hi2 : Inv el t start (st.step (.tick n0)) := hi'
            rw [e] at hi2 ⊢
            apply ih st hi hs hq hrest
            left
            refine ⟨hnone, hw, now, ?_, hle⟩
            rcases List.mem_cons.1 hm with hm | hm
            · cases hm; omega
            · exact hm
          · rw [hs] at h4; cases h4
          · have hspec := scanN_spec st.el st.target (n0 + allowAhead + 1 - st.work) st.work
            rw [hi.hel, hi.ht] at hspec e
            have hflags : (st.step (.tick n0)).stale = false ∧ (st.step (.tick n0)).quit = false := by
              rw [e]; exact ⟨hs, hq⟩
            apply ih (st.step (.tick n0)) hi' hflags.1 hflags.2 hrest
            cases hr : (scanN el t st.work (n0 + allowAhead + 1 - st.work)).1 with
            | none =>
              rw [hr] at hspec
              obtain ⟨e2, hn⟩ := hspec
              -- the winning slot was not among the slots tried: it lies ahead
              have hs_ge : n0 + allowAhead + 1 ≤ s := by
                by_cases hc : s < n0 + allowAhead + 1
                · have := hn s hw (by omega)
                  rw [hfound] at this; cases this
                · omega
              left
              refine ⟨by rw [e]; exact hr, by rw [e]; show (scanN el t st.work (n0 + allowAhead + 1 - st.work)).2 ≤ s; rw [e2]; omega, now, ?_, hle⟩
              rcases List.mem_cons.1 hm with hm | hm
              · cases hm; omega
              · exact hm
            | some r0 =>
              rw [hr] at hspec
              cases r0 with
              | quit => exact absurd hspec id
              | error => exact absurd hr (hnoerr _ _)
              | found c' s' =>
                obtain ⟨⟨f1, f2, f3⟩, f4, f5⟩ := hspec
                right
                -- both `s` and `s'` are first wins from the work slot on: they coincide
                have hss : s' = s := by
                  by_cases hlt : s' < s
                  · have := hbefore s' (by have := (hi.hnone hnone).1; omega) hlt
                    rw [f2] at this; cases this
                  · by_cases hgt : s < s'
                    · have := f3 s hw hgt
                      rw [hfound] at this; cases this
                    · omega
                subst hss
                rw [hfound] at f2
                cases f2
                rw [e]; exact hr
      · have hdone := step_done h l
        have hflags : (st.step l).stale = false ∧ (st.step l).quit = false := by
          cases l with
          | betterTip => exact absurd rfl hq'.1
          | stop => exact absurd rfl hq'.2
          | lesserTip => exact ⟨hs, hq⟩
          | tick n0 =>
            rcases step_tick_cases st n0 with ⟨_, e⟩ | ⟨hn, _⟩ | ⟨hn, _⟩ | ⟨hn, _⟩ | ⟨hn, _⟩
            · rw [e]; exact ⟨hs, hq⟩
            all_goals (rw [h] at hn; cases hn)
        exact ih (st.step l) hi' hflags.1 hflags.2 hrest (Or.inr hdone)
  exact key ls _ (inv_init el t start) rfl rfl hquiet (Or.inl ⟨rfl, hs0, htick⟩)

/-! ### the round and the submission -/

/-- **A block is handed to the chain only if** the height was not mined before, its proof was found by the search
(hence all of `C08_search_sound`), and neither a stop nor a better tip came while waiting for its timestamp; the
height is recorded as mined exactly when the chain accepted the block. -/
theorem C08_round_submitted (mined : Bool) (cs : List Cand) (t : Nat → Nat) (start : Nat) (ls : List Label) (after : After)
    (c : Cand) (s : Nat) (m' : Bool) (h : round mined cs t start ls after = (.submitted c s, m')) :
    mined = false ∧
    (Scan.run { el := eligible cs, target := t, work := start } ls).result = some (.found c s) ∧
    (after = .none ∨ after = .reject) ∧ (m' = true ↔ after = .none) := by
  unfold round at h
  split at h
  · cases h
  · rename_i hm
    split at h
    · cases h
    · split at h
      · cases h
      · cases h
      · cases h
      · rename_i c0 s0 hres
        cases after <;> simp only [Prod.mk.injEq] at h
        · obtain ⟨h1, h2⟩ := h
          cases h1
          exact ⟨by simpa using hm, hres, Or.inl rfl, by simp [← h2]⟩
        · exact absurd h.1 (by simp)
        · exact absurd h.1 (by simp)
        · obtain ⟨h1, h2⟩ := h
          cases h1
          exact ⟨by simpa using hm, hres, Or.inr rfl, by simp [← h2]⟩

/-- **No height is mined twice (one round)**: a round for a height already recorded as mined ends before any search. -/
theorem C08_round_avoids_double (cs : List Cand) (t : Nat → Nat) (start : Nat) (ls : List Label) (after : After) :
    round true cs t start ls after = (.avoidDoubleMining, true) := by
  unfold round; simp

/-- **No height is mined successfully twice (any sequence of templates)**: the heights of accepted blocks are
pairwise distinct and none was mined before. -/
theorem C08_no_double (mined : List Nat) (ts : List (Nat × Bool × Bool)) :
    (rounds mined ts).2.Nodup ∧ (∀ h ∈ (rounds mined ts).2, h ∉ mined) ∧ (∀ h ∈ mined, h ∈ (rounds mined ts).1) ∧
    (∀ h ∈ (rounds mined ts).2, h ∈ (rounds mined ts).1) := by
  induction ts generalizing mined with
  | nil => simp [rounds]
  | cons x r ih =>
    obtain ⟨h, solved, accepted⟩ := x
    unfold rounds
    by_cases hm : h ∈ mined
    · simp only [hm, if_true]; exact ih mined
    · simp only [hm, if_false]
      by_cases hsa : (solved && accepted) = true
      · simp only [hsa, if_true]
        obtain ⟨i1, i2, i3, i4⟩ := ih (h :: mined)
        refine ⟨?_, ?_, ?_, ?_⟩
        · refine List.nodup_cons.2 ⟨?_, i1⟩
          intro hh; exact i2 h hh (by simp)
        · intro x hx
          rcases List.mem_cons.1 hx with rfl | hx
          · exact hm
          · intro hxm; exact i2 x hx (List.mem_cons_of_mem _ hxm)
        · intro x hx; exact i3 x (List.mem_cons_of_mem _ hx)
        · intro x hx
          rcases List.mem_cons.1 hx with rfl | hx
          · exact i3 x (by simp)
          · exact i4 x hx
      · simp only [hsa]; exact ih mined

/-- **Not submitted before its timestamp; given up on a stop or a better tip.**  A block is handed to the chain
only by a poll that saw the clock after the block's timestamp, and only if until then the miner was not stopped and
the best block was still the block's previous block. -/
theorem C08_wait (w : Wait) (hd : w.done = none) (ls : List WLabel) (h : (w.run ls).done = some true) :
    w.quit = false ∧ w.tipMoved = false ∧ ∃ now, WLabel.poll now ∈ ls ∧ now > w.ts := by
  induction ls generalizing w with
  | nil => simp only [Wait.run, List.foldl_nil] at h; rw [hd] at h; cases h
  | cons l r ih =>
    simp only [Wait.run, List.foldl_cons] at h
    have hfin : ∀ (w' : Wait) (b : Bool), w'.done = some b → ∀ ls', (w'.run ls').done = some b := by
      intro w' b hb ls'
      induction ls' generalizing w' with
      | nil => exact hb
      | cons l' r' ih' =>
        simp only [Wait.run, List.foldl_cons]
        apply ih'
        cases l' <;> simp [Wait.step, hb]
    cases l with
    | stop =>
      have hs : (w.step .stop).done = none := by simp [Wait.step, hd]
      have := ih (w.step .stop) hs h
      simp [Wait.step] at this
    | tip =>
      have hs : (w.step .tip).done = none := by simp [Wait.step, hd]
      have := ih (w.step .tip) hs h
      simp [Wait.step] at this
    | poll now =>
      by_cases hq : w.quit = true
      · have : (w.step (.poll now)).done = some false := by simp [Wait.step, hd, hq]
        have := hfin _ _ this r
        simp only [Wait.run] at this h
        rw [this] at h; cases h
      · by_cases hn : now > w.ts
        · have hdone : (w.step (.poll now)).done = some (!w.tipMoved) := by simp [Wait.step, hd, hq, hn]
          have := hfin _ _ hdone r
          simp only [Wait.run] at this h
          rw [this] at h
          have htm : w.tipMoved = false := by
            cases hb : w.tipMoved with
            | false => rfl
            | true => rw [hb] at h; cases h
          exact ⟨by simpa using hq, htm, now, by simp, hn⟩
        · have hsame : w.step (.poll now) = w := by simp [Wait.step, hd, hq, hn]
          rw [hsame] at h
          obtain ⟨a, b, now', hm, hgt⟩ := ih w hd h
          exact ⟨a, b, now', List.mem_cons_of_mem _ hm, hgt⟩

/-! ### the premises are satisfiable -/

/-- two bound verifying proofs; the second is the best of slot 5 and exceeds the target there, nobody wins slot 4;
the clock reaches slot 4 (= 5 − allowAhead) at the second tick -/
def exA : Cand := ⟨0, false, true, true, fun s => if s = 5 then 70 else 10⟩
def exB : Cand := ⟨1, false, true, true, fun s => if s = 5 then 90 else 20⟩
example : ((Scan.run { el := eligible [exA, exB], target := fun _ => 50, work := 4 } [.tick 3, .tick 4]).result.map
    fun r => match r with | .found c s => (c.id, s) | _ => (99, 99)) = some (1, 5) := by decide
example : ((Scan.run { el := eligible [exA, exB], target := fun _ => 50, work := 4 } [.tick 3]).result.map
    fun r => match r with | .found c s => (c.id, s) | _ => (99, 99)) = none := by decide

example : (Wait.run { ts := 10 } [.poll 9, .poll 10, .poll 11]).done = some true := by decide
example : (Wait.run { ts := 10 } [.poll 9, .stop, .poll 11]).done = some false := by decide
example : (rounds [] [(7, true, true), (7, true, true), (8, true, false), (8, true, true)]).2 = [7, 8] := by decide

end MassVerif.Miner
