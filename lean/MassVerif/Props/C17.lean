/-
C17 — Cluster tasks reach the right collectors and reports the right task.

Theorems over `Model/Fractal.lean` (the task router of the local superior at message level, any sequence of
add/remove/subscribe/unsubscribe/report/read labels, any number of tasks, collectors and pending reports), the
relay hop, and the regenerated code facts the model's atomicity and totality stand on.
-/
import MassVerif.Model.Fractal

namespace MassVerif.Fractal

/-! ### code facts (regenerated from /repo on every run) -/

/-- the hand-over of a report happens outside the task-cache lock and recovers from a channel closed by
`RemoveTask` (so a slow or vanished waiter blocks only the reporting call, never `RemoveTask`, `AddTask` or other
reports, and a late report cannot panic); `RemoveTask` closes and unregisters under that lock; registering a
collector / reading the latest task is serialised with recording / broadcasting a broadcast task (local and remote
superior); stopping a collector pool closes its listener; a task's channel holds 10 reports -/
theorem C17_code_facts :
    Facts.fractalSubmitSendsOutsideLock = true ∧ Facts.fractalSubmitRecovers = true ∧
    Facts.fractalRemoveUnderLock = true ∧ Facts.fractalLatestSerialised = true ∧
    Facts.fractalPoolStopClosesListener = true ∧ Facts.fractalTaskChanCap = 10 := by decide

/-! ### basic facts about the task table -/

theorem bufOf_some_mem {s : Sup} {tid : Nat} {b : List Report} (h : bufOf s tid = some b) : (tid, b) ∈ s.tasks := by
  unfold bufOf at h
  cases hf : s.tasks.find? (fun e => e.1 == tid) with
  | none => simp [hf] at h
  | some e =>
    simp only [hf, Option.map_some, Option.some.injEq] at h
    have hm := List.mem_of_find?_eq_some hf
    have hp := List.find?_some hf
    simp only [beq_iff_eq] at hp
    obtain ⟨a, c⟩ := e
    simp only at hp h
    subst hp; subst h
    exact hm

theorem mem_setBuf {tasks : List (Nat × List Report)} {tid : Nat} {b : List Report} {e : Nat × List Report}
    (h : e ∈ setBuf tasks tid b) : (e = (tid, b) ∧ ∃ b0, (tid, b0) ∈ tasks) ∨ (e ∈ tasks ∧ e.1 ≠ tid) := by
  unfold setBuf at h
  obtain ⟨x, hx, rfl⟩ := List.mem_map.1 h
  by_cases hc : x.1 = tid
  · left
    simp only [hc, beq_self_eq_true, if_true]
    exact ⟨trivial, x.2, by rw [← hc]; exact hx⟩
  · right
    have : (x.1 == tid) = false := by simpa using hc
    simp only [this, Bool.false_eq_true, if_false]
    exact ⟨hx, hc⟩

theorem setBuf_keys (tasks : List (Nat × List Report)) (tid : Nat) (b : List Report) :
    (setBuf tasks tid b).map (·.1) = tasks.map (·.1) := by
  unfold setBuf
  rw [List.map_map]
  apply List.map_congr_left
  intro x _
  simp only [Function.comp]
  by_cases hc : x.1 = tid
  · simp [hc]
  · have : (x.1 == tid) = false := by simpa using hc
    simp [this]

/-! ### the invariant -/

structure Inv (s : Sup) : Prop where
  named : ∀ e ∈ s.tasks, ∀ r ∈ e.2, r.task = e.1              -- a buffered report names the task of its channel
  keys : (s.tasks.map (·.1)).Nodup                              -- one channel per task id
  cap : ∀ e ∈ s.tasks, e.2.length ≤ chanCap                     -- a channel never holds more than its capacity
  waitOpen : ∀ r ∈ s.waiting, ∃ b, (r.task, b) ∈ s.tasks       -- a sender waits only for an open task
  colls : s.collectors.Nodup

theorem inv_init : Inv {} := ⟨by simp, by simp, by simp, by simp, by simp⟩

theorem letThrough_inv {s : Sup} (hi : Inv s) (tid : Nat) : Inv (letThrough s tid) := by
  unfold letThrough
  split
  · rename_i b r hb hr
    split
    · rename_i hlen
      have hrt : r.task = tid := by
        have := List.find?_some hr
        simpa using this
      have hmem := bufOf_some_mem hb
      refine ⟨?_, ?_, ?_, ?_, hi.colls⟩
      · intro e he x hx
        rcases mem_setBuf he with ⟨rfl, _⟩ | ⟨h1, _⟩
        · rcases List.mem_append.1 hx with hx | hx
          · exact hi.named _ hmem x hx
          · simp only [List.mem_singleton] at hx; subst hx; exact hrt
        · exact hi.named e h1 x hx
      · rw [setBuf_keys]; exact hi.keys
      · intro e he
        rcases mem_setBuf he with ⟨rfl, _⟩ | ⟨h1, _⟩
        · simp only [List.length_append, List.length_singleton]; omega
        · exact hi.cap e h1
      · intro x hx
        have hx' : x ∈ s.waiting := List.mem_of_mem_erase hx
        obtain ⟨b0, hb0⟩ := hi.waitOpen x hx'
        by_cases hc : x.task = tid
        · exact ⟨b ++ [r], by
            unfold setBuf
            exact List.mem_map.2 ⟨(tid, b), hmem, by simp [hc]⟩⟩
        · exact ⟨b0, by
            unfold setBuf
            exact List.mem_map.2 ⟨(x.task, b0), hb0, by
              have : (x.task == tid) = false := by simpa using hc
              simp [this]⟩⟩
    · exact hi
  · exact hi

theorem step_inv {s : Sup} (hi : Inv s) (l : Label) : Inv (step s l) := by
  cases l with
  | addTask r target =>
    have hkeys : (((s.tasks.filter (fun e => e.1 != r.task)) ++ [(r.task, ([] : List Report))]).map (fun e => e.1)).Nodup := by
      rw [List.map_append, List.nodup_append]
      refine ⟨(hi.keys.sublist (List.Sublist.map _ List.filter_sublist)), by simp, ?_⟩
      intro a ha b hb
      simp only [List.map_cons, List.map_nil, List.mem_singleton] at hb
      subst hb
      obtain ⟨e, he, rfl⟩ := List.mem_map.1 ha
      have := (List.mem_filter.1 he).2
      simpa using this
    have base : Inv { s with tasks := (s.tasks.filter (fun e => e.1 != r.task)) ++ [(r.task, [])] } := by
      refine ⟨?_, hkeys, ?_, ?_, hi.colls⟩
      · intro e he x hx
        rcases List.mem_append.1 he with he | he
        · exact hi.named e (List.mem_filter.1 he).1 x hx
        · simp only [List.mem_singleton] at he; subst he; cases hx
      · intro e he
        rcases List.mem_append.1 he with he | he
        · exact hi.cap e (List.mem_filter.1 he).1
        · simp only [List.mem_singleton] at he; subst he; simp
      · intro x hx
        obtain ⟨b0, hb0⟩ := hi.waitOpen x hx
        by_cases hc : x.task = r.task
        · exact ⟨[], by simp [hc]⟩
        · exact ⟨b0, List.mem_append.2 (Or.inl (List.mem_filter.2 ⟨hb0, by simpa using hc⟩))⟩
    simp only [step]
    cases target with
    | none => exact ⟨base.named, base.keys, base.cap, base.waitOpen, base.colls⟩
    | some c =>
      simp only
      split
      · exact ⟨base.named, base.keys, base.cap, base.waitOpen, base.colls⟩
      · exact base
  | removeTask tid =>
    simp only [step]
    split
    · exact hi
    · refine ⟨?_, ?_, ?_, ?_, hi.colls⟩
      · intro e he x hx; exact hi.named e (List.mem_filter.1 he).1 x hx
      · exact hi.keys.sublist (List.Sublist.map _ List.filter_sublist)
      · intro e he; exact hi.cap e (List.mem_filter.1 he).1
      · intro x hx
        have hx' := List.mem_filter.1 hx
        obtain ⟨b0, hb0⟩ := hi.waitOpen x hx'.1
        exact ⟨b0, List.mem_filter.2 ⟨hb0, by simpa using hx'.2⟩⟩
  | subscribe c =>
    simp only [step]
    have hc : (if c ∈ s.collectors then s.collectors else s.collectors ++ [c]).Nodup := by
      split
      · exact hi.colls
      · rename_i hn
        rw [List.nodup_append]
        exact ⟨hi.colls, by simp, by intro a ha b hb; simp only [List.mem_singleton] at hb; subst hb; intro h; subst h; exact hn ha⟩
    split <;> exact ⟨hi.named, hi.keys, hi.cap, hi.waitOpen, hc⟩
  | unsubscribe c =>
    exact ⟨hi.named, hi.keys, hi.cap, hi.waitOpen, hi.colls.sublist List.filter_sublist⟩
  | report c tid p =>
    simp only [step]
    split
    · exact hi
    · rename_i b hb
      have hmem := bufOf_some_mem hb
      split
      · rename_i hroom
        refine ⟨?_, ?_, ?_, ?_, hi.colls⟩
        · intro e he x hx
          rcases mem_setBuf he with ⟨rfl, _⟩ | ⟨h1, _⟩
          · rcases List.mem_append.1 hx with hx | hx
            · exact hi.named _ hmem x hx
            · simp only [List.mem_singleton] at hx; subst hx; rfl
          · exact hi.named e h1 x hx
        · rw [setBuf_keys]; exact hi.keys
        · intro e he
          rcases mem_setBuf he with ⟨rfl, _⟩ | ⟨h1, _⟩
          · simp only [List.length_append, List.length_singleton]; omega
          · exact hi.cap e h1
        · intro x hx
          obtain ⟨b0, hb0⟩ := hi.waitOpen x hx
          by_cases hc : x.task = tid
          · exact ⟨b ++ [⟨tid, c, p⟩], by
              unfold setBuf
              exact List.mem_map.2 ⟨(tid, b), hmem, by simp [hc]⟩⟩
          · exact ⟨b0, by
              unfold setBuf
              exact List.mem_map.2 ⟨(x.task, b0), hb0, by
                have : (x.task == tid) = false := by simpa using hc
                simp [this]⟩⟩
      · refine ⟨hi.named, hi.keys, hi.cap, ?_, hi.colls⟩
        intro x hx
        rcases List.mem_append.1 hx with hx | hx
        · exact hi.waitOpen x hx
        · simp only [List.mem_singleton] at hx; subst hx; exact ⟨b, hmem⟩
  | read tid =>
    simp only [step]
    split
    · rename_i r b hb
      apply letThrough_inv
      have hmem := bufOf_some_mem hb
      refine ⟨?_, ?_, ?_, ?_, hi.colls⟩
      · intro e he x hx
        rcases mem_setBuf he with ⟨rfl, _⟩ | ⟨h1, _⟩
        · exact hi.named _ hmem x (List.mem_cons_of_mem _ hx)
        · exact hi.named e h1 x hx
      · rw [setBuf_keys]; exact hi.keys
      · intro e he
        rcases mem_setBuf he with ⟨rfl, _⟩ | ⟨h1, _⟩
        · have := hi.cap _ hmem; simp only [List.length_cons] at this; show b.length ≤ chanCap; omega
        · exact hi.cap e h1
      · intro x hx
        obtain ⟨b0, hb0⟩ := hi.waitOpen x hx
        by_cases hc : x.task = tid
        · exact ⟨b, by
            unfold setBuf
            exact List.mem_map.2 ⟨(tid, r :: b), hmem, by simp [hc]⟩⟩
        · exact ⟨b0, by
            unfold setBuf
            exact List.mem_map.2 ⟨(x.task, b0), hb0, by
              have : (x.task == tid) = false := by simpa using hc
              simp [this]⟩⟩
    · exact hi

theorem run_inv (ls : List Label) : ∀ s, Inv s → Inv (run s ls) := by
  induction ls with
  | nil => intro s h; exact h
  | cons l r ih => intro s h; exact ih _ (step_inv h l)

/-! ### reports reach only the waiter of the task they name, tagged and unmodified -/

/-- everything in flight or read was reported, with that collector tag and that payload, for that task -/
def Reported (ls : List Label) (r : Report) : Prop := Label.report r.cid r.task r.payload ∈ ls

structure Traced (ls : List Label) (s : Sup) : Prop where
  bufs : ∀ e ∈ s.tasks, ∀ r ∈ e.2, Reported ls r
  waits : ∀ r ∈ s.waiting, Reported ls r
  reads : ∀ r ∈ s.read, Reported ls r

theorem traced_mono {ls : List Label} {s : Sup} (l : Label) (h : Traced ls s) : Traced (ls ++ [l]) s :=
  ⟨fun e he r hr => List.mem_append.2 (Or.inl (h.bufs e he r hr)),
   fun r hr => List.mem_append.2 (Or.inl (h.waits r hr)),
   fun r hr => List.mem_append.2 (Or.inl (h.reads r hr))⟩

theorem letThrough_traced {ls : List Label} {s : Sup} (h : Traced ls s) (tid : Nat) : Traced ls (letThrough s tid) := by
  unfold letThrough
  split
  · rename_i b r hb hr
    split
    · have hmem := bufOf_some_mem hb
      have hrw : r ∈ s.waiting := List.mem_of_find?_eq_some hr
      refine ⟨?_, fun x hx => h.waits x (List.mem_of_mem_erase hx), h.reads⟩
      intro e he x hx
      rcases mem_setBuf he with ⟨rfl, _⟩ | ⟨h1, _⟩
      · rcases List.mem_append.1 hx with hx | hx
        · exact h.bufs _ hmem x hx
        · simp only [List.mem_singleton] at hx; subst hx; exact h.waits _ hrw
      · exact h.bufs e h1 x hx
    · exact h
  · exact h

theorem step_traced {ls : List Label} {s : Sup} (h : Traced ls s) (l : Label) : Traced (ls ++ [l]) (step s l) := by
  have hm := traced_mono l h
  cases l with
  | addTask r target =>
    simp only [step]
    have base : Traced (ls ++ [.addTask r target]) { s with tasks := (s.tasks.filter (fun e => e.1 != r.task)) ++ [(r.task, [])] } := by
      refine ⟨?_, hm.waits, hm.reads⟩
      intro e he x hx
      rcases List.mem_append.1 he with he | he
      · exact hm.bufs e (List.mem_filter.1 he).1 x hx
      · simp only [List.mem_singleton] at he; subst he; cases hx
    cases target with
    | none => exact ⟨base.bufs, base.waits, base.reads⟩
    | some c =>
      simp only
      split
      · exact ⟨base.bufs, base.waits, base.reads⟩
      · exact base
  | removeTask tid =>
    simp only [step]
    split
    · exact hm
    · exact ⟨fun e he x hx => hm.bufs e (List.mem_filter.1 he).1 x hx,
             fun x hx => hm.waits x (List.mem_filter.1 hx).1, hm.reads⟩
  | subscribe c =>
    simp only [step]
    split <;> exact ⟨hm.bufs, hm.waits, hm.reads⟩
  | unsubscribe c => exact ⟨hm.bufs, hm.waits, hm.reads⟩
  | report c tid p =>
    simp only [step]
    have hnew : Reported (ls ++ [.report c tid p]) ⟨tid, c, p⟩ := by
      unfold Reported; simp
    split
    · exact hm
    · rename_i b hb
      have hmem := bufOf_some_mem hb
      split
      · refine ⟨?_, hm.waits, hm.reads⟩
        intro e he x hx
        rcases mem_setBuf he with ⟨rfl, _⟩ | ⟨h1, _⟩
        · rcases List.mem_append.1 hx with hx | hx
          · exact hm.bufs _ hmem x hx
          · simp only [List.mem_singleton] at hx; subst hx; exact hnew
        · exact hm.bufs e h1 x hx
      · refine ⟨hm.bufs, ?_, hm.reads⟩
        intro x hx
        rcases List.mem_append.1 hx with hx | hx
        · exact hm.waits x hx
        · simp only [List.mem_singleton] at hx; subst hx; exact hnew
  | read tid =>
    simp only [step]
    split
    · rename_i r b hb
      apply letThrough_traced
      have hmem := bufOf_some_mem hb
      refine ⟨?_, hm.waits, ?_⟩
      · intro e he x hx
        rcases mem_setBuf he with ⟨rfl, _⟩ | ⟨h1, _⟩
        · exact hm.bufs _ hmem x (List.mem_cons_of_mem _ hx)
        · exact hm.bufs e h1 x hx
      · intro x hx
        rcases List.mem_append.1 hx with hx | hx
        · exact hm.reads x hx
        · simp only [List.mem_singleton] at hx; subst hx
          exact hm.bufs _ hmem x (by simp)
    · exact hm

theorem run_traced (ls2 : List Label) : ∀ (ls1 : List Label) (s : Sup), Traced ls1 s → Traced (ls1 ++ ls2) (run s ls2) := by
  induction ls2 with
  | nil => intro ls1 s h; simpa [run] using h
  | cons l r ih =>
    intro ls1 s h
    have := ih (ls1 ++ [l]) (step s l) (step_traced h l)
    simpa [run, List.append_assoc] using this

/-- **A report is delivered only to the waiter of the task it names, tagged with the reporting collector, with its
payload unmodified.**  In every reachable state: a report buffered in a task's channel names that task; and every
report a waiter has read, every buffered report and every report of a waiting sender was reported — for that
task, by that collector, with that payload. -/
theorem C17_report_to_named_task (ls : List Label) :
    (∀ e ∈ (run {} ls).tasks, ∀ r ∈ e.2, r.task = e.1) ∧
    (∀ r ∈ (run {} ls).read, Reported ls r) ∧
    (∀ e ∈ (run {} ls).tasks, ∀ r ∈ e.2, Reported ls r) := by
  have hi := run_inv ls {} inv_init
  have ht := run_traced ls [] {} ⟨by simp, by simp, by simp⟩
  simp only [List.nil_append] at ht
  exact ⟨hi.named, ht.reads, ht.bufs⟩

/-- the waiter of task `tid` reads only reports that name `tid` -/
theorem C17_read_names_task (s : Sup) (hi : Inv s) (tid : Nat) :
    (step s (.read tid)).read = s.read ∨ ∃ r, r.task = tid ∧ (step s (.read tid)).read = s.read ++ [r] := by
  simp only [step]
  split
  · rename_i r b hb
    right
    have hmem := bufOf_some_mem hb
    refine ⟨r, hi.named _ hmem r (by simp), ?_⟩
    unfold letThrough
    split
    · split <;> rfl
    · rfl
  · left; rfl

/-! ### no delivery to a removed task; removing always works -/

theorem bufOf_none_of_not_key {s : Sup} {tid : Nat} (h : tid ∉ s.tasks.map (·.1)) : bufOf s tid = none := by
  unfold bufOf
  cases hf : s.tasks.find? (fun e => e.1 == tid) with
  | none => rfl
  | some e =>
    have hm := List.mem_of_find?_eq_some hf
    have hp := List.find?_some hf
    simp only [beq_iff_eq] at hp
    exact absurd (List.mem_map.2 ⟨e, hm, hp⟩) h

theorem bufOf_isSome_of_mem {s : Sup} {tid : Nat} {b : List Report} (h : (tid, b) ∈ s.tasks) : (bufOf s tid).isSome = true := by
  unfold bufOf
  rw [Option.isSome_map, List.find?_isSome]
  exact ⟨(tid, b), h, by simp⟩

/-- **Removing a task unregisters its channel and lets every waiting sender go; afterwards a report naming the task
changes nothing** (it is dropped: no delivery to a removed task, no waiting, no effect on other tasks). -/
theorem C17_no_delivery_after_remove (s : Sup) (hi : Inv s) (tid : Nat) :
    bufOf (step s (.removeTask tid)) tid = none ∧ (∀ r ∈ (step s (.removeTask tid)).waiting, r.task ≠ tid) ∧
    (step s (.removeTask tid)).read = s.read ∧
    ∀ c p, step (step s (.removeTask tid)) (.report c tid p) = step s (.removeTask tid) := by
  have hnone : bufOf (step s (.removeTask tid)) tid = none := by
    simp only [step]
    split
    · assumption
    · apply bufOf_none_of_not_key
      intro hm
      obtain ⟨e, he, hk⟩ := List.mem_map.1 hm
      have := (List.mem_filter.1 he).2
      simp [hk] at this
  refine ⟨hnone, ?_, ?_, ?_⟩
  · simp only [step]
    split
    · rename_i hb
      intro r hr heq
      obtain ⟨b, hb'⟩ := hi.waitOpen r hr
      rw [heq] at hb'
      have := bufOf_isSome_of_mem hb'
      rw [hb] at this; cases this
    · intro r hr
      have := (List.mem_filter.1 hr).2
      simpa using this
  · simp only [step]; split <;> rfl
  · intro c p
    generalize step s (.removeTask tid) = s' at hnone
    simp only [step, hnone]

/-- a report for a task that is not open (never added, or removed) is dropped -/
theorem C17_report_unknown_task_dropped (s : Sup) (c tid p : Nat) (h : bufOf s tid = none) :
    step s (.report c tid p) = s := by
  simp only [step, h]

/-! ### requests: broadcast to every subscribed collector once, latest task to later subscribers, targeted tasks to
their target only -/

/-- **A broadcast task is handed once to every subscribed collector and to nobody else; a targeted task to its
target only (if subscribed).** -/
theorem C17_add_task_delivery (s : Sup) (r : Req) :
    (step s (.addTask r none)).inbox = s.inbox ++ s.collectors.map (fun c => (c, r)) ∧
    (step s (.addTask r none)).latest = some r ∧
    (∀ c, (step s (.addTask r (some c))).inbox = s.inbox ++ (if c ∈ s.collectors then [(c, r)] else [])) ∧
    (∀ c, (step s (.addTask r (some c))).latest = s.latest) := by
  refine ⟨rfl, rfl, ?_, ?_⟩
  · intro c
    simp only [step]
    split <;> simp
  · intro c
    simp only [step]
    split <;> rfl

/-- with the collectors distinct (invariant), "once": each subscribed collector occurs exactly once among the
hand-overs of a broadcast -/
theorem count_map_pair (l : List Nat) (hnd : l.Nodup) (r : Req) (c : Nat) :
    ((l.map (fun c => (c, r))).count (c, r)) = if c ∈ l then 1 else 0 := by
  induction l with
  | nil => simp
  | cons x xs ih =>
    simp only [List.nodup_cons] at hnd
    simp only [List.map_cons, List.count_cons, List.mem_cons]
    rw [ih hnd.2]
    by_cases hx : x = c
    · subst hx
      have : ¬ x ∈ xs := hnd.1
      simp [this]
    · have h1 : ((x, r) == (c, r)) = false := by
        simp [hx]
      have h2 : ¬ c = x := fun h => hx h.symm
      simp [h1, h2]

theorem C17_broadcast_exactly_once (s : Sup) (hi : Inv s) (r : Req) (c : Nat) :
    ((s.collectors.map (fun c => (c, r))).count (c, r)) = if c ∈ s.collectors then 1 else 0 :=
  count_map_pair s.collectors hi.colls r c

/-- **A collector that subscribes while a broadcast task is current is handed that task, once; otherwise nothing.**
No other label hands a request to anybody. -/
theorem C17_subscribe_delivery (s : Sup) (c : Nat) :
    (step s (.subscribe c)).inbox = s.inbox ++ (match s.latest with | some r => [(c, r)] | none => []) ∧
    c ∈ (step s (.subscribe c)).collectors := by
  simp only [step]
  cases s.latest with
  | none =>
    refine ⟨by simp, ?_⟩
    simp only
    split
    · assumption
    · simp
  | some r =>
    refine ⟨rfl, ?_⟩
    simp only
    split
    · assumption
    · simp

theorem C17_other_labels_hand_over_nothing (s : Sup) :
    (∀ t, (step s (.removeTask t)).inbox = s.inbox) ∧ (∀ c, (step s (.unsubscribe c)).inbox = s.inbox) ∧
    (∀ c t p, (step s (.report c t p)).inbox = s.inbox) ∧ (∀ t, (step s (.read t)).inbox = s.inbox) := by
  refine ⟨?_, fun c => rfl, ?_, ?_⟩
  · intro t; simp only [step]; split <;> rfl
  · intro c t p; simp only [step]; split
    · rfl
    · split <;> rfl
  · intro t; simp only [step]; split
    · unfold letThrough; split
      · split <;> rfl
      · rfl
    · rfl

/-- the latest task stops being current when it is removed -/
theorem C17_latest_cleared_on_remove (s : Sup) (r : Req) (hl : s.latest = some r) (ho : (bufOf s r.task).isSome = true) :
    (step s (.removeTask r.task)).latest = none := by
  simp only [step]
  split
  · rename_i hb; rw [hb] at ho; cases ho
  · simp [hl]

/-! ### relays -/

/-- **Through any number of relays a report keeps the task it names and its payload**; what changes is the tag:
at each hop the collector id is the one of the connection the report came in on -/
theorem C17_relay_preserves (path : List Nat) (x : Report) :
    (relayUp path x).task = x.task ∧ (relayUp path x).payload = x.payload ∧
    (relayUp path x).cid = (path.getLast?).getD x.cid := by
  induction path generalizing x with
  | nil => simp [relayUp]
  | cons r rest ih =>
    have := ih (hop r x)
    simp only [relayUp, List.foldl_cons] at this ⊢
    refine ⟨this.1, this.2.1, ?_⟩
    rw [this.2.2]
    cases rest with
    | nil => simp [hop]
    | cons a b =>
      have : (a :: b).getLast? = some ((a :: b).getLast (by simp)) := List.getLast?_eq_some_getLast (by simp)
      simp [List.getLast?_cons_cons, this]

/-! ### nothing blocks: every label is a total step, a full channel holds up only its own senders -/

/-- **Removing a task returns and frees its waiting senders whatever their number**; a full channel of one task does
not touch the other tasks' channels, nor the requests, nor what was read -/
theorem C17_full_channel_blocks_only_its_senders (s : Sup) (c tid p : Nat) (b : List Report)
    (hb : bufOf s tid = some b) (hfull : ¬ (b.length < chanCap ∧ (s.waiting.find? (·.task == tid)).isNone = true)) :
    (step s (.report c tid p)).tasks = s.tasks ∧ (step s (.report c tid p)).read = s.read ∧
    (step s (.report c tid p)).inbox = s.inbox ∧ (step s (.report c tid p)).waiting = s.waiting ++ [⟨tid, c, p⟩] := by
  simp only [step, hb]
  rw [if_neg hfull]
  exact ⟨rfl, rfl, rfl, rfl⟩

/-! ### order: each task's channel is a FIFO queue -/

/-- the reports on their way to the waiter of `tid`, oldest first: the channel's buffer, then the senders waiting
for room in it -/
def queue (s : Sup) (tid : Nat) : List Report := (bufOf s tid).getD [] ++ s.waiting.filter (fun r => r.task == tid)

theorem filter_erase_find (l : List Report) (p : Report → Bool) (r : Report) (h : l.find? p = some r) :
    l.filter p = r :: (l.erase r).filter p := by
  induction l with
  | nil => cases h
  | cons x xs ih =>
    by_cases hp : p x = true
    · simp only [List.find?_cons, hp] at h
      cases h
      simp [hp]
    · have hp' : p x = false := by simpa using hp
      simp only [List.find?_cons, hp'] at h
      have hr : p r = true := List.find?_some h
      have hne : x ≠ r := by intro he; rw [he] at hp'; rw [hp'] at hr; cases hr
      have hbeq : (x == r) = false := by simpa using hne
      rw [List.filter_cons, hp', List.erase_cons, hbeq]
      simp only [Bool.false_eq_true, if_false, List.filter_cons, hp']
      exact ih h

theorem bufOf_setBuf_self {tasks : List (Nat × List Report)} {tid : Nat} {b0 b : List Report}
    (h : (tasks.find? (fun e => e.1 == tid)).map (·.2) = some b0) :
    ((setBuf tasks tid b).find? (fun e => e.1 == tid)).map (·.2) = some b := by
  induction tasks with
  | nil => simp at h
  | cons x xs ih =>
    unfold setBuf
    by_cases hx : x.1 = tid
    · simp [hx]
    · have hx' : (x.1 == tid) = false := by simpa using hx
      simp only [List.find?_cons, hx'] at h
      simp only [List.map_cons, hx', Bool.false_eq_true, if_false, List.find?_cons]
      exact ih h

theorem bufOf_setBuf_other {tasks : List (Nat × List Report)} {tid t : Nat} {b : List Report} (hne : t ≠ tid) :
    ((setBuf tasks tid b).find? (fun e => e.1 == t)).map (·.2) = (tasks.find? (fun e => e.1 == t)).map (·.2) := by
  induction tasks with
  | nil => rfl
  | cons x xs ih =>
    unfold setBuf at ih ⊢
    by_cases hx : x.1 = tid
    · have h1 : (x.1 == tid) = true := by simpa using hx
      have h2 : (tid == t) = false := by simpa using fun h : tid = t => hne h.symm
      have h3 : (x.1 == t) = false := by rw [hx]; exact h2
      simp only [List.map_cons, h1, if_true, List.find?_cons, h2, h3]
      exact ih
    · have h1 : (x.1 == tid) = false := by simpa using hx
      simp only [List.map_cons, h1, Bool.false_eq_true, if_false, List.find?_cons]
      split
      · rfl
      · exact ih

/-- **A report joins the end of the queue of the task it names (if that task is open) and of no other queue.** -/
theorem C17_fifo_report (s : Sup) (c tid p : Nat) (b : List Report) (hb : bufOf s tid = some b) :
    queue (step s (.report c tid p)) tid = queue s tid ++ [⟨tid, c, p⟩] ∧
    ∀ t, t ≠ tid → queue (step s (.report c tid p)) t = queue s t := by
  have hb' := hb
  unfold bufOf at hb'
  constructor
  · simp only [step, hb]
    split
    · rename_i hroom
      -- room, and nobody waits for this task: the report goes into the buffer
      have hnone : s.waiting.filter (fun r => r.task == tid) = [] := by
        rw [List.filter_eq_nil_iff]
        intro r hr hp
        have hn : s.waiting.find? (fun r => r.task == tid) = none := by
          cases hf : s.waiting.find? (fun r => r.task == tid) with
          | none => rfl
          | some x => have := hroom.2; rw [hf] at this; cases this
        exact (List.find?_eq_none.1 hn r hr) hp
      unfold queue bufOf
      simp only
      rw [bufOf_setBuf_self hb', hb', hnone]
      simp
    · unfold queue bufOf
      simp only [hb', List.filter_append, Option.getD_some]
      simp [List.append_assoc]
  · intro t ht
    simp only [step, hb]
    split
    · unfold queue bufOf
      simp only
      rw [bufOf_setBuf_other ht]
    · unfold queue bufOf
      simp only [List.filter_append]
      have : ([({ task := tid, cid := c, payload := p } : Report)].filter (fun r => r.task == t)) = [] := by
        have : (tid == t) = false := by simpa using fun h : tid = t => ht h.symm
        simp [this]
      rw [this]; simp

/-- **The waiter of a task reads the oldest report of that task's queue; the rest keeps its order; other tasks'
queues are untouched.** -/
theorem C17_fifo_read (s : Sup) (hi : Inv s) (tid : Nat) (r : Report) (b : List Report) (hb : bufOf s tid = some (r :: b)) :
    (step s (.read tid)).read = s.read ++ [r] ∧
    queue s tid = r :: queue (step s (.read tid)) tid ∧
    ∀ t, t ≠ tid → queue (step s (.read tid)) t = queue s t := by
  have hb' := hb
  unfold bufOf at hb'
  have hmem := bufOf_some_mem hb
  have hcap : b.length < chanCap := by
    have := hi.cap _ hmem
    simp only [List.length_cons] at this
    omega
  -- the state after taking `r` off the buffer
  have hb1 : bufOf { s with tasks := setBuf s.tasks tid b, read := s.read ++ [r] } tid = some b := by
    unfold bufOf; exact bufOf_setBuf_self hb'
  simp only [step, hb]
  unfold letThrough
  rw [hb1]
  cases hw : s.waiting.find? (fun x => x.task == tid) with
  | none =>
    simp only [hw]
    have hnone : s.waiting.filter (fun x => x.task == tid) = [] := by
      rw [List.filter_eq_nil_iff]
      intro x hx hp
      exact (List.find?_eq_none.1 hw x hx) hp
    refine ⟨by first | rfl | trivial, ?_, ?_⟩
    · unfold queue
      rw [hb, hb1]
      simp [hnone]
    · intro t ht
      unfold queue bufOf
      simp only
      rw [bufOf_setBuf_other ht]
  | some r' =>
    simp only [hw, if_pos hcap]
    have hfilter := filter_erase_find s.waiting (fun x => x.task == tid) r' hw
    refine ⟨by first | rfl | trivial, ?_, ?_⟩
    · unfold queue
      rw [hb]
      have : bufOf { s with tasks := setBuf (setBuf s.tasks tid b) tid (b ++ [r']), read := s.read ++ [r], waiting := s.waiting.erase r' } tid = some (b ++ [r']) := by
        unfold bufOf
        have h1 : ((setBuf s.tasks tid b).find? (fun e => e.1 == tid)).map (·.2) = some b := bufOf_setBuf_self hb'
        exact bufOf_setBuf_self h1
      rw [this]
      simp only [Option.getD_some]
      rw [hfilter]
      simp [List.append_assoc]
    · intro t ht
      unfold queue bufOf
      simp only
      rw [bufOf_setBuf_other ht, bufOf_setBuf_other ht]
      congr 1
      -- a sender waiting for `tid` left: the senders waiting for `t` are the same
      have hr' : r'.task = tid := by simpa using List.find?_some hw
      have : ∀ (l : List Report), (l.erase r').filter (fun x => x.task == t) = l.filter (fun x => x.task == t) := by
        intro l
        induction l with
        | nil => rfl
        | cons x xs ih =>
          rw [List.erase_cons]
          by_cases hx : x = r'
          · have : (x == r') = true := by simpa using hx
            simp only [this, if_true]
            have : (x.task == t) = false := by
              rw [hx, hr']; simpa using fun h : tid = t => ht h.symm
            simp [this]
          · have : (x == r') = false := by simpa using hx
            simp only [this, Bool.false_eq_true, if_false, List.filter_cons, ih]
      exact this s.waiting

/-! ### order on a connection: per lane -/

def lane (b : Bool) (w : List (Bool × Nat)) : List Nat := (w.filter (fun x => x.1 == b)).map (·.2)

theorem lane_append (b : Bool) (w v : List (Bool × Nat)) : lane b (w ++ v) = lane b w ++ lane b v := by
  simp [lane, List.filter_append]

theorem sentPrio_append (a b : List CLabel) : sentPrio (a ++ b) = sentPrio a ++ sentPrio b := by
  induction a with
  | nil => rfl
  | cons x r ih => cases x <;> simp [sentPrio, ih]

theorem sentNorm_append (a b : List CLabel) : sentNorm (a ++ b) = sentNorm a ++ sentNorm b := by
  induction a with
  | nil => rfl
  | cons x r ih => cases x <;> simp [sentNorm, ih]

/-- **In order per connection, lane by lane**: whatever the interleaving of senders and of the sender routine's
choices, what has been written to the socket from a lane, followed by what still waits in that lane, is exactly what
was sent on that lane, in the order it was sent — nothing lost, duplicated or reordered within a lane (a priority
message may overtake normal ones: that is the design of the two lanes). -/
theorem C17_connection_order_per_lane (ls : List CLabel) :
    lane true (Conn.run {} ls).wire ++ (Conn.run {} ls).prio = sentPrio ls ∧
    lane false (Conn.run {} ls).wire ++ (Conn.run {} ls).norm = sentNorm ls := by
  have key : ∀ (ls2 ls1 : List CLabel) (c : Conn),
      (lane true c.wire ++ c.prio = sentPrio ls1 ∧ lane false c.wire ++ c.norm = sentNorm ls1) →
      (lane true (c.run ls2).wire ++ (c.run ls2).prio = sentPrio (ls1 ++ ls2) ∧
       lane false (c.run ls2).wire ++ (c.run ls2).norm = sentNorm (ls1 ++ ls2)) := by
    intro ls2
    induction ls2 with
    | nil => intro ls1 c h; simpa [Conn.run] using h
    | cons l r ih =>
      intro ls1 c h
      have hstep : lane true (c.step l).wire ++ (c.step l).prio = sentPrio (ls1 ++ [l]) ∧
          lane false (c.step l).wire ++ (c.step l).norm = sentNorm (ls1 ++ [l]) := by
        rw [sentPrio_append, sentNorm_append, ← h.1, ← h.2]
        cases l with
        | sendPrio m => simp [Conn.step, sentPrio, sentNorm]
        | sendNorm m => simp [Conn.step, sentPrio, sentNorm]
        | pump pn =>
          simp only [Conn.step, sentPrio, sentNorm, List.append_nil]
          cases hp : c.prio with
          | nil =>
            cases hn : c.norm with
            | nil => simp [hp, hn]
            | cons n ns => simp [lane_append, lane, hp, hn]
          | cons p ps =>
            cases hn : c.norm with
            | nil => simp [lane_append, lane, hp, hn]
            | cons n ns =>
              cases pn <;> simp [lane_append, lane, hp, hn]
      have := ih (ls1 ++ [l]) (c.step l) hstep
      simpa [Conn.run, List.append_assoc] using this
  have := key ls [] {} ⟨by simp [lane, sentPrio], by simp [lane, sentNorm]⟩
  simpa using this

/-- the sender routine prefers the priority lane: with both lanes non-empty and no race in the inner `select`, the
priority message goes first -/
theorem C17_priority_first (c : Conn) (p : Nat) (ps : List Nat) (hp : c.prio = p :: ps) :
    (c.step (.pump false)).wire = c.wire ++ [(true, p)] := by
  simp only [Conn.step, hp]
  cases c.norm <;> rfl

/-! ### the premises are satisfiable -/

example :
    let s := run {} [.subscribe 1, .subscribe 2, .addTask ⟨7, 1, 0⟩ none, .subscribe 3, .report 2 7 40, .report 3 7 41,
                     .addTask ⟨8, 3, 5⟩ (some 2), .read 7, .removeTask 7, .report 1 7 42, .read 7]
    s.inbox = [(1, ⟨7, 1, 0⟩), (2, ⟨7, 1, 0⟩), (3, ⟨7, 1, 0⟩), (2, ⟨8, 3, 5⟩)] ∧
    s.read = [⟨7, 2, 40⟩] ∧ s.tasks = [(8, [])] := by decide

end MassVerif.Fractal
