/-
C10 — interrupted plotting resumes to the same result and is never falsely complete.
Property theorems only.
-/
import MassVerif.Props.C07

namespace MassVerif.Plot

/-- **Resumption invariant** (`Final`): every position below the stored
    checkpoint holds its final value.  It is preserved by every completed window
    (`final_runWindows`), and by anything a crash may do to positions at or above
    the checkpoint — unsynced data of the window in progress may be present,
    absent or torn: -/
theorem C10_crash_keeps_invariant {α : Type} (ws : List (Nat × α)) (st : PassState α) (garbage : Table α)
    (h : Final ws st) (hg : ∀ pos, pos < st.checkpoint → garbage pos = st.table pos) :
    Final ws { table := garbage, checkpoint := st.checkpoint } := by
  intro pos hp
  simp only at hp ⊢
  rw [hg pos hp]; exact h pos hp

/-- every state a run passes through — hence every state a graceful stop or a
    crash at a sync point can leave — satisfies the invariant: recorded progress
    never runs ahead of data that is final -/
theorem C10_checkpoint_never_ahead {α : Type} (ws : List (Nat × α)) (limit : Nat) (sizes : List Nat)
    (k : Nat) : Final ws (runWindows ws limit (sizes.take k) (fresh : PassState α)) :=
  final_runWindows ws limit _ fresh (fresh_final ws)

/-- **Resume.**  From any state satisfying the invariant (after any number of
    interruptions, graceful or abrupt), with any window sizes in the resumed run,
    a run that completes produces the same table as an uninterrupted one. -/
theorem C10_resume {α : Type} (ws : List (Nat × α)) (limit : Nat) (st : PassState α) (hf : Final ws st)
    (sizes : List Nat) (hdone : limit ≤ (runWindows ws limit sizes st).checkpoint) :
    ∀ pos, pos < limit → (runWindows ws limit sizes st).table pos = lastWrite ws pos :=
  C07_pass_complete ws limit sizes st hf hdone

/-- repeated interruption: resuming a resumed run is a resumed run -/
theorem C10_resume_twice {α : Type} (ws : List (Nat × α)) (limit : Nat) (st : PassState α) (hf : Final ws st)
    (s1 s2 : List Nat) (garbage : Table α)
    (hg : ∀ pos, pos < (runWindows ws limit s1 st).checkpoint → garbage pos = (runWindows ws limit s1 st).table pos)
    (hdone : limit ≤ (runWindows ws limit s2 { table := garbage, checkpoint := (runWindows ws limit s1 st).checkpoint }).checkpoint) :
    ∀ pos, pos < limit →
      (runWindows ws limit s2 { table := garbage, checkpoint := (runWindows ws limit s1 st).checkpoint }).table pos =
        lastWrite ws pos :=
  C10_resume ws limit _ (C10_crash_keeps_invariant ws _ garbage (final_runWindows ws limit s1 st hf) hg) s2 hdone

/-- the resumed run terminates: windows of at least one position each finish the pass -/
theorem C10_resume_terminates {α : Type} (ws : List (Nat × α)) (limit : Nat) (st : PassState α) (sizes : List Nat)
    (hpos : ∀ sz ∈ sizes, 1 ≤ sz) (hlen : limit ≤ st.checkpoint + sizes.length) :
    limit ≤ (runWindows ws limit sizes st).checkpoint :=
  C07_pass_terminates ws limit sizes st hpos hlen

/-- as coded, a pre-plot window is non-empty whenever the cache holds two records
    (the even rounding), and a plot window whenever it holds four -/
theorem C10_windows_nonempty (c : Nat) : (2 ≤ c → 1 ≤ windowA c) ∧ (4 ≤ c → 1 ≤ windowB c) := by
  unfold windowA windowB
  constructor <;> intro h <;> omega

/-- a pre-plot checkpoint is always even when reached through complete windows from an even one:
    the resumed pass never faces a single leftover record -/
theorem C10_checkpoint_even (ws : List (Nat × Nat)) (N : Nat) (hN : N % 2 = 0) (caches : List Nat) (st : PassState Nat)
    (he : st.checkpoint % 2 = 0) : (runWindows ws N (caches.map windowA) st).checkpoint % 2 = 0 := by
  induction caches generalizing st with
  | nil => exact he
  | cons c rest ih =>
    simp only [List.map_cons, runWindows]
    split
    · exact he
    · apply ih
      simp only
      unfold windowA
      by_cases hm : st.checkpoint + (c - c % 2) ≤ N
      · rw [Nat.min_eq_left hm]; omega
      · rw [Nat.min_eq_right (by omega)]; exact hN

/-- **Never falsely complete.**  A space reports itself plotted only if the
    whole table is the construction's. -/
theorem C10_plotted_means_complete (p : Params) (a : Table Nat) (st : PassState (Nat × Nat))
    (hf : Final (writesB p a) st) (hp : plotted p st = true) :
    ∀ z, z < p.N → st.table z = lastWrite (writesB p a) z := by
  intro z hz
  have : st.checkpoint ≥ p.N := by simpa [plotted] using hp
  exact hf z (by omega)

/-- the old checkpoint rule (`checkpoint := start + 1`, also for an empty window) breaks the
    invariant: kernel-checked on a 4-record instance — after an interruption the resumed pre-plot
    pass faces one leftover record, its even-rounded window is empty, and the rule records
    "complete" (4) although position 3 was never written. -/
theorem C10_old_rule_counterexample :
    let ws : List (Nat × Nat) := [(3, 1), (1, 2), (2, 3)]
    -- state after the first window [0,2) under the old rule: checkpoint 1; resume at 1 with cache 3:
    -- window = 3 - 1 = 2 → [1,3), checkpoint (old rule) 2; next start 3, cache 1 → window 0 → checkpoint := 3+1 = 4
    let t1 := applyWindow ws (fun _ => none) 0 2
    let t2 := applyWindow ws t1 1 3
    ¬ Final ws { table := t2, checkpoint := 4 } := by
  intro ws t1 t2 h
  have := h 3 (by decide)
  revert this
  decide

end MassVerif.Plot
