/-
C02 — wallet state survives restart exactly.  Property theorems only.
The wallet model keeps a durable image (what `db.Update` transactions commit)
and a memory image (what the running instance shows); a restart rebuilds the
memory image from the durable one.
-/
import MassVerif.Proofs.Wallet

namespace MassVerif.Wallet

/-- what an observer can see of the running instance: keystores with remarks
    and counters (address sets and next indices are functions of the counters) -/
def observe (w : W) : List View := w.mem.map projM

def Reachable (w : W) : Prop := ∃ p ops, p.wf = true ∧ w = run { pubPass := p } ops

theorem reachable_inv {w : W} (h : Reachable w) : Inv w := by
  obtain ⟨p, ops, _, rfl⟩ := h
  exact run_inv _ (inv_init p) ops

@[simp] theorem setMem_pub (w : W) (id : Nat) (f : KsM → KsM) : (setMem w id f).pubPass = w.pubPass := rfl
@[simp] theorem setDur_pub (w : W) (id : Nat) (f : KsD → KsD) : (setDur w id f).pubPass = w.pubPass := rfl
@[simp] theorem zeroMaster_pub (w : W) (id : Nat) : (zeroMaster w id).pubPass = w.pubPass := rfl
@[simp] theorem addKs_pub (w : W) (d : KsD) : (addKs w d).pubPass = w.pubPass := rfl
@[simp] theorem importFile_pub (w w1 : W) (f : File) (p : Pass) :
    (importFile w w1 f p).1.pubPass = w1.pubPass := by
  unfold importFile; split <;> simp

/-- the public passphrase of a running wallet is always well-formed -/
theorem step_pubWf (w : W) (op : Op) (h : w.pubPass.wf = true) : (step w op).1.pubPass.wf = true := by
  cases op <;> simp only [step] <;> (repeat' split) <;> simp_all

theorem run_pubWf (w : W) (ops : List Op) (h : w.pubPass.wf = true) : (run w ops).pubPass.wf = true := by
  induction ops generalizing w with
  | nil => exact h
  | cons op ops ih => exact ih _ (step_pubWf w op h)

theorem reachable_pubWf {w : W} (h : Reachable w) : w.pubPass.wf = true := by
  obtain ⟨p, ops, hp, rfl⟩ := h
  exact run_pubWf _ ops hp

/-- **Coherence.**  After any history the running instance shows exactly the
    durable image: nothing acknowledged is missing from the store and nothing
    is in memory that the store does not hold. -/
theorem C02_coherent {w : W} (h : Reachable w) : observe w = w.dur.map projD :=
  (reachable_inv h).coherent

/-- **Restart.**  Reopening with the current public passphrase succeeds and
    presents the same keystores, remarks and counters, locked, holding no secret. -/
theorem C02_restart {w : W} (h : Reachable w) :
    (step w (.restart w.pubPass)).2 = .ok ∧
    observe (step w (.restart w.pubPass)).1 = observe w ∧
    (step w (.restart w.pubPass)).1.dur = w.dur ∧
    (step w (.restart w.pubPass)).1.unlocked = false ∧
    ∀ m ∈ (step w (.restart w.pubPass)).1.mem, m.unlocked = false ∧ m.masterUsable = false := by
  have hi := reachable_inv h
  have hwf := reachable_pubWf h
  have hany : w.dur.any (fun d => d.pub != w.pubPass.id) = false := by
    rw [List.any_eq_false]
    intro d hd
    simp [hi.pubSealed d hd]
  simp only [step, hwf, hany, Bool.not_true, Bool.false_eq_true, if_false]
  refine ⟨by trivial, ?_, by trivial, by trivial, ?_⟩
  · unfold observe
    simp only [List.map_map]
    rw [hi.coherent]
    rfl
  · intro m hm
    obtain ⟨d, _, rfl⟩ := List.mem_map.mp hm
    exact ⟨rfl, rfl⟩

/-- the restarted instance accepts exactly the same private passphrase -/
theorem C02_restart_keeps_passphrases {w : W} (h : Reachable w) :
    (step w (.restart w.pubPass)).1.dur.map (fun d => (d.id, d.priv, d.pub)) = w.dur.map (fun d => (d.id, d.priv, d.pub)) := by
  rw [(C02_restart h).2.2.1]

/-- **Wrong public passphrase.**  Opening a non-empty store with any other
    passphrase fails and alters nothing. -/
theorem C02_wrong_pub {w : W} (h : Reachable w) (p : Pass) (hne : w.dur ≠ []) (hp : p.id ≠ w.pubPass.id) :
    (step w (.restart p)).1 = w ∧
    ((step w (.restart p)).2 = .err .openFailed ∨ (step w (.restart p)).2 = .err .illegalPassphrase) := by
  have hi := reachable_inv h
  simp only [step]
  by_cases hwf : p.wf = true
  · have hany : w.dur.any (fun d => d.pub != p.id) = true := by
      cases hd : w.dur with
      | nil => exact absurd hd hne
      | cons d rest =>
        rw [List.any_eq_true]
        refine ⟨d, by simp, ?_⟩
        have := hi.pubSealed d (by rw [hd]; simp)
        simp [this]
        exact fun e => hp e.symm
    simp [hwf, hany]
  · simp [hwf]

/-- **Nothing unacknowledged appears.**  An operation that reports an error
    leaves the durable image untouched. -/
theorem C02_error_keeps_store (w : W) (op : Op) (e : Err) (h : (step w op).2 = .err e) :
    (step w op).1.dur = w.dur := by
  cases op <;> simp only [step] at h ⊢ <;> (repeat' split at h) <;> simp_all [importFile] <;>
    (try (split at h <;> simp_all)) <;> (try (split <;> simp_all)) <;> (try omega)

/-- non-vacuity: a concrete reachable wallet with two keystores and issued keys -/
example : ∃ w, Reachable w ∧ w.dur.length = 2 ∧ observe w = [(0, "a", 2, 0), (1, "", 0, 1)] :=
  ⟨run { pubPass := ⟨0, true⟩ } [.newKs ⟨1, true⟩ (some 0) true "a", .newKs ⟨1, true⟩ (some 1) true "",
      .genPub (some 0), .genPub (some 0), .next 1 true 1],
   ⟨⟨0, true⟩, _, rfl, rfl⟩, by decide, by decide⟩

end MassVerif.Wallet
