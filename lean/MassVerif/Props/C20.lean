/-
C20 — the HTTP API admits only configured origins and reports exact values.
Property theorems only.
-/
import MassVerif.Proofs.Api

namespace MassVerif.Api

/-! ### admission -/

/-- a well-formed resolved address -/
def ValidAddr : Addr → Prop
  | .v4 a b c d => a < 256 ∧ b < 256 ∧ c < 256 ∧ d < 256
  | .v6 w => w.length = 16
  | .malformed => True

/-- The private ranges as closed numeric intervals (RFC 1918):
    10.0.0.0–10.255.255.255, 172.16.0.0–172.31.255.255, 192.168.0.0–192.168.255.255. -/
def InRange (key : String) : Addr → Prop
  | .v4 x y _ _ => (key = "10" ∧ x = 10) ∨ (key = "172" ∧ x = 172 ∧ 16 ≤ y ∧ y ≤ 31) ∨
                   (key = "192" ∧ x = 192 ∧ y = 168)
  | _ => False

/-- the generated CIDR literals are the three RFC 1918 networks -/
theorem C20_facts_lan_rules :
    lanRule "10" = some ⟨10, 0, 0, 0, 8⟩ ∧ lanRule "172" = some ⟨172, 16, 0, 0, 12⟩ ∧
    lanRule "192" = some ⟨192, 168, 0, 0, 16⟩ ∧
    ∀ k, k ≠ "10" → k ≠ "172" → k ≠ "192" → lanRule k = none := by
  refine ⟨by decide, by decide, by decide, ?_⟩
  intro k h1 h2 h3
  have e1 : ("10" == k) = false := by simpa using Ne.symm h1
  have e2 : ("172" == k) = false := by simpa using Ne.symm h2
  have e3 : ("192" == k) = false := by simpa using Ne.symm h3
  simp [lanRule, Facts.lanRules, List.find?, e1, e2, e3]

private theorem and_zero_eq (x y : Nat) : (x &&& 0 == y &&& 0) = true := by simp

/-- The mask arithmetic of `IPNet.Contains` selects exactly the closed
    intervals — for all 2³² IPv4 addresses, and no IPv6 address. -/
theorem C20_lan_contains_iff (key : String) (n : Net) (h : lanRule key = some n) (a : Addr)
    (hv : ValidAddr a) : n.contains a = true ↔ InRange key a := by
  obtain ⟨h10, h172, h192, hother⟩ := C20_facts_lan_rules
  by_cases k10 : key = "10"
  · subst k10; rw [h10] at h; cases h
    cases a with
    | v4 x y z w =>
      obtain ⟨hx, _, _, _⟩ := hv
      have m0 : maskByte 8 0 = 255 := by decide
      have m1 : maskByte 8 1 = 0 := by decide
      have m2 : maskByte 8 2 = 0 := by decide
      have m3 : maskByte 8 3 = 0 := by decide
      have e1 := and255_eq 10 (by omega) x hx
      simp only [Net.contains, InRange, m0, m1, m2, m3, Nat.and_zero, beq_self_eq_true,
        Bool.and_true, show (10 &&& 255) = 10 by decide, beq_iff_eq]
      simp
      constructor
      · intro a1; exact (e1.mp a1).symm
      · intro a1; exact e1.mpr a1.symm
    | v6 w => simp [Net.contains, InRange]
    | malformed => simp [Net.contains, InRange]
  · by_cases k172 : key = "172"
    · subst k172; rw [h172] at h; cases h
      cases a with
      | v4 x y z w =>
        obtain ⟨hx, hy, _, _⟩ := hv
        have m0 : maskByte 12 0 = 255 := by decide
        have m1 : maskByte 12 1 = 240 := by decide
        have m2 : maskByte 12 2 = 0 := by decide
        have m3 : maskByte 12 3 = 0 := by decide
        have e1 := and255_eq 172 (by omega) x hx
        have e2 := and240_eq16 y hy
        simp only [Net.contains, InRange, m0, m1, m2, m3, Nat.and_zero, beq_self_eq_true,
          Bool.and_true, show (172 &&& 255) = 172 by decide, show (16 &&& 240) = 16 by decide,
          Bool.and_eq_true, beq_iff_eq]
        simp
        constructor
        · rintro ⟨a1, a2⟩; exact ⟨(e1.mp a1).symm, e2.mp a2.symm⟩
        · rintro ⟨a1, a2⟩; exact ⟨e1.mpr a1.symm, (e2.mpr a2).symm⟩
      | v6 w => simp [Net.contains, InRange]
      | malformed => simp [Net.contains, InRange]
    · by_cases k192 : key = "192"
      · subst k192; rw [h192] at h; cases h
        cases a with
        | v4 x y z w =>
          obtain ⟨hx, hy, _, _⟩ := hv
          have m0 : maskByte 16 0 = 255 := by decide
          have m1 : maskByte 16 1 = 255 := by decide
          have m2 : maskByte 16 2 = 0 := by decide
          have m3 : maskByte 16 3 = 0 := by decide
          have e1 := and255_eq 192 (by omega) x hx
          have e2 := and255_eq 168 (by omega) y hy
          simp only [Net.contains, InRange, m0, m1, m2, m3, Nat.and_zero, beq_self_eq_true,
            Bool.and_true, show (192 &&& 255) = 192 by decide, show (168 &&& 255) = 168 by decide,
            Bool.and_eq_true, beq_iff_eq]
          simp
          constructor
          · rintro ⟨a1, a2⟩; exact ⟨(e1.mp a1).symm, (e2.mp a2).symm⟩
          · rintro ⟨a1, a2⟩; exact ⟨e1.mpr a1.symm, e2.mpr a2.symm⟩
        | v6 w => simp [Net.contains, InRange]
        | malformed => simp [Net.contains, InRange]
      · rw [hother key k10 k172 k192] at h; cases h

/-- **Admission decision.**  A request is admitted iff the wildcard is
    configured, or the remote address resolves and is loopback, whitelisted, or
    inside an enabled private range. -/
theorem C20_allowed_iff (cfg : Cfg) (a : Addr) (hv : ValidAddr a) :
    allowed cfg a = true ↔
      cfg.wildcard = true ∨
      (a ≠ .malformed ∧ (a = loopback4 ∨ a = loopback6 ∨ a ∈ cfg.whitelist ∨
        ∃ key ∈ cfg.lans, InRange key a)) := by
  unfold allowed
  by_cases hw : cfg.wildcard = true
  · simp [hw]
  · have hw' : cfg.wildcard = false := by simpa using hw
    simp only [hw', Bool.false_eq_true, if_false, false_or]
    have hany : (enabledNets cfg).any (fun n => n.contains a) = true ↔ ∃ key ∈ cfg.lans, InRange key a := by
      simp only [enabledNets, List.any_eq_true, List.mem_filterMap]
      constructor
      · rintro ⟨n, ⟨key, hk, hn⟩, hc⟩
        exact ⟨key, hk, (C20_lan_contains_iff key n hn a hv).mp hc⟩
      · rintro ⟨key, hk, hr⟩
        obtain ⟨h10, h172, h192, _⟩ := C20_facts_lan_rules
        have : ∃ n, lanRule key = some n := by
          cases a with
          | v4 x y z w =>
            rcases hr with ⟨e, _⟩ | ⟨e, _⟩ | ⟨e, _⟩ <;> subst e
            · exact ⟨_, h10⟩
            · exact ⟨_, h172⟩
            · exact ⟨_, h192⟩
          | v6 w => exact absurd hr (by simp [InRange])
          | malformed => exact absurd hr (by simp [InRange])
        obtain ⟨n, hn⟩ := this
        exact ⟨n, ⟨key, hk, hn⟩, (C20_lan_contains_iff key n hn a hv).mpr hr⟩
    cases a with
    | malformed => simp
    | v4 x y z w =>
      simp only [ne_eq, reduceCtorEq, not_false_eq_true, true_and, Bool.or_eq_true, beq_iff_eq,
        List.contains_iff_mem, hany, or_assoc]
    | v6 w =>
      simp only [ne_eq, reduceCtorEq, not_false_eq_true, true_and, Bool.or_eq_true, beq_iff_eq,
        List.contains_iff_mem, hany, or_assoc]

theorem C20_malformed_denied (cfg : Cfg) (hw : cfg.wildcard = false) :
    allowed cfg .malformed = false := by simp [allowed, hw]

/-- No IPv6 address is admitted through a LAN rule. -/
theorem C20_v6_not_in_lan (cfg : Cfg) (w : List Nat) (hw : cfg.wildcard = false)
    (h1 : Addr.v6 w ≠ loopback6) (h2 : Addr.v6 w ∉ cfg.whitelist) :
    allowed cfg (.v6 w) = false := by
  unfold allowed
  have e4 : (Addr.v6 w == loopback4) = false := by simp [loopback4]
  have e6 : (Addr.v6 w == loopback6) = false := by simpa using h1
  have ew : cfg.whitelist.contains (Addr.v6 w) = false := by
    cases hc : cfg.whitelist.contains (Addr.v6 w) with
    | false => rfl
    | true => exact absurd (List.contains_iff_mem.mp hc) h2
  have ea : (enabledNets cfg).any (fun n => n.contains (Addr.v6 w)) = false := by
    simp [Net.contains]
  simp [hw, e4, e6, ea, h2]

/-- **403 before any handler.**  A request that is not admitted is answered
    `forbidden` and the inner handler's result is not part of the response;
    an admitted one is passed through unchanged. -/
theorem C20_403_first {α : Type} (cfg : Cfg) (inner : Addr → α) (remote : Addr) :
    (allowed cfg remote = false → accessControl cfg inner remote = .forbidden) ∧
    (allowed cfg remote = true → accessControl cfg inner remote = .served (inner remote)) := by
  unfold accessControl
  constructor <;> intro h <;> simp [h]


/-! ### amounts -/

theorem C20_facts_maxwell : maxwellPerMass = 10 ^ 8 := by decide

/-- the fractional digits the API prints for `m`: the 8-digit expansion of
    `m mod 10⁸` without trailing zeros -/
def fracOf (m : Nat) : List Char := trimRight0 (pad 8 (m % 10 ^ 8))

/-- the canonical decimal rendering of `m · 10⁻⁸` -/
def render (m : Nat) : List Char :=
  Nat.toDigits 10 (m / 10 ^ 8) ++ (if (fracOf m).isEmpty then [] else '.' :: fracOf m)

/-- **Exact value.**  For every amount in range, the API prints the decimal
    numeral of `m / 10⁸`, a dot, and the digits of `m mod 10⁸` (zero-padded to 8,
    trailing zeros removed; the dot is omitted when nothing remains). -/
theorem C20_amount_exact (m : Nat) (hm : m ≤ maxAmount) :
    amountToString (m : Int) = some (render m) := by
  unfold amountToString
  have h1 : ¬ ((m : Int) > (maxAmount : Int)) := by omega
  have h2 : ¬ ((m : Int) < 0) := by omega
  simp only [h1, h2, if_false, Int.toNat_natCast]
  have hs : Nat.toDigits 10 (m + maxwellPerMass) =
      Nat.toDigits 10 (m / 10 ^ 8 + 1) ++ pad 8 (m % 10 ^ 8) := by
    have : m + maxwellPerMass = (m / 10 ^ 8 + 1) * 10 ^ 8 + m % 10 ^ 8 := by
      rw [C20_facts_maxwell]; omega
    rw [this]
    exact toDigits_mul_pow_add (by omega) 8 _ (Nat.mod_lt _ (by decide))
  rw [hs]
  have hl : (Nat.toDigits 10 (m / 10 ^ 8 + 1) ++ pad 8 (m % 10 ^ 8)).length - 8 =
      (Nat.toDigits 10 (m / 10 ^ 8 + 1)).length := by
    simp [pad_length]
  rw [hl, List.take_left', List.drop_left']
  · rw [Nat.ofDigitChars_ten_toDigits]
    simp only [Nat.add_sub_cancel]
    unfold render fracOf
    by_cases he : (trimRight0 (pad 8 (m % 10 ^ 8))).isEmpty = true
    · simp [he]
    · simp [he]
  · rfl
  · rfl

theorem C20_amount_rejects (m : Int) (h : m < 0 ∨ m > maxAmount) : amountToString m = none := by
  unfold amountToString
  rcases h with h | h
  · by_cases h' : m > (maxAmount : Int) <;> simp [h, h']
  · simp [h]

/-- **Canonical form.**  No leading zero on the integral part (except the
    single digit `0`), no trailing zero and no dangling dot in the fraction. -/
theorem C20_amount_canonical (m : Nat) :
    (0 < m / 10 ^ 8 → (Nat.toDigits 10 (m / 10 ^ 8)).head? ≠ some '0') ∧
    (m / 10 ^ 8 = 0 → Nat.toDigits 10 (m / 10 ^ 8) = ['0']) ∧
    (∀ h : fracOf m ≠ [], (fracOf m).getLast h ≠ '0') ∧
    (fracOf m).length ≤ 8 ∧ '.' ∉ fracOf m ∧ '.' ∉ Nat.toDigits 10 (m / 10 ^ 8) := by
  refine ⟨toDigits_head_ne_zero, ?_, ?_, ?_, ?_, dot_not_mem_toDigits _⟩
  · intro h; rw [h]; rfl
  · intro h; exact trimRight0_getLast _ h
  · unfold fracOf
    obtain ⟨z, hz, _⟩ := trimRight0_append_zeros (pad 8 (m % 10 ^ 8))
    have := congrArg List.length hz
    simp only [pad_length, List.length_append, List.length_replicate] at this
    omega
  · unfold fracOf
    apply trimRight0_no_dot
    intro hm
    have := pad_allDigits 8 (m % 10 ^ 8)
    simp only [allDigits, List.all_eq_true] at this
    have := this _ hm
    simp [Char.isDigit] at this

/-- **Round trip.**  Every rendered amount parses back to the same integer. -/
theorem C20_amount_roundtrip (m : Nat) (hm : m ≤ maxAmount) :
    stringToAmount (render m) = some m := by
  have hmax : maxAmount = Facts.maxMass * 10 ^ 8 := by
    unfold maxAmount; rw [show Facts.maxwellPerMass = 10 ^ 8 by decide]
  have hq : m / 10 ^ 8 ≤ Facts.maxMass := by
    rw [hmax] at hm
    exact Nat.div_le_of_le_mul (by rw [Nat.mul_comm]; exact hm)
  have hq63 : m / 10 ^ 8 < 2 ^ 63 := by
    have : Facts.maxMass < 2 ^ 63 := by decide
    omega
  have hf : m % 10 ^ 8 < 10 ^ 8 := Nat.mod_lt _ (by decide)
  have hdm := Nat.div_add_mod m (10 ^ 8)
  -- the integral part
  have hint := sIntOf_spec (Nat.toDigits 10 (m / 10 ^ 8)) (toDigits_allDigits _)
  rw [Nat.ofDigitChars_ten_toDigits] at hint
  have hpi : parseInt64 (sIntOf (Nat.toDigits 10 (m / 10 ^ 8))) = some ((m / 10 ^ 8 : Nat) : Int) := by
    have := parseInt64_digits _ hint.1 hint.2.1 (by rw [hint.2.2]; exact hq63)
    rw [hint.2.2] at this; exact this
  -- the fraction, re-padded
  obtain ⟨z, hz, hzlen⟩ := trimRight0_append_zeros (pad 8 (m % 10 ^ 8))
  have hflen : (fracOf m).length ≤ 8 := (C20_amount_canonical m).2.2.2.1
  have hz8 : z = 8 - (fracOf m).length := by
    rw [hzlen, pad_length]; rfl
  have hrepad : fracOf m ++ List.replicate (8 - (fracOf m).length) '0' = pad 8 (m % 10 ^ 8) := by
    rw [← hz8]; exact hz.symm
  have hpf : parseInt64 (pad 8 (m % 10 ^ 8)) = some ((m % 10 ^ 8 : Nat) : Int) := by
    have hv : Nat.ofDigitChars 10 (pad 8 (m % 10 ^ 8)) 0 = m % 10 ^ 8 := by
      rw [ofDigitChars_pad 8 _ 0 hf]; simp
    have := parseInt64_digits (pad 8 (m % 10 ^ 8))
      (by intro e; have := congrArg List.length e; simp [pad_length] at this)
      (pad_allDigits _ _) (by rw [hv]; have : (10:Nat) ^ 8 < 2 ^ 63 := by decide
                              omega)
    rw [hv] at this; exact this
  have htotal : maxwellPerMass * (m / 10 ^ 8) + m % 10 ^ 8 = m := by
    rw [C20_facts_maxwell]; omega
  have c1 : ¬ (((m / 10 ^ 8 : Nat) : Int) < 0 ∨ ((m / 10 ^ 8 : Nat) : Int) > (Facts.maxMass : Int)) := by
    omega
  have c2 : ¬ (((m % 10 ^ 8 : Nat) : Int) < 0) := by omega
  have c3 : ¬ (m > maxAmount) := by omega
  have hfin : finishAmount (some ((m / 10 ^ 8 : Nat) : Int)) (some ((m % 10 ^ 8 : Nat) : Int)) = some m := by
    simp only [finishAmount, c1, c2, if_false, Int.toNat_natCast, htotal, c3]
  have hparts : amountOfParts (Nat.toDigits 10 (m / 10 ^ 8)) (fracOf m) = some m := by
    unfold amountOfParts
    have htr : trimRight0 (fracOf m) = fracOf m := by unfold fracOf; exact trimRight0_idem _
    have c4 : ¬ ((trimRight0 (fracOf m)).length > 8) := by rw [htr]; omega
    simp only [c4, if_false]
    rw [htr, hrepad, hpi, hpf]
    exact hfin
  unfold stringToAmount render
  by_cases he : (fracOf m).isEmpty = true
  · have hfe : fracOf m = [] := by simpa using he
    simp only [he, if_true, List.append_nil]
    rw [splitDot_noDot (dot_not_mem_toDigits _)]
    simp only
    rw [hfe] at hparts
    exact hparts
  · have hnd : '.' ∉ fracOf m := (C20_amount_canonical m).2.2.2.2.1
    simp only [he, Bool.false_eq_true, if_false]
    rw [splitDot_append_dot (dot_not_mem_toDigits _), splitDot_noDot hnd]
    exact hparts

/-! ### workspace records -/

/-- The binding target the API lists is the one the chain library defines for
    the same key (or plot id), proof type and size. -/
theorem C20_target_eq (l : Lib) (pub : List Nat) (ty bl : Nat) :
    apiBindingTarget l pub ty bl = l.bindingTarget pub ty bl := rfl

theorem C20_record_v1 (l : Lib) (pub : List Nat) (bl : Nat) (r : WsRecord)
    (h : wsRecordV1 l pub bl = some r) :
    some r.bindingTarget = l.bindingTarget pub proofTypeDefault bl ∧ r.address = l.pocAddress pub ∧
    r.publicKey = pub := by
  unfold wsRecordV1 at h
  split at h
  · rename_i a t ha ht
    cases h
    exact ⟨by rw [← ht]; rfl, ha.symm, rfl⟩
  · cases h

theorem C20_record_v2 (l : Lib) (pub plotId : List Nat) (k : Nat) (r : WsRecord)
    (h : wsRecordV2 l pub plotId k = some r) :
    some r.bindingTarget = l.bindingTarget plotId proofTypeChia k := by
  unfold wsRecordV2 at h
  split at h
  · rename_i t ht
    cases h
    rw [← ht]; rfl
  · cases h

/-! ### non-vacuity -/
example : allowed { wildcard := false, whitelist := [.v4 8 8 8 8], lans := ["172"] } (.v4 172 31 255 255) = true := by decide
example : allowed { wildcard := false, whitelist := [.v4 8 8 8 8], lans := ["172"] } (.v4 172 32 0 0) = false := by decide
example : amountToString 150000000 = some "1.5".toList := by decide
example : stringToAmount "1.5".toList = some 150000000 := by decide

end MassVerif.Api
