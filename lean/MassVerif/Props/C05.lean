/-
C05 — signatures verify under the public key they were requested for.
Property theorems only.  On the symbolic wallet model a key is the triple
(keystore, branch, index); the byte-level fact that the private key derived for
a path is the one whose public half was issued for that path (issued while
locked = public derivation, signing = private derivation) is
`HD.C18_neuter_child_comm`, re-exported here for the two-step path branch/index.
-/
import MassVerif.Props.C01
import MassVerif.Props.C18

namespace MassVerif.Wallet

/-- the key (id, branch, idx) has been issued and is still managed -/
def Issued (w : W) (id : Nat) (internal : Bool) (idx : Nat) : Prop :=
  ∃ m, findM w id = some m ∧ idx < (if internal then m.int else m.ext)

/-- **Signing succeeds exactly for issued keys of an unlocked wallet and a 32-byte digest.** -/
theorem C05_sign_iff {w : W} (h : Reachable w) (id : Nat) (internal : Bool) (idx len : Nat) :
    (step w (.sign id internal idx len)).2 = .signed ↔ (Issued w id internal idx ∧ w.unlocked = true ∧ len = 32) := by
  have hi := reachable_inv h
  constructor
  · intro hs
    have hu := C03_sign_needs_unlocked h id internal idx len hs
    simp only [step] at hs
    split at hs
    · rename_i m hm
      by_cases hidx : idx ≥ (if internal then m.int else m.ext)
      · simp [hidx] at hs
      · by_cases hmu : m.unlocked = true
        · by_cases hl : len = 32
          · exact ⟨⟨m, hm, by omega⟩, hu, hl⟩
          · simp [hidx, hmu, hl] at hs
        · simp [hidx, hmu] at hs
    · cases hs
  · rintro ⟨⟨m, hm, hidx⟩, hu, rfl⟩
    have hmem : m ∈ w.mem := by unfold findM at hm; exact List.mem_of_find?_eq_some hm
    have hmu : m.unlocked = true := by rw [hi.lockFlag m hmem]; exact hu
    exact C01_restored_keys_sign w m id idx internal hm hmu hidx

/-- **Refusals.**  Keys the wallet does not own, a locked wallet and a wrong digest length fail. -/
theorem C05_refuses {w : W} (h : Reachable w) (id : Nat) (internal : Bool) (idx len : Nat) :
    (¬ Issued w id internal idx → (step w (.sign id internal idx len)).2 = .err .accountNotFound) ∧
    (w.unlocked = false → (step w (.sign id internal idx len)).2 ≠ .signed) ∧
    ((step w .signForeign).2 = .err .accountNotFound) := by
  refine ⟨?_, ?_, rfl⟩
  · intro hn
    simp only [step]
    split
    · rename_i m hm
      have : idx ≥ (if internal then m.int else m.ext) := by
        apply Nat.le_of_not_lt
        intro hlt; exact hn ⟨m, hm, hlt⟩
      simp [this]
    · rfl
  · intro hl hs
    have := ((C05_sign_iff h id internal idx len).mp hs).2.1
    rw [hl] at this; cases this

/-- "ever issued" is closed under restart: a restart with the current public
    passphrase keeps every issued key managed (it is issued in the reopened wallet). -/
theorem C05_issued_survives_restart {w : W} (h : Reachable w) (id : Nat) (internal : Bool) (idx : Nat)
    (hiss : Issued w id internal idx) :
    ∃ v ∈ observe (step w (.restart w.pubPass)).1, v.1 = id ∧ idx < (if internal then v.2.2.2 else v.2.2.1) := by
  obtain ⟨m, hm, hidx⟩ := hiss
  rw [(C02_restart h).2.1]
  have hmem : m ∈ w.mem := by unfold findM at hm; exact List.mem_of_find?_eq_some hm
  have hid : m.id = id := by unfold findM at hm; simpa using List.find?_some hm
  refine ⟨projM m, List.mem_map.mpr ⟨m, hmem, rfl⟩, hid, ?_⟩
  cases internal <;> simpa [projM] using hidx

/-- **Key binding (byte level)**: the public key issued for `branch/index` by
    public derivation is the public half of the private key derived for the same
    path when signing — `HD.C18_neuter_child_comm`. -/
theorem C05_binding (C : HD.Crypto) (hlaw : HD.LawAdd C) (k : HD.XKey) (hp : k.isPrivate = true)
    (i : Nat) (hi : i < HD.hardenedKeyStart) (v : Codec.Bytes) (hv : C.pubVersion k.version = some v)
    (hnz : (Codec.bytesToNat ((C.hmac k.chainCode (HD.childData C k i)).take 32) + Codec.bytesToNat k.key) % C.n ≠ 0) :
    (HD.child C k i >>= HD.neuter C) = (HD.neuter C k >>= fun pk => HD.child C pk i) :=
  HD.C18_neuter_child_comm C hlaw k hp i hi v hv hnz

end MassVerif.Wallet
