/-
C19 — the wallet bucket store behaves as isolated maps with atomic transactions.

Property theorems only (helper lemmas live in Proofs/BucketStore.lean).
The abstraction: a flat store `f` is viewed as a tree of maps through
  `view f ns k    := f.get (kvKey ns k)`      (entry `k` of the bucket reached via `ns`)
  `present f ns   := (f.get (idxKey ns)).isSome`
The theorems say that every bucket operation on bucket `ns` changes this view
at `ns` only, for *arbitrary binary* entry keys and any valid bucket names.
-/
import MassVerif.Proofs.BucketStore

namespace MassVerif.BucketStore

def view (f : Flat) (ns : List Bytes) (k : Bytes) : Option Bytes := f.get (kvKey ns k)
def present (f : Flat) (ns : List Bytes) : Bool := (f.get (idxKey ns)).isSome

/-- a bucket that the API can reach: non-empty path of valid names -/
def WF (ns : List Bytes) : Prop := ns ≠ [] ∧ ∀ n ∈ ns, validName n = true

theorem WF.sepFree {ns : List Bytes} (h : WF ns) : SepFree ns :=
  fun n hn => validName_sepFree (h.2 n hn)

/-! #### the facts the model's constants were transcribed from -/
theorem C19_facts_layout :
    Facts.bucketPathSep = String.ofList [sep] ∧ Facts.bucketNameBucket = String.ofList [idxTag] ∧
    Facts.topLevelBucketDepth = String.ofList (numeral 1) := by decide

/-! #### key layout: unique decodability, disjointness -/

/-- Two entry keys of well-formed buckets coincide only if bucket and key
    coincide — for arbitrary binary keys (keys may contain separators, imitate
    other buckets' paths, etc.). -/
theorem C19_decode_unique {ns ns' : List Bytes} {k k' : Bytes} (h : WF ns) (h' : WF ns')
    (e : kvKey ns k = kvKey ns' k') : ns = ns' ∧ k = k' :=
  kvKey_inj h.sepFree h'.sepFree e

theorem C19_idx_disjoint (ns ns' : List Bytes) (k : Bytes) : kvKey ns k ≠ idxKey ns' :=
  kvKey_ne_idxKey ns ns' k

theorem C19_idx_unique {ns ns' : List Bytes} (h : WF ns) (h' : WF ns')
    (e : idxKey ns = idxKey ns') : ns = ns' := idxKey_inj h.sepFree h'.sepFree e

/-- The flat scan prefix of bucket `ns` selects exactly the entries of `ns`. -/
theorem C19_prefix_exact {ns ns' : List Bytes} {pre k' : Bytes} (h : WF ns) (h' : WF ns') :
    (kvKey ns pre).isPrefixOf (kvKey ns' k') = true ↔ ns = ns' ∧ ∃ s, k' = pre ++ s :=
  kvKey_prefix_iff h.sepFree h'.sepFree

/-! #### refinement: each bucket operation acts on one map of the tree -/

theorem C19_put_refines {f f' : Flat} {ns : List Bytes} {k v : Bytes} (h : WF ns)
    (hp : put f (handleOf ns) k v = .ok f') :
    (∀ ns' k', WF ns' → view f' ns' k' = if ns' = ns ∧ k' = k then some v else view f ns' k') ∧
    (∀ ns', present f' ns' = present f ns') := by
  unfold put at hp
  split at hp; · cases hp
  split at hp; · cases hp
  cases hp
  constructor
  · intro ns' k' h'
    unfold view
    rw [show innerKey (handleOf ns).path k = kvKey ns k from rfl, Flat.get_put]
    by_cases e : kvKey ns k = kvKey ns' k'
    · obtain ⟨rfl, rfl⟩ := kvKey_inj h.sepFree h'.sepFree e
      simp
    · have : ¬ (ns' = ns ∧ k' = k) := by rintro ⟨rfl, rfl⟩; exact e rfl
      simp [e, this]
  · intro ns'
    unfold present
    rw [show innerKey (handleOf ns).path k = kvKey ns k from rfl, Flat.get_put]
    simp [kvKey_ne_idxKey]

theorem C19_put_rejects (f : Flat) (h : Handle) (k v : Bytes) (hbad : v = [] ∨ k = []) :
    ∃ e, put f h k v = .error e := by
  unfold put
  rcases hbad with rfl | rfl
  · exact ⟨.illegalValue, by simp⟩
  · by_cases hv : v.isEmpty
    · exact ⟨.illegalValue, by simp [hv]⟩
    · exact ⟨.illegalKey, by simp [hv]⟩

theorem C19_get_refines (f : Flat) {ns : List Bytes} (k : Bytes) (hk : k ≠ []) :
    get f (handleOf ns) k = view f ns k := by
  unfold get view
  have : k.isEmpty = false := by cases k <;> simp_all
  simp [this]; rfl

theorem C19_delete_refines {f : Flat} {ns : List Bytes} {k : Bytes} (h : WF ns) (hk : k ≠ []) :
    (∀ ns' k', WF ns' → view (delete f (handleOf ns) k) ns' k' =
        if ns' = ns ∧ k' = k then none else view f ns' k') ∧
    (∀ ns', present (delete f (handleOf ns) k) ns' = present f ns') := by
  have hke : k.isEmpty = false := by cases k <;> simp_all
  unfold delete
  simp only [hke, Bool.false_eq_true, if_false]
  rw [show innerKey (handleOf ns).path k = kvKey ns k from rfl]
  constructor
  · intro ns' k' h'
    unfold view
    rw [Flat.get_del]
    by_cases e : kvKey ns k = kvKey ns' k'
    · obtain ⟨rfl, rfl⟩ := kvKey_inj h.sepFree h'.sepFree e
      simp
    · have : ¬ (ns' = ns ∧ k' = k) := by rintro ⟨rfl, rfl⟩; exact e rfl
      simp [e, this]
  · intro ns'
    unfold present
    rw [Flat.get_del]
    simp [kvKey_ne_idxKey]

/-- `Clear` empties exactly one bucket and no index entry. -/
theorem C19_clear_refines {f : Flat} {ns : List Bytes} (h : WF ns) :
    (∀ ns' k', WF ns' → view (clear f (handleOf ns)) ns' k' =
        if ns' = ns then none else view f ns' k') ∧
    (∀ ns', present (clear f (handleOf ns)) ns' = present f ns') := by
  unfold clear
  rw [show innerKey (handleOf ns).path [] = kvKey ns [] from rfl]
  constructor
  · intro ns' k' h'
    unfold view
    rw [Flat.get_delPrefix]
    by_cases e : ns' = ns
    · subst e
      have : (kvKey ns' []).isPrefixOf (kvKey ns' k') = true :=
        (kvKey_prefix_iff h.sepFree h.sepFree).mpr ⟨rfl, k', by simp⟩
      simp [this]
    · have : (kvKey ns []).isPrefixOf (kvKey ns' k') = false := by
        cases hh : (kvKey ns []).isPrefixOf (kvKey ns' k') with
        | false => rfl
        | true => exact absurd ((kvKey_prefix_iff h.sepFree h'.sepFree).mp hh).1.symm e
      simp [this, e]
  · intro ns'
    unfold present
    rw [Flat.get_delPrefix, kvKey_prefix_idxKey]
    simp

/-- `GetByPrefix` returns exactly the entries of this bucket whose key extends
    the prefix (soundness and completeness), with bucket-relative keys. -/
theorem C19_scan_exact {f : Flat} (hn : f.NodupKeys) {ns : List Bytes} (h : WF ns) (pre : Bytes)
    (rk v : Bytes) :
    (rk, v) ∈ getByPrefix f (handleOf ns) pre ↔ (∃ s, rk = pre ++ s) ∧ view f ns rk = some v := by
  unfold getByPrefix view Flat.scan
  rw [show innerKey (handleOf ns).path pre = kvKey ns pre from rfl]
  have hlen : ∀ x, (kvKey ns x).drop ((handleOf ns).path.length + 1) = x := by
    intro x; simp [kvKey, innerKey, handleOf]
  constructor
  · intro hm
    obtain ⟨⟨fk, fv⟩, hmem, heq⟩ := List.mem_map.mp hm
    simp only [List.mem_filter] at hmem
    obtain ⟨hin, hpre⟩ := hmem
    obtain ⟨s, hs⟩ := isPrefixOf_iff.mp hpre
    simp only [Prod.mk.injEq] at heq
    obtain ⟨hk, hv⟩ := heq
    have hfk : fk = kvKey ns (pre ++ s) := by
      have hs' : fk = kvKey ns pre ++ s := hs
      rw [hs']; simp [kvKey, innerKey]
    have : rk = pre ++ s := by rw [← hk, hfk, hlen]
    subst hv
    refine ⟨⟨s, this⟩, ?_⟩
    rw [this, ← hfk]
    exact Flat.get_of_mem hn hin
  · rintro ⟨⟨s, rfl⟩, hg⟩
    refine List.mem_map.mpr ⟨(kvKey ns (pre ++ s), v), ?_, by simp [hlen]⟩
    simp only [List.mem_filter]
    exact ⟨Flat.mem_of_get hg, isPrefixOf_iff.mpr ⟨s, by simp [kvKey, innerKey]⟩⟩

/-- Creating a sub-bucket adds exactly one node to the tree and touches no entry. -/
theorem C19_newBucket_refines {f f' : Flat} {ns : List Bytes} {name : Bytes} {h' : Handle}
    (h : WF ns) (hnew : newBucket f (handleOf ns) name = .ok (f', h')) :
    WF (ns ++ [name]) ∧ h' = handleOf (ns ++ [name]) ∧ present f (ns ++ [name]) = false ∧
    (∀ ms, WF ms → present f' ms = (decide (ms = ns ++ [name]) || present f ms)) ∧
    (∀ ms k, view f' ms k = view f ms k) := by
  unfold newBucket at hnew
  by_cases hv : validName name = true
  · rw [subBucket_handleOf h.1 h.sepFree hv] at hnew
    simp only at hnew
    have hwf : WF (ns ++ [name]) := ⟨by simp, by
      intro n hn
      simp only [List.mem_append, List.mem_singleton] at hn
      rcases hn with hn | rfl
      · exact h.2 n hn
      · exact hv⟩
    split at hnew
    · cases hnew
    · rename_i hnone
      cases hnew
      refine ⟨hwf, rfl, ?_, ?_, ?_⟩
      · unfold present
        have : idxKey (ns ++ [name]) = indexKey (handleOf (ns ++ [name])).path := rfl
        rw [this, hnone]; rfl
      · intro ms hms
        unfold present
        rw [show indexKey (handleOf (ns ++ [name])).path = idxKey (ns ++ [name]) from rfl, Flat.get_put]
        by_cases e : idxKey (ns ++ [name]) = idxKey ms
        · have := idxKey_inj hwf.sepFree hms.sepFree e
          simp [e, this]
        · have : ms ≠ ns ++ [name] := by rintro rfl; exact e rfl
          simp [e, this]
      · intro ms k
        unfold view
        rw [show indexKey (handleOf (ns ++ [name])).path = idxKey (ns ++ [name]) from rfl, Flat.get_put]
        have := kvKey_ne_idxKey ms (ns ++ [name]) k
        have hne : ¬ idxKey (ns ++ [name]) = kvKey ms k := fun e => this e.symm
        simp [hne]
  · have hv' : validName name = false := by simpa using hv
    rw [subBucket_invalid _ hv'] at hnew
    cases hnew

theorem C19_newBucket_rejects_bad_name (f : Flat) (h : Handle) {name : Bytes}
    (hv : validName name = false) : newBucket f h name = .error .invalidBucketName := by
  unfold newBucket; rw [subBucket_invalid _ hv]

/-- `Bucket(name)` finds a child iff it is present (for nodes created by the API,
    whose index value is the name). -/
theorem C19_bucket_lookup {f : Flat} {ns : List Bytes} {name : Bytes} (h : WF ns)
    (hv : validName name = true) :
    bucket f (handleOf ns) name =
      (match f.get (idxKey (ns ++ [name])) with
       | some v => if v = name then some (handleOf (ns ++ [name])) else none
       | none => none) := by
  unfold bucket
  rw [subBucket_handleOf h.1 h.sepFree hv]
  rfl

/-! #### DeleteBucket: isolation.  Everything it removes lies in the subtree. -/

/-- what `deleteBucketRec` may touch when started at `ms` -/
def InSubtree (ms : List Bytes) (key : Bytes) : Prop :=
  ∃ ext, WF (ms ++ ext) ∧ (key = idxKey (ms ++ ext) ∨ ∃ k, key = kvKey (ms ++ ext) k)

theorem InSubtree.mono {ms : List Bytes} {n key : Bytes} (h : InSubtree (ms ++ [n]) key) :
    InSubtree ms key := by
  obtain ⟨ext, hw, hk⟩ := h
  exact ⟨[n] ++ ext, by simpa using hw, by simpa using hk⟩

private theorem delLoop_touch (rec : Flat → Handle → Except Err (Flat × List Bytes))
    (ms : List Bytes) (hms : WF ms)
    (hrec : ∀ n f f' batch, WF (ms ++ [n]) → rec f (handleOf (ms ++ [n])) = .ok (f', batch) →
      (∀ key, f'.get key ≠ f.get key → InSubtree (ms ++ [n]) key) ∧
      (∀ key ∈ batch, InSubtree (ms ++ [n]) key))
    (names : List Bytes) (f f' : Flat) (b0 batch : List Bytes)
    (hb0 : ∀ key ∈ b0, InSubtree ms key)
    (h : delLoop rec (handleOf ms) names f b0 = .ok (f', batch)) :
    (∀ key, f'.get key ≠ f.get key → InSubtree ms key) ∧ (∀ key ∈ batch, InSubtree ms key) := by
  induction names generalizing f b0 with
  | nil =>
    simp only [delLoop] at h
    cases h
    exact ⟨fun _ hne => absurd rfl hne, hb0⟩
  | cons n names ih =>
    simp only [delLoop] at h
    by_cases hv : validName n = true
    · rw [C19_bucket_lookup hms hv] at h
      have hwf : WF (ms ++ [n]) := ⟨by simp, by
        intro x hx
        simp only [List.mem_append, List.mem_singleton] at hx
        rcases hx with hx | rfl
        · exact hms.2 x hx
        · exact hv⟩
      split at h
      · rename_i hb
        exact ih f b0 hb0 h
      · rename_i sub hb
        have hsub : sub = handleOf (ms ++ [n]) := by
          split at hb
          · split at hb
            · cases hb; rfl
            · cases hb
          · cases hb
        subst hsub
        split at h
        · cases h
        · rename_i f1 b1 hr
          obtain ⟨t1, t2⟩ := hrec n f f1 b1 hwf hr
          have := ih f1 (b0 ++ b1) (by
            intro key hk
            simp only [List.mem_append] at hk
            rcases hk with hk | hk
            · exact hb0 key hk
            · exact (t2 key hk).mono) h
          refine ⟨?_, this.2⟩
          intro key hne
          by_cases e : f1.get key = f.get key
          · exact this.1 key (by rw [e]; exact hne)
          · exact (t1 key e).mono
    · have hnone : bucket f (handleOf ms) n = none := by
        unfold bucket
        rw [subBucket_invalid _ (by simpa using hv)]
      rw [hnone] at h
      exact ih f b0 hb0 h

private theorem deleteBucketRec_touch (fuel : Nat) :
    ∀ (ms : List Bytes) (f f' : Flat) (batch : List Bytes), WF ms →
      deleteBucketRec fuel f (handleOf ms) = .ok (f', batch) →
      (∀ key, f'.get key ≠ f.get key → InSubtree ms key) ∧
      (∀ key ∈ batch, InSubtree ms key) := by
  induction fuel with
  | zero => intro ms f f' batch _ h; simp [deleteBucketRec] at h
  | succ fuel ih =>
    intro ms f f' batch hms h
    simp only [deleteBucketRec] at h
    split at h; · cases h
    split at h; · cases h
    rename_i subnames _
    split at h; · cases h
    rename_i f1 b1 hl
    cases h
    have hloop := delLoop_touch (deleteBucketRec fuel) ms hms
      (fun n g g' b hw hr => ih (ms ++ [n]) g g' b hw hr) subnames f f1 [] b1 (by simp) hl
    constructor
    · intro key hne
      rw [Flat.get_del] at hne
      by_cases e : indexKey (handleOf ms).path = key
      · exact ⟨[], by simpa using hms, Or.inl (by rw [← e, List.append_nil]; rfl)⟩
      · simp only [e, if_false] at hne
        exact hloop.1 key hne
    · intro key hk
      simp only [List.mem_append, List.mem_map] at hk
      rcases hk with hk | ⟨⟨fk, fv⟩, hmem, rfl⟩
      · exact hloop.2 key hk
      · simp only [Flat.scan, List.mem_filter] at hmem
        obtain ⟨s, hs⟩ := isPrefixOf_iff.mp hmem.2
        have hs' : fk = innerKey (handleOf ms).path [] ++ s := hs
        exact ⟨[], by simpa using hms, Or.inr ⟨s, by
          rw [hs']; simp [kvKey, innerKey, handleOf]⟩⟩

/-- Removing a sub-bucket changes nothing outside its subtree: every flat key
    whose value differs afterwards is an index or entry key of the removed
    bucket or one of its descendants. -/
theorem C19_deleteBucket_touches_only_subtree {f f' : Flat} {ns : List Bytes} {name : Bytes}
    (h : WF ns) (hd : deleteBucket f (handleOf ns) name = .ok f') :
    ∀ key, f'.get key ≠ f.get key → InSubtree (ns ++ [name]) key := by
  unfold deleteBucket at hd
  by_cases hv : validName name = true
  · rw [C19_bucket_lookup h hv] at hd
    have hwf : WF (ns ++ [name]) := ⟨by simp, by
      intro x hx
      simp only [List.mem_append, List.mem_singleton] at hx
      rcases hx with hx | rfl
      · exact h.2 x hx
      · exact hv⟩
    split at hd
    · cases hd; intro key hne; exact absurd rfl hne
    · rename_i sub hb
      have hsub : sub = handleOf (ns ++ [name]) := by
        split at hb
        · split at hb
          · cases hb; rfl
          · cases hb
        · cases hb
      subst hsub
      split at hd
      · cases hd
      · rename_i f1 batch hr
        cases hd
        obtain ⟨t1, t2⟩ := deleteBucketRec_touch _ _ _ _ _ hwf hr
        intro key hne
        rw [Flat.get_delAll] at hne
        by_cases hc : batch.contains key = true
        · exact t2 key (by simpa using hc)
        · simp only [hc, if_false] at hne
          exact t1 key (by simpa using hne)
  · have hnone : bucket f (handleOf ns) name = none := by
      unfold bucket
      rw [subBucket_invalid _ (by simpa using hv)]
    rw [hnone] at hd
    cases hd
    intro key hne; exact absurd rfl hne

/-- a path is outside the subtree of `root` -/
def Outside (root ms : List Bytes) : Prop := ¬ ∃ ext, ms = root ++ ext

/-- Corollary in tree terms: entries and presence of every bucket that is not
    the removed one or a descendant are unchanged. -/
theorem C19_deleteBucket_isolated {f f' : Flat} {ns : List Bytes} {name : Bytes}
    (h : WF ns) (hd : deleteBucket f (handleOf ns) name = .ok f')
    {ms : List Bytes} (hms : WF ms) (hout : Outside (ns ++ [name]) ms) :
    (∀ k, view f' ms k = view f ms k) ∧ present f' ms = present f ms := by
  have key := C19_deleteBucket_touches_only_subtree h hd
  constructor
  · intro k
    unfold view
    apply Classical.byContradiction
    intro hne
    obtain ⟨ext, hw, hk⟩ := key _ hne
    rcases hk with hk | ⟨k', hk⟩
    · exact kvKey_ne_idxKey _ _ _ hk
    · exact hout ⟨ext, (kvKey_inj hms.sepFree hw.sepFree hk).1⟩
  · unfold present
    apply Classical.byContradiction
    intro hne
    have hne' : f'.get (idxKey ms) ≠ f.get (idxKey ms) := by
      intro e; rw [e] at hne; exact hne rfl
    obtain ⟨ext, hw, hk⟩ := key _ hne'
    rcases hk with hk | ⟨k', hk⟩
    · exact hout ⟨ext, idxKey_inj hms.sepFree hw.sepFree hk⟩
    · exact kvKey_ne_idxKey _ _ _ hk.symm

/-! #### transactions -/

/-- reads inside a transaction see its own writes (the transaction *is* the
    working copy), the committed state is untouched until commit -/
theorem C19_tx_isolated (s : Store) (g : Flat → Flat) :
    ({ s.begin with tx := s.begin.tx.map g }).committed = s.committed := rfl

theorem C19_tx_rollback (s : Store) (g : Flat → Flat) :
    ({ s.begin with tx := s.begin.tx.map g }).rollback = { s with tx := none } := rfl

theorem C19_tx_commit (s : Store) (g : Flat → Flat) :
    ({ s.begin with tx := s.begin.tx.map g }).commit = { committed := g s.committed, tx := none } := rfl

theorem C19_reopen_keeps_committed (s : Store) : s.reopen.committed = s.committed := rfl

theorem C19_reopen_after_commit (s : Store) (g : Flat → Flat) :
    ({ s.begin with tx := s.begin.tx.map g }).commit.reopen.committed = g s.committed := rfl

/-! #### non-vacuity: the hypotheses are met by concrete, adversarial data -/

private def a : Bytes := "km".toList
private def b : Bytes := "1_km".toList   -- not a valid name: imitates a path
example : WF [a, "acc".toList] := by
  refine ⟨by simp, ?_⟩
  intro n hn
  simp only [List.mem_cons, List.not_mem_nil, or_false] at hn
  rcases hn with rfl | rfl <;> decide
example : validName b = false := by decide
-- an entry key that imitates a sub-bucket's entry key does not leak into it:
example : kvKey [a] "x_2_km_x".toList ≠ kvKey [a, "x".toList] [] := by decide

end MassVerif.BucketStore
