/-
C17 / C16 — the byte-stream side of "each report is delivered, unmodified, in order per
connection": the receive loop of a connection (Model/Stream.lean) reassembles exactly the
units the peer wrote, however the transport cuts the byte stream into pieces, and a cut at
any point delivers a prefix.  Property theorems only (lemmas in Proofs/Stream.lean).
-/
import MassVerif.Proofs.Stream

namespace MassVerif.Stream

/-- what the peer's send loop writes for one queue entry: `none` = keep-alive (length 0) -/
def encU : Option Bytes → Bytes
  | none => enc32 0
  | some b => unit b

def evOf : Option Bytes → Ev
  | none => .ctrl
  | some b => .frame b

/-- a unit the receiver accepts: non-empty, within the receive limit, length fits the prefix -/
def Sendable (max : Nat) : Option Bytes → Prop
  | none => True
  | some b => 0 < b.length ∧ b.length ≤ max ∧ b.length < 4294967296

/-- **Chunking is irrelevant.**  Whatever pieces the transport delivers the stream in
    (a length prefix split over several reads, several units in one read, one byte at a
    time), the receiver ends in the same state and has emitted the same events as if the
    whole stream had arrived at once. -/
theorem C17_stream_chunking_irrelevant (max : Nat) (r : R) (hr : Settled max r) (chunks : List Bytes) :
    feedAll max r chunks = feed max r chunks.flatten := by
  induction chunks generalizing r with
  | nil =>
    simp only [feedAll, List.flatten_nil, feed, List.append_nil]
    by_cases hs : r.stopped = true
    · simp [hs]
    · have hs' : r.stopped = false := by simpa using hs
      rw [hr hs']; simp [hs']
      cases r; simp_all
  | cons c cs ih =>
    simp only [feedAll, List.flatten_cons]
    rw [ih _ (feed_settled max r c hr)]
    unfold feed
    by_cases hs : r.stopped = true
    · simp [hs]
    · have hs' : r.stopped = false := by simpa using hs
      simp only [hs', Bool.false_eq_true, if_false]
      have e : r.buf ++ (c ++ cs.flatten) = (r.buf ++ c) ++ cs.flatten := by simp
      rw [e, drain_append max (r.buf ++ c) cs.flatten]
      by_cases hd : (drain max (r.buf ++ c)).2.2 = true
      · simp [hd, drain_stopped_rest max _ hd]
      · have hd' : (drain max (r.buf ++ c)).2.2 = false := by simpa using hd
        simp [hd']

/-- **Exactly what was written comes out.**  A stream made of sendable units drains to
    one event per unit, in order, each frame byte for byte, with nothing left over. -/
theorem C17_stream_units (max : Nat) (us : List (Option Bytes)) (h : ∀ u ∈ us, Sendable max u) :
    drain max (us.flatMap encU) = (us.map evOf, [], false) := by
  induction us with
  | nil => rw [drain]; simp
  | cons u us ih =>
    have ih' := ih (fun v hv => h v (List.mem_cons_of_mem _ hv))
    simp only [List.flatMap_cons, List.map_cons]
    cases u with
    | none =>
      rw [drain]
      have : (encU none ++ us.flatMap encU).take 4 = enc32 0 := by simp [encU, enc32]
      have hlen : ¬ (encU none ++ us.flatMap encU).length < 4 := by simp [encU, enc32]
      have hdrop : (encU none ++ us.flatMap encU).drop 4 = us.flatMap encU := by simp [encU, enc32]
      simp only [hlen, if_false, this, be_enc32 0 (by omega), if_true, hdrop, ih', evOf]
    | some b =>
      have hb := h (some b) List.mem_cons_self
      simp only [Sendable] at hb
      rw [drain]
      have ht : (encU (some b) ++ us.flatMap encU).take 4 = enc32 b.length := by
        simp [encU, unit, enc32]
      have hlen : ¬ (encU (some b) ++ us.flatMap encU).length < 4 := by simp [encU, unit, enc32]
      have hbe := be_enc32 b.length hb.2.2
      have hz : ¬ b.length = 0 := by omega
      have hl : ¬ b.length > max := by omega
      have hs : ¬ (encU (some b) ++ us.flatMap encU).length < 4 + b.length := by
        simp [encU, unit, enc32]; omega
      have hdrop : (encU (some b) ++ us.flatMap encU).drop (4 + b.length) = us.flatMap encU := by
        have : (encU (some b)).length = 4 + b.length := by simp [encU, unit, enc32]; omega
        rw [← this, List.drop_left]
      have hbody : ((encU (some b) ++ us.flatMap encU).drop 4).take b.length = b := by
        simp [encU, unit, enc32]
      simp only [hlen, if_false, ht, hbe, hz, hl, hs, hdrop, hbody, ih', evOf]

/-- **Delivery over any transport.**  If the pieces the transport delivers make up the
    units the peer wrote, the receiver emits exactly those units, in order, unmodified,
    and is left with an empty buffer on an open connection. -/
theorem C17_stream_delivery (max : Nat) (us : List (Option Bytes)) (h : ∀ u ∈ us, Sendable max u)
    (chunks : List Bytes) (hc : chunks.flatten = us.flatMap encU) :
    feedAll max {} chunks = ({ buf := [], stopped := false }, us.map evOf) := by
  rw [C17_stream_chunking_irrelevant max {} (settled_init max), hc]
  simp [feed, C17_stream_units max us h]

/-- **A stream cut at any point** (the connection drops, the peer dies mid-frame)
    delivers a prefix of what the whole stream would have delivered: nothing out of
    order, nothing invented from a partial unit. -/
theorem C17_stream_cut_prefix (max : Nat) (pre suf : Bytes) :
    (drain max pre).1 <+: (drain max (pre ++ suf)).1 := by
  rw [drain_append]
  by_cases hd : (drain max pre).2.2 = true
  · simp [hd]
  · have hd' : (drain max pre).2.2 = false := by simpa using hd
    simp [hd']

/-- **An oversize announcement** stops the connection after the units before it were
    delivered; nothing after it is looked at (no allocation of the announced size). -/
theorem C17_stream_oversize (max : Nat) (us : List (Option Bytes)) (h : ∀ u ∈ us, Sendable max u)
    (n : Nat) (hn : max < n) (h32 : n < 4294967296) (junk : Bytes) :
    drain max (us.flatMap encU ++ (enc32 n ++ junk)) = (us.map evOf ++ [.tooLarge], [], true) := by
  rw [drain_append, C17_stream_units max us h]
  have : drain max ([] ++ (enc32 n ++ junk)) = ([.tooLarge], [], true) := by
    rw [drain]
    have ht : ([] ++ (enc32 n ++ junk)).take 4 = enc32 n := by simp [enc32]
    have hlen : ¬ ([] ++ (enc32 n ++ junk)).length < 4 := by simp [enc32]
    have hz : ¬ n = 0 := by omega
    simp only [hlen, if_false, ht, be_enc32 n h32, hz, hn, if_true]
  simp only [List.nil_append] at this
  simp [this]

/-- non-vacuity: three units (a keep-alive between two frames) arriving with the second
    length prefix split 2+2 and the rest byte-wise -/
example :
    feedAll 64 {} [[0, 0, 0, 2, 7, 8, 0, 0], [0, 0, 0, 0], [0, 3, 1], [2], [3]]
      = ({ buf := [], stopped := false }, [.frame [7, 8], .ctrl, .frame [1, 2, 3]]) :=
  C17_stream_delivery 64 [some [7, 8], none, some [1, 2, 3]]
    (by intro u hu; simp at hu; rcases hu with rfl | rfl | rfl <;> simp [Sendable]) _ (by decide)

end MassVerif.Stream
