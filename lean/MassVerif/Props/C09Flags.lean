/-
C09 — "state queries and flag filters agree with each other": the enum helpers of
poc/engine/engine.go (and engine.v2), through which every state query of the keeper
goes (`flags.States()`, `flags.Contains(state.Flag())`, `flags.IsNone()`).

The definitions these theorems are about are NOT hand-written: `Generated/Engine.lean`
is translated from the Go source on every run (go/extract/translate.go) over
`BitVec 32` / `BitVec 8`, so the statements are about what the source says now, for all
2^32 flag words and state values.  Property theorems only.
-/
import MassVerif.Generated.Engine

namespace MassVerif.Gen.Engine

/-- the states in use are exactly the four documented ones -/
theorem C09_valid_states (s : WorkSpaceState) :
    WorkSpaceState.IsValid s = true ↔ (s = Registered ∨ s = Plotting ∨ s = Ready ∨ s = Mining) := by
  unfold WorkSpaceState.IsValid FirstState LastState Registered Plotting Ready Mining
  simp only [BitVec.ule, Bool.and_eq_true, decide_eq_true_eq]
  constructor
  · intro ⟨_, h⟩
    have h3 : s.toNat ≤ 3 := h
    have : s.toNat = 0 ∨ s.toNat = 1 ∨ s.toNat = 2 ∨ s.toNat = 3 := by omega
    rcases this with h | h | h | h
    · left; exact BitVec.eq_of_toNat_eq (by simp [h])
    · right; left; exact BitVec.eq_of_toNat_eq (by simp [h])
    · right; right; left; exact BitVec.eq_of_toNat_eq (by simp [h])
    · right; right; right; exact BitVec.eq_of_toNat_eq (by simp [h])
  · rintro (h | h | h | h) <;> subst h <;> decide

/-- each state's flag is the documented constant: one bit per state, no two states share one -/
theorem C09_flags_of_states :
    WorkSpaceState.Flag Registered = SFRegistered ∧ WorkSpaceState.Flag Plotting = SFPlotting ∧
    WorkSpaceState.Flag Ready = SFReady ∧ WorkSpaceState.Flag Mining = SFMining ∧
    SFRegistered = 1#32 ∧ SFPlotting = 2#32 ∧ SFReady = 4#32 ∧ SFMining = 8#32 ∧ SFAll = 15#32 := by decide

theorem C09_flag_injective (s s' : WorkSpaceState) (h : WorkSpaceState.IsValid s = true) (h' : WorkSpaceState.IsValid s' = true)
    (e : WorkSpaceState.Flag s = WorkSpaceState.Flag s') : s = s' := by
  rcases (C09_valid_states s).mp h with rfl | rfl | rfl | rfl <;>
  rcases (C09_valid_states s').mp h' with rfl | rfl | rfl | rfl <;>
  first | rfl | (exfalso; revert e; decide)

/-- only the low four bits of a flag word matter to any query about a valid state -/
private theorem contains_low (f : WorkSpaceStateFlags) (s : WorkSpaceState) (hs : WorkSpaceState.IsValid s = true) :
    WorkSpaceStateFlags.Contains f (WorkSpaceState.Flag s) = WorkSpaceStateFlags.Contains (f &&& 15#32) (WorkSpaceState.Flag s) := by
  unfold WorkSpaceStateFlags.Contains
  have key : ∀ m : BitVec 32, 15#32 &&& m = m → ((f &&& m) == m) = (((f &&& 15#32) &&& m) == m) := by
    intro m hm
    rw [BitVec.and_assoc, hm]
  rcases (C09_valid_states s).mp hs with rfl | rfl | rfl | rfl <;> exact key _ (by decide)

private theorem low_is_4bit (f : BitVec 32) : ∃ h : BitVec 4, f &&& 15#32 = h.setWidth 32 := by
  refine ⟨f.setWidth 4, ?_⟩
  apply BitVec.eq_of_toNat_eq
  simp only [BitVec.toNat_and, BitVec.toNat_ofNat, BitVec.toNat_setWidth]
  have : (15 : Nat) % 2 ^ 32 = 2 ^ 4 - 1 := by decide
  rw [this, Nat.and_two_pow_sub_one_eq_mod]
  omega

private theorem states_eq (f g : WorkSpaceStateFlags)
    (h : ∀ s, WorkSpaceState.IsValid s = true →
      WorkSpaceStateFlags.Contains f (WorkSpaceState.Flag s) = WorkSpaceStateFlags.Contains g (WorkSpaceState.Flag s)) :
    WorkSpaceStateFlags.States f = WorkSpaceStateFlags.States g := by
  unfold WorkSpaceStateFlags.States rangeFilter
  apply List.filter_congr
  intro s hs
  apply h
  simp only [List.mem_map, List.mem_range] at hs
  obtain ⟨i, hi, rfl⟩ := hs
  have hi4 : i < 4 := by
    have : (LastState.toNat + 1 - FirstState.toNat) = 4 := by decide
    omega
  have : i = 0 ∨ i = 1 ∨ i = 2 ∨ i = 3 := by omega
  rcases this with rfl | rfl | rfl | rfl <;> decide

private theorem states_low (f : WorkSpaceStateFlags) : WorkSpaceStateFlags.States f = WorkSpaceStateFlags.States (f &&& 15#32) :=
  states_eq f _ (fun s hs => contains_low f s hs)

private theorem isNone_low (f : WorkSpaceStateFlags) : WorkSpaceStateFlags.IsNone f = WorkSpaceStateFlags.IsNone (f &&& 15#32) := by
  unfold WorkSpaceStateFlags.IsNone
  have : SFAll = 15#32 := by decide
  rw [this, BitVec.and_assoc, BitVec.and_self]

/-- **`States()` lists exactly the valid states whose flag the word contains** - for every one of the 2^32 words -/
theorem C09_states_exact (f : WorkSpaceStateFlags) (s : WorkSpaceState) :
    s ∈ WorkSpaceStateFlags.States f ↔
      (WorkSpaceState.IsValid s = true ∧ WorkSpaceStateFlags.Contains f (WorkSpaceState.Flag s) = true) := by
  constructor
  · intro h
    unfold WorkSpaceStateFlags.States rangeFilter at h
    simp only [List.mem_filter, List.mem_map, List.mem_range] at h
    obtain ⟨⟨i, hi, rfl⟩, hc⟩ := h
    refine ⟨?_, hc⟩
    have hi4 : i < 4 := by
      have : (LastState.toNat + 1 - FirstState.toNat) = 4 := by decide
      omega
    have : i = 0 ∨ i = 1 ∨ i = 2 ∨ i = 3 := by omega
    rcases this with rfl | rfl | rfl | rfl <;> decide
  · intro ⟨hv, hc⟩
    unfold WorkSpaceStateFlags.States rangeFilter
    simp only [List.mem_filter, List.mem_map, List.mem_range]
    refine ⟨?_, hc⟩
    rcases (C09_valid_states s).mp hv with rfl | rfl | rfl | rfl
    · exact ⟨0, by decide, by decide⟩
    · exact ⟨1, by decide, by decide⟩
    · exact ⟨2, by decide, by decide⟩
    · exact ⟨3, by decide, by decide⟩

/-- `States()` is in ascending order without repetition (as its comment promises): it is a sublist of the four states in order -/
theorem C09_states_ordered (f : WorkSpaceStateFlags) :
    (WorkSpaceStateFlags.States f).Sublist [Registered, Plotting, Ready, Mining] := by
  unfold WorkSpaceStateFlags.States rangeFilter
  have : (List.range (LastState.toNat + 1 - FirstState.toNat)).map (fun i => BitVec.ofNat 32 (FirstState.toNat + i))
      = [Registered, Plotting, Ready, Mining] := by decide
  rw [this]
  exact List.filter_sublist

/-- **a query for one state's flag lists exactly that state** (what `WorkSpaceInfos(state.Flag())` relies on) -/
theorem C09_single_flag (s : WorkSpaceState) (h : WorkSpaceState.IsValid s = true) :
    WorkSpaceStateFlags.States (WorkSpaceState.Flag s) = [s] := by
  rcases (C09_valid_states s).mp h with rfl | rfl | rfl | rfl <;> decide

/-- `SFAll` lists all four states, and every valid state's flag is contained in it -/
theorem C09_all : WorkSpaceStateFlags.States SFAll = [Registered, Plotting, Ready, Mining] ∧
    ∀ s, WorkSpaceState.IsValid s = true → WorkSpaceStateFlags.Contains SFAll (WorkSpaceState.Flag s) = true := by
  refine ⟨by decide, ?_⟩
  intro s h
  rcases (C09_valid_states s).mp h with rfl | rfl | rfl | rfl <;> decide

/-- **`IsNone` ⇔ the word selects no state**, for every word -/
theorem C09_isNone_iff (f : WorkSpaceStateFlags) :
    WorkSpaceStateFlags.IsNone f = true ↔ WorkSpaceStateFlags.States f = [] := by
  rw [isNone_low, states_low]
  obtain ⟨h, e⟩ := low_is_4bit f
  rw [e]
  clear e
  revert h
  decide

/-- **a union of flag words selects the union of the states** -/
theorem C09_union (f g : WorkSpaceStateFlags) (s : WorkSpaceState) :
    s ∈ WorkSpaceStateFlags.States (f ||| g) ↔ (s ∈ WorkSpaceStateFlags.States f ∨ s ∈ WorkSpaceStateFlags.States g) := by
  simp only [C09_states_exact]
  constructor
  · intro ⟨hv, hc⟩
    have key : WorkSpaceStateFlags.Contains f (WorkSpaceState.Flag s) = true ∨ WorkSpaceStateFlags.Contains g (WorkSpaceState.Flag s) = true := by
      rw [contains_low f s hv, contains_low g s hv]
      rw [contains_low (f ||| g) s hv, BitVec.and_or_distrib_right] at hc
      obtain ⟨a, ea⟩ := low_is_4bit f
      obtain ⟨b, eb⟩ := low_is_4bit g
      rw [ea, eb] at hc ⊢
      rcases (C09_valid_states s).mp hv with rfl | rfl | rfl | rfl <;> (clear ea eb; revert hc; revert a b; decide)
    rcases key with k | k
    · exact Or.inl ⟨hv, k⟩
    · exact Or.inr ⟨hv, k⟩
  · intro h
    have hv : WorkSpaceState.IsValid s = true := by rcases h with h | h <;> exact h.1
    refine ⟨hv, ?_⟩
    rw [contains_low (f ||| g) s hv, BitVec.and_or_distrib_right]
    have h' : WorkSpaceStateFlags.Contains (f &&& 15#32) (WorkSpaceState.Flag s) = true ∨
        WorkSpaceStateFlags.Contains (g &&& 15#32) (WorkSpaceState.Flag s) = true := by
      rcases h with h | h
      · left; rw [← contains_low f s hv]; exact h.2
      · right; rw [← contains_low g s hv]; exact h.2
    obtain ⟨a, ea⟩ := low_is_4bit f
    obtain ⟨b, eb⟩ := low_is_4bit g
    rw [ea, eb] at h' ⊢
    rcases (C09_valid_states s).mp hv with rfl | rfl | rfl | rfl <;> (clear ea eb h; revert h'; revert a b; decide)

/-- the five actions are exactly the documented ones -/
theorem C09_valid_actions (a : ActionType) :
    ActionType.IsValid a = true ↔ (a = Plot ∨ a = Mine ∨ a = Stop ∨ a = Remove ∨ a = Delete) := by
  revert a; decide

/-- the chia keeper's copy (poc/engine.v2) is the same, definition by definition -/
theorem C09_v2_same :
    EngineV2.WorkSpaceState.IsValid = WorkSpaceState.IsValid ∧ EngineV2.WorkSpaceState.Flag = WorkSpaceState.Flag ∧
    EngineV2.WorkSpaceStateFlags.IsNone = WorkSpaceStateFlags.IsNone ∧
    EngineV2.WorkSpaceStateFlags.Contains = WorkSpaceStateFlags.Contains ∧
    EngineV2.WorkSpaceStateFlags.States = WorkSpaceStateFlags.States ∧ EngineV2.ActionType.IsValid = ActionType.IsValid :=
  ⟨rfl, rfl, rfl, rfl, rfl, rfl⟩

/-- non-vacuity: a word with stray high bits and two state bits -/
example : WorkSpaceStateFlags.States 0xFFFF0005#32 = [Registered, Ready] := by decide

end MassVerif.Gen.Engine
