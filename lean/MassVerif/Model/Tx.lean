/-
Model of the transaction discipline of the wallet (poc/wallet/db/db.go `Update`,
and how the keystore manager uses it): a mutating API method runs ONE
`db.Update(store, closure)`; the closure issues bucket writes through the
transaction and returns the first error it sees; `Update` rolls back on error
and commits otherwise; memory is refreshed after `Update` returned nil.

Faults: a write fails, the process dies at a write, the commit fails, the
process dies right after the commit.  goleveldb law: a committed transaction is
atomic and durable, a discarded one leaves no trace.
-/
import MassVerif.Generated.Facts

namespace MassVerif.Tx

inductive Fault
  | none
  | failWrite (i : Nat)
  | crashWrite (i : Nat)
  | failCommit
  | crashCommit
  deriving DecidableEq, Repr

inductive Outcome | ok | error | crashed
  deriving DecidableEq, Repr

/-- the closure's writes against the transaction's working copy `t`, from index `i` on.
    `propagates`: the closure returns an error of a failed write (as opposed to swallowing it). -/
def runWrites {S : Type} (propagates : Bool) (f : Fault) : List (S → S) → Nat → S → Except Outcome S
  | [], _, t => .ok t
  | w :: ws, i, t =>
    if f = .crashWrite i then .error .crashed          -- the process dies; the transaction is discarded
    else if f = .failWrite i then
      if propagates then .error .error                 -- closure returns the error: `Update` rolls back
      else runWrites propagates f ws (i + 1) t         -- error swallowed: this write is skipped, the rest goes on
    else runWrites propagates f ws (i + 1) (w t)

/-- `db.Update(store, closure)`: the durable state afterwards, and how the call ended -/
def update {S : Type} (s : S) (writes : List (S → S)) (propagates : Bool) (f : Fault) : S × Outcome :=
  match runWrites propagates f writes 0 s with
  | .error o => (s, o)                                  -- rolled back / discarded
  | .ok t =>
    match f with
    | .failCommit => (s, .error)
    | .crashCommit => (t, .crashed)
    | _ => (t, .ok)

def applyAll {S : Type} (writes : List (S → S)) (s : S) : S := writes.foldl (fun t w => w t) s

/-- memory after the method returned: `assignsInTx` = the closure itself assigns in-memory state
    (it then happens whether or not the transaction commits); otherwise memory is refreshed only
    after `Update` returned nil -/
def memAfter {M : Type} (m : M) (refresh : M → M) (assignsInTx : Bool) (o : Outcome) : M :=
  match o with
  | .ok => refresh m
  | .error => if assignsInTx then refresh m else m
  | .crashed => m     -- irrelevant: the process is gone

/-- one entry of the generated facts -/
structure Site where
  name : String
  updates : Nat
  swallows : Bool
  assignsInTx : Bool
  locksOnEntry : Bool
  touchesShared : Bool
  deriving Repr, DecidableEq

def sites : List Site :=
  Facts.walletMethods.map (fun x => ⟨x.1, x.2.1, x.2.2.1, x.2.2.2.1, x.2.2.2.2.1, x.2.2.2.2.2⟩)

end MassVerif.Tx
