/-
Objects whose every method body is one critical section of one mutex
(`mu.Lock(); defer mu.Unlock()` as the first two statements): a concurrent
execution is a sequence of events — an operation is called, later its critical
section runs (atomically: the mutex excludes every other section), later it
returns the result computed there.
-/
namespace MassVerif.Lock

inductive Ev (Op Out : Type)
  | call (id : Nat) (op : Op)
  | run (id : Nat)
  | ret (id : Nat) (out : Out)

/-- bookkeeping while a trace is replayed -/
structure St (σ Op Out : Type) where
  obj : σ
  pending : List (Nat × Op)            -- called, critical section not yet run
  finished : List (Nat × Out)          -- critical section run, not yet returned
  returned : List Nat                  -- operations that have returned
  lin : List (Nat × Op × Out)          -- critical sections in the order they ran
  before : List (Nat × List Nat)       -- for each called operation: which operations had returned by then

def St.init {σ Op Out : Type} (s : σ) : St σ Op Out :=
  { obj := s, pending := [], finished := [], returned := [], lin := [], before := [] }

/-- one event; `none` = the trace is not one the object can produce -/
def stepEv {σ Op Out : Type} [DecidableEq Out] (step : σ → Op → σ × Out) (s : St σ Op Out) :
    Ev Op Out → Option (St σ Op Out)
  | .call id op =>
    if s.before.any (·.1 == id) then none            -- operation ids are unique
    else some { s with pending := (id, op) :: s.pending, before := (id, s.returned) :: s.before }
  | .run id =>
    match s.pending.find? (·.1 == id) with
    | none => none
    | some (_, op) =>
      let r := step s.obj op
      some { s with obj := r.1, pending := s.pending.filter (·.1 != id),
                    finished := (id, r.2) :: s.finished, lin := s.lin ++ [(id, op, r.2)] }
  | .ret id out =>
    match s.finished.find? (·.1 == id) with
    | none => none
    | some (_, o) =>
      if o = out then some { s with finished := s.finished.filter (·.1 != id), returned := id :: s.returned }
      else none                                        -- the caller gets what its critical section computed

def replay {σ Op Out : Type} [DecidableEq Out] (step : σ → Op → σ × Out) (s : St σ Op Out) :
    List (Ev Op Out) → Option (St σ Op Out)
  | [] => some s
  | e :: es => match stepEv step s e with
    | none => none
    | some s' => replay step s' es

/-- the sequential specification: run the operations one at a time -/
def seqRun {σ Op Out : Type} (step : σ → Op → σ × Out) (s : σ) : List Op → σ × List Out
  | [] => (s, [])
  | op :: ops =>
    let r := step s op
    let rest := seqRun step r.1 ops
    (rest.1, r.2 :: rest.2)

end MassVerif.Lock
