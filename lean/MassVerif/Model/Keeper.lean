/-
Model of the space keeper and its single plotter goroutine
(poc/engine/spacekeeper/capacity/capacity.go, space_plotter.go, workspace.go; the
v2 keeper engine.v2/spacekeeper/skchia has the same shape) as a labelled
transition system.

API actions are atomic (they run under `stateLock`).  The plotter's loop is
split into its micro-steps, one per stretch of code between two points at which
another goroutine can observe or change the shared state:

    loop top:  queue non-empty?  (and, if so, has quit been closed?)
    willPop    --pop-->      popped        `PopItem()`            (queue mutex only)
    popped     --step1-->    plotting sid  step 1 under the lock  (registered → plotting, `db.Plot()` begun)
                          |  loop top      (request void, or ready ∧ wouldMining → mining, or nothing)
    plotting   --plotEnds--> finished sid  the backend returns (complete, failed or aborted)
    finished   --step3-->    loop top      step 3 under the lock
    willRecv   --recv-->     loop top      receive + drain the channel into the queue
    willRecv   --exit-->     exited        quit was closed

`Label`s are what a schedule is made of; `micro` is the (partial) transition
function; `none` = the label is not enabled in that state.
-/
import MassVerif.Generated.Facts

namespace MassVerif.Keeper

inductive St | registered | plotting | ready | mining
  deriving DecidableEq, Repr

def St.toNat : St → Nat | .registered => 0 | .plotting => 1 | .ready => 2 | .mining => 3

/-- one workspace: the state field, membership in the four per-state maps (as the code
    maintains them: `Delete(old)`, `Set(new)`, `ws.state = new`), the all-states map, `using` -/
structure WS where
  field : St
  idx : List St                 -- the per-state maps that contain this space
  inAll : Bool
  inUse : Bool
  done : Bool                   -- the plot backend reports 100 % progress
  filesExist : Bool
  epoch : Nat := 0              -- bumped by stop/remove/delete: earlier plot/mine requests are void
  deriving DecidableEq, Repr

structure Req where
  sid : Nat
  wouldMining : Bool
  epoch : Nat := 0              -- the space's epoch when the request was made
  deriving DecidableEq, Repr

/-- where the plotter goroutine is -/
inductive Pc
  | exited                      -- no plotter goroutine (keeper not started / stopped)
  | willRecv                    -- found the queue empty; at the `select { quit, channel }`
  | willPop                     -- found the queue non-empty and quit open; about to `PopItem()`
  | popped                      -- `PopItem()` done; before step 1
  | plotting (sid : Nat)        -- step 1 moved `sid` to plotting and began its plot; waiting for the plot's result
  | finished (sid : Nat)        -- the plot returned; before step 3
  deriving DecidableEq, Repr

structure K where
  n : Nat := 0                    -- spaces are named by their ordinal 0 … n-1 (smaller = higher plotting priority)
  ws : Nat → Option WS := fun _ => none
  list : List Nat := []           -- `workSpaceList` (spaces in use, in order)
  chan : List Req := []           -- `newQueuedWorkSpaceCh`, FIFO, capacity `Facts.plotterMaxChanSize`
  queue : List Req := []          -- the plotter's priority queue
  popped : Option Req := none     -- `poppedItem`
  pc : Pc := .exited
  quitting : Bool := false        -- `quit` is closed and the plotter has not returned yet
  panicked : Bool := false        -- the plotter goroutine panicked (process death)
  deleted : List Nat := []        -- spaces whose files were erased (in order)

def K.started (k : K) : Bool := k.pc != .exited
def K.running (k : K) : Option Nat := match k.pc with | .plotting s => some s | _ => none

inductive Err | notExist | notPlotting | notStill | queueFull
  deriving DecidableEq, Repr

inductive Act | plot | mine | stop | remove | delete
  deriving DecidableEq, Repr

def chanCap : Nat := Facts.plotterMaxChanSize

def find (k : K) (sid : Nat) : Option WS := k.ws sid
def setWS (k : K) (sid : Nat) (f : WS → WS) : K := { k with ws := fun s => if s = sid then (k.ws s).map f else k.ws s }

/-- `changeState(old, new)` / the inline moves of MineWS, StopWS -/
def move (w : WS) (old new : St) : WS := { w with idx := (w.idx.filter (· != old)) ++ [new], field := new }

def inState (w : WS) (s : St) : Bool := w.idx.contains s

/-- `queue.Delete(sid)` -/
def purge (k : K) (sid : Nat) : K := { k with queue := k.queue.filter (·.sid != sid) }

/-- `cancelRequests(ws)`: bump the epoch, purge the queue -/
def cancel (k : K) (sid : Nat) : K := purge (setWS k sid (fun w => { w with epoch := w.epoch + 1 })) sid

/-- non-blocking send on the plotter channel (under the state lock): `select { case ch <- r: … default: … }` -/
def send (k : K) (r : Req) : K × Except Err Unit :=
  if k.chan.length < chanCap then ({ k with chan := k.chan ++ [r] }, .ok ())
  else (k, .error .queueFull)

def setPoppedWM (k : K) (b : Bool) : K :=
  { k with popped := k.popped.map (fun r => { r with wouldMining := b }) }

/-- one API action on one space, as coded (the part that runs under the state lock) -/
def act (k : K) (a : Act) (sid : Nat) : K × Except Err Unit :=
  match find k sid with
  | none => (k, .error .notExist)
  | some w =>
    if !(w.inAll && w.inUse) then (k, .error .notExist)
    else match a with
    | .plot =>
      if inState w .registered then send k ⟨sid, false, w.epoch⟩
      else if inState w .plotting then
        match k.popped with
        | some r => if r.sid != sid then (k, .error .notPlotting) else (setPoppedWM k false, .ok ())
        | none => ({ k with panicked := true }, .error .notPlotting)     -- `PoppedItem()` = nil is dereferenced
      else (k, .ok ())
    | .mine =>
      if inState w .registered then send k ⟨sid, true, w.epoch⟩
      else if inState w .plotting then
        match k.popped with
        | some r => if r.sid != sid then (k, .error .notPlotting) else (setPoppedWM k true, .ok ())
        | none => ({ k with panicked := true }, .error .notPlotting)
      else if inState w .ready then (setWS k sid (fun w => move w .ready .mining), .ok ())
      else (k, .ok ())
    | .stop =>
      let k := cancel k sid
      if inState w .plotting then
        match k.popped with
        | some r =>
          if r.sid != sid then (k, .error .notPlotting)
          else (setPoppedWM k false, .ok ())     -- + `ws.StopPlot()`: see `micro`
        | none => ({ k with panicked := true }, .error .notPlotting)
      else if inState w .mining then (setWS k sid (fun w => move w .mining .ready), .ok ())
      else (k, .ok ())
    | .remove =>
      let k := cancel k sid
      if inState w .registered || inState w .ready then
        ({ (setWS k sid (fun w => { w with inUse := false })) with list := k.list.filter (· != sid) }, .ok ())
      else (k, .error .notStill)
    | .delete =>
      let k := cancel k sid
      if inState w .registered || inState w .ready then
        let wipe : WS → WS := fun w =>
          { w with idx := w.idx.filter (· != w.field), inAll := false, inUse := false, filesExist := false, done := false }
        let k1 := setWS k sid wipe
        ({ k1 with list := k.list.filter (· != sid), deleted := k.deleted ++ [sid] }, .ok ())
      else (k, .error .notStill)

/-! ### the plotter -/

/-- insert into the priority queue (smaller ordinal first; FIFO among equals) -/
def enqueue (q : List Req) (r : Req) : List Req :=
  match q with
  | [] => [r]
  | x :: rest => if r.sid < x.sid then r :: x :: rest else x :: enqueue rest r

/-- the plotter returns: `wg.Wait()`, deferred `queue.Reset()` -/
def exitNow (k : K) : K := { k with pc := .exited, queue := [], popped := none, quitting := false }

/-- top of the plotter loop: `for !queue.Empty() { select { case <-quit: return; default: } …` -/
def loopTop (k : K) : K :=
  if k.queue.isEmpty then { k with pc := .willRecv }
  else if k.quitting then exitNow k
  else { k with pc := .willPop }

/-- step 3 of `plotSpace`: after `Plot()` returned -/
def step3 (k : K) (sid : Nat) : K :=
  match find k sid with
  | none => k
  | some w =>
    let wm := (k.popped.map (·.wouldMining)).getD false
    let tgt := if !w.done then St.registered else if wm then St.mining else St.ready
    setWS k sid (fun w => move w .plotting tgt)

inductive Label
  | api (a : Act) (sid : Nat)
  | recv
  | pop (wm : Bool) (ep : Nat)  -- which of the top-priority space's queued requests the heap yields (unspecified among equals)
  | step1
  | plotEnds (done : Bool)
  | step3
  | start | quit
  | exit (drained : Bool)       -- `drained`: Go's `select` took the waiting requests before it took quit
  deriving DecidableEq, Repr

/-- would this API call stop the running plot?  (`StopWS` reaches `ws.StopPlot()`) -/
def stopsPlot (k : K) (sid : Nat) : Bool :=
  match find k sid, k.popped with
  | some w, some r => w.inAll && w.inUse && inState w .plotting && r.sid == sid
  | _, _ => false

def micro (k : K) (l : Label) : Option K :=
  if k.panicked then none else
  match l with
  | .api a sid =>
    let stops := decide (a = .stop) && stopsPlot k sid
    let k1 := (act k a sid).1
    -- `StopPlot()` aborts a plot that is executing; on a plot that has not begun it does nothing
    some (if stops && k.pc == .plotting sid then { k1 with pc := .finished sid } else k1)
  | .recv =>
    if k.pc == .willRecv && !k.quitting && (!k.chan.isEmpty) then
      some (loopTop { k with queue := k.chan.foldl enqueue k.queue, chan := [] })
    else none
  | .pop wm ep =>
    if k.pc == .willPop then
      match k.queue with
      | [] => some (loopTop k)       -- purged since the loop condition was evaluated: `PopItem()` = nil, `continue`
      | top :: _ =>
        let r : Req := ⟨top.sid, wm, ep⟩
        if k.queue.contains r then some { k with queue := k.queue.erase r, popped := some r, pc := .popped }
        else none
    else none
  | .step1 =>
    if k.pc == .popped then
      match k.popped with
      | none => some { k with panicked := true }
      | some r =>
        match find k r.sid with
        | none => some (loopTop k)
        | some w =>
          if r.epoch != w.epoch then some (loopTop k)      -- stopped, removed or deleted since it was requested
          else if inState w .registered then
            -- `db.Plot()` is called before the lock is released; on a complete plot it returns at once
            some { (setWS k r.sid (fun w => move w .registered .plotting)) with
                   pc := if w.done then .finished r.sid else .plotting r.sid }
          else if inState w .ready && r.wouldMining then
            some (loopTop (setWS k r.sid (fun w => move w .ready .mining)))
          else some (loopTop k)
    else none
  | .plotEnds done =>
    match k.pc with
    | .plotting sid =>
      let k := if done then setWS k sid (fun w => { w with done := true }) else k
      some { k with pc := .finished sid }
    | _ => none
  | .step3 =>
    match k.pc with
    | .finished sid => some (loopTop (step3 k sid))
    | _ => none
  | .start =>
    if k.pc == .exited then some (loopTop { k with quitting := false }) else none
  | .quit =>
    if k.pc != .exited && !k.quitting then
      -- the monitor goroutine of an executing plot calls `StopPlot()`
      match k.pc with
      | .plotting sid => some { k with quitting := true, pc := .finished sid }
      | _ => some { k with quitting := true }
    else none
  | .exit drained =>
    if k.pc == .willRecv && k.quitting && (!drained || !k.chan.isEmpty) then
      some (exitNow { k with chan := if drained then [] else k.chan })
    else none

/-- run a schedule; `none` as soon as a label is not enabled -/
def run (k : K) : List Label → Option K
  | [] => some k
  | l :: ls => (micro k l).bind (fun k' => run k' ls)

/-! ### run to quiescence (what the plotter does when nobody interferes) -/

/-- the plotter's next step, if it can take one without the environment -/
def nextPlotter (k : K) : Option Label :=
  match k.pc with
  | .willRecv => if k.quitting then some (.exit false) else if k.chan.isEmpty then none else some .recv
  | .willPop => match k.queue with
    | r :: _ => some (.pop r.wouldMining r.epoch)
    | [] => some (.pop false 0)
  | .popped => some .step1
  | .finished _ => some .step3
  | .plotting _ => none
  | .exited => none

def settle : Nat → K → K
  | 0, k => k
  | fuel + 1, k =>
    match nextPlotter k with
    | none => k
    | some l => match micro k l with
      | none => k
      | some k' => settle fuel k'

def fuelOf (k : K) : Nat := 4 * (k.chan.length + k.queue.length) + 8

def settled (k : K) : K := settle (fuelOf k) k

/-- `getWsByFlags(workSpaceList, flags)`: spaces in use whose state field is in the flag set -/
def byFlags (k : K) (flags : Nat) : List Nat :=
  k.list.filter (fun sid => match find k sid with
    | some w => (flags / 2 ^ w.field.toNat) % 2 == 1
    | none => false)

/-- a bulk action iterates over a snapshot of the matching spaces (each under its own lock acquisition) -/
def bulk (k : K) (a : Act) (flags : Nat) : K × List (Nat × Except Err Unit) :=
  (byFlags k flags).foldl (fun (acc : K × List (Nat × Except Err Unit)) sid =>
    match micro acc.1 (.api a sid) with
    | some k' => (k', acc.2 ++ [(sid, (act acc.1 a sid).2)])
    | none => acc) (k, [])

def initK (n : Nat) : K :=
  { n := n,
    ws := fun i => if i < n then some ⟨.registered, [.registered], true, true, false, true, 0⟩ else none,
    list := List.range n }

end MassVerif.Keeper
