/-
Model of poc/wallet/keystore/hdkeychain/extendedkey.go (`ExtendedKey`: NewMaster,
Child, Neuter, String, NewKeyFromString) *as coded*, next to the BIP32
definition of child derivation, over an abstract `Crypto` record (HMAC-SHA512,
secp256k1, hash160, double-SHA256 are library functions).
-/
import MassVerif.Model.Codec

namespace MassVerif.HD
open MassVerif.Codec (Bytes natToBytes bytesToNat IsBytes)

structure Crypto where
  /-- group order of secp256k1 -/
  n : Nat
  /-- HMAC-SHA512 key data ↦ 64 bytes -/
  hmac : Bytes → Bytes → Bytes
  /-- compressed serialisation of `k·G` -/
  pub : Nat → Bytes
  /-- `serP(point(il) + parseP(K))`; `none` when `K` does not parse -/
  pubAdd : Bytes → Nat → Option Bytes
  h160 : Bytes → Bytes
  /-- first four bytes of double SHA-256 -/
  checksum : Bytes → Bytes
  /-- `HDPrivateKeyToPublicKeyID` -/
  pubVersion : Bytes → Option Bytes
  /-- `pocec.ParsePubKey` accepts -/
  pubValid : Bytes → Bool

def hardenedKeyStart : Nat := Facts.hardenedKeyStart
def maxUint8 : Nat := 255

structure XKey where
  key : Bytes            -- private scalar bytes *as held in memory* or 33-byte public key
  chainCode : Bytes
  depth : Nat
  parentFP : Bytes
  childNum : Nat
  isPrivate : Bool
  version : Bytes
  deriving DecidableEq, Repr

inductive Err | beyondMaxDepth | hardFromPublic | invalidChild | parse | unusableSeed | seedLen
  | keyLen | badChecksum | version
  deriving DecidableEq, Repr

def ser32 (i : Nat) : Bytes := [i / 2 ^ 24 % 256, i / 2 ^ 16 % 256, i / 2 ^ 8 % 256, i % 256]

/-- left-pad with zeros to `size` (`paddedAppend`, `padByteSlice`) -/
def padLeft (size : Nat) (b : Bytes) : Bytes := List.replicate (size - b.length) 0 ++ b

/-- `copy(dst[off:], src)` into a zeroed buffer of length `len` -/
def copyInto (len off : Nat) (src : Bytes) : Bytes :=
  ((List.replicate off 0 ++ src) ++ List.replicate len 0).take len

/-- `(*ExtendedKey).pubKeyBytes` -/
def pubKeyBytes (C : Crypto) (k : XKey) : Bytes :=
  if k.isPrivate then C.pub (bytesToNat k.key) else k.key

/-- the 37 bytes fed to HMAC by `Child`, as coded -/
def childData (C : Crypto) (k : XKey) (i : Nat) : Bytes :=
  (if i ≥ hardenedKeyStart then copyInto 33 1 k.key else copyInto 33 0 (pubKeyBytes C k)) ++ ser32 i

/-- the data BIP32 prescribes: `0x00 ‖ ser256(k) ‖ ser32(i)` resp. `serP(K) ‖ ser32(i)` -/
def childDataSpec (C : Crypto) (k : XKey) (i : Nat) : Bytes :=
  (if i ≥ hardenedKeyStart then 0 :: padLeft 32 (natToBytes (bytesToNat k.key)) else pubKeyBytes C k) ++ ser32 i

/-- the body of `Child` after the HMAC input has been assembled -/
def childFrom (C : Crypto) (k : XKey) (i : Nat) (data : Bytes) : Except Err XKey :=
  let ilr := C.hmac k.chainCode data
  let il := ilr.take 32
  let cc := ilr.drop 32
  let ilNum := bytesToNat il
  if ilNum ≥ C.n ∨ ilNum = 0 then .error .invalidChild
  else
    let fp := (C.h160 (pubKeyBytes C k)).take 4
    if k.isPrivate then
      let child := (ilNum + bytesToNat k.key) % C.n
      .ok { key := natToBytes child, chainCode := cc, depth := k.depth + 1, parentFP := fp,
            childNum := i, isPrivate := true, version := k.version }
    else
      match C.pubAdd k.key ilNum with
      | none => .error .parse
      | some ck =>
        .ok { key := ck, chainCode := cc, depth := k.depth + 1, parentFP := fp, childNum := i,
              isPrivate := false, version := k.version }

/-- `(*ExtendedKey).Child` -/
def child (C : Crypto) (k : XKey) (i : Nat) : Except Err XKey :=
  if k.depth = maxUint8 then .error .beyondMaxDepth
  else if !k.isPrivate && decide (i ≥ hardenedKeyStart) then .error .hardFromPublic
  else childFrom C k i (childData C k i)

/-- BIP32's CKDpriv / CKDpub on the same representation -/
def childSpec (C : Crypto) (k : XKey) (i : Nat) : Except Err XKey :=
  if k.depth = maxUint8 then .error .beyondMaxDepth
  else if !k.isPrivate && decide (i ≥ hardenedKeyStart) then .error .hardFromPublic
  else childFrom C k i (childDataSpec C k i)

/-- `(*ExtendedKey).Neuter` -/
def neuter (C : Crypto) (k : XKey) : Except Err XKey :=
  if !k.isPrivate then .ok k
  else match C.pubVersion k.version with
    | none => .error .version
    | some v => .ok { k with key := pubKeyBytes C k, isPrivate := false, version := v }

/-- `NewMaster` -/
def newMaster (C : Crypto) (seed version : Bytes) : Except Err XKey :=
  if seed.length < Facts.minSeedBytes ∨ seed.length > Facts.maxSeedBytes then .error .seedLen
  else
    let lr := C.hmac (Facts.hdMasterKey.toList.map Char.toNat) seed
    let sk := lr.take 32
    let num := bytesToNat sk
    if num ≥ C.n ∨ num = 0 then .error .unusableSeed
    else .ok { key := sk, chainCode := lr.drop 32, depth := 0, parentFP := [0, 0, 0, 0], childNum := 0,
               isPrivate := true, version := version }

/-- the 78-byte payload written by `String` (before checksum and base58) -/
def payload (C : Crypto) (k : XKey) : Bytes :=
  k.version ++ [k.depth % 256] ++ k.parentFP ++ ser32 k.childNum ++ k.chainCode ++
    (if k.isPrivate then 0 :: padLeft 32 k.key else pubKeyBytes C k)

def serialize (C : Crypto) (k : XKey) : Bytes := payload C k ++ C.checksum (payload C k)

/-- `NewKeyFromString` after base58 decoding -/
def parse (C : Crypto) (decoded : Bytes) : Except Err XKey :=
  if decoded.length ≠ 82 then .error .keyLen
  else
    let pl := decoded.take 78
    if decoded.drop 78 ≠ C.checksum pl then .error .badChecksum
    else
      let keyData := (pl.drop 45).take 33
      let isPriv := keyData.head? == some 0
      let num := bytesToNat ((pl.drop 9).take 4)
      if isPriv then
        let kd := keyData.drop 1
        let kn := bytesToNat kd
        if kn ≥ C.n ∨ kn = 0 then .error .unusableSeed
        else .ok { key := kd, chainCode := (pl.drop 13).take 32, depth := (pl.drop 4).headD 0,
                   parentFP := (pl.drop 5).take 4, childNum := num, isPrivate := true, version := pl.take 4 }
      else if !C.pubValid keyData then .error .parse
      else .ok { key := keyData, chainCode := (pl.drop 13).take 32, depth := (pl.drop 4).headD 0,
                 parentFP := (pl.drop 5).take 4, childNum := num, isPrivate := false, version := pl.take 4 }

/-- the canonical in-memory form: private scalar bytes padded to 32 -/
def norm (k : XKey) : XKey := if k.isPrivate then { k with key := padLeft 32 k.key } else k

/-- derive along a path -/
def derivePath (f : XKey → Nat → Except Err XKey) (k : XKey) : List Nat → Except Err XKey
  | [] => .ok k
  | i :: r => match f k i with
    | .ok c => derivePath f c r
    | .error e => .error e

end MassVerif.HD
