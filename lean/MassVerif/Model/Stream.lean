/-
Model of the receive loop of a cluster-mining connection
(fractal/connection/conn.go `receiveRoutine`, `readNetConn` = `io.ReadFull`):

    loop:  read exactly 4 bytes  -> size (big endian)
           size = 0              -> control message (keep-alive), continue
           size > maxRecvMsgSize -> stop the connection
           read exactly size bytes -> hand the frame to the reader's queue

The transport hands the byte stream over in chunks of any size (`net.Conn.Read`
returns whatever has arrived).  The receiver is modelled as a machine fed one
chunk at a time: it keeps the bytes it has not consumed yet and emits an event
for every unit that has become complete.
-/
namespace MassVerif.Stream

abbrev Bytes := List Nat

/-- `binary.BigEndian.Uint32` over the bytes given -/
def be (b : Bytes) : Nat := b.foldl (fun a x => a * 256 + x) 0

/-- `binary.BigEndian.PutUint32` -/
def enc32 (n : Nat) : Bytes := [n / 16777216 % 256, n / 65536 % 256, n / 256 % 256, n % 256]

inductive Ev
  | frame (data : Bytes)      -- handed to the reader's queue
  | ctrl                      -- a zero-length unit: keep-alive, nothing delivered
  | tooLarge                  -- announced length beyond the limit: the connection is stopped
  deriving DecidableEq, Repr

/-- consume every complete unit at the head of `buf`: (events, bytes left over, connection stopped) -/
def drain (max : Nat) (buf : Bytes) : List Ev × Bytes × Bool :=
  if buf.length < 4 then ([], buf, false)
  else
    if be (buf.take 4) = 0 then
      let r := drain max (buf.drop 4)
      (.ctrl :: r.1, r.2.1, r.2.2)
    else if be (buf.take 4) > max then ([.tooLarge], [], true)
    else if buf.length < 4 + be (buf.take 4) then ([], buf, false)
    else
      let r := drain max (buf.drop (4 + be (buf.take 4)))
      (.frame ((buf.drop 4).take (be (buf.take 4))) :: r.1, r.2.1, r.2.2)
termination_by buf.length
decreasing_by all_goals (simp only [List.length_drop]; omega)

structure R where
  buf : Bytes := []
  stopped : Bool := false
  deriving DecidableEq, Repr

/-- one chunk arrives -/
def feed (max : Nat) (r : R) (chunk : Bytes) : R × List Ev :=
  if r.stopped then (r, [])
  else
    let d := drain max (r.buf ++ chunk)
    ({ buf := d.2.1, stopped := d.2.2 }, d.1)

/-- a sequence of chunks arrives -/
def feedAll (max : Nat) : R → List Bytes → R × List Ev
  | r, [] => (r, [])
  | r, c :: cs =>
    let a := feed max r c
    let b := feedAll max a.1 cs
    (b.1, a.2 ++ b.2)

/-- what the sender writes for one message: length prefix, then the bytes -/
def unit (f : Bytes) : Bytes := enc32 f.length ++ f

end MassVerif.Stream
