/-
Model of /repo/poc/wallet/db/ldb/leveldb.go (the wallet's bucketed key-value
store on top of one flat leveldb keyspace).  Core-only, total, executable.

Bytes are modelled as `List Char`; the driver embeds a byte b as `Char.ofNat b`
(injective, order preserving), so every statement "for all byte strings" is an
instance of the statements proved here for all `List Char`.
-/
import MassVerif.Generated.Facts

namespace MassVerif.BucketStore

abbrev Bytes := List Char

/-- `bucketPathSep` of leveldb.go (checked against the generated fact below). -/
def sep : Char := '_'
/-- `bucketNameBucket`. -/
def idxTag : Char := 'b'

/-- `strconv.Itoa` for naturals. -/
def numeral (d : Nat) : Bytes := Nat.toDigits 10 d

/-- `isValidBucketName`. -/
def validName (n : Bytes) : Bool :=
  decide (0 < n.length) && decide (n.length ≤ Facts.maxBucketNameLen) && !n.contains sep

/-- `strings.Join(arr, "_")`. -/
def join : List Bytes → Bytes
  | [] => []
  | [a] => a
  | a :: rest => a ++ sep :: join rest

/-- `strings.Split(s, "_")` (always at least one component). -/
def split : Bytes → List Bytes
  | [] => [[]]
  | c :: cs =>
    if c = sep then [] :: split cs
    else match split cs with
      | [] => [[c]]          -- unreachable: split never returns []
      | h :: t => (c :: h) :: t

/-- The canonical path string of the bucket reached through `names`
    (top-level name first): `"<depth>_<n1>_…_<nd>"`. -/
def encPath (names : List Bytes) : Bytes :=
  numeral names.length ++ (names.map (sep :: ·)).flatten

/-- flat key of entry `k` in the bucket with path string `p`: `innerKey`. -/
def innerKey (p : Bytes) (k : Bytes) : Bytes := p ++ sep :: k
/-- flat key of the index entry of the bucket with path string `p`. -/
def indexKey (p : Bytes) : Bytes := idxTag :: sep :: p

def kvKey (names : List Bytes) (k : Bytes) : Bytes := innerKey (encPath names) k
def idxKey (names : List Bytes) : Bytes := indexKey (encPath names)

/-! ### The flat store (what goleveldb provides): a finite map, scans by prefix -/

abbrev Flat := List (Bytes × Bytes)

def Flat.get (f : Flat) (k : Bytes) : Option Bytes :=
  match f with
  | [] => none
  | (k', v) :: r => if k' = k then some v else Flat.get r k

def Flat.del (f : Flat) (k : Bytes) : Flat := f.filter (fun e => !(e.1 == k))
def Flat.put (f : Flat) (k v : Bytes) : Flat := (k, v) :: f.del k
def Flat.scan (f : Flat) (pre : Bytes) : Flat := f.filter (fun e => pre.isPrefixOf e.1)
def Flat.delPrefix (f : Flat) (pre : Bytes) : Flat := f.filter (fun e => !pre.isPrefixOf e.1)
/-- delete a set of keys (a leveldb batch of deletes) -/
def Flat.delAll (f : Flat) (ks : List Bytes) : Flat := f.filter (fun e => !ks.contains e.1)

/-! ### Bucket handles, as coded -/

structure Handle where
  path : Bytes
  depth : Nat
  deriving Repr, DecidableEq

inductive Err | invalidBucketName | illegalBucketPath | illegalValue | illegalKey
  | bucketExist | notSupported
  deriving Repr, DecidableEq

/-- `(*LDBBucket).subBucket` -/
def subBucket (h : Handle) (name : Bytes) : Except Err Handle :=
  if !validName name then .error .invalidBucketName
  else
    let ss := split h.path
    if ss.length < 2 then .error .illegalBucketPath
    else .ok { depth := h.depth + 1,
               path := join (numeral (h.depth + 1) :: ss.tail ++ [name]) }

/-- `TopLevelBucket` (note: no name validation in the code) -/
def topHandle (name : Bytes) : Handle := { path := join [numeral 1, name], depth := 1 }

def topLevelBucket (f : Flat) (name : Bytes) : Option Handle :=
  match f.get (indexKey (topHandle name).path) with
  | some _ => some (topHandle name)
  | none => none

def createTopLevelBucket (f : Flat) (name : Bytes) : Except Err (Flat × Handle) :=
  if !validName name then .error .invalidBucketName
  else .ok (f.put (indexKey (topHandle name).path) name, topHandle name)

/-- `(*LDBBucket).Bucket` -/
def bucket (f : Flat) (h : Handle) (name : Bytes) : Option Handle :=
  match subBucket h name with
  | .error _ => none
  | .ok sub =>
    match f.get (indexKey sub.path) with
    | some v => if v = name then some sub else none
    | none => none

/-- `(*LDBBucket).NewBucket` -/
def newBucket (f : Flat) (h : Handle) (name : Bytes) : Except Err (Flat × Handle) :=
  match subBucket h name with
  | .error e => .error e
  | .ok sub =>
    match f.get (indexKey sub.path) with
    | some _ => .error .bucketExist
    | none => .ok (f.put (indexKey sub.path) name, sub)

/-- prefix used by `BucketNames` of a bucket handle -/
def childIdxPrefix (h : Handle) : Except Err Bytes :=
  let ss := split h.path
  if ss.length < 2 then .error .illegalBucketPath
  else .ok (indexKey (join (numeral (h.depth + 1) :: ss.tail ++ [[]])))

/-- the per-entry check of `BucketNames`: `len(ss) == want && ss[want-1] == value` -/
def namesOf (es : Flat) (want : Nat) : Except Err (List Bytes) :=
  match es with
  | [] => .ok []
  | (k, v) :: r =>
    let ss := split k
    if ss.length = want ∧ ss.getLast? = some v then
      match namesOf r want with
      | .ok ns => .ok (v :: ns)
      | .error e => .error e
    else .error .illegalValue

/-- `(*LDBBucket).BucketNames` (in the iteration order of the flat list; the
    driver sorts, leveldb iterates in key order) -/
def bucketNames (f : Flat) (h : Handle) : Except Err (List Bytes) :=
  match childIdxPrefix h with
  | .error e => .error e
  | .ok pre => namesOf (f.scan pre) (h.depth + 3)

/-- `(*LDBTransaction).BucketNames` -/
def topBucketNames (f : Flat) : Except Err (List Bytes) :=
  namesOf (f.scan (indexKey (join [numeral 1, []]))) 3

def put (f : Flat) (h : Handle) (k v : Bytes) : Except Err Flat :=
  if v.isEmpty then .error .illegalValue
  else if k.isEmpty then .error .illegalKey
  else .ok (f.put (innerKey h.path k) v)

/-- `Get`: an empty key yields `nil, nil` -/
def get (f : Flat) (h : Handle) (k : Bytes) : Option Bytes :=
  if k.isEmpty then none else f.get (innerKey h.path k)

/-- `Delete`: an empty key is silently ignored -/
def delete (f : Flat) (h : Handle) (k : Bytes) : Flat :=
  if k.isEmpty then f else f.del (innerKey h.path k)

/-- `Clear` -/
def clear (f : Flat) (h : Handle) : Flat := f.delPrefix (innerKey h.path [])

/-- `GetByPrefix`: entries with the bucket-relative key -/
def getByPrefix (f : Flat) (h : Handle) (pre : Bytes) : Flat :=
  (f.scan (innerKey h.path pre)).map (fun e => (e.1.drop (h.path.length + 1), e.2))

/-- the `for _, subname := range subnames` loop of `deleteBucket`; `rec` is the
    recursive call -/
def delLoop (rec : Flat → Handle → Except Err (Flat × List Bytes)) (b : Handle) :
    List Bytes → Flat → List Bytes → Except Err (Flat × List Bytes)
  | [], f, batch => .ok (f, batch)
  | n :: ns, f, batch =>
    match bucket f b n with
    | none => delLoop rec b ns f batch
    | some sub =>
      match rec f sub with
      | .error e => .error e
      | .ok (f', batch') => delLoop rec b ns f' (batch ++ batch')

/-- `deleteBucket` (recursive; `fuel` bounds the nesting depth explored).
    Returns the flat store after the *direct* deletes of index keys, and the
    batch of k/v keys to delete afterwards. -/
def deleteBucketRec : Nat → Flat → Handle → Except Err (Flat × List Bytes)
  | 0, _, _ => .error .notSupported     -- out of fuel: never reached for fuel > #index keys
  | fuel + 1, f, b =>
    if b.depth = 1 then .error .notSupported
    else
      match bucketNames f b with
      | .error e => .error e
      | .ok subnames =>
        match delLoop (deleteBucketRec fuel) b subnames f [] with
        | .error e => .error e
        | .ok (f', batch) =>
          let own := (f'.scan (innerKey b.path [])).map (·.1)
          .ok (f'.del (indexKey b.path), batch ++ own)

/-- `(*LDBBucket).DeleteBucket` -/
def deleteBucket (f : Flat) (h : Handle) (name : Bytes) : Except Err Flat :=
  match bucket f h name with
  | none => .ok f
  | some sub =>
    match deleteBucketRec (f.length + 1) f sub with
    | .error e => .error e
    | .ok (f', batch) => .ok (f'.delAll batch)

/-- `GetBucketMeta` followed by `FetchBucket(meta)` -/
def fetchByMeta (f : Flat) (h : Handle) : Option Handle :=
  let paths := split h.path
  let path := join paths
  match f.get (indexKey path) with
  | some _ =>
    -- Depth() = Atoi(paths[0]) (0 on error)
    let d := match paths.head? with
      | some s => (String.ofList s).toNat?.getD 0
      | none => 0
    some { path := path, depth := d }
  | none => none

/-! ### Transactions (the leveldb law: a committed transaction is atomic and
durable, a discarded one leaves no trace) -/

structure Store where
  committed : Flat
  tx : Option Flat
  deriving Repr

def Store.begin (s : Store) : Store := { s with tx := some s.committed }
def Store.commit (s : Store) : Store :=
  match s.tx with
  | some f => { committed := f, tx := none }
  | none => s
def Store.rollback (s : Store) : Store := { s with tx := none }
/-- close + reopen: an open transaction is lost -/
def Store.reopen (s : Store) : Store := { s with tx := none }

end MassVerif.BucketStore
