/-
Model of the capacity configuration of the v1 space keeper
(poc/engine/spacekeeper/capacity/capacity.go: `ConfigureBySize`, `ConfigureByPath`,
`ConfigureByBitLength`, their `fill…`/`generateFill…` helpers, `checkOSDiskSizeByPath`,
`IsCapacityAvailable`, `applyConfiguredWorkSpaces`; api/spaces.v1.go + api/util.go:
`ConfigureCapacity`, `ConfigureCapacityByDirs`, `checkMinerDiskSize`; mining/spacekeeper_v1.go:
the `uint64 → int` conversions).

Sizes are `Int` (the code computes in Go `int` = int64; the conversions from `uint64` are
modelled by `toInt64`).  A work space is identified by its wallet ordinal (one key per ordinal —
the harness uses one key counter); free-disk figures are parameters (hook H6 feeds them).
-/
import MassVerif.Generated.Facts

namespace MassVerif.Config

/-- `poc.DefaultPlotSize`: `uint64(bl * (1 << uint(bl-2)))` -/
def plotSize (bl : Nat) : Nat := bl * 2 ^ (bl - 2)

structure WS where
  ord : Nat
  bl : Nat
  dir : Nat
  plotted : Bool
  deriving DecidableEq, Repr

def WS.size (w : WS) : Int := plotSize w.bl

def total (l : List WS) : Int := (l.map WS.size).sum

/-- usable bit lengths in decreasing order (the code reverses `usableBitLength()` in place) -/
def blDesc : List Nat := Facts.usableBitLength.reverse

/-- `PlotSize(poc.MinValidDefaultBitLength)`: the "smallest plot size" of the fill functions -/
def minSize : Int := plotSize Facts.minValidDefaultBitLength

/-- `PlotSize(usableBitLength()[0])`: what `ConfigureBySize` compares the target with -/
def minUsableSize : Nat := plotSize (Facts.usableBitLength.headD 0)

/-- Go's `int(x)` for a `uint64` x -/
def toInt64 (u : Nat) : Int :=
  if u % 2 ^ 64 < 2 ^ 63 then ((u % 2 ^ 64 : Nat) : Int) else ((u % 2 ^ 64 : Nat) : Int) - 2 ^ 64

/-- insertion into a list sorted by ordinal (`getIndexedWorkSpaces` pops a priority queue whose priority is
`-ordinal + diff`, `0 ≤ diff < 1/2`: ascending ordinal) -/
def insertOrd (w : WS) : List WS → List WS
  | [] => [w]
  | x :: r => if w.ord ≤ x.ord then w :: x :: r else x :: insertOrd w r

def sortOrd : List WS → List WS
  | [] => []
  | w :: r => insertOrd w (sortOrd r)

/-- the order in which a fill pass visits the indexed spaces: bit length decreasing, ordinal increasing -/
def candidates (index : List WS) : List WS :=
  blDesc.flatMap (fun bl => (sortOrd index).filter (fun w => w.bl == bl))

/-- `fillSpaceListBySize` / `fillSpaceListByPathSize` (the loop): take every visited space that still fits.
(The by-path variant skips spaces of other directories; the model hands it the directory's spaces only.) -/
def fill : List WS → Int → Int → List WS × Int
  | [], cur, _ => ([], cur)
  | w :: r, cur, target =>
    if cur + w.size > target then fill r cur target
    else
      let res := fill r (cur + w.size) target
      (w :: res.1, res.2)

/-- the "target satisfied" test at the end of the fill functions -/
def fillFinished (cur target : Int) : Bool :=
  cur == target || decide (target - cur < minSize)

/-- the inner `for` of `generateFillSpaceListBySize`: create spaces of one size while one still fits -/
def genLoop (sz cur target : Int) : Nat :=
  if 0 < sz ∧ sz ≤ target - cur then genLoop sz (cur + sz) target + 1 else 0
termination_by (target - cur).toNat
decreasing_by omega

/-- the outer loop over the usable bit lengths, largest first: bit lengths of the spaces to create -/
def genAll : List Nat → Int → Int → List Nat × Int
  | [], cur, _ => ([], cur)
  | bl :: r, cur, target =>
    let n := genLoop (plotSize bl) cur target
    let res := genAll r (cur + n * plotSize bl) target
    (List.replicate n bl ++ res.1, res.2)

inductive Err
  | underSize | configuredNothing | cannotGenerate | diskNotEnough | invalidRequired | invalidPathSize
  | apiInvalidCapacity
  deriving DecidableEq, Repr

/-- `checkOSDiskSizeByPath` -/
def checkDisk (required : Int) (free : Nat) : Option Err :=
  if required < 0 then some .invalidRequired
  else if required ≥ free then some .diskNotEnough
  else none

/-- the keeper (what configuration reads and writes) and its surroundings -/
structure K where
  index : List WS := []          -- indexed spaces
  dbDirs : List Nat := []
  inUse : List WS := []          -- workSpaceList
  configured : Bool := false
  allowNew : Bool := true
  nextOrd : Nat := 0             -- the wallet's key counter
  files : List WS := []          -- plot files on disk
  free : List (Nat × Nat) := []  -- free bytes per directory

/-- `sk.dbDirs[0]` -/
def K.dir0 (k : K) : Nat := k.dbDirs.headD 0

def K.freeOf (k : K) (d : Nat) : Nat := ((k.free.find? (·.1 == d)).map (·.2)).getD 0

/-- the spaces `generateNewWorkSpaceByPath` creates for a list of bit lengths: consecutive fresh ordinals -/
def mkNew (dir : Nat) : List Nat → Nat → List WS
  | [], _ => []
  | bl :: r, o => ⟨o, bl, dir, false⟩ :: mkNew dir r (o + 1)

def K.addNew (k : K) (new : List WS) : K :=
  { k with index := k.index ++ new, files := k.files ++ new, nextOrd := k.nextOrd + new.length }

/-- `useWorkSpace` over the priority-ordered list: no space twice -/
def dedup : List WS → List WS → List WS
  | [], acc => acc
  | w :: r, acc => if acc.any (fun x => x.ord == w.ord && x.bl == w.bl) then dedup r acc else dedup r (acc ++ [w])

structure Res where
  err : Option Err
  selected : List WS := []       -- the returned infos (on success)
  created : List WS := []        -- spaces created by this call (also on failure)
  deriving Repr

/-- `applyConfiguredWorkSpaces` + the success epilogue -/
def K.apply (k : K) (sel created : List WS) : K × Res :=
  if sel.isEmpty then ({ k with configured := false }, { err := some .configuredNothing, created := created })
  else ({ k with inUse := dedup (sortOrd sel) [], configured := true }, { err := none, selected := sel, created := created })

/-- one size request against one directory filter: the fill pass, then (if the target is not yet met) the
disk check and the creation pass.  Returns the keeper after the creations. -/
def K.sizeRequest (k : K) (scope : WS → Bool) (dir : Nat) (target : Int) : K × Except Err (List WS × List WS) :=
  let f := fill (candidates (k.index.filter scope)) 0 target
  if fillFinished f.2 target then (k, .ok (f.1, []))
  else if !k.allowNew then (k, .error .cannotGenerate)
  else match checkDisk (target - f.2) (k.freeOf dir) with
    | some e => (k, .error e)
    | none =>
      let new := mkNew dir (genAll blDesc f.2 target).1 k.nextOrd
      (k.addNew new, .ok (f.1, new))

/-- `ConfigureBySize` (keeper not running, wallet unlocked) -/
def K.configureBySize (k : K) (targetU : Nat) : K × Res :=
  if targetU < minUsableSize then ({ k with configured := false }, { err := some .underSize })
  else
    match k.sizeRequest (fun _ => true) k.dir0 (toInt64 targetU) with
    | (k', .error e) => ({ k' with configured := false }, { err := some e })
    | (k', .ok (sel, new)) => k'.apply (sel ++ new) new

/-- `generateInitialIndex` re-run by `ConfigureByPath`: files in the new directories that are not indexed yet
are added (the old index stays: the function appends fresh maps and keeps using the first five) -/
def K.reindex (k : K) (dirs : List Nat) : K :=
  let add := dirs.flatMap (fun d => k.files.filter (fun w => w.dir == d))
  { k with dbDirs := dirs,
           index := add.foldl (fun idx w => if idx.any (fun x => x.ord == w.ord && x.bl == w.bl) then idx else idx ++ [w]) k.index }

/-- the per-directory loop of `ConfigureByPath` -/
def K.pathLoop (k : K) : List (Nat × Int) → List WS → List WS → K × Except Err (List WS × List WS)
  | [], sel, created => (k, .ok (sel, created))
  | (d, t) :: r, sel, created =>
    match k.sizeRequest (fun w => w.dir == d) d t with
    | (k', .error e) => (k', .error e)
    | (k', .ok (s, new)) => K.pathLoop k' r (sel ++ s ++ new) (created ++ new)

/-- the first loop of `ConfigureByPath`: every directory's fill pass and disk check, before anything is created -/
def K.precheck (k : K) : List (Nat × Int) → Option Err
  | [] => none
  | (d, t) :: r =>
    let f := fill (candidates (k.index.filter (fun w => w.dir == d))) 0 t
    if fillFinished f.2 t then K.precheck k r
    else if !k.allowNew then some .cannotGenerate
    else match checkDisk (t - f.2) (k.freeOf d) with
      | some e => some e
      | none => K.precheck k r

/-- `ConfigureByPath` (keeper not running, wallet unlocked, `len(paths) == len(sizes)`) -/
def K.configureByPath (k : K) (entries : List (Nat × Int)) : K × Res :=
  if entries.isEmpty then ({ k with configured := false }, { err := some .invalidPathSize })
  else
    let k0 := k.reindex (entries.map (·.1))
    match k0.precheck entries with
    | some e => ({ k0 with configured := false }, { err := some e })
    | none =>
      match k0.pathLoop entries [] [] with
      | (k', .error e) => ({ k' with configured := false }, { err := some e, created := k'.files.drop k0.files.length })
      | (k', .ok (sel, created)) => k'.apply sel created

/-- `fillSpaceListByBitLength` for one requested bit length: the first `count` indexed spaces of that bit length -/
def takeBl (index : List WS) (bl count : Nat) : List WS :=
  ((sortOrd index).filter (fun w => w.bl == bl)).take count

/-- the indexed spaces `fillSpaceListByBitLength` takes for a request -/
def selByBl (index : List WS) (req : List (Nat × Nat)) : List WS :=
  req.flatMap (fun x => takeBl index x.1 x.2)

/-- the bit lengths of the spaces still to be created -/
def missingBls (index : List WS) (req : List (Nat × Nat)) : List Nat :=
  req.flatMap (fun x => List.replicate (x.2 - (takeBl index x.1 x.2).length) x.1)

/-- the creation loop ranges over a Go map: `order` is the order in which it produced the new spaces' bit lengths
(observed); it is used when it is a rearrangement of what is missing -/
def newBls (index : List WS) (req : List (Nat × Nat)) (order : List Nat) : List Nat :=
  if order.all (fun b => req.any (fun p => p.1 == b)) &&
     req.all (fun x => order.count x.1 == (missingBls index req).count x.1) then order else missingBls index req

def blFinished (index : List WS) (req : List (Nat × Nat)) : Bool :=
  req.all (fun x => (index.any (fun w => w.bl == x.1)) && (takeBl index x.1 x.2).length == x.2)

def blRequired (index : List WS) (req : List (Nat × Nat)) : Int :=
  (req.map (fun x => ((x.2 - (takeBl index x.1 x.2).length : Nat) : Int) * plotSize x.1)).sum

/-- `ConfigureByBitLength` (counts are natural numbers: `DecodeProofList` rejects negative ones; the request is
a map, so bit lengths are distinct) -/
def K.configureByBitLength (k : K) (req : List (Nat × Nat)) (order : List Nat) : K × Res :=
  if blFinished k.index req then k.apply (selByBl k.index req) []
  else if !k.allowNew then ({ k with configured := false }, { err := some .cannotGenerate })
  else
    match checkDisk (blRequired k.index req) (k.freeOf k.dir0) with
    | some e => ({ k with configured := false }, { err := some e })
    | none =>
      let new := mkNew k.dir0 (newBls k.index req order) k.nextOrd
      (k.addNew new).apply (selByBl k.index req ++ new) new

/-! ### the API layer (api/spaces.v1.go, api/util.go) -/

/-- bytes of the plotted spaces `IsCapacityAvailable` adds to the free figure of a directory -/
def K.plottedIn (k : K) (d : Nat) : Nat :=
  let src := if k.index.any (fun w => w.dir == d) then k.index else k.files
  ((src.filter (fun w => w.dir == d && w.plotted)).map (fun w => plotSize w.bl)).sum

/-- `capacity * poc.MiB` in uint64 -/
def mibBytes (capMiB : Nat) : Nat := (capMiB * Facts.pocMiB) % 2 ^ 64

/-- `capacity * poc.MiB` overflows uint64 (the repaired handlers reject such a request) -/
def mibOverflows (capMiB : Nat) : Bool := decide (capMiB * Facts.pocMiB ≥ 2 ^ 64)

/-- `ConfigureCapacity` from `checkMinerDiskSize` on (valid passphrase and payout addresses, keeper stopped) -/
def K.apiConfigureCapacity (k : K) (capMiB : Nat) : K × Res :=
  if mibOverflows capMiB then (k, { err := some .apiInvalidCapacity })
  else if mibBytes capMiB < plotSize Facts.minValidDefaultBitLength then (k, { err := some .apiInvalidCapacity })
  else if mibBytes capMiB > k.freeOf k.dir0 then (k, { err := some .apiInvalidCapacity })
  else k.configureBySize (mibBytes capMiB)

/-- the allocation loop of `ConfigureCapacityByDirs`: per allocation, in order, `checkMinerPathCapacity` -/
def K.apiDirsCheck (k : K) : List (Nat × Nat) → Option Err
  | [] => none
  | (d, c) :: r =>
    if mibOverflows c then some .apiInvalidCapacity
    else if k.freeOf d + k.plottedIn d < mibBytes c then some .diskNotEnough
    else K.apiDirsCheck k r

/-- `ConfigureCapacityByDirs` from the allocation loop on -/
def K.apiConfigureByDirs (k : K) (allocs : List (Nat × Nat)) : K × Res :=
  match k.apiDirsCheck allocs with
  | some e => (k, { err := some e })
  | none => k.configureByPath (allocs.map (fun (d, c) => (d, toInt64 (mibBytes c))))

/-- a restart: a new keeper over the same directories and wallet indexes the files it finds there (each space once) -/
def K.restart (k : K) (dirs : List Nat) : K :=
  ({ index := [], dbDirs := dirs, inUse := [], configured := false,
     allowNew := true, nextOrd := k.nextOrd, files := k.files, free := k.free } : K).reindex dirs

end MassVerif.Config
