/-
Model of the two plotting passes of poc/engine/massdb/massdb.v1/plot.go
(`prePlotWork`, `plotWork`) over the library functions `P` and `FB`
(pocutil, MASS-SHA256 based — parameters), with windows, checkpoints and
resumption.

A pass is a list of *writes* `(position, value)` in program order; within one
window `[s, e)` the code zeroes a cache, applies the writes that land in the
window (later ones overwrite earlier ones), stores the cache at `s`, syncs, and
then records the checkpoint.  The table a pass defines is "last writer wins".
-/
import MassVerif.Generated.Facts

namespace MassVerif.Plot

/-- last writer wins -/
def lastWrite {α : Type} (ws : List (Nat × α)) (pos : Nat) : Option α :=
  match ws with
  | [] => none
  | (p, v) :: rest =>
    match lastWrite rest pos with
    | some v' => some v'
    | none => if p = pos then some v else none

/-- a table on disk: position ↦ stored value (`none` = the all-zero record) -/
abbrev Table (α : Type) := Nat → Option α

/-- one window as coded: positions in `[s, e)` get what the zeroed cache holds after
    the writes landing in the window were applied; other positions keep their content -/
def applyWindow {α : Type} (ws : List (Nat × α)) (t : Table α) (s e : Nat) : Table α :=
  fun pos => if s ≤ pos ∧ pos < e then lastWrite (ws.filter (fun w => s ≤ w.1 ∧ w.1 < e)) pos else t pos

structure PassState (α : Type) where
  table : Table α
  checkpoint : Nat

/-- the window loop of a pass: `sizes` = the window size (in positions) the available memory
    yields for each successive window (each ≥ 1: see `C10` for what a zero window does);
    `limit` = end of the table; the checkpoint written after a window is its end. -/
def runWindows {α : Type} (ws : List (Nat × α)) (limit : Nat) : List Nat → PassState α → PassState α
  | [], st => st
  | sz :: rest, st =>
    if st.checkpoint ≥ limit then st
    else
      let s := st.checkpoint
      let e := min (s + sz) limit
      runWindows ws limit rest { table := applyWindow ws st.table s e, checkpoint := e }

/-! ### the two passes -/

structure Params where
  bl : Nat
  P : Nat → Nat                 -- x ↦ y, 0 ≤ y < 2^bl
  FB : Nat → Nat → Nat          -- (x, x') ↦ z, 0 ≤ z < 2^bl

def Params.N (p : Params) : Nat := 2 ^ p.bl
def Params.half (p : Params) : Nat := p.N / 2
/-- `pocutil.FlipValue`: complement within `bl` bits -/
def Params.flip (p : Params) (y : Nat) : Nat := p.N - 1 - y

/-- position of `x` in map A -/
def posA (p : Params) (x : Nat) : Nat :=
  let y := p.P x
  if y < p.half then 2 * y else 2 * p.flip y + 1

/-- pass A: for x = 0 … N-1 ascending, write x at `posA x` (x = 0 is the zero record: no write) -/
def writesA (p : Params) : List (Nat × Nat) :=
  ((List.range p.N).filter (· ≠ 0)).map (fun x => (posA p x, x))

/-- pass B reads map A pairwise: for y ascending, `(x, x') = (A[2y], A[2y+1])`; when both are
    present, `(x, x')` goes to `FB x x'` and then `(x', x)` to `FB x' x` -/
def writesB (p : Params) (a : Table Nat) : List (Nat × (Nat × Nat)) :=
  (List.range p.half).flatMap (fun y =>
    match a (2 * y), a (2 * y + 1) with
    | some x, some x' => [(p.FB x x', (x, x')), (p.FB x' x, (x', x))]
    | _, _ => [])

/-- the table the construction defines -/
def specA (p : Params) : Table Nat := lastWrite (writesA p)
def specB (p : Params) : Table (Nat × Nat) := lastWrite (writesB p (specA p))

/-! ### as-coded window sizes -/

/-- pre-plot: the cache holds `c` records; the window is `c` rounded down to even -/
def windowA (cacheRecords : Nat) : Nat := cacheRecords - cacheRecords % 2
/-- plot: the cache holds `c` records; the window covers `c / 4` half-indices = `c / 2` table entries -/
def windowB (cacheRecords : Nat) : Nat := 2 * (cacheRecords / 4)

/-- pass A from a stored state, given the cache sizes (records) of the successive windows -/
def prePlot (p : Params) (caches : List Nat) (st : PassState Nat) : PassState Nat :=
  runWindows (writesA p) p.N (caches.map windowA) st

/-- pass B (table positions are z-entries; the stored checkpoint is in half-indices = position / 2) -/
def plot (p : Params) (a : Table Nat) (caches : List Nat) (st : PassState (Nat × Nat)) : PassState (Nat × Nat) :=
  runWindows (writesB p a) p.N (caches.map windowB) st

/-- `HashMapB.Progress`: plotted ⇔ stored checkpoint ≥ half ⇔ position checkpoint ≥ N -/
def plotted (p : Params) (st : PassState (Nat × Nat)) : Bool := decide (st.checkpoint ≥ p.N)

end MassVerif.Plot
