/-
Model of the keystore manager (poc/wallet/keystore/manager.go, addrmgr.go, db.go):
durable image (what one `db.Update` commits), memory image (what the running
instance shows), lock state and which secrets are held in memory; every API
operation with the error precedence of the code; restart.  Symbolic: a
passphrase is a token with a well-formedness bit, a keystore identity is a token
(the identity of its seed/account), secretbox/scrypt appear through their laws
(a box opens only under the passphrase it was sealed with).
-/
import MassVerif.Generated.Facts

namespace MassVerif.Wallet

/-- a passphrase: identity + does it match `^[0-9a-zA-Z@#$%^&]{6,40}$` -/
structure Pass where
  id : Nat
  wf : Bool
  deriving DecidableEq, Repr

/-- durable image of one keystore (the account bucket) -/
structure KsD where
  id : Nat
  remark : String
  ext : Nat              -- external child counter = number of external key records 0..ext-1
  int : Nat
  priv : Nat             -- id of the private passphrase the private hierarchy is sealed under
  pub : Nat              -- id of the public passphrase the public hierarchy is sealed under
  deriving DecidableEq, Repr

/-- memory image of one keystore (`AddrManager`) -/
structure KsM where
  id : Nat
  remark : String
  ext : Nat
  int : Nat
  unlocked : Bool        -- `a.unlocked`: address private keys, account private key, private crypto key and passphrase hash are present
  masterUsable : Bool    -- `masterKeyPriv` holds the key that opens the private crypto key
  deriving DecidableEq, Repr

/-- an exported keystore file -/
structure File where
  id : Nat
  remark : String
  ext : Nat
  int : Nat
  priv : Nat
  deriving DecidableEq, Repr

structure W where
  dur : List KsD := []
  mem : List KsM := []
  unlocked : Bool := false
  pubPass : Pass := ⟨0, true⟩
  files : List File := []
  deriving Repr

inductive Err
  | differentPrivPass | illegalPassphrase | illegalNewPrivPass | illegalSeed | duplicateSeed
  | invalidJson | invalidPassphrase | rejected | accountNotFound | tooMany | locked | badDigest
  | samePrivpass | samePubpass | illegalNewPubPass | openFailed | nilPointer | noKey
  deriving DecidableEq, Repr

inductive Out
  | ok
  | created (id : Nat)
  | imported (id : Nat) (remark : String)
  | file (n : Nat)
  | keys (id : Nat) (internal : Bool) (first count : Nat)
  | ordinal (o : Option Nat)
  | signed
  | err (e : Err)
  deriving DecidableEq, Repr

/-- how an import file was altered -/
inductive Tamper
  | none
  | ignored                 -- cipher, kdf, pubParams, cryptoKeyPubEnc, hdPath.Purpose, hdPath.Coin
  | authenticated           -- privParams, cryptoKeyPrivEnc, masterHDPrivKeyEnc (scrypt digest / secretbox MAC)
  | notJson
  | remark (r : String)
  | ext (n : Nat)
  | int (n : Nat)
  | account (newId : Nat)   -- a different account of the same seed: another identity (oracle-fed token)
  deriving DecidableEq, Repr

inductive Op
  | newKs (priv : Pass) (seed : Option Nat) (seedOk : Bool) (remark : String)   -- seed = identity token
  | importKs (file : Nat) (old : Pass) (new : Option Pass) (t : Tamper)
  | exportKs (id : Nat) (p : Pass)
  | deleteKs (id : Nat) (p : Pass)
  | unlock (p : Pass)
  | lock
  | next (id : Nat) (internal : Bool) (n : Nat)
  | genPub (pick : Option Nat)          -- which keystore the map iteration yielded (oracle-fed)
  | sign (id : Nat) (internal : Bool) (idx : Nat) (digestLen : Nat)
  | signForeign
  | ordinal (id : Nat) (internal : Bool) (idx : Nat)
  | ordinalForeign
  | changeRemark (id : Nat) (r : String)
  | changePriv (old new : Pass)
  | changePub (old new : Pass)
  | restart (pub : Pass)
  deriving Repr

def maxAddressesPerAccount : Nat := Facts.hardenedKeyStart - 1

def findD (w : W) (id : Nat) : Option KsD := w.dur.find? (·.id == id)
def findM (w : W) (id : Nat) : Option KsM := w.mem.find? (·.id == id)

/-- the passphrase check of `NewKeystore`/`ImportKeystore`: against *one* managed
    keystore — whichever the map iteration yields first; here the head -/
def checkOne (w : W) (p : Pass) : Bool :=
  match w.mem with
  | [] => true
  | m :: _ => match findD w m.id with
    | some d => d.priv == p.id
    | none => true

/-- `loadAddrManager` of a committed keystore -/
def load (d : KsD) : KsM := { id := d.id, remark := d.remark, ext := d.ext, int := d.int, unlocked := false, masterUsable := false }

def setMem (w : W) (id : Nat) (f : KsM → KsM) : W :=
  { w with mem := w.mem.map (fun m => if m.id == id then f m else m) }
def setDur (w : W) (id : Nat) (f : KsD → KsD) : W :=
  { w with dur := w.dur.map (fun d => if d.id == id then f d else d) }

/-- `safelyCheckPassword` succeeded on keystore `id`: its master key is zeroed -/
def zeroMaster (w : W) (id : Nat) : W := setMem w id (fun m => { m with masterUsable := false })

/-- the keystore the check was made against (head of the map iteration) has its master key zeroed -/
def zeroHead (w : W) : W := match w.mem with | m :: _ => zeroMaster w m.id | [] => w

/-- adding a loaded keystore to the running instance (`useKeystore` when the wallet is unlocked) -/
def addKs (w : W) (d : KsD) : W :=
  let m := load d
  let m := if w.unlocked then { m with unlocked := true, masterUsable := true } else m
  { w with dur := w.dur ++ [d], mem := w.mem ++ [m] }

/-- what import consumes of an altered file: remark, counters and account are not authenticated -/
def applyTamper (f : File) : Tamper → File
  | .remark r => { f with remark := r }
  | .ext n => { f with ext := n }
  | .int n => { f with int := n }
  | .account nid => { f with id := nid }
  | _ => f

/-- `createManagerKeyScope` + load of an imported file whose secrets opened -/
def importFile (w w1 : W) (f : File) (newP : Pass) : W × Out :=
  if (findD w f.id).isSome then (w1, .err .duplicateSeed)
  else
    (addKs w1 { id := f.id, remark := f.remark, ext := f.ext, int := f.int, priv := newP.id, pub := w.pubPass.id },
     .imported f.id f.remark)

def step (w : W) : Op → W × Out
  | .newKs priv seed seedOk remark =>
    if !checkOne w priv then (w, .err .differentPrivPass)
    else
      -- the successful check zeroed that keystore's master key
      let w1 := zeroHead w
      if !priv.wf then (w1, .err .illegalPassphrase)
      else if !w.pubPass.wf then (w1, .err .illegalPassphrase)
      else if priv.id == w.pubPass.id then (w1, .err .illegalNewPrivPass)
      else if !seedOk then (w1, .err .illegalSeed)
      else match seed with
        | none => (w1, .err .illegalSeed)
        | some id =>
          if (findD w id).isSome then (w1, .err .duplicateSeed)
          else (addKs w1 { id := id, remark := remark, ext := 0, int := 0, priv := priv.id, pub := w.pubPass.id }, .created id)
  | .importKs fileNo old new t =>
    let newP := match new with | some p => p | none => old
    if !newP.wf then (w, .err .illegalPassphrase)
    else if newP.id == w.pubPass.id then (w, .err .illegalNewPrivPass)
    else if !checkOne w newP then (w, .err .differentPrivPass)
    else
      let w1 := zeroHead w
      match w.files[fileNo]?, t with
      | none, _ => (w1, .err .invalidJson)
      | _, .notJson => (w1, .err .invalidJson)
      | some f, t =>
        if t = .authenticated then (w1, .err .rejected)
        else if f.priv ≠ old.id then (w1, .err .invalidPassphrase)
        else importFile w w1 (applyTamper f t) newP
  | .exportKs id p =>
    match findM w id, findD w id with
    | some _, some d =>
      if d.priv ≠ p.id then (w, .err .invalidPassphrase)
      else
        let w1 := zeroMaster w id
        ({ w1 with files := w1.files ++ [{ id := d.id, remark := d.remark, ext := d.ext, int := d.int, priv := d.priv }] },
         .file w.files.length)
    | _, _ => (w, .err .accountNotFound)
  | .deleteKs id p =>
    match findM w id, findD w id with
    | some _, some d =>
      if d.priv ≠ p.id then (w, .err .invalidPassphrase)
      else ({ w with dur := w.dur.filter (·.id != id), mem := w.mem.filter (·.id != id) }, .ok)
    | _, _ => (w, .err .accountNotFound)
  | .unlock p =>
    -- every keystore is sealed under one passphrase (C03_single_passphrase), so the first check decides
    if w.dur.any (fun d => d.priv != p.id) then (w, .err .invalidPassphrase)
    else ({ w with unlocked := true, mem := w.mem.map (fun m => { m with unlocked := true, masterUsable := true }) }, .ok)
  | .lock =>
    ({ w with unlocked := false, mem := w.mem.map (fun m => { m with unlocked := false, masterUsable := false }) }, .ok)
  | .next id internal n =>
    match findM w id, findD w id with
    | some _, some d =>
      let cur := if internal then d.int else d.ext
      if n > maxAddressesPerAccount ∨ n + cur > maxAddressesPerAccount then (w, .err .tooMany)
      else
        let w1 := setDur w id (fun d => if internal then { d with int := d.int + n } else { d with ext := d.ext + n })
        let w2 := setMem w1 id (fun m => if internal then { m with int := m.int + n } else { m with ext := m.ext + n })
        (w2, .keys id internal cur n)
    | _, _ => (w, .err .accountNotFound)
  | .genPub pick =>
    match pick with
    | none => (w, .err .accountNotFound)
    | some id =>
      match findM w id, findD w id with
      | some _, some d =>
        if 1 + d.ext > maxAddressesPerAccount then (w, .err .tooMany)
        else
          let w1 := setDur w id (fun d => { d with ext := d.ext + 1 })
          let w2 := setMem w1 id (fun m => { m with ext := m.ext + 1 })
          (w2, .keys id false d.ext 1)
      | _, _ => (w, .err .accountNotFound)
  | .sign id internal idx digestLen =>
    match findM w id with
    | some m =>
      if idx ≥ (if internal then m.int else m.ext) then (w, .err .accountNotFound)
      else if !m.unlocked then (w, .err .locked)
      else if digestLen ≠ 32 then (w, .err .badDigest)
      else (w, .signed)
    | none => (w, .err .accountNotFound)
  | .signForeign => (w, .err .accountNotFound)
  | .ordinal id internal idx =>
    match findM w id with
    | some m => if idx < (if internal then m.int else m.ext) then (w, .ordinal (some idx)) else (w, .ordinal none)
    | none => (w, .ordinal none)
  | .ordinalForeign => (w, .ordinal none)
  | .changeRemark id r =>
    match findM w id with
    | some _ => (setMem (setDur w id (fun d => { d with remark := r })) id (fun m => { m with remark := r }), .ok)
    | none => (w, .err .accountNotFound)
  | .changePriv old new =>
    if !new.wf then (w, .err .illegalPassphrase)
    else if new.id == w.pubPass.id then (w, .err .illegalNewPrivPass)
    else if new.id == old.id then (w, .err .samePrivpass)
    else if w.dur.any (fun d => d.priv != old.id) then (w, .err .invalidPassphrase)
    else
      ({ w with dur := w.dur.map (fun d => { d with priv := new.id }),
                -- the fresh master key is kept only while the wallet is unlocked
                mem := w.mem.map (fun m => { m with masterUsable := m.unlocked }) }, .ok)
  | .changePub old new =>
    if !new.wf then (w, .err .illegalPassphrase)
    else if old.id == new.id then (w, .err .samePubpass)
    else if w.dur.any (fun d => d.priv == new.id) then (w, .err .illegalNewPubPass)
    else if w.dur.any (fun d => d.pub != old.id) then (w, .err .invalidPassphrase)
    else ({ w with dur := w.dur.map (fun d => { d with pub := new.id }), pubPass := new }, .ok)
  | .restart pub =>
    if !pub.wf then (w, .err .illegalPassphrase)
    else if w.dur.any (fun d => d.pub != pub.id) then (w, .err .openFailed)
    else ({ w with mem := w.dur.map load, unlocked := false, pubPass := pub }, .ok)

def run (w : W) (ops : List Op) : W := ops.foldl (fun w op => (step w op).1) w

end MassVerif.Wallet
