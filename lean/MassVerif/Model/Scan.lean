/-
Model of the keeper's start-up scan (poc/engine/spacekeeper/capacity/strategy.go:
`generateInitialIndex`, workspace.go: `NewWorkSpace`; massdb.v1: `OpenDB`,
`CreateDB`, `loadHashMap`), as decision logic over a description of the plot
directories.

A directory entry is described by what the code reads off it: whether its
(upper-cased) name has the shape `^\d+_[A-F0-9]{66}_\d{2}\.MASSDB$`, the three
name fields, and — for the *canonical* file names the code then opens
(`<ordinal>_<lower-case hex key>_<bl>[_a].massdb`) — the header of that file.
-/
import MassVerif.Generated.Facts

namespace MassVerif.Scan

/-- the 4096-byte header of one file, as `loadHashMap` sees it -/
structure Hdr where
  sizeOk : Bool          -- at least 4096 bytes can be read
  codeOk : Bool          -- file code
  versionOk : Bool
  keyParses : Bool       -- the 33 key bytes are a public key
  hashOk : Bool          -- the stored key hash is the hash of the stored key
  typ : Nat              -- `Facts.mapTypeA` = map A, `Facts.mapTypeB` = map B, anything else is rejected
  bl : Nat
  key : Nat              -- which key (harness numbering)
  checkpoint : Nat
  deriving DecidableEq, Repr

/-- `loadHashMap` + `LoadHashMap` succeed -/
def Hdr.loads (h : Hdr) : Bool :=
  h.sizeOk && h.codeOk && h.versionOk && h.keyParses && h.hashOk && (h.typ == Facts.mapTypeA || h.typ == Facts.mapTypeB)

/-- `HashMapB.Progress`: plotted ⇔ checkpoint ≥ volume / 2, the volume being that of the header's bit length -/
def Hdr.plottedB (h : Hdr) : Bool := decide (h.checkpoint ≥ 2 ^ h.bl / 2)

/-- one directory entry, in `ReadDir` order -/
structure Entry where
  dir : Nat
  shapeOk : Bool         -- upper-cased name matches the regexp and the suffix
  ord : Nat              -- `Atoi` of the first name field
  keyValid : Bool        -- the hex field decodes to a public key
  key : Nat
  bl : Nat
  blValid : Bool         -- `EnsureBitLength`
  deriving DecidableEq, Repr

structure World where
  wallet : Nat → Option Nat                                -- key ↦ ordinal, for the wallet's keys
  file : Nat → Nat → Nat → Nat → Bool → Option Hdr         -- dir, ordinal, key, bl, isA ↦ header of the canonical file

inductive St | registered | ready
  deriving DecidableEq, Repr

structure Indexed where
  ord : Nat
  key : Nat
  bl : Nat
  dir : Nat
  state : St
  created : Bool         -- `CreateDB` ran (files were created or completed in `dir`)
  deriving DecidableEq, Repr

/-- the header of a canonical file says what its name says -/
def Hdr.matchesName (h : Hdr) (key bl : Nat) : Bool := h.key == key && h.bl == bl

/-- `OpenDB` on the canonical pair: `none` = the pair does not (fully) exist, `CreateDB` follows;
    `some none` = an error, the entry is skipped; `some (some st)` = opened -/
def openDB (w : World) (dir ord key bl : Nat) : Option (Option St) :=
  match w.file dir ord key bl false with
  | none => none                                            -- `ErrDBDoesNotExist`
  | some hb =>
    if !(hb.loads && hb.typ == Facts.mapTypeB) then some none
    else if !hb.matchesName key bl then some none          -- header vs. requested key and bit length
    else if hb.plottedB then some (some .ready)
    else match w.file dir ord key bl true with
      | none => none                                        -- map A missing: `ErrDBDoesNotExist` again
      | some ha =>
        if !(ha.loads && ha.typ == Facts.mapTypeA) then some none
        else if !ha.matchesName key bl then some none
        else some (some .registered)

/-- `CreateDB` after `ErrDBDoesNotExist`: creates what is missing, keeps what exists, then loads both -/
def createDB (w : World) (dir ord key bl : Nat) : Option St :=
  let okA := match w.file dir ord key bl true with
    | none => true                                          -- freshly created
    | some ha => ha.loads && ha.typ == Facts.mapTypeA && ha.matchesName key bl
  let okB := match w.file dir ord key bl false with
    | none => true
    | some hb => hb.loads && hb.typ == Facts.mapTypeB && hb.matchesName key bl
  if !(okA && okB) then none
  else
    -- `NewWorkSpace`: state from the progress of map B (a fresh B has checkpoint 0)
    match w.file dir ord key bl false with
    | some hb => if hb.plottedB then some .ready else some .registered
    | none => some .registered

def scanEntry (w : World) (acc : List Indexed) (e : Entry) : List Indexed :=
  if !(e.shapeOk && e.keyValid && e.blValid) then acc
  else match w.wallet e.key with
    | none => acc
    | some o =>
      if o != e.ord then acc
      else if acc.any (fun i => i.key == e.key && i.bl == e.bl) then acc      -- duplicate sid (= key and bit length)
      else match openDB w e.dir e.ord e.key e.bl with
        | some none => acc
        | some (some st) => acc ++ [⟨e.ord, e.key, e.bl, e.dir, st, false⟩]
        | none => match createDB w e.dir e.ord e.key e.bl with
          | none => acc
          | some st => acc ++ [⟨e.ord, e.key, e.bl, e.dir, st, true⟩]

def scan (w : World) (es : List Entry) : List Indexed := es.foldl (scanEntry w) []

end MassVerif.Scan
