/-
Model of one round of the v1 PoC miner (poc/engine/pocminer/miner: `solveBlock`, `syncGetBestProof`,
`getValidProofs`, `getBindingProofs`, `getQualities`, `submitBlock`).

Slots are natural numbers; a candidate's quality is a function of the slot (`VerifiedQuality` of the chain
library: a parameter), so is the target (`PoCTemplate.GetTarget`).  The wall clock appears as the `now` slot
carried by every tick of the 750 ms ticker; a better chain tip and a stop of the miner are labels between ticks.
-/
import MassVerif.Generated.Facts

namespace MassVerif.Miner

structure Cand where
  id : Nat
  err : Bool            -- the space reported an error with it (`proofs[i].Error != nil`)
  binding : Bool        -- `template.PassBinding`
  valid : Bool          -- `VerifiedQuality` does not fail (the proof verifies for the challenge)
  q : Nat → Nat         -- quality at a slot

def allowAhead : Nat := Facts.minerAllowAhead

/-- `getBindingProofs (getValidProofs skProofs)` -/
def eligible (cs : List Cand) : List Cand := (cs.filter (fun c => !c.err)).filter (fun c => c.binding)

/-- the "find best quality" loop: `bestQuality` starts at 0 and is replaced on strictly greater -/
def bestOf (el : List Cand) (s : Nat) : Option Cand × Nat :=
  el.foldl (fun acc c => if c.q s > acc.2 then (some c, c.q s) else acc) (none, 0)

inductive Attempt
  | found (c : Cand)
  | error                -- `getQualities` failed: some offered proof does not verify
  | next                 -- nobody exceeds the target at this slot

/-- one iteration of the inner loop at work slot `s` (after the quit/stale checks) -/
def attempt (el : List Cand) (target : Nat → Nat) (s : Nat) : Attempt :=
  if el.any (fun c => !c.valid) then .error
  else match bestOf el s with
    | (some c, q) => if q > target s then .found c else .next
    | (none, _) => .next

inductive Result
  | found (c : Cand) (slot : Nat)
  | quit
  | error

/-- `n` iterations of the inner loop starting at work slot `work`: the result (if the loop returned) and the work slot -/
def scanN (el : List Cand) (target : Nat → Nat) : Nat → Nat → Option Result × Nat
  | work, 0 => (none, work)
  | work, n + 1 =>
    match attempt el target work with
    | .found c => (some (.found c work), work)
    | .error => (some .error, work)
    | .next => scanN el target (work + 1) n

structure Scan where
  el : List Cand
  target : Nat → Nat
  work : Nat
  stale : Bool := false
  quit : Bool := false
  result : Option Result := none

inductive Label
  | tick (now : Nat)     -- the ticker fires while the clock is in slot `now`
  | betterTip            -- the stale monitor saw a better block
  | lesserTip            -- a block that is not better
  | stop                 -- `quit` is closed

def Scan.step (st : Scan) : Label → Scan
  | .betterTip => { st with stale := true }
  | .lesserTip => st
  | .stop => { st with quit := true }
  | .tick now =>
    if st.result.isSome then st
    else if st.quit then { st with result := some .quit }
    else if st.work > now + allowAhead then st          -- "mining too far in the future"
    else if st.stale then { st with result := some .quit }
    else
      let r := scanN st.el st.target st.work (now + allowAhead + 1 - st.work)
      { st with result := r.1, work := r.2 }

def Scan.run (st : Scan) (ls : List Label) : Scan := ls.foldl Scan.step st

/-! ### the round around the search, and the wait before submission -/

inductive After | none | stop | tip | reject
  deriving DecidableEq

inductive Outcome
  | submitted (c : Cand) (slot : Nat)
  | withheld              -- a block was built but given up while waiting for its timestamp
  | quit
  | error
  | noValidProof
  | avoidDoubleMining
  | unfinished            -- (the label list ended before the round did)

/-- `solveBlock` + `submitBlock` for one template: `mined` says whether the template's height is already in
`minedHeight`; returns the outcome and whether the height is recorded as mined afterwards -/
def round (mined : Bool) (cs : List Cand) (target : Nat → Nat) (start : Nat) (ls : List Label) (after : After) : Outcome × Bool :=
  if mined then (.avoidDoubleMining, true)
  else if (eligible cs).isEmpty then (.noValidProof, false)
  else
    match (Scan.run { el := eligible cs, target := target, work := start } ls).result with
    | none => (.unfinished, false)
    | some .quit => (.quit, false)
    | some .error => (.error, false)
    | some (.found c s) =>
      match after with
      | .none => (.submitted c s, true)
      | .reject => (.submitted c s, false)       -- handed to the chain, which refused it: not recorded
      | .stop => (.withheld, false)
      | .tip => (.withheld, false)

/-- `submitBlock`'s wait: polls every quarter slot -/
structure Wait where
  ts : Nat                 -- the block's timestamp (seconds)
  quit : Bool := false
  tipMoved : Bool := false -- the best block is no longer the block's previous block
  done : Option Bool := none   -- `some true`: handed to the chain

inductive WLabel
  | poll (now : Nat)       -- one turn of the loop while the clock shows `now` seconds
  | stop
  | tip

def Wait.step (w : Wait) : WLabel → Wait
  | .stop => { w with quit := true }
  | .tip => { w with tipMoved := true }
  | .poll now =>
    if w.done.isSome then w
    else if w.quit then { w with done := some false }
    else if now > w.ts then { w with done := some (!w.tipMoved) }
    else w

def Wait.run (w : Wait) (ls : List WLabel) : Wait := ls.foldl Wait.step w

/-- the miner over a sequence of templates: (height, would the chain accept) — heights recorded as mined -/
def rounds (mined : List Nat) : List (Nat × Bool × Bool) → List Nat × List Nat
  | [] => (mined, [])
  | (h, solved, accepted) :: r =>
    if h ∈ mined then rounds mined r
    else if solved && accepted then
      let res := rounds (h :: mined) r
      (res.1, h :: res.2)
    else rounds mined r

end MassVerif.Miner
