/-
Model of poc/wallet/keystore/mnemonic.go: checksum bits and 11-bit packing of
`NewMnemonic`, and both decoders (`EntropyFromMnemonic`, `MnemonicToByteArray`).
A sentence is modelled as its list of word indices (the word ↔ index map is the
word list, a table of 2048 distinct strings checked by the extractor at run
time); `cs` is the first byte of SHA-256 (library).
-/
import MassVerif.Model.HD

namespace MassVerif.Mnemonic
open MassVerif.Codec (Bytes natToBytes bytesToNat IsBytes)
open MassVerif.HD (padLeft)

/-- `validateEntropyBitSize` on a byte length -/
def validLen (l : Nat) : Bool := (l * 8) % 32 == 0 && decide (128 ≤ l * 8) && decide (l * 8 ≤ 256)

/-- `addChecksum`, as a number: data shifted left by `len/4` bits, filled with
    the top bits of the checksum byte -/
def addChecksumNat (cs : Bytes → Nat) (data : Bytes) : Nat :=
  let c := data.length / 4
  (List.range c).foldl (fun acc i => 2 * acc + (if cs data / 2 ^ (7 - i) % 2 = 1 then 1 else 0))
    (bytesToNat data)

/-- the word indices: `count` base-2048 digits, most significant first -/
def wordsOf : Nat → Nat → List Nat
  | 0, _ => []
  | k + 1, n => wordsOf k (n / 2048) ++ [n % 2048]

/-- `NewMnemonic` -/
def newMnemonic (cs : Bytes → Nat) (entropy : Bytes) : Option (List Nat) :=
  if !validLen entropy.length then none
  else
    let bits := entropy.length * 8
    let sentenceLength := (bits + bits / 32) / 11
    -- `addChecksum` returns minimal bytes, `SetBytes` reads them back: the number is unchanged
    some (wordsOf sentenceLength (bytesToNat (natToBytes (addChecksumNat cs entropy))))

def fromWords (ws : List Nat) : Nat := ws.foldl (fun acc w => acc * 2048 + w) 0

def validCount (n : Nat) : Bool := n % 3 == 0 && decide (12 ≤ n) && decide (n ≤ 24)

inductive DErr | invalid | invalidWord | checksum
  deriving DecidableEq, Repr

/-- `EntropyFromMnemonic` -/
def entropyFromMnemonic (cs : Bytes → Nat) (ws : List Nat) : Except DErr Bytes :=
  if !validCount ws.length then .error .invalid
  else if ws.any (· ≥ 2048) then .error .invalidWord
  else
    let b := fromWords ws
    let c := ws.length / 3                      -- checksum bits: mask = 2^c - 1
    let checksum := b % 2 ^ c
    let entropy := padLeft (ws.length / 3 * 4) (natToBytes (b / 2 ^ c))
    let ec := if ws.length ≠ 24 then cs entropy / 2 ^ (8 - c) else cs entropy
    if checksum ≠ ec then .error .checksum else .ok entropy

/-- `MnemonicToByteArray(mnemonic, true)` -/
def mnemonicToRaw (cs : Bytes → Nat) (ws : List Nat) : Except DErr Bytes :=
  if !validCount ws.length then .error .invalid
  else if ws.any (· ≥ 2048) then .error .invalid
  else
    let n := fromWords ws
    let entropyBitSize := ws.length * 11
    let checksumBitSize := entropyBitSize % 32
    let fullByteSize := (entropyBitSize - checksumBitSize) / 8 + 1
    let checksumByteSize := fullByteSize - fullByteSize % 4
    let raw := padLeft checksumByteSize (natToBytes (n / 2 ^ checksumBitSize))
    let full := padLeft fullByteSize (natToBytes n)
    let again := padLeft fullByteSize (natToBytes (addChecksumNat cs raw))
    if full ≠ again then .error .checksum else .ok raw

end MassVerif.Mnemonic
