/-
Model of the HTTP gateway's admission decision (api/gateway.go), the decimal
amount codec (api/util.go) and the workspace → API record conversion
(api/spaces.v1.go, api/spaces.v2.go, api/util.go).  Core-only, executable.
-/
import MassVerif.Generated.Facts

namespace MassVerif.Api

/-! ### remote addresses -/

/-- A remote address as `net.ResolveTCPAddr` + `IP.String()` see it:
    dotted quad (also for v4-mapped v6), a proper v6 address (16 bytes), or
    something that does not resolve. The port and a v6 zone are irrelevant to
    the decision and are dropped by the harness' canonicaliser. -/
inductive Addr
  | v4 (a b c d : Nat)
  | v6 (bytes : List Nat)
  | malformed
  deriving DecidableEq, Repr

/-- an IPv4 network as written in the source: `IP`, `CIDRMask(ones, 32)` -/
structure Net where
  a : Nat
  b : Nat
  c : Nat
  d : Nat
  ones : Nat
  deriving Repr, DecidableEq

/-- byte `i` of `net.CIDRMask(ones, 32)` -/
def maskByte (ones i : Nat) : Nat :=
  let k := min 8 (ones - 8 * i)
  256 - 2 ^ (8 - k)

/-- `(*IPNet).Contains`: a 16-byte address never matches a 4-byte network -/
def Net.contains (n : Net) : Addr → Bool
  | .v4 a b c d =>
    (n.a &&& maskByte n.ones 0) == (a &&& maskByte n.ones 0) &&
    (n.b &&& maskByte n.ones 1) == (b &&& maskByte n.ones 1) &&
    (n.c &&& maskByte n.ones 2) == (c &&& maskByte n.ones 2) &&
    (n.d &&& maskByte n.ones 3) == (d &&& maskByte n.ones 3)
  | _ => false

/-- the `lanRules` map of the source (generated fact) -/
def lanRule (key : String) : Option Net :=
  (Facts.lanRules.find? (fun r => r.1 == key)).map
    (fun r => { a := r.2.1, b := r.2.2.1, c := r.2.2.2.1, d := r.2.2.2.2.1, ones := r.2.2.2.2.2 })

structure Cfg where
  wildcard : Bool
  whitelist : List Addr        -- parsed whitelist entries (`net.ParseIP`)
  lans : List String           -- configured `allowed_lan` keys
  deriving Repr

def loopback4 : Addr := .v4 127 0 0 1
def loopback6 : Addr := .v6 [0, 0, 0, 0, 0, 0, 0, 0, 0, 0, 0, 0, 0, 0, 0, 1]

def enabledNets (cfg : Cfg) : List Net := cfg.lans.filterMap lanRule

/-- the closure returned by `getIPAccessControlFunc` -/
def allowed (cfg : Cfg) (a : Addr) : Bool :=
  if cfg.wildcard then true
  else match a with
    | .malformed => false
    | a => a == loopback4 || a == loopback6 || cfg.whitelist.contains a ||
           (enabledNets cfg).any (fun n => n.contains a)

/-- `accessControlHandler` -/
inductive Resp (α : Type) | forbidden | served (r : α)
  deriving Repr

def accessControl {α : Type} (cfg : Cfg) (inner : Addr → α) (remote : Addr) : Resp α :=
  if allowed cfg remote then .served (inner remote) else .forbidden

/-! ### decimal amounts -/

def maxwellPerMass : Nat := Facts.maxwellPerMass
def maxAmount : Nat := Facts.maxMass * Facts.maxwellPerMass

def trimRight0 (l : List Char) : List Char := (l.reverse.dropWhile (· == '0')).reverse
def trimLeft0 (l : List Char) : List Char := l.dropWhile (· == '0')

/-- `AmountToString` (argument: `int64`) -/
def amountToString (m : Int) : Option (List Char) :=
  if m > maxAmount then none
  else if m < 0 then none
  else
    let s := Nat.toDigits 10 (m.toNat + maxwellPerMass)
    let sInt := s.take (s.length - 8)
    let sFrac := trimRight0 (s.drop (s.length - 8))
    let i := Nat.ofDigitChars 10 sInt 0
    let si := Nat.toDigits 10 (i - 1)
    if sFrac.isEmpty then some si else some (si ++ '.' :: sFrac)

/-- `strings.Split(s, ".")` -/
def splitDot : List Char → List (List Char)
  | [] => [[]]
  | c :: cs =>
    if c = '.' then [] :: splitDot cs
    else match splitDot cs with
      | [] => [[c]]
      | h :: t => (c :: h) :: t

def allDigits (l : List Char) : Bool := l.all Char.isDigit

/-- `strconv.ParseInt(s, 10, 64)` -/
def parseInt64 (s : List Char) : Option Int :=
  let body (r : List Char) : Option Nat :=
    if r.isEmpty || !allDigits r then none else some (Nat.ofDigitChars 10 r 0)
  match s with
  | '+' :: r => match body r with
    | some n => if n < 2 ^ 63 then some n else none
    | none => none
  | '-' :: r => match body r with
    | some n => if n ≤ 2 ^ 63 then some (-(n : Int)) else none
    | none => none
  | r => match body r with
    | some n => if n < 2 ^ 63 then some n else none
    | none => none

/-- the integral-part preprocessing of `StringToAmount`:
    `TrimLeft(s, "0")`, and `"0"` if nothing remains -/
def sIntOf (p0 : List Char) : List Char :=
  let t := trimLeft0 p0
  if t.isEmpty then ['0'] else t

/-- range checks and the final sum of `StringToAmount` -/
def finishAmount (i f : Option Int) : Option Nat :=
  match i, f with
  | some i, some f =>
    if i < 0 ∨ i > Facts.maxMass then none
    else if f < 0 then none
    else
      let total := maxwellPerMass * i.toNat + f.toNat
      if total > maxAmount then none else some total
  | _, _ => none

/-- `StringToAmount` after the split: integral part `p0`, fractional part `p1`
    (`[]` when there is no dot) -/
def amountOfParts (p0 p1 : List Char) : Option Nat :=
  let fracRaw := trimRight0 p1
  if fracRaw.length > 8 then none
  else finishAmount (parseInt64 (sIntOf p0))
        (parseInt64 (fracRaw ++ List.replicate (8 - fracRaw.length) '0'))

/-- `StringToAmount` -/
def stringToAmount (s : List Char) : Option Nat :=
  match splitDot s with
  | [p0] => amountOfParts p0 []
  | [p0, p1] => amountOfParts p0 p1
  | _ => none

/-! ### workspace records -/

/-- The library functions involved are parameters: `h160`, the bech32-style
    encoder of binding targets, and the pay-to-pubkey-hash address encoder. -/
structure Lib where
  h160 : List Nat → List Nat
  encodeTarget : List Nat → Option String
  pocAddress : List Nat → Option String

/-- `massutil.GetBindingTarget` of the chain library -/
def Lib.bindingTarget (l : Lib) (pub : List Nat) (proofType bitLength : Nat) : Option String :=
  l.encodeTarget (l.h160 pub ++ [proofType % 256, bitLength % 256])

/-- `getBindingTarget` of api/util.go -/
def apiBindingTarget (l : Lib) (pub : List Nat) (proofType bitLength : Nat) : Option String :=
  l.encodeTarget (l.h160 pub ++ [proofType % 256, bitLength % 256])

def proofTypeDefault : Nat := 0
def proofTypeChia : Nat := 1

structure WsRecord where
  publicKey : List Nat
  address : Option String
  bindingTarget : String
  bitLength : Nat
  deriving Repr

/-- `workSpaceInfo2ProtoWorkSpace` -/
def wsRecordV1 (l : Lib) (pub : List Nat) (bl : Nat) : Option WsRecord :=
  match l.pocAddress pub, apiBindingTarget l pub proofTypeDefault bl with
  | some a, some t => some { publicKey := pub, address := some a, bindingTarget := t, bitLength := bl }
  | _, _ => none

/-- `workSpaceInfo2ProtoWorkSpaceV2` -/
def wsRecordV2 (l : Lib) (pub plotId : List Nat) (k : Nat) : Option WsRecord :=
  match apiBindingTarget l plotId proofTypeChia k with
  | some t => some { publicKey := pub, address := none, bindingTarget := t, bitLength := k }
  | none => none

end MassVerif.Api
