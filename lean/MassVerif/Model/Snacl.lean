/-
Model of poc/wallet/keystore/snacl/snacl.go: the 88-byte parameter block
(`SecretKey.Marshal` / `Unmarshal`: salt ‖ digest ‖ N ‖ R ‖ P, the three numbers as 8
little-endian bytes of `uint64(int)`), the passphrase check of `DeriveKey` and the
box format of `CryptoKey.Encrypt` / `Decrypt` (nonce ‖ sealed).  scrypt, SHA-256 and
secretbox are parameters.
-/
namespace MassVerif.Snacl

def keySize : Nat := 32
def digestSize : Nat := 32
def nonceSize : Nat := 24
def blockSize : Nat := keySize + digestSize + 24

/-- `binary.LittleEndian.PutUint64(b[:8], v)`: byte by byte -/
def le : Nat → Nat → List Nat
  | _, 0 => []
  | v, n + 1 => v % 256 :: le (v / 256) n

/-- `binary.LittleEndian.Uint64` (on any number of bytes) -/
def fromLE : List Nat → Nat
  | [] => 0
  | b :: r => b + 256 * fromLE r

structure Params where
  salt : List Nat      -- 32 bytes
  digest : List Nat    -- 32 bytes
  n : Nat              -- `int`, as the `uint64` it is stored as
  r : Nat
  p : Nat
  deriving DecidableEq, Repr

/-- `Marshal` -/
def marshal (q : Params) : List Nat := q.salt ++ q.digest ++ le q.n 8 ++ le q.r 8 ++ le q.p 8

/-- `Unmarshal`: `none` = `ErrMalformed` (any length but 88) -/
def unmarshal (b : List Nat) : Option Params :=
  if b.length ≠ blockSize then none
  else some { salt := b.take 32, digest := (b.drop 32).take 32,
              n := fromLE ((b.drop 64).take 8), r := fromLE ((b.drop 72).take 8), p := fromLE ((b.drop 80).take 8) }

/-- `int(uint64)`: what Go's `int` holds after `Unmarshal` -/
def toInt (v : Nat) : Int := if v < 2 ^ 63 then (v : Int) else (v : Int) - 2 ^ 64

inductive DeriveErr | scrypt | invalidPassword
  deriving DecidableEq, Repr

/-- `DeriveKey`: scrypt (which refuses parameters it does not like), then the digest of the derived key against the stored one -/
def deriveKey (scrypt : List Nat → Params → Option (List Nat)) (sha : List Nat → List Nat) (q : Params) (pass : List Nat) :
    Except DeriveErr (List Nat) :=
  match scrypt pass q with
  | none => .error .scrypt
  | some key => if sha key = q.digest then .ok key else .error .invalidPassword

/-- `NewSecretKey` with the salt the PRNG produced: `none` = scrypt refused -/
def newSecretKey (scrypt : List Nat → Params → Option (List Nat)) (sha : List Nat → List Nat) (salt pass : List Nat) (n r p : Nat) :
    Option (List Nat × Params) :=
  let q0 : Params := { salt := salt, digest := [], n := n, r := r, p := p }
  match scrypt pass q0 with
  | none => none
  | some key => some (key, { q0 with digest := sha key })

inductive BoxErr | malformed | decryptFailed
  deriving DecidableEq, Repr

/-- `CryptoKey.Encrypt` with the nonce the PRNG produced -/
def encrypt (sealF : List Nat → List Nat → List Nat → List Nat) (key nonce msg : List Nat) : List Nat :=
  nonce ++ sealF key nonce msg

/-- `CryptoKey.Decrypt` -/
def decrypt (open_ : List Nat → List Nat → List Nat → Option (List Nat)) (key box : List Nat) : Except BoxErr (List Nat) :=
  if box.length < nonceSize then .error .malformed
  else match open_ key (box.take nonceSize) (box.drop nonceSize) with
    | none => .error .decryptFailed
    | some m => .ok m

end MassVerif.Snacl
