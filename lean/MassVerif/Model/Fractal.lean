/-
Model of the cluster task router (fractal/superior.go `LocalSuperior`: `AddTask`, `RemoveTask`, `Subscribe`,
`Unsubscribe`, `submitCollectorMsg`; `baseSuperior.Send/Broadcast`), at message level.

A request is identified by its task id, kind and a payload number; a report by the task it names, the collector
the superior tags it with and a payload number.  Every API call of the router is one label (the calls serialise
on the router's locks; a report that finds its task's channel full becomes a waiting sender, holding nothing).
Relays (a `RemoteSuperior` behind a `RemoteCollector`) are modelled by `hop`.
-/
import MassVerif.Generated.Facts

namespace MassVerif.Fractal

structure Req where
  task : Nat
  kind : Nat            -- 1 qualities, 3 proof, 5 signature (the protocol's message types)
  payload : Nat
  deriving DecidableEq, Repr

structure Report where
  task : Nat
  cid : Nat             -- the collector the superior tags the report with
  payload : Nat
  deriving DecidableEq, Repr

def chanCap : Nat := Facts.fractalTaskChanCap

structure Sup where
  tasks : List (Nat × List Report) := []   -- open tasks: id ↦ buffered reports (oldest first)
  latest : Option Req := none              -- the latest broadcast (qualities) task
  collectors : List Nat := []              -- subscribed collectors
  inbox : List (Nat × Req) := []           -- log: requests handed to collectors, in order
  waiting : List Report := []              -- reports whose sender waits for room in its task's channel (arrival order)
  read : List Report := []                 -- log: what the tasks' waiters have read, in order
  arrived : List Report := []              -- ghost log: every report accepted for an open task, in order
  deriving Repr

inductive Label
  | addTask (r : Req) (target : Option Nat)   -- `AddTask(ctx, collectorID, req)`; `none` = uuid.Nil = broadcast
  | removeTask (tid : Nat)
  | subscribe (c : Nat)
  | unsubscribe (c : Nat)
  | report (c : Nat) (tid : Nat) (payload : Nat)   -- collector `c` reports for task `tid`
  | read (tid : Nat)                               -- the task's waiter takes one report off its channel
  deriving DecidableEq, Repr

def bufOf (s : Sup) (tid : Nat) : Option (List Report) := (s.tasks.find? (·.1 == tid)).map (·.2)

def setBuf (tasks : List (Nat × List Report)) (tid : Nat) (b : List Report) : List (Nat × List Report) :=
  tasks.map (fun e => if e.1 == tid then (tid, b) else e)

/-- after a slot became free in `tid`'s channel: the longest-waiting sender for `tid` gets through -/
def letThrough (s : Sup) (tid : Nat) : Sup :=
  match bufOf s tid, s.waiting.find? (·.task == tid) with
  | some b, some r =>
    if b.length < chanCap then
      { s with tasks := setBuf s.tasks tid (b ++ [r]), waiting := s.waiting.erase r }
    else s
  | _, _ => s

def step (s : Sup) : Label → Sup
  | .addTask r target =>
    let s1 := { s with tasks := (s.tasks.filter (·.1 != r.task)) ++ [(r.task, [])] }
    match target with
    | none => { s1 with latest := some r, inbox := s1.inbox ++ s1.collectors.map (fun c => (c, r)) }
    | some c => if c ∈ s1.collectors then { s1 with inbox := s1.inbox ++ [(c, r)] } else s1
  | .removeTask tid =>
    match bufOf s tid with
    | none => s
    | some _ =>
      { s with tasks := s.tasks.filter (·.1 != tid),
               waiting := s.waiting.filter (·.task != tid),     -- their senders get ErrClosedPipe
               latest := if (s.latest.map (·.task)) == some tid then none else s.latest }
  | .subscribe c =>
    let s1 := { s with collectors := if c ∈ s.collectors then s.collectors else s.collectors ++ [c] }
    match s.latest with
    | some r => { s1 with inbox := s1.inbox ++ [(c, r)] }
    | none => s1
  | .unsubscribe c => { s with collectors := s.collectors.filter (· != c) }
  | .report c tid p =>
    match bufOf s tid with
    | none => s                                   -- no such task: dropped
    | some b =>
      let r : Report := ⟨tid, c, p⟩
      if b.length < chanCap ∧ (s.waiting.find? (·.task == tid)).isNone then
        { s with tasks := setBuf s.tasks tid (b ++ [r]), arrived := s.arrived ++ [r] }
      else { s with waiting := s.waiting ++ [r], arrived := s.arrived ++ [r] }
  | .read tid =>
    match bufOf s tid with
    | some (r :: b) => letThrough { s with tasks := setBuf s.tasks tid b, read := s.read ++ [r] } tid
    | _ => s

def run (s : Sup) (ls : List Label) : Sup := ls.foldl step s

/-- one relay hop: the relay's superior-side connection `r` re-tags the report, nothing else changes -/
def hop (r : Nat) (x : Report) : Report := { x with cid := r }

/-- a report travelling up through the relays `path` (innermost first) -/
def relayUp (path : List Nat) (x : Report) : Report := path.foldl (fun acc r => hop r acc) x

/-! ### a connection's sender (fractal/connection/conn.go `sendRoutine`): two lanes -/

/-- messages queued for the wire: the priority lane (proof / signature messages, keep-alive) and the normal lane
(qualities messages); `wire` is what has been written to the socket, oldest first, tagged with its lane -/
structure Conn where
  prio : List Nat := []
  norm : List Nat := []
  wire : List (Bool × Nat) := []

inductive CLabel
  | sendPrio (m : Nat)        -- `SendPriority`
  | sendNorm (m : Nat)        -- `Send`
  | pump (preferNormal : Bool) -- one turn of `sendRoutine`; `preferNormal`: the inner `select` found both lanes ready and chose the normal one

def Conn.step (c : Conn) : CLabel → Conn
  | .sendPrio m => { c with prio := c.prio ++ [m] }
  | .sendNorm m => { c with norm := c.norm ++ [m] }
  | .pump preferNormal =>
    match c.prio, c.norm with
    | [], [] => c
    | p :: ps, [] => { c with prio := ps, wire := c.wire ++ [(true, p)] }
    | [], n :: ns => { c with norm := ns, wire := c.wire ++ [(false, n)] }
    | p :: ps, n :: ns =>
      if preferNormal then { c with norm := ns, wire := c.wire ++ [(false, n)] }
      else { c with prio := ps, wire := c.wire ++ [(true, p)] }

def Conn.run (c : Conn) (ls : List CLabel) : Conn := ls.foldl Conn.step c

def sentPrio : List CLabel → List Nat
  | [] => []
  | .sendPrio m :: r => m :: sentPrio r
  | _ :: r => sentPrio r

def sentNorm : List CLabel → List Nat
  | [] => []
  | .sendNorm m :: r => m :: sentNorm r
  | _ :: r => sentNorm r

end MassVerif.Fractal
