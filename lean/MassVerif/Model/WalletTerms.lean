/-
Symbolic (Dolev-Yao) model of what the wallet writes to its store, puts into an
exported keystore file and passes to the logger.  Secretbox/scrypt appear as
the constructor `enc` and the derivation rule `pass ⊢ masterKey`.

`classOf` is the table "bucket key name ↦ what the code stores under it"
(poc/wallet/keystore/db.go + manager.go); the harness records every `Put` of the
real store, opens every value with the keys it derives from the passphrases and
reports the class it observes — the correspondence for this model.
-/
import MassVerif.Generated.Facts

namespace MassVerif.WalletTerms

/-- key-encryption keys of one keystore -/
inductive KKey | masterPub | masterPriv | cryptoPub | cryptoPriv
  deriving DecidableEq, Repr

inductive Term
  | seed                                   -- the HD seed
  | xprv (path : List Nat)                 -- extended private key at a path (root = [])
  | xpub (path : List Nat)
  | pubkey (branch index : Nat)
  | key (k : KKey)                         -- a key-encryption key in the clear
  | pass (priv : Bool)                     -- the private / public passphrase
  | params (priv : Bool)                   -- scrypt salt, digest and cost parameters
  | enc (k : KKey) (body : Term)           -- secretbox under `k`
  | num                                    -- counters, account usage, coin type
  | text                                   -- remark, ids, log messages
  | pair (a b : Term)
  deriving DecidableEq, Repr

/-- what must never appear in the clear -/
def Secret : Term → Prop
  | .seed | .xprv _ | .key _ | .pass _ => True
  | _ => False

/-- which passphrase a master key is derived from -/
def passOf : KKey → Option Bool
  | .masterPub => some false
  | .masterPriv => some true
  | _ => none

/-- attacker closure over a set of observed terms -/
inductive Derivable (known : Term → Prop) : Term → Prop
  | obs {t} : known t → Derivable known t
  | fst {a b} : Derivable known (.pair a b) → Derivable known a
  | snd {a b} : Derivable known (.pair a b) → Derivable known b
  | dec {k b} : Derivable known (.enc k b) → Derivable known (.key k) → Derivable known b
  | kdf {k p} : passOf k = some p → Derivable known (.pass p) → Derivable known (.params p) → Derivable known (.key k)
  | child {path i} : Derivable known (.xprv path) → Derivable known (.xprv (path ++ [i]))
  | neuter {path} : Derivable known (.xprv path) → Derivable known (.xpub path)

/-- terms that are safe to emit: public atoms, ciphertexts, and pairs of such -/
def Emittable : Term → Prop
  | .params _ | .num | .text => True
  | .enc _ _ => True
  | .pair a b => Emittable a ∧ Emittable b
  | _ => False

/-- bucket key names of a keystore's account bucket (db.go) -/
inductive KeyName
  | mpub | mpriv | cpub | cpriv | mhdpriv | mhdpub | account | coinType | remark
  | exbPubKey | inbPubKey | exChildNum | inChildNum | accountRow | pubRecord | accountId
  deriving DecidableEq, Repr

/-- what the code stores under each name; `imported` distinguishes the one
    difference between `create` and `allocAddrMgrNamespace` (the master HD public
    key is sealed under the private crypto key on import) -/
def classOf (imported : Bool) : KeyName → Term
  | .mpub => .params false
  | .mpriv => .params true
  | .cpub => .enc .masterPub (.key .cryptoPub)
  | .cpriv => .enc .masterPriv (.key .cryptoPriv)
  | .mhdpriv => .enc .cryptoPriv (.xprv [])
  | .mhdpub => if imported then .enc .cryptoPriv (.xpub []) else .enc .cryptoPub (.xpub [])
  | .account => .num
  | .coinType => .num
  | .remark => .text
  | .exbPubKey => .enc .cryptoPub (.xpub [44, 297, 0, 0])
  | .inbPubKey => .enc .cryptoPub (.xpub [44, 297, 0, 1])
  | .exChildNum => .num
  | .inChildNum => .num
  | .accountRow => .pair (.enc .cryptoPub (.xpub [44, 297, 0])) (.enc .cryptoPriv (.xprv [44, 297, 0]))
  | .pubRecord => .enc .cryptoPub (.pubkey 0 0)
  | .accountId => .text

/-- fields of an exported keystore file (addrmgr.go `export`) -/
inductive FileField
  | remark | cipher | kdf | masterHDPrivKeyEnc | pubParams | privParams | cryptoKeyPubEnc | cryptoKeyPrivEnc
  | purpose | coin | accountNo | externalChildNum | internalChildNum
  deriving DecidableEq, Repr

def fileClass : FileField → Term
  | .remark | .cipher | .kdf => .text
  | .masterHDPrivKeyEnc => .enc .cryptoPriv (.xprv [])
  | .pubParams => .params false
  | .privParams => .params true
  | .cryptoKeyPubEnc => .enc .masterPub (.key .cryptoPub)
  | .cryptoKeyPrivEnc => .enc .masterPriv (.key .cryptoPriv)
  | _ => .num

end MassVerif.WalletTerms
